import Cx.Spec.Fast
import Cx.Spec.StdLoops
import Cx.Spec.ReRef
import Cx.Proofs.Utf8
/-
  Cx.Proofs.Fast — exactness of coregex's fast-path searchers (models: Cx.Model.Fast) with respect to the byte-level
  leftmost-first specifications of Cx.Spec.Fast, and "applicability predicate ⇒ fragment" theorems.
  Counterexamples (findings) live in Cx.Proofs.FastCex.  Core Lean only; axioms: propext, Classical.choice, Quot.sound.

  (1) CharClassSearcher  (nfa/charclass_searcher.go, charclass_extract.go)
        CharClassSearcher.searchAt_eq_spec      1 ≤ minMatch → searchAt = ccFind mem minMatch            (all h, at)
        CharClassSearcher.isMatch_eq            isMatch = (searchAt h 0).isSome                         (every minMatch)
        CharClassSearcher.findAllIndices_eq_loop 1 ≤ minMatch → findAllIndices = stdlib FindAll loop over searchAt
        CharClassSearcher.count_eq_length       count = (findAllIndices).length
        ccFind_some_iff / ccFind_none_iff / le_runLen_iff / runLen_maximal      declarative reading of the spec
        isSimpleCharClassPlus_fragment, isSimpleCharClassPlus_greedy, charClassSearcher_exact,
        charClassSearcher_eq_reference          (no hypothesis beyond acceptance: `greedy` is derived)
        refFind_plus_eq_ccFind                  ccFind = general reference matcher on greedy ASCII `cls+`
  (2) CompositeSearcher  (nfa/composite.go)
        CompositeSearcher.matchFrom_eq / searchAt_eq_spec (parts ≠ []) / isMatch_eq
        refMatch_some_iff, compFind_some_iff, compFind_none_iff    spec = lexicographically greatest valid count tuple
        isCompositeCharClassPattern_fragment / _greedy / _noZeroMax / _lastAscii / _ascii (the last needs `ClassSorted`)
        compositeSearcher_exact                 (no hypothesis beyond acceptance: `greedy`, `noZeroMax` are derived)
        refFind_composite_eq_compFind           compFind (greedy AND lazy parts) = general reference matcher on ASCII classes
        compositeSearcher_eq_reference          (hyps. `repOK`, `sorted`: parser invariants; `ascii` is derived)
  (3) anchored literal   (meta/anchored_literal.go)
        matchAnchoredLiteral_iff_spec / _eq_spec / anchoredFindAt_eq_spec / anchoredIsMatch_eq  (hyp. `WF`; `.` as the
                                                `info` says — the matcher checks the wildcard span, `wildcardOK_iff`)
        detectAnchoredLiteral_fragment (case-sensitive literals, ASCII-tested bridge), detectAnchoredLiteral_wf,
        anchoredFrag_wildcardNL, anchoredLiteral_exact   (no hypothesis beyond detection)
  (4) BranchDispatcher   (nfa/branch_dispatch.go; proofs at the END of the file, after the general `Ref` lemmas they use)
        StepSem, run_star_step / run_rep_step   the reference matcher on repetitions of any one-byte element
        decode_encode_at                        encoding bytes of a scalar ≠ U+FFFD stand at `pos` ⇔ that rune is decoded there
        BranchMatcher.match_eq (`match` = `matchFrom … 0`), AddSem, addLiteral_sem, addList_sem, rep_sem,
        add_sem                                 what `add` appends to the matcher = what the reference matcher does on the node
        add_tables, claimBytes_spec, newBranchLoop_inv, newBranchDispatcher_wf (`BranchDispatcher.WF`)
        BranchDispatcher.match_unique           at most one branch matches at offset 0
        BranchDispatcher.search_eq_first        Search = first (= only) matching branch
        run_alts_built, run_wrapped_alts, matchAt_bd     reference semantics of `\A(b1|…|bk)`
        isBranchDispatchPattern_eq              predicate = "meta builds a dispatcher"
        branchDispatcher_eq_reference, branchDispatcher_isMatch_eq_reference
                                                (hyps. `FoldSound hasFold`, `RefDepthOK re`: neither restricts the dispatcher)
  (5) ExtractFirstBytes  (nfa/firstbytes.go, after the case-folding / multi-byte fix and the assertion fix)
        extract_inv, firstBytes_complete        any pattern: non-nil ⇒ `complete`, `count` = number of members
        firstBytes_literal_orbit                every member of the `SimpleFold` orbit contributes its lead byte
        assertOnly_run                          an `isAssertionOnly` element is zero-width for the reference matcher
        extract_sound, firstBytes_filter_sound  EVERY pattern with a non-nil set (hyps. `fbFrag`: no U+FFFD literal in first
                                                position, no negative `Min` — nothing structural; `OrbitSound`: a fact
                                                about `unicode.SimpleFold`)
        firstBytes_filter_sound_wellformed      the same with U+FFFD literals allowed (`fbMinOK`), for haystacks that
                                                begin with a well-formed rune (`WellFormedAt h 0`)
        firstBytes_reject_sound                 the callers' shortcut for `\A…`: byte not in the set ⇒ no match at all
-/
namespace Cx.Fast
open Cx Cx.Fast.Spec

theorem at_eq_getElem (h : Bytes) (i : Nat) (hi : i < h.size) : h.at i = h[i] := by
  simp [Bytes.at, Array.getD, hi]

theorem drop_eq_cons (h : Bytes) (i : Nat) (hi : i < h.size) :
    h.toList.drop i = h.at i :: h.toList.drop (i+1) := by
  rw [at_eq_getElem h i hi]
  have : i < h.toList.length := by simpa using hi
  rw [List.drop_eq_getElem_cons this]
  simp

theorem runLen_ge (mem : Nat → Bool) (h : Bytes) (s : Nat) (hs : h.size ≤ s) : runLen mem h s = 0 := by
  unfold runLen
  rw [List.drop_eq_nil_of_le (by simpa using hs)]
  rfl

theorem runLen_lt (mem : Nat → Bool) (h : Bytes) (s : Nat) (hs : s < h.size) :
    runLen mem h s = if mem (h.at s) then runLen mem h (s+1) + 1 else 0 := by
  unfold runLen
  rw [drop_eq_cons h s hs, List.takeWhile_cons]
  split <;> simp

theorem runLen_le (mem : Nat → Bool) (h : Bytes) (s : Nat) : runLen mem h s ≤ h.size - s := by
  generalize hk : h.size - s = k
  induction k generalizing s with
  | zero => rw [runLen_ge mem h s (by omega)]; exact Nat.le_refl 0
  | succ k ih =>
    rw [runLen_lt mem h s (by omega)]
    split
    · have := ih (s+1) (by omega); omega
    · omega

/-! ### leastFrom -/

theorem leastFrom_unfold (p : Nat → Bool) (n a : Nat) :
    leastFrom p n a = if a ≤ n then (if p a then some a else leastFrom p n (a+1)) else none := by
  unfold leastFrom
  by_cases ha : a ≤ n
  · have : n + 1 - a = (n + 1 - (a+1)) + 1 := by omega
    rw [if_pos ha, this, List.range'_succ, List.find?_cons]
    cases p a <;> simp
  · have : n + 1 - a = 0 := by omega
    rw [if_neg ha, this]; rfl

theorem leastFrom_gt (p : Nat → Bool) (n a : Nat) (ha : n < a) : leastFrom p n a = none := by
  rw [leastFrom_unfold, if_neg (by omega)]

theorem leastFrom_skip (p : Nat → Bool) (n a a' : Nat) (hle : a ≤ a')
    (hno : ∀ j, a ≤ j → j < a' → p j = false) : leastFrom p n a = leastFrom p n a' := by
  generalize hk : a' - a = k
  induction k generalizing a with
  | zero => have : a = a' := by omega
            subst this; rfl
  | succ k ih =>
    rw [leastFrom_unfold p n a]
    by_cases ha : a ≤ n
    · rw [if_pos ha, hno a (Nat.le_refl _) (by omega)]
      simp only [Bool.false_eq_true, if_false]
      exact ih (a+1) (by omega) (fun j h1 h2 => hno j (by omega) h2) (by omega)
    · rw [if_neg ha, leastFrom_gt p n a' (by omega)]

theorem leastFrom_eq_some (p : Nat → Bool) (n a s : Nat) (h1 : a ≤ s) (h2 : s ≤ n) (hp : p s = true)
    (hno : ∀ j, a ≤ j → j < s → p j = false) : leastFrom p n a = some s := by
  rw [leastFrom_skip p n a s h1 hno, leastFrom_unfold, if_pos h2, if_pos hp]

theorem leastFrom_eq_none (p : Nat → Bool) (n a : Nat)
    (hno : ∀ j, a ≤ j → j ≤ n → p j = false) : leastFrom p n a = none := by
  rw [leastFrom_skip p n a (max a (n+1)) (by omega) (fun j h1 h2 => hno j h1 (by omega)), leastFrom_gt]
  omega

theorem leastFrom_some_iff (p : Nat → Bool) (n a s : Nat) :
    leastFrom p n a = some s ↔ a ≤ s ∧ s ≤ n ∧ p s = true ∧ ∀ j, a ≤ j → j < s → p j = false := by
  constructor
  · intro h
    generalize hk : n + 1 - a = k at *
    induction k generalizing a with
    | zero => rw [leastFrom_gt p n a (by omega)] at h; exact nomatch h
    | succ k ih =>
      rw [leastFrom_unfold, if_pos (by omega)] at h
      by_cases hp : p a = true
      · rw [if_pos hp] at h
        cases h
        exact ⟨Nat.le_refl _, by omega, hp, fun j h1 h2 => by omega⟩
      · rw [if_neg hp] at h
        obtain ⟨h1, h2, h3, h4⟩ := ih (a+1) h (by omega)
        refine ⟨by omega, h2, h3, fun j hj1 hj2 => ?_⟩
        by_cases hja : j = a
        · subst hja; simpa using hp
        · exact h4 j (by omega) hj2
  · rintro ⟨h1, h2, h3, h4⟩
    exact leastFrom_eq_some p n a s h1 h2 h3 h4

theorem leastFrom_none_iff (p : Nat → Bool) (n a : Nat) :
    leastFrom p n a = none ↔ ∀ j, a ≤ j → j ≤ n → p j = false := by
  constructor
  · intro h j h1 h2
    cases hp : p j with
    | false => rfl
    | true =>
      -- there is a least one
      exfalso
      generalize hk : j - a = k
      induction k generalizing a with
      | zero =>
        have : a = j := by omega
        subst this
        rw [leastFrom_unfold, if_pos h2, if_pos hp] at h
        exact nomatch h
      | succ k ih =>
        rw [leastFrom_unfold, if_pos (by omega)] at h
        by_cases hpa : p a = true
        · rw [if_pos hpa] at h; exact nomatch h
        · rw [if_neg hpa] at h
          exact ih (a+1) h (by omega) (by omega)
  · exact leastFrom_eq_none p n a

/-! ### CharClassSearcher -/
namespace CharClassSearcher

theorem findStart_none (mem : Nat → Bool) (h : Bytes) (k i : Nat) (hk : i + k = h.size)
    (hf : findStart mem h k i = none) : ∀ j, i ≤ j → j < h.size → mem (h.at j) = false := by
  induction k generalizing i with
  | zero => intro j h1 h2; omega
  | succ k ih =>
    intro j h1 h2
    rw [findStart] at hf
    by_cases hm : mem (h.at i) = true
    · rw [if_pos hm] at hf; exact nomatch hf
    · rw [if_neg hm] at hf
      by_cases hji : j = i
      · subst hji; simpa using hm
      · exact ih (i+1) (by omega) hf j (by omega) h2

theorem findStart_some (mem : Nat → Bool) (h : Bytes) (k i st : Nat) (hk : i + k = h.size)
    (hf : findStart mem h k i = some st) :
    i ≤ st ∧ st < h.size ∧ mem (h.at st) = true ∧ ∀ j, i ≤ j → j < st → mem (h.at j) = false := by
  induction k generalizing i with
  | zero => rw [findStart] at hf; exact nomatch hf
  | succ k ih =>
    rw [findStart] at hf
    by_cases hm : mem (h.at i) = true
    · rw [if_pos hm] at hf
      cases hf
      exact ⟨Nat.le_refl _, by omega, hm, fun j h1 h2 => by omega⟩
    · rw [if_neg hm] at hf
      obtain ⟨h1, h2, h3, h4⟩ := ih (i+1) (by omega) hf
      refine ⟨by omega, h2, h3, fun j hj1 hj2 => ?_⟩
      by_cases hji : j = i
      · subst hji; simpa using hm
      · exact h4 j (by omega) hj2

theorem scanEnd_eq (mem : Nat → Bool) (h : Bytes) (k e : Nat) (hk : e + k = h.size) :
    scanEnd mem h k e = e + runLen mem h e := by
  induction k generalizing e with
  | zero => rw [scanEnd, runLen_ge mem h e (by omega)]; rfl
  | succ k ih =>
    rw [scanEnd, runLen_lt mem h e (by omega)]
    split
    · rw [ih (e+1) (by omega)]; omega
    · rfl

theorem runLen_zero_of_not_mem (mem : Nat → Bool) (h : Bytes) (j : Nat) (hm : j < h.size → mem (h.at j) = false) :
    runLen mem h j = 0 := by
  by_cases hj : j < h.size
  · rw [runLen_lt mem h j hj, hm hj]; rfl
  · exact runLen_ge mem h j (by omega)

theorem searchAtAux_eq (s : CharClassSearcher) (h : Bytes) (hm : 1 ≤ s.minMatch) :
    ∀ f a, h.size - a < f → searchAtAux s h f a = ccFind s.mem s.minMatch h a := by
  intro f
  induction f with
  | zero => intro a ha; omega
  | succ f ih =>
    intro a ha
    rw [searchAtAux]
    unfold ccFind
    by_cases hge : a ≥ h.size
    · rw [if_pos hge, leastFrom_eq_none]
      · rfl
      · intro j h1 h2
        rw [runLen_ge s.mem h j (by omega)]
        simp; omega
    · rw [if_neg hge]
      cases hf : findStart s.mem h (h.size - a) a with
      | none =>
        have hn := findStart_none s.mem h _ a (by omega) hf
        rw [leastFrom_eq_none]
        · rfl
        · intro j h1 h2
          rw [runLen_zero_of_not_mem s.mem h j (fun hj => hn j h1 hj)]
          simp; omega
      | some st =>
        obtain ⟨h1, h2, h3, h4⟩ := findStart_some s.mem h _ a st (by omega) hf
        simp only []
        rw [scanEnd_eq s.mem h _ (st+1) (by omega)]
        have hrl : runLen s.mem h st = runLen s.mem h (st+1) + 1 := by
          rw [runLen_lt s.mem h st h2, if_pos h3]
        have hzero : ∀ j, a ≤ j → j < st → decide (s.minMatch ≤ runLen s.mem h j) = false := by
          intro j hj1 hj2
          rw [runLen_zero_of_not_mem s.mem h j (fun _ => h4 j hj1 hj2)]
          simp; omega
        by_cases hshort : st + 1 + runLen s.mem h (st+1) - st < s.minMatch
        · rw [if_pos hshort, ih (st+1) (by omega)]
          unfold ccFind
          rw [leastFrom_skip _ h.size a (st+1) (by omega)]
          intro j hj1 hj2
          by_cases hjs : j = st
          · subst hjs; simp; omega
          · exact hzero j hj1 (by omega)
        · rw [if_neg hshort, leastFrom_eq_some _ h.size a st h1 (by omega) (by simp; omega) hzero]
          simp only [Option.map_some]
          congr 2
          omega

/-- **CharClassSearcher.SearchAt is exact** for `[cls]{minMatch,}` (greedy) whenever `minMatch ≥ 1`. -/
theorem searchAt_eq_spec (s : CharClassSearcher) (hm : 1 ≤ s.minMatch) (h : Bytes) (a : Nat) :
    s.searchAt h a = ccFind s.mem s.minMatch h a :=
  searchAtAux_eq s h hm (h.size + 1) a (by omega)

end CharClassSearcher

namespace CharClassSearcher

/-! #### IsMatch -/

theorem isMatchLoop_zero (s : CharClassSearcher) (h : Bytes) (hm : s.minMatch = 0) :
    ∀ k i ml, isMatchLoop s h k i ml = (findStart s.mem h k i).isSome := by
  intro k
  induction k with
  | zero => intro i ml; rfl
  | succ k ih =>
    intro i ml
    rw [isMatchLoop, findStart]
    by_cases hmem : s.mem (h.at i) = true
    · rw [if_pos hmem, if_pos hmem, if_pos (by omega)]; rfl
    · rw [if_neg hmem, if_neg hmem, ih]

theorem isMatchLoop_iff (s : CharClassSearcher) (h : Bytes) :
    ∀ k i ml, i + k = h.size → ml < s.minMatch →
      (isMatchLoop s h k i ml = true ↔
        (s.minMatch ≤ ml + runLen s.mem h i ∨ ∃ j, i < j ∧ j ≤ h.size ∧ s.minMatch ≤ runLen s.mem h j)) := by
  intro k
  induction k with
  | zero =>
    intro i ml hk hml
    rw [isMatchLoop, runLen_ge s.mem h i (by omega)]
    constructor
    · intro hf; exact nomatch hf
    · rintro (hc | ⟨j, h1, h2, _⟩) <;> omega
  | succ k ih =>
    intro i ml hk hml
    rw [isMatchLoop, runLen_lt s.mem h i (by omega)]
    by_cases hmem : s.mem (h.at i) = true
    · rw [if_pos hmem, if_pos hmem]
      by_cases hge : ml + 1 ≥ s.minMatch
      · rw [if_pos hge]
        constructor
        · intro _; left; omega
        · intro _; rfl
      · rw [if_neg hge, ih (i+1) (ml+1) (by omega) (by omega)]
        constructor
        · rintro (hc | ⟨j, h1, h2, h3⟩)
          · left; omega
          · right; exact ⟨j, by omega, h2, h3⟩
        · rintro (hc | ⟨j, h1, h2, h3⟩)
          · left; omega
          · by_cases hj : j = i + 1
            · subst hj; left; omega
            · right; exact ⟨j, by omega, h2, h3⟩
    · rw [if_neg hmem, if_neg hmem, ih (i+1) 0 (by omega) (by omega)]
      constructor
      · rintro (hc | ⟨j, h1, h2, h3⟩)
        · right; exact ⟨i+1, by omega, by omega, by omega⟩
        · right; exact ⟨j, by omega, h2, h3⟩
      · rintro (hc | ⟨j, h1, h2, h3⟩)
        · omega
        · by_cases hj : j = i + 1
          · subst hj; left; omega
          · right; exact ⟨j, by omega, h2, h3⟩

/-- `IsMatch` agrees with `SearchAt(h, 0)` for every `minMatch` (also 0). -/
theorem isMatch_eq (s : CharClassSearcher) (h : Bytes) : s.isMatch h = (s.searchAt h 0).isSome := by
  by_cases hm : s.minMatch = 0
  · unfold isMatch searchAt
    rw [isMatchLoop_zero s h hm, searchAtAux]
    by_cases hge : 0 ≥ h.size
    · rw [if_pos hge]
      have : h.size = 0 := by omega
      rw [this]; rfl
    · rw [if_neg hge]
      cases findStart s.mem h (h.size - 0) 0 with
      | none => rfl
      | some st => simp only []; rw [if_neg (by omega)]; rfl
  · have hm1 : 1 ≤ s.minMatch := by omega
    rw [searchAt_eq_spec s hm1]
    unfold isMatch
    rw [Bool.eq_iff_iff, isMatchLoop_iff s h h.size 0 0 (by omega) (by omega)]
    unfold ccFind
    rw [Option.isSome_map, Option.isSome_iff_ne_none, ne_eq, leastFrom_none_iff]
    constructor
    · rintro (hc | ⟨j, h1, h2, h3⟩) hall
      · have := hall 0 (Nat.le_refl _) (Nat.zero_le _); simp at this; omega
      · have := hall j (Nat.zero_le _) h2; simp at this; omega
    · intro hne
      false_or_by_contra
      rename_i hcon
      apply hne
      intro j _ h2
      simp only [decide_eq_false_iff_not]
      intro hle
      apply hcon
      by_cases hj : j = 0
      · subst hj; left; omega
      · right; exact ⟨j, by omega, h2, hle⟩

end CharClassSearcher

/-- plain iteration: report the match found from `pos`, continue at its end (valid when no match is empty) -/
def iter (find : Nat → Option (Nat × Nat)) (len : Nat) : Nat → Nat → List (Nat × Nat)
  | 0, _ => []
  | f+1, pos =>
    if pos > len then [] else
    match find pos with
    | none => []
    | some (s, e) => (s, e) :: iter find len f e

/-- every reported match is non-empty, starts at or after the search position and lies inside the haystack -/
def FindNE (find : Nat → Option (Nat × Nat)) (len : Nat) : Prop :=
  ∀ pos s e, find pos = some (s, e) → pos ≤ s ∧ s < e ∧ e ≤ len

/-- stdlib's `allMatches` degenerates to `iter` when no match is empty (the `prevMatchEnd` / width logic is dead). -/
theorem stdAll_eq_iter (find : Nat → Option (Nat × Nat)) (w : Nat → Nat) (len : Nat) (hne : FindNE find len) :
    ∀ fuel pos i prev, i ≤ pos →
      Std.stdAll find id w len fuel pos i prev (len + 1) = iter find len fuel pos := by
  intro fuel
  induction fuel with
  | zero => intros; rfl
  | succ fuel ih =>
    intro pos i prev hi
    rw [Std.stdAll, iter]
    by_cases hp : pos > len
    · rw [if_pos (by omega), if_pos hp]
    · rw [if_neg (by omega), if_neg hp]
      cases hf : find pos with
      | none => rfl
      | some m =>
        obtain ⟨s, e⟩ := m
        obtain ⟨h1, h2, h3⟩ := hne pos s e hf
        simp only [id]
        rw [if_neg (by omega), ih e (i+1) (some e) (by omega)]

theorem iter_congr (find : Nat → Option (Nat × Nat)) (len f a b : Nat) (ha : a ≤ len) (hb : b ≤ len)
    (hab : find a = find b) : iter find len f a = iter find len f b := by
  cases f with
  | zero => rfl
  | succ f => rw [iter, iter, if_neg (by omega), if_neg (by omega), hab]

theorem runLen_add (mem : Nat → Bool) (h : Bytes) (i k : Nat) (hk : k ≤ runLen mem h i) :
    runLen mem h (i + k) = runLen mem h i - k := by
  induction k with
  | zero => rfl
  | succ k ih =>
    have ih := ih (by omega)
    have hlt : i + k < h.size := by
      false_or_by_contra
      rw [runLen_ge mem h (i+k) (by omega)] at ih
      omega
    rw [runLen_lt mem h (i+k) hlt] at ih
    split at ih
    · rw [← Nat.add_assoc]; omega
    · omega

namespace CharClassSearcher

theorem ccFind_ne (mem : Nat → Bool) (m : Nat) (hm : 1 ≤ m) (h : Bytes) : FindNE (ccFind mem m h) h.size := by
  intro pos s e hf
  unfold ccFind at hf
  cases hl : leastFrom (fun s => decide (m ≤ runLen mem h s)) h.size pos with
  | none => rw [hl] at hf; exact nomatch hf
  | some s' =>
    rw [hl] at hf
    simp only [Option.map_some, Option.some.injEq, Prod.mk.injEq] at hf
    obtain ⟨rfl, rfl⟩ := hf
    obtain ⟨h1, h2, h3, _⟩ := (leastFrom_some_iff _ _ _ _).mp hl
    simp only [decide_eq_true_eq] at h3
    have := runLen_le mem h s'
    omega

theorem ccFind_skip (mem : Nat → Bool) (m : Nat) (h : Bytes) (a b : Nat) (hab : a ≤ b)
    (hno : ∀ j, a ≤ j → j < b → runLen mem h j < m) : ccFind mem m h a = ccFind mem m h b := by
  unfold ccFind
  rw [leastFrom_skip _ h.size a b hab]
  intro j h1 h2
  have := hno j h1 h2
  simp; omega

theorem ccFind_here (mem : Nat → Bool) (m : Nat) (h : Bytes) (a : Nat) (ha : a ≤ h.size)
    (hrl : m ≤ runLen mem h a) : ccFind mem m h a = some (a, a + runLen mem h a) := by
  unfold ccFind
  rw [leastFrom_eq_some _ h.size a a (Nat.le_refl _) ha (by simpa using hrl) (fun j h1 h2 => by omega)]
  rfl

theorem ccFind_end (mem : Nat → Bool) (m : Nat) (hm : 1 ≤ m) (h : Bytes) : ccFind mem m h h.size = none := by
  unfold ccFind
  rw [leastFrom_eq_none]
  · rfl
  · intro j h1 h2
    rw [runLen_ge mem h j h1]; simp; omega

theorem findAllLoop_eq (s : CharClassSearcher) (h : Bytes) (hm : 1 ≤ s.minMatch) :
    ∀ k i, i + k = h.size →
      (∀ ms f, h.size + 1 - i < f →
        findAllLoop s h k i false ms = iter (ccFind s.mem s.minMatch h) h.size f i) ∧
      (∀ ms f, h.size + 1 - i < f → ms ≤ i →
        findAllLoop s h k i true ms =
          if i + runLen s.mem h i - ms ≥ s.minMatch
          then (ms, i + runLen s.mem h i) :: iter (ccFind s.mem s.minMatch h) h.size f (i + runLen s.mem h i)
          else iter (ccFind s.mem s.minMatch h) h.size f (i + runLen s.mem h i)) := by
  intro k
  induction k with
  | zero =>
    intro i hk
    have hi : i = h.size := by omega
    subst hi
    have hiter : ∀ f, h.size + 1 - h.size < f → iter (ccFind s.mem s.minMatch h) h.size f h.size = [] := by
      intro f hf
      obtain ⟨f, rfl⟩ : ∃ f', f = f' + 1 := ⟨f - 1, by omega⟩
      rw [iter, if_neg (by omega), ccFind_end s.mem s.minMatch hm h]
    constructor
    · intro ms f hf
      rw [hiter f hf]; rfl
    · intro ms f hf hms
      rw [runLen_ge s.mem h h.size (Nat.le_refl _), Nat.add_zero, hiter f hf, findAllLoop]
      simp only [Bool.true_and, decide_eq_true_eq]
  | succ k ih =>
    intro i hk
    have hlt : i < h.size := by omega
    obtain ⟨ihA, ihB⟩ := ih (i+1) (by omega)
    have hrl := runLen_lt s.mem h i hlt
    constructor
    · intro ms f hf
      rw [findAllLoop]
      simp only [Bool.not_false, if_true]
      by_cases hmem : s.mem (h.at i) = true
      · rw [if_pos hmem]
        rw [if_pos hmem] at hrl
        have he : i + 1 + runLen s.mem h (i+1) = i + runLen s.mem h i := by omega
        by_cases hlong : s.minMatch ≤ runLen s.mem h i
        · obtain ⟨f, rfl⟩ : ∃ f', f = f' + 1 := ⟨f - 1, by omega⟩
          rw [ihB i f (by omega) (by omega), he, if_pos (by omega), iter, if_neg (by omega),
            ccFind_here s.mem s.minMatch h i (by omega) hlong]
        · rw [ihB i f (by omega) (by omega), he, if_neg (by omega)]
          apply iter_congr _ _ _ _ _ (by have := runLen_le s.mem h i; omega) (by omega)
          symm
          apply ccFind_skip _ _ _ _ _ (by omega)
          intro j h1 h2
          have := runLen_add s.mem h i (j - i) (by omega)
          have hj : i + (j - i) = j := by omega
          rw [hj] at this
          omega
      · rw [if_neg hmem, ihA ms f (by omega)]
        rw [if_neg hmem] at hrl
        apply iter_congr _ _ _ _ _ (by omega) (by omega)
        symm
        apply ccFind_skip _ _ _ _ _ (by omega)
        intro j h1 h2
        have : j = i := by omega
        subst this; omega
    · intro ms f hf hms
      rw [findAllLoop]
      simp only [Bool.not_true, Bool.false_eq_true, if_false]
      by_cases hmem : s.mem (h.at i) = true
      · rw [if_pos hmem] at hrl
        have he : i + 1 + runLen s.mem h (i+1) = i + runLen s.mem h i := by omega
        simp only [hmem, Bool.not_true, Bool.false_eq_true, if_false]
        rw [ihB ms f (by omega) (by omega), he]
      · rw [if_neg hmem] at hrl
        have hnm : (!s.mem (h.at i)) = true := by simpa using hmem
        rw [if_pos hnm, hrl, ihA ms f (by omega)]
        have hc : iter (ccFind s.mem s.minMatch h) h.size f (i+1) = iter (ccFind s.mem s.minMatch h) h.size f i := by
          apply iter_congr _ _ _ _ _ (by omega) (by omega)
          symm
          apply ccFind_skip _ _ _ _ _ (by omega)
          intro j h1 h2
          have : j = i := by omega
          subst this; omega
        rw [hc]; rfl

/-- **`FindAllIndices` (the streaming state machine) = stdlib's `FindAllIndex` loop over `SearchAt`.** -/
theorem findAllIndices_eq_loop (s : CharClassSearcher) (hm : 1 ≤ s.minMatch) (h : Bytes) (w : Nat → Nat) :
    s.findAllIndices h = Std.stdFindAll (s.searchAt h) id w h.size (-1) := by
  have hfind : s.searchAt h = ccFind s.mem s.minMatch h := funext (searchAt_eq_spec s hm h)
  unfold Std.stdFindAll
  simp only [show ((-1 : Int) < 0) from by decide, if_true]
  rw [hfind, stdAll_eq_iter _ w h.size (ccFind_ne s.mem s.minMatch hm h) _ 0 0 none (Nat.le_refl _)]
  unfold findAllIndices
  by_cases hz : h.size = 0
  · rw [if_pos hz, hz, iter, if_neg (by omega)]
    have := ccFind_end s.mem s.minMatch hm h
    rw [hz] at this
    rw [this]
  · rw [if_neg hz]
    exact (findAllLoop_eq s h hm h.size 0 (by omega)).1 0 _ (by omega)

theorem countLoop_eq (s : CharClassSearcher) (h : Bytes) :
    ∀ k i m ms, countLoop s h k i m ms = (findAllLoop s h k i m ms).length := by
  intro k
  induction k with
  | zero => intro i m ms; rw [countLoop, findAllLoop]; split <;> rfl
  | succ k ih =>
    intro i m ms
    rw [countLoop, findAllLoop]
    split
    · split <;> exact ih _ _ _
    · split
      · split
        · rw [ih, List.length_cons]
        · exact ih _ _ _
      · exact ih _ _ _

/-- `Count` = number of spans `FindAllIndices` reports (for every `minMatch`). -/
theorem count_eq_length (s : CharClassSearcher) (h : Bytes) : s.count h = (s.findAllIndices h).length := by
  unfold count findAllIndices
  split
  · rfl
  · exact countLoop_eq s h _ _ _ _

end CharClassSearcher

theorem tableOfRanges_mem (rs : List (Nat × Nat)) (b : Nat) :
    (tableOfRanges rs).mem b = (decide (b < 256) && rs.any fun r => decide (r.1 ≤ b) && decide (b ≤ r.2)) := by
  unfold Table.mem tableOfRanges
  by_cases hb : b < 256
  · simp [Array.getD, hb]
  · simp [Array.getD, hb]

section
attribute [local irreducible] tableOfRanges

/-! ### declarative reading of the `[cls]{m,}` specification -/

theorem le_runLen_iff (mem : Nat → Bool) (h : Bytes) (s k : Nat) :
    k ≤ runLen mem h s ↔ ∀ i, i < k → s + i < h.size ∧ mem (h.at (s + i)) = true := by
  induction k generalizing s with
  | zero => exact ⟨fun _ i hi => by omega, fun _ => Nat.zero_le _⟩
  | succ k ih =>
    by_cases hs : s < h.size
    · rw [runLen_lt mem h s hs]
      by_cases hm : mem (h.at s) = true
      · rw [if_pos hm, Nat.succ_le_succ_iff, ih (s+1)]
        constructor
        · intro hall i hi
          cases i with
          | zero => exact ⟨hs, hm⟩
          | succ i =>
            have := hall i (by omega)
            rw [show s + 1 + i = s + (i + 1) by omega] at this
            exact this
        · intro hall i hi
          have := hall (i+1) (by omega)
          rw [show s + (i + 1) = s + 1 + i by omega] at this
          exact this
      · rw [if_neg hm]
        constructor
        · intro hc; omega
        · intro hall; exact absurd (hall 0 (by omega)).2 hm
    · rw [runLen_ge mem h s (by omega)]
      constructor
      · intro hc; omega
      · intro hall; have := (hall 0 (by omega)).1; omega

/-- the run cannot be extended: it stops at the end of the haystack or in front of a non-class byte -/
theorem runLen_maximal (mem : Nat → Bool) (h : Bytes) (s : Nat) :
    h.size ≤ s + runLen mem h s ∨ mem (h.at (s + runLen mem h s)) = false := by
  by_cases hlt : s + runLen mem h s < h.size
  · right
    have := runLen_add mem h s (runLen mem h s) (Nat.le_refl _)
    rw [runLen_lt mem h _ hlt] at this
    split at this
    · omega
    · rename_i hm; simpa using hm
  · left; omega

theorem ccFind_some_iff (mem : Nat → Bool) (m : Nat) (h : Bytes) (a s e : Nat) :
    ccFind mem m h a = some (s, e) ↔
      a ≤ s ∧ s ≤ h.size ∧ m ≤ runLen mem h s ∧ e = s + runLen mem h s ∧ ∀ j, a ≤ j → j < s → runLen mem h j < m := by
  unfold ccFind
  constructor
  · intro hf
    cases hl : leastFrom (fun s => decide (m ≤ runLen mem h s)) h.size a with
    | none => rw [hl] at hf; exact nomatch hf
    | some s' =>
      rw [hl] at hf
      simp only [Option.map_some, Option.some.injEq, Prod.mk.injEq] at hf
      obtain ⟨rfl, rfl⟩ := hf
      obtain ⟨h1, h2, h3, h4⟩ := (leastFrom_some_iff _ _ _ _).mp hl
      refine ⟨h1, h2, by simpa using h3, rfl, fun j hj1 hj2 => ?_⟩
      have := h4 j hj1 hj2
      simp at this; omega
  · rintro ⟨h1, h2, h3, rfl, h5⟩
    rw [leastFrom_eq_some _ h.size a s h1 h2 (by simpa using h3)]
    · rfl
    · intro j hj1 hj2
      have := h5 j hj1 hj2
      simp; omega

theorem ccFind_none_iff (mem : Nat → Bool) (m : Nat) (h : Bytes) (a : Nat) :
    ccFind mem m h a = none ↔ ∀ j, a ≤ j → j ≤ h.size → runLen mem h j < m := by
  unfold ccFind
  rw [Option.map_eq_none_iff, leastFrom_none_iff]
  constructor
  · intro hall j h1 h2; have := hall j h1 h2; simp at this; omega
  · intro hall j h1 h2; have := hall j h1 h2; simp; omega

/-! ### `IsSimpleCharClassPlus` ⇒ fragment, exactness at the AST level -/

theorem extractCharClassRanges_fragment (re : Re) (ranges : List (Nat × Nat))
    (hx : extractCharClassRanges re = some ranges) : IsCharClassPlus re ranges := by
  unfold extractCharClassRanges at hx
  split at hx
  · exact nomatch hx
  · rename_i hop
    split at hx
    · exact nomatch hx
    · rename_i hgr
      split at hx
      · rename_i sub hsub
        split at hx
        · exact nomatch hx
        · rename_i hcc
          split at hx
          · exact nomatch hx
          · simp only [] at hx
            split at hx
            · exact nomatch hx
            · rename_i hany
              split at hx
              · exact nomatch hx
              · rename_i hne
                cases hx
                refine ⟨by simpa using hop, by simpa using hgr, ⟨sub, hsub, by simpa using hcc, rfl⟩, ?_, ?_⟩
                · intro hnil; rw [hnil] at hne; exact hne rfl
                · intro r hr
                  simp only [List.any_eq_true, Bool.or_eq_true, decide_eq_true_eq, not_exists, not_and, not_or] at hany
                  have := hany r hr
                  omega
      · exact nomatch hx

theorem isSimpleCharClassPlus_fragment (re : Re) (hok : isSimpleCharClassPlus re = true) :
    ∃ ranges, extractCharClassRanges re = some ranges ∧ IsCharClassPlus re ranges := by
  unfold isSimpleCharClassPlus at hok
  cases hx : extractCharClassRanges re with
  | none => rw [hx] at hok; exact nomatch hok
  | some ranges => exact ⟨ranges, rfl, extractCharClassRanges_fragment re ranges hx⟩

/-- **`IsSimpleCharClassPlus` only accepts greedy quantifiers** (the NonGreedy test of `ExtractCharClassRanges`) -/
theorem isSimpleCharClassPlus_greedy (re : Re) (hok : isSimpleCharClassPlus re = true) : re.nonGreedy = false := by
  obtain ⟨_, _, hf⟩ := isSimpleCharClassPlus_fragment re hok
  exact hf.2.1

/-- what meta builds: always `minMatch = 1` -/
theorem buildCharClassSearcher_eq (re : Re) (ranges : List (Nat × Nat))
    (hx : extractCharClassRanges re = some ranges) :
    buildCharClassSearcher re = some (CharClassSearcher.new ranges 1) := by
  have hf := extractCharClassRanges_fragment re ranges hx
  have hns : ¬ (re.op = .star) := by rw [hf.1]; intro hc; exact nomatch hc
  unfold buildCharClassSearcher
  rw [hx, Option.map_some, if_neg hns]

/-- **AST-level exactness of the CharClassSearcher strategy**: on EVERY pattern `IsSimpleCharClassPlus` accepts, the
    searcher meta builds computes the leftmost-first match of the pattern (`plusFind` reads the `NonGreedy` flag of the
    AST; acceptance implies the flag is clear, `isSimpleCharClassPlus_greedy`). -/
theorem charClassSearcher_exact (re : Re) (hok : isSimpleCharClassPlus re = true) :
    ∃ ranges, IsCharClassPlus re ranges ∧
      buildCharClassSearcher re = some (CharClassSearcher.new ranges 1) ∧
      ∀ h a, (CharClassSearcher.new ranges 1).searchAt h a
              = plusFind re.nonGreedy (CharClassSearcher.new ranges 1).mem h a := by
  obtain ⟨ranges, hx, hf⟩ := isSimpleCharClassPlus_fragment re hok
  refine ⟨ranges, hf, buildCharClassSearcher_eq re ranges hx, fun h a => ?_⟩
  rw [hf.2.1, CharClassSearcher.searchAt_eq_spec _ (Nat.le_refl 1) h a]
  rfl

/-- the table built from `ranges` is the class: byte `b` is a member iff it lies in one of the ranges -/
theorem new_mem_iff (ranges : List (Nat × Nat)) (m b : Nat) :
    (CharClassSearcher.new ranges m).mem b = true ↔ b < 256 ∧ ∃ r ∈ ranges, r.1 ≤ b ∧ b ≤ r.2 := by
  rw [show (CharClassSearcher.new ranges m).mem b = (tableOfRanges ranges).mem b from rfl, tableOfRanges_mem]
  simp
end

/-! ## CompositeSearcher -/
namespace CompositeSearcher

theorem consume_eq (mem : Nat → Bool) (h : Bytes) (k i : Nat) :
    consume mem h k i = min k (runLen mem h i) := by
  induction k generalizing i with
  | zero => rw [consume]; omega
  | succ k ih =>
    rw [consume]
    by_cases hi : i < h.size
    · rw [runLen_lt mem h i hi]
      by_cases hm : mem (h.at i) = true
      · simp only [hi, hm, decide_true, Bool.and_self, if_true]
        rw [ih]; omega
      · simp only [hm, Bool.and_false, Bool.false_eq_true, if_false]
        omega
    · rw [runLen_ge mem h i (by omega)]
      simp only [hi, decide_false, Bool.false_and, Bool.false_eq_true, if_false]
      omega

theorem consume_maxLen (p : CharClassPart) (h : Bytes) (pos : Nat) :
    consume p.mem h (maxLen p h.size pos) pos = (partOf p).top h pos := by
  rw [consume_eq]
  have hle := runLen_le p.mem h pos
  unfold maxLen Part.top partOf
  by_cases hpos : p.maxMatch > 0
  · simp only [hpos, if_true, true_and]
    show _ = min p.maxMatch.toNat (runLen p.mem h pos)
    split
    · rfl
    · rename_i hnl
      have : (h.size - pos : Nat) ≤ p.maxMatch.toNat := by omega
      omega
  · simp only [hpos, if_false, false_and]
    show _ = runLen p.mem h pos
    omega

theorem tryDown_lt (rest : Nat → Option Nat) (pos lo t : Nat) (hlt : t < lo) : tryDown rest pos lo t = none := by
  cases t with
  | zero => rw [tryDown, if_neg (by omega)]
  | succ t => rw [tryDown, if_neg (by omega)]

theorem tryDown_eq (rest : Nat → Option Nat) (pos lo t : Nat) :
    tryDown rest pos lo t =
      (((List.range (t + 1)).filter (fun k => decide (lo ≤ k))).reverse).findSome? (fun k => rest (pos + k)) := by
  induction t with
  | zero =>
    rw [tryDown]
    by_cases hlo : 0 ≥ lo
    · rw [if_pos hlo]
      have : lo = 0 := by omega
      subst this
      simp [List.range_succ]
    · rw [if_neg hlo]
      have : ¬ (lo ≤ 0) := by omega
      simp [List.range_succ, this]
  | succ t ih =>
    rw [tryDown, List.range_succ, List.filter_append, List.reverse_append]
    by_cases hlo : t + 1 ≥ lo
    · rw [if_pos hlo]
      have : decide (lo ≤ t + 1) = true := by simpa using hlo
      simp only [List.filter_cons, this, if_true, List.filter_nil, List.reverse_cons, List.reverse_nil,
        List.nil_append, List.cons_append, List.findSome?_cons]
      cases rest (pos + (t + 1)) with
      | some e => rfl
      | none => simp only []; exact ih
    · rw [if_neg hlo]
      have : decide (lo ≤ t + 1) = false := by simpa using hlo
      simp only [List.filter_cons, this, Bool.false_eq_true, if_false, List.filter_nil, List.reverse_nil, List.nil_append]
      rw [← ih, tryDown_lt _ _ _ _ (by omega)]

theorem candidates_partOf (p : CharClassPart) (h : Bytes) (s : Nat) :
    (partOf p).candidates h s =
      ((List.range ((partOf p).top h s + 1)).filter (fun k => decide (p.minMatch ≤ k))).reverse := by
  unfold Part.candidates
  rfl

theorem findSome?_map {α β γ : Type} (f : β → γ) (g : α → Option β) (l : List α) :
    (l.findSome? g).map f = l.findSome? (fun a => (g a).map f) := by
  induction l with
  | nil => rfl
  | cons a l ih =>
    rw [List.findSome?_cons, List.findSome?_cons]
    cases g a with
    | some b => rfl
    | none => exact ih

/-- the backtracking helper is the reference matcher -/
theorem matchFrom_eq (h : Bytes) (ps : List CharClassPart) :
    ∀ pos, matchFrom h ps pos = (refMatch h (ps.map partOf) pos).map (fun ks => pos + ks.sum) := by
  induction ps with
  | nil => intro pos; rfl
  | cons p ps ih =>
    intro pos
    rw [matchFrom, consume_maxLen, tryDown_eq, List.map_cons, refMatch, candidates_partOf, findSome?_map]
    congr 1
    funext k
    rw [ih (pos + k), Option.map_map]
    congr 1
    funext ks
    simp only [Function.comp, List.sum_cons]
    omega

theorem searchLoop_eq (c : CompositeSearcher) (h : Bytes) :
    ∀ k pos, pos + k = h.size + 1 →
      searchLoop c h k pos = compFind (c.parts.map partOf) h pos := by
  intro k
  induction k with
  | zero =>
    intro pos hk
    unfold compFind
    rw [searchLoop, leastFrom_gt _ _ _ (by omega)]; rfl
  | succ k ih =>
    intro pos hk
    unfold compFind
    rw [searchLoop, leastFrom_unfold, if_pos (by omega)]
    unfold matchAt
    rw [matchFrom_eq]
    cases hr : refMatch h (c.parts.map partOf) pos with
    | some ks => simp [hr]
    | none =>
      simp only [Option.map_none, Option.isSome_none, Bool.false_eq_true, if_false]
      rw [ih (pos+1) (by omega)]
      rfl

/-- **CompositeSearcher.SearchAt is exact**: it returns the leftmost-first match of the greedy concatenation
    `c1{m1,n1} … ck{mk,nk}` its part records denote (`maxMatch ≤ 0` read as "unbounded"). -/
theorem searchAt_eq_spec (c : CompositeSearcher) (hne : c.parts ≠ []) (h : Bytes) (a : Nat) :
    c.searchAt h a = compFind (c.parts.map partOf) h a := by
  unfold searchAt
  have : c.parts.length ≠ 0 := by
    intro hl; exact hne (List.length_eq_zero_iff.mp hl)
  rw [if_neg this]
  by_cases ha : a ≤ h.size + 1
  · exact searchLoop_eq c h _ a (by omega)
  · have : h.size + 1 - a = 0 := by omega
    rw [this, searchLoop]
    unfold compFind
    rw [leastFrom_gt _ _ _ (by omega)]; rfl

theorem isMatch_eq (c : CompositeSearcher) (h : Bytes) : c.isMatch h = (c.searchAt h 0).isSome := rfl

theorem search_eq (c : CompositeSearcher) (h : Bytes) : c.search h = c.searchAt h 0 := rfl

end CompositeSearcher

/-! ### the reference matcher selects the lexicographically greatest valid count tuple (all-greedy case) -/

theorem mem_candidates_iff (p : Part) (h : Bytes) (s k : Nat) :
    k ∈ p.candidates h s ↔ p.admits h s k := by
  unfold Part.candidates Part.admits Part.top
  have : ∀ l : List Nat, (k ∈ (if p.lazy = true then l else l.reverse)) ↔ k ∈ l := by
    intro l; split <;> simp
  rw [this]
  simp only [List.mem_filter, List.mem_range, decide_eq_true_eq]
  cases p.hi with
  | none =>
    simp only []
    constructor
    · rintro ⟨h1, h2⟩; exact ⟨h2, (fun b hb => nomatch hb), by omega⟩
    · rintro ⟨h1, _, h3⟩; exact ⟨by omega, h1⟩
  | some b =>
    simp only []
    constructor
    · rintro ⟨h1, h2⟩
      refine ⟨h2, fun b' hb => ?_, by omega⟩
      cases hb; omega
    · rintro ⟨h1, h2, h3⟩
      have := h2 b rfl
      exact ⟨by omega, h1⟩

theorem refMatch_sound (h : Bytes) (ps : List Part) :
    ∀ s ks, refMatch h ps s = some ks → Valid h ps s ks := by
  induction ps with
  | nil => intro s ks hr; rw [refMatch] at hr; cases hr; trivial
  | cons p ps ih =>
    intro s ks hr
    rw [refMatch] at hr
    obtain ⟨k, hk, hkr⟩ := List.exists_of_findSome?_eq_some hr
    cases hr' : refMatch h ps (s + k) with
    | none => rw [hr'] at hkr; exact nomatch hkr
    | some ks' =>
      rw [hr'] at hkr
      cases hkr
      exact ⟨(mem_candidates_iff p h s k).mp hk, ih _ _ hr'⟩

/-- first success in a strictly descending list: it is at an element `≥` any given successful element -/
theorem findSome?_desc {β : Type} (g : Nat → Option β) (l : List Nat) (hd : l.Pairwise (· > ·))
    (x : Nat) (y : β) (hx : x ∈ l) (hg : g x = some y) :
    ∃ k z, k ∈ l ∧ x ≤ k ∧ g k = some z ∧ l.findSome? g = some z := by
  induction l with
  | nil => exact nomatch hx
  | cons a l ih =>
    rw [List.findSome?_cons]
    rw [List.pairwise_cons] at hd
    cases hga : g a with
    | some z =>
      refine ⟨a, z, List.mem_cons_self, ?_, hga, rfl⟩
      rcases List.mem_cons.mp hx with rfl | hxl
      · exact Nat.le_refl _
      · exact Nat.le_of_lt (hd.1 x hxl)
    | none =>
      rcases List.mem_cons.mp hx with rfl | hxl
      · rw [hga] at hg; exact nomatch hg
      · obtain ⟨k, z, hk, hle, hgk, hf⟩ := ih hd.2 hxl
        exact ⟨k, z, List.mem_cons_of_mem _ hk, hle, hgk, hf⟩

theorem candidates_desc (p : Part) (hg : p.lazy = false) (h : Bytes) (s : Nat) :
    (p.candidates h s).Pairwise (· > ·) := by
  unfold Part.candidates
  simp only [hg, Bool.false_eq_true, if_false]
  rw [List.pairwise_reverse]
  apply List.Pairwise.filter
  exact List.pairwise_lt_range

theorem LexLE_refl : ∀ ks : List Nat, LexLE ks ks
  | [] => trivial
  | _ :: ks => Or.inr ⟨rfl, LexLE_refl ks⟩

theorem LexLE_antisymm : ∀ as bs : List Nat, LexLE as bs → LexLE bs as → as = bs
  | [], [], _, _ => rfl
  | [], _ :: _, h, _ => nomatch h
  | _ :: _, [], h, _ => nomatch h
  | a :: as, b :: bs, h1, h2 => by
    rcases h1 with h1 | ⟨rfl, h1⟩
    · rcases h2 with h2 | ⟨rfl, _⟩ <;> omega
    · rcases h2 with h2 | ⟨_, h2⟩
      · omega
      · rw [LexLE_antisymm as bs h1 h2]

/-- completeness + optimality: whenever some count tuple is valid, the reference matcher succeeds with a tuple that is
    lexicographically at least as large -/
theorem refMatch_greatest (h : Bytes) (ps : List Part) (hgr : ∀ p ∈ ps, p.lazy = false) :
    ∀ s ks', Valid h ps s ks' → ∃ ks, refMatch h ps s = some ks ∧ LexLE ks' ks := by
  induction ps with
  | nil =>
    intro s ks' hv
    cases ks' with
    | nil => exact ⟨[], rfl, trivial⟩
    | cons _ _ => exact nomatch hv
  | cons p ps ih =>
    intro s ks' hv
    cases ks' with
    | nil => exact nomatch hv
    | cons k' ks' =>
      obtain ⟨hadm, hv'⟩ := hv
      obtain ⟨ks0, hr0, hle0⟩ := ih (fun q hq => hgr q (List.mem_cons_of_mem _ hq)) (s + k') ks' hv'
      rw [refMatch]
      have hmem := (mem_candidates_iff p h s k').mpr hadm
      obtain ⟨k, z, hk, hle, hgk, hf⟩ :=
        findSome?_desc (fun k => (refMatch h ps (s + k)).map (k :: ·)) _
          (candidates_desc p (hgr p List.mem_cons_self) h s) k' (k' :: ks0) hmem (by simp [hr0])
      refine ⟨z, hf, ?_⟩
      cases hrk : refMatch h ps (s + k) with
      | none => simp [hrk] at hgk
      | some ks1 =>
        simp only [hrk, Option.map_some, Option.some.injEq] at hgk
        subst hgk
        by_cases hkk : k' = k
        · subst hkk
          rw [hr0] at hrk
          cases hrk
          exact Or.inr ⟨rfl, hle0⟩
        · exact Or.inl (by omega)

/-- **the reference matcher computes exactly the greedy (lexicographically greatest) valid tuple** -/
theorem refMatch_some_iff (h : Bytes) (ps : List Part) (hgr : ∀ p ∈ ps, p.lazy = false) (s : Nat) (ks : List Nat) :
    refMatch h ps s = some ks ↔ IsGreedyMatch h ps s ks := by
  constructor
  · intro hr
    refine ⟨refMatch_sound h ps s ks hr, fun ks' hv' => ?_⟩
    obtain ⟨ks0, hr0, hle⟩ := refMatch_greatest h ps hgr s ks' hv'
    rw [hr] at hr0; cases hr0; exact hle
  · rintro ⟨hv, hmax⟩
    obtain ⟨ks0, hr0, hle⟩ := refMatch_greatest h ps hgr s ks hv
    have := hmax ks0 (refMatch_sound h ps s ks0 hr0)
    rw [LexLE_antisymm ks ks0 hle this]
    exact hr0

theorem refMatch_none_iff (h : Bytes) (ps : List Part) (hgr : ∀ p ∈ ps, p.lazy = false) (s : Nat) :
    refMatch h ps s = none ↔ ∀ ks, ¬ Valid h ps s ks := by
  constructor
  · intro hr ks hv
    obtain ⟨ks0, hr0, _⟩ := refMatch_greatest h ps hgr s ks hv
    rw [hr] at hr0; exact nomatch hr0
  · intro hall
    cases hr : refMatch h ps s with
    | none => rfl
    | some ks => exact absurd (refMatch_sound h ps s ks hr) (hall ks)

/-- declarative reading of `compFind` (all parts greedy): leftmost start that admits a valid tuple, greedy tuple there -/
theorem compFind_some_iff (h : Bytes) (ps : List Part) (hgr : ∀ p ∈ ps, p.lazy = false) (a s e : Nat) :
    compFind ps h a = some (s, e) ↔
      a ≤ s ∧ s ≤ h.size ∧ (∃ ks, IsGreedyMatch h ps s ks ∧ e = s + ks.sum) ∧
        ∀ j, a ≤ j → j < s → ∀ ks, ¬ Valid h ps j ks := by
  unfold compFind
  constructor
  · intro hf
    cases hl : leastFrom (fun s => (refMatch h ps s).isSome) h.size a with
    | none => rw [hl] at hf; exact nomatch hf
    | some s' =>
      rw [hl, Option.bind_some] at hf
      obtain ⟨h1, h2, h3, h4⟩ := (leastFrom_some_iff _ _ _ _).mp hl
      cases hr : refMatch h ps s' with
      | none => rw [hr] at hf; exact nomatch hf
      | some ks =>
        rw [hr] at hf
        simp only [Option.map_some, Option.some.injEq, Prod.mk.injEq] at hf
        obtain ⟨rfl, rfl⟩ := hf
        refine ⟨h1, h2, ⟨ks, (refMatch_some_iff h ps hgr _ ks).mp hr, rfl⟩, fun j hj1 hj2 => ?_⟩
        have := h4 j hj1 hj2
        rw [Option.isSome_eq_false_iff, Option.isNone_iff_eq_none] at this
        exact (refMatch_none_iff h ps hgr j).mp this
  · rintro ⟨h1, h2, ⟨ks, hgm, rfl⟩, h4⟩
    have hr := (refMatch_some_iff h ps hgr s ks).mpr hgm
    rw [leastFrom_eq_some _ h.size a s h1 h2 (by simp [hr])]
    · simp [hr]
    · intro j hj1 hj2
      rw [(refMatch_none_iff h ps hgr j).mpr (h4 j hj1 hj2)]; rfl

theorem compFind_none_iff (h : Bytes) (ps : List Part) (hgr : ∀ p ∈ ps, p.lazy = false) (a : Nat) :
    compFind ps h a = none ↔ ∀ j, a ≤ j → j ≤ h.size → ∀ ks, ¬ Valid h ps j ks := by
  unfold compFind
  constructor
  · intro hf j hj1 hj2
    apply (refMatch_none_iff h ps hgr j).mp
    cases hl : leastFrom (fun s => (refMatch h ps s).isSome) h.size a with
    | none =>
      have := (leastFrom_none_iff _ _ _).mp hl j hj1 hj2
      simpa using this
    | some s' =>
      rw [hl, Option.bind_some] at hf
      obtain ⟨_, _, h3, _⟩ := (leastFrom_some_iff _ _ _ _).mp hl
      cases hr : refMatch h ps s' with
      | none => rw [hr] at h3; exact nomatch h3
      | some ks => rw [hr] at hf; exact nomatch hf
  · intro hall
    rw [leastFrom_eq_none]
    · rfl
    · intro j hj1 hj2
      rw [(refMatch_none_iff h ps hgr j).mpr (hall j hj1 hj2)]; rfl

theorem mapM_option_cons {α β : Type} (f : α → Option β) (a : α) (l : List α) :
    (a :: l).mapM f = (f a).bind fun b => (l.mapM f).bind fun bs => some (b :: bs) := by
  rw [List.mapM_cons]
  cases f a <;> rfl

theorem mapM_option_nil {α β : Type} (f : α → Option β) : ([] : List α).mapM f = some [] := by
  rw [List.mapM_nil]; rfl

/-! ### `IsCompositeCharClassPattern` ⇒ fragment, exactness at the AST level -/

theorem compositePartClass_of_quant (x : Re) (hq : QuantClass x) :
    ∃ cc, compositePartClass x = some cc ∧ cc.rune = classRunes x := by
  unfold compositePartClass classRunes
  rcases hq with h | ⟨hop, c, hc, hcc⟩
  · exact ⟨x, by rw [if_pos h], by rw [if_pos h]⟩
  · have hn : ¬ x.op = .charClass := by
      rcases hop with h | h | h | h <;> rw [h] <;> exact fun hc => nomatch hc
    refine ⟨c, ?_, ?_⟩
    · rw [if_neg hn, hc]; simp [hcc]
    · rw [if_neg hn, hc]

/-- everything `isValidCompositePart` checks: the shape, and the three exclusions added by the fix
    (non-greedy quantifier, `{…,0}`, last class rune above U+007F) -/
theorem isValidCompositePart_props (x : Re) (hv : isValidCompositePart x = true) :
    QuantClass x ∧ x.nonGreedy = false ∧ (x.op = .repeat_ → x.max ≠ 0) ∧
      lastRuneAbove7F (classRunes x) = false := by
  unfold isValidCompositePart at hv
  by_cases hgr : x.nonGreedy = true
  · rw [if_pos hgr] at hv; exact nomatch hv
  · rw [if_neg hgr] at hv
    by_cases hzero : x.op = .repeat_ ∧ x.max = 0
    · rw [if_pos hzero] at hv; exact nomatch hv
    · rw [if_neg hzero] at hv
      by_cases hcls : compositePartNonAscii x = true
      · rw [if_pos hcls] at hv; exact nomatch hv
      · rw [if_neg hcls] at hv
        have hq : QuantClass x := by
          unfold QuantClass
          cases hop : x.op <;> rw [hop] at hv <;> simp only [] at hv <;>
            first
            | exact absurd hv (by decide)
            | exact Or.inl rfl
            | (right
               split at hv
               · rename_i c hsub
                 exact ⟨by simp, c, hsub, by simpa using hv⟩
               · exact absurd hv (by decide))
        refine ⟨hq, by simpa using hgr, fun hop hmax => hzero ⟨hop, hmax⟩, ?_⟩
        obtain ⟨cc, hcc, hrune⟩ := compositePartClass_of_quant x hq
        unfold compositePartNonAscii at hcls
        rw [hcc] at hcls
        simp only [] at hcls
        rw [← hrune]
        simpa using hcls

theorem isValidCompositePart_frag (x : Re) (hv : isValidCompositePart x = true) : QuantClass x :=
  (isValidCompositePart_props x hv).1

theorem isCompositeCharClassPattern_parts (re : Re) (hok : isCompositeCharClassPattern re = true) :
    ∀ x ∈ re.sub, isValidCompositePart x = true := by
  unfold isCompositeCharClassPattern at hok
  simp only [Bool.and_eq_true, decide_eq_true_eq, List.all_eq_true] at hok
  exact hok.2

/-- **`IsCompositeCharClassPattern` implies the fragment** -/
theorem isCompositeCharClassPattern_fragment (re : Re) (hok : isCompositeCharClassPattern re = true) :
    CompositeFrag re := by
  have hparts := isCompositeCharClassPattern_parts re hok
  unfold isCompositeCharClassPattern at hok
  simp only [Bool.and_eq_true, decide_eq_true_eq, List.all_eq_true] at hok
  exact ⟨hok.1.1, hok.1.2, fun x hx => isValidCompositePart_frag x (hparts x hx)⟩

/-- **`IsCompositeCharClassPattern` only accepts greedy parts** -/
theorem isCompositeCharClassPattern_greedy (re : Re) (hok : isCompositeCharClassPattern re = true) : AllGreedy re :=
  fun x hx => (isValidCompositePart_props x (isCompositeCharClassPattern_parts re hok x hx)).2.1

/-- **`IsCompositeCharClassPattern` accepts no `{…,0}` part** -/
theorem isCompositeCharClassPattern_noZeroMax (re : Re) (hok : isCompositeCharClassPattern re = true) : NoZeroMax re :=
  fun x hx => (isValidCompositePart_props x (isCompositeCharClassPattern_parts re hok x hx)).2.2.1

/-- what the Go test literally establishes: the LAST rune of every part's class is `≤ 0x7F` -/
theorem isCompositeCharClassPattern_lastAscii (re : Re) (hok : isCompositeCharClassPattern re = true) :
    ∀ x ∈ re.sub, lastRuneAbove7F (classRunes x) = false :=
  fun x hx => (isValidCompositePart_props x (isCompositeCharClassPattern_parts re hok x hx)).2.2.2

theorem le_of_sorted_getLast (l : List Nat) (hs : l.Pairwise (· ≤ ·)) (m : Nat) (hl : l.getLast? = some m) :
    ∀ r ∈ l, r ≤ m := by
  obtain ⟨l1, rfl⟩ := List.getLast?_eq_some_iff.mp hl
  intro r hr
  rcases List.mem_append.mp hr with hr | hr
  · exact (List.pairwise_append.mp hs).2.2 r hr m (by simp)
  · have : r = m := by simpa using hr
    omega

/-- for a sorted `Rune` (parser invariant) the last-rune test is "every member is ASCII" -/
theorem all_ascii_of_sorted (l : List Nat) (hs : l.Pairwise (· ≤ ·)) (hl : lastRuneAbove7F l = false) :
    ∀ r ∈ l, r ≤ 127 := by
  intro r hr
  unfold lastRuneAbove7F at hl
  cases hg : l.getLast? with
  | none => rw [List.getLast?_eq_none_iff] at hg; subst hg; exact nomatch hr
  | some m =>
    rw [hg] at hl
    simp only [decide_eq_false_iff_not] at hl
    have := le_of_sorted_getLast l hs m hg r hr
    omega

/-- **`IsCompositeCharClassPattern` only accepts ASCII classes** (on parser output: `Rune` sorted) -/
theorem isCompositeCharClassPattern_ascii (re : Re) (hok : isCompositeCharClassPattern re = true)
    (sorted : ClassSorted re) : AsciiOnly re :=
  fun x hx => all_ascii_of_sorted _ (sorted x hx) (isCompositeCharClassPattern_lastAscii re hok x hx)

theorem QuantClass.astPart_isSome {x : Re} (hq : QuantClass x) : (astPart x).isSome = true := by
  unfold astPart
  rcases hq with h | ⟨h | h | h | h, c, hc, _⟩ <;> simp [*]

section
attribute [local irreducible] tableOfRanges

/-- one part: the searcher's record denotes the AST quantifier, provided the quantifier is greedy and not `{…,0}` -/
theorem extractSinglePart_astPart (x : Re) (p : CharClassPart) (hx : extractSinglePart x = some p)
    (hg : x.nonGreedy = false) (hz : x.op = .repeat_ → x.max ≠ 0) :
    QuantClass x ∧ astPart x = some (partOf p) := by
  unfold extractSinglePart at hx
  simp only [] at hx
  unfold astPart partOf
  split at hx
  · exact nomatch hx
  · rename_i cc lo hi hshape
    split at hx
    · exact nomatch hx
    · rename_i hcc
      have hcc : cc.op = .charClass := by simpa using hcc
      split at hx
      · exact nomatch hx
      · cases hx
        split at hshape
        · -- plus
          rename_i hop
          split at hshape
          · rename_i c hsub
            cases hshape
            refine ⟨Or.inr ⟨Or.inl hop, _, hsub, hcc⟩, ?_⟩
            simp [hop, hsub, hg]; rfl
          · exact nomatch hshape
        · rename_i hop
          split at hshape
          · rename_i c hsub
            cases hshape
            refine ⟨Or.inr ⟨Or.inr (Or.inl hop), _, hsub, hcc⟩, ?_⟩
            simp [hop, hsub, hg]; rfl
          · exact nomatch hshape
        · rename_i hop
          split at hshape
          · rename_i c hsub
            cases hshape
            refine ⟨Or.inr ⟨Or.inr (Or.inr (Or.inl hop)), _, hsub, hcc⟩, ?_⟩
            simp [hop, hsub, hg]; rfl
          · exact nomatch hshape
        · rename_i hop
          split at hshape
          · rename_i c hsub
            cases hshape
            refine ⟨Or.inr ⟨Or.inr (Or.inr (Or.inr hop)), _, hsub, hcc⟩, ?_⟩
            have hz := hz hop
            simp only [hop, hsub, hg]
            congr 2
            by_cases hneg : x.max < 0
            · simp [hneg]; omega
            · have : x.max > 0 := by omega
              simp [hneg, this]
          · exact nomatch hshape
        · rename_i hop
          cases hshape
          refine ⟨Or.inl hop, ?_⟩
          simp [hop]; rfl
        · exact nomatch hshape

theorem extractParts_astParts (subs : List Re) (ps : List CharClassPart)
    (hx : subs.mapM extractSinglePart = some ps)
    (hg : ∀ x ∈ subs, x.nonGreedy = false) (hz : ∀ x ∈ subs, x.op = .repeat_ → x.max ≠ 0) :
    (∀ x ∈ subs, QuantClass x) ∧ subs.mapM astPart = some (ps.map partOf) ∧ ps.length = subs.length := by
  induction subs generalizing ps with
  | nil =>
    rw [mapM_option_nil] at hx; cases hx
    exact ⟨(fun x hx => nomatch hx), mapM_option_nil _, rfl⟩
  | cons x subs ih =>
    rw [mapM_option_cons] at hx
    cases hp : extractSinglePart x with
    | none => rw [hp] at hx; exact nomatch hx
    | some p =>
      rw [hp, Option.bind_some] at hx
      cases hps : subs.mapM extractSinglePart with
      | none => rw [hps] at hx; exact nomatch hx
      | some ps' =>
        rw [hps, Option.bind_some] at hx
        cases hx
        obtain ⟨hq, ha⟩ := extractSinglePart_astPart x p hp (hg x List.mem_cons_self) (hz x List.mem_cons_self)
        obtain ⟨hqs, has, hlen⟩ := ih ps' hps (fun y hy => hg y (List.mem_cons_of_mem _ hy))
          (fun y hy => hz y (List.mem_cons_of_mem _ hy))
        refine ⟨?_, ?_, by simp [hlen]⟩
        · intro y hy
          rcases List.mem_cons.mp hy with rfl | hy
          · exact hq
          · exact hqs y hy
        · rw [mapM_option_cons, ha, Option.bind_some, has, Option.bind_some, List.map_cons]

end

/-- **AST-level exactness of the CompositeSearcher**: for EVERY pattern `IsCompositeCharClassPattern` accepts (that is
    what selects the strategy) and from which `NewCompositeSearcher` builds the searcher, `SearchAt` is the
    leftmost-first match of the concatenation (classes read as byte sets — adequate when `AsciiOnly re`, which the
    predicate guarantees on parser output, `isCompositeCharClassPattern_ascii`).  That the quantifiers are greedy and
    none is `{…,0}` is no longer assumed: it follows from acceptance. -/
theorem compositeSearcher_exact (re : Re) (c : CompositeSearcher) (hok : isCompositeCharClassPattern re = true)
    (hc : newCompositeSearcher re = some c) :
    CompositeFrag re ∧ AllGreedy re ∧ NoZeroMax re ∧
      ∃ parts, astParts re = some parts ∧ ∀ h a, c.searchAt h a = compFind parts h a := by
  have greedy := isCompositeCharClassPattern_greedy re hok
  have noZeroMax := isCompositeCharClassPattern_noZeroMax re hok
  refine ⟨isCompositeCharClassPattern_fragment re hok, greedy, noZeroMax, ?_⟩
  unfold newCompositeSearcher at hc
  cases hx : extractCompositeParts re with
  | none => rw [hx] at hc; exact nomatch hc
  | some ps =>
    rw [hx, Option.map_some] at hc
    cases hc
    unfold extractCompositeParts at hx
    split at hx
    · exact nomatch hx
    · rename_i hop
      split at hx
      · exact nomatch hx
      · rename_i parts hm
        split at hx
        · exact nomatch hx
        · rename_i hlen
          cases hx
          obtain ⟨hq, ha, hl⟩ := extractParts_astParts re.sub ps hm greedy noZeroMax
          refine ⟨ps.map partOf, ha, fun h a => ?_⟩
          apply CompositeSearcher.searchAt_eq_spec
          intro hnil
          have hnil : ps = [] := hnil
          rw [hnil] at hlen
          simp at hlen

/-! ## anchored literal -/

theorem anchoredSpecB_iff (dotNL : Bool) (info : AnchoredLiteralInfo) (h : Bytes) :
    anchoredSpecB dotNL info h = true ↔ AnchoredSpec dotNL info h := by
  unfold anchoredSpecB AnchoredSpec
  simp only [List.any_eq_true, List.mem_range, Bool.and_eq_true, decide_eq_true_eq, Bool.or_eq_true,
    List.all_eq_true, List.mem_range'_1]
  constructor
  · rintro ⟨j, hj, k, hk, ⟨⟨⟨⟨h1, h2⟩, h3⟩, h4⟩, h5⟩, h6⟩
    refine ⟨j, k, h1, h2, by omega, h3, h4, ?_, ?_⟩
    · rcases h5 with h5 | h5
      · exact Or.inl h5
      · right; intro i hi1 hi2
        have := h5 i ⟨hi1, by omega⟩
        simpa using this
    · cases ht : info.charClassTable with
      | none => rw [ht] at h6; simpa using h6
      | some t =>
        rw [ht] at h6
        simp only [Bool.and_eq_true, decide_eq_true_eq, List.all_eq_true, List.mem_range'_1] at h6
        exact ⟨h6.1, fun i hi1 hi2 => h6.2 i ⟨hi1, by omega⟩⟩
  · rintro ⟨j, k, h1, h2, hk, h3, h4, h5, h6⟩
    refine ⟨j, by omega, k, by omega, ⟨⟨⟨⟨h1, h2⟩, h3⟩, h4⟩, ?_⟩, ?_⟩
    · rcases h5 with h5 | h5
      · exact Or.inl h5
      · right; intro i hi
        have := h5 i hi.1 (by omega)
        simpa using this
    · cases ht : info.charClassTable with
      | none => rw [ht] at h6; simpa using h6
      | some t =>
        rw [ht] at h6
        simp only [Bool.and_eq_true, decide_eq_true_eq, List.all_eq_true, List.mem_range'_1]
        exact ⟨h6.1, fun i hi => h6.2 i hi.1 (by omega)⟩

theorem bytesAt_iff (h : Bytes) (lst : List Nat) :
    ∀ off, off + lst.length ≤ h.size →
      (bytesAt h off lst = true ↔ (h.toList.drop off).take lst.length = lst) := by
  induction lst with
  | nil => intro off _; simp [bytesAt]
  | cons b rest ih =>
    intro off hb
    simp only [List.length_cons] at hb
    rw [bytesAt, drop_eq_cons h off (by omega), List.length_cons, List.take_succ_cons]
    by_cases hne : h.at off = b
    · rw [if_neg (by simpa using hne), ih (off+1) (by omega)]
      subst hne
      constructor
      · intro he; rw [he]
      · intro he; exact (List.cons.inj he).2
    · rw [if_pos hne]
      constructor
      · intro hc; exact nomatch hc
      · intro he; exact absurd (List.cons.inj he).1 hne

/-- `c ≤ countBack …` iff the `c` bytes in front of `i1` are class bytes (and `c` iterations were available) -/
theorem le_countBack_iff (t : Table) (h : Bytes) :
    ∀ cnt i1 c, cnt ≤ i1 →
      (c ≤ countBack t h cnt i1 ↔ c ≤ cnt ∧ ∀ i, i1 - c ≤ i → i < i1 → t.mem (h.at i) = true) := by
  intro cnt
  induction cnt with
  | zero =>
    intro i1 c _
    rw [countBack]
    constructor
    · intro hc; exact ⟨hc, fun i h1 h2 => by omega⟩
    · intro hc; exact hc.1
  | succ cnt ih =>
    intro i1 c hle
    rw [countBack]
    by_cases hm : t.mem (h.at (i1 - 1)) = true
    · rw [if_pos hm]
      cases c with
      | zero => exact ⟨fun _ => ⟨Nat.zero_le _, fun i h1 h2 => by omega⟩, fun _ => Nat.zero_le _⟩
      | succ c =>
        rw [Nat.succ_le_succ_iff, ih (i1 - 1) c (by omega)]
        constructor
        · rintro ⟨h1, h2⟩
          refine ⟨by omega, fun i hi1 hi2 => ?_⟩
          by_cases hi : i = i1 - 1
          · subst hi; exact hm
          · exact h2 i (by omega) (by omega)
        · rintro ⟨h1, h2⟩
          exact ⟨by omega, fun i hi1 hi2 => h2 i (by omega) (by omega)⟩
    · rw [if_neg hm]
      constructor
      · intro hc
        have : c = 0 := by omega
        subst this
        exact ⟨Nat.zero_le _, fun i h1 h2 => by omega⟩
      · rintro ⟨h1, h2⟩
        cases c with
        | zero => exact Nat.le_refl _
        | succ c => exact absurd (h2 (i1 - 1) (by omega) (by omega)) hm

/-- what `DetectAnchoredLiteral` guarantees about its result (see `detectAnchoredLiteral_wf`) -/
structure AnchoredLiteralInfo.WF (info : AnchoredLiteralInfo) : Prop where
  minLength_eq : info.minLength = info.pfx.size + info.wildcardMin + info.charClassMin + info.sfx.size
  noTable : info.charClassTable = none → info.charClassMin = 0

theorem noByteIn_iff (c : Nat) (h : Bytes) (lo hi : Nat) :
    noByteIn c h lo hi = true ↔ ∀ i, lo ≤ i → i < hi → h.at i ≠ c := by
  unfold noByteIn
  simp only [List.all_eq_true, List.mem_range'_1, decide_eq_true_eq]
  constructor
  · intro hall i h1 h2; exact hall i ⟨h1, by omega⟩
  · intro hall i hi; exact hall i hi.1 (by omega)

/-- `wildcardOK` on `input[lo:hi]`: the wildcard is `(?s:.)`, or the span holds no `\n` -/
theorem wildcardOK_iff (info : AnchoredLiteralInfo) (h : Bytes) (lo hi : Nat) :
    info.wildcardOK h lo hi = true ↔
      (info.wildcardMatchesNewline = true ∨ ∀ i, lo ≤ i → i < hi → h.at i ≠ 10) := by
  unfold AnchoredLiteralInfo.wildcardOK
  rw [Bool.or_eq_true, noByteIn_iff]

/-- **`MatchAnchoredLiteral` is exact** for `\\A prefix .{w,} cls{c,} suffix \\z` on EVERY haystack: `.` is read as the
    `info` says (`WildcardMatchesNewline`: any byte; otherwise any byte but `\\n`).  With a class bridge the matcher
    tests the SHORTEST possible wildcard span (the class run it found is the longest), which is free of `\\n` iff some
    admissible split is. -/
theorem matchAnchoredLiteral_iff_spec (info : AnchoredLiteralInfo) (wf : info.WF) (h : Bytes) :
    matchAnchoredLiteral h info = true ↔ AnchoredSpec info.wildcardMatchesNewline info h := by
  have hml := wf.minLength_eq
  unfold matchAnchoredLiteral AnchoredSpec
  by_cases hlen : h.size < info.minLength
  · rw [if_pos hlen]
    constructor
    · intro hc; exact nomatch hc
    · rintro ⟨j, k, h1, h2, hk, h3, h4, _, h6⟩
      exfalso
      have hq : h.size - k = info.sfx.size := by
        have := congrArg List.length h4
        simpa using this
      cases ht : info.charClassTable with
      | none =>
        rw [ht] at h6
        have := wf.noTable ht
        simp only [] at h6
        omega
      | some t =>
        rw [ht] at h6
        simp only [] at h6
        omega
  · rw [if_neg hlen]
    have hpfx : bytesAt h 0 info.pfx.toList = true ↔ h.toList.take info.pfx.size = info.pfx.toList := by
      rw [bytesAt_iff h info.pfx.toList 0 (by simp; omega)]
      simp
    have hsfx : bytesAt h (h.size - info.sfx.size) info.sfx.toList = true ↔
        h.toList.drop (h.size - info.sfx.size) = info.sfx.toList := by
      rw [bytesAt_iff h info.sfx.toList _ (by simp; omega)]
      rw [List.take_of_length_le (by simp; omega)]
    by_cases hp : bytesAt h 0 info.pfx.toList = true
    · have hcond : ¬ (info.pfx.size > 0 ∧ (h.size < info.pfx.size ∨ (!bytesAt h 0 info.pfx.toList) = true)) := by
        rintro ⟨_, hc | hc⟩
        · omega
        · rw [hp] at hc; exact nomatch hc
      rw [if_neg hcond]
      simp only []
      by_cases hs : bytesAt h (h.size - info.sfx.size) info.sfx.toList = true
      · rw [if_neg (by rw [hs]; decide)]
        have hkq : ∀ k, k ≤ h.size → h.toList.drop k = info.sfx.toList → k = h.size - info.sfx.size := by
          intro k hk h4
          have := congrArg List.length h4
          simp at this; omega
        cases ht : info.charClassTable with
        | none =>
          have hc0 := wf.noTable ht
          simp only [Bool.and_eq_true, decide_eq_true_eq, ge_iff_le, wildcardOK_iff]
          constructor
          · rintro ⟨_, hok⟩
            exact ⟨h.size - info.sfx.size, h.size - info.sfx.size, by omega, Nat.le_refl _, by omega,
              hpfx.mp hp, hsfx.mp hs, hok, rfl⟩
          · rintro ⟨j, k, h1, h2, hk, _, h4, h5, h6⟩
            have := hkq k hk h4
            have hjk : j = k := h6
            subst hjk
            subst this
            exact ⟨by omega, h5⟩
        | some t =>
          simp only [Bool.and_eq_true, decide_eq_true_eq, ge_iff_le, wildcardOK_iff]
          have hcb := le_countBack_iff t h (h.size - info.sfx.size - (info.pfx.size + info.wildcardMin))
            (h.size - info.sfx.size)
          generalize countBack t h (h.size - info.sfx.size - (info.pfx.size + info.wildcardMin))
            (h.size - info.sfx.size) = found at hcb ⊢
          obtain ⟨hfle, hfall⟩ := (hcb found (by omega)).mp (Nat.le_refl _)
          constructor
          · rintro ⟨hc1, hok⟩
            exact ⟨h.size - info.sfx.size - found, h.size - info.sfx.size, by omega, by omega, by omega,
              hpfx.mp hp, hsfx.mp hs, hok, by omega, fun i hi1 hi2 => hfall i hi1 hi2⟩
          · rintro ⟨j, k, h1, h2, hk, _, h4, h5, h6⟩
            have hk' := hkq k hk h4
            subst hk'
            have hkj : h.size - info.sfx.size - j ≤ found :=
              (hcb _ (by omega)).mpr ⟨by omega, fun i hi1 hi2 => h6.2 i (by omega) hi2⟩
            exact ⟨by omega, h5.imp id (fun hall i hi1 hi2 => hall i hi1 (by omega))⟩
      · rw [if_pos (by simpa using hs)]
        constructor
        · intro hc; exact nomatch hc
        · rintro ⟨j, k, h1, h2, hk, _, h4, _, _⟩
          exfalso
          apply hs
          have := congrArg List.length h4
          simp at this
          have hk' : k = h.size - info.sfx.size := by omega
          subst hk'
          exact hsfx.mpr h4
    · have hcond : info.pfx.size > 0 ∧ (h.size < info.pfx.size ∨ (!bytesAt h 0 info.pfx.toList) = true) := by
        refine ⟨?_, Or.inr (by simpa using hp)⟩
        by_cases hz : info.pfx.size > 0
        · exact hz
        · exfalso
          apply hp
          have : info.pfx.toList = [] := by
            have : info.pfx.toList.length = 0 := by rw [Array.length_toList]; omega
            exact List.length_eq_zero_iff.mp this
          rw [this]; rfl
      rw [if_pos hcond]
      constructor
      · intro hc; exact nomatch hc
      · rintro ⟨j, k, _, _, _, h3, _⟩
        exact absurd (hpfx.mpr h3) hp

/-- Bool form: the matcher IS the executable specification -/
theorem matchAnchoredLiteral_eq_spec (info : AnchoredLiteralInfo) (wf : info.WF) (h : Bytes) :
    matchAnchoredLiteral h info = anchoredSpecB info.wildcardMatchesNewline info h := by
  rw [Bool.eq_iff_iff, anchoredSpecB_iff, matchAnchoredLiteral_iff_spec info wf h]

/-- `IsMatch` (= `MatchAnchoredLiteral`) agrees with the `Find` wrapper meta uses -/
theorem anchoredIsMatch_eq (info : AnchoredLiteralInfo) (h : Bytes) :
    matchAnchoredLiteral h info = (anchoredFindAt h info 0).isSome := by
  unfold anchoredFindAt anchoredFind
  rw [if_neg (by omega)]
  cases matchAnchoredLiteral h info <;> rfl

/-- meta's `findIndicesAnchoredLiteralAt` -/
theorem anchoredFindAt_eq_spec (info : AnchoredLiteralInfo) (wf : info.WF) (h : Bytes) (a : Nat) :
    anchoredFindAt h info a = anchoredFindSpec info.wildcardMatchesNewline info h a := by
  unfold anchoredFindAt anchoredFindSpec anchoredFind
  rw [matchAnchoredLiteral_eq_spec info wf h]
  by_cases ha : a > 0
  · rw [if_pos ha, if_neg (by omega)]
  · rw [if_neg ha]
    have : a = 0 := by omega
    subst this
    simp

/-! ### `DetectAnchoredLiteral` ⇒ fragment and well-formed info -/

theorem extractLiteral_some (x : Re) (b : Bytes) (hx : extractLiteral x = some b) :
    x.op = .literal ∧ x.foldCase = false ∧ b = (litBytes x).toArray := by
  unfold extractLiteral at hx
  split at hx
  · exact nomatch hx
  · rename_i hop
    split at hx
    · exact nomatch hx
    · rename_i hfold
      cases hx
      exact ⟨by simpa using hop, by simpa using hfold, rfl⟩

theorem isCharClassPlus_shape (b : Re) (hb : isCharClassPlus b = true) :
    b.op = .plus ∧ ∃ cc, b.sub = [cc] ∧ cc.op = .charClass := by
  unfold isCharClassPlus at hb
  split at hb
  · exact nomatch hb
  · rename_i hop
    split at hb
    · rename_i cc hsub
      exact ⟨by simpa using hop, cc, hsub, by simpa using hb⟩
    · exact nomatch hb

/-- the optional bridge after the wildcard: nothing, or exactly one `cls+` whose last rune is ASCII -/
def BridgeShape (bridge : List Re) (st st' : DetectState) : Prop :=
  (bridge = [] ∧ st' = st) ∨
  (∃ b cc, bridge = [b] ∧ b.op = .plus ∧ b.sub = [cc] ∧ cc.op = .charClass ∧ lastRuneAbove7F cc.rune = false ∧
     st' = { st with table := some (tableOfRangesClamped (pairs cc.rune)), charClassMin := 1 })

theorem detectLoop_after (rest : List Re) (st st' : DetectState) (hw : st.wildcardSeen = true)
    (hd : detectLoop rest st = some st') : BridgeShape rest st st' := by
  obtain ⟨pfx, ws, wm, wnl, tb, cm⟩ := st
  simp only at hw
  subst hw
  cases rest with
  | nil => rw [detectLoop] at hd; cases hd; exact Or.inl ⟨rfl, rfl⟩
  | cons b rest =>
    rw [detectLoop] at hd
    split at hd
    · exact nomatch hd
    · simp only [Bool.not_true, Bool.false_eq_true, if_false] at hd
      split at hd
      · rename_i hcond
        simp only [Bool.and_eq_true, List.isEmpty_iff] at hcond
        obtain ⟨hb, hrest⟩ := hcond
        subst hrest
        obtain ⟨hop, cc, hsub, hcc⟩ := isCharClassPlus_shape b hb
        rw [hsub] at hd
        simp only [] at hd
        split at hd
        · exact nomatch hd
        · rename_i hlast
          rw [detectLoop] at hd
          cases hd
          right
          refine ⟨b, cc, rfl, hop, hsub, hcc, by simpa using hlast, ?_⟩
          unfold buildCharClassTable
          rw [if_neg (by rw [hcc]; exact fun hc => hc rfl)]
      · exact nomatch hd

theorem detectLoop_shape (mid : List Re) :
    ∀ st st', detectLoop mid st = some st' → st.wildcardSeen = false → st'.wildcardSeen = true →
      ∃ lits w bridge, mid = lits ++ w :: bridge ∧ (∀ x ∈ lits, x.op = .literal ∧ x.foldCase = false) ∧
        isGreedyWildcard w = true ∧
        BridgeShape bridge
          { st with pfx := st.pfx ++ (lits.flatMap litBytes).toArray, wildcardSeen := true,
                    wildcardMin := getWildcardMin w, wildcardNL := wildcardIsDotNL w } st' := by
  induction mid with
  | nil =>
    intro st st' hd hw hw'
    rw [detectLoop] at hd; cases hd
    rw [hw] at hw'; exact nomatch hw'
  | cons x mid ih =>
    intro st st' hd hw hw'
    obtain ⟨pfx, ws, wm, wnl, tb, cm⟩ := st
    simp only at hw
    subst hw
    rw [detectLoop] at hd
    split at hd
    · rename_i hwild
      simp only [Bool.false_eq_true, if_false] at hd
      refine ⟨[], x, mid, rfl, (fun y hy => nomatch hy), hwild, ?_⟩
      have := detectLoop_after mid _ st' rfl hd
      simpa using this
    · simp only [Bool.not_false, if_true] at hd
      cases hl : extractLiteral x with
      | none => rw [hl] at hd; exact nomatch hd
      | some lit =>
        rw [hl] at hd
        simp only [] at hd
        obtain ⟨hop, hfold, hlit⟩ := extractLiteral_some x lit hl
        obtain ⟨lits, w, bridge, hmid, hlits, hwild, hbr⟩ := ih _ st' hd rfl hw'
        refine ⟨x :: lits, w, bridge, by rw [hmid]; rfl, ?_, hwild, ?_⟩
        · intro y hy
          rcases List.mem_cons.mp hy with rfl | hy
          · exact ⟨hop, hfold⟩
          · exact hlits y hy
        · simp only [List.flatMap_cons]
          rw [hlit] at hbr
          simp only [Array.append_assoc] at hbr
          have : (litBytes x).toArray ++ (List.flatMap litBytes lits).toArray
                = (litBytes x ++ List.flatMap litBytes lits).toArray := by simp
          rw [this] at hbr
          exact hbr

theorem list_split_last2 {α : Type} (l : List α) (x y : α) (hl : l.getLast? = some y)
    (hx : l.dropLast.getLast? = some x) : l = l.dropLast.dropLast ++ [x, y] := by
  obtain ⟨l1, rfl⟩ := List.getLast?_eq_some_iff.mp hl
  rw [List.dropLast_concat] at hx ⊢
  obtain ⟨l2, rfl⟩ := List.getLast?_eq_some_iff.mp hx
  rw [List.dropLast_concat]
  simp

/-- **`DetectAnchoredLiteral` implies the fragment** (and determines every field of the result): in particular every
    literal is case-sensitive, the bridge class passes the ASCII test, and `WildcardMatchesNewline` says whether the
    wildcard is `(?s:.)`. -/
theorem detectAnchoredLiteral_fragment (re : Re) (info : AnchoredLiteralInfo)
    (hd : detectAnchoredLiteral re = some info) : AnchoredFrag re info := by
  unfold detectAnchoredLiteral at hd
  split at hd
  · exact nomatch hd
  · rename_i hop
    simp only [] at hd
    split at hd
    · exact nomatch hd
    · split at hd
      · rename_i first tail hsub
        split at hd
        · exact nomatch hd
        · rename_i hfirst
          split at hd
          · exact nomatch hd
          · rename_i last hlast
            split at hd
            · exact nomatch hd
            · rename_i hlastA
              split at hd
              · exact nomatch hd
              · rename_i sfxRe hsfxRe
                split at hd
                · exact nomatch hd
                · rename_i sfx hsfx
                  split at hd
                  · exact nomatch hd
                  · rename_i st hst
                    split at hd
                    · exact nomatch hd
                    · rename_i hseen
                      cases hd
                      obtain ⟨hsop, hsfold, hsb⟩ := extractLiteral_some sfxRe sfx hsfx
                      obtain ⟨lits, w, bridge, hmid, hlits, hwild, hbr⟩ :=
                        detectLoop_shape _ {} st hst rfl (by simpa using hseen)
                      refine ⟨by simpa using hop, first, lits, w, bridge, sfxRe, last, ?_, by simpa using hfirst,
                        by simpa using hlastA, hlits, hwild, ⟨hsop, hsfold⟩, ?_, hsb, ?_, ?_, ?_, rfl⟩
                      · rw [hsub, list_split_last2 tail sfxRe last hlast hsfxRe, hmid]
                      · rcases hbr with ⟨_, rfl⟩ | ⟨b, cc, _, _, _, _, _, rfl⟩ <;> simp
                      · rcases hbr with ⟨_, rfl⟩ | ⟨b, cc, _, _, _, _, _, rfl⟩ <;> rfl
                      · rcases hbr with ⟨_, rfl⟩ | ⟨b, cc, _, _, _, _, _, rfl⟩ <;> rfl
                      · rcases hbr with ⟨hb, rfl⟩ | ⟨b, cc, hb, h1, h2, h3, h4, rfl⟩
                        · exact Or.inl ⟨hb, rfl, rfl⟩
                        · exact Or.inr ⟨b, cc, hb, h1, h2, h3, h4, rfl, rfl⟩
      · exact nomatch hd

theorem detectAnchoredLiteral_wf (re : Re) (info : AnchoredLiteralInfo)
    (hd : detectAnchoredLiteral re = some info) : info.WF := by
  obtain ⟨_, first, lits, w, bridge, sfxRe, last, _, _, _, _, _, _, _, _, _, _, hbr, hml⟩ :=
    detectAnchoredLiteral_fragment re info hd
  refine ⟨hml, fun hnone => ?_⟩
  rcases hbr with ⟨_, _, h0⟩ | ⟨b, cc, _, _, _, _, _, ht, _⟩
  · exact h0
  · rw [ht] at hnone; exact nomatch hnone

/-- on parser output (`Rune` sorted) the bridge class of a detected pattern has ASCII members only -/
theorem anchoredFrag_bridge_ascii (cc : Re) (hlast : lastRuneAbove7F cc.rune = false)
    (sorted : cc.rune.Pairwise (· ≤ ·)) : ∀ r ∈ cc.rune, r ≤ 127 :=
  all_ascii_of_sorted cc.rune sorted hlast

theorem isGreedyWildcard_false_of_op (x : Re) (h1 : x.op ≠ .star) (h2 : x.op ≠ .plus) : isGreedyWildcard x = false := by
  unfold isGreedyWildcard
  rw [if_pos ⟨h1, h2⟩]

/-- the body of `wildcardDotNL` -/
def dotBody (w : Re) : Bool :=
  isGreedyWildcard w && (match w.sub with | [x] => decide (x.op = .anyChar) | _ => false)

theorem wildcardDotNL_def (re : Re) : wildcardDotNL re = re.sub.any dotBody := rfl

theorem dotBody_false (x : Re) (hx : isGreedyWildcard x = false) : dotBody x = false := by
  unfold dotBody; rw [hx]; rfl

theorem dotBody_wild (w : Re) (hwild : isGreedyWildcard w = true) : dotBody w = wildcardIsDotNL w := by
  unfold dotBody
  rw [hwild, Bool.true_and]
  unfold isGreedyWildcard at hwild
  unfold wildcardIsDotNL
  split at hwild
  · exact nomatch hwild
  · split at hwild
    · rename_i y hy; rw [hy]
    · exact nomatch hwild

/-- the flag the matcher consults IS the AST-level reading "the pattern's wildcard is `(?s:.)`" -/
theorem anchoredFrag_wildcardNL (re : Re) (info : AnchoredLiteralInfo) (hf : AnchoredFrag re info) :
    info.wildcardMatchesNewline = wildcardDotNL re := by
  obtain ⟨_, first, lits, w, bridge, sfxRe, last, hsub, hfirst, hlast, hlits, hwild, hsfx, _, _, _, hnl, hbr, _⟩ := hf
  have hfirst' : isGreedyWildcard first = false := by
    unfold isStartAnchor at hfirst
    simp only [decide_eq_true_eq] at hfirst
    apply isGreedyWildcard_false_of_op <;> rw [hfirst] <;> exact fun hc => nomatch hc
  have hlast' : isGreedyWildcard last = false := by
    unfold isEndAnchor at hlast
    simp only [decide_eq_true_eq] at hlast
    apply isGreedyWildcard_false_of_op <;> rw [hlast] <;> exact fun hc => nomatch hc
  have hsfx' : isGreedyWildcard sfxRe = false := by
    apply isGreedyWildcard_false_of_op <;> rw [hsfx.1] <;> exact fun hc => nomatch hc
  have hlits' : ∀ x ∈ lits, isGreedyWildcard x = false := by
    intro x hx
    apply isGreedyWildcard_false_of_op <;> rw [(hlits x hx).1] <;> exact fun hc => nomatch hc
  have hbridge : ∀ x ∈ bridge, isGreedyWildcard x = false := by
    intro x hx
    rcases hbr with ⟨hb, _⟩ | ⟨b, cc, hb, hbop, hbsub, hcc, _⟩
    · rw [hb] at hx; exact nomatch hx
    · rw [hb] at hx
      have : x = b := by simpa using hx
      subst this
      unfold isGreedyWildcard
      rw [if_neg (by rw [hbop]; exact fun hc => hc.2 rfl), hbsub]
      simp [hcc]
  have h1 : lits.any dotBody = false := by
    rw [List.any_eq_false]
    intro x hx; rw [dotBody_false x (hlits' x hx)]; exact Bool.false_ne_true
  have h2 : bridge.any dotBody = false := by
    rw [List.any_eq_false]
    intro x hx; rw [dotBody_false x (hbridge x hx)]; exact Bool.false_ne_true
  rw [wildcardDotNL_def, hnl, hsub]
  simp only [List.any_cons, List.any_append, List.any_nil, Bool.or_false]
  rw [dotBody_false first hfirst', dotBody_false sfxRe hsfx', dotBody_false last hlast', dotBody_wild w hwild, h1, h2]
  simp

/-- **AST-level exactness of the UseAnchoredLiteral matcher** (byte-level reading of the pattern): for EVERY pattern
    `DetectAnchoredLiteral` accepts and EVERY haystack, `MatchAnchoredLiteral` decides
    `\\A prefix .{w,} cls{c,} suffix \\z` correctly, `.` excluding `\\n` unless the pattern's wildcard is `(?s:.)`
    (`wildcardDotNL re`, read off the AST).  The former hypothesis "`.` may match every byte of the haystack" is gone:
    the matcher now checks the wildcard span itself. -/
theorem anchoredLiteral_exact (re : Re) (info : AnchoredLiteralInfo) (hd : detectAnchoredLiteral re = some info)
    (h : Bytes) :
    AnchoredFrag re info ∧
    (matchAnchoredLiteral h info = true ↔ AnchoredSpec (wildcardDotNL re) info h) ∧
    ∀ a, anchoredFindAt h info a = anchoredFindSpec (wildcardDotNL re) info h a := by
  have hf := detectAnchoredLiteral_fragment re info hd
  have hwf := detectAnchoredLiteral_wf re info hd
  rw [← anchoredFrag_wildcardNL re info hf]
  exact ⟨hf, matchAnchoredLiteral_iff_spec info hwf h, fun a => anchoredFindAt_eq_spec info hwf h a⟩

/-! ## BranchDispatcher (helpers; the exactness proof is at the end of the file) -/

theorem findSome?_unique {α β : Type} (f : α → Option β) (l : List α) (i : Nat) (hi : i < l.length)
    (hother : ∀ j (hj : j < l.length), j ≠ i → f l[j] = none) : l.findSome? f = f l[i] := by
  induction l generalizing i with
  | nil => exact absurd hi (by simp)
  | cons a l ih =>
    rw [List.findSome?_cons]
    cases i with
    | zero =>
      simp only [List.getElem_cons_zero]
      cases hfa : f a with
      | some b => rfl
      | none =>
        simp only []
        rw [List.findSome?_eq_none_iff]
        intro x hx
        obtain ⟨j, hj, rfl⟩ := List.getElem_of_mem hx
        have := hother (j+1) (by simp; omega) (by omega)
        simpa using this
    | succ i =>
      have h0 := hother 0 (by simp) (by omega)
      simp only [List.getElem_cons_zero] at h0
      rw [h0]
      simp only [List.getElem_cons_succ]
      apply ih i (by simpa using hi)
      intro j hj hne
      have := hother (j+1) (by simp; omega) (by omega)
      simpa using this

/-! ## ExtractFirstBytes -/

theorem Table.mem_set (t : Table) (i j : Nat) (v : Bool) :
    Table.mem (t.setIfInBounds i v) j = if i = j ∧ i < t.size then v else t.mem j := by
  unfold Table.mem
  simp only [Array.getD_eq_getD_getElem?, Array.getElem?_setIfInBounds]
  by_cases hij : i = j
  · subst hij
    by_cases hi : i < t.size
    · simp [hi]
    · simp [hi]
  · simp [hij]

/-- marking one more element of a duplicate-free list raises the count by one -/
theorem countP_mark (p : Nat → Bool) (b : Nat) (hp : p b = false) :
    ∀ (l : List Nat), l.Nodup →
      l.countP (fun j => if b = j then true else p j) = l.countP p + (if b ∈ l then 1 else 0) := by
  intro l
  induction l with
  | nil => intro _; rfl
  | cons a l ih =>
    intro hn
    rw [List.nodup_cons] at hn
    rw [List.countP_cons, List.countP_cons, ih hn.2]
    by_cases hab : b = a
    · subst hab
      have : ¬ b ∈ l := hn.1
      simp [hp, this]
    · have hne : ¬ a = b := fun h => hab h.symm
      simp only [hab, if_false, List.mem_cons, false_or]
      omega

namespace FirstByteSet

/-- the invariant every set built by `ExtractFirstBytes` satisfies -/
def Ok (f : FirstByteSet) : Prop := f.bytes.size = 256

/-- `count` is the number of members -/
def CountOK (f : FirstByteSet) : Prop := f.count = (List.range 256).countP f.bytes.mem

theorem ok_empty : ({} : FirstByteSet).Ok := by simp [Ok]

theorem mem_empty (j : Nat) : ({} : FirstByteSet).bytes.mem j = false := by
  unfold Table.mem
  simp only [Array.getD_eq_getD_getElem?]
  by_cases hj : j < 256
  · simp [hj]
  · simp [hj]

theorem countOK_empty : ({} : FirstByteSet).CountOK := by
  unfold CountOK
  have : (List.range 256).countP ({} : FirstByteSet).bytes.mem = 0 := by
    rw [List.countP_eq_zero]
    intro j _
    rw [mem_empty]; simp
  rw [this]

theorem addNew_ok (f : FirstByteSet) (b : Nat) (hf : f.Ok) : (f.addNew b).Ok := by
  unfold addNew Ok at *
  split <;> simp [hf]

theorem addNew_mem (f : FirstByteSet) (b j : Nat) (hf : f.Ok) :
    (f.addNew b).bytes.mem j = (f.bytes.mem j || (decide (b = j) && decide (b < 256))) := by
  unfold Ok at hf
  unfold addNew
  split
  · rename_i hm
    by_cases hbj : b = j
    · subst hbj; simp [hm]
    · simp [hbj]
  · rename_i hm
    simp only [Table.mem_set, hf]
    by_cases hbj : b = j
    · subst hbj
      by_cases hb : b < 256
      · simp [hb]
      · simp [hb]
    · simp [hbj]

theorem addNew_complete (f : FirstByteSet) (b : Nat) : (f.addNew b).complete = f.complete := by
  unfold addNew
  split <;> rfl

theorem addNew_countOK (f : FirstByteSet) (b : Nat) (hf : f.Ok) (hb : b < 256) (hc : f.CountOK) : (f.addNew b).CountOK := by
  unfold Ok at hf
  unfold CountOK at *
  unfold addNew
  split
  · exact hc
  · rename_i hm
    simp only [Bool.not_eq_true] at hm
    have hfun : Table.mem (f.bytes.setIfInBounds b true) = fun j => if b = j then true else f.bytes.mem j := by
      funext j
      rw [Table.mem_set, hf]
      by_cases hbj : b = j
      · rw [if_pos ⟨hbj, hb⟩, if_pos hbj]
      · rw [if_neg (fun hh => hbj hh.1), if_neg hbj]
    show f.count + 1 = (List.range 256).countP (Table.mem (f.bytes.setIfInBounds b true))
    rw [hfun, countP_mark f.bytes.mem b hm _ List.nodup_range, hc, if_pos (List.mem_range.mpr hb)]

theorem foldl_addNew_ok (l : List Nat) (f : FirstByteSet) (hf : f.Ok) : (l.foldl addNew f).Ok := by
  induction l generalizing f with
  | nil => exact hf
  | cons a l ih => exact ih _ (addNew_ok f a hf)

theorem foldl_addNew_mem (l : List Nat) (f : FirstByteSet) (hf : f.Ok) (j : Nat) :
    (l.foldl addNew f).bytes.mem j = (f.bytes.mem j || (decide (j ∈ l) && decide (j < 256))) := by
  induction l generalizing f with
  | nil => simp
  | cons a l ih =>
    rw [List.foldl_cons, ih _ (addNew_ok f a hf), addNew_mem f a j hf]
    by_cases haj : a = j
    · subst haj; by_cases ha : a < 256 <;> simp [ha]
    · have : ¬ j = a := fun h => haj h.symm
      simp [haj, this]

theorem foldl_addNew_complete (l : List Nat) (f : FirstByteSet) : (l.foldl addNew f).complete = f.complete := by
  induction l generalizing f with
  | nil => rfl
  | cons a l ih => rw [List.foldl_cons, ih, addNew_complete]

theorem foldl_addNew_countOK (l : List Nat) (hl : ∀ b ∈ l, b < 256) (f : FirstByteSet) (hf : f.Ok) (hc : f.CountOK) :
    (l.foldl addNew f).CountOK := by
  induction l generalizing f with
  | nil => exact hc
  | cons a l ih =>
    rw [List.foldl_cons]
    exact ih (fun b hb => hl b (List.mem_cons_of_mem _ hb)) _ (addNew_ok f a hf)
      (addNew_countOK f a hf (hl a List.mem_cons_self) hc)

end FirstByteSet

theorem addRange_ok (k : Nat) : ∀ (f : FirstByteSet) (r : Nat), f.Ok → (addRange f k r).Ok := by
  induction k with
  | zero => intro f r hf; exact hf
  | succ k ih => intro f r hf; exact ih _ _ (FirstByteSet.addNew_ok f r hf)

theorem addRange_mem (k : Nat) : ∀ (f : FirstByteSet) (r j : Nat), f.Ok →
    (addRange f k r).bytes.mem j = (f.bytes.mem j || (decide (r ≤ j) && decide (j < r + k) && decide (j < 256))) := by
  induction k with
  | zero => intro f r j _; simp [addRange]; omega
  | succ k ih =>
    intro f r j hf
    rw [addRange, ih _ _ _ (FirstByteSet.addNew_ok f r hf), FirstByteSet.addNew_mem f r j hf]
    by_cases hrj : r = j
    · subst hrj
      by_cases hr : r < 256 <;> simp [hr]
    · by_cases h1 : r + 1 ≤ j
      · have : r ≤ j := by omega
        have e : (j < r + 1 + k) = (j < r + (k + 1)) := by rw [Nat.add_assoc, Nat.add_comm 1 k]
        simp [hrj, h1, this, e]
      · have : ¬ r ≤ j := by omega
        simp [hrj, h1, this]

theorem addRange_complete (k : Nat) : ∀ (f : FirstByteSet) (r : Nat), (addRange f k r).complete = f.complete := by
  induction k with
  | zero => intro f r; rfl
  | succ k ih =>
    intro f r
    rw [addRange, ih, FirstByteSet.addNew_complete]

theorem addRange_countOK (k : Nat) : ∀ (f : FirstByteSet) (r : Nat), (k = 0 ∨ r + k ≤ 256) → f.Ok → f.CountOK →
    (addRange f k r).CountOK := by
  induction k with
  | zero => intro f r _ _ hc; exact hc
  | succ k ih =>
    intro f r hr hf hc
    rw [addRange]
    exact ih _ _ (by omega) (FirstByteSet.addNew_ok f r hf) (FirstByteSet.addNew_countOK f r hf (by omega) hc)

theorem addClassRanges_ok (rs : List (Nat × Nat)) : ∀ (f : FirstByteSet), f.Ok → (addClassRanges f rs).Ok := by
  induction rs with
  | nil => intro f hf; exact hf
  | cons p rs ih =>
    intro f hf
    obtain ⟨lo, hi⟩ := p
    rw [addClassRanges]
    split
    · exact ih _ (addRange_ok _ _ _ (addRange_ok _ _ _ hf))
    · exact ih _ (addRange_ok _ _ _ hf)

theorem addClassRanges_complete (rs : List (Nat × Nat)) : ∀ (f : FirstByteSet),
    (addClassRanges f rs).complete = f.complete := by
  induction rs with
  | nil => intro f; rfl
  | cons p rs ih =>
    intro f
    obtain ⟨lo, hi⟩ := p
    rw [addClassRanges]
    split
    · rw [ih, addRange_complete, addRange_complete]
    · rw [ih, addRange_complete]

theorem addClassRanges_countOK (rs : List (Nat × Nat)) : ∀ (f : FirstByteSet), f.Ok → f.CountOK →
    (addClassRanges f rs).CountOK := by
  induction rs with
  | nil => intro f _ hc; exact hc
  | cons p rs ih =>
    intro f hf hc
    obtain ⟨lo, hi⟩ := p
    rw [addClassRanges]
    split
    · exact ih _ (addRange_ok _ _ _ (addRange_ok _ _ _ hf))
        (addRange_countOK _ _ _ (by omega) (addRange_ok _ _ _ hf) (addRange_countOK _ _ _ (by omega) hf hc))
    · exact ih _ (addRange_ok _ _ _ hf) (addRange_countOK _ _ _ (by omega) hf hc)

/-- membership after the class loop: a range reaching above U+007F contributes every byte `≥ 0x80` and its ASCII part -/
theorem addClassRanges_mem (rs : List (Nat × Nat)) : ∀ (f : FirstByteSet) (j : Nat), f.Ok →
    (addClassRanges f rs).bytes.mem j =
      (f.bytes.mem j || (decide (j < 256) && rs.any fun p =>
        (decide (p.2 > 0x7F) && decide (128 ≤ j)) || (decide (p.1 ≤ j) && decide (j ≤ p.2) && decide (j ≤ 0x7F)))) := by
  induction rs with
  | nil => intro f j _; simp [addClassRanges]
  | cons p rs ih =>
    intro f j hf
    obtain ⟨lo, hi⟩ := p
    rw [addClassRanges]
    split
    · rename_i hhi
      rw [ih _ j (addRange_ok _ _ _ (addRange_ok _ _ _ hf)), addRange_mem _ _ _ _ (addRange_ok _ _ _ hf),
        addRange_mem _ _ _ _ hf, List.any_cons]
      generalize (rs.any fun p =>
        (decide (p.2 > 0x7F) && decide (128 ≤ j)) || (decide (p.1 ≤ j) && decide (j ≤ p.2) && decide (j ≤ 0x7F))) = R
      generalize f.bytes.mem j = M
      by_cases hj : j < 256
      · by_cases h1 : 128 ≤ j
        · have : j < 128 + 128 := by omega
          have h3 : ¬ j ≤ 127 := by omega
          simp [hj, h1, hhi, h3]
        · have h3 : j ≤ 127 := by omega
          have h4 : j ≤ hi := by omega
          by_cases h2 : lo ≤ j
          · have : j < lo + (127 + 1 - lo) := by omega
            simp [hj, h1, hhi, h2, h3, h4, this]
          · simp [hj, h1, hhi, h2, h3]
      · simp [hj]
    · rename_i hhi
      rw [ih _ j (addRange_ok _ _ _ hf), addRange_mem _ _ _ _ hf, List.any_cons]
      generalize (rs.any fun p =>
        (decide (p.2 > 0x7F) && decide (128 ≤ j)) || (decide (p.1 ≤ j) && decide (j ≤ p.2) && decide (j ≤ 0x7F))) = R
      generalize f.bytes.mem j = M
      by_cases hj : j < 256
      · by_cases h1 : lo ≤ j
        · by_cases h2 : j ≤ hi
          · have : j < lo + (hi + 1 - lo) := by omega
            have h3 : j ≤ 127 := by omega
            simp [hj, h1, h2, hhi, this, h3]
          · have : ¬ j < lo + (hi + 1 - lo) := by omega
            simp [hj, h1, h2, hhi, this]
        · simp [hj, h1, hhi]
      · simp [hj]

namespace Ref

theorem run_zero (h : Bytes) (t : Task) (pos : Nat) (k : Nat → Option Nat) : run h 0 t pos k = none := by
  rw [run]

theorem run_lit_cons (h : Bytes) (f : Nat) (r : Nat) (rs : List Nat) (fold : Bool) (pos : Nat) (k : Nat → Option Nat) :
    run h (f+1) (.lit (r :: rs) fold) pos k =
      if (Utf8.decodeAt h pos).2 > 0 && (if fold then foldEq r (Utf8.decodeAt h pos).1 else decide (r = (Utf8.decodeAt h pos).1))
      then run h f (.lit rs fold) (pos + (Utf8.decodeAt h pos).2) k else none := by
  rw [run]

theorem run_seq_cons (h : Bytes) (f : Nat) (x : Re) (xs : List Re) (pos : Nat) (k : Nat → Option Nat) :
    run h (f+1) (.seq (x :: xs)) pos k = run h f (.one x) pos fun p => run h f (.seq xs) p k := by
  rw [run]

theorem run_alts_cons (h : Bytes) (f : Nat) (x : Re) (xs : List Re) (pos : Nat) (k : Nat → Option Nat) :
    run h (f+1) (.alts (x :: xs)) pos k = orElse (run h f (.one x) pos k) fun _ => run h f (.alts xs) pos k := by
  rw [run]

theorem run_alts_nil (h : Bytes) (f : Nat) (pos : Nat) (k : Nat → Option Nat) :
    run h (f+1) (.alts []) pos k = none := by
  rw [run]

theorem run_one (h : Bytes) (f : Nat) (re : Re) (pos : Nat) (k : Nat → Option Nat) :
    run h (f+1) (.one re) pos k =
      match re.op with
      | .noMatch => none
      | .emptyMatch => k pos
      | .literal => run h f (.lit re.rune re.foldCase) pos k
      | .charClass =>
        if (Utf8.decodeAt h pos).2 > 0 && inRanges (pairs re.rune) (Utf8.decodeAt h pos).1
        then k (pos + (Utf8.decodeAt h pos).2) else none
      | .anyCharNotNL =>
        if (Utf8.decodeAt h pos).2 > 0 && decide ((Utf8.decodeAt h pos).1 ≠ 10) then k (pos + (Utf8.decodeAt h pos).2) else none
      | .anyChar =>
        if (Utf8.decodeAt h pos).2 > 0 then k (pos + (Utf8.decodeAt h pos).2) else none
      | .beginLine => if pos = 0 ∨ h.at (pos - 1) = 10 then k pos else none
      | .endLine => if pos = h.size ∨ h.at pos = 10 then k pos else none
      | .beginText => if pos = 0 then k pos else none
      | .endText => if pos = h.size then k pos else none
      | .wordBoundary =>
        if (decide (pos > 0) && isWordByte (h.at (pos - 1))) != (decide (pos < h.size) && isWordByte (h.at pos))
        then k pos else none
      | .noWordBoundary =>
        if (decide (pos > 0) && isWordByte (h.at (pos - 1))) == (decide (pos < h.size) && isWordByte (h.at pos))
        then k pos else none
      | .capture => run h f (.seq re.sub) pos k
      | .concat => run h f (.seq re.sub) pos k
      | .alternate => run h f (.alts re.sub) pos k
      | .star =>
        match re.sub with
        | [x] => run h f (.star x re.nonGreedy) pos k
        | _ => none
      | .plus =>
        match re.sub with
        | [x] => run h f (.one x) pos fun p => run h f (.star x re.nonGreedy) p k
        | _ => none
      | .quest =>
        match re.sub with
        | [x] => run h f (.rep x 0 (some 1) re.nonGreedy) pos k
        | _ => none
      | .repeat_ =>
        match re.sub with
        | [x] => run h f (.rep x re.min.toNat (if re.max < 0 then none else some re.max.toNat) re.nonGreedy) pos k
        | _ => none := by
  rw [run]
  cases re.op <;> rfl

theorem run_rep_succ (h : Bytes) (f : Nat) (x : Re) (m : Nat) (mx : Option Nat) (lazy : Bool) (pos : Nat)
    (k : Nat → Option Nat) :
    run h (f+1) (.rep x (m+1) mx lazy) pos k =
      run h f (.one x) pos fun p => run h f (.rep x m (mx.map (· - 1)) lazy) p k := by
  rw [run]

theorem run_star (h : Bytes) (f : Nat) (x : Re) (lazy : Bool) (pos : Nat) (k : Nat → Option Nat) :
    run h (f+1) (.star x lazy) pos k =
      if lazy then
        orElse (k pos) fun _ => run h f (.one x) pos fun p => if p > pos then run h f (.star x lazy) p k else none
      else
        orElse (run h f (.one x) pos fun p => if p > pos then run h f (.star x lazy) p k else none) fun _ => k pos := by
  rw [run]

theorem run_seq_nil (h : Bytes) (f : Nat) (pos : Nat) (k : Nat → Option Nat) :
    run h (f+1) (.seq []) pos k = k pos := by
  rw [run]

end Ref

/-! ### the first-byte set as a rejection filter

  Two results about `extractFirstBytesRec`:
  * `extract_inv` (no hypothesis on the pattern): a successful step keeps the table a 256-entry table, only adds
    members, keeps `complete`, and keeps `count` equal to the number of members;
  * `extract_sound`: whenever the step succeeds, every successful run of the reference matcher that starts INSIDE the
    haystack starts on a member of the set.  No structural hypothesis on the pattern: a bare assertion makes the step
    fail, and a concatenation skips its leading assertion-only elements, which are zero-width (`assertOnly_run`).  The
    side conditions `fbSide` (Cx.Spec.Fast) concern the reference semantics of a literal starting with U+FFFD (tradeable
    for well-formedness of the haystack at the position) and the parser invariant `Min ≥ 0`. -/

theorem decode_ascii_inv (h : Bytes) (pos : Nat) (hw : (Utf8.decodeAt h pos).2 > 0)
    (hc : (Utf8.decodeAt h pos).1 ≤ 127) : h.at pos = (Utf8.decodeAt h pos).1 ∧ pos < h.size := by
  unfold Utf8.decodeAt at *
  rcases Utf8.decode_cases h h.size pos with ⟨a, e⟩ | ⟨a, b, e⟩ | ⟨a, b, e⟩ | ⟨a, b, b', c, c', e⟩ |
    ⟨a, b, b', c, c', hE0, hED, d, d', e⟩ | ⟨a, b, b', c, c', hF0, hF4, d, d', f, f', e⟩
  all_goals rw [e] at hw hc ⊢
  all_goals simp only [Utf8.runeError] at hw hc ⊢
  all_goals first | omega | exact ⟨trivial, by omega⟩ | exact ⟨rfl, by omega⟩

theorem decode_ascii_fwd (h : Bytes) (pos : Nat) (hp : pos < h.size) (hb : h.at pos < 128) :
    Utf8.decodeAt h pos = (h.at pos, 1) := by
  unfold Utf8.decodeAt
  rcases Utf8.decode_cases h h.size pos with ⟨a, e⟩ | ⟨a, b, e⟩ | ⟨a, b, e⟩ | ⟨a, b, b', c, c', e⟩ |
    ⟨a, b, b', c, c', hE0, hED, d, d', e⟩ | ⟨a, b, b', c, c', hF0, hF4, d, d', f, f', e⟩
  all_goals first | exact e | omega

theorem decode_width_pos (h : Bytes) (pos : Nat) (hw : (Utf8.decodeAt h pos).2 > 0) : pos < h.size := by
  false_or_by_contra
  rw [Utf8.decode_at_end h pos (by omega)] at hw
  simp at hw

/-- a non-ASCII first byte never decodes to an ASCII rune -/
theorem decode_high (h : Bytes) (pos : Nat) (hw : (Utf8.decodeAt h pos).2 > 0) (hb : 128 ≤ h.at pos) :
    128 ≤ (Utf8.decodeAt h pos).1 := by
  false_or_by_contra
  have := (decode_ascii_inv h pos hw (by omega)).1
  omega

/-- `utf8.EncodeRune` writes a byte -/
theorem encodeFirst_lt (m : Nat) : encodeFirst m < 256 := by
  unfold encodeFirst Utf8.encode Utf8.maxRune
  split
  · simp only [List.headD_cons]; omega
  · split
    · simp only [List.headD_cons]; omega
    · split
      · simp only [List.headD_cons]; omega
      · split
        · simp only [List.headD_cons]; omega
        · simp only [List.headD_cons]; omega

/-- unless the decoder reports an ILL-FORMED byte (U+FFFD of width 1), the byte it started on is the first byte of the
    encoding of the rune it reports -/
theorem decode_first_byte (h : Bytes) (pos : Nat) (hb : ∀ k, h.at k < 256) (hw : (Utf8.decodeAt h pos).2 > 0)
    (hc : (Utf8.decodeAt h pos).1 ≠ Utf8.runeError ∨ (Utf8.decodeAt h pos).2 ≠ 1) :
    h.at pos = encodeFirst (Utf8.decodeAt h pos).1 := by
  have hp := decode_width_pos h pos hw
  by_cases h1 : (Utf8.decodeAt h pos).2 = 1
  · rcases Utf8.decode_width_one h pos hp h1 with ⟨hlt, he⟩ | ⟨_, he⟩
    · rw [he]
      unfold encodeFirst Utf8.encode
      rw [if_pos hlt]
      rfl
    · rcases hc with hc | hc
      · exact absurd he hc
      · exact absurd h1 hc
  · have henc := Utf8.decode_wide_is_encoding h pos hb (by omega)
    unfold encodeFirst
    rw [← henc]
    obtain ⟨w, hw'⟩ : ∃ w, (Utf8.decodeAt h pos).2 = w + 1 := ⟨(Utf8.decodeAt h pos).2 - 1, by omega⟩
    rw [hw', List.range_succ_eq_map, List.map_cons, List.headD_cons, Nat.add_zero]

/-- the two ways the literal case excludes an ill-formed byte read as U+FFFD: the literal does not start with U+FFFD
    (`lit = true`), or the haystack is well-formed at the position -/
theorem lit_guard (lit : Bool) (r c w : Nat) (hfr : (!lit || decide (r ≠ Utf8.runeError)) = true)
    (hg : lit = true ∨ ¬ (c = Utf8.runeError ∧ w = 1)) (hrc : c = Utf8.runeError → r = Utf8.runeError) :
    c ≠ Utf8.runeError ∨ w ≠ 1 := by
  cases lit with
  | true =>
    simp only [Bool.not_true, Bool.false_or, decide_eq_true_eq] at hfr
    exact Or.inl fun hc => hfr (hrc hc)
  | false =>
    rcases hg with hg | hg
    · exact absurd hg (by decide)
    · by_cases hc : c = Utf8.runeError
      · exact Or.inr fun hw => hg ⟨hc, hw⟩
      · exact Or.inl hc

/-- every successful run of the task that starts inside the haystack starts on a byte of `S` — with `lit = false` only
    at positions where the haystack is well-formed (no ill-formed byte read as U+FFFD) -/
def FirstOK (lit : Bool) (S : Nat → Bool) (t : Ref.Task) : Prop :=
  ∀ (h : Bytes), (∀ i, h.at i < 256) → ∀ f pos k e, Ref.run h f t pos k = some e → pos < h.size →
    (lit = true ∨ WellFormedAt h pos) → S (h.at pos) = true

theorem FirstOK.mono {lit : Bool} {S S' : Nat → Bool} {t : Ref.Task} (hs : ∀ j, S j = true → S' j = true) (h : FirstOK lit S t) :
    FirstOK lit S' t := fun hh hb f pos k e hr hp hg => hs _ (h hh hb f pos k e hr hp hg)

theorem firstOK_seq_cons {lit : Bool} {S : Nat → Bool} {x : Re} (xs : List Re) (hx : FirstOK lit S (.one x)) :
    FirstOK lit S (.seq (x :: xs)) := by
  intro h hb f pos k e hr hp hg
  cases f with
  | zero => rw [Ref.run_zero] at hr; exact nomatch hr
  | succ f =>
    rw [Ref.run_seq_cons] at hr
    exact hx h hb f pos _ e hr hp hg

/-- `isAssertionOnly` along the accessors (the definition pattern-matches on the constructor) -/
theorem isAssertionOnly_eq (re : Re) : isAssertionOnly re =
    match re.op with
    | .beginLine | .beginText | .endLine | .endText => true
    | .capture | .plus => (match re.sub with | [x] => isAssertionOnly x | _ => false)
    | .concat => allAssertionOnly re.sub && !re.sub.isEmpty
    | _ => false := by
  cases re with
  | mk op a b sub r mn mx =>
    cases op <;> first | rfl | skip
    all_goals (rcases sub with _ | ⟨x, _ | ⟨y, ys⟩⟩) <;> simp only [isAssertionOnly, Re.op, Re.sub]

theorem allAssertionOnly_cons (x : Re) (xs : List Re) :
    allAssertionOnly (x :: xs) = (isAssertionOnly x && allAssertionOnly xs) := by
  rw [allAssertionOnly]

/-- **an assertion-only element is zero-width**: whenever the reference matcher gets through it, it has called the
    continuation at the position it started from (and returns that answer).  Induction on the fuel, which bounds the
    nesting. -/
theorem assertOnly_run (h : Bytes) : ∀ n f, f ≤ n → ∀ a, isAssertionOnly a = true → ∀ pos (k : Nat → Option Nat) e,
    Ref.run h f (.one a) pos k = some e → k pos = some e := by
  intro n
  induction n with
  | zero =>
    intro f hf a _ pos k e hr
    obtain rfl : f = 0 := by omega
    rw [Ref.run_zero] at hr; exact nomatch hr
  | succ n ih =>
    intro f hf a ha pos k e hr
    cases f with
    | zero => rw [Ref.run_zero] at hr; exact nomatch hr
    | succ f =>
      have hfn : f ≤ n := by omega
      -- a sequence of assertion-only elements
      have hseq : ∀ (l : List Re), allAssertionOnly l = true → ∀ g, g ≤ n → ∀ e', Ref.run h g (.seq l) pos k = some e' →
          k pos = some e' := by
        intro l
        induction l with
        | nil =>
          intro _ g _ e' hr'
          cases g with
          | zero => rw [Ref.run_zero] at hr'; exact nomatch hr'
          | succ g => rw [Ref.run_seq_nil] at hr'; exact hr'
        | cons x xs ihl =>
          intro hl g hg e' hr'
          rw [allAssertionOnly_cons, Bool.and_eq_true] at hl
          cases g with
          | zero => rw [Ref.run_zero] at hr'; exact nomatch hr'
          | succ g =>
            rw [Ref.run_seq_cons] at hr'
            exact ihl hl.2 g (by omega) e' (ih g (by omega) x hl.1 pos _ e' hr')
      have hone : ∀ x, isAssertionOnly x = true → ∀ e', Ref.run h f (.seq [x]) pos k = some e' → k pos = some e' := by
        intro x hx e' hr'
        exact hseq [x] (by rw [allAssertionOnly_cons, hx]; rfl) f hfn e' hr'
      rw [isAssertionOnly_eq] at ha
      rw [Ref.run_one] at hr
      cases hop : a.op <;> rw [hop] at ha hr <;> simp only [] at ha hr
      all_goals first | exact absurd ha Bool.false_ne_true | skip
      · split at hr                                  -- beginLine
        · exact hr
        · exact nomatch hr
      · split at hr                                  -- endLine
        · exact hr
        · exact nomatch hr
      · split at hr                                  -- beginText
        · exact hr
        · exact nomatch hr
      · split at hr                                  -- endText
        · exact hr
        · exact nomatch hr
      · -- capture
        rcases hsub : a.sub with _ | ⟨x, _ | ⟨y, ys⟩⟩ <;> rw [hsub] at ha <;> simp only [] at ha
        · exact absurd ha Bool.false_ne_true
        · rw [hsub] at hr; exact hone x ha e hr
        · exact absurd ha Bool.false_ne_true
      · -- plus: the first iteration is zero-width, a further one is abandoned by the reference matcher
        rcases hsub : a.sub with _ | ⟨x, _ | ⟨y, ys⟩⟩ <;> rw [hsub] at ha <;> simp only [] at ha
        · exact absurd ha Bool.false_ne_true
        · rw [hsub] at hr
          simp only [] at hr
          have hstar := ih f hfn x ha pos _ e hr
          cases f with
          | zero => rw [Ref.run_zero] at hstar; exact nomatch hstar
          | succ f =>
            rw [Ref.run_star] at hstar
            have hagain : Ref.run h f (.one x) pos
                (fun p => if p > pos then Ref.run h f (.star x a.nonGreedy) p k else none) = none := by
              cases hag : Ref.run h f (.one x) pos
                  (fun p => if p > pos then Ref.run h f (.star x a.nonGreedy) p k else none) with
              | none => rfl
              | some e' =>
                have := ih f (by omega) x ha pos _ e' hag
                rw [if_neg (Nat.lt_irrefl pos)] at this
                exact nomatch this
            rw [hagain] at hstar
            unfold Ref.orElse at hstar
            cases hk : k pos with
            | none => rw [hk] at hstar; simp at hstar
            | some e' => rw [hk] at hstar; simpa using hstar
        · exact absurd ha Bool.false_ne_true
      · -- concat
        rw [Bool.and_eq_true] at ha
        exact hseq a.sub ha.1 f hfn e hr

/-- a leading assertion-only element of a concatenation is skipped: what follows starts at the same position -/
theorem firstOK_seq_assert {lit : Bool} {S : Nat → Bool} {a : Re} (xs : List Re) (ha : isAssertionOnly a = true)
    (hxs : FirstOK lit S (.seq xs)) : FirstOK lit S (.seq (a :: xs)) := by
  intro h hb f pos k e hr hp hg
  cases f with
  | zero => rw [Ref.run_zero] at hr; exact nomatch hr
  | succ f =>
    rw [Ref.run_seq_cons] at hr
    exact hxs h hb f pos k e (assertOnly_run h f f (Nat.le_refl f) a ha pos _ e hr) hp hg

theorem firstOK_seq_find {lit : Bool} {S : Nat → Bool} (l : List Re) (x : Re)
    (hf : l.find? (fun s => !isAssertionOnly s) = some x)
    (hx : FirstOK lit S (.one x)) : FirstOK lit S (.seq l) := by
  induction l with
  | nil => exact nomatch hf
  | cons a l ih =>
    rw [List.find?_cons] at hf
    split at hf
    · cases hf; exact firstOK_seq_cons l hx
    · rename_i hna
      have ha : isAssertionOnly a = true := by
        cases hh : isAssertionOnly a with
        | true => rfl
        | false => rw [hh] at hna; exact absurd hna (by decide)
      exact firstOK_seq_assert l ha (ih hf)

theorem firstOK_alts {lit : Bool} {S : Nat → Bool} (l : List Re) (hl : ∀ x ∈ l, FirstOK lit S (.one x)) : FirstOK lit S (.alts l) := by
  induction l with
  | nil =>
    intro h hb f pos k e hr _ _
    cases f with
    | zero => rw [Ref.run_zero] at hr; exact nomatch hr
    | succ f => rw [Ref.run_alts_nil] at hr; exact nomatch hr
  | cons x xs ih =>
    intro h hb f pos k e hr hp hg
    cases f with
    | zero => rw [Ref.run_zero] at hr; exact nomatch hr
    | succ f =>
      rw [Ref.run_alts_cons] at hr
      unfold Ref.orElse at hr
      split at hr
      · rename_i e' he
        exact hl x List.mem_cons_self h hb f pos k e' he hp hg
      · exact ih (fun y hy => hl y (List.mem_cons_of_mem _ hy)) h hb f pos k e hr hp hg

/-- what one successful extraction step guarantees on EVERY pattern -/
structure ExtractInv (res res' : FirstByteSet) : Prop where
  ok : res'.Ok
  mono : ∀ j, res.bytes.mem j = true → res'.bytes.mem j = true
  complete : res'.complete = res.complete
  count : res.CountOK → res'.CountOK

theorem ExtractInv.refl (res : FirstByteSet) (hok : res.Ok) : ExtractInv res res :=
  ⟨hok, fun _ hj => hj, rfl, fun hc => hc⟩

theorem ExtractInv.trans {a b c : FirstByteSet} (h1 : ExtractInv a b) (h2 : ExtractInv b c) : ExtractInv a c :=
  ⟨h2.ok, fun j hj => h2.mono j (h1.mono j hj), by rw [h2.complete, h1.complete], fun hc => h2.count (h1.count hc)⟩

theorem foldl_addNew_inv (l : List Nat) (hl : ∀ b ∈ l, b < 256) (res : FirstByteSet) (hok : res.Ok) :
    ExtractInv res (l.foldl FirstByteSet.addNew res) :=
  ⟨FirstByteSet.foldl_addNew_ok _ res hok,
   fun j hj => by rw [FirstByteSet.foldl_addNew_mem _ res hok, hj]; rfl,
   FirstByteSet.foldl_addNew_complete _ res,
   fun hc => FirstByteSet.foldl_addNew_countOK l hl res hok hc⟩

theorem altLoop_inv (fo : Nat → List Nat) (fuel : Nat)
    (ih : ∀ re res res', res.Ok → extractFirstBytesRec fo fuel re res = (true, res') → ExtractInv res res') :
    ∀ (l : List Re) (res res' : FirstByteSet), res.Ok → altLoop (extractFirstBytesRec fo fuel) l res = (true, res') →
      ExtractInv res res' := by
  intro l
  induction l with
  | nil =>
    intro res res' hok hl
    rw [altLoop] at hl
    cases hl
    exact ExtractInv.refl res hok
  | cons x xs ihl =>
    intro res res' hok hl
    rw [altLoop] at hl
    cases hx : extractFirstBytesRec fo fuel x res with
    | mk b res1 =>
      rw [hx] at hl
      cases b with
      | false => simp only [] at hl; cases hl
      | true =>
        simp only [] at hl
        have h1 := ih x res res1 hok hx
        exact h1.trans (ihl res1 res' h1.ok hl)

/-- a successful step of `extractFirstBytesRecursive`, on ANY pattern: the table stays a 256-entry table, members are
    only added, `complete` is untouched, `count` stays the number of members -/
theorem extract_inv (fo : Nat → List Nat) : ∀ fuel re res res', res.Ok →
    extractFirstBytesRec fo fuel re res = (true, res') → ExtractInv res res' := by
  intro fuel
  induction fuel with
  | zero => intro re res res' _ hx; rw [extractFirstBytesRec] at hx; cases hx
  | succ fuel ih =>
    intro re res res' hok hx
    rw [extractFirstBytesRec] at hx
    have one : ∀ (b : Bool) (r : FirstByteSet), (match re.sub with
        | [x] => extractFirstBytesRec fo fuel x res
        | _ => (false, res)) = (true, res') → ExtractInv res res' := by
      intro _ _ hx
      cases hsub : re.sub with
      | nil => rw [hsub] at hx; cases hx
      | cons x xs =>
        cases xs with
        | cons _ _ => rw [hsub] at hx; cases hx
        | nil => rw [hsub] at hx; exact ih x res res' hok hx
    cases hop : re.op <;> rw [hop] at hx <;> simp only [] at hx
    all_goals first | exact absurd (show false = true from congrArg Prod.fst hx) Bool.false_ne_true | skip
    · -- literal
      cases hrune : re.rune with
      | nil => rw [hrune] at hx; cases hx
      | cons r rs =>
        rw [hrune] at hx
        simp only [] at hx
        cases hx
        exact foldl_addNew_inv _ (fun b hb => by
          obtain ⟨m, _, rfl⟩ := List.mem_map.mp hb
          exact encodeFirst_lt m) res hok
    · -- charClass
      obtain ⟨_, hres⟩ := Prod.mk.inj hx
      subst hres
      exact ⟨addClassRanges_ok _ res hok, fun j hj => by rw [addClassRanges_mem _ res j hok, hj]; rfl,
        addClassRanges_complete _ res, fun hc => addClassRanges_countOK _ res hok hc⟩
    · -- anyCharNotNL
      obtain ⟨_, hres⟩ := Prod.mk.inj hx
      subst hres
      exact foldl_addNew_inv _ (fun b hb => List.mem_range.mp (List.mem_filter.mp hb).1) res hok
    · -- anyChar
      obtain ⟨_, hres⟩ := Prod.mk.inj hx
      subst hres
      exact foldl_addNew_inv _ (fun b hb => List.mem_range.mp hb) res hok
    · exact one true res hx                      -- capture
    · exact one true res hx                      -- plus
    · -- repeat_
      split at hx
      · cases hx
      · exact one true res hx
    · -- concat
      cases hfind : re.sub.find? (fun s => !isAssertionOnly s) with
      | none => rw [hfind] at hx; cases hx
      | some x => rw [hfind] at hx; exact ih x res res' hok hx
    · -- alternate
      exact altLoop_inv fo fuel ih re.sub res res' hok hx

theorem altLoop_sound (fo : Nat → List Nat) (lit : Bool) (fuel : Nat)
    (ih : ∀ re res res', res.Ok → extractFirstBytesRec fo fuel re res = (true, res') → fbSide lit fuel re = true →
      FirstOK lit res'.bytes.mem (.one re)) :
    ∀ (l : List Re) (res res' : FirstByteSet), res.Ok → altLoop (extractFirstBytesRec fo fuel) l res = (true, res') →
      (∀ x ∈ l, fbSide lit fuel x = true) → ∀ x ∈ l, FirstOK lit res'.bytes.mem (.one x) := by
  intro l
  induction l with
  | nil => intro res res' _ _ _ x hx; exact nomatch hx
  | cons x xs ihl =>
    intro res res' hok hl hfr
    have hl' := hl
    rw [altLoop] at hl
    cases hx : extractFirstBytesRec fo fuel x res with
    | mk b res1 =>
      rw [hx] at hl
      cases b with
      | false => simp only [] at hl; cases hl
      | true =>
        simp only [] at hl
        have h1 := ih x res res1 hok hx (hfr x List.mem_cons_self)
        have i1 := extract_inv fo fuel x res res1 hok hx
        have i2 := altLoop_inv fo fuel (extract_inv fo fuel) xs res1 res' i1.ok hl
        intro y hy
        rcases List.mem_cons.mp hy with rfl | hy
        · exact h1.mono i2.mono
        · exact ihl res1 res' i1.ok hl (fun z hz => hfr z (List.mem_cons_of_mem _ hz)) y hy

theorem pair_false_ne {α : Type} {a b : α} (h : (false, a) = (true, b)) : False :=
  absurd (congrArg Prod.fst h) Bool.false_ne_true

/-- **the set collects the first byte of every match**: whenever the extraction succeeds.  `fbSide lit` (Cx.Spec.Fast)
    only says that no `{n,…}` in first position has a negative `n` and, for `lit = true`, that no literal there starts
    with U+FFFD; for `lit = false` the conclusion is restricted to positions where the haystack is well-formed. -/
theorem extract_sound (fo : Nat → List Nat) (hfo : OrbitSound fo) (lit : Bool) : ∀ fuel re res res', res.Ok →
    extractFirstBytesRec fo fuel re res = (true, res') → fbSide lit fuel re = true → FirstOK lit res'.bytes.mem (.one re) := by
  intro fuel
  induction fuel with
  | zero => intro re res res' _ hx _; rw [extractFirstBytesRec] at hx; exact (pair_false_ne hx).elim
  | succ fuel ih =>
    intro re res res' hok hx hfr
    rw [extractFirstBytesRec] at hx
    rw [fbSide] at hfr
    cases hop : re.op <;> rw [hop] at hx hfr <;> simp only [] at hx hfr
    all_goals first | exact (pair_false_ne hx).elim | skip
    · -- literal
      cases hrune : re.rune with
      | nil => rw [hrune] at hx; exact (pair_false_ne hx).elim
      | cons r rs =>
        rw [hrune] at hx hfr
        simp only [] at hx hfr
        cases hx
        intro h hb f pos k e hrun hp hg
        have hg' : lit = true ∨ ¬ ((Utf8.decodeAt h pos).1 = Utf8.runeError ∧ (Utf8.decodeAt h pos).2 = 1) := hg
        cases f with
        | zero => rw [Ref.run_zero] at hrun; exact nomatch hrun
        | succ f =>
          rw [Ref.run_one, hop] at hrun
          simp only [] at hrun
          cases f with
          | zero => rw [Ref.run_zero] at hrun; exact nomatch hrun
          | succ f =>
            rw [hrune, Ref.run_lit_cons] at hrun
            -- the decoded rune is a member of the orbit and is not an ill-formed byte read as U+FFFD
            have key : ∀ (hw : (Utf8.decodeAt h pos).2 > 0),
                (Utf8.decodeAt h pos).1 ∈ literalOrbit fo re.foldCase r →
                ((Utf8.decodeAt h pos).1 ≠ Utf8.runeError ∨ (Utf8.decodeAt h pos).2 ≠ 1) →
                (((literalOrbit fo re.foldCase r).map encodeFirst).foldl FirstByteSet.addNew res).bytes.mem (h.at pos) = true := by
              intro hw hmem hne
              rw [FirstByteSet.foldl_addNew_mem _ res hok, decode_first_byte h pos hb hw hne]
              have h1 : encodeFirst (Utf8.decodeAt h pos).1 ∈ (literalOrbit fo re.foldCase r).map encodeFirst :=
                List.mem_map.mpr ⟨_, hmem, rfl⟩
              simp [h1, encodeFirst_lt]
            cases hfold : re.foldCase with
            | false =>
              rw [hfold] at hrun
              simp only [Bool.false_eq_true, if_false] at hrun
              split at hrun
              · rename_i hcond
                simp only [Bool.and_eq_true, decide_eq_true_eq] at hcond
                obtain ⟨hw, hrc⟩ := hcond
                rw [hfold] at key
                refine key hw ?_ ?_
                · rw [← hrc]; exact List.mem_cons_self
                · exact lit_guard lit r _ _ hfr hg' (fun hce => by rw [hrc, hce])
              · exact nomatch hrun
            | true =>
              rw [hfold] at hrun
              simp only [if_true] at hrun
              split at hrun
              · rename_i hcond
                simp only [Bool.and_eq_true, decide_eq_true_eq] at hcond
                obtain ⟨hw, hrc⟩ := hcond
                rw [hfold] at key
                refine key hw ?_ ?_
                · unfold literalOrbit
                  rcases hfo _ _ hrc with heq | hin
                  · rw [← heq]; exact List.mem_cons_self
                  · exact List.mem_cons_of_mem _ hin
                · refine lit_guard lit r _ _ hfr hg' (fun hce => ?_)
                  rw [hce] at hrc
                  unfold Ref.foldEq Ref.isAsciiLetter Utf8.runeError at hrc
                  simp only [Bool.or_eq_true, Bool.and_eq_true, decide_eq_true_eq] at hrc
                  unfold Utf8.runeError
                  omega
              · exact nomatch hrun
    · -- charClass
      obtain ⟨hcnt, hres⟩ := Prod.mk.inj hx
      subst hres
      intro h hb f pos k e hrun hp hg
      cases f with
      | zero => rw [Ref.run_zero] at hrun; exact nomatch hrun
      | succ f =>
        rw [Ref.run_one, hop] at hrun
        simp only [] at hrun
        split at hrun
        · rename_i hcond
          simp only [Bool.and_eq_true, decide_eq_true_eq] at hcond
          obtain ⟨hw, hin⟩ := hcond
          unfold Ref.inRanges at hin
          rw [List.any_eq_true] at hin
          obtain ⟨p, hpm, hpr⟩ := hin
          simp only [Bool.and_eq_true, decide_eq_true_eq] at hpr
          rw [addClassRanges_mem _ res _ hok]
          have hlt := hb pos
          have hany : (pairs re.rune).any (fun p =>
              (decide (p.2 > 0x7F) && decide (128 ≤ h.at pos)) ||
              (decide (p.1 ≤ h.at pos) && decide (h.at pos ≤ p.2) && decide (h.at pos ≤ 0x7F))) = true := by
            rw [List.any_eq_true]
            refine ⟨p, hpm, ?_⟩
            by_cases hhi : 128 ≤ h.at pos
            · have := decode_high h pos hw hhi
              have h2 : p.2 > 0x7F := by omega
              simp [h2, hhi]
            · have hd := decode_ascii_fwd h pos hp (by omega)
              rw [hd] at hpr
              simp only [] at hpr
              have h3 : h.at pos ≤ 127 := by omega
              simp [hpr.1, hpr.2, h3]
          simp [hlt, hany]
        · exact nomatch hrun
    · -- anyCharNotNL
      obtain ⟨_, hres⟩ := Prod.mk.inj hx
      subst hres
      intro h hb f pos k e hrun hp hg
      cases f with
      | zero => rw [Ref.run_zero] at hrun; exact nomatch hrun
      | succ f =>
        rw [Ref.run_one, hop] at hrun
        simp only [] at hrun
        split at hrun
        · rename_i hcond
          simp only [Bool.and_eq_true, decide_eq_true_eq] at hcond
          obtain ⟨hw, hne⟩ := hcond
          have hne10 : h.at pos ≠ 10 := by
            intro h10
            rw [decode_ascii_fwd h pos hp (by omega)] at hne
            exact hne h10
          rw [FirstByteSet.foldl_addNew_mem _ res hok]
          have := hb pos
          simp [hne10, this]
        · exact nomatch hrun
    · -- anyChar
      obtain ⟨_, hres⟩ := Prod.mk.inj hx
      subst hres
      intro h hb f pos k e hrun hp hg
      rw [FirstByteSet.foldl_addNew_mem _ res hok]
      have := hb pos
      simp [this]
    · -- capture
      cases hsub : re.sub with
      | nil => rw [hsub] at hx; exact (pair_false_ne hx).elim
      | cons x xs =>
        cases xs with
        | cons _ _ => rw [hsub] at hx; exact (pair_false_ne hx).elim
        | nil =>
          rw [hsub] at hx hfr
          simp only [] at hx hfr
          have hxo := ih x res res' hok hx hfr
          intro h hb f pos k e hrun hp hg
          cases f with
          | zero => rw [Ref.run_zero] at hrun; exact nomatch hrun
          | succ f =>
            rw [Ref.run_one, hop] at hrun
            simp only [] at hrun
            rw [hsub] at hrun
            exact firstOK_seq_cons [] hxo h hb f pos k e hrun hp hg
    · -- plus
      cases hsub : re.sub with
      | nil => rw [hsub] at hx; exact (pair_false_ne hx).elim
      | cons x xs =>
        cases xs with
        | cons _ _ => rw [hsub] at hx; exact (pair_false_ne hx).elim
        | nil =>
          rw [hsub] at hx hfr
          simp only [] at hx hfr
          have hxo := ih x res res' hok hx hfr
          intro h hb f pos k e hrun hp hg
          cases f with
          | zero => rw [Ref.run_zero] at hrun; exact nomatch hrun
          | succ f =>
            rw [Ref.run_one, hop] at hrun
            simp only [] at hrun
            rw [hsub] at hrun
            exact hxo h hb f pos _ e hrun hp hg
    · -- repeat_
      simp only [Bool.and_eq_true, decide_eq_true_eq] at hfr
      obtain ⟨hmin, hfr⟩ := hfr
      split at hx
      · exact (pair_false_ne hx).elim
      rename_i hmin0
      simp only [ge_iff_le] at hmin
      cases hsub : re.sub with
      | nil => rw [hsub] at hx; exact (pair_false_ne hx).elim
      | cons x xs =>
        cases xs with
        | cons _ _ => rw [hsub] at hx; exact (pair_false_ne hx).elim
        | nil =>
          rw [hsub] at hx hfr
          simp only [] at hx hfr
          have hxo := ih x res res' hok hx hfr
          intro h hb f pos k e hrun hp hg
          cases f with
          | zero => rw [Ref.run_zero] at hrun; exact nomatch hrun
          | succ f =>
            rw [Ref.run_one, hop] at hrun
            simp only [] at hrun
            rw [hsub] at hrun
            simp only [] at hrun
            obtain ⟨m, hm⟩ : ∃ m, re.min.toNat = m + 1 := ⟨re.min.toNat - 1, by omega⟩
            rw [hm] at hrun
            cases f with
            | zero => rw [Ref.run_zero] at hrun; exact nomatch hrun
            | succ f =>
              rw [Ref.run_rep_succ] at hrun
              exact hxo h hb f pos _ e hrun hp hg
    · -- concat
      cases hfind : re.sub.find? (fun s => !isAssertionOnly s) with
      | none => rw [hfind] at hx; exact (pair_false_ne hx).elim
      | some x =>
        rw [hfind] at hx hfr
        simp only [] at hx hfr
        have hxo := ih x res res' hok hx hfr
        intro h hb f pos k e hrun hp hg
        cases f with
        | zero => rw [Ref.run_zero] at hrun; exact nomatch hrun
        | succ f =>
          rw [Ref.run_one, hop] at hrun
          simp only [] at hrun
          exact firstOK_seq_find re.sub x hfind hxo h hb f pos k e hrun hp hg
    · -- alternate
      simp only [List.all_eq_true] at hfr
      have h4 := altLoop_sound fo lit fuel ih re.sub res res' hok hx hfr
      intro h hb f pos k e hrun hp hg
      cases f with
      | zero => rw [Ref.run_zero] at hrun; exact nomatch hrun
      | succ f =>
        rw [Ref.run_one, hop] at hrun
        simp only [] at hrun
        exact firstOK_alts re.sub h4 h hb f pos k e hrun hp hg

theorem extractFirstBytes_some (fo : Nat → List Nat) (re : Re) (fb : FirstByteSet)
    (hx : extractFirstBytes fo re = some fb) : extractFirstBytesRec fo 21 re {} = (true, fb) := by
  unfold extractFirstBytes at hx
  cases hr : extractFirstBytesRec fo 21 re {} with
  | mk b res =>
    rw [hr] at hx
    cases b with
    | false => exact nomatch hx
    | true =>
      simp only [Option.some.injEq] at hx
      rw [hx]

/-- **what a non-nil result of `ExtractFirstBytes` always is** (any pattern, any `foldOrbit`): `IsComplete()` is `true`
    — the flag is only cleared on paths that return `nil` —, and `Count()` is the number of bytes `Contains` accepts, so
    `IsUseful()` says exactly "the set is neither empty nor everything". -/
theorem firstBytes_complete (fo : Nat → List Nat) (re : Re) (fb : FirstByteSet)
    (hx : extractFirstBytes fo re = some fb) :
    fb.complete = true ∧ fb.count = (List.range 256).countP fb.contains ∧ (∀ b, fb.contains b = true → b < 256) := by
  have hr := extractFirstBytes_some fo re fb hx
  have inv := extract_inv fo 21 re {} fb FirstByteSet.ok_empty hr
  refine ⟨inv.complete, inv.count FirstByteSet.countOK_empty, fun b hb => ?_⟩
  have hok := inv.ok
  unfold FirstByteSet.Ok at hok
  unfold FirstByteSet.contains Table.mem at hb
  false_or_by_contra
  rw [Array.getD_eq_getD_getElem?, Array.getElem?_eq_none (by omega)] at hb
  exact nomatch hb

/-- **Soundness of the first-byte rejection filter**, for EVERY pattern for which `ExtractFirstBytes` returns a set: every
    NON-EMPTY haystack on which the pattern matches at offset 0 — with a match of any length, the empty one included —
    starts with a byte of the set.  `hfo`: the `SimpleFold` orbits supplied to the model cover the (ASCII) case folding of
    the reference matcher.  `frag`: no literal in first position starts with U+FFFD (which the reference matcher, like
    `regexp`, also matches against an ill-formed byte), and no `{n,…}` there has `n < 0` (never parsed); nothing about
    assertions, groups or alternatives. -/
theorem firstBytes_filter_sound (fo : Nat → List Nat) (hfo : OrbitSound fo) (re : Re) (fb : FirstByteSet)
    (hx : extractFirstBytes fo re = some fb) (frag : fbFrag 21 re = true) (h : Bytes) (hb : ∀ i, h.at i < 256)
    (hne : 0 < h.size) (e : Nat) (hm : Ref.matchAt re h 0 = some e) : fb.contains (h.at 0) = true :=
  extract_sound fo hfo true 21 re {} fb FirstByteSet.ok_empty (extractFirstBytes_some fo re fb hx) frag h hb _ 0 _ e hm hne
    (Or.inl rfl)

/-- the same with the condition on the HAYSTACK instead of the literals: for every pattern with a first-byte set
    (`minOK`: the parser invariant `Min ≥ 0` alone — U+FFFD literals allowed) and every non-empty haystack that begins with
    a well-formed rune (not an ill-formed byte, which `utf8.DecodeRune` reports as U+FFFD of width 1), a match at offset 0
    starts with a byte of the set. -/
theorem firstBytes_filter_sound_wellformed (fo : Nat → List Nat) (hfo : OrbitSound fo) (re : Re) (fb : FirstByteSet)
    (hx : extractFirstBytes fo re = some fb) (minOK : fbMinOK 21 re = true) (h : Bytes) (hb : ∀ i, h.at i < 256)
    (hne : 0 < h.size) (hwf : WellFormedAt h 0) (e : Nat) (hm : Ref.matchAt re h 0 = some e) :
    fb.contains (h.at 0) = true :=
  extract_sound fo hfo false 21 re {} fb FirstByteSet.ok_empty (extractFirstBytes_some fo re fb hx) minOK h hb _ 0 _ e hm hne
    (Or.inr hwf)

/-- in a `FoldCase` literal every member of the orbit the model was given contributes its lead byte — whatever the
    orbit is (this is where the non-ASCII fold partners, e.g. U+212A KELVIN SIGN for `k`, U+017F for `s`, enter the set;
    the reference matcher itself folds the ASCII letters only) -/
theorem firstBytes_literal_orbit (fo : Nat → List Nat) (re : Re) (fb : FirstByteSet) (r : Nat) (rs : List Nat)
    (hop : re.op = .literal) (hrune : re.rune = r :: rs) (hx : extractFirstBytes fo re = some fb) :
    fb.contains (encodeFirst r) = true ∧
    (re.foldCase = true → ∀ m ∈ fo r, fb.contains (encodeFirst m) = true) := by
  have hr := extractFirstBytes_some fo re fb hx
  rw [extractFirstBytesRec, hop] at hr
  simp only [] at hr
  rw [hrune] at hr
  simp only [] at hr
  cases hr
  unfold FirstByteSet.contains
  refine ⟨?_, fun hf m hm => ?_⟩
  · rw [FirstByteSet.foldl_addNew_mem _ _ FirstByteSet.ok_empty]
    have : encodeFirst r ∈ (literalOrbit fo re.foldCase r).map encodeFirst :=
      List.mem_map.mpr ⟨r, List.mem_cons_self, rfl⟩
    simp [this, encodeFirst_lt]
  · rw [FirstByteSet.foldl_addNew_mem _ _ FirstByteSet.ok_empty]
    have : encodeFirst m ∈ (literalOrbit fo re.foldCase r).map encodeFirst := by
      refine List.mem_map.mpr ⟨m, ?_, rfl⟩
      unfold literalOrbit
      rw [hf]
      exact List.mem_cons_of_mem _ hm
    simp [this, encodeFirst_lt]

theorem getD_setIfInBounds_int (d : Array Int) (b x : Nat) (v : Int) :
    (d.setIfInBounds b v).getD x (-1) = if b = x ∧ b < d.size then v else d.getD x (-1) := by
  simp only [Array.getD_eq_getD_getElem?, Array.getElem?_setIfInBounds]
  by_cases hbx : b = x
  · subst hbx
    by_cases hb : b < d.size <;> simp [hb]
  · simp [hbx]

theorem tableOfRangesClamped_mem (rs : List (Nat × Nat)) (b : Nat) :
    (tableOfRangesClamped rs).mem b = (decide (b < 256) && rs.any fun r => decide (r.1 ≤ b) && decide (b ≤ r.2)) := by
  unfold tableOfRangesClamped
  rw [tableOfRanges_mem]
  by_cases hb : b < 256
  · simp only [hb, decide_true, Bool.true_and, List.any_map, List.any_filter]
    congr 1
    funext r
    simp only [Function.comp]
    by_cases h1 : r.1 ≤ b
    · have : r.1 ≤ 255 := by omega
      by_cases h2 : b ≤ r.2
      · have : b ≤ min r.2 255 := by omega
        simp [*]
      · have : ¬ b ≤ min r.2 255 := by omega
        simp [*]
    · simp [h1]
  · simp [hb]

/-! ## the `[cls]+` specification IS the general leftmost-first semantics (ASCII class, byte haystack) -/

section
attribute [local irreducible] tableOfRanges

/-- a class of ASCII runes matches exactly the bytes of its table -/
theorem run_one_asciiClass (h : Bytes) (cc : Re) (hcc : cc.op = .charClass)
    (hascii : ∀ p ∈ pairs cc.rune, p.2 ≤ 127) (f pos : Nat) (k : Nat → Option Nat) :
    Ref.run h (f+1) (.one cc) pos k =
      if pos < h.size ∧ (tableOfRanges (pairs cc.rune)).mem (h.at pos) = true then k (pos + 1) else none := by
  rw [Ref.run_one, hcc]
  simp only []
  by_cases hm : pos < h.size ∧ (tableOfRanges (pairs cc.rune)).mem (h.at pos) = true
  · rw [if_pos hm]
    obtain ⟨hp, hmem⟩ := hm
    rw [tableOfRanges_mem] at hmem
    simp only [Bool.and_eq_true, decide_eq_true_eq, List.any_eq_true] at hmem
    obtain ⟨_, p, hpin, h1, h2⟩ := hmem
    have hle : h.at pos ≤ 127 := by have := hascii p hpin; omega
    rw [decode_ascii_fwd h pos hp (by omega)]
    simp only []
    rw [if_pos]
    simp only [Bool.and_eq_true, decide_eq_true_eq]
    refine ⟨by omega, ?_⟩
    unfold Ref.inRanges
    simp only [List.any_eq_true, Bool.and_eq_true, decide_eq_true_eq]
    exact ⟨p, hpin, h1, h2⟩
  · rw [if_neg hm, if_neg]
    intro hc
    simp only [Bool.and_eq_true, decide_eq_true_eq] at hc
    obtain ⟨hw, hin⟩ := hc
    apply hm
    unfold Ref.inRanges at hin
    simp only [List.any_eq_true, Bool.and_eq_true, decide_eq_true_eq] at hin
    obtain ⟨p, hpin, h1, h2⟩ := hin
    have hle : (Utf8.decodeAt h pos).1 ≤ 127 := by have := hascii p hpin; omega
    obtain ⟨hat, hp⟩ := decode_ascii_inv h pos hw hle
    refine ⟨hp, ?_⟩
    rw [tableOfRanges_mem, hat]
    simp only [Bool.and_eq_true, decide_eq_true_eq, List.any_eq_true]
    exact ⟨by omega, p, hpin, h1, h2⟩

/-- greedy `cls*` with the accepting continuation consumes the whole run -/
theorem run_star_asciiClass (h : Bytes) (cc : Re) (hcc : cc.op = .charClass)
    (hascii : ∀ p ∈ pairs cc.rune, p.2 ≤ 127) :
    ∀ m pos f, runLen (tableOfRanges (pairs cc.rune)).mem h pos = m → 2 * m + 2 ≤ f →
      Ref.run h f (.star cc false) pos some = some (pos + m) := by
  intro m
  induction m with
  | zero =>
    intro pos f hrl hf
    obtain ⟨f, rfl⟩ : ∃ f', f = f' + 2 := ⟨f - 2, by omega⟩
    rw [Ref.run_star]
    simp only [Bool.false_eq_true, if_false]
    rw [run_one_asciiClass h cc hcc hascii, if_neg]
    · rfl
    · rintro ⟨hp, hmem⟩
      rw [runLen_lt _ h pos hp, if_pos hmem] at hrl
      omega
  | succ m ih =>
    intro pos f hrl hf
    obtain ⟨f, rfl⟩ : ∃ f', f = f' + 2 := ⟨f - 2, by omega⟩
    rw [Ref.run_star]
    simp only [Bool.false_eq_true, if_false]
    have hp : pos < h.size := by
      false_or_by_contra
      rw [runLen_ge _ h pos (by omega)] at hrl
      omega
    rw [runLen_lt _ h pos hp] at hrl
    split at hrl
    · rename_i hmem
      rw [run_one_asciiClass h cc hcc hascii, if_pos ⟨hp, hmem⟩, if_pos (by omega),
        ih (pos + 1) (f + 1) (by omega) (by omega)]
      unfold Ref.orElse
      simp only []
      congr 1
      omega
    · omega

theorem matchAt_plus_asciiClass (h : Bytes) (re cc : Re) (hop : re.op = .plus)
    (hsub : re.sub = [cc]) (hg : re.nonGreedy = false) (hcc : cc.op = .charClass)
    (hascii : ∀ p ∈ pairs cc.rune, p.2 ≤ 127) (s : Nat) :
    Ref.matchAt re h s =
      if 1 ≤ runLen (tableOfRanges (pairs cc.rune)).mem h s
      then some (s + runLen (tableOfRanges (pairs cc.rune)).mem h s) else none := by
  unfold Ref.matchAt
  have hfuel : 2 * (h.size + 2) + 2 ≤ Ref.fuelFor re h := by
    unfold Ref.fuelFor
    have : 2 * (h.size + 2) ≤ (Ref.sizeAux 32 re + 2) * (h.size + 2) :=
      Nat.mul_le_mul_right _ (by omega)
    omega
  obtain ⟨F, hF⟩ : ∃ F, Ref.fuelFor re h = F + 2 := ⟨Ref.fuelFor re h - 2, by omega⟩
  rw [hF, Ref.run_one, hop]
  simp only []
  rw [hsub]
  simp only []
  rw [run_one_asciiClass h cc hcc hascii, hg]
  by_cases hm : s < h.size ∧ (tableOfRanges (pairs cc.rune)).mem (h.at s) = true
  · rw [if_pos hm]
    have hrl := runLen_lt (tableOfRanges (pairs cc.rune)).mem h s hm.1
    rw [if_pos hm.2] at hrl
    have hle := runLen_le (tableOfRanges (pairs cc.rune)).mem h (s + 1)
    rw [run_star_asciiClass h cc hcc hascii _ (s + 1) (F + 1) rfl (by omega), if_pos (by omega), hrl]
    congr 1
    omega
  · rw [if_neg hm, if_neg]
    intro hc
    apply hm
    by_cases hp : s < h.size
    · rw [runLen_lt _ h s hp] at hc
      split at hc
      · rename_i hmem; exact ⟨hp, hmem⟩
      · omega
    · rw [runLen_ge _ h s (by omega)] at hc
      omega

theorem findLoop_eq_leastFrom (re : Re) (h : Bytes) :
    ∀ k s, s + k = h.size + 1 →
      Ref.findLoop re h k s =
        (leastFrom (fun s => (Ref.matchAt re h s).isSome) h.size s).bind fun s =>
          (Ref.matchAt re h s).map fun e => (s, e) := by
  intro k
  induction k with
  | zero =>
    intro s hk
    rw [Ref.findLoop, leastFrom_gt _ _ _ (by omega)]; rfl
  | succ k ih =>
    intro s hk
    rw [Ref.findLoop, leastFrom_unfold, if_pos (by omega)]
    cases hm : Ref.matchAt re h s with
    | some e => simp [hm]
    | none =>
      simp only [Option.isSome_none, Bool.false_eq_true, if_false]
      exact ih (s + 1) (by omega)

/-- **`ccFind` is the leftmost-first semantics**: for a greedy `cls+` over ASCII runes, the general
    reference matcher (Go rune decoding, backtracking priorities) returns exactly `ccFind … 1`. -/
theorem refFind_plus_eq_ccFind (h : Bytes) (re cc : Re) (hop : re.op = .plus)
    (hsub : re.sub = [cc]) (hg : re.nonGreedy = false) (hcc : cc.op = .charClass)
    (hascii : ∀ p ∈ pairs cc.rune, p.2 ≤ 127) (a : Nat) :
    Ref.refFind re h a = ccFind (tableOfRanges (pairs cc.rune)).mem 1 h a := by
  unfold Ref.refFind ccFind
  by_cases ha : a ≤ h.size + 1
  · rw [findLoop_eq_leastFrom re h _ a (by omega)]
    have hfun : (fun s => (Ref.matchAt re h s).isSome) =
        (fun s => decide (1 ≤ runLen (tableOfRanges (pairs cc.rune)).mem h s)) := by
      funext s
      rw [matchAt_plus_asciiClass h re cc hop hsub hg hcc hascii s]
      split <;> simp [*]
    rw [hfun]
    cases hl : leastFrom (fun s => decide (1 ≤ runLen (tableOfRanges (pairs cc.rune)).mem h s)) h.size a with
    | none => rfl
    | some s =>
      obtain ⟨_, _, h3, _⟩ := (leastFrom_some_iff _ _ _ _).mp hl
      simp only [decide_eq_true_eq] at h3
      simp only [Option.bind_some, Option.map_some]
      rw [matchAt_plus_asciiClass h re cc hop hsub hg hcc hascii s, if_pos h3]
      rfl
  · have : h.size + 1 - a = 0 := by omega
    rw [this, Ref.findLoop, leastFrom_gt _ _ _ (by omega)]; rfl

/-- **CharClassSearcher end to end**: on EVERY pattern `IsSimpleCharClassPlus` accepts, and every haystack and offset,
    the searcher meta builds returns what the general leftmost-first reference matcher returns. -/
theorem charClassSearcher_eq_reference (re : Re) (hok : isSimpleCharClassPlus re = true)
    (h : Bytes) (a : Nat) :
    (buildCharClassSearcher re).map (fun s => s.searchAt h a) = some (Ref.refFind re h a) := by
  obtain ⟨ranges, hfrag, hbuild, hspec⟩ := charClassSearcher_exact re hok
  obtain ⟨hop, greedy, ⟨cc, hsub, hcc, hpairs⟩, _, hascii⟩ := hfrag
  rw [hbuild, Option.map_some, hspec h a, greedy]
  congr 1
  rw [refFind_plus_eq_ccFind h re cc hop hsub greedy hcc (by rw [hpairs]; exact fun p hp => (hascii p hp).2) a,
    hpairs]
  rfl

end



/-! ## the composite specification IS the general leftmost-first semantics (ASCII classes) -/

/-- candidate counts `lo … top` in priority order -/
def candList (lazy : Bool) (lo top : Nat) : List Nat :=
  let up := (List.range (top + 1)).filter (fun k => decide (lo ≤ k))
  if lazy then up else up.reverse

/-- first successful continuation over the candidate counts -/
def candFind (lazy : Bool) (lo top s : Nat) (k : Nat → Option Nat) : Option Nat :=
  (candList lazy lo top).findSome? fun c => k (s + c)

theorem candFind_zero (lazy : Bool) (lo s : Nat) (k : Nat → Option Nat) :
    candFind lazy lo 0 s k = if lo = 0 then k s else none := by
  unfold candFind candList
  by_cases hlo : lo = 0
  · subst hlo
    cases lazy <;> simp [List.range_succ]
  · have : ¬ lo ≤ 0 := by omega
    cases lazy <;> simp [List.range_succ, hlo]

theorem filter_range_succ (lo t : Nat) :
    (List.range (t + 2)).filter (fun k => decide (lo ≤ k)) =
      (if lo = 0 then [0] else []) ++ ((List.range (t + 1)).filter (fun k => decide (lo - 1 ≤ k))).map (· + 1) := by
  rw [List.range_succ_eq_map, List.filter_cons, List.filter_map]
  have hf : ((fun k => decide (lo ≤ k)) ∘ Nat.succ) = fun k => decide (lo - 1 ≤ k) := by
    funext k
    simp only [Function.comp]
    by_cases h : lo ≤ k + 1
    · have : lo - 1 ≤ k := by omega
      simp [h, this]
    · have : ¬ lo - 1 ≤ k := by omega
      simp [h, this]
  rw [hf]
  by_cases hlo : lo = 0
  · simp [hlo]
  · have : ¬ lo ≤ 0 := by omega
    simp [hlo]

/-- peel the FIRST byte: a count `c ≥ 1` at `s` is the count `c - 1` at `s + 1` -/
theorem candFind_succ (lazy : Bool) (lo t s : Nat) (k : Nat → Option Nat) :
    candFind lazy lo (t + 1) s k =
      if lazy then Ref.orElse (if lo = 0 then k s else none) fun _ => candFind lazy (lo - 1) t (s + 1) k
      else Ref.orElse (candFind lazy (lo - 1) t (s + 1) k) fun _ => if lo = 0 then k s else none := by
  have hk : ∀ l : List Nat, (l.map (· + 1)).findSome? (fun c => k (s + c)) = l.findSome? (fun c => k (s + 1 + c)) := by
    intro l
    rw [List.findSome?_map]
    congr 1
    funext c
    simp only [Function.comp]
    congr 1
    omega
  unfold candFind candList
  simp only []
  rw [filter_range_succ]
  cases lazy with
  | true =>
    simp only [if_true]
    rw [List.findSome?_append, hk]
    by_cases hlo : lo = 0
    · subst hlo
      simp only [if_true, List.findSome?_cons, List.findSome?_nil, Nat.add_zero]
      unfold Ref.orElse
      cases k s <;> rfl
    · simp only [hlo, if_false, List.findSome?_nil]
      unfold Ref.orElse
      rfl
  | false =>
    simp only [Bool.false_eq_true, if_false]
    rw [List.reverse_append, List.findSome?_append, ← List.map_reverse, hk]
    by_cases hlo : lo = 0
    · subst hlo
      simp only [if_true, List.reverse_cons, List.reverse_nil, List.nil_append, List.findSome?_cons,
        List.findSome?_nil, Nat.add_zero]
      unfold Ref.orElse
      cases List.findSome? (fun c => k (s + 1 + c))
        (List.filter (fun k => decide (0 - 1 ≤ k)) (List.range (t + 1))).reverse with
      | none => cases k s <;> rfl
      | some e => rfl
    · simp only [hlo, if_false, List.reverse_nil, List.findSome?_nil]
      unfold Ref.orElse
      cases List.findSome? (fun c => k (s + 1 + c))
        (List.filter (fun k => decide (lo - 1 ≤ k)) (List.range (t + 1))).reverse <;> rfl


namespace Ref

theorem run_rep_zero_none (h : Bytes) (f : Nat) (x : Re) (lazy : Bool) (pos : Nat) (k : Nat → Option Nat) :
    run h (f+1) (.rep x 0 none lazy) pos k = run h f (.star x lazy) pos k := by
  rw [run]

theorem run_rep_zero_zero (h : Bytes) (f : Nat) (x : Re) (lazy : Bool) (pos : Nat) (k : Nat → Option Nat) :
    run h (f+1) (.rep x 0 (some 0) lazy) pos k = k pos := by
  rw [run]

theorem run_rep_zero_succ (h : Bytes) (f : Nat) (x : Re) (mx : Nat) (lazy : Bool) (pos : Nat) (k : Nat → Option Nat) :
    run h (f+1) (.rep x 0 (some (mx+1)) lazy) pos k =
      if lazy then orElse (k pos) fun _ => run h f (.one x) pos fun p => run h f (.rep x 0 (some mx) lazy) p k
      else orElse (run h f (.one x) pos fun p => run h f (.rep x 0 (some mx) lazy) p k) fun _ => k pos := by
  rw [run]

end Ref

section
attribute [local irreducible] tableOfRanges

/-- greatest admissible count given the bound `mx` and the run length `R` -/
def topOf (mx : Option Nat) (R : Nat) : Nat :=
  match mx with
  | none => R
  | some b => min b R

/-- "`x` consumes exactly one byte of the set `S`": the behaviour of the reference matcher on `x` with at least `N` fuel -/
def StepSem (h : Bytes) (x : Re) (S : Nat → Bool) (N : Nat) : Prop :=
  ∀ f pos (k : Nat → Option Nat), N ≤ f →
    Ref.run h f (.one x) pos k = if pos < h.size ∧ S (h.at pos) = true then k (pos + 1) else none

section
variable (h : Bytes) (x : Re) (S : Nat → Bool) (N : Nat) (hN : 1 ≤ N) (hx : StepSem h x S N)
include hN hx

theorem run_star_step (lazy : Bool) :
    ∀ d s f (k : Nat → Option Nat), h.size - s ≤ d → d + 1 + N ≤ f →
      Ref.run h f (.star x lazy) s k = candFind lazy 0 (runLen S h s) s k := by
  intro d
  induction d with
  | zero =>
    intro s f k hd hf
    obtain ⟨f, rfl⟩ : ∃ f', f = f' + 2 := ⟨f - 2, by omega⟩
    have hnm : ¬ (s < h.size ∧ S (h.at s) = true) := fun hc => by
      have := hc.1; omega
    rw [Ref.run_star, hx _ _ _ (by omega), if_neg hnm, runLen_ge _ h s (by omega), candFind_zero]
    unfold Ref.orElse
    cases lazy
    · rfl
    · simp only [if_true]; cases k s <;> rfl
  | succ d ih =>
    intro s f k hd hf
    obtain ⟨f, rfl⟩ : ∃ f', f = f' + 2 := ⟨f - 2, by omega⟩
    rw [Ref.run_star, hx _ _ _ (by omega)]
    by_cases hm : s < h.size ∧ S (h.at s) = true
    · have hgt : s + 1 > s := by omega
      rw [if_pos hm, if_pos hgt, ih (s + 1) (f + 1) k (by omega) (by omega)]
      have hrl := runLen_lt S h s hm.1
      rw [if_pos hm.2] at hrl
      rw [hrl, candFind_succ]
      rfl
    · rw [if_neg hm]
      have hrl : runLen S h s = 0 := by
        by_cases hp : s < h.size
        · rw [runLen_lt _ h s hp, if_neg (fun hc => hm ⟨hp, hc⟩)]
        · exact runLen_ge _ h s (by omega)
      rw [hrl, candFind_zero]
      unfold Ref.orElse
      cases lazy
      · rfl
      · simp only [if_true]; cases k s <;> rfl

theorem run_rep_step (lazy : Bool) :
    ∀ d s lo mx f (k : Nat → Option Nat), h.size - s ≤ d → d + 2 + N ≤ f → (∀ b, mx = some b → lo ≤ b) →
      Ref.run h f (.rep x lo mx lazy) s k = candFind lazy lo (topOf mx (runLen S h s)) s k := by
  intro d
  induction d with
  | zero =>
    intro s lo mx f k hd hf hwf
    obtain ⟨f, rfl⟩ : ∃ f', f = f' + 3 := ⟨f - 3, by omega⟩
    have hrl : runLen S h s = 0 := runLen_ge _ h s (by omega)
    have htop : topOf mx 0 = 0 := by unfold topOf; cases mx <;> simp
    have hnm : ¬ (s < h.size ∧ S (h.at s) = true) := fun hc => by
      have := hc.1; omega
    rw [hrl, htop, candFind_zero]
    cases lo with
    | succ m =>
      rw [Ref.run_rep_succ, hx _ _ _ (by omega), if_neg hnm, if_neg (by omega)]
    | zero =>
      simp only [if_true]
      cases mx with
      | none =>
        rw [Ref.run_rep_zero_none, run_star_step h x S N hN hx lazy 0 s (f + 2) k hd (by omega), hrl, candFind_zero]
        rfl
      | some b =>
        cases b with
        | zero => rw [Ref.run_rep_zero_zero]
        | succ b =>
          rw [Ref.run_rep_zero_succ, hx _ _ _ (by omega), if_neg hnm]
          unfold Ref.orElse
          cases lazy
          · rfl
          · simp only [if_true]; cases k s <;> rfl
  | succ d ih =>
    intro s lo mx f k hd hf hwf
    obtain ⟨f, rfl⟩ : ∃ f', f = f' + 3 := ⟨f - 3, by omega⟩
    by_cases hm : s < h.size ∧ S (h.at s) = true
    · have hrl := runLen_lt S h s hm.1
      rw [if_pos hm.2] at hrl
      cases lo with
      | succ m =>
        rw [Ref.run_rep_succ, hx _ _ _ (by omega), if_pos hm,
          ih (s + 1) m (mx.map (· - 1)) (f + 2) k (by omega) (by omega)
            (by intro b hb; cases mx with
                | none => exact nomatch hb
                | some b' => simp at hb; have := hwf b' rfl; omega)]
        have htop : topOf mx (runLen S h s) =
            topOf (mx.map (· - 1)) (runLen S h (s + 1)) + 1 := by
          rw [hrl]
          unfold topOf
          cases mx with
          | none => rfl
          | some b' => have := hwf b' rfl; simp only [Option.map_some]; omega
        rw [htop, candFind_succ]
        simp only [Nat.add_sub_cancel, show ¬ (m + 1 = 0) from by omega, if_false]
        unfold Ref.orElse
        cases lazy
        · simp only [Bool.false_eq_true, if_false]
          cases candFind false m _ (s + 1) k <;> rfl
        · rfl
      | zero =>
        cases mx with
        | none =>
          rw [Ref.run_rep_zero_none, run_star_step h x S N hN hx lazy (d + 1) s (f + 2) k hd (by omega)]
          rfl
        | some b =>
          cases b with
          | zero =>
            rw [Ref.run_rep_zero_zero]
            have : topOf (some 0) (runLen S h s) = 0 := by unfold topOf; simp
            rw [this, candFind_zero]; rfl
          | succ b =>
            rw [Ref.run_rep_zero_succ, hx _ _ _ (by omega), if_pos hm,
              ih (s + 1) 0 (some b) (f + 2) k (by omega) (by omega) (fun _ _ => Nat.zero_le _)]
            have htop : topOf (some (b + 1)) (runLen S h s) =
                topOf (some b) (runLen S h (s + 1)) + 1 := by
              rw [hrl]; unfold topOf; simp only []; omega
            rw [htop, candFind_succ]
            rfl
    · have hrl : runLen S h s = 0 := by
        by_cases hp : s < h.size
        · rw [runLen_lt _ h s hp, if_neg (fun hc => hm ⟨hp, hc⟩)]
        · exact runLen_ge _ h s (by omega)
      have htop : topOf mx 0 = 0 := by unfold topOf; cases mx <;> simp
      rw [hrl, htop, candFind_zero]
      cases lo with
      | succ m =>
        rw [Ref.run_rep_succ, hx _ _ _ (by omega), if_neg hm, if_neg (by omega)]
      | zero =>
        simp only [if_true]
        cases mx with
        | none =>
          rw [Ref.run_rep_zero_none, run_star_step h x S N hN hx lazy (d + 1) s (f + 2) k hd (by omega), hrl,
            candFind_zero]
          rfl
        | some b =>
          cases b with
          | zero => rw [Ref.run_rep_zero_zero]
          | succ b =>
            rw [Ref.run_rep_zero_succ, hx _ _ _ (by omega), if_neg hm]
            unfold Ref.orElse
            cases lazy
            · rfl
            · simp only [if_true]; cases k s <;> rfl
end

/-- with an always-accepting continuation the greedy candidate search takes the greatest count -/
theorem candFind_greedy_total (lo : Nat) : ∀ (top s : Nat) (k : Nat → Option Nat), (∀ p, k p = some p) →
    candFind false lo top s k = if lo ≤ top then some (s + top) else none := by
  intro top
  induction top generalizing lo with
  | zero =>
    intro s k hk
    rw [candFind_zero, hk]
    by_cases h0 : lo = 0
    · simp [h0]
    · rw [if_neg h0, if_neg (by omega)]
  | succ t ih =>
    intro s k hk
    rw [candFind_succ, ih (lo - 1) (s + 1) k hk]
    simp only [Bool.false_eq_true, if_false]
    unfold Ref.orElse
    by_cases h1 : lo - 1 ≤ t
    · rw [if_pos h1, if_pos (show lo ≤ t + 1 by omega)]
      simp only []
      congr 1; omega
    · rw [if_neg h1, if_neg (show ¬ lo ≤ t + 1 by omega)]
      simp only []
      rw [if_neg (by omega)]

variable (h : Bytes) (cc : Re) (hcc : cc.op = .charClass) (hascii : ∀ p ∈ pairs cc.rune, p.2 ≤ 127)
include hcc hascii

/-- an ASCII class is a one-step element -/
theorem stepSem_asciiClass : StepSem h cc (tableOfRanges (pairs cc.rune)).mem 1 := by
  intro f pos k hf
  obtain ⟨f, rfl⟩ : ∃ f', f = f' + 1 := ⟨f - 1, by omega⟩
  exact run_one_asciiClass h cc hcc hascii f pos k

theorem run_star_cls (lazy : Bool) :
    ∀ d s f (k : Nat → Option Nat), h.size - s ≤ d → 2 * d + 2 ≤ f →
      Ref.run h f (.star cc lazy) s k =
        candFind lazy 0 (runLen (tableOfRanges (pairs cc.rune)).mem h s) s k :=
  fun d s f k hd hf =>
    run_star_step h cc _ 1 (Nat.le_refl 1) (stepSem_asciiClass h cc hcc hascii) lazy d s f k hd (by omega)

theorem run_rep_cls (lazy : Bool) :
    ∀ d s lo mx f (k : Nat → Option Nat), h.size - s ≤ d → 2 * d + 3 ≤ f → (∀ b, mx = some b → lo ≤ b) →
      Ref.run h f (.rep cc lo mx lazy) s k =
        candFind lazy lo (topOf mx (runLen (tableOfRanges (pairs cc.rune)).mem h s)) s k :=
  fun d s lo mx f k hd hf hwf =>
    run_rep_step h cc _ 1 (Nat.le_refl 1) (stepSem_asciiClass h cc hcc hascii) lazy d s lo mx f k hd (by omega) hwf

omit hcc hascii in
theorem candidates_eq_candList (p : Part) (s : Nat) : p.candidates h s = candList p.lazy p.lo (p.top h s) := rfl

end

section
attribute [local irreducible] tableOfRanges

/-- a quantified ASCII class whose `{n,m}` bounds are consistent (`n ≤ m`; the parser guarantees it) -/
def QuantAscii (x : Re) : Prop :=
  QuantClass x ∧ (∀ r ∈ classRunes x, r ≤ 127) ∧ (x.op = .repeat_ → x.max < 0 ∨ x.min ≤ x.max)

theorem pairs_snd_mem : ∀ (n : Nat) (l : List Nat), l.length ≤ n → ∀ p : Nat × Nat, p ∈ pairs l → p.2 ∈ l := by
  intro n
  induction n with
  | zero =>
    intro l hl p hp
    have : l = [] := List.length_eq_zero_iff.mp (by omega)
    subst this
    exact nomatch hp
  | succ n ih =>
    intro l hl p hp
    match l, hl, hp with
    | [], _, hp => exact nomatch hp
    | [_], _, hp => exact nomatch hp
    | a :: b :: rest, hl, hp =>
      have hp : p ∈ (a, b) :: pairs rest := hp
      rcases List.mem_cons.mp hp with rfl | hp
      · simp
      · have := ih rest (by simp at hl; omega) p hp
        simp [this]

/-- **one part**: the reference matcher tries exactly the part's candidate counts, in priority order -/
theorem run_one_quant (h : Bytes) (x : Re) (p : Part) (hq : QuantAscii x) (hp : astPart x = some p)
    (f s : Nat) (k : Nat → Option Nat) (hf : 2 * h.size + 6 ≤ f) :
    Ref.run h f (.one x) s k = (p.candidates h s).findSome? fun c => k (s + c) := by
  obtain ⟨hqc, hasc, hrep⟩ := hq
  rw [candidates_eq_candList]
  show _ = candFind p.lazy p.lo (p.top h s) s k
  obtain ⟨f, rfl⟩ : ∃ f', f = f' + 2 := ⟨f - 2, by omega⟩
  unfold astPart at hp
  rcases hqc with hbare | ⟨hops, cc, hsub, hcc⟩
  · -- bare class
    rw [hbare] at hp
    simp only [Option.some.injEq] at hp
    subst hp
    have hascii : ∀ q ∈ pairs x.rune, q.2 ≤ 127 := fun q hq =>
      hasc q.2 (by unfold classRunes; rw [if_pos hbare]; exact pairs_snd_mem _ _ (Nat.le_refl _) _ hq)
    rw [run_one_asciiClass h x hbare hascii]
    simp only [Part.top]
    by_cases hm : s < h.size ∧ (tableOfRanges (pairs x.rune)).mem (h.at s) = true
    · have hrl := runLen_lt (tableOfRanges (pairs x.rune)).mem h s hm.1
      rw [if_pos hm.2] at hrl
      have : min 1 (runLen (tableOfRanges (pairs x.rune)).mem h s) = 0 + 1 := by omega
      rw [if_pos hm, this, candFind_succ, candFind_zero]
      simp only [Bool.false_eq_true, if_false, Nat.sub_self, if_true, show ¬ (1 = 0) from by omega]
      unfold Ref.orElse
      cases k (s + 1) <;> rfl
    · have hrl : runLen (tableOfRanges (pairs x.rune)).mem h s = 0 := by
        by_cases hp : s < h.size
        · rw [runLen_lt _ h s hp, if_neg (fun hc => hm ⟨hp, hc⟩)]
        · exact runLen_ge _ h s (by omega)
      have hmin : min 1 0 = 0 := rfl
      rw [if_neg hm, hrl, hmin, candFind_zero]
      simp
  · have hnb : x.op ≠ .charClass := by rcases hops with h1 | h1 | h1 | h1 <;> rw [h1] <;> exact fun hc => nomatch hc
    have hascii : ∀ q ∈ pairs cc.rune, q.2 ≤ 127 := fun q hq =>
      hasc q.2 (by unfold classRunes; rw [if_neg hnb, hsub]; exact pairs_snd_mem _ _ (Nat.le_refl _) _ hq)
    rw [Ref.run_one]
    rcases hops with hop | hop | hop | hop
    · -- plus
      rw [hop] at hp ⊢
      simp only [] at hp ⊢
      rw [hsub] at hp ⊢
      simp only [Option.some.injEq] at hp ⊢
      subst hp
      simp only [Part.top]
      obtain ⟨f, rfl⟩ : ∃ f', f = f' + 1 := ⟨f - 1, by omega⟩
      rw [run_one_asciiClass h cc hcc hascii]
      by_cases hm : s < h.size ∧ (tableOfRanges (pairs cc.rune)).mem (h.at s) = true
      · have hrl := runLen_lt (tableOfRanges (pairs cc.rune)).mem h s hm.1
        rw [if_pos hm.2] at hrl
        rw [if_pos hm, run_star_cls h cc hcc hascii _ h.size (s + 1) _ k (by omega) (by omega), hrl, candFind_succ]
        simp only [Nat.sub_self, show ¬ (1 = 0) from by omega, if_false]
        unfold Ref.orElse
        cases x.nonGreedy
        · simp only [Bool.false_eq_true, if_false]
          cases candFind false 0 _ (s + 1) k <;> rfl
        · rfl
      · have hrl : runLen (tableOfRanges (pairs cc.rune)).mem h s = 0 := by
          by_cases hp : s < h.size
          · rw [runLen_lt _ h s hp, if_neg (fun hc => hm ⟨hp, hc⟩)]
          · exact runLen_ge _ h s (by omega)
        rw [if_neg hm, hrl, candFind_zero]
        simp
    · -- star
      rw [hop] at hp ⊢
      simp only [] at hp ⊢
      rw [hsub] at hp ⊢
      simp only [Option.some.injEq] at hp ⊢
      subst hp
      exact run_star_cls h cc hcc hascii _ h.size s _ k (by omega) (by omega)
    · -- quest
      rw [hop] at hp ⊢
      simp only [] at hp ⊢
      rw [hsub] at hp ⊢
      simp only [Option.some.injEq] at hp ⊢
      subst hp
      exact run_rep_cls h cc hcc hascii _ h.size s 0 (some 1) _ k (by omega) (by omega) (fun _ _ => Nat.zero_le _)
    · -- repeat
      rw [hop] at hp ⊢
      simp only [] at hp ⊢
      rw [hsub] at hp ⊢
      simp only [Option.some.injEq] at hp ⊢
      subst hp
      rw [run_rep_cls h cc hcc hascii _ h.size s _ _ _ k (by omega) (by omega)]
      · rfl
      · intro b hb
        split at hb
        · exact nomatch hb
        · cases hb
          rcases hrep hop with hneg | hle
          · omega
          · omega

/-- the reference matcher over a part list with an arbitrary continuation -/
def refMatchK (h : Bytes) : List Part → Nat → (Nat → Option Nat) → Option Nat
  | [], s, k => k s
  | p :: ps, s, k => (p.candidates h s).findSome? fun c => refMatchK h ps (s + c) k

theorem refMatchK_some (h : Bytes) (ps : List Part) :
    ∀ s, refMatchK h ps s some = (refMatch h ps s).map fun ks => s + ks.sum := by
  induction ps with
  | nil => intro s; rfl
  | cons p ps ih =>
    intro s
    rw [refMatchK, refMatch, CompositeSearcher.findSome?_map]
    congr 1
    funext c
    rw [ih (s + c), Option.map_map]
    congr 1
    funext ks
    simp only [Function.comp, List.sum_cons]
    omega

theorem run_seq_quant (h : Bytes) :
    ∀ (xs : List Re) (ps : List Part), (∀ x ∈ xs, QuantAscii x) → xs.mapM astPart = some ps →
      ∀ f s k, 2 * h.size + 6 + xs.length ≤ f →
        Ref.run h f (.seq xs) s k = refMatchK h ps s k := by
  intro xs
  induction xs with
  | nil =>
    intro ps _ hm f s k hf
    rw [mapM_option_nil] at hm; cases hm
    obtain ⟨f, rfl⟩ : ∃ f', f = f' + 1 := ⟨f - 1, by omega⟩
    rw [Ref.run_seq_nil]; rfl
  | cons x xs ih =>
    intro ps hq hm f s k hf
    rw [mapM_option_cons] at hm
    cases hp : astPart x with
    | none => rw [hp] at hm; exact nomatch hm
    | some p =>
      rw [hp, Option.bind_some] at hm
      cases hps : xs.mapM astPart with
      | none => rw [hps] at hm; exact nomatch hm
      | some ps' =>
        rw [hps, Option.bind_some] at hm
        cases hm
        simp only [List.length_cons] at hf
        obtain ⟨f, rfl⟩ : ∃ f', f = f' + 1 := ⟨f - 1, by omega⟩
        rw [Ref.run_seq_cons, run_one_quant h x p (hq x List.mem_cons_self) hp f s _ (by omega), refMatchK]
        congr 1
        funext c
        exact ih ps' (fun y hy => hq y (List.mem_cons_of_mem _ hy)) hps f (s + c) k (by omega)


theorem sizeAux_pos (f : Nat) (x : Re) : 1 ≤ Ref.sizeAux f x := by
  cases f with
  | zero => exact Nat.le_refl 1
  | succ f => rw [Ref.sizeAux]; omega

theorem sum_map_ge_length (g : Re → Nat) (hg : ∀ x, 1 ≤ g x) : ∀ l : List Re, l.length ≤ (l.map g).sum
  | [] => Nat.le_refl 0
  | x :: l => by
    have := sum_map_ge_length g hg l
    have := hg x
    simp only [List.length_cons, List.map_cons, List.sum_cons]
    omega

theorem matchAt_composite (re : Re) (ps : List Part) (hop : re.op = .concat) (hq : ∀ x ∈ re.sub, QuantAscii x)
    (hps : astParts re = some ps) (h : Bytes) (s : Nat) :
    Ref.matchAt re h s = (refMatch h ps s).map fun ks => s + ks.sum := by
  unfold Ref.matchAt
  have hsz : re.sub.length + 1 ≤ Ref.sizeAux 32 re := by
    rw [Ref.sizeAux]
    have := sum_map_ge_length (Ref.sizeAux 31) (sizeAux_pos 31) re.sub
    omega
  have hfuel : 2 * h.size + 6 + re.sub.length + 1 ≤ Ref.fuelFor re h := by
    unfold Ref.fuelFor
    have h1 : 2 * (h.size + 2) ≤ (Ref.sizeAux 32 re + 2) * (h.size + 2) := Nat.mul_le_mul_right _ (by omega)
    have h2 : (Ref.sizeAux 32 re + 2) * 2 ≤ (Ref.sizeAux 32 re + 2) * (h.size + 2) := Nat.mul_le_mul_left _ (by omega)
    omega
  obtain ⟨F, hF⟩ : ∃ F, Ref.fuelFor re h = F + 1 := ⟨Ref.fuelFor re h - 1, by omega⟩
  rw [hF, Ref.run_one, hop]
  simp only []
  rw [run_seq_quant h re.sub ps hq hps F s some (by omega), refMatchK_some]

/-- **`compFind` is the leftmost-first semantics**: for a concatenation of (greedy or lazy) quantified ASCII classes the
    general reference matcher returns exactly `compFind` over the parts `astParts` reads off the AST. -/
theorem refFind_composite_eq_compFind (re : Re) (ps : List Part) (hop : re.op = .concat)
    (hq : ∀ x ∈ re.sub, QuantAscii x) (hps : astParts re = some ps) (h : Bytes) (a : Nat) :
    Ref.refFind re h a = compFind ps h a := by
  unfold Ref.refFind compFind
  have hfun : (fun s => (Ref.matchAt re h s).isSome) = (fun s => (refMatch h ps s).isSome) := by
    funext s
    rw [matchAt_composite re ps hop hq hps h s, Option.isSome_map]
  by_cases ha : a ≤ h.size + 1
  · rw [findLoop_eq_leastFrom re h _ a (by omega), hfun]
    congr 1
    funext s
    rw [matchAt_composite re ps hop hq hps h s, Option.map_map]
    rfl
  · have : h.size + 1 - a = 0 := by omega
    rw [this, Ref.findLoop, leastFrom_gt _ _ _ (by omega)]; rfl

/-- PARSER INVARIANT (not a restriction of the fragment): `{n,m}` bounds are consistent — `syntax.Parse` rejects
    `x{3,2}` ("invalid repeat count").  Still needed: on a hand-built `x{3,2}` the searcher finds nothing
    (`tryLen` runs from `≤ 2` down to `≥ 3`) while the reference matcher takes the three mandatory copies and then
    `max - min` (truncated to 0) optional ones. -/
def RepeatOK (re : Re) : Prop := ∀ x ∈ re.sub, x.op = .repeat_ → x.max < 0 ∨ x.min ≤ x.max

instance (re : Re) : Decidable (RepeatOK re) := by unfold RepeatOK; exact inferInstance

/-- **CompositeSearcher end to end**: for EVERY pattern `IsCompositeCharClassPattern` accepts, `SearchAt` of the
    searcher `NewCompositeSearcher` builds returns what the general leftmost-first reference matcher returns — on every
    haystack and offset.  `greedy` / `noZeroMax` / `ascii` of the previous statement are now consequences of acceptance;
    the two remaining hypotheses are invariants of `syntax.Parse` output (`RepeatOK`: `n ≤ m` in `{n,m}`;
    `ClassSorted`: `Rune` ascending — Go tests only the last rune against U+007F). -/
theorem compositeSearcher_eq_reference (re : Re) (c : CompositeSearcher) (hok : isCompositeCharClassPattern re = true)
    (hc : newCompositeSearcher re = some c) (repOK : RepeatOK re) (sorted : ClassSorted re)
    (h : Bytes) (a : Nat) : c.searchAt h a = Ref.refFind re h a := by
  obtain ⟨⟨hop, _, hqc⟩, _, _, parts, hparts, hspec⟩ := compositeSearcher_exact re c hok hc
  have ascii := isCompositeCharClassPattern_ascii re hok sorted
  rw [hspec h a, refFind_composite_eq_compFind re parts hop
    (fun x hx => ⟨hqc x hx, ascii x hx, repOK x hx⟩) hparts h a]

end

/-! ## BranchDispatcher: exact on every pattern it accepts, w.r.t. the reference matcher on the whole pattern -/
/-- the fixed steps `ss` match `h[i .. i+|ss|)` (with the bounds check the Go code does up front) -/
def stepsOK (h : Bytes) : List ByteSet → Nat → Bool
  | [], _ => true
  | s :: ss, i => decide (i < h.size) && s.has (h.at i) && stepsOK h ss (i + 1)

theorem stepsOK_append (h : Bytes) (a b : List ByteSet) (i : Nat) :
    stepsOK h (a ++ b) i = (stepsOK h a i && stepsOK h b (i + a.length)) := by
  induction a generalizing i with
  | nil => simp [stepsOK]
  | cons s ss ih =>
    simp only [List.cons_append, stepsOK, ih, List.length_cons, Bool.and_assoc]
    rw [show i + 1 + ss.length = i + (ss.length + 1) by omega]

theorem stepsOK_iff_stepsAt (h : Bytes) (ss : List ByteSet) (i : Nat) (hi : i ≤ h.size) :
    stepsOK h ss i = true ↔ (i + ss.length ≤ h.size ∧ BranchMatcher.stepsAt h ss i = true) := by
  induction ss generalizing i with
  | nil => simp [stepsOK, BranchMatcher.stepsAt, hi]
  | cons s ss ih =>
    simp only [stepsOK, BranchMatcher.stepsAt, Bool.and_eq_true, decide_eq_true_eq, List.length_cons]
    by_cases hlt : i < h.size
    · rw [ih (i + 1) (by omega)]
      cases hm : s.has (h.at i)
      · simp
      · simp only [Bool.not_true, Bool.false_eq_true, if_false, hlt, true_and, and_true]
        constructor
        · intro hc; exact ⟨by omega, hc.2⟩
        · intro hc; exact ⟨by omega, hc.2⟩
    · constructor
      · intro hc; exact absurd hc.1.1 hlt
      · intro hc; omega

theorem stepsOK_replicate_succ (h : Bytes) (S : ByteSet) (n i : Nat) :
    stepsOK h (List.replicate (n + 1) S) i =
      (decide (i < h.size) && S.has (h.at i) && stepsOK h (List.replicate n S) (i + 1)) := rfl

theorem ByteSet.has_add (s : ByteSet) (b x : Nat) : (s.add b).has x = (s.has x || decide (b = x)) := by
  unfold ByteSet.add ByteSet.has
  simp only []
  rw [Nat.testBit_or, Nat.one_shiftLeft, Nat.testBit_two_pow]

theorem ByteSet.has_empty (x : Nat) : ({} : ByteSet).has x = false := by
  unfold ByteSet.has
  exact Nat.zero_testBit x

theorem byteSetSingle_has (b x : Nat) : (byteSetSingle b).has x = decide (x = b) := by
  unfold byteSetSingle
  rw [ByteSet.has_add, ByteSet.has_empty, Bool.false_or]
  by_cases hx : x = b
  · subst hx; simp
  · have : ¬ b = x := fun hc => hx hc.symm
    simp [hx, this]

theorem stepsOK_singles (h : Bytes) (bs : List Nat) (i : Nat) :
    stepsOK h (bs.map byteSetSingle) i = true ↔ ∀ j, j < bs.length → i + j < h.size ∧ h.at (i + j) = bs.getD j 0 := by
  induction bs generalizing i with
  | nil => simp [stepsOK]
  | cons b bs ih =>
    simp only [List.map_cons, stepsOK, Bool.and_eq_true, decide_eq_true_eq, List.length_cons]
    rw [byteSetSingle_has, ih]
    simp only [decide_eq_true_eq]
    constructor
    · rintro ⟨⟨h1, h2⟩, h3⟩ j hj
      cases j with
      | zero => simpa using ⟨h1, h2⟩
      | succ j =>
        have := h3 j (by omega)
        simp only [List.getD_cons_succ]
        rw [show i + (j + 1) = i + 1 + j by omega]
        exact this
    · intro hall
      refine ⟨by simpa using hall 0 (by omega), fun j hj => ?_⟩
      have := hall (j + 1) (by omega)
      simp only [List.getD_cons_succ] at this
      rw [show i + (j + 1) = i + 1 + j by omega] at this
      exact this

/-- the bytes of the encoding of a scalar value other than U+FFFD stand at `pos` iff the rune decoded at `pos` is that
    value (U+FFFD is excluded: it is also what every ill-formed byte decodes to) -/
theorem decode_encode_at (h : Bytes) (pos r : Nat) (hs : Utf8.isScalar r) (hne : r ≠ Utf8.runeError) :
    (stepsOK h ((Utf8.encode r).map byteSetSingle) pos = true ↔
      ((Utf8.decodeAt h pos).2 > 0 ∧ r = (Utf8.decodeAt h pos).1)) ∧
    (stepsOK h ((Utf8.encode r).map byteSetSingle) pos = true → (Utf8.decodeAt h pos).2 = (Utf8.encode r).length) := by
  obtain ⟨hmax, hsur⟩ := hs
  unfold Utf8.maxRune at hmax
  unfold Utf8.runeError at hne
  rw [stepsOK_singles h _]
  unfold Utf8.decodeAt
  have hcases := Utf8.decode_cases h h.size pos
  by_cases c1 : r < 0x80
  · have he : Utf8.encode r = [r] := by unfold Utf8.encode; rw [if_pos c1]
    rw [he]
    simp only [List.length_cons, List.length_nil]
    refine ⟨⟨fun hall => ?_, fun hd => ?_⟩, fun hall => ?_⟩
    · have h0 := hall 0 (by omega)
      simp only [Nat.add_zero, List.getD_cons_zero] at h0
      rw [Utf8.decode1_fwd h h.size pos (by omega) (by omega)]
      exact ⟨by simp, h0.2.symm⟩
    · intro j hj
      have : j = 0 := by omega
      subst this
      simp only [Nat.add_zero, List.getD_cons_zero]
      rcases hcases with ⟨a, e⟩ | ⟨a, b, e⟩ | ⟨a, b, e⟩ | ⟨a, b, b', c, c', e⟩ | ⟨a, b, b', c, c', hE0, hED, d, d', e⟩ |
        ⟨a, b, b', c, c', hF0, hF4, d, d', f, f', e⟩
      all_goals rw [e] at hd
      all_goals simp only [Utf8.runeError] at hd
      all_goals omega
    · have h0 := hall 0 (by omega)
      simp only [Nat.add_zero, List.getD_cons_zero] at h0
      rw [Utf8.decode1_fwd h h.size pos (by omega) (by omega)]
  · by_cases c2 : r < 0x800
    · have he : Utf8.encode r = [0xC0 + r / 64, 0x80 + r % 64] := by
        unfold Utf8.encode; rw [if_neg c1, if_pos c2]
      rw [he]
      simp only [List.length_cons, List.length_nil]
      have fwd : (∀ j, j < 2 → pos + j < h.size ∧ h.at (pos + j) = [0xC0 + r / 64, 0x80 + r % 64].getD j 0) →
          Utf8.decodeAtEnd h h.size pos = (r, 2) := by
        intro hall
        have h0 := hall 0 (by omega)
        have h1 := hall 1 (by omega)
        simp only [Nat.add_zero, List.getD_cons_zero, List.getD_cons_succ] at h0 h1
        rw [Utf8.decode2_fwd h h.size pos (by omega) (by omega) (by omega) (by omega) (by omega)]
        congr 1
        omega
      refine ⟨⟨fun hall => ?_, fun hd => ?_⟩, fun hall => ?_⟩
      · rw [fwd hall]; exact ⟨by simp, rfl⟩
      · rcases hcases with ⟨a, e⟩ | ⟨a, b, e⟩ | ⟨a, b, e⟩ | ⟨a, b, b', c, c', e⟩ | ⟨a, b, b', c, c', hE0, hED, d, d', e⟩ |
          ⟨a, b, b', c, c', hF0, hF4, d, d', f, f', e⟩
        all_goals rw [e] at hd
        all_goals simp only [Utf8.runeError] at hd
        all_goals first
          | omega
          | (intro j hj
             have hj' : j = 0 ∨ j = 1 := by omega
             rcases hj' with rfl | rfl
             · simp only [Nat.add_zero, List.getD_cons_zero]; omega
             · simp only [List.getD_cons_succ, List.getD_cons_zero]; omega)
      · rw [fwd hall]
    · have c3 : ¬ ((0xD800 ≤ r ∧ r ≤ 0xDFFF) ∨ r > Utf8.maxRune) := by unfold Utf8.maxRune; omega
      by_cases c4 : r < 0x10000
      · have he : Utf8.encode r = [0xE0 + r / 4096, 0x80 + r / 64 % 64, 0x80 + r % 64] := by
          unfold Utf8.encode; rw [if_neg c1, if_neg c2, if_neg c3, if_pos c4]
        rw [he]
        simp only [List.length_cons, List.length_nil]
        have fwd : (∀ j, j < 3 → pos + j < h.size ∧
              h.at (pos + j) = [0xE0 + r / 4096, 0x80 + r / 64 % 64, 0x80 + r % 64].getD j 0) →
            Utf8.decodeAtEnd h h.size pos = (r, 3) := by
          intro hall
          have h0 := hall 0 (by omega)
          have h1 := hall 1 (by omega)
          have h2 := hall 2 (by omega)
          simp only [Nat.add_zero, List.getD_cons_zero, List.getD_cons_succ] at h0 h1 h2
          rw [Utf8.decode3_fwd h h.size pos (by omega) (by omega) (by omega) (by omega) (by omega) (by omega) (by omega)
            (by omega) (by omega)]
          congr 1
          omega
        refine ⟨⟨fun hall => ?_, fun hd => ?_⟩, fun hall => ?_⟩
        · rw [fwd hall]; exact ⟨by simp, rfl⟩
        · rcases hcases with ⟨a, e⟩ | ⟨a, b, e⟩ | ⟨a, b, e⟩ | ⟨a, b, b', c, c', e⟩ | ⟨a, b, b', c, c', hE0, hED, d, d', e⟩ |
            ⟨a, b, b', c, c', hF0, hF4, d, d', f, f', e⟩
          all_goals rw [e] at hd
          all_goals simp only [Utf8.runeError] at hd
          all_goals first
            | omega
            | (intro j hj
               have hj' : j = 0 ∨ j = 1 ∨ j = 2 := by omega
               rcases hj' with rfl | rfl | rfl
               · simp only [Nat.add_zero, List.getD_cons_zero]; omega
               · simp only [List.getD_cons_succ, List.getD_cons_zero]; omega
               · simp only [List.getD_cons_succ, List.getD_cons_zero]; omega)
        · rw [fwd hall]
      · have he : Utf8.encode r = [0xF0 + r / 262144, 0x80 + r / 4096 % 64, 0x80 + r / 64 % 64, 0x80 + r % 64] := by
          unfold Utf8.encode; rw [if_neg c1, if_neg c2, if_neg c3, if_neg c4]
        rw [he]
        simp only [List.length_cons, List.length_nil]
        have fwd : (∀ j, j < 4 → pos + j < h.size ∧
              h.at (pos + j) = [0xF0 + r / 262144, 0x80 + r / 4096 % 64, 0x80 + r / 64 % 64, 0x80 + r % 64].getD j 0) →
            Utf8.decodeAtEnd h h.size pos = (r, 4) := by
          intro hall
          have h0 := hall 0 (by omega)
          have h1 := hall 1 (by omega)
          have h2 := hall 2 (by omega)
          have h3 := hall 3 (by omega)
          simp only [Nat.add_zero, List.getD_cons_zero, List.getD_cons_succ] at h0 h1 h2 h3
          rw [Utf8.decode4_fwd h h.size pos (by omega) (by omega) (by omega) (by omega) (by omega) (by omega) (by omega)
            (by omega) (by omega) (by omega) (by omega)]
          congr 1
          omega
        refine ⟨⟨fun hall => ?_, fun hd => ?_⟩, fun hall => ?_⟩
        · rw [fwd hall]; exact ⟨by simp, rfl⟩
        · rcases hcases with ⟨a, e⟩ | ⟨a, b, e⟩ | ⟨a, b, e⟩ | ⟨a, b, b', c, c', e⟩ | ⟨a, b, b', c, c', hE0, hED, d, d', e⟩ |
            ⟨a, b, b', c, c', hF0, hF4, d, d', f, f', e⟩
          all_goals rw [e] at hd
          all_goals simp only [Utf8.runeError] at hd
          all_goals first
            | omega
            | (intro j hj
               have hj' : j = 0 ∨ j = 1 ∨ j = 2 ∨ j = 3 := by omega
               rcases hj' with rfl | rfl | rfl | rfl
               · simp only [Nat.add_zero, List.getD_cons_zero]; omega
               · simp only [List.getD_cons_succ, List.getD_cons_zero]; omega
               · simp only [List.getD_cons_succ, List.getD_cons_zero]; omega
               · simp only [List.getD_cons_succ, List.getD_cons_zero]; omega)
        · rw [fwd hall]


/-! ### matcher-level facts -/
namespace BranchMatcher

theorem addStep_spec (m m' : BranchMatcher) (s : ByteSet) (hm : m.addStep s = some m') :
    m.hasTail = false ∧ m' = { m with steps := m.steps ++ [s] } := by
  unfold addStep at hm
  split at hm
  · exact absurd hm (by simp)
  · rename_i hc
    cases hm
    cases ht : m.hasTail
    · exact ⟨rfl, rfl⟩
    · exact absurd (Or.inl ht) hc

theorem addBytes_spec : ∀ (bs : List Nat) (m m' : BranchMatcher), m.addBytes bs = some m' →
    (bs ≠ [] → m.hasTail = false) ∧ m' = { m with steps := m.steps ++ bs.map byteSetSingle } := by
  intro bs
  induction bs with
  | nil => intro m m' hm; rw [addBytes] at hm; cases hm; simp
  | cons b bs ih =>
    intro m m' hm
    rw [addBytes] at hm
    cases h1 : m.addStep (byteSetSingle b) with
    | none => rw [h1] at hm; exact absurd hm (by simp)
    | some m1 =>
      rw [h1] at hm
      simp only [] at hm
      obtain ⟨ht, rfl⟩ := addStep_spec m m1 _ h1
      obtain ⟨_, rfl⟩ := ih _ m' hm
      exact ⟨fun _ => ht, by simp⟩

theorem addStepN_spec (s : ByteSet) : ∀ (n : Nat) (m m' : BranchMatcher), m.addStepN s n = some m' →
    (n ≠ 0 → m.hasTail = false) ∧ m' = { m with steps := m.steps ++ List.replicate n s } := by
  intro n
  induction n with
  | zero => intro m m' hm; rw [addStepN] at hm; cases hm; simp
  | succ n ih =>
    intro m m' hm
    rw [addStepN] at hm
    cases h1 : m.addStep s with
    | none => rw [h1] at hm; exact absurd hm (by simp)
    | some m1 =>
      rw [h1] at hm
      simp only [] at hm
      obtain ⟨ht, rfl⟩ := addStep_spec m m1 _ h1
      obtain ⟨_, rfl⟩ := ih _ m' hm
      exact ⟨fun _ => ht, by simp [List.replicate_succ]⟩

end BranchMatcher

/-- end of the greedy tail `t{lo,hi}` started at `p`: the longest admissible run, if it has at least `lo` bytes -/
def tailEnd (t : ByteSet) (lo : Nat) (hi : Int) (h : Bytes) (p : Nat) : Option Nat :=
  if lo ≤ topOf (if hi < 0 then none else some hi.toNat) (runLen t.has h p)
  then some (p + topOf (if hi < 0 then none else some hi.toNat) (runLen t.has h p)) else none

/-- the matcher started at an arbitrary offset (`match` is the case `pos = 0`) -/
def BranchMatcher.matchFrom (m : BranchMatcher) (h : Bytes) (pos : Nat) : Option Nat :=
  if stepsOK h m.steps pos then
    (if m.hasTail then tailEnd m.tail m.tailMin m.tailMax h (pos + m.steps.length) else some (pos + m.steps.length))
  else none

theorem tailScan_eq (t : ByteSet) (h : Bytes) : ∀ k e, e + k ≤ h.size →
    BranchMatcher.tailScan t h k e = e + min k (runLen t.has h e) := by
  intro k
  induction k with
  | zero => intro e _; simp [BranchMatcher.tailScan]
  | succ k ih =>
    intro e he
    rw [BranchMatcher.tailScan, runLen_lt t.has h e (by omega)]
    split
    · rw [ih (e + 1) (by omega)]; omega
    · omega

theorem BranchMatcher.match_eq (m : BranchMatcher) (h : Bytes) : m.match_ h = m.matchFrom h 0 := by
  unfold match_ matchFrom
  simp only []
  by_cases hlen : h.size < m.steps.length
  · rw [if_pos hlen, if_neg]
    intro hc
    have := (stepsOK_iff_stepsAt h m.steps 0 (by omega)).mp hc
    omega
  · rw [if_neg hlen]
    by_cases hst : stepsAt h m.steps 0 = true
    · have hok : stepsOK h m.steps 0 = true := (stepsOK_iff_stepsAt h m.steps 0 (by omega)).mpr ⟨by omega, hst⟩
      rw [hok, hst]
      simp only [Bool.not_true, Bool.false_eq_true, if_false, if_true, Nat.zero_add]
      cases m.hasTail with
      | false => simp
      | true =>
        simp only [Bool.not_true, Bool.false_eq_true, if_false, if_true]
        have hrl := runLen_le m.tail.has h m.steps.length
        have key : ∀ L T, m.steps.length ≤ L → L ≤ h.size →
            min (L - m.steps.length) (runLen m.tail.has h m.steps.length) = T →
            (if tailScan m.tail h (L - m.steps.length) m.steps.length - m.steps.length < m.tailMin then none
             else some (tailScan m.tail h (L - m.steps.length) m.steps.length)) =
            if m.tailMin ≤ T then some (m.steps.length + T) else none := by
          intro L T h1 h2 h3
          rw [tailScan_eq _ _ _ _ (by omega), h3]
          by_cases hlo : m.tailMin ≤ T
          · rw [if_neg (by omega), if_pos hlo]
          · rw [if_pos (by omega), if_neg hlo]
        unfold tailEnd topOf
        by_cases hmax : m.tailMax < 0
        · rw [show (if m.tailMax ≥ 0 ∧ (m.steps.length : Int) + m.tailMax < (h.size : Int)
              then m.steps.length + m.tailMax.toNat else h.size) = h.size from if_neg (by omega)]
          rw [if_pos hmax]
          simp only []
          exact key _ _ (by omega) (by omega) (by omega)
        · rw [if_neg hmax]
          simp only []
          by_cases hlim : (m.steps.length : Int) + m.tailMax < (h.size : Int)
          · rw [show (if m.tailMax ≥ 0 ∧ (m.steps.length : Int) + m.tailMax < (h.size : Int)
                then m.steps.length + m.tailMax.toNat else h.size) = m.steps.length + m.tailMax.toNat
                from if_pos ⟨by omega, hlim⟩]
            exact key _ _ (by omega) (by omega) (by omega)
          · rw [show (if m.tailMax ≥ 0 ∧ (m.steps.length : Int) + m.tailMax < (h.size : Int)
                then m.steps.length + m.tailMax.toNat else h.size) = h.size from if_neg (fun hc => hlim hc.2)]
            exact key _ _ (by omega) (by omega) (by omega)
    · have hok : stepsOK h m.steps 0 = false := by
        cases hc : stepsOK h m.steps 0 with
        | false => rfl
        | true => exact absurd ((stepsOK_iff_stepsAt h m.steps 0 (by omega)).mp hc).2 hst
      rw [Bool.not_eq_true] at hst
      rw [hok, hst]
      simp

/-! ### what `add` does to the matcher = what the reference matcher does on the sub-pattern -/

/-- `t` (a sub-pattern, or the rest of a concatenation) was appended to matcher `m`, giving `m'`; `B` = fuel that suffices.
    * after a tail nothing can be appended: the matcher is unchanged and `t` matches only the empty string;
    * otherwise `t` appends fixed steps `ds` and possibly the tail, and the reference matcher on `t` does exactly that:
      consume `ds`, then (if the tail was set) the longest admissible run — for the tail with a continuation that accepts
      everywhere (the tail is the last thing in the branch). -/
structure AddSem (h : Bytes) (B : Nat) (t : Ref.Task) (m m' : BranchMatcher) : Prop where
  noop : m.hasTail = true → m' = m ∧ ∀ F pos (k : Nat → Option Nat), B ≤ F → Ref.run h F t pos k = k pos
  steps : m.hasTail = false → ∃ ds, m'.steps = m.steps ++ ds ∧
    (m'.hasTail = false → ∀ F pos (k : Nat → Option Nat), B ≤ F →
      Ref.run h F t pos k = if stepsOK h ds pos then k (pos + ds.length) else none) ∧
    (m'.hasTail = true → ∀ F pos (k : Nat → Option Nat), (∀ p, k p = some p) → B + (h.size + 2) ≤ F →
      Ref.run h F t pos k =
        if stepsOK h ds pos then tailEnd m'.tail m'.tailMin m'.tailMax h (pos + ds.length) else none)

/-- nothing appended, `t` matches exactly the empty string -/
theorem AddSem.of_noop (h : Bytes) (B : Nat) (t : Ref.Task) (m : BranchMatcher)
    (hrun : ∀ F pos (k : Nat → Option Nat), B ≤ F → Ref.run h F t pos k = k pos) : AddSem h B t m m where
  noop := fun _ => ⟨rfl, hrun⟩
  steps := fun ht => ⟨[], by simp, fun _ F pos k hF => by rw [hrun F pos k hF]; simp [stepsOK],
    fun ht' => by rw [ht] at ht'; exact absurd ht' (by simp)⟩

/-- only fixed steps appended -/
theorem AddSem.of_steps (h : Bytes) (B : Nat) (t : Ref.Task) (m : BranchMatcher) (ds : List ByteSet)
    (ht : m.hasTail = false)
    (hrun : ∀ F pos (k : Nat → Option Nat), B ≤ F →
      Ref.run h F t pos k = if stepsOK h ds pos then k (pos + ds.length) else none) :
    AddSem h B t m { m with steps := m.steps ++ ds } where
  noop := fun ht' => by rw [ht] at ht'; exact absurd ht' (by simp)
  steps := fun _ => ⟨ds, rfl, fun _ => hrun, fun ht' => by simp only [] at ht'; rw [ht] at ht'; exact absurd ht' (by simp)⟩

/-- one more unit of fuel for a wrapper step of the reference matcher -/
theorem AddSem.shift (h : Bytes) (B B' : Nat) (t t' : Ref.Task) (m m' : BranchMatcher) (hB : B' + 1 ≤ B)
    (hstep : ∀ F pos (k : Nat → Option Nat), Ref.run h (F + 1) t pos k = Ref.run h F t' pos k)
    (hs : AddSem h B' t' m m') : AddSem h B t m m' where
  noop := fun ht => ⟨(hs.noop ht).1, fun F pos k hF => by
    obtain ⟨F, rfl⟩ : ∃ F', F = F' + 1 := ⟨F - 1, by omega⟩
    rw [hstep, (hs.noop ht).2 F pos k (by omega)]⟩
  steps := fun ht => by
    obtain ⟨ds, h1, h2, h3⟩ := hs.steps ht
    refine ⟨ds, h1, fun ht' F pos k hF => ?_, fun ht' F pos k hk hF => ?_⟩
    · obtain ⟨F, rfl⟩ : ∃ F', F = F' + 1 := ⟨F - 1, by omega⟩
      rw [hstep, h2 ht' F pos k (by omega)]
    · obtain ⟨F, rfl⟩ : ∃ F', F = F' + 1 := ⟨F - 1, by omega⟩
      rw [hstep, h3 ht' F pos k hk (by omega)]

theorem foldEq_of_not_letter (r c : Nat) (hr : Ref.isAsciiLetter r = false) : Ref.foldEq r c = decide (r = c) := by
  unfold Ref.foldEq
  rw [hr]
  simp

/-- the `OpLiteral` loop: every rune becomes the singleton steps of its UTF-8 encoding, and that is what the reference
    matcher's rune-by-rune comparison accepts -/
theorem addLiteral_sem (hasFold : Nat → Bool) (hf : FoldSound hasFold) (h : Bytes) (fold : Bool) :
    ∀ (rs : List Nat) (m m' : BranchMatcher), m.addLiteral hasFold fold rs = some m' →
      AddSem h (rs.length + 1) (.lit rs fold) m m' := by
  intro rs
  induction rs with
  | nil =>
    intro m m' hm
    rw [BranchMatcher.addLiteral] at hm
    cases hm
    apply AddSem.of_noop
    intro F pos k hF
    obtain ⟨F, rfl⟩ : ∃ F', F = F' + 1 := ⟨F - 1, by omega⟩
    rw [Ref.run]
  | cons r rs ih =>
    intro m m' hm
    rw [BranchMatcher.addLiteral] at hm
    split at hm
    · exact absurd hm (by simp)
    rename_i hfold
    split at hm
    · exact absurd hm (by simp)
    rename_i hvalid
    have hne : r ≠ Utf8.runeError := fun hc => hvalid (Or.inl hc)
    have hsc : Utf8.isScalar r := by
      false_or_by_contra
      rename_i hc
      exact hvalid (Or.inr hc)
    cases h1 : m.addBytes (Utf8.encode r) with
    | none => rw [h1] at hm; exact absurd hm (by simp)
    | some m1 =>
      rw [h1] at hm
      simp only [] at hm
      have hencne : Utf8.encode r ≠ [] := by
        have := (Utf8.encode_length r).1
        intro hc; rw [hc] at this; simp at this
      obtain ⟨ht, rfl⟩ := BranchMatcher.addBytes_spec _ m m1 h1
      have ht := ht hencne
      have hrest := ih _ m' hm
      -- the comparison the reference matcher performs is plain equality for this rune
      have hcmp : ∀ c, (if fold then Ref.foldEq r c else decide (r = c)) = decide (r = c) := by
        intro c
        cases hfo : fold with
        | false => rfl
        | true =>
          simp only [if_true]
          apply foldEq_of_not_letter
          cases hl : Ref.isAsciiLetter r with
          | false => rfl
          | true =>
            have := hf r hl
            rw [hfo, this] at hfold
            exact absurd rfl hfold
      -- one rune of the reference matcher = the steps of its encoding
      have hrune : ∀ F pos (k : Nat → Option Nat),
          Ref.run h (F + 1) (.lit (r :: rs) fold) pos k =
            if stepsOK h ((Utf8.encode r).map byteSetSingle) pos
            then Ref.run h F (.lit rs fold) (pos + (Utf8.encode r).length) k else none := by
        intro F pos k
        rw [Ref.run_lit_cons, hcmp]
        obtain ⟨hiff, hw⟩ := decode_encode_at h pos r hsc hne
        by_cases hok : stepsOK h ((Utf8.encode r).map byteSetSingle) pos = true
        · rw [if_pos hok, hw hok]
          have := hiff.mp hok
          rw [if_pos]
          simp only [Bool.and_eq_true, decide_eq_true_eq]
          exact ⟨by have := (Utf8.encode_length r).1; omega, this.2⟩
        · rw [if_neg hok, if_neg]
          intro hc
          simp only [Bool.and_eq_true, decide_eq_true_eq] at hc
          exact hok (hiff.mpr hc)
      have ht1 : ({ m with steps := m.steps ++ (Utf8.encode r).map byteSetSingle } : BranchMatcher).hasTail = false := ht
      constructor
      · intro ht'; rw [ht] at ht'; exact absurd ht' (by simp)
      · intro _
        obtain ⟨ds, h1, h2, h3⟩ := hrest.steps ht1
        refine ⟨(Utf8.encode r).map byteSetSingle ++ ds, by rw [h1]; simp, fun ht' F pos k hF => ?_,
          fun ht' F pos k hk hF => ?_⟩
        · obtain ⟨F, rfl⟩ : ∃ F', F = F' + 1 := ⟨F - 1, by omega⟩
          simp only [List.length_cons] at hF
          rw [hrune, h2 ht' F _ k (by omega), stepsOK_append, List.length_map, List.length_append, List.length_map]
          cases stepsOK h ((Utf8.encode r).map byteSetSingle) pos
          · simp
          · simp only [if_true, Bool.true_and, Nat.add_assoc]
        · obtain ⟨F, rfl⟩ : ∃ F', F = F' + 1 := ⟨F - 1, by omega⟩
          simp only [List.length_cons] at hF
          rw [hrune, h3 ht' F _ k hk (by omega), stepsOK_append, List.length_map, List.length_append, List.length_map]
          cases stepsOK h ((Utf8.encode r).map byteSetSingle) pos
          · simp
          · simp only [if_true, Bool.true_and, Nat.add_assoc]


def sumSize (g : Nat) (xs : List Re) : Nat := (xs.map (Ref.sizeAux g)).sum

theorem sumSize_cons (g : Nat) (x : Re) (xs : List Re) : sumSize g (x :: xs) = Ref.sizeAux g x + sumSize g xs := by
  simp [sumSize]

theorem sizeAux_succ (g : Nat) (re : Re) :
    Ref.sizeAux (g + 1) re =
      1 + sumSize g re.sub + (if re.op = .repeat_ then re.min.toNat + re.max.toNat else 0) + re.rune.length := by
  rw [Ref.sizeAux]; rfl

theorem add_succ (hasFold : Nat → Bool) (fuel : Nat) (m : BranchMatcher) (re : Re) :
    BranchMatcher.add hasFold (fuel + 1) m re =
    match re.op with
    | .emptyMatch => some m
    | .capture =>
      match re.sub with
      | [x] => BranchMatcher.add hasFold fuel m x
      | _ => none
    | .concat => BranchMatcher.addList (BranchMatcher.add hasFold fuel) re.sub m
    | .literal => m.addLiteral hasFold re.foldCase re.rune
    | .charClass =>
      match asciiClassSet re with
      | none => none
      | some s => m.addStep s
    | .plus | .star | .quest | .repeat_ =>
      match re.sub with
      | [x] =>
        if (repBounds re).1 < 0 ∨ ((repBounds re).2 ≥ 0 ∧ (repBounds re).2 < (repBounds re).1) then none else
        if (repBounds re).2 = 0 then some m else
        match BranchMatcher.add hasFold fuel {} x with
        | none => none
        | some elem =>
          match elem.hasTail, elem.steps with
          | false, [s] =>
            if (repBounds re).1 = (repBounds re).2 then m.addStepN s (repBounds re).1.toNat
            else if re.nonGreedy ∨ m.hasTail then none
            else some { m with hasTail := true, tail := s, tailMin := (repBounds re).1.toNat, tailMax := (repBounds re).2 }
          | _, _ => none
      | _ => none
    | _ => none := by
  rw [BranchMatcher.add]
  cases re.op <;> rfl

theorem sizeAux_pos' (g : Nat) (x : Re) : 1 ≤ Ref.sizeAux g x := by
  cases g with
  | zero => rw [Ref.sizeAux]; omega
  | succ g => rw [sizeAux_succ]; omega

/-! #### repetitions of a one-step element -/
section
variable (h : Bytes) (x : Re) (S : ByteSet) (N : Nat) (hN : 1 ≤ N) (hx : StepSem h x S.has N)
include hN hx

/-- `x{n}` = `n` copies of the step (greedy or lazy) -/
theorem run_rep_fixed (lazy : Bool) : ∀ n F pos (k : Nat → Option Nat), n + 1 + N ≤ F →
    Ref.run h F (.rep x n (some n) lazy) pos k =
      if stepsOK h (List.replicate n S) pos then k (pos + n) else none := by
  intro n
  induction n with
  | zero =>
    intro F pos k hF
    obtain ⟨F, rfl⟩ : ∃ F', F = F' + 1 := ⟨F - 1, by omega⟩
    rw [Ref.run_rep_zero_zero]
    simp [stepsOK]
  | succ n ih =>
    intro F pos k hF
    obtain ⟨F, rfl⟩ : ∃ F', F = F' + 1 := ⟨F - 1, by omega⟩
    rw [Ref.run_rep_succ, hx _ _ _ (by omega), stepsOK_replicate_succ]
    simp only [Option.map_some, Nat.add_sub_cancel]
    by_cases hm : pos < h.size ∧ S.has (h.at pos) = true
    · rw [if_pos hm, ih F (pos + 1) k (by omega)]
      simp only [hm.1, hm.2, decide_true, Bool.true_and, Nat.add_assoc, Nat.add_comm 1 n]
    · rw [if_neg hm, if_neg]
      intro hc
      simp only [Bool.and_eq_true, decide_eq_true_eq] at hc
      exact hm hc.1

/-- greedy `x{lo,mx}` in tail position -/
theorem run_rep_tail (lo : Nat) (mx : Option Nat) (hwf : ∀ b, mx = some b → lo ≤ b) (F pos : Nat)
    (k : Nat → Option Nat) (hk : ∀ p, k p = some p) (hF : h.size + 2 + N ≤ F) :
    Ref.run h F (.rep x lo mx false) pos k =
      if lo ≤ topOf mx (runLen S.has h pos) then some (pos + topOf mx (runLen S.has h pos)) else none := by
  rw [run_rep_step h x S.has N hN hx false h.size pos lo mx F k (by omega) (by omega) hwf,
    candFind_greedy_total lo _ pos k hk]

/-- greedy `x*` in tail position -/
theorem run_star_tail (F pos : Nat) (k : Nat → Option Nat) (hk : ∀ p, k p = some p) (hF : h.size + 1 + N ≤ F) :
    Ref.run h F (.star x false) pos k = some (pos + runLen S.has h pos) := by
  rw [run_star_step h x S.has N hN hx false h.size pos F k (by omega) (by omega),
    candFind_greedy_total 0 _ pos k hk, if_pos (Nat.zero_le _)]

/-- greedy `x+` in tail position -/
theorem run_plus_tail (F pos : Nat) (k : Nat → Option Nat) (hk : ∀ p, k p = some p) (hF : h.size + 1 + N ≤ F) :
    (Ref.run h F (.one x) pos fun p => Ref.run h F (.star x false) p k) =
      if 1 ≤ runLen S.has h pos then some (pos + runLen S.has h pos) else none := by
  rw [hx _ _ _ (by omega)]
  by_cases hm : pos < h.size ∧ S.has (h.at pos) = true
  · rw [if_pos hm, run_star_tail h x S N hN hx F (pos + 1) k hk hF, runLen_lt S.has h pos hm.1, if_pos hm.2,
      if_pos (by omega)]
    congr 1; omega
  · rw [if_neg hm, if_neg]
    intro hc
    apply hm
    by_cases hp : pos < h.size
    · rw [runLen_lt _ h pos hp] at hc
      split at hc
      · rename_i hmem; exact ⟨hp, hmem⟩
      · omega
    · rw [runLen_ge _ h pos (by omega)] at hc
      omega
end

/-! #### the concatenation loop -/
theorem addList_sem (h : Bytes) (g : Nat) (rec : BranchMatcher → Re → Option BranchMatcher)
    (hrec : ∀ x m m', rec m x = some m' → depthLe g x = true → AddSem h (2 * Ref.sizeAux g x) (.one x) m m') :
    ∀ (xs : List Re) (m m' : BranchMatcher), BranchMatcher.addList rec xs m = some m' →
      (∀ x ∈ xs, depthLe g x = true) → AddSem h (2 * sumSize g xs + 1) (.seq xs) m m' := by
  intro xs
  induction xs with
  | nil =>
    intro m m' hm _
    rw [BranchMatcher.addList] at hm
    cases hm
    apply AddSem.of_noop
    intro F pos k hF
    obtain ⟨F, rfl⟩ : ∃ F', F = F' + 1 := ⟨F - 1, by omega⟩
    rw [Ref.run_seq_nil]
  | cons x xs ih =>
    intro m m' hm hd
    rw [BranchMatcher.addList] at hm
    cases h1 : rec m x with
    | none => rw [h1] at hm; exact absurd hm (by simp)
    | some m1 =>
      rw [h1] at hm
      simp only [] at hm
      have hx := hrec x m m1 h1 (hd x (by simp))
      have hxs := ih m1 m' hm (fun y hy => hd y (by simp [hy]))
      have hsx := sizeAux_pos' g x
      rw [sumSize_cons]
      constructor
      · intro ht
        obtain ⟨rfl, r1⟩ := hx.noop ht
        obtain ⟨rfl, r2⟩ := hxs.noop ht
        refine ⟨rfl, fun F pos k hF => ?_⟩
        obtain ⟨F, rfl⟩ : ∃ F', F = F' + 1 := ⟨F - 1, by omega⟩
        rw [Ref.run_seq_cons, r1 F pos _ (by omega), r2 F pos k (by omega)]
      · intro ht
        obtain ⟨ds1, e1, a1, b1⟩ := hx.steps ht
        cases ht1 : m1.hasTail with
        | false =>
          obtain ⟨ds2, e2, a2, b2⟩ := hxs.steps ht1
          refine ⟨ds1 ++ ds2, by rw [e2, e1, List.append_assoc], fun ht' F pos k hF => ?_, fun ht' F pos k hk hF => ?_⟩
          · obtain ⟨F, rfl⟩ : ∃ F', F = F' + 1 := ⟨F - 1, by omega⟩
            rw [Ref.run_seq_cons, a1 ht1 F pos _ (by omega), a2 ht' F _ k (by omega), stepsOK_append,
              List.length_append]
            cases stepsOK h ds1 pos
            · simp
            · simp only [if_true, Bool.true_and, Nat.add_assoc]
          · obtain ⟨F, rfl⟩ : ∃ F', F = F' + 1 := ⟨F - 1, by omega⟩
            rw [Ref.run_seq_cons, a1 ht1 F pos _ (by omega), b2 ht' F _ k hk (by omega), stepsOK_append,
              List.length_append]
            cases stepsOK h ds1 pos
            · simp
            · simp only [if_true, Bool.true_and, Nat.add_assoc]
        | true =>
          obtain ⟨rfl, r2⟩ := hxs.noop ht1
          refine ⟨ds1, e1, fun ht' => by rw [ht1] at ht'; exact absurd ht' (by simp), fun _ F pos k hk hF => ?_⟩
          obtain ⟨F, rfl⟩ : ∃ F', F = F' + 1 := ⟨F - 1, by omega⟩
          rw [Ref.run_seq_cons]
          have hk' : ∀ p, (fun p => Ref.run h F (.seq xs) p k) p = some p := by
            intro p
            simp only []
            rw [r2 F p k (by omega), hk]
          rw [b1 ht1 F pos _ hk' (by omega)]

/-- the four repetition operators over a one-step element -/
theorem rep_sem (h : Bytes) (g : Nat) (re x : Re) (m m' : BranchMatcher) (elemO : Option BranchMatcher)
    (hsub : re.sub = [x])
    (hrep : re.op = .plus ∨ re.op = .star ∨ re.op = .quest ∨ re.op = .repeat_)
    (hm : (if (repBounds re).1 < 0 ∨ ((repBounds re).2 ≥ 0 ∧ (repBounds re).2 < (repBounds re).1) then none else
        if (repBounds re).2 = 0 then some m else
          match elemO with
          | none => none
          | some elem =>
            match elem.hasTail, elem.steps with
            | false, [s] =>
              if (repBounds re).1 = (repBounds re).2 then m.addStepN s (repBounds re).1.toNat
              else if re.nonGreedy ∨ m.hasTail then none
              else some { m with hasTail := true, tail := s, tailMin := (repBounds re).1.toNat, tailMax := (repBounds re).2 }
            | _, _ => none) = some m')
    (hxO : ∀ elem, elemO = some elem → AddSem h (2 * Ref.sizeAux g x) (.one x) {} elem) :
    AddSem h (2 * Ref.sizeAux (g + 1) re) (.one re) m m' := by
  have hsz := sizeAux_succ g re
  rw [hsub, sumSize_cons] at hsz
  have hsx := sizeAux_pos' g x
  -- what the reference matcher does with the node
  have hrun : ∀ F pos (k : Nat → Option Nat), Ref.run h (F + 1) (.one re) pos k =
      match re.op with
      | .plus => Ref.run h F (.one x) pos fun p => Ref.run h F (.star x re.nonGreedy) p k
      | .star => Ref.run h F (.star x re.nonGreedy) pos k
      | .quest => Ref.run h F (.rep x 0 (some 1) re.nonGreedy) pos k
      | .repeat_ => Ref.run h F (.rep x re.min.toNat (if re.max < 0 then none else some re.max.toNat) re.nonGreedy) pos k
      | _ => none := by
    intro F pos k
    rw [Ref.run_one]
    rcases hrep with hop | hop | hop | hop <;> rw [hop] <;> simp only [] <;> rw [hsub]
  split at hm
  · exact absurd hm (by simp)
  rename_i hbad
  split at hm
  · -- `x{0}` (only OpRepeat can have maxCount = 0)
    rename_i hzero
    cases hm
    have hop : re.op = .repeat_ := by
      rcases hrep with hop | hop | hop | hop
      · simp [repBounds, hop] at hzero
      · simp [repBounds, hop] at hzero
      · simp [repBounds, hop] at hzero
      · exact hop
    have hb : repBounds re = (re.min, re.max) := by simp [repBounds, hop]
    rw [hb] at hzero hbad
    simp only [] at hzero hbad
    apply AddSem.of_noop
    intro F pos k hF
    obtain ⟨F, rfl⟩ : ∃ F', F = F' + 2 := ⟨F - 2, by omega⟩
    rw [hrun, hop]
    simp only []
    rw [hzero, show re.min.toNat = 0 by omega]
    simp only [Int.lt_irrefl, if_false, Int.toNat_zero]
    rw [Ref.run_rep_zero_zero]
  rename_i hnz
  cases helem : elemO with
  | none => rw [helem] at hm; exact absurd hm (by simp)
  | some elem =>
  rw [helem] at hm
  simp only [] at hm
  have hx := hxO elem helem
  split at hm
  · -- the element is exactly one step
    rename_i s htail hsteps
    have hS : StepSem h x s.has (2 * Ref.sizeAux g x) := by
      obtain ⟨ds, e1, a1, _⟩ := hx.steps rfl
      have : ds = [s] := by
        rw [hsteps] at e1
        simpa using e1.symm
      subst this
      intro f pos k hf
      rw [a1 htail f pos k hf]
      simp only [stepsOK, Bool.and_true, Bool.and_eq_true, decide_eq_true_eq, List.length_cons, List.length_nil]
    have hN : 1 ≤ 2 * Ref.sizeAux g x := by omega
    split at hm
    · -- fixed count
      rename_i heq
      have hop : re.op = .repeat_ := by
        rcases hrep with hop | hop | hop | hop
        · simp [repBounds, hop] at heq
        · simp [repBounds, hop] at heq
        · simp [repBounds, hop] at heq
        · exact hop
      have hb : repBounds re = (re.min, re.max) := by simp [repBounds, hop]
      rw [hb] at heq hbad hnz hm
      simp only [] at heq hbad hnz hm
      obtain ⟨ht, rfl⟩ := BranchMatcher.addStepN_spec s _ m m' hm
      have ht := ht (by omega)
      apply AddSem.of_steps h _ _ m _ ht
      intro F pos k hF
      obtain ⟨F, rfl⟩ : ∃ F', F = F' + 1 := ⟨F - 1, by omega⟩
      rw [hrun, hop]
      simp only []
      rw [if_neg (by omega), show re.max.toNat = re.min.toNat by omega,
        run_rep_fixed h x s _ hN hS re.nonGreedy re.min.toNat F pos k (by rw [hop] at hsz; simp only [if_true] at hsz; omega),
        List.length_replicate]
    · -- variable count: the tail
      rename_i hneq
      split at hm
      · exact absurd hm (by simp)
      rename_i hng
      cases hm
      have hgreedy : re.nonGreedy = false := by
        cases hc : re.nonGreedy with
        | false => rfl
        | true => exact absurd (Or.inl hc) hng
      have ht : m.hasTail = false := by
        cases hc : m.hasTail with
        | false => rfl
        | true => exact absurd (Or.inr hc) hng
      constructor
      · intro ht'; rw [ht] at ht'; exact absurd ht' (by simp)
      · intro _
        refine ⟨[], by simp, fun ht' => by simp at ht', fun _ F pos k hk hF => ?_⟩
        obtain ⟨F, rfl⟩ : ∃ F', F = F' + 1 := ⟨F - 1, by omega⟩
        simp only [stepsOK, if_true, List.length_nil, Nat.add_zero]
        rw [hrun, hgreedy]
        unfold tailEnd
        rcases hrep with hop | hop | hop | hop
        · -- x+
          have hb : repBounds re = (1, -1) := by simp [repBounds, hop]
          rw [hop, hb]
          simp only []
          rw [run_plus_tail h x s _ hN hS F pos k hk (by omega)]
          rfl
        · -- x*
          have hb : repBounds re = (0, -1) := by simp [repBounds, hop]
          rw [hop, hb]
          simp only []
          rw [run_star_tail h x s _ hN hS F pos k hk (by omega)]
          simp [topOf]
        · -- x?
          have hb : repBounds re = (0, 1) := by simp [repBounds, hop]
          rw [hop, hb]
          simp only []
          rw [run_rep_tail h x s _ hN hS 0 (some 1) (fun _ _ => Nat.zero_le _) F pos k hk (by omega)]
          rfl
        · -- x{n,m}
          have hb : repBounds re = (re.min, re.max) := by simp [repBounds, hop]
          rw [hb] at hbad
          simp only [] at hbad
          rw [hop, hb]
          simp only []
          rw [run_rep_tail h x s _ hN hS _ _ (fun b hb' => by
            split at hb'
            · exact absurd hb' (by simp)
            · cases hb'; omega) F pos k hk (by omega)]
  · exact absurd hm (by simp)

theorem ByteSet.has_addRange : ∀ (k : Nat) (s : ByteSet) (r x : Nat),
    (s.addRange k r).has x = (s.has x || (decide (r ≤ x) && decide (x < r + k))) := by
  intro k
  induction k with
  | zero =>
    intro s r x
    rw [ByteSet.addRange]
    have : ¬ (r ≤ x ∧ x < r + 0) := by omega
    cases hs : s.has x <;> simp <;> omega
  | succ k ih =>
    intro s r x
    rw [ByteSet.addRange, ih, ByteSet.has_add]
    cases hs : s.has x
    · simp only [Bool.false_or]
      by_cases h1 : r = x
      · subst h1; simp
      · simp only [h1, decide_false, Bool.false_or]
        congr 1
        · simp; omega
        · simp; omega
    · simp

theorem asciiClassLoop_spec : ∀ (ps : List (Nat × Nat)) (s s' : ByteSet), asciiClassLoop s ps = some s' →
    (∀ p ∈ ps, p.2 ≤ 127) ∧
    ∀ x, s'.has x = (s.has x || ps.any fun p => decide (p.1 ≤ x) && decide (x ≤ p.2)) := by
  intro ps
  induction ps with
  | nil => intro s s' hs; rw [asciiClassLoop] at hs; cases hs; simp
  | cons p ps ih =>
    intro s s' hs
    obtain ⟨lo, hi⟩ := p
    rw [asciiClassLoop] at hs
    split at hs
    · exact absurd hs (by simp)
    rename_i hok
    obtain ⟨h1, h2⟩ := ih _ s' hs
    refine ⟨fun p hp => ?_, fun x => ?_⟩
    · rcases List.mem_cons.mp hp with rfl | hp
      · simp only []; omega
      · exact h1 p hp
    · rw [h2, ByteSet.has_addRange, List.any_cons, Bool.or_assoc]
      congr 2
      by_cases hx : x < lo + (hi + 1 - lo)
      · have : x ≤ hi := by omega
        simp [hx, this]
      · have : ¬ x ≤ hi := by omega
        simp [hx, this]

section
attribute [local irreducible] tableOfRanges

theorem asciiClassSet_some (re : Re) (s : ByteSet) (hs : asciiClassSet re = some s) :
    (∀ p ∈ pairs re.rune, p.2 ≤ 127) ∧ ∀ x, (tableOfRanges (pairs re.rune)).mem x = s.has x := by
  unfold asciiClassSet at hs
  split at hs
  · exact absurd hs (by simp)
  obtain ⟨h1, h2⟩ := asciiClassLoop_spec _ _ s hs
  refine ⟨h1, fun x => ?_⟩
  rw [h2, ByteSet.has_empty, Bool.false_or, tableOfRanges_mem]
  by_cases hx : x < 256
  · simp [hx]
  · simp only [hx, decide_false, Bool.false_and]
    symm
    rw [List.any_eq_false]
    intro p hp
    have := h1 p hp
    simp; omega

/-- **`add` is exact**: whatever `add` appends to the matcher for the sub-pattern `x` is what the reference matcher does
    on `x` (`g` = any depth bound of `x`, it only enters the fuel estimate). -/
theorem add_sem (hasFold : Nat → Bool) (hf : FoldSound hasFold) (h : Bytes) :
    ∀ (fuel g : Nat) (x : Re) (m m' : BranchMatcher), BranchMatcher.add hasFold fuel m x = some m' →
      depthLe g x = true → AddSem h (2 * Ref.sizeAux g x) (.one x) m m' := by
  intro fuel
  induction fuel with
  | zero => intro g x m m' hm; rw [BranchMatcher.add] at hm; exact absurd hm (by simp)
  | succ fuel ih =>
    intro g re m m' hm hd
    cases g with
    | zero => rw [depthLe] at hd; exact absurd hd (by simp)
    | succ g =>
    rw [depthLe] at hd
    rw [List.all_eq_true] at hd
    rw [add_succ] at hm
    have hsz := sizeAux_succ g re
    cases hop : re.op <;> rw [hop] at hm <;> simp only [] at hm <;> try (cases hm; done)
    · -- emptyMatch
      cases hm
      apply AddSem.of_noop
      intro F pos k hF
      obtain ⟨F, rfl⟩ : ∃ F', F = F' + 1 := ⟨F - 1, by omega⟩
      rw [Ref.run_one, hop]
    · -- literal
      have := addLiteral_sem hasFold hf h re.foldCase re.rune m m' hm
      refine AddSem.shift h _ _ _ _ m m' (by omega) (fun F pos k => ?_) this
      rw [Ref.run_one, hop]
    · -- charClass
      cases hcs : asciiClassSet re with
      | none => rw [hcs] at hm; exact absurd hm (by simp)
      | some s =>
        rw [hcs] at hm
        simp only [] at hm
        obtain ⟨hascii, hmem⟩ := asciiClassSet_some re s hcs
        obtain ⟨ht, rfl⟩ := BranchMatcher.addStep_spec m m' _ hm
        apply AddSem.of_steps h _ _ m _ ht
        intro F pos k hF
        obtain ⟨F, rfl⟩ : ∃ F', F = F' + 1 := ⟨F - 1, by omega⟩
        rw [run_one_asciiClass h re hop hascii, hmem]
        simp only [stepsOK, Bool.and_true, Bool.and_eq_true, decide_eq_true_eq, List.length_cons, List.length_nil]
    · -- capture
      match hsub : re.sub with
      | [x] =>
        rw [hsub] at hm
        simp only [] at hm
        have hl : BranchMatcher.addList (BranchMatcher.add hasFold fuel) [x] m = some m' := by
          rw [BranchMatcher.addList, hm]; rfl
        have := addList_sem h g _ (fun y m m' e d => ih g y m m' e d) [x] m m' hl
          (fun y hy => hd y (by rw [hsub]; exact hy))
        rw [hsub] at hsz
        refine AddSem.shift h _ _ _ _ m m' (by omega) (fun F pos k => ?_) this
        rw [Ref.run_one, hop, hsub]
      | [] => rw [hsub] at hm; exact absurd hm (by simp)
      | _ :: _ :: _ => rw [hsub] at hm; exact absurd hm (by simp)
    · -- star
      match hsub : re.sub with
      | [x] =>
        rw [hsub] at hm
        simp only [] at hm
        exact rep_sem h g re x m m' _ hsub (by simp [hop]) hm
          (fun elem he => ih g x {} elem he (hd x (by simp [hsub])))
      | [] => rw [hsub] at hm; exact absurd hm (by simp)
      | _ :: _ :: _ => rw [hsub] at hm; exact absurd hm (by simp)
    · -- plus
      match hsub : re.sub with
      | [x] =>
        rw [hsub] at hm
        simp only [] at hm
        exact rep_sem h g re x m m' _ hsub (by simp [hop]) hm
          (fun elem he => ih g x {} elem he (hd x (by simp [hsub])))
      | [] => rw [hsub] at hm; exact absurd hm (by simp)
      | _ :: _ :: _ => rw [hsub] at hm; exact absurd hm (by simp)
    · -- quest
      match hsub : re.sub with
      | [x] =>
        rw [hsub] at hm
        simp only [] at hm
        exact rep_sem h g re x m m' _ hsub (by simp [hop]) hm
          (fun elem he => ih g x {} elem he (hd x (by simp [hsub])))
      | [] => rw [hsub] at hm; exact absurd hm (by simp)
      | _ :: _ :: _ => rw [hsub] at hm; exact absurd hm (by simp)
    · -- repeat
      match hsub : re.sub with
      | [x] =>
        rw [hsub] at hm
        simp only [] at hm
        exact rep_sem h g re x m m' _ hsub (by simp [hop]) hm
          (fun elem he => ih g x {} elem he (hd x (by simp [hsub])))
      | [] => rw [hsub] at hm; exact absurd hm (by simp)
      | _ :: _ :: _ => rw [hsub] at hm; exact absurd hm (by simp)
    · -- concat
      have := addList_sem h g _ (fun y m m' e d => ih g y m m' e d) re.sub m m' hm hd
      refine AddSem.shift h _ _ _ _ m m' (by omega) (fun F pos k => ?_) this
      rw [Ref.run_one, hop]
end


/-! ### no byte set of a matcher has a member `≥ 256` (the dispatch table has 256 entries) -/

def ByteSet.Bounded (s : ByteSet) : Prop := ∀ x, s.has x = true → x < 256

theorem ByteSet.bounded_empty : ({} : ByteSet).Bounded := fun x hx => by
  rw [ByteSet.has_empty] at hx; exact absurd hx (by simp)

theorem byteSetSingle_bounded (b : Nat) (hb : b < 256) : (byteSetSingle b).Bounded := fun x hx => by
  rw [byteSetSingle_has] at hx
  simp only [decide_eq_true_eq] at hx
  omega

def BranchMatcher.TablesOK (m : BranchMatcher) : Prop := (∀ t ∈ m.steps, t.Bounded) ∧ m.tail.Bounded

theorem tablesOK_empty : ({} : BranchMatcher).TablesOK := ⟨(fun _ ht => nomatch ht), ByteSet.bounded_empty⟩

theorem tablesOK_steps (m : BranchMatcher) (ds : List ByteSet) (hm : m.TablesOK) (hds : ∀ t ∈ ds, t.Bounded) :
    ({ m with steps := m.steps ++ ds } : BranchMatcher).TablesOK :=
  ⟨fun t ht => by
    simp only [List.mem_append] at ht
    rcases ht with ht | ht
    · exact hm.1 t ht
    · exact hds t ht, hm.2⟩

theorem addLiteral_tables (hasFold : Nat → Bool) (fold : Bool) : ∀ (rs : List Nat) (m m' : BranchMatcher),
    m.addLiteral hasFold fold rs = some m' → m.TablesOK → m'.TablesOK := by
  intro rs
  induction rs with
  | nil => intro m m' hm; rw [BranchMatcher.addLiteral] at hm; cases hm; exact id
  | cons r rs ih =>
    intro m m' hm hok
    rw [BranchMatcher.addLiteral] at hm
    split at hm
    · exact absurd hm (by simp)
    split at hm
    · exact absurd hm (by simp)
    rename_i hvalid
    have hsc : Utf8.isScalar r := by
      false_or_by_contra
      rename_i hc
      exact hvalid (Or.inr hc)
    cases h1 : m.addBytes (Utf8.encode r) with
    | none => rw [h1] at hm; exact absurd hm (by simp)
    | some m1 =>
      rw [h1] at hm
      simp only [] at hm
      obtain ⟨_, rfl⟩ := BranchMatcher.addBytes_spec _ m m1 h1
      apply ih _ m' hm
      apply tablesOK_steps m _ hok
      intro t ht
      simp only [List.mem_map] at ht
      obtain ⟨b, hb, rfl⟩ := ht
      exact byteSetSingle_bounded b (Utf8.encode_bytes_lt r hsc.1 b hb)

theorem addList_tables (rec : BranchMatcher → Re → Option BranchMatcher)
    (hrec : ∀ x m m', rec m x = some m' → m.TablesOK → m'.TablesOK) :
    ∀ (xs : List Re) (m m' : BranchMatcher), BranchMatcher.addList rec xs m = some m' → m.TablesOK → m'.TablesOK := by
  intro xs
  induction xs with
  | nil => intro m m' hm; rw [BranchMatcher.addList] at hm; cases hm; exact id
  | cons x xs ih =>
    intro m m' hm hok
    rw [BranchMatcher.addList] at hm
    cases h1 : rec m x with
    | none => rw [h1] at hm; exact absurd hm (by simp)
    | some m1 =>
      rw [h1] at hm
      exact ih m1 m' hm (hrec x m m1 h1 hok)

theorem add_tables (hasFold : Nat → Bool) : ∀ (fuel : Nat) (x : Re) (m m' : BranchMatcher),
    BranchMatcher.add hasFold fuel m x = some m' → m.TablesOK → m'.TablesOK := by
  intro fuel
  induction fuel with
  | zero => intro x m m' hm; rw [BranchMatcher.add] at hm; exact absurd hm (by simp)
  | succ fuel ih =>
    intro re m m' hm hok
    rw [add_succ] at hm
    have hrepcase : ∀ (x : Re),
        (if (repBounds re).1 < 0 ∨ ((repBounds re).2 ≥ 0 ∧ (repBounds re).2 < (repBounds re).1) then none else
          if (repBounds re).2 = 0 then some m else
          match BranchMatcher.add hasFold fuel {} x with
          | none => none
          | some elem =>
            match elem.hasTail, elem.steps with
            | false, [s] =>
              if (repBounds re).1 = (repBounds re).2 then m.addStepN s (repBounds re).1.toNat
              else if re.nonGreedy ∨ m.hasTail then none
              else some { m with hasTail := true, tail := s, tailMin := (repBounds re).1.toNat, tailMax := (repBounds re).2 }
            | _, _ => none) = some m' → m'.TablesOK := by
      intro x hm
      split at hm
      · exact absurd hm (by simp)
      split at hm
      · cases hm; exact hok
      cases he : BranchMatcher.add hasFold fuel {} x with
      | none => rw [he] at hm; exact absurd hm (by simp)
      | some elem =>
        rw [he] at hm
        simp only [] at hm
        have helem := ih x {} elem he tablesOK_empty
        split at hm
        · rename_i s _ hsteps
          have hs : s.Bounded := helem.1 s (by rw [hsteps]; simp)
          split at hm
          · obtain ⟨_, rfl⟩ := BranchMatcher.addStepN_spec s _ m m' hm
            apply tablesOK_steps m _ hok
            intro t ht
            rw [List.eq_of_mem_replicate ht]; exact hs
          · split at hm
            · exact absurd hm (by simp)
            · cases hm; exact ⟨hok.1, hs⟩
        · exact absurd hm (by simp)
    cases hop : re.op <;> rw [hop] at hm <;> simp only [] at hm <;> try (cases hm; done)
    · cases hm; exact hok
    · exact addLiteral_tables hasFold _ _ m m' hm hok
    · cases hcs : asciiClassSet re with
      | none => rw [hcs] at hm; exact absurd hm (by simp)
      | some s =>
        rw [hcs] at hm
        simp only [] at hm
        obtain ⟨_, hmem⟩ := asciiClassSet_some re s hcs
        obtain ⟨_, rfl⟩ := BranchMatcher.addStep_spec m m' _ hm
        apply tablesOK_steps m _ hok
        intro t ht
        simp only [List.mem_singleton] at ht
        subst ht
        intro x hx
        rw [← hmem, tableOfRanges_mem] at hx
        simp only [Bool.and_eq_true, decide_eq_true_eq] at hx
        exact hx.1
    · match hsub : re.sub with
      | [x] => rw [hsub] at hm; exact ih x m m' hm hok
      | [] => rw [hsub] at hm; exact absurd hm (by simp)
      | _ :: _ :: _ => rw [hsub] at hm; exact absurd hm (by simp)
    · match hsub : re.sub with
      | [x] => rw [hsub] at hm; exact hrepcase x hm
      | [] => rw [hsub] at hm; exact absurd hm (by simp)
      | _ :: _ :: _ => rw [hsub] at hm; exact absurd hm (by simp)
    · match hsub : re.sub with
      | [x] => rw [hsub] at hm; exact hrepcase x hm
      | [] => rw [hsub] at hm; exact absurd hm (by simp)
      | _ :: _ :: _ => rw [hsub] at hm; exact absurd hm (by simp)
    · match hsub : re.sub with
      | [x] => rw [hsub] at hm; exact hrepcase x hm
      | [] => rw [hsub] at hm; exact absurd hm (by simp)
      | _ :: _ :: _ => rw [hsub] at hm; exact absurd hm (by simp)
    · match hsub : re.sub with
      | [x] => rw [hsub] at hm; exact hrepcase x hm
      | [] => rw [hsub] at hm; exact absurd hm (by simp)
      | _ :: _ :: _ => rw [hsub] at hm; exact absurd hm (by simp)
    · exact addList_tables _ (fun x m m' e => ih x m m' e) re.sub m m' hm hok


/-! ### one branch -/

/-- what `buildBranchMatcher` guarantees about an accepted branch `b` with matcher `m` -/
structure BranchOK (hasFold : Nat → Bool) (b : Re) (m : BranchMatcher) : Prop where
  build : buildBranchMatcher hasFold b = some m

theorem buildBranchMatcher_spec (hasFold : Nat → Bool) (b : Re) (m : BranchMatcher)
    (hb : buildBranchMatcher hasFold b = some m) :
    BranchMatcher.add hasFold 21 {} b = some m ∧ m.minLen ≠ 0 := by
  unfold buildBranchMatcher at hb
  cases ha : BranchMatcher.add hasFold 21 {} b with
  | none => rw [ha] at hb; exact absurd hb (by simp)
  | some m1 =>
    rw [ha] at hb
    simp only [] at hb
    split at hb
    · exact absurd hb (by simp)
    · cases hb; exact ⟨rfl, by assumption⟩

/-- the reference matcher on an accepted branch (in last position: accepting continuation) = the branch matcher -/
theorem branch_sem (hasFold : Nat → Bool) (hf : FoldSound hasFold) (h : Bytes) (g : Nat) (b : Re) (m : BranchMatcher)
    (hb : buildBranchMatcher hasFold b = some m) (hd : depthLe g b = true)
    (F pos : Nat) (k : Nat → Option Nat) (hk : ∀ p, k p = some p) (hF : 2 * Ref.sizeAux g b + (h.size + 2) ≤ F) :
    Ref.run h F (.one b) pos k = m.matchFrom h pos := by
  obtain ⟨hadd, _⟩ := buildBranchMatcher_spec hasFold b m hb
  have hs := add_sem hasFold hf h 21 g b {} m hadd hd
  obtain ⟨ds, e1, a1, b1⟩ := hs.steps rfl
  have e1 : m.steps = ds := by simpa using e1
  unfold BranchMatcher.matchFrom
  cases ht : m.hasTail with
  | false =>
    rw [a1 ht F pos k (by omega), e1]
    simp only [Bool.false_eq_true, if_false, hk]
  | true =>
    rw [b1 ht F pos k hk hF, e1]
    simp only [if_true]

/-- a match of an accepted branch at offset 0 is non-empty and starts with a byte of the branch's first set -/
theorem matchFrom_first (m : BranchMatcher) (hmin : m.minLen ≠ 0) (h : Bytes) (e : Nat)
    (hm : m.matchFrom h 0 = some e) : 0 < h.size ∧ m.firstSet.has (h.at 0) = true := by
  unfold BranchMatcher.matchFrom at hm
  split at hm
  case isFalse => exact absurd hm (by simp)
  rename_i hok
  unfold BranchMatcher.firstSet
  cases hst : m.steps with
  | cons s ss =>
    rw [hst] at hok
    simp only [stepsOK, Bool.and_eq_true, decide_eq_true_eq] at hok
    exact ⟨hok.1.1, hok.1.2⟩
  | nil =>
    simp only []
    unfold BranchMatcher.minLen at hmin
    rw [hst] at hm hmin
    cases ht : m.hasTail with
    | false => rw [ht] at hmin; simp at hmin
    | true =>
      rw [ht] at hm hmin
      simp only [if_true, List.length_nil, Nat.add_zero, Nat.zero_add] at hm hmin
      unfold tailEnd at hm
      generalize hT : topOf (if m.tailMax < 0 then none else some m.tailMax.toNat) (runLen m.tail.has h 0) = T at hm
      have hTle : T ≤ runLen m.tail.has h 0 := by
        rw [← hT]; unfold topOf; split <;> omega
      have hrl : 1 ≤ runLen m.tail.has h 0 := by
        by_cases hle : m.tailMin ≤ T
        · omega
        · rw [if_neg hle] at hm; exact absurd hm (by simp)
      by_cases hp : 0 < h.size
      · rw [runLen_lt _ h 0 hp] at hrl
        split at hrl
        · rename_i hmem; exact ⟨hp, hmem⟩
        · omega
      · rw [runLen_ge _ h 0 (by omega)] at hrl
        omega

theorem firstSet_bounded (m : BranchMatcher) (hok : m.TablesOK) : m.firstSet.Bounded := by
  unfold BranchMatcher.firstSet
  cases hst : m.steps with
  | cons s ss => exact hok.1 s (by rw [hst]; simp)
  | nil => exact hok.2

theorem buildBranchMatcher_tables (hasFold : Nat → Bool) (b : Re) (m : BranchMatcher)
    (hb : buildBranchMatcher hasFold b = some m) : m.TablesOK :=
  add_tables hasFold 21 b {} m (buildBranchMatcher_spec hasFold b m hb).1 tablesOK_empty

/-! ### the dispatch table -/

theorem ByteSet.intersects_false (s o : ByteSet) (hi : s.intersects o = false) (x : Nat)
    (hs : s.has x = true) : o.has x = false := by
  unfold ByteSet.intersects at hi
  simp only [decide_eq_false_iff_not, Decidable.not_not] at hi
  unfold ByteSet.has at hs ⊢
  have := congrArg (fun n => Nat.testBit n x) hi
  simp only [Nat.testBit_and, Nat.zero_testBit, hs, Bool.true_and] at this
  exact this

/-- effect of the claim loop -/
theorem claimBytes_spec (first : ByteSet) (i : Nat) :
    ∀ (l : List Nat) (seen : ByteSet) (d : Array Int), l.Nodup → (∀ x ∈ l, x < 256) → d.size = 256 →
      (claimBytes first i l seen d).2.size = 256 ∧
      (∀ x, (claimBytes first i l seen d).1.has x = (seen.has x || (decide (x ∈ l) && first.has x))) ∧
      (∀ x, (claimBytes first i l seen d).2.getD x (-1) =
        if x ∈ l ∧ first.has x = true then (i : Int) else d.getD x (-1)) := by
  intro l
  induction l with
  | nil => intro seen d _ _ hd; simp [claimBytes, hd]
  | cons b bs ih =>
    intro seen d hnd hlt hd
    rw [List.nodup_cons] at hnd
    rw [claimBytes]
    by_cases hm : first.has b = true
    · rw [if_pos hm]
      obtain ⟨r2, r3, r4⟩ := ih (seen.add b) (d.setIfInBounds b (i : Int)) hnd.2
        (fun x hx => hlt x (by simp [hx])) (by simpa using hd)
      refine ⟨r2, fun x => ?_, fun x => ?_⟩
      · rw [r3, ByteSet.has_add]
        by_cases hbx : b = x
        · subst hbx
          simp [hm]
        · have : ¬ (x = b) := fun hc => hbx hc.symm
          simp [hbx, this]
      · rw [r4, getD_setIfInBounds_int]
        by_cases hbx : b = x
        · subst hbx
          have : b < d.size := by rw [hd]; exact hlt b (by simp)
          simp [this, hm, hnd.1]
        · have : ¬ (x = b) := fun hc => hbx hc.symm
          simp [hbx, this]
    · rw [if_neg hm]
      obtain ⟨r2, r3, r4⟩ := ih seen d hnd.2 (fun x hx => hlt x (by simp [hx])) hd
      refine ⟨r2, fun x => ?_, fun x => ?_⟩
      · rw [r3]
        by_cases hbx : x = b
        · subst hbx
          rw [Bool.not_eq_true] at hm
          simp [hm]
        · simp [hbx]
      · rw [r4]
        by_cases hbx : x = b
        · subst hbx
          simp [hm]
        · simp [hbx]

/-- `ms` are the matchers `buildBranchMatcher` produced for the branches `bs`, in order -/
def BranchesBuilt (hasFold : Nat → Bool) : List Re → List BranchMatcher → Prop
  | [], [] => True
  | b :: bs, m :: ms => buildBranchMatcher hasFold b = some m ∧ BranchesBuilt hasFold bs ms
  | _, _ => False

/-- invariant of the `NewBranchDispatcher` loop after the branches with matchers `ms` -/
structure LoopInv (ms : List BranchMatcher) (st : BDState) : Prop where
  matchers : st.matchers = ms
  dsize : st.dispatch.size = 256
  seen_iff : ∀ x, st.seen.has x = true ↔ ∃ (i : Nat) (m : BranchMatcher), ms[i]? = some m ∧ m.firstSet.has x = true
  disp_first : ∀ (i : Nat) (m : BranchMatcher) x, ms[i]? = some m → m.firstSet.has x = true →
    st.dispatch.getD x (-1) = (i : Int)
  disp_range : ∀ x, st.dispatch.getD x (-1) = -1 ∨
    ∃ (i : Nat) (m : BranchMatcher), ms[i]? = some m ∧ st.dispatch.getD x (-1) = (i : Int) ∧ m.firstSet.has x = true

theorem getD_replicate_int (x : Nat) : (Array.replicate 256 (-1 : Int)).getD x (-1) = -1 := by
  simp only [Array.getD_eq_getD_getElem?, Array.getElem?_replicate]
  split <;> rfl

theorem loopInv_init : LoopInv [] {} where
  matchers := rfl
  dsize := by simp
  seen_iff := fun x => by
    constructor
    · intro hx
      have : ({} : BDState).seen.has x = false := ByteSet.has_empty x
      rw [this] at hx; exact absurd hx (by simp)
    · rintro ⟨i, m, hi, _⟩; simp at hi
  disp_first := fun i m x hi _ => by simp at hi
  disp_range := fun x => Or.inl (getD_replicate_int x)

theorem newBranchLoop_inv (hasFold : Nat → Bool) :
    ∀ (bs : List Re) (ms : List BranchMatcher) (st st' : BDState), LoopInv ms st →
      newBranchLoop hasFold bs ms.length st = some st' →
      ∃ ms', LoopInv (ms ++ ms') st' ∧ BranchesBuilt hasFold bs ms' := by
  intro bs
  induction bs with
  | nil =>
    intro ms st st' inv hl
    rw [newBranchLoop] at hl
    cases hl
    exact ⟨[], by simpa using inv, trivial⟩
  | cons b bs ih =>
    intro ms st st' inv hl
    rw [newBranchLoop] at hl
    cases hb : buildBranchMatcher hasFold b with
    | none => rw [hb] at hl; exact absurd hl (by simp)
    | some m =>
      rw [hb] at hl
      simp only [] at hl
      split at hl
      · exact absurd hl (by simp)
      rename_i hint
      rw [Bool.not_eq_true] at hint
      have hlt : ∀ x, m.firstSet.has x = true → x < 256 :=
        firstSet_bounded m (buildBranchMatcher_tables hasFold b m hb)
      obtain ⟨r2, r3, r4⟩ := claimBytes_spec m.firstSet ms.length (List.range 256) st.seen st.dispatch
        List.nodup_range (fun x hx => List.mem_range.mp hx) inv.dsize
      have hdisj : ∀ x, m.firstSet.has x = true → st.seen.has x = false :=
        fun x hx => ByteSet.intersects_false _ _ hint x hx
      have hinv : LoopInv (ms ++ [m])
          { dispatch := (claimBytes m.firstSet ms.length (List.range 256) st.seen st.dispatch).2,
            matchers := st.matchers ++ [m],
            seen := (claimBytes m.firstSet ms.length (List.range 256) st.seen st.dispatch).1 } := by
        have hget : ∀ i m', (ms ++ [m])[i]? = some m' ↔ (ms[i]? = some m' ∨ (i = ms.length ∧ m' = m)) := by
          intro i m'
          rw [List.getElem?_append]
          split
          · rename_i hi
            constructor
            · exact Or.inl
            · rintro (h1 | ⟨h1, _⟩)
              · exact h1
              · omega
          · rename_i hi
            have hnone : ms[i]? = none := List.getElem?_eq_none (by omega)
            constructor
            · intro h1
              right
              by_cases hi' : i = ms.length
              · subst hi'
                simp at h1
                exact ⟨rfl, h1.symm⟩
              · rw [List.getElem?_eq_none (by simp; omega)] at h1
                exact absurd h1 (by simp)
            · rintro (h1 | ⟨h1, h2⟩)
              · rw [hnone] at h1; exact absurd h1 (by simp)
              · subst h1 h2; simp
        have hclaim : ∀ x, (x ∈ List.range 256 ∧ m.firstSet.has x = true) ↔ m.firstSet.has x = true :=
          fun x => ⟨fun hc => hc.2, fun hc => ⟨List.mem_range.mpr (hlt x hc), hc⟩⟩
        refine ⟨by rw [inv.matchers], r2, fun x => ?_, fun i m' x hi hx => ?_, fun x => ?_⟩
        · simp only []
          rw [r3 x]
          simp only [Bool.or_eq_true, Bool.and_eq_true, decide_eq_true_eq, hclaim, inv.seen_iff]
          constructor
          · rintro (⟨i, m', hi, hx⟩ | hx)
            · exact ⟨i, m', (hget i m').mpr (Or.inl hi), hx⟩
            · exact ⟨ms.length, m, (hget _ _).mpr (Or.inr ⟨rfl, rfl⟩), hx⟩
          · rintro ⟨i, m', hi, hx⟩
            rcases (hget i m').mp hi with hi | ⟨_, rfl⟩
            · exact Or.inl ⟨i, m', hi, hx⟩
            · exact Or.inr hx
        · simp only []
          rw [r4 x]
          rcases (hget i m').mp hi with hi | ⟨rfl, rfl⟩
          · have hseen : st.seen.has x = true := (inv.seen_iff x).mpr ⟨i, m', hi, hx⟩
            have hnot : ¬ (m.firstSet.has x = true) := fun hc => by
              rw [hdisj x hc] at hseen; exact absurd hseen (by simp)
            rw [if_neg (fun hc => hnot hc.2)]
            exact inv.disp_first i m' x hi hx
          · rw [if_pos ((hclaim x).mpr hx)]
        · simp only []
          rw [r4 x]
          by_cases hx : m.firstSet.has x = true
          · rw [if_pos ((hclaim x).mpr hx)]
            exact Or.inr ⟨ms.length, m, (hget _ _).mpr (Or.inr ⟨rfl, rfl⟩), rfl, hx⟩
          · rw [if_neg (fun hc => hx hc.2)]
            rcases inv.disp_range x with hneg | ⟨i, m', hi, hd, hx'⟩
            · exact Or.inl hneg
            · exact Or.inr ⟨i, m', (hget _ _).mpr (Or.inl hi), hd, hx'⟩
      have hlen : (ms ++ [m]).length = ms.length + 1 := by simp
      rw [← hlen] at hl
      obtain ⟨ms', inv', hall⟩ := ih (ms ++ [m]) _ st' hinv hl
      exact ⟨m :: ms', by simpa using inv', hb, hall⟩


theorem findSome?_unique' {α β : Type} (f : α → Option β) : ∀ (l : List α) (i : Nat) (a : α), l[i]? = some a →
    (∀ j b, l[j]? = some b → j ≠ i → f b = none) → l.findSome? f = f a := by
  intro l
  induction l with
  | nil => intro i a hi; simp at hi
  | cons x l ih =>
    intro i a hi hother
    rw [List.findSome?_cons]
    cases i with
    | zero =>
      simp only [List.getElem?_cons_zero, Option.some.injEq] at hi
      subst hi
      cases hfa : f x with
      | some b => rfl
      | none =>
        simp only []
        rw [List.findSome?_eq_none_iff]
        intro y hy
        obtain ⟨j, hj⟩ := List.getElem?_of_mem hy
        exact hother (j + 1) y (by simpa using hj) (by omega)
    | succ i =>
      have h0 := hother 0 x (by simp) (by omega)
      rw [h0]
      simp only [List.getElem?_cons_succ] at hi
      exact ih i a hi (fun j b hj hne => hother (j + 1) b (by simpa using hj) (by omega))

/-- what the loop invariant gives at the end: the dispatcher's tables describe the branch matchers `ms` -/
structure BranchDispatcher.WF (d : BranchDispatcher) (ms : List BranchMatcher) : Prop where
  matchers : d.branchMatchers = ms
  nonempty : ∀ m ∈ ms, m.minLen ≠ 0
  disp_first : ∀ (i : Nat) (m : BranchMatcher) x, ms[i]? = some m → m.firstSet.has x = true →
    d.dispatch.getD x (-1) = (i : Int)
  disp_range : ∀ x, d.dispatch.getD x (-1) = -1 ∨
    ∃ (i : Nat) (m : BranchMatcher), ms[i]? = some m ∧ d.dispatch.getD x (-1) = (i : Int) ∧ m.firstSet.has x = true

/-- the key fact: at most ONE branch can match at offset 0 (no branch matches the empty string, so a match starts with a
    byte of the branch's first set, and the first sets are pairwise disjoint) — hence the result cannot depend on the
    order of the branches; and a branch matches in exactly one way (`matchFrom` is a function: fixed steps, then the
    longest admissible tail with nothing after it), hence not on greedy/lazy preference either. -/
theorem BranchDispatcher.match_unique (d : BranchDispatcher) (ms : List BranchMatcher) (wf : d.WF ms) (h : Bytes)
    (i j : Nat) (mi mj : BranchMatcher) (hi : ms[i]? = some mi) (hj : ms[j]? = some mj) (ei ej : Nat)
    (h1 : mi.matchFrom h 0 = some ei) (h2 : mj.matchFrom h 0 = some ej) : i = j := by
  have f1 := (matchFrom_first mi (wf.nonempty mi (List.mem_of_getElem? hi)) h ei h1).2
  have f2 := (matchFrom_first mj (wf.nonempty mj (List.mem_of_getElem? hj)) h ej h2).2
  have d1 := wf.disp_first i mi _ hi f1
  have d2 := wf.disp_first j mj _ hj f2
  rw [d1] at d2
  omega

/-- **dispatch is exact**: the dispatcher returns the match of the FIRST branch (in order) that matches at offset 0 — and
    at most one branch can (no branch matches the empty string, first-byte sets are pairwise disjoint). -/
theorem BranchDispatcher.search_eq_first (d : BranchDispatcher) (ms : List BranchMatcher) (wf : d.WF ms) (h : Bytes) :
    d.search h = (ms.findSome? fun m => m.matchFrom h 0).map fun e => (0, e) := by
  -- a branch whose first set misses `h[0]` does not match
  have hmiss : ∀ m ∈ ms, ¬ (0 < h.size ∧ m.firstSet.has (h.at 0) = true) → m.matchFrom h 0 = none := by
    intro m hm hnot
    cases hr : m.matchFrom h 0 with
    | none => rfl
    | some e => exact absurd (matchFrom_first m (wf.nonempty m hm) h e hr) hnot
  unfold search
  by_cases h0 : h.size = 0
  · rw [if_pos h0]
    have : ms.findSome? (fun m => m.matchFrom h 0) = none := by
      rw [List.findSome?_eq_none_iff]
      intro m hm
      exact hmiss m hm (fun hc => by omega)
    rw [this]; rfl
  · rw [if_neg h0]
    simp only []
    rcases wf.disp_range (h.at 0) with hneg | ⟨i, m, hi, hd, hx⟩
    · rw [hneg]
      simp only [show ((-1 : Int) < 0) from by omega, if_true]
      have : ms.findSome? (fun m => m.matchFrom h 0) = none := by
        rw [List.findSome?_eq_none_iff]
        intro m hm
        apply hmiss m hm
        rintro ⟨_, hx⟩
        obtain ⟨j, hj⟩ := List.getElem?_of_mem hm
        have := wf.disp_first j m _ hj hx
        rw [hneg] at this
        omega
      rw [this]; rfl
    · rw [hd, if_neg (by omega), wf.matchers]
      simp only [Int.toNat_natCast]
      rw [List.getD_eq_getElem?_getD, hi]
      simp only [Option.getD_some]
      rw [BranchMatcher.match_eq]
      have huniq : ms.findSome? (fun m => m.matchFrom h 0) = m.matchFrom h 0 := by
        apply findSome?_unique' _ ms i m hi
        intro j b hj hne
        apply hmiss b (List.mem_of_getElem? hj)
        rintro ⟨_, hx'⟩
        have := wf.disp_first j b _ hj hx'
        rw [hd] at this
        omega
      rw [huniq]
      cases m.matchFrom h 0 <;> rfl

theorem branchesBuilt_mem (hasFold : Nat → Bool) : ∀ (bs : List Re) (ms : List BranchMatcher),
    BranchesBuilt hasFold bs ms → ∀ m ∈ ms, ∃ b ∈ bs, buildBranchMatcher hasFold b = some m := by
  intro bs
  induction bs with
  | nil =>
    intro ms hb m hm
    cases ms with
    | nil => simp at hm
    | cons _ _ => exact absurd hb (by simp [BranchesBuilt])
  | cons b bs ih =>
    intro ms hb m hm
    cases ms with
    | nil => exact absurd hb (by simp [BranchesBuilt])
    | cons m0 ms =>
      obtain ⟨h1, h2⟩ := hb
      rcases List.mem_cons.mp hm with rfl | hm
      · exact ⟨b, by simp, h1⟩
      · obtain ⟨b', hb', hbuild⟩ := ih ms h2 m hm
        exact ⟨b', by simp [hb'], hbuild⟩

/-- `NewBranchDispatcher` produces a well-formed dispatcher for the matchers of the branches -/
theorem newBranchDispatcher_wf (hasFold : Nat → Bool) (alt : Re) (d : BranchDispatcher)
    (hd : newBranchDispatcher hasFold alt = some d) :
    (unwrapCaptures alt).op = .alternate ∧
    ∃ ms, BranchesBuilt hasFold (unwrapCaptures alt).sub ms ∧ d.WF ms := by
  unfold newBranchDispatcher at hd
  simp only [] at hd
  split at hd
  · exact absurd hd (by simp)
  rename_i hop
  split at hd
  · exact absurd hd (by simp)
  cases hl : newBranchLoop hasFold (unwrapCaptures alt).sub 0 {} with
  | none => rw [hl] at hd; exact absurd hd (by simp)
  | some st =>
    rw [hl] at hd
    simp only [Option.map_some, Option.some.injEq] at hd
    subst hd
    obtain ⟨ms, inv, hb⟩ := newBranchLoop_inv hasFold _ [] {} st loopInv_init hl
    simp only [List.nil_append] at inv
    refine ⟨by simpa using hop, ms, hb, inv.matchers, fun m hm => ?_, inv.disp_first, inv.disp_range⟩
    obtain ⟨b, _, hbuild⟩ := branchesBuilt_mem hasFold _ ms hb m hm
    exact (buildBranchMatcher_spec hasFold b m hbuild).2


/-! ### the reference matcher on the alternation, the capture wrappers and `\\A` -/

/-- the alternation tries the branches in order; each branch is its matcher -/
theorem run_alts_built (hasFold : Nat → Bool) (hf : FoldSound hasFold) (h : Bytes) (g : Nat) :
    ∀ (bs : List Re) (ms : List BranchMatcher), BranchesBuilt hasFold bs ms → (∀ b ∈ bs, depthLe g b = true) →
      ∀ F pos (k : Nat → Option Nat), (∀ p, k p = some p) → 2 * sumSize g bs + (h.size + 2) + 1 ≤ F →
        Ref.run h F (.alts bs) pos k = ms.findSome? fun m => m.matchFrom h pos := by
  intro bs
  induction bs with
  | nil =>
    intro ms hb _ F pos k _ hF
    cases ms with
    | nil =>
      obtain ⟨F, rfl⟩ : ∃ F', F = F' + 1 := ⟨F - 1, by omega⟩
      rw [Ref.run_alts_nil]; rfl
    | cons _ _ => exact absurd hb (by simp [BranchesBuilt])
  | cons b bs ih =>
    intro ms hb hd F pos k hk hF
    cases ms with
    | nil => exact absurd hb (by simp [BranchesBuilt])
    | cons m ms =>
      obtain ⟨h1, h2⟩ := hb
      obtain ⟨F, rfl⟩ : ∃ F', F = F' + 1 := ⟨F - 1, by omega⟩
      rw [sumSize_cons] at hF
      have hsb := sizeAux_pos' g b
      rw [Ref.run_alts_cons, branch_sem hasFold hf h g b m h1 (hd b (by simp)) F pos k hk (by omega),
        ih ms h2 (fun y hy => hd y (by simp [hy])) F pos k hk (by omega), List.findSome?_cons]
      unfold Ref.orElse
      cases m.matchFrom h pos <;> rfl

theorem unwrapCaptures_capture (re x : Re) (hop : re.op = .capture) (hsub : re.sub = [x]) :
    unwrapCaptures re = unwrapCaptures x := by
  obtain ⟨op, g, f, sub, r, a, b⟩ := re
  simp only [Re.op, Re.sub] at hop hsub
  subst hop hsub
  rw [unwrapCaptures]

theorem unwrapCaptures_other (re : Re) (hne : ¬ (re.op = .capture ∧ ∃ x, re.sub = [x])) : unwrapCaptures re = re := by
  obtain ⟨op, g, f, sub, r, a, b⟩ := re
  simp only [Re.op, Re.sub] at hne
  unfold unwrapCaptures
  split
  · rename_i heq
    cases heq
    exact absurd ⟨rfl, _, rfl⟩ hne
  · rfl

/-- capture groups around the alternation are transparent -/
theorem run_wrapped_alts (hasFold : Nat → Bool) (hf : FoldSound hasFold) (h : Bytes) :
    ∀ (g : Nat) (alt : Re) (ms : List BranchMatcher), depthLe g alt = true →
      (unwrapCaptures alt).op = .alternate → BranchesBuilt hasFold (unwrapCaptures alt).sub ms →
      ∀ F pos (k : Nat → Option Nat), (∀ p, k p = some p) → 2 * Ref.sizeAux g alt + (h.size + 2) ≤ F →
        Ref.run h F (.one alt) pos k = ms.findSome? fun m => m.matchFrom h pos := by
  intro g
  induction g with
  | zero => intro alt ms hd; rw [depthLe] at hd; exact absurd hd (by simp)
  | succ g ih =>
    intro alt ms hd hop hb F pos k hk hF
    rw [depthLe, List.all_eq_true] at hd
    have hsz := sizeAux_succ g alt
    by_cases hcap : alt.op = .capture ∧ ∃ x, alt.sub = [x]
    · obtain ⟨hc, x, hsub⟩ := hcap
      rw [unwrapCaptures_capture alt x hc hsub] at hop hb
      rw [hsub, sumSize_cons] at hsz
      obtain ⟨F, rfl⟩ : ∃ F', F = F' + 2 := ⟨F - 2, by omega⟩
      rw [Ref.run_one, hc]
      simp only []
      rw [hsub, Ref.run_seq_cons]
      have hk' : ∀ p, (fun p => Ref.run h F (.seq []) p k) p = some p := by
        intro p
        simp only []
        obtain ⟨F', hF'⟩ : ∃ F', F = F' + 1 := ⟨F - 1, by have := sizeAux_pos' g x; omega⟩
        rw [hF', Ref.run_seq_nil, hk]
      exact ih x ms (hd x (by simp [hsub])) hop hb F pos _ hk' (by omega)
    · rw [unwrapCaptures_other alt hcap] at hop hb
      obtain ⟨F, rfl⟩ : ∃ F', F = F' + 1 := ⟨F - 1, by omega⟩
      rw [Ref.run_one, hop]
      simp only []
      exact run_alts_built hasFold hf h g alt.sub ms hb hd F pos k hk (by omega)

theorem fuelFor_ge (re : Re) (h : Bytes) : 2 * Ref.sizeAux 32 re + (h.size + 2) + 8 ≤ Ref.fuelFor re h := by
  unfold Ref.fuelFor
  generalize Ref.sizeAux 32 re = s
  generalize h.size = n
  have h1 : (s + 2) * 2 ≤ (s + 2) * (n + 2) := Nat.mul_le_mul_left _ (by omega)
  have h2 : 1 * (n + 2) ≤ (s + 2) * (n + 2) := Nat.mul_le_mul_right _ (by omega)
  omega

theorem findLoop_none (re : Re) (h : Bytes) : ∀ k s, (∀ s', s ≤ s' → Ref.matchAt re h s' = none) →
    Ref.findLoop re h k s = none := by
  intro k
  induction k with
  | zero => intro s _; rw [Ref.findLoop]
  | succ k ih =>
    intro s hnone
    rw [Ref.findLoop, hnone s (Nat.le_refl _)]
    exact ih (s + 1) (fun s' hs' => hnone s' (by omega))

/-- the reference semantics of `\\A(alt)`: a match can only start at 0, and there it is the first matching branch -/
theorem matchAt_bd (hasFold : Nat → Bool) (hf : FoldSound hasFold) (re a alt : Re) (ms : List BranchMatcher)
    (hop : re.op = .concat) (hsub : re.sub = [a, alt]) (ha : a.op = .beginText) (hdepth : RefDepthOK re)
    (halt : (unwrapCaptures alt).op = .alternate) (hb : BranchesBuilt hasFold (unwrapCaptures alt).sub ms)
    (h : Bytes) (s : Nat) :
    Ref.matchAt re h s = if s = 0 then ms.findSome? (fun m => m.matchFrom h 0) else none := by
  unfold Ref.matchAt
  have hfuel := fuelFor_ge re h
  unfold RefDepthOK at hdepth
  rw [depthLe, List.all_eq_true] at hdepth
  have hsz : Ref.sizeAux 32 re = _ := sizeAux_succ 31 re
  rw [hsub, sumSize_cons, sumSize_cons] at hsz
  have hsa := sizeAux_pos' 31 a
  obtain ⟨F, hF⟩ : ∃ F', Ref.fuelFor re h = F' + 4 := ⟨Ref.fuelFor re h - 4, by omega⟩
  rw [hF, Ref.run_one, hop]
  simp only []
  rw [hsub, Ref.run_seq_cons, Ref.run_one, ha]
  simp only []
  by_cases hs : s = 0
  · subst hs
    rw [if_pos rfl, if_pos rfl, Ref.run_seq_cons]
    have hk' : ∀ p, (fun p => Ref.run h (F + 1) (.seq []) p some) p = some p := by
      intro p
      simp only []
      rw [Ref.run_seq_nil]
    exact run_wrapped_alts hasFold hf h 31 alt ms (hdepth alt (by simp [hsub])) halt hb (F + 1) 0 _ hk' (by omega)
  · rw [if_neg hs, if_neg hs]


/-- the shape `metaBranchDispatcher` (meta/compile.go) and `IsBranchDispatchPattern` agree on -/
theorem metaBranchDispatcher_shape (hasFold : Nat → Bool) (re : Re) (d : BranchDispatcher)
    (hd : metaBranchDispatcher hasFold re = some d) :
    re.op = .concat ∧ ∃ a alt, re.sub = [a, alt] ∧ a.op = .beginText ∧ newBranchDispatcher hasFold alt = some d := by
  unfold metaBranchDispatcher at hd
  split at hd
  · exact absurd hd (by simp)
  rename_i hop
  split at hd
  · rename_i a alt hsub
    split at hd
    · exact absurd hd (by simp)
    rename_i ha
    exact ⟨by simpa using hop, a, alt, hsub, by simpa using ha, hd⟩
  · exact absurd hd (by simp)

/-- the predicate accepts exactly the patterns for which meta builds a dispatcher (it never has to fall back) -/
theorem isBranchDispatchPattern_eq (hasFold : Nat → Bool) (re : Re) :
    isBranchDispatchPattern hasFold re = (metaBranchDispatcher hasFold re).isSome := by
  unfold isBranchDispatchPattern branchDispatchAlternation metaBranchDispatcher
  by_cases hop : re.op ≠ .concat
  · rw [if_pos hop, if_pos hop]; rfl
  · rw [if_neg hop, if_neg hop]
    match hsub : re.sub with
    | [] => rfl
    | [_] => rfl
    | _ :: _ :: _ :: _ => rfl
    | [a, alt] =>
      simp only []
      by_cases ha : a.op ≠ .beginText
      · rw [if_pos ha, if_pos ha]; rfl
      · rw [if_neg ha, if_neg ha]
        by_cases halt : (unwrapCaptures alt).op ≠ .alternate
        · rw [if_pos halt]
          simp only []
          have : newBranchDispatcher hasFold alt = none := by
            unfold newBranchDispatcher
            simp only []
            rw [if_pos halt]
          rw [this]; rfl
        · rw [if_neg halt]

/-- **BranchDispatcher end to end**: for EVERY pattern `re` for which meta builds a dispatcher (equivalently: that
    `IsBranchDispatchPattern` accepts), every haystack and every start offset, the dispatcher returns what the general
    leftmost-first reference matcher returns for the WHOLE pattern `\\A(b1|…|bk)`. -/
theorem branchDispatcher_eq_reference (hasFold : Nat → Bool) (hf : FoldSound hasFold) (re : Re) (d : BranchDispatcher)
    (hd : metaBranchDispatcher hasFold re = some d) (hdepth : RefDepthOK re) (h : Bytes) (a : Nat) :
    d.searchAt h a = Ref.refFind re h a := by
  obtain ⟨hop, a0, alt, hsub, ha, hnew⟩ := metaBranchDispatcher_shape hasFold re d hd
  obtain ⟨halt, ms, hb, wf⟩ := newBranchDispatcher_wf hasFold alt d hnew
  have hmatch := matchAt_bd hasFold hf re a0 alt ms hop hsub ha hdepth halt hb h
  unfold BranchDispatcher.searchAt Ref.refFind
  by_cases ha0 : a = 0
  · subst ha0
    rw [if_neg (by simp), BranchDispatcher.search_eq_first d ms wf h]
    simp only [Nat.sub_zero]
    rw [Ref.findLoop, hmatch 0, if_pos rfl]
    cases hr : ms.findSome? (fun m => m.matchFrom h 0) with
    | some e => rfl
    | none =>
      simp only [Option.map_none]
      rw [findLoop_none]
      intro s' hs'
      rw [hmatch s', if_neg (by omega)]
  · rw [if_pos ha0, findLoop_none]
    intro s' hs'
    rw [hmatch s', if_neg (by omega)]

theorem branchDispatcher_isMatch_eq_reference (hasFold : Nat → Bool) (hf : FoldSound hasFold) (re : Re)
    (d : BranchDispatcher) (hd : metaBranchDispatcher hasFold re = some d) (hdepth : RefDepthOK re) (h : Bytes) :
    d.isMatch h = (Ref.refFind re h 0).isSome := by
  rw [← branchDispatcher_eq_reference hasFold hf re d hd hdepth h 0]
  rfl

/-! ### the first-byte filter as meta uses it -/

/-- a pattern `\A…` (a concatenation whose first element is `OpBeginText`) cannot match at an offset other than 0 -/
theorem matchAt_beginText_concat (re a : Re) (rest : List Re) (hop : re.op = .concat) (hsub : re.sub = a :: rest)
    (ha : a.op = .beginText) (h : Bytes) (s : Nat) (hs : s ≠ 0) : Ref.matchAt re h s = none := by
  unfold Ref.matchAt
  obtain ⟨F, hF⟩ : ∃ F', Ref.fuelFor re h = F' + 3 := ⟨Ref.fuelFor re h - 3, by unfold Ref.fuelFor; omega⟩
  rw [hF, Ref.run_one, hop]
  simp only []
  rw [hsub, Ref.run_seq_cons, Ref.run_one, ha]
  simp only []
  rw [if_neg hs]

/-- **the callers' shortcut** (meta/find.go, find_indices.go, ismatch.go, engine.go:
    `len(haystack) > 0 && !fb.Contains(haystack[0])` ⇒ "no match"): for EVERY pattern `\A…` with a first-byte set
    (side conditions `frag` as in `firstBytes_filter_sound`), a non-empty haystack whose first byte is not in the set has
    no match at all (at any offset, of any length). -/
theorem firstBytes_reject_sound (fo : Nat → List Nat) (hfo : OrbitSound fo) (re a : Re) (rest : List Re)
    (hop : re.op = .concat) (hsub : re.sub = a :: rest) (ha : a.op = .beginText) (fb : FirstByteSet)
    (hx : extractFirstBytes fo re = some fb) (frag : fbFrag 21 re = true) (h : Bytes) (hb : ∀ i, h.at i < 256)
    (hne : 0 < h.size) (hrej : fb.contains (h.at 0) = false) : Ref.refFind re h 0 = none := by
  unfold Ref.refFind
  apply findLoop_none
  intro s' _
  by_cases hs : s' = 0
  · subst hs
    cases hm : Ref.matchAt re h 0 with
    | none => rfl
    | some e =>
      have := firstBytes_filter_sound fo hfo re fb hx frag h hb hne e hm
      rw [hrej] at this
      exact nomatch this
  · exact matchAt_beginText_concat re a rest hop hsub ha h s' hs

/-- the shortcut for haystacks that begin with a well-formed rune: no condition on the literals of the pattern -/
theorem firstBytes_reject_sound_wellformed (fo : Nat → List Nat) (hfo : OrbitSound fo) (re a : Re) (rest : List Re)
    (hop : re.op = .concat) (hsub : re.sub = a :: rest) (ha : a.op = .beginText) (fb : FirstByteSet)
    (hx : extractFirstBytes fo re = some fb) (minOK : fbMinOK 21 re = true) (h : Bytes) (hb : ∀ i, h.at i < 256)
    (hne : 0 < h.size) (hwf : WellFormedAt h 0) (hrej : fb.contains (h.at 0) = false) : Ref.refFind re h 0 = none := by
  unfold Ref.refFind
  apply findLoop_none
  intro s' _
  by_cases hs : s' = 0
  · subst hs
    cases hm : Ref.matchAt re h 0 with
    | none => rfl
    | some e =>
      have := firstBytes_filter_sound_wellformed fo hfo re fb hx minOK h hb hne hwf e hm
      rw [hrej] at this
      exact nomatch this
  · exact matchAt_beginText_concat re a rest hop hsub ha h s' hs

end Cx.Fast
