import Cx.Proofs.CapsMulti
import Cx.Proofs.Pike
/-
  Cx.Proofs.Caps — capture-group positions: the theorems in one place.

  Reference `btCaps` (Cx.Model.Caps): leftmost start, first accepting path of the priority DFS, slots threaded along.
  (a) `btCaps_span`, `btCaps_none_iff`   group 0 of the reference is `btSearchAt`                 (Cx.Proofs.CapsBase)
  (b) `btCaps_wf`                        every slot of the reference: unset or inside the overall span (CapsBase)
      `btCaps_groups`                    under the decidable group discipline `labOK`: every group is unset or
                                         `s ≤ start ≤ end ≤ e`                                     (Cx.Proofs.CapsGroups)
      `ex_start_without_end`, `ex_end_before_start`   neither holds on arbitrary automata (decide)
      `pikeCaps_wf`, `pikeCaps_groups`   the same for the Pike VM's answer
  (c) `pikeCaps_eq_btCaps`               `SearchWithSlotTableCapturesAt` = reference for every `at ≤ len(haystack)`, up to the
                                         filter of `buildCapturesFromSlots` (`normCaps`); hypotheses as for
                                         `Pike.search_eq_bt`: `anchored N = false`, `SparseDisjoint N`, `RuneOK N h`
      `pikeCaps_eq_btCaps_groups`        … and exactly the reference under the group discipline  (Cx.Proofs.CapsGroups)
      `pikeCaps_anchored_eq`             automata flagged anchored: = `btCapsAnchored` at that start (Cx.Proofs.CapsAnchored)
      `ex_end_*_fixed`                   `at == len(haystack)`: the groups of an empty match are recorded (the code
                                         used to answer through `matchesEmptyAt` and keep group 0 only; fixed in 729c212)
  (d) one-pass DFA: Cx.Proofs.OnePass.
  Proof route for (c): transliterated code = clean model with per-thread slots (Cx.Proofs.CapsClean) = generation-wise
  search `RG` with a seeder pseudo-thread (Cx.Proofs.CapsMulti) = level-organised DFS `FG` (Cx.Proofs.CapsOrder)
  = DFS sharing one visited set among all starts = reference (Cx.Proofs.CapsBase).
-/
namespace Cx.Caps
open Cx Cx.Nfa
open Cx.Pike (Thread Vis clearVis anchored isMatchState closureFuel isBetter hasLeftmost matchesEmptyAt RuneOK succs
  sparseSuccs SparseDisjoint Rel)

/-- `buildCapturesFromSlots` applied to a finished slot array: groups ≥ 1 with a slot < 0 are reported unset -/
def normCaps : Slots → Slots
  | a :: b :: rest => a :: b :: normPairs rest
  | l => l

theorem normCaps_withSpan (s e : Nat) (sl : Slots) :
    normCaps (withSpan s e sl) = (s : Int) :: (e : Int) :: normPairs (sl.drop 2) := rfl

/-- the winner of the generation-wise search is a match thread -/
theorem RG_isM {T : Type} (step : Nat → T → Vis → Vis × List T) (isM : T → Bool) :
    ∀ (Ms : List Vis) (p : Nat) (Q : List T) (e : Nat) (t : T), (RG step isM Ms p Q).1 = some (e, t) → isM t = true := by
  have hhere : ∀ (p : Nat) (Q : List T) (e : Nat) (t : T), hereM isM p Q = some (e, t) → isM t = true := by
    intro p Q e t hh
    simp only [hereM, findM, Option.map_eq_some_iff] at hh
    obtain ⟨a, h1, h2⟩ := hh
    have := List.find?_some h1
    simp only [Prod.mk.injEq] at h2
    rw [← h2.2]; exact this
  intro Ms
  induction Ms with
  | nil => intro p Q e t hr; exact hhere p Q e t hr
  | cons W Ms ih =>
    intro p Q e t hr
    simp only [RG] at hr
    cases h1 : (RG step isM Ms (p + 1) (stepAllG step p (beforeM isM Q) W).2).1 with
    | some r =>
      rw [h1] at hr
      simp only [Option.some_or, Option.some.injEq] at hr
      subst hr
      exact ih _ _ _ _ h1
    | none =>
      rw [h1] at hr
      simp only [Option.none_or] at hr
      exact hhere p Q e t hr

theorem finish_resOf (n : Nat) (x : Option (Nat × QT)) (hx : ∀ e t, x = some (e, t) → t ≠ QT.seeder) :
    finishC n (x.map bestOf) = (resOf x).map normCaps := by
  cases x with
  | none => rfl
  | some r =>
    obtain ⟨e, t⟩ := r
    cases t with
    | thr M => rfl
    | seeder => exact absurd rfl (hx e _ rfl)

/-- (c) The capture search of the Pike VM returns the slots of the first accepting path of the priority DFS from
    the leftmost matching start — for every start offset `at ≤ len(haystack)`, the end of the haystack included.
    `normCaps` is the filter of `buildCapturesFromSlots`. -/
theorem pikeCaps_eq_btCaps {N : NFA} {h : Bytes} (hna : anchored N = false) (hd : SparseDisjoint N) (hR : RuneOK N h)
    {at_ : Nat} (hat : at_ ≤ h.size) (n : Nat) :
    pikeCaps N h at_ n = (btCaps N h at_ n).map normCaps := by
  unfold pikeCaps pikeCapsL
  rw [if_neg (by omega), hna]
  simp only [Bool.false_eq_true, ↓reduceIte]
  unfold searchCapsUnanchored
  -- the transliterated loop is the clean loop
  rw [loopCU_eq hR n (h.size + 1 - at_) at_ (initLS N n) [] none
    ⟨rfl, fun _ ht => by simp at ht⟩ (by simp [initLS, clearVis]) (by simp [initLS, freshTab])
    (by simp [initLS, freshTab])]
  -- the clean loop is the generation-wise search
  have hlive := loopKU_live N h n (h.size + 1 - at_) at_ [] (clearVis N) rfl (by omega) List.Pairwise.nil (by simp)
  simp only [initLS]
  rw [hlive]
  -- which is the level-organised DFS
  have hFR := FG_eq_RG (stepQ N h n) (isMQ N) (h.size - at_) (List.replicate (h.size - at_) (clearVis N)) (by simp)
    ((addThreadK N h at_ (seedCT N n at_) (clearVis N, [])).2.map QT.thr ++ [QT.seeder]) at_
  unfold RQ
  rw [← hFR.1]
  -- which is the shared-visited DFS, which is the reference
  have hrel := Pike.rel_fresh N h at_ (by omega) (h.size - at_ + 1) (by omega)
  have hpe : h.size + 1 - (h.size - at_ + 1) = at_ := by omega
  rw [hpe, List.replicate_succ] at hrel
  have hseed := seed_thm hd hR at_ n (h.size - at_) (List.replicate (h.size - at_) (clearVis N)) (by simp) at_
    (freshVis N h) (clearVis N) (h.size + 2 - at_) (Nat.le_refl _) (by simp; omega) hrel (freshVis_fuel N h)
    (by simp; omega)
  rw [btShared_eq] at hseed
  simp only [List.length_replicate] at hseed
  rw [hseed]
  unfold FQ
  apply finish_resOf
  intro e t hx ht
  subst ht
  rw [hFR.1] at hx
  have := RG_isM _ _ _ _ _ _ _ hx
  simp [isMQ] at this


/-! ### (b) for the Pike VM -/

theorem normPairs_spec : ∀ (l : Slots) (k : Nat), 
    (normPairs l).getD k (-1) = -1 ∨ (normPairs l).getD k (-1) = l.getD k (-1) := by
  intro l
  induction l using normPairs.induct with
  | case1 a b rest ih =>
    intro k
    rw [normPairs]
    split
    · match k with
      | 0 => right; rfl
      | 1 => right; rfl
      | k+2 =>
        simp only [List.cons_append, List.nil_append, List.getD_cons_succ]
        exact ih k
    · match k with
      | 0 => left; rfl
      | 1 => left; rfl
      | k+2 =>
        simp only [List.cons_append, List.nil_append, List.getD_cons_succ]
        exact ih k
  | case2 l hl =>
    intro k
    left
    rw [normPairs]
    · simp
    · exact hl

/-- (b) for the Pike VM: group 0 is a span inside `[at, len]`, every other slot is unset
    or an offset inside the overall span -/
theorem pikeCaps_wf {N : NFA} {h : Bytes} (hna : anchored N = false) (hd : SparseDisjoint N) (hR : RuneOK N h)
    {at_ : Nat} (hat : at_ ≤ h.size) {n : Nat} {sl : Slots} (hr : pikeCaps N h at_ n = some sl) :
    ∃ s e : Nat, at_ ≤ s ∧ s ≤ e ∧ e ≤ h.size ∧ sl.getD 0 0 = (s : Int) ∧ sl.getD 1 0 = (e : Int) ∧
      ∀ k, 2 ≤ k → sl.getD k (-1) = -1 ∨ ((s : Int) ≤ sl.getD k (-1) ∧ sl.getD k (-1) ≤ (e : Int)) := by
  rw [pikeCaps_eq_btCaps hna hd hR hat] at hr
  cases hb : btCaps N h at_ n with
  | none => rw [hb] at hr; cases hr
  | some sl0 =>
    rw [hb] at hr
    simp only [Option.map_some, Option.some.injEq] at hr
    obtain ⟨s, e, h1, h2, h3, g0, g1, hlen, hk⟩ := btCaps_wf hb
    match sl0, hlen, g0, g1, hk, hr with
    | [], hlen, _, _, _, _ => simp at hlen; omega
    | [_], hlen, _, _, _, _ => simp at hlen; omega
    | a :: b :: rest, _, g0, g1, hk, hr =>
      simp only [List.getD_cons_zero, List.getD_cons_succ] at g0 g1
      subst hr
      refine ⟨s, e, h1, h2, h3, by simp [normCaps, g0], by simp [normCaps, g1], ?_⟩
      intro k hk2
      obtain ⟨j, rfl⟩ : ∃ j, k = j + 2 := ⟨k - 2, by omega⟩
      simp only [normCaps, List.getD_cons_succ]
      rcases normPairs_spec rest j with h4 | h4
      · left; exact h4
      · rw [h4]
        have := hk (j+2) (by omega)
        simpa only [List.getD_cons_succ] using this


/-! ### when the filter of `buildCapturesFromSlots` is the identity -/

/-- every group has both slots set or both unset -/
def Paired : Slots → Prop
  | a :: b :: rest => ((a ≥ 0 ∧ b ≥ 0) ∨ (a = -1 ∧ b = -1)) ∧ Paired rest
  | [] => True
  | [_] => False

theorem normPairs_id : ∀ (l : Slots), Paired l → normPairs l = l := by
  intro l
  induction l using normPairs.induct with
  | case1 a b rest ih =>
    intro hp
    obtain ⟨h1, h2⟩ := hp
    rw [normPairs, ih h2]
    rcases h1 with h1 | ⟨rfl, rfl⟩
    · rw [if_pos h1]; rfl
    · rfl
  | case2 l hl =>
    intro hp
    match l, hl, hp with
    | [], _, _ => rfl
    | [_], _, hp => exact hp.elim
    | a :: b :: rest, hl, _ => exact absurd rfl (hl a b rest)

theorem normCaps_id {sl : Slots} (hp : Paired (sl.drop 2)) : normCaps sl = sl := by
  match sl, hp with
  | [], _ => rfl
  | [_], _ => rfl
  | a :: b :: rest, hp => simp only [normCaps]; rw [normPairs_id rest hp]

/-- (c) without the filter, when the reference's groups are paired (as they are for compiled automata, where a
    group's closing state is only reached through its opening state) -/
theorem pikeCaps_eq_btCaps_paired {N : NFA} {h : Bytes} (hna : anchored N = false) (hd : SparseDisjoint N)
    (hR : RuneOK N h) {at_ : Nat} (hat : at_ ≤ h.size) (n : Nat)
    (hp : ∀ sl, btCaps N h at_ n = some sl → Paired (sl.drop 2)) : pikeCaps N h at_ n = btCaps N h at_ n := by
  rw [pikeCaps_eq_btCaps hna hd hR hat]
  cases hb : btCaps N h at_ n with
  | none => rfl
  | some sl => simp only [Option.map_some]; rw [normCaps_id (hp sl hb)]

/-! ### witnesses -/

/-- `nfa.NewDefaultCompiler().Compile("()")` -/
def exEmptyGroup : NFA :=
  { states := #[.eps 1, .cap 1 false 3, .cap 1 true 0, .mtch, .byteRange 0 255 5, .split 2 4],
    startAnchored := 2, startUnanchored := 5 }

/-- `nfa.NewDefaultCompiler().Compile("(a*)")` -/
def exStarGroup : NFA :=
  { states := #[.byteRange 97 97 2, .eps 3, .split 0 1, .cap 1 false 5, .cap 1 true 2, .mtch, .byteRange 0 255 7,
      .split 4 6],
    startAnchored := 4, startUnanchored := 7 }

/-- `at == len(haystack)`: `()` on the empty haystack (regexp: [0 0 0 0]).  Before 729c212 the code answered
    [0 0 -1 -1] here; now code = reference. -/
theorem ex_end_ref : btCaps exEmptyGroup #[] 0 4 = some [0, 0, 0, 0] := by decide
theorem ex_end_pike_fixed : pikeCaps exEmptyGroup #[] 0 4 = some [0, 0, 0, 0] := by decide

/-- `(a*)` on "a" from offset 1 (regexp on "a"[1:]: [0 0 0 0], i.e. [1 1 1 1]; before 729c212: [1 1 -1 -1]) -/
theorem ex_end2_ref : btCaps exStarGroup #[97] 1 4 = some [1, 1, 1, 1] := by decide
theorem ex_end2_pike_fixed : pikeCaps exStarGroup #[97] 1 4 = some [1, 1, 1, 1] := by decide
theorem ex_mid_ref : btCaps exStarGroup #[97] 0 4 = some [0, 1, 0, 1] := by decide
theorem ex_mid_pike : pikeCaps exStarGroup #[97] 0 4 = some [0, 1, 0, 1] := by decide

/-- a hand-made automaton (not produced by the compiler): a group opened but never closed.  The reference keeps the
    start slot, `buildCapturesFromSlots` reports the group unset — `normCaps` in `pikeCaps_eq_btCaps` is needed. -/
def exOpenOnly : NFA :=
  { states := #[.cap 1 true 1, .mtch, .eps 0], startAnchored := 0, startUnanchored := 2 }

theorem ex_start_without_end : btCaps exOpenOnly #[97] 0 4 = some [0, 0, 0, -1] := by decide
theorem ex_start_without_end_pike : pikeCaps exOpenOnly #[97] 0 4 = some [0, 0, -1, -1] := by decide

/-- a hand-made automaton where a group's end precedes its start on the winning path: no order between the two
    slots of a group holds in general -/
def exEndFirst : NFA :=
  { states := #[.cap 1 false 1, .byteRange 97 97 2, .cap 1 true 3, .mtch, .eps 0], startAnchored := 0, startUnanchored := 4 }

theorem ex_end_before_start : btCaps exEndFirst #[97] 0 4 = some [0, 1, 1, 0] := by decide

/-! ### non-vacuity of (c) -/

theorem exStarGroup_anchored : anchored exStarGroup = false := by decide

theorem exStarGroup_get_cases (q : Nat) : (∀ ts, exStarGroup.get q ≠ .sparse ts) ∧
    (∀ nx, exStarGroup.get q ≠ .runeAny nx) ∧ (∀ nx, exStarGroup.get q ≠ .runeAnyNotNL nx) := by
  unfold NFA.get exStarGroup
  match q with
  | 0 => simp
  | 1 => simp
  | 2 => simp
  | 3 => simp
  | 4 => simp
  | 5 => simp
  | 6 => simp
  | 7 => simp
  | n+8 => simp

theorem exStarGroup_disjoint : SparseDisjoint exStarGroup :=
  fun q ts hk => absurd hk ((exStarGroup_get_cases q).1 ts)

theorem exStarGroup_norune (h : Bytes) : RuneOK exStarGroup h :=
  Or.inl fun q nx => ⟨(exStarGroup_get_cases q).2.1 nx, (exStarGroup_get_cases q).2.2 nx⟩

example : pikeCaps exStarGroup #[98, 97, 97] 0 4 = (btCaps exStarGroup #[98, 97, 97] 0 4).map normCaps :=
  pikeCaps_eq_btCaps exStarGroup_anchored exStarGroup_disjoint (exStarGroup_norune _) (by decide) 4

example : pikeCaps exStarGroup #[98, 97, 97] 3 4 = (btCaps exStarGroup #[98, 97, 97] 3 4).map normCaps :=
  pikeCaps_eq_btCaps exStarGroup_anchored exStarGroup_disjoint (exStarGroup_norune _) (by decide) 4

end Cx.Caps
