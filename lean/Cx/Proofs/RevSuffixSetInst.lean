import Cx.Proofs.RevSuffixSet
import Cx.Proofs.RevSuffixInst
/-
  Cx.Proofs.RevSuffixSetInst — the reverse-suffix-set strategy theorem with the REAL component models plugged in, exactly as
  `Cx.Proofs.RevSuffixInst` does for the single-suffix strategy:

    Mt := Accepts N,  ref := btSearchAt N,  fwdEnd := the lazy DFA model (`RevSuffix.fwdOracle`),  pike := the Pike VM model,
    pfFind := the naive multi-literal search `refPfFindSet lits`,
    necessity := the verified literal checker, `Lit.checkSuffix N (lits.map Array.toList) = true`   (`Lit.checkSuffix_sound`),
    reverse DFA: the contract `RevSuffix.RevDfaContract` on `Rev.reverse N false` (satisfiable: `RevSuffix.specRev_contract`).
-/
namespace Cx.RevSuffixSet
open Cx Cx.Nfa
open Cx.RevSuffix (RevAnswer Occ RevDfaContract NfaHyp revAcc_iff)

/-- the searcher over the component models; the reverse DFA is a parameter -/
def realOracles (N : NFA) (cfg : Dfa.Config) (lits : List Bytes) (revL : Bytes → Nat → Nat → Nat → RevAnswer)
    (revF : Bytes → Nat → Nat → Option Nat) : RevSuffix.Oracles :=
  { RevSuffix.realOracles N cfg #[] revL revF with pfFind := refPfFindSet lits }

theorem realOracles_spec {N : NFA} {cfg : Dfa.Config} (H : NfaHyp N cfg) {P : Params} (hL : ∀ l, l ∈ P.lits → 0 < l.size)
    (hlit : Lit.checkSuffix N (P.lits.map Array.toList) = true)
    (hlb : P.lineBounded = true → ∀ (h : Bytes) s e, s ≤ h.size → Accepts N h s e → ∀ i, s ≤ i → i < e → h.at i ≠ 10)
    {revL : Bytes → Nat → Nat → Nat → RevAnswer} {revF : Bytes → Nat → Nat → Option Nat}
    {h : Bytes} (hb : Dfa.BytesOK h) (C : RevDfaContract N revL revF h) :
    Spec (realOracles N cfg P.lits revL revF) P (Accepts N) (btSearchAt N) h := by
  have hd := Dfa.sparseDisjoint_of_B H.sd
  have hR : Pike.RuneOK N h := Or.inl (Dfa.noRune_of_B H.rev.nr)
  have hpos : ∀ {s e : Nat}, s ≤ h.size → Accepts N h s e → s ≤ e ∧ e ≤ h.size := fun hs ha => reaches_pos_le ha hs
  exact {
    ref_sound := by
      intro a s e _ hr
      obtain ⟨b1, b2, b3, b4⟩ := btSearchAt_sound N h a s e hr
      exact ⟨b1, by omega, b4⟩
    ref_leftmost := by
      intro a s e ha hr s' e' g1 g2
      apply Classical.byContradiction
      intro hlt
      exact (btSearchAt_leftmost N h a ha).1 s e hr s' e' g1 (by omega) g2
    ref_none := fun a ha hr s e g1 g2 => (btSearchAt_leftmost N h a ha).2 hr s e g1 g2
    lit_pos := hL
    pf_some := by
      intro st p _ hf
      obtain ⟨f1, ⟨l, hl, ho⟩, f3⟩ := refPfFindSet_some (lits := P.lits) hf
      have := ho.1
      have := hL l hl
      exact ⟨f1, by omega, f3⟩
    pf_none := fun st _ hf => refPfFindSet_none (lits := P.lits) hf
    necessity := by
      intro s e hs ha
      obtain ⟨l, hl, hsuf⟩ := Lit.checkSuffix_sound N _ hlit h s e hs ha
      obtain ⟨b, hb', rfl⟩ := List.mem_map.mp hl
      obtain ⟨p1, p2⟩ := hpos hs ha
      obtain ⟨o1, o2⟩ := RevSuffix.occ_of_suffix p1 p2 hsuf
      exact ⟨p2, b, hb', o1, o2⟩
    revL_found := by
      intro lo e m s hlo he hr
      obtain ⟨c1, c2, c3, c4⟩ := C.lim_found lo e m s hlo he hr
      refine ⟨c1, c2, (revAcc_iff H h (by omega) he).mp c3, ?_⟩
      intro s' g1 g2
      apply Classical.byContradiction
      intro hlt
      exact c4 s' g1 (by omega) ((revAcc_iff H h (by omega) he).mpr g2)
    revL_none := by
      intro lo e m hlo he hr s' g1 g2 g3
      have := (hpos g2 g3).1
      exact C.lim_none lo e m hlo he hr s' g1 this ((revAcc_iff H h g2 he).mpr g3)
    revF_some := by
      intro lo e s hlo he hr
      obtain ⟨c1, c2, c3, c4⟩ := C.full_some lo e s hlo he hr
      refine ⟨c1, (revAcc_iff H h (by omega) he).mp c3, ?_⟩
      intro s' g1 g2 g3
      apply Classical.byContradiction
      intro hlt
      exact c4 s' g1 (by omega) ((revAcc_iff H h g2 he).mpr g3)
    fwd := by
      intro a ha
      show RevSuffix.fwdOracle N cfg h a = _
      unfold RevSuffix.fwdOracle
      have hok : Dfa.apiSearchAtU N cfg h a = .ok ((btSearchAt N h a).map (·.2)) := by
        by_cases hlt : a < h.size
        · unfold Dfa.apiSearchAtU
          rw [if_neg (by omega), if_neg (by omega)]
          exact Dfa.searchAtU_eq_bt' H.rev.wf H.rev.nr H.sd H.pre cfg H.brk H.lim hb ha
        · have : a = h.size := by omega
          subst this
          exact Dfa.apiSearchAtU_end N cfg h
      rw [hok]
    pike := fun a ha => Pike.search_eq_bt H.una hd hR ha
    lb_nl := fun hl s e hs ha => hlb hl h s e hs ha
    lb_restart := fun _ a a' s e ha hr g1 g2 => RevSuffix.btSearchAt_restart hd hR ha hr g1 g2 }

/-- **the strategy over the real component models is the reference search** (`matchStartZero = false`) -/
theorem C14_revSuffixSet_find_eq_reference {N : NFA} {cfg : Dfa.Config} (H : NfaHyp N cfg) {P : Params}
    (hL : ∀ l, l ∈ P.lits → 0 < l.size) (hmz : P.matchStartZero = false)
    (hlit : Lit.checkSuffix N (P.lits.map Array.toList) = true)
    (hlb : P.lineBounded = true → ∀ (h : Bytes) s e, s ≤ h.size → Accepts N h s e → ∀ i, s ≤ i → i < e → h.at i ≠ 10)
    {revL : Bytes → Nat → Nat → Nat → RevAnswer} {revF : Bytes → Nat → Nat → Option Nat}
    {h : Bytes} (hb : Dfa.BytesOK h) (C : RevDfaContract N revL revF h) {at_ : Nat} (hat : at_ ≤ h.size) :
    findIndicesAt (realOracles N cfg P.lits revL revF) P h at_ = btSearchAt N h at_ :=
  findIndicesAt_eq_ref (realOracles_spec H hL hlit hlb hb C) hmz hat

/-! ### closed instance: `[a-z]+(?:ab|cd)`, every hypothesis decided -/

/-- `[a-z]+(?:ab|cd)` as the compiler model emits it -/
def exSetN : NFA :=
  { states := #[.byteRange 97 122 2, .eps 7, .split 0 1, .byteRange 97 97 4, .byteRange 98 98 8, .byteRange 99 99 6,
                .byteRange 100 100 8, .split 3 5, .eps 9, .mtch, .byteRange 0 255 11, .split 0 10],
    startAnchored := 0, startUnanchored := 11 }

theorem exSetN_hyp : NfaHyp exSetN Dfa.Config.plain :=
  { rev := Rev.revHyp_of_B (by decide), sd := by decide, pre := Or.inl (by decide), una := by decide, brk := rfl, lim := by decide }

theorem exSetN_suffix : Lit.checkSuffix exSetN [[97, 98], [99, 100]] = true := by decide +kernel

theorem exSetN_noNL : RevSuffix.checkNoByte exSetN 10 = true := by decide +kernel

/-- **`[a-z]+(?:ab|cd)`, closed**: the strategy with `lineBounded = true`, the compiled automaton, the lazy-DFA model as forward
    oracle, the Pike model as fallback and specification-level reverse searches returns the reference's span on every
    haystack of bytes, from every offset -/
theorem C14_revSuffixSet_closed_instance {h : Bytes} (hb : Dfa.BytesOK h) {at_ : Nat} (hat : at_ ≤ h.size) :
    findIndicesAt (realOracles exSetN Dfa.Config.plain [#[97, 98], #[99, 100]] (RevSuffix.specRevLimited exSetN)
        (RevSuffix.specRevFull exSetN)) { lits := [#[97, 98], #[99, 100]], lineBounded := true } h at_ = btSearchAt exSetN h at_ :=
  C14_revSuffixSet_find_eq_reference (P := { lits := [#[97, 98], #[99, 100]], lineBounded := true }) exSetN_hyp
    (by intro l hl; simp only [List.mem_cons, List.not_mem_nil, or_false] at hl; rcases hl with rfl | rfl <;> decide) rfl
    exSetN_suffix (fun _ h s e hs ha => RevSuffix.checkNoByte_sound exSetN_noNL h s e hs ha) hb
    (RevSuffix.specRev_contract exSetN_hyp h) hat

end Cx.RevSuffixSet
