import Cx.Proofs.OnePassSem
/-
  Cx.Proofs.OnePass — the one-pass DFA (`dfa/onepass`, model `Cx.Model.OnePass`): the theorems in one place.

    `search_eq_arun`      (Cx.Proofs.OnePassBuild) `build N = some T → search T h n = arunSearch N h n`:
                          the memoised builder with its state numbering and flat table computes the run over NFA roots
                          (closure of the root, one transition per byte class, the anchored start as the dead state).
    `onepass_eq_btCaps`   (Cx.Proofs.OnePassSem) (d): when the anchored reference matches the WHOLE input, the one-pass
                          DFA returns exactly the reference's slots (hypotheses: `strictRows`, `noBackToStart`,
                          `noCap0`, `noRuneB`, `2 ≤ nslots ≤ 32`).
  The equality with the reference does NOT hold in general — the model follows the code:
    `ex_lazy_*`      the match-wins flag is never set, so the DFA only answers at the end of the input and ignores
                     leftmost-first priorities: `(a+?)` on "aa" gives [0 2 0 2], regexp gives [0 1 0 1];
    `ex_wordb_*`     look-around states are followed unconditionally: `(\b)` on "" gives [0 0 0 0], regexp: no match;
                     `(a)\b(b)` on "ab" gives [0 2 0 1 1 2], regexp: no match;
    `ex_startloop_*` DFA state 0 is both the start state and `DeadState`: `a*(b)` on "ab" gives no match
                     (regexp: [0 2 1 2]).
-/
namespace Cx.Caps.OnePass
open Cx Cx.Nfa

/-- anchored compile of `(a+?)` -/
def exLazy : NFA :=
  { states := #[.byteRange 97 97 2, .eps 3, .split 1 0, .cap 1 false 5, .cap 1 true 0, .mtch],
    startAnchored := 4, startUnanchored := 4 }

/-- anchored compile of `(\b)` -/
def exWordB : NFA :=
  { states := #[.look .wordB 1, .cap 1 false 3, .cap 1 true 0, .mtch], startAnchored := 2, startUnanchored := 2 }

/-- anchored compile of `(a)\b(b)` -/
def exMidB : NFA :=
  { states := #[.byteRange 97 97 1, .cap 1 false 3, .cap 1 true 0, .look .wordB 6, .byteRange 98 98 5, .cap 2 false 7,
      .cap 2 true 4, .mtch],
    startAnchored := 2, startUnanchored := 2 }

/-- anchored compile of `a*(b)` -/
def exStartLoop : NFA :=
  { states := #[.byteRange 97 97 2, .eps 5, .split 0 1, .byteRange 98 98 4, .cap 1 false 6, .cap 1 true 3, .mtch],
    startAnchored := 2, startUnanchored := 2 }

/-- anchored compile of `(a)(b)` -/
def exAB : NFA :=
  { states := #[.byteRange 97 97 1, .cap 1 false 5, .cap 1 true 0, .byteRange 98 98 4, .cap 2 false 6, .cap 2 true 3,
      .mtch],
    startAnchored := 2, startUnanchored := 2 }

def runOnePass (N : NFA) (h : Bytes) (n : Nat) : Option (Option Slots) := (buildFor N n).map fun T => search T h n

theorem ex_lazy_onepass : runOnePass exLazy #[97, 97] 4 = some (some [0, 2, 0, 2]) := by decide +kernel
theorem ex_lazy_ref : btCapsAnchored exLazy #[97, 97] 0 4 = some [0, 1, 0, 1] := by decide

theorem ex_wordb_onepass : runOnePass exWordB #[] 4 = some (some [0, 0, 0, 0]) := by decide +kernel
theorem ex_wordb_ref : btCapsAnchored exWordB #[] 0 4 = none := by decide

theorem ex_midb_onepass : runOnePass exMidB #[97, 98] 6 = some (some [0, 2, 0, 1, 1, 2]) := by decide +kernel
theorem ex_midb_ref : btCapsAnchored exMidB #[97, 98] 0 6 = none := by decide

theorem ex_startloop_onepass : runOnePass exStartLoop #[97, 98] 4 = some none := by decide +kernel
theorem ex_startloop_ref : btCapsAnchored exStartLoop #[97, 98] 0 4 = some [0, 2, 1, 2] := by decide
theorem ex_startloop_hyp : noBackToStart exStartLoop = false := by decide

/-! ### non-vacuity of (d) -/

theorem exAB_builds : (build exAB).isSome = true := by decide +kernel

example (T : Table) (hb : build exAB = some T) : search T #[97, 98] 6 = some [0, 2, 0, 1, 1, 2] :=
  onepass_eq_btCaps hb (by decide +kernel) (by decide) (by decide) (by decide) (by decide) (by decide)
    (by decide : btCapsAnchored exAB #[97, 98] 0 6 = some [0, 2, 0, 1, 1, 2]) (by decide)

end Cx.Caps.OnePass
