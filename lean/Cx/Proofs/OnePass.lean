import Cx.Proofs.OnePassSem
/-
  Cx.Proofs.OnePass — the one-pass DFA (`dfa/onepass`, model `Cx.Model.OnePass`): the theorems in one place.

    `search_eq_orun`, `searchLongest_eq_orun`  (Cx.Proofs.OnePassBuild) `build N = some T → search T h n = orunSearch N h n false`:
                          the memoised builder with its state numbering (state 0 = dead state), flat table and 64-bit
                          transition word computes the run over NFA roots (closure of the root, one transition per
                          byte class).
    `guard_spec`          (Cx.Proofs.OnePassLook) what `hasUnsupportedLook` guarantees.
    `epsClosure_spec`     (Cx.Proofs.OnePassClosure) what a finished `epsilonClosureOnePass` guarantees.
    `refFind_unfold`      (Cx.Proofs.OnePassRef) the reference DFS without its visited set.
    `onepass_eq_btCaps`   (Cx.Proofs.OnePassSem) `buildFor N n = some T → 2 ≤ n → (∀ i, h.at i < 256) →
                          search T h n = btCapsAnchored N h 0 n`: soundness and completeness at once, no condition on
                          where the match ends, end looks (`\z`, `$`) and start looks at offset 0 included.
  The deviations of the code before 4f5a457 / 2d44821 are gone; the same automata now give (`*_fixed`):
    `ex_lazy_*`      `(a+?)` on "aa": [0 1 0 1] (was [0 2 0 2]: the match-wins flag was never set);
    `ex_wordb_*`, `ex_midb_*`   `(\b)`, `(a)\b(b)`: the build is rejected (look-around was followed unconditionally);
    `ex_startloop_*` `a*(b)` on "ab": [0 2 1 2] (was nil: DFA state 0 was both the start state and `DeadState`).
-/
namespace Cx.Caps.OnePass
open Cx Cx.Nfa

/-- anchored compile of `(a+?)` -/
def exLazy : NFA :=
  { states := #[.byteRange 97 97 2, .eps 3, .split 1 0, .cap 1 false 5, .cap 1 true 0, .mtch],
    startAnchored := 4, startUnanchored := 4 }

/-- anchored compile of `(\b)` -/
def exWordB : NFA :=
  { states := #[.look .wordB 1, .cap 1 false 3, .cap 1 true 0, .mtch], startAnchored := 2, startUnanchored := 2 }

/-- anchored compile of `(a)\b(b)` -/
def exMidB : NFA :=
  { states := #[.byteRange 97 97 1, .cap 1 false 3, .cap 1 true 0, .look .wordB 6, .byteRange 98 98 5, .cap 2 false 7,
      .cap 2 true 4, .mtch],
    startAnchored := 2, startUnanchored := 2 }

/-- anchored compile of `a*(b)` -/
def exStartLoop : NFA :=
  { states := #[.byteRange 97 97 2, .eps 5, .split 0 1, .byteRange 98 98 4, .cap 1 false 6, .cap 1 true 3, .mtch],
    startAnchored := 2, startUnanchored := 2 }

/-- anchored compile of `(a)(b)` -/
def exAB : NFA :=
  { states := #[.byteRange 97 97 1, .cap 1 false 5, .cap 1 true 0, .byteRange 98 98 4, .cap 2 false 6, .cap 2 true 3,
      .mtch],
    startAnchored := 2, startUnanchored := 2 }

/-- anchored compile of `(a)$` (an end look: `atEnd` / `endMatches`) -/
def exEndLook : NFA :=
  { states := #[.byteRange 97 97 1, .cap 1 false 3, .cap 1 true 0, .look .endText 4, .mtch],
    startAnchored := 2, startUnanchored := 2 }

def runOnePass (N : NFA) (h : Bytes) (n : Nat) : Option (Option Slots) := (buildFor N n).map fun T => search T h n

theorem ex_lazy_onepass_fixed : runOnePass exLazy #[97, 97] 4 = some (some [0, 1, 0, 1]) := by decide +kernel
theorem ex_lazy_ref : btCapsAnchored exLazy #[97, 97] 0 4 = some [0, 1, 0, 1] := by decide

theorem ex_wordb_onepass_fixed : buildFor exWordB 4 = none := by decide +kernel
theorem ex_wordb_ref : btCapsAnchored exWordB #[] 0 4 = none := by decide

theorem ex_midb_onepass_fixed : buildFor exMidB 6 = none := by decide +kernel
theorem ex_midb_ref : btCapsAnchored exMidB #[97, 98] 0 6 = none := by decide

theorem ex_startloop_onepass_fixed : runOnePass exStartLoop #[97, 98] 4 = some (some [0, 2, 1, 2]) := by decide +kernel
theorem ex_startloop_ref : btCapsAnchored exStartLoop #[97, 98] 0 4 = some [0, 2, 1, 2] := by decide

/-- `(a)$`: a match only at the end of the input -/
theorem ex_endlook_onepass : runOnePass exEndLook #[97] 4 = some (some [0, 1, 0, 1]) ∧
    runOnePass exEndLook #[97, 97] 4 = some none := by decide +kernel
theorem ex_endlook_ref : btCapsAnchored exEndLook #[97] 0 4 = some [0, 1, 0, 1] ∧
    btCapsAnchored exEndLook #[97, 97] 0 4 = none := by decide

/-! ### non-vacuity of `onepass_eq_btCaps` -/

theorem exAB_builds : (buildFor exAB 6).isSome = true := by decide +kernel
theorem exLazy_builds : (buildFor exLazy 4).isSome = true := by decide +kernel
theorem exEndLook_builds : (buildFor exEndLook 4).isSome = true := by decide +kernel

theorem bytes_ab : ∀ i, Bytes.at #[97, 98] i < 256 := by
  intro i
  match i with
  | 0 => decide
  | 1 => decide
  | i+2 => simp [Bytes.at]

example (T : Table) (hb : buildFor exAB 6 = some T) : search T #[97, 98] 6 = some [0, 2, 0, 1, 1, 2] := by
  rw [onepass_eq_btCaps hb (by decide) bytes_ab]
  decide

end Cx.Caps.OnePass
