import Cx.Model.Nfa
import Cx.Spec.Regex
import Cx.Model.Compile
import Cx.Proofs.Nfa
/-
  Cx.Proofs.Compile — the Thompson construction of `nfa/compile.go` (model: Cx.Model.Compile) against the
  declarative semantics of the AST (Cx.Spec.Regex).  Core-only.

  Main results
    compile_lang            compileTop cfg re = some N → AltOK re → N.states.size ≤ 0xFFFFFFFF →
                              (Accepts N h i j ↔ M re h i j)                     for every h, i, j
    compile_lang_unanchored the same for the unanchored start state: `M re h i j` when the configuration or the pattern
                              (`\A…`) is anchored, else `∃ i' ∈ [i, |h|], M re h i' j`  (bytes ≤ 0xFF, i ≤ |h|)
    compile_total           Supported re → depth re ≤ fuel → compile fuel re b succeeds      (fuel = MaxRecursionDepth)
    compile_depth           compile fuel re b succeeds → depth re ≤ fuel                      (so: iff, compile_isSome_iff)
    compileTop_total        … and then `CompileRegexp` succeeds (`Builder.Validate` never rejects the result) unless the
                              automaton has ≥ 2³² - 3 states
    compile_shape           every fragment: old states untouched, start/end among the new states, end patchable,
                              no target beyond the builder (`TOK`)

  Method.  `FragSem N h s T R`: in the final automaton `N`, the sub-automaton entered at `s` whose exit leads to `T`
  has language `R` — completeness as a path `(s,i) →* (T,j)`, soundness on counted paths: every path from `(s,i)` to a
  match state factors through `(T,k)` with `R i k` and is strictly shorter from there (this is what makes the loop of
  `x*` an induction on the path length).  `Realizes N b lo hi e T`: `N` carries the states `[lo,hi)` of builder `b`,
  the dangling exit `e` patched to `T`.  `compile_sem` (induction on the recursion fuel) shows `FragSem` for every
  automaton that realizes the fragment; the helpers of the compiler take the recursive call as a parameter, so each has
  its own lemma (`compileStar_ok`, `concatLoop_ok`, …) over an arbitrary `f` with `ShapeOK f` / `SemOK h f`.

  `x{m,n}` (`compileRepeatRange`, nested optionals built iteratively): while the second loop runs, the part built so
  far has two dangling exits — the end `en` of the last copy and the shared `final` epsilon — so its invariant `OptOK`
  is stated against a continuation: whatever `en` gets connected to (language `R` from there to the target of `final`),
  the language from the start is `F R`; one more optional copy turns `F` into `F ∘ (x·_ ∨ ε)` (`optNest`), and the
  last `connect(end, final)` instantiates `R` with ε.  `x{m,}` (m ≥ 1) goes through `compileConcat` with the synthetic
  `OpPlus` (`compileRepeatMin_eq`).
-/
namespace Cx.Compile
open Cx Cx.Nfa Cx.Regex

/-! ### builder algebra -/

/-- arithmetic over builder sizes -/
macro "sz" : tactic => `(tactic| ((try simp only [Array.size_push] at *) <;> omega))

theorem get_push (b : Builder) (s : NState) (q : Nat) :
    Builder.get (b.push s) q = if q = b.size then s else b.get q := by
  unfold Builder.get
  by_cases h1 : q < b.size
  · have : q ≠ b.size := by omega
    simp [Array.getD, Array.getElem_push, h1, this, Nat.lt_succ_of_lt h1]
  · by_cases h2 : q = b.size
    · subst h2; simp [Array.getD]
    · have : ¬ q < b.size + 1 := by omega
      simp [Array.getD, h1, h2, this]

theorem get_push_lt {b : Builder} {s : NState} {q : Nat} (h : q < b.size) : Builder.get (b.push s) q = b.get q := by
  rw [get_push, if_neg (by omega)]

theorem get_push_ne {b : Builder} {s : NState} {q : Nat} (h : q ≠ b.size) : Builder.get (b.push s) q = b.get q := by
  rw [get_push, if_neg h]

theorem get_push_eq (b : Builder) (s : NState) : Builder.get (b.push s) b.size = s := by
  rw [get_push, if_pos rfl]

theorem get_oob {b : Builder} {q : Nat} (h : b.size ≤ q) : b.get q = .fail := by
  unfold Builder.get; simp [Array.getD]; omega

theorem get_set (b : Builder) (e : Nat) (s : NState) (he : e < b.size) (q : Nat) :
    Builder.get (b.setIfInBounds e s) q = if q = e then s else b.get q := by
  unfold Builder.get
  by_cases h1 : q < b.size
  · by_cases h2 : q = e
    · subst h2; simp [Array.getD, h1]
    · have : e ≠ q := fun h => h2 h.symm
      simp [Array.getD, h1, h2, this]
  · have : q ≠ e := by omega
    simp [Array.getD, h1, this]

structure PatchOK (b : Builder) (e t : Nat) (b' : Builder) : Prop where
  lt : e < b.size
  pat : patchable (b.get e) = true
  size : b'.size = b.size
  get : ∀ q, b'.get q = if q = e then setNext (b.get e) t else b.get q

theorem patch_some {b : Builder} {e t : Nat} {b' : Builder} (h : patch b e t = some b') : PatchOK b e t b' := by
  unfold patch at h
  split at h
  · rename_i hc
    cases h
    exact ⟨hc.1, hc.2, by simp, fun q => get_set b e _ hc.1 q⟩
  · cases h

theorem patch_of {b : Builder} {e : Nat} (t : Nat) (he : e < b.size) (hp : patchable (b.get e) = true) :
    ∃ b', patch b e t = some b' := by
  unfold patch
  rw [if_pos ⟨he, hp⟩]
  exact ⟨_, rfl⟩

theorem PatchOK.get_ne {b : Builder} {e t : Nat} {b' : Builder} (h : PatchOK b e t b') {q : Nat} (hq : q ≠ e) :
    b'.get q = b.get q := by rw [h.get, if_neg hq]

theorem PatchOK.get_eq {b : Builder} {e t : Nat} {b' : Builder} (h : PatchOK b e t b') :
    b'.get e = setNext (b.get e) t := by rw [h.get, if_pos rfl]

theorem patchable_setNext (s : NState) (t : Nat) : patchable (setNext s t) = patchable s := by
  cases s <;> rfl

theorem setNext_setNext (s : NState) (t t' : Nat) : setNext (setNext s t) t' = setNext s t' := by
  cases s <;> rfl

theorem patchOrEps_some {b : Builder} {e t : Nat} {b' : Builder} (he : e < b.size)
    (h : patchOrEps b e t = some b') : PatchOK b e t b' := by
  unfold patchOrEps at h
  split at h
  · rename_i b'' hp
    cases h
    exact patch_some hp
  · rename_i hp
    exfalso
    have h2 := patch_some h
    have hpat := h2.pat
    rw [get_push_lt he] at hpat
    obtain ⟨x, hx⟩ := patch_of t he hpat
    rw [hx] at hp
    cases hp

theorem patchOrEps_of {b : Builder} {e : Nat} (t : Nat) (he : e < b.size) (hp : patchable (b.get e) = true) :
    ∃ b', patchOrEps b e t = some b' := by
  obtain ⟨b', h⟩ := patch_of t he hp
  exact ⟨b', by unfold patchOrEps; rw [h]⟩

/-- `b` is a prefix of `b'` -/
structure Ext (b b' : Builder) : Prop where
  size : b.size ≤ b'.size
  get : ∀ q, q < b.size → b'.get q = b.get q

theorem Ext.refl (b : Builder) : Ext b b := ⟨Nat.le_refl _, fun _ _ => rfl⟩

theorem Ext.trans {a b c : Builder} (h1 : Ext a b) (h2 : Ext b c) : Ext a c :=
  ⟨Nat.le_trans h1.size h2.size, fun q hq => by rw [h2.get q (Nat.lt_of_lt_of_le hq h1.size), h1.get q hq]⟩

theorem Ext.push (b : Builder) (s : NState) : Ext b (b.push s) :=
  ⟨by simp, fun _ hq => get_push_lt hq⟩

theorem Ext.patch {b0 b b' : Builder} {e t : Nat} (h : Ext b0 b) (hp : PatchOK b e t b') (he : b0.size ≤ e) : Ext b0 b' :=
  ⟨by rw [hp.size]; exact h.size, fun q hq => by rw [hp.get_ne (by omega), h.get q hq]⟩

/-! ### the invariant `Builder.Validate` checks: no target beyond the states built so far -/

theorem refOK_mono {n n' t : Nat} (h : refOK n t = true) (hn : n ≤ n') : refOK n' t = true := by
  unfold refOK at *
  simp only [Bool.or_eq_true, beq_iff_eq, decide_eq_true_eq] at *
  omega

theorem refOK_lt {n t : Nat} (h : t < n) : refOK n t = true := by
  unfold refOK; simp [h]

theorem refOK_invalid (n : Nat) : refOK n invalid = true := by
  unfold refOK; simp

theorem stateTargetsOK_mono {n n' : Nat} {s : NState} (h : stateTargetsOK n s = true) (hn : n ≤ n') :
    stateTargetsOK n' s = true := by
  cases s with
  | split l r =>
    simp only [stateTargetsOK, Bool.and_eq_true] at *
    exact ⟨refOK_mono h.1 hn, refOK_mono h.2 hn⟩
  | sparse ts =>
    simp only [stateTargetsOK, List.all_eq_true] at *
    exact fun t ht => refOK_mono (h t ht) hn
  | mtch => rfl
  | fail => rfl
  | _ => exact refOK_mono (by simpa only [stateTargetsOK] using h) hn

theorem stateTargetsOK_setNext {n t : Nat} {s : NState} (h : stateTargetsOK n s = true) (ht : refOK n t = true) :
    stateTargetsOK n (setNext s t) = true := by
  cases s <;> first | exact ht | exact h

/-- every target is `InvalidState` or an existing state -/
def TOK (b : Builder) : Prop := ∀ q, q < b.size → stateTargetsOK b.size (b.get q) = true

theorem TOK.push {b : Builder} (t : TOK b) {s : NState} (hs : stateTargetsOK (b.size + 1) s = true) : TOK (b.push s) := by
  intro q hq
  have hsz : (b.push s).size = b.size + 1 := by simp
  rw [hsz] at hq ⊢
  by_cases h : q = b.size
  · subst h; rw [get_push_eq]; exact hs
  · rw [get_push_ne h]; exact stateTargetsOK_mono (t q (by omega)) (by omega)

theorem TOK.patch {b b' : Builder} {e tgt : Nat} (t : TOK b) (p : PatchOK b e tgt b') (ht : refOK b.size tgt = true) :
    TOK b' := by
  intro q hq
  rw [p.size] at hq ⊢
  rw [p.get]
  split
  · exact stateTargetsOK_setNext (t e p.lt) ht
  · exact t q hq

theorem tok_eps (n : Nat) : stateTargetsOK n (.eps invalid) = true := refOK_invalid n

theorem tok_byteRange (n lo hi : Nat) : stateTargetsOK n (.byteRange lo hi invalid) = true := refOK_invalid n

theorem tok_cap (n idx : Nat) (st : Bool) : stateTargetsOK n (.cap idx st invalid) = true := refOK_invalid n

theorem tok_cap_lt {n idx t : Nat} (st : Bool) (h : t < n) : stateTargetsOK n (.cap idx st t) = true := refOK_lt h

theorem tok_quantSplit {n : Nat} (g : Bool) {x y : Nat} (hx : x < n) (hy : y < n) :
    stateTargetsOK n (quantSplit g x y) = true := by
  cases g <;> simp [quantSplit, stateTargetsOK, refOK_lt hx, refOK_lt hy]

theorem tok_iff_all (b : Builder) : b.all (stateTargetsOK b.size) = true ↔ TOK b := by
  rw [Array.all_eq_true]
  constructor
  · intro h q hq
    have := h q hq
    unfold Builder.get
    simpa [Array.getD, hq] using this
  · intro h q hq
    have := h q hq
    unfold Builder.get at this
    simpa [Array.getD, hq] using this

/-- what every successful `compileX` guarantees about the builder, whatever its size -/
structure Shape (b b' : Builder) (s e : Nat) : Prop where
  ext : Ext b b'
  s_lo : b.size ≤ s
  s_hi : s < b'.size
  e_lo : b.size ≤ e
  e_hi : e < b'.size
  pat : patchable (b'.get e) = true
  tok : TOK b → TOK b'

/-! ### counted paths and state-wise inversion -/

inductive StepsN (N : NFA) (h : Bytes) : Nat → Nat × Nat → Nat × Nat → Prop where
  | refl (c) : StepsN N h 0 c c
  | cons {n a b c} : Step N h a b → StepsN N h n b c → StepsN N h (n+1) a c

theorem steps_of_stepsN {N : NFA} {h : Bytes} {n : Nat} {a c : Nat × Nat} (s : StepsN N h n a c) : Steps N h a c := by
  induction s with
  | refl c => exact Steps.refl c
  | cons st _ ih => exact Steps.cons st ih

theorem stepsN_of_steps {N : NFA} {h : Bytes} {a c : Nat × Nat} (s : Steps N h a c) : ∃ n, StepsN N h n a c := by
  induction s with
  | refl c => exact ⟨0, StepsN.refl c⟩
  | cons st _ ih =>
    obtain ⟨n, hn⟩ := ih
    exact ⟨n+1, StepsN.cons st hn⟩

theorem Steps.trans' {N : NFA} {h : Bytes} {a b c : Nat × Nat} (s1 : Steps N h a b) (s2 : Steps N h b c) : Steps N h a c := by
  induction s1 with
  | refl _ => exact s2
  | cons st _ ih => exact Steps.cons st (ih s2)

theorem Steps.one {N : NFA} {h : Bytes} {a b : Nat × Nat} (s : Step N h a b) : Steps N h a b :=
  Steps.cons s (Steps.refl _)

/-- a counted path from a non-match state to a match state starts with a step -/
theorem stepsN_first {N : NFA} {h : Bytes} {n q i m j : Nat} (s : StepsN N h n (q, i) (m, j))
    (hm : N.get m = .mtch) (hq : N.get q ≠ .mtch) :
    ∃ n' q' i', n = n' + 1 ∧ Step N h (q, i) (q', i') ∧ StepsN N h n' (q', i') (m, j) := by
  cases s with
  | refl _ => exact absurd hm hq
  | cons st rest =>
    rename_i n' b
    exact ⟨n', b.1, b.2, rfl, st, rest⟩

theorem eps_inv {N : NFA} {h : Bytes} {n q i m j nx : Nat} (hq : N.get q = .eps nx)
    (s : StepsN N h n (q, i) (m, j)) (hm : N.get m = .mtch) :
    ∃ n', n = n' + 1 ∧ StepsN N h n' (nx, i) (m, j) := by
  obtain ⟨n', q', i', rfl, st, rest⟩ := stepsN_first s hm (by rw [hq]; simp)
  have := step_inv st
  rw [hq] at this
  obtain ⟨rfl, rfl⟩ := this
  exact ⟨n', rfl, rest⟩

theorem cap_inv {N : NFA} {h : Bytes} {n q i m j idx nx : Nat} {st : Bool} (hq : N.get q = .cap idx st nx)
    (s : StepsN N h n (q, i) (m, j)) (hm : N.get m = .mtch) :
    ∃ n', n = n' + 1 ∧ StepsN N h n' (nx, i) (m, j) := by
  obtain ⟨n', q', i', rfl, st', rest⟩ := stepsN_first s hm (by rw [hq]; simp)
  have := step_inv st'
  rw [hq] at this
  obtain ⟨rfl, rfl⟩ := this
  exact ⟨n', rfl, rest⟩

theorem look_inv {N : NFA} {h : Bytes} {n q i m j nx : Nat} {k : Look} (hq : N.get q = .look k nx)
    (s : StepsN N h n (q, i) (m, j)) (hm : N.get m = .mtch) :
    ∃ n', n = n' + 1 ∧ lookOK k h i = true ∧ StepsN N h n' (nx, i) (m, j) := by
  obtain ⟨n', q', i', rfl, st', rest⟩ := stepsN_first s hm (by rw [hq]; simp)
  have := step_inv st'
  rw [hq] at this
  obtain ⟨hl, rfl, rfl⟩ := this
  exact ⟨n', rfl, hl, rest⟩

theorem byteRange_inv {N : NFA} {h : Bytes} {n q i m j lo hi nx : Nat} (hq : N.get q = .byteRange lo hi nx)
    (s : StepsN N h n (q, i) (m, j)) (hm : N.get m = .mtch) :
    ∃ n', n = n' + 1 ∧ i < h.size ∧ lo ≤ h.at i ∧ h.at i ≤ hi ∧ StepsN N h n' (nx, i + 1) (m, j) := by
  obtain ⟨n', q', i', rfl, st', rest⟩ := stepsN_first s hm (by rw [hq]; simp)
  have := step_inv st'
  rw [hq] at this
  obtain ⟨h1, h2, h3, rfl, rfl⟩ := this
  exact ⟨n', rfl, h1, h2, h3, rest⟩

theorem sparse_inv {N : NFA} {h : Bytes} {n q i m j : Nat} {ts : List (Nat × Nat × Nat)} (hq : N.get q = .sparse ts)
    (s : StepsN N h n (q, i) (m, j)) (hm : N.get m = .mtch) :
    ∃ n' nx, n = n' + 1 ∧ i < h.size ∧ firstTrans (h.at i) ts = some nx ∧ StepsN N h n' (nx, i + 1) (m, j) := by
  obtain ⟨n', q', i', rfl, st', rest⟩ := stepsN_first s hm (by rw [hq]; simp)
  have := step_inv st'
  rw [hq] at this
  obtain ⟨h1, h2, rfl⟩ := this
  exact ⟨n', q', rfl, h1, h2, rest⟩

theorem split_inv {N : NFA} {h : Bytes} {n q i m j l r : Nat} (hq : N.get q = .split l r)
    (s : StepsN N h n (q, i) (m, j)) (hm : N.get m = .mtch) :
    ∃ n', n = n' + 1 ∧ (StepsN N h n' (l, i) (m, j) ∨ StepsN N h n' (r, i) (m, j)) := by
  obtain ⟨n', q', i', rfl, st', rest⟩ := stepsN_first s hm (by rw [hq]; simp)
  have := step_inv st'
  rw [hq] at this
  obtain ⟨h1, rfl⟩ := this
  rcases h1 with rfl | rfl
  · exact ⟨n', rfl, Or.inl rest⟩
  · exact ⟨n', rfl, Or.inr rest⟩

theorem fail_inv {N : NFA} {h : Bytes} {n q i m j : Nat} (hq : N.get q = .fail)
    (s : StepsN N h n (q, i) (m, j)) (hm : N.get m = .mtch) : False := by
  obtain ⟨n', q', i', rfl, st', _⟩ := stepsN_first s hm (by rw [hq]; simp)
  have := step_inv st'
  rw [hq] at this
  exact this

theorem mtch_inv {N : NFA} {h : Bytes} {n q i m j : Nat} (hq : N.get q = .mtch)
    (s : StepsN N h n (q, i) (m, j)) : n = 0 ∧ m = q ∧ j = i := by
  cases s with
  | refl _ => exact ⟨rfl, rfl, rfl⟩
  | cons st _ =>
    rename_i b _
    obtain ⟨q', i'⟩ := b
    have := step_inv st
    rw [hq] at this
    exact this.elim

/-! ### fragment semantics: a sub-automaton entered at `s` whose exit leads to `T`, with language `R` -/

structure FragSem (N : NFA) (h : Bytes) (s T : Nat) (R : Nat → Nat → Prop) : Prop where
  complete : ∀ i j, R i j → Steps N h (s, i) (T, j)
  sound : ∀ n i m j, StepsN N h n (s, i) (m, j) → N.get m = .mtch →
    ∃ k n', n' < n ∧ R i k ∧ StepsN N h n' (T, k) (m, j)

/-- relational composition -/
def comp (R1 R2 : Nat → Nat → Prop) : Nat → Nat → Prop := fun i j => ∃ k, R1 i k ∧ R2 k j

def idRel : Nat → Nat → Prop := fun i j => i = j

theorem FragSem.congr {N : NFA} {h : Bytes} {s T : Nat} {R R' : Nat → Nat → Prop}
    (f : FragSem N h s T R) (hr : ∀ i j, R i j ↔ R' i j) : FragSem N h s T R' :=
  ⟨fun i j r => f.complete i j ((hr i j).mpr r), fun n i m j st hm => by
    obtain ⟨k, n', h1, h2, h3⟩ := f.sound n i m j st hm
    exact ⟨k, n', h1, (hr i k).mp h2, h3⟩⟩

theorem FragSem.seq {N : NFA} {h : Bytes} {s t T : Nat} {R1 R2 : Nat → Nat → Prop}
    (f1 : FragSem N h s t R1) (f2 : FragSem N h t T R2) : FragSem N h s T (comp R1 R2) :=
  ⟨fun i j ⟨k, r1, r2⟩ => Steps.trans' (f1.complete i k r1) (f2.complete k j r2), fun n i m j st hm => by
    obtain ⟨k1, n1, h1, r1, st1⟩ := f1.sound n i m j st hm
    obtain ⟨k2, n2, h2, r2, st2⟩ := f2.sound n1 k1 m j st1 hm
    exact ⟨k2, n2, by omega, ⟨k1, r1, r2⟩, st2⟩⟩

theorem fragSem_eps {N : NFA} {h : Bytes} {s T : Nat} (hs : N.get s = .eps T) : FragSem N h s T idRel :=
  ⟨fun i j r => by cases r; exact Steps.one (Step.eps hs), fun n i m j st hm => by
    obtain ⟨n', rfl, rest⟩ := eps_inv hs st hm
    exact ⟨i, n', by omega, rfl, rest⟩⟩

theorem fragSem_look {N : NFA} {h : Bytes} {s T : Nat} {k : Look} (hs : N.get s = .look k T) :
    FragSem N h s T (fun i j => i = j ∧ lookOK k h i = true) :=
  ⟨fun i j r => by obtain ⟨rfl, hl⟩ := r; exact Steps.one (Step.look hs hl), fun n i m j st hm => by
    obtain ⟨n', rfl, hl, rest⟩ := look_inv hs st hm
    exact ⟨i, n', by omega, ⟨rfl, hl⟩, rest⟩⟩

theorem fragSem_byteRange {N : NFA} {h : Bytes} {s T lo hi : Nat} (hs : N.get s = .byteRange lo hi T) :
    FragSem N h s T (fun i j => i < h.size ∧ j = i + 1 ∧ lo ≤ h.at i ∧ h.at i ≤ hi) :=
  ⟨fun i j r => by obtain ⟨h1, rfl, h2, h3⟩ := r; exact Steps.one (Step.byteRange hs h1 h2 h3), fun n i m j st hm => by
    obtain ⟨n', rfl, h1, h2, h3, rest⟩ := byteRange_inv hs st hm
    exact ⟨i + 1, n', by omega, ⟨h1, rfl, h2, h3⟩, rest⟩⟩

/-- a state that only forwards (epsilon, capture) in front of a fragment -/
theorem FragSem.pre_eps {N : NFA} {h : Bytes} {s t T : Nat} {R : Nat → Nat → Prop} (hs : N.get s = .eps t)
    (f : FragSem N h t T R) : FragSem N h s T R :=
  ((fragSem_eps (h := h) hs).seq f).congr fun i j =>
    ⟨fun ⟨k, h1, h2⟩ => by cases h1; exact h2, fun h2 => ⟨i, rfl, h2⟩⟩

theorem FragSem.post_eps {N : NFA} {h : Bytes} {s t T : Nat} {R : Nat → Nat → Prop} (ht : N.get t = .eps T)
    (f : FragSem N h s t R) : FragSem N h s T R :=
  (f.seq (fragSem_eps (h := h) ht)).congr fun i j =>
    ⟨fun ⟨k, h1, h2⟩ => by cases h2; exact h1, fun h2 => ⟨j, h2, rfl⟩⟩

theorem fragSem_cap {N : NFA} {h : Bytes} {s T idx : Nat} {st : Bool} (hs : N.get s = .cap idx st T) :
    FragSem N h s T idRel :=
  ⟨fun i j r => by cases r; exact Steps.one (Step.cap hs), fun n i m j st hm => by
    obtain ⟨n', rfl, rest⟩ := cap_inv hs st hm
    exact ⟨i, n', by omega, rfl, rest⟩⟩

theorem comp_idRel_left (R : Nat → Nat → Prop) (i j : Nat) : comp idRel R i j ↔ R i j :=
  ⟨fun ⟨k, h1, h2⟩ => by cases h1; exact h2, fun h2 => ⟨i, rfl, h2⟩⟩

theorem comp_idRel_right (R : Nat → Nat → Prop) (i j : Nat) : comp R idRel i j ↔ R i j :=
  ⟨fun ⟨k, h1, h2⟩ => by cases h2; exact h1, fun h2 => ⟨j, h2, rfl⟩⟩

theorem fragSem_split {N : NFA} {h : Bytes} {s l r T : Nat} {R1 R2 : Nat → Nat → Prop} (hs : N.get s = .split l r)
    (f1 : FragSem N h l T R1) (f2 : FragSem N h r T R2) : FragSem N h s T (fun i j => R1 i j ∨ R2 i j) :=
  ⟨fun i j rr => by
    rcases rr with r1 | r2
    · exact Steps.cons (Step.splitL hs) (f1.complete i j r1)
    · exact Steps.cons (Step.splitR hs) (f2.complete i j r2),
   fun n i m j st hm => by
    obtain ⟨n', rfl, rest⟩ := split_inv hs st hm
    rcases rest with rest | rest
    · obtain ⟨k, n2, h1, h2, h3⟩ := f1.sound n' i m j rest hm
      exact ⟨k, n2, by omega, Or.inl h2, h3⟩
    · obtain ⟨k, n2, h1, h2, h3⟩ := f2.sound n' i m j rest hm
      exact ⟨k, n2, by omega, Or.inr h2, h3⟩⟩

/-- `compileNoMatch`: a dead state -/
theorem fragSem_dead {N : NFA} {h : Bytes} {s T : Nat} (hs : N.get s = .fail) : FragSem N h s T (fun _ _ => False) :=
  ⟨fun _ _ r => r.elim, fun _ _ _ _ st hm => (fail_inv hs st hm).elim⟩

theorem iter_snoc {R : Nat → Nat → Prop} : ∀ (n : Nat) (i k j : Nat), iter R n i k → R k j → iter R (n+1) i j
  | 0, i, k, j, h1, h2 => by cases h1; exact ⟨j, h2, rfl⟩
  | n+1, i, k, j, ⟨k1, h1, h3⟩, h2 => ⟨k1, h1, iter_snoc n k1 k j h3 h2⟩

/-- the loop of `x*` / `x+`: a split `sp` choosing between the body (whose exit leads back to `sp`) and an
    epsilon `en` leading out, in either operand order -/
theorem fragSem_loop {N : NFA} {h : Bytes} {sp body en T a c : Nat} {R : Nat → Nat → Prop}
    (hsp : N.get sp = .split a c) (hac : (a = body ∧ c = en) ∨ (a = en ∧ c = body))
    (hen : N.get en = .eps T) (f : FragSem N h body sp R) :
    FragSem N h sp T (fun i j => ∃ n, iter R n i j) := by
  have hexit : ∀ i, Steps N h (sp, i) (T, i) := by
    intro i
    rcases hac with ⟨_, rfl⟩ | ⟨rfl, _⟩
    · exact Steps.cons (Step.splitR hsp) (Steps.one (Step.eps hen))
    · exact Steps.cons (Step.splitL hsp) (Steps.one (Step.eps hen))
  have henter : ∀ i, Step N h (sp, i) (body, i) := by
    intro i
    rcases hac with ⟨rfl, _⟩ | ⟨_, rfl⟩
    · exact Step.splitL hsp
    · exact Step.splitR hsp
  refine ⟨?_, ?_⟩
  · intro i j ⟨n, hn⟩
    induction n generalizing i with
    | zero => have hij : i = j := hn; subst hij; exact hexit i
    | succ n ih =>
      obtain ⟨k, r, rest⟩ := hn
      exact Steps.cons (henter i) (Steps.trans' (f.complete i k r) (ih k rest))
  · intro n
    induction n using Nat.strongRecOn with
    | _ n ih =>
      intro i m j st hm
      obtain ⟨n1, rfl, rest⟩ := split_inv hsp st hm
      have hbody : StepsN N h n1 (body, i) (m, j) →
          ∃ k n', n' < n1 + 1 ∧ (∃ n, iter R n i k) ∧ StepsN N h n' (T, k) (m, j) := by
        intro rest
        obtain ⟨k1, n2, h1, r1, st1⟩ := f.sound n1 i m j rest hm
        obtain ⟨k, n3, h3, ⟨cnt, hc⟩, st3⟩ := ih n2 (by omega) k1 m j st1 hm
        exact ⟨k, n3, by omega, ⟨cnt + 1, k1, r1, hc⟩, st3⟩
      have hex : StepsN N h n1 (en, i) (m, j) →
          ∃ k n', n' < n1 + 1 ∧ (∃ n, iter R n i k) ∧ StepsN N h n' (T, k) (m, j) := by
        intro rest
        obtain ⟨n2, rfl, rest2⟩ := eps_inv hen rest hm
        exact ⟨i, n2, by omega, ⟨0, rfl⟩, rest2⟩
      rcases hac with ⟨rfl, rfl⟩ | ⟨rfl, rfl⟩
      · rcases rest with rest | rest
        · exact hbody rest
        · exact hex rest
      · rcases rest with rest | rest
        · exact hex rest
        · exact hbody rest

def starRel (R : Nat → Nat → Prop) : Nat → Nat → Prop := fun i j => ∃ n, iter R n i j
def plusRel (R : Nat → Nat → Prop) : Nat → Nat → Prop := fun i j => ∃ n, 1 ≤ n ∧ iter R n i j

theorem fragSem_split_either {N : NFA} {h : Bytes} {s x y a c T : Nat} {R1 R2 : Nat → Nat → Prop}
    (hs : N.get s = .split a c) (hac : (a = x ∧ c = y) ∨ (a = y ∧ c = x))
    (f1 : FragSem N h x T R1) (f2 : FragSem N h y T R2) : FragSem N h s T (fun i j => R1 i j ∨ R2 i j) := by
  rcases hac with ⟨rfl, rfl⟩ | ⟨rfl, rfl⟩
  · exact fragSem_split hs f1 f2
  · exact (fragSem_split hs f2 f1).congr fun i j => Or.comm

theorem fragSem_plus {N : NFA} {h : Bytes} {sp body en T a c : Nat} {R : Nat → Nat → Prop}
    (hsp : N.get sp = .split a c) (hac : (a = body ∧ c = en) ∨ (a = en ∧ c = body))
    (hen : N.get en = .eps T) (f : FragSem N h body sp R) : FragSem N h body T (plusRel R) :=
  (f.seq (fragSem_loop hsp hac hen f)).congr fun i j =>
    ⟨fun ⟨k, r, n, hn⟩ => ⟨n + 1, by omega, k, r, hn⟩, fun ⟨n, h1, hn⟩ => by
      obtain ⟨n', rfl⟩ : ∃ n', n = n' + 1 := ⟨n - 1, by omega⟩
      obtain ⟨k, r, rest⟩ := hn
      exact ⟨k, r, n', rest⟩⟩

theorem star_iff_plus_or_id (R : Nat → Nat → Prop) (i j : Nat) : (plusRel R i j ∨ idRel i j) ↔ starRel R i j :=
  ⟨fun hh => by
    rcases hh with ⟨n, _, hn⟩ | hh
    · exact ⟨n, hn⟩
    · exact ⟨0, hh⟩,
   fun ⟨n, hn⟩ => by
    cases n with
    | zero => exact Or.inr hn
    | succ n => exact Or.inl ⟨n + 1, by omega, hn⟩⟩

theorem firstTrans_map (rs : List (Nat × Nat)) (t c nx : Nat) :
    firstTrans c (rs.map fun p => (p.1, p.2, t)) = some nx ↔ nx = t ∧ ∃ p, p ∈ rs ∧ p.1 ≤ c ∧ c ≤ p.2 := by
  induction rs with
  | nil => simp [firstTrans]
  | cons p rs ih =>
    simp only [List.map_cons, firstTrans]
    by_cases hc : p.1 ≤ c ∧ c ≤ p.2
    · rw [if_pos hc]
      constructor
      · intro hh; cases hh; exact ⟨rfl, p, List.mem_cons_self, hc⟩
      · intro ⟨hh, _⟩; rw [hh]
    · rw [if_neg hc, ih]
      constructor
      · intro ⟨h1, q, hq, h2⟩; exact ⟨h1, q, List.mem_cons_of_mem _ hq, h2⟩
      · intro ⟨h1, q, hq, h2⟩
        rcases List.mem_cons.mp hq with rfl | hq
        · exact absurd h2 hc
        · exact ⟨h1, q, hq, h2⟩

theorem fragSem_sparse {N : NFA} {h : Bytes} {s T : Nat} {rs : List (Nat × Nat)}
    (hs : N.get s = .sparse (rs.map fun p => (p.1, p.2, T))) : FragSem N h s T (clsAt rs h) :=
  ⟨fun i j r => by
    obtain ⟨h1, rfl, hp⟩ := r
    exact Steps.one (Step.sparse hs h1 ((firstTrans_map rs T _ T).mpr ⟨rfl, hp⟩)),
   fun n i m j st hm => by
    obtain ⟨n', nx, rfl, h1, h2, rest⟩ := sparse_inv hs st hm
    obtain ⟨rfl, hp⟩ := (firstTrans_map rs T _ nx).mp h2
    exact ⟨i + 1, n', by omega, ⟨h1, rfl, hp⟩, rest⟩⟩

/-! ### the final automaton seen from a fragment -/

/-- `N` carries the states `[lo, hi)` of builder `b`, the exit `e` patched to `T` -/
def Realizes (N : NFA) (b : Builder) (lo hi e T : Nat) : Prop :=
  ∀ q, lo ≤ q → q < hi → N.get q = if q = e then setNext (b.get q) T else b.get q

theorem Realizes.at_e {N : NFA} {b : Builder} {lo hi e T : Nat} (hr : Realizes N b lo hi e T) (h1 : lo ≤ e) (h2 : e < hi) :
    N.get e = setNext (b.get e) T := by rw [hr e h1 h2, if_pos rfl]

theorem Realizes.at_ne {N : NFA} {b : Builder} {lo hi e T q : Nat} (hr : Realizes N b lo hi e T) (h1 : lo ≤ q) (h2 : q < hi)
    (hne : q ≠ e) : N.get q = b.get q := by rw [hr q h1 h2, if_neg hne]

/-- what the semantic induction proves of a fragment `(s, e)` occupying `[b0.size, b.size)` -/
def FragOK (h : Bytes) (b0 b : Builder) (s e : Nat) (R : Nat → Nat → Prop) : Prop :=
  b.size ≤ invalid → ∀ N T, Realizes N b b0.size b.size e T → FragSem N h s T R

def ShapeOK (f : Rec) : Prop := ∀ re b s e b', f re b = some (s, e, b') → Shape b b' s e

def SemOK (h : Bytes) (f : Rec) : Prop :=
  ∀ re b s e b', AltOK re → f re b = some (s, e, b') → FragOK h b b' s e (M re h)

theorem FragOK.congr {h : Bytes} {b0 b : Builder} {s e : Nat} {R R' : Nat → Nat → Prop} (f : FragOK h b0 b s e R)
    (hr : ∀ i j, R i j ↔ R' i j) : FragOK h b0 b s e R' :=
  fun hb N T hN => (f hb N T hN).congr hr

/-! ### leaves -/

theorem emptyMatch_shape (b : Builder) : Shape b (b.push (.eps invalid)) b.size b.size :=
  ⟨Ext.push _ _, Nat.le_refl _, by simp, Nat.le_refl _, by simp, by rw [get_push_eq]; rfl, fun t => t.push (tok_eps _)⟩

theorem emptyMatch_sem (h : Bytes) (b : Builder) : FragOK h b (b.push (.eps invalid)) b.size b.size idRel := by
  intro _ N T hr
  have h1 := hr.at_e (Nat.le_refl _) (by simp)
  rw [get_push_eq] at h1
  exact fragSem_eps h1

theorem look_shape (b : Builder) (k : Look) : Shape b (b.push (.look k invalid)) b.size b.size :=
  ⟨Ext.push _ _, Nat.le_refl _, by simp, Nat.le_refl _, by simp, by rw [get_push_eq]; rfl,
    fun t => t.push (refOK_invalid _)⟩

theorem look_sem (h : Bytes) (b : Builder) (k : Look) :
    FragOK h b (b.push (.look k invalid)) b.size b.size (fun i j => i = j ∧ lookOK k h i = true) := by
  intro _ N T hr
  have h1 := hr.at_e (Nat.le_refl _) (by simp)
  rw [get_push_eq] at h1
  exact fragSem_look h1

theorem compileClass_ok {rs : List (Nat × Nat)} {b b' : Builder} {s e : Nat} (hc : compileClass rs b = some (s, e, b')) :
    Shape b b' s e ∧ ∀ h, FragOK h b b' s e (clsAt rs h) := by
  unfold compileClass at hc
  split at hc
  · -- empty class: compileNoMatch
    simp only [noMatchFrag, Option.some.injEq, Prod.mk.injEq] at hc
    obtain ⟨rfl, rfl, rfl⟩ := hc
    refine ⟨⟨(Ext.push _ _).trans (Ext.push _ _), Nat.le_refl _, by sz, by omega, by sz, ?_,
      fun t => (t.push (s := .fail) rfl).push (tok_eps _)⟩, ?_⟩
    · have : b.size + 1 = (b.push NState.fail).size := by simp
      rw [this, get_push_eq]; rfl
    · intro h _ N T hr
      have h1 := hr.at_ne (q := b.size) (Nat.le_refl _) (by sz) (by omega)
      rw [get_push_lt (by simp), get_push_eq] at h1
      exact (fragSem_dead h1).congr fun i j => by simp [clsAt]
  · -- one range: a ByteRange state
    rename_i p
    split at hc
    · simp only [Option.some.injEq, Prod.mk.injEq] at hc
      obtain ⟨rfl, rfl, rfl⟩ := hc
      refine ⟨⟨Ext.push _ _, Nat.le_refl _, by simp, Nat.le_refl _, by simp, by rw [get_push_eq]; rfl,
        fun t => t.push (refOK_invalid _)⟩, ?_⟩
      intro h _ N T hr
      have h1 := hr.at_e (Nat.le_refl _) (by simp)
      rw [get_push_eq] at h1
      exact (fragSem_byteRange h1).congr fun i j => by
        simp only [clsAt, List.mem_singleton]
        constructor
        · intro ⟨x1, x2, x3, x4⟩; exact ⟨x1, x2, p, rfl, x3, x4⟩
        · intro ⟨x1, x2, q, hq, x3, x4⟩; subst hq; exact ⟨x1, x2, x3, x4⟩
    · cases hc
  · -- several ranges: Sparse into a fresh epsilon
    split at hc
    · simp only [Option.some.injEq, Prod.mk.injEq] at hc
      obtain ⟨rfl, rfl, rfl⟩ := hc
      have hsz : (b.push (NState.eps invalid)).size = b.size + 1 := by simp
      refine ⟨⟨(Ext.push _ _).trans (Ext.push _ _), by omega, by simp, Nat.le_refl _, by simp; omega, ?_, ?_⟩, ?_⟩
      · rw [get_push_lt (by omega), get_push_eq]; rfl
      · intro t
        refine (t.push (tok_eps _)).push ?_
        simp only [stateTargetsOK, List.all_eq_true, List.mem_map]
        intro x ⟨p, _, hx⟩
        rw [← hx]
        exact refOK_lt (by sz)
      · intro h _ N T hr
        have h1 := hr.at_e (Nat.le_refl _) (by simp; omega)
        rw [get_push_lt (by omega), get_push_eq] at h1
        have h2 := hr.at_ne (q := (b.push (NState.eps invalid)).size) (by omega) (by simp) (by omega)
        rw [get_push_eq] at h2
        exact (fragSem_sparse h2).post_eps h1
    · cases hc

/-! ### literals -/

def byteRel (h : Bytes) (x : Nat) : Nat → Nat → Prop := fun i j => i < h.size ∧ j = i + 1 ∧ x ≤ h.at i ∧ h.at i ≤ x

theorem litAt_nil (h : Bytes) (i j : Nat) : litAt [] h i j ↔ idRel i j := by
  simp only [litAt, List.length_nil, idRel]
  constructor
  · intro ⟨h1, _⟩; omega
  · intro h1; exact ⟨by omega, fun k hk => absurd hk (by omega)⟩

theorem litAt_cons (h : Bytes) (x : Nat) (xs : List Nat) (i j : Nat) :
    litAt (x :: xs) h i j ↔ comp (byteRel h x) (litAt xs h) i j := by
  simp only [litAt, List.length_cons, comp, byteRel]
  constructor
  · intro ⟨h1, h2⟩
    have h0 := h2 0 (by omega)
    simp only [Nat.add_zero, List.getD_cons_zero] at h0
    refine ⟨i + 1, ⟨h0.1, rfl, by omega, by omega⟩, by omega, ?_⟩
    intro k hk
    have hk' := h2 (k + 1) (by omega)
    rw [List.getD_cons_succ] at hk'
    have e : i + 1 + k = i + (k + 1) := by omega
    rw [e]; exact hk'
  · intro ⟨m, ⟨h1, h2, h3, h4⟩, h5, h6⟩
    subst h2
    refine ⟨by omega, ?_⟩
    intro k hk
    cases k with
    | zero => simp only [Nat.add_zero, List.getD_cons_zero]; exact ⟨h1, by omega⟩
    | succ k =>
      have hk' := h6 k (by omega)
      rw [List.getD_cons_succ]
      have e : i + 1 + k = i + (k + 1) := by omega
      rw [← e]; exact hk'

theorem comp_assoc (R1 R2 R3 : Nat → Nat → Prop) (i j : Nat) : comp (comp R1 R2) R3 i j ↔ comp R1 (comp R2 R3) i j :=
  ⟨fun ⟨k, ⟨k1, h1, h2⟩, h3⟩ => ⟨k1, h1, k, h2, h3⟩, fun ⟨k1, h1, k, h2, h3⟩ => ⟨k, ⟨k1, h1, h2⟩, h3⟩⟩

theorem comp_congr_right {R R2 R2' : Nat → Nat → Prop} (hr : ∀ i j, R2 i j ↔ R2' i j) (i j : Nat) :
    comp R R2 i j ↔ comp R R2' i j :=
  ⟨fun ⟨k, h1, h2⟩ => ⟨k, h1, (hr k j).mp h2⟩, fun ⟨k, h1, h2⟩ => ⟨k, h1, (hr k j).mpr h2⟩⟩

theorem litLoop_ok (h : Bytes) (b0 : Builder) : ∀ (xs : List Nat) (prev first : Nat) (b : Builder) (s e : Nat) (b' : Builder)
    (R : Nat → Nat → Prop), litLoop xs prev first b = some (s, e, b') → Shape b0 b first prev →
    Shape b0 b' s e ∧ b.size ≤ b'.size ∧ (FragOK h b0 b first prev R → FragOK h b0 b' s e (comp R (litAt xs h))) := by
  intro xs
  induction xs with
  | nil =>
    intro prev first b s e b' R hc sh
    simp only [litLoop, Option.some.injEq, Prod.mk.injEq] at hc
    obtain ⟨rfl, rfl, rfl⟩ := hc
    exact ⟨sh, Nat.le_refl _, fun f => f.congr fun i j => by
      rw [← comp_idRel_right R i j]; exact comp_congr_right (fun i j => (litAt_nil h i j).symm) i j⟩
  | cons x xs ih =>
    intro prev first b s e b' R hc sh
    simp only [litLoop] at hc
    have hfirst : b0.size ≤ (if first = invalid then b.size else first) ∧
        (if first = invalid then b.size else first) < b.size + 1 := by
      have := sh.s_lo; have := sh.s_hi; have := sh.ext.size
      split <;> omega
    have hlo := sh.e_lo
    have hhi := sh.e_hi
    have hext := sh.ext.size
    split at hc
    · rename_i hprev
      split at hc
      · rename_i b2 hp
        have p := patch_some hp
        have sh2 : Shape b0 b2 (if first = invalid then b.size else first) b.size :=
          ⟨(sh.ext.trans (Ext.push _ _)).patch p sh.e_lo, hfirst.1, by rw [p.size]; sz, by omega, by rw [p.size]; sz, by
            rw [p.get_ne (by omega), get_push_eq]; rfl,
            fun t => ((sh.tok t).push (tok_byteRange _ x x)).patch p (refOK_lt (by sz))⟩
        obtain ⟨r1, r2, r3⟩ := ih b.size _ b2 s e b' (comp R (byteRel h x)) hc sh2
        refine ⟨r1, by have := p.size; sz, fun f => (r3 ?_).congr fun i j => ?_⟩
        · intro hb N T hr
          have hsz : b2.size = b.size + 1 := by rw [p.size]; simp
          have hfe : first ≠ invalid := by have := sh.s_hi; omega
          rw [if_neg hfe]
          have hN1 : Realizes N b b0.size b.size prev b.size := by
            intro q h1 h2
            rw [hr.at_ne h1 (by omega) (by omega), p.get, get_push_lt h2]
            by_cases hq : q = prev
            · subst hq; rw [if_pos rfl, if_pos rfl, get_push_lt h2]
            · rw [if_neg hq, if_neg hq]
          have hN2 : N.get b.size = .byteRange x x T := by
            rw [hr.at_e (by omega) (by omega), p.get_ne (by omega), get_push_eq]; rfl
          exact (f (by omega) N b.size hN1).seq (fragSem_byteRange hN2)
        · rw [comp_assoc]; exact comp_congr_right (fun i j => (litAt_cons h x xs i j).symm) i j
      · cases hc
    · rename_i hprev
      have hprev : prev = invalid := Classical.not_not.mp hprev
      have sh2 : Shape b0 (b.push (.byteRange x x invalid)) (if first = invalid then b.size else first) b.size :=
        ⟨sh.ext.trans (Ext.push _ _), hfirst.1, by sz, by omega, by sz, by rw [get_push_eq]; rfl,
          fun t => (sh.tok t).push (tok_byteRange _ x x)⟩
      obtain ⟨r1, r2, r3⟩ := ih b.size _ _ s e b' (comp R (byteRel h x)) hc sh2
      refine ⟨r1, by sz, fun f => (r3 ?_).congr fun i j => ?_⟩
      · intro hb N T hr
        exfalso
        have : (b.push (NState.byteRange x x invalid)).size = b.size + 1 := by simp
        omega
      · rw [comp_assoc]; exact comp_congr_right (fun i j => (litAt_cons h x xs i j).symm) i j

theorem compileLit_ok {bs : List Nat} {b b' : Builder} {s e : Nat} (hc : compileLit bs b = some (s, e, b')) :
    Shape b b' s e ∧ ∀ h, FragOK h b b' s e (litAt bs h) := by
  cases bs with
  | nil =>
    simp only [compileLit, emptyMatch, Option.some.injEq, Prod.mk.injEq] at hc
    obtain ⟨rfl, rfl, rfl⟩ := hc
    exact ⟨emptyMatch_shape b, fun h => (emptyMatch_sem h b).congr fun i j => (litAt_nil h i j).symm⟩
  | cons x xs =>
    simp only [compileLit, litLoop, if_true, ne_eq, not_true_eq_false, if_false] at hc
    have sh1 : Shape b (b.push (.byteRange x x invalid)) b.size b.size :=
      ⟨Ext.push _ _, Nat.le_refl _, by sz, Nat.le_refl _, by sz, by rw [get_push_eq]; rfl,
        fun t => t.push (tok_byteRange _ x x)⟩
    refine ⟨(litLoop_ok #[] b xs _ _ _ s e b' idRel hc sh1).1, fun h => ?_⟩
    obtain ⟨_, _, r3⟩ := litLoop_ok h b xs _ _ _ s e b' (byteRel h x) hc sh1
    refine (r3 ?_).congr fun i j => (litAt_cons h x xs i j).symm
    intro _ N T hr
    have h1 := hr.at_e (Nat.le_refl _) (by sz)
    rw [get_push_eq] at h1
    exact fragSem_byteRange h1

/-! ### unary constructs -/

theorem Realizes.sub {N : NFA} {b4 : Builder} {lo hi E T : Nat} (hr : Realizes N b4 lo hi E T)
    {b1 : Builder} {lo' hi' e t : Nat} (hlo : lo ≤ lo') (hhi : hi' ≤ hi) (hE : E < lo' ∨ hi' ≤ E)
    (hget : ∀ q, lo' ≤ q → q < hi' → b4.get q = if q = e then setNext (b1.get q) t else b1.get q) :
    Realizes N b1 lo' hi' e t :=
  fun q h1 h2 => by rw [hr.at_ne (by omega) (by omega) (by omega), hget q h1 h2]

theorem PatchOK.get_sub {b3 b4 : Builder} {e t : Nat} (p : PatchOK b3 e t b4) {b1 : Builder} {n : Nat}
    (h13 : ∀ q, q < n → b3.get q = b1.get q) (he : e < n) :
    ∀ q, q < n → b4.get q = if q = e then setNext (b1.get q) t else b1.get q := by
  intro q hq
  rw [p.get]
  by_cases hqe : q = e
  · subst hqe; rw [if_pos rfl, if_pos rfl, h13 _ he]
  · rw [if_neg hqe, if_neg hqe, h13 q hq]

theorem quantSplit_cases (g : Bool) (body ex : Nat) :
    ∃ a c, quantSplit g body ex = .split a c ∧ ((a = body ∧ c = ex) ∨ (a = ex ∧ c = body)) := by
  cases g
  · exact ⟨ex, body, rfl, Or.inr ⟨rfl, rfl⟩⟩
  · exact ⟨body, ex, rfl, Or.inl ⟨rfl, rfl⟩⟩

theorem patchable_quantSplit (g : Bool) (body ex : Nat) : patchable (quantSplit g body ex) = false := by
  cases g <;> rfl

theorem compileCapture_ok {f : Rec} {idx : Nat} {r : Regex} {b b' : Builder} {s' e' : Nat} (hS : ShapeOK f)
    (hc : compileCapture f idx r b = some (s', e', b')) :
    Shape b b' s' e' ∧ ∀ h, AltOK r → SemOK h f → FragOK h b b' s' e' (M r h) := by
  unfold compileCapture at hc
  cases hf : f r b with
  | none => simp [hf] at hc
  | some fr =>
    obtain ⟨s, e, b1⟩ := fr
    simp only [hf] at hc
    split at hc
    · cases hc
    · rename_i b3 hp
      simp only [Option.some.injEq, Prod.mk.injEq] at hc
      obtain ⟨rfl, rfl, rfl⟩ := hc
      have sh := hS _ _ _ _ _ hf
      have h1 := sh.ext.size; have h2 := sh.e_hi; have h3 := sh.e_lo; have h4 := sh.s_lo; have h5 := sh.s_hi
      have p := patchOrEps_some (by sz) hp
      have h6 := p.size
      have e12 : Ext b1 (b1.push (.cap idx false invalid)) := Ext.push _ _
      refine ⟨⟨(((sh.ext.trans e12).patch p h3).trans (Ext.push _ _)), by sz, by sz, by sz, by sz, ?_, ?_⟩, ?_⟩
      · rw [get_push_lt (by sz), p.get_ne (by omega), get_push_eq]; rfl
      · exact fun t => ((((sh.tok t).push (tok_cap _ idx false)).patch p (refOK_lt (by sz))).push (tok_cap_lt true (by sz)))
      · intro h hw hF hb N T hr
        have hclose : N.get b1.size = .cap idx false T := by
          rw [hr.at_e (by sz) (by sz), get_push_lt (by sz), p.get_ne (by omega), get_push_eq]; rfl
        have hopen : N.get b3.size = .cap idx true s := by
          rw [hr.at_ne (by sz) (by sz) (by sz), get_push_eq]
        have hsub : Realizes N b1 b.size b1.size e b1.size :=
          hr.sub (Nat.le_refl _) (by sz) (Or.inr (Nat.le_refl _)) fun q _ hq => by
            rw [get_push_lt (by sz)]; exact p.get_sub e12.get h2 q hq
        have fsub := hF _ _ _ _ _ hw hf (by sz) N _ hsub
        exact ((fragSem_cap hopen).seq (fsub.seq (fragSem_cap hclose))).congr fun i j => by
          rw [comp_idRel_left, comp_idRel_right]

theorem compileStarViaPlus_ok {f : Rec} {r : Regex} {g : Bool} {b b' : Builder} {s' e' : Nat} (hS : ShapeOK f)
    (hc : compileStarViaPlus f r g b = some (s', e', b')) :
    Shape b b' s' e' ∧ ∀ h, AltOK r → SemOK h f → FragOK h b b' s' e' (starRel (M r h)) := by
  unfold compileStarViaPlus at hc
  cases hf : f r b with
  | none => simp [hf] at hc
  | some fr =>
    obtain ⟨s, e, b1⟩ := fr
    simp only [hf] at hc
    split at hc
    · cases hc
    · rename_i b4 hp
      simp only [Option.some.injEq, Prod.mk.injEq] at hc
      obtain ⟨rfl, rfl, rfl⟩ := hc
      have sh := hS _ _ _ _ _ hf
      have h1 := sh.ext.size; have h2 := sh.e_hi; have h3 := sh.e_lo; have h4 := sh.s_lo; have h5 := sh.s_hi
      have p := patchOrEps_some (by sz) hp
      have h6 := p.size
      have e13 : Ext b1 ((b1.push (.eps invalid)).push (quantSplit g s b1.size)) := (Ext.push _ _).trans (Ext.push _ _)
      refine ⟨⟨(((sh.ext.trans e13).patch p h3).trans (Ext.push _ _)), by sz, by sz, by sz, by sz, ?_, ?_⟩, ?_⟩
      · rw [get_push_lt (by sz), p.get_ne (by omega), get_push_lt (by sz), get_push_eq]; rfl
      · exact fun t => ((((sh.tok t).push (tok_eps _)).push (tok_quantSplit g (by sz) (by sz))).patch p
          (refOK_lt (by sz))).push (tok_quantSplit g (by sz) (by sz))
      · intro h hw hF hb N T hr
        obtain ⟨a, c, hq, hac⟩ := quantSplit_cases g s b1.size
        have hend : N.get b1.size = .eps T := by
          rw [hr.at_e (by sz) (by sz), get_push_lt (by sz), p.get_ne (by omega), get_push_lt (by sz), get_push_eq]; rfl
        have hplus : N.get (b1.push (.eps invalid)).size = .split a c := by
          rw [hr.at_ne (by sz) (by sz) (by sz), get_push_lt (by sz), p.get_ne (by sz), get_push_eq]; exact hq
        have hquest : N.get b4.size = .split a c := by
          rw [hr.at_ne (by sz) (by sz) (by sz), get_push_eq]; exact hq
        have hsub : Realizes N b1 b.size b1.size e (b1.push (.eps invalid)).size :=
          hr.sub (Nat.le_refl _) (by sz) (Or.inr (Nat.le_refl _)) fun q _ hq => by
            rw [get_push_lt (by sz)]; exact p.get_sub e13.get h2 q hq
        have fsub := hF _ _ _ _ _ hw hf (by sz) N _ hsub
        have fplus := fragSem_plus hplus hac hend fsub
        exact (fragSem_split_either hquest hac fplus (fragSem_eps hend)).congr (star_iff_plus_or_id _)

theorem compileStar_ok {f : Rec} {r : Regex} {g : Bool} {b b' : Builder} {s' e' : Nat} (hS : ShapeOK f)
    (hc : compileStar f r g b = some (s', e', b')) :
    Shape b b' s' e' ∧ ∀ h, AltOK r → SemOK h f → FragOK h b b' s' e' (starRel (M r h)) := by
  unfold compileStar at hc
  split at hc
  · exact compileStarViaPlus_ok hS hc
  cases hf : f r b with
  | none => simp [hf] at hc
  | some fr =>
    obtain ⟨s, e, b1⟩ := fr
    simp only [hf] at hc
    split at hc
    · cases hc
    · rename_i b4 hp
      simp only [Option.some.injEq, Prod.mk.injEq] at hc
      obtain ⟨rfl, rfl, rfl⟩ := hc
      have sh := hS _ _ _ _ _ hf
      have h1 := sh.ext.size; have h2 := sh.e_hi; have h3 := sh.e_lo; have h4 := sh.s_lo; have h5 := sh.s_hi
      have p := patchOrEps_some (by sz) hp
      have h6 := p.size
      have e13 : Ext b1 ((b1.push (.eps invalid)).push (quantSplit g s b1.size)) := (Ext.push _ _).trans (Ext.push _ _)
      refine ⟨⟨(sh.ext.trans e13).patch p h3, by sz, by sz, by sz, by sz, ?_, ?_⟩, ?_⟩
      · rw [p.get_ne (by omega), get_push_lt (by sz), get_push_eq]; rfl
      · exact fun t => (((sh.tok t).push (tok_eps _)).push (tok_quantSplit g (by sz) (by sz))).patch p (refOK_lt (by sz))
      · intro h hw hF hb N T hr
        obtain ⟨a, c, hq, hac⟩ := quantSplit_cases g s b1.size
        have hend : N.get b1.size = .eps T := by
          rw [hr.at_e (by sz) (by sz), p.get_ne (by omega), get_push_lt (by sz), get_push_eq]; rfl
        have hsplit : N.get (b1.push (.eps invalid)).size = .split a c := by
          rw [hr.at_ne (by sz) (by sz) (by sz), p.get_ne (by sz), get_push_eq]; exact hq
        have hsub : Realizes N b1 b.size b1.size e (b1.push (.eps invalid)).size :=
          hr.sub (Nat.le_refl _) (by sz) (Or.inr (Nat.le_refl _)) fun q _ hq => p.get_sub e13.get h2 q hq
        have fsub := hF _ _ _ _ _ hw hf (by sz) N _ hsub
        exact fragSem_loop hsplit hac hend fsub

theorem compilePlus_ok {f : Rec} {r : Regex} {g : Bool} {b b' : Builder} {s' e' : Nat} (hS : ShapeOK f)
    (hc : compilePlus f r g b = some (s', e', b')) :
    Shape b b' s' e' ∧ ∀ h, AltOK r → SemOK h f → FragOK h b b' s' e' (plusRel (M r h)) := by
  unfold compilePlus at hc
  cases hf : f r b with
  | none => simp [hf] at hc
  | some fr =>
    obtain ⟨s, e, b1⟩ := fr
    simp only [hf] at hc
    split at hc
    · cases hc
    · rename_i b4 hp
      simp only [Option.some.injEq, Prod.mk.injEq] at hc
      obtain ⟨rfl, rfl, rfl⟩ := hc
      have sh := hS _ _ _ _ _ hf
      have h1 := sh.ext.size; have h2 := sh.e_hi; have h3 := sh.e_lo; have h4 := sh.s_lo; have h5 := sh.s_hi
      have p := patchOrEps_some (by sz) hp
      have h6 := p.size
      have e13 : Ext b1 ((b1.push (.eps invalid)).push (quantSplit g s b1.size)) := (Ext.push _ _).trans (Ext.push _ _)
      refine ⟨⟨(sh.ext.trans e13).patch p h3, by sz, by sz, by sz, by sz, ?_, ?_⟩, ?_⟩
      · rw [p.get_ne (by omega), get_push_lt (by sz), get_push_eq]; rfl
      · exact fun t => (((sh.tok t).push (tok_eps _)).push (tok_quantSplit g (by sz) (by sz))).patch p (refOK_lt (by sz))
      · intro h hw hF hb N T hr
        obtain ⟨a, c, hq, hac⟩ := quantSplit_cases g s b1.size
        have hend : N.get b1.size = .eps T := by
          rw [hr.at_e (by sz) (by sz), p.get_ne (by omega), get_push_lt (by sz), get_push_eq]; rfl
        have hsplit : N.get (b1.push (.eps invalid)).size = .split a c := by
          rw [hr.at_ne (by sz) (by sz) (by sz), p.get_ne (by sz), get_push_eq]; exact hq
        have hsub : Realizes N b1 b.size b1.size e (b1.push (.eps invalid)).size :=
          hr.sub (Nat.le_refl _) (by sz) (Or.inr (Nat.le_refl _)) fun q _ hq => p.get_sub e13.get h2 q hq
        have fsub := hF _ _ _ _ _ hw hf (by sz) N _ hsub
        exact fragSem_plus hsplit hac hend fsub

theorem compileQuest_ok {f : Rec} {r : Regex} {g : Bool} {b b' : Builder} {s' e' : Nat} (hS : ShapeOK f)
    (hc : compileQuest f r g b = some (s', e', b')) :
    Shape b b' s' e' ∧ ∀ h, AltOK r → SemOK h f → FragOK h b b' s' e' (fun i j => i = j ∨ M r h i j) := by
  unfold compileQuest at hc
  cases hf : f r b with
  | none => simp [hf] at hc
  | some fr =>
    obtain ⟨s, e, b1⟩ := fr
    simp only [hf] at hc
    split at hc
    · cases hc
    · rename_i b4 hp
      simp only [Option.some.injEq, Prod.mk.injEq] at hc
      obtain ⟨rfl, rfl, rfl⟩ := hc
      have sh := hS _ _ _ _ _ hf
      have h1 := sh.ext.size; have h2 := sh.e_hi; have h3 := sh.e_lo; have h4 := sh.s_lo; have h5 := sh.s_hi
      have p := patchOrEps_some (by sz) hp
      have h6 := p.size
      have e13 : Ext b1 ((b1.push (.eps invalid)).push (quantSplit g s b1.size)) := (Ext.push _ _).trans (Ext.push _ _)
      refine ⟨⟨(sh.ext.trans e13).patch p h3, by sz, by sz, by sz, by sz, ?_, ?_⟩, ?_⟩
      · rw [p.get_ne (by omega), get_push_lt (by sz), get_push_eq]; rfl
      · exact fun t => (((sh.tok t).push (tok_eps _)).push (tok_quantSplit g (by sz) (by sz))).patch p (refOK_lt (by sz))
      · intro h hw hF hb N T hr
        obtain ⟨a, c, hq, hac⟩ := quantSplit_cases g s b1.size
        have hend : N.get b1.size = .eps T := by
          rw [hr.at_e (by sz) (by sz), p.get_ne (by omega), get_push_lt (by sz), get_push_eq]; rfl
        have hsplit : N.get (b1.push (.eps invalid)).size = .split a c := by
          rw [hr.at_ne (by sz) (by sz) (by sz), p.get_ne (by sz), get_push_eq]; exact hq
        have hsub : Realizes N b1 b.size b1.size e b1.size :=
          hr.sub (Nat.le_refl _) (by sz) (Or.inr (Nat.le_refl _)) fun q _ hq => p.get_sub e13.get h2 q hq
        have fsub := hF _ _ _ _ _ hw hf (by sz) N _ hsub
        exact (fragSem_split_either hsplit hac (fsub.post_eps hend) (fragSem_eps hend)).congr fun i j => by
          unfold idRel; exact Or.comm

/-! ### concatenation -/

theorem MCat_nil (h : Bytes) (i j : Nat) : MCat [] h i j ↔ idRel i j := by rw [MCat]; rfl

theorem MCat_cons (r : Regex) (rs : List Regex) (h : Bytes) (i j : Nat) :
    MCat (r :: rs) h i j ↔ comp (M r h) (MCat rs h) i j := by rw [MCat]; rfl

theorem concatLoop_ok {f : Rec} (hS : ShapeOK f) (b0 : Builder) : ∀ (rs : List Regex) (e : Nat) (b : Builder) (E : Nat)
    (b' : Builder), concatLoop f rs e b = some (E, b') → ∀ s, Shape b0 b s e →
    Shape b0 b' s E ∧ b.size ≤ b'.size ∧
      ∀ h, AltOKs rs → SemOK h f → ∀ R, FragOK h b0 b s e R → FragOK h b0 b' s E (comp R (MCat rs h)) := by
  intro rs
  induction rs with
  | nil =>
    intro e b E b' hc s sh
    simp only [concatLoop, Option.some.injEq, Prod.mk.injEq] at hc
    obtain ⟨rfl, rfl⟩ := hc
    exact ⟨sh, Nat.le_refl _, fun h _ _ R fR => fR.congr fun i j => by
      rw [← comp_idRel_right R i j]; exact comp_congr_right (fun i j => (MCat_nil h i j).symm) i j⟩
  | cons r rs ih =>
    intro e b E b' hc s sh
    unfold concatLoop at hc
    cases hf : f r b with
    | none => simp [hf] at hc
    | some fr =>
      obtain ⟨ns, ne, b1⟩ := fr
      simp only [hf] at hc
      split at hc
      · cases hc
      · rename_i b2 hp
        have shr := hS _ _ _ _ _ hf
        have h1 := sh.ext.size; have h2 := sh.e_hi; have h3 := sh.e_lo; have h4 := sh.s_lo; have h5 := sh.s_hi
        have g1 := shr.ext.size; have g2 := shr.e_hi; have g3 := shr.e_lo; have g4 := shr.s_lo; have g5 := shr.s_hi
        have p := patchOrEps_some (by omega) hp
        have h6 := p.size
        have sh2 : Shape b0 b2 s ne :=
          ⟨(sh.ext.trans shr.ext).patch p h3, h4, by omega, by omega, by omega, by rw [p.get_ne (by omega)]; exact shr.pat,
            fun t => (shr.tok (sh.tok t)).patch p (refOK_lt g5)⟩
        obtain ⟨r1, r2, r3⟩ := ih ne b2 E b' hc s sh2
        refine ⟨r1, by omega, fun h hw hF R fR => (r3 h hw.2 hF (comp R (M r h)) ?_).congr fun i j => ?_⟩
        · intro hb N T hr
          have hN1 : Realizes N b b0.size b.size e ns :=
            hr.sub (Nat.le_refl _) (by omega) (Or.inr (by omega)) fun q _ hq =>
              p.get_sub (fun q hq => shr.ext.get q hq) h2 q hq
          have hN2 : Realizes N b1 b.size b1.size ne T := by
            intro q q1 q2
            rw [hr q (by omega) (by omega), p.get_ne (by omega)]
          exact (fR (by omega) N ns hN1).seq (hF _ _ _ _ _ hw.1 hf (by omega) N T hN2)
        · rw [comp_assoc]; exact comp_congr_right (fun i j => (MCat_cons r rs h i j).symm) i j

theorem compileConcat_ok {f : Rec} {rs : List Regex} {b b' : Builder} {s e : Nat} (hS : ShapeOK f)
    (hc : compileConcat f rs b = some (s, e, b')) :
    Shape b b' s e ∧ ∀ h, AltOKs rs → SemOK h f → FragOK h b b' s e (MCat rs h) := by
  unfold compileConcat at hc
  split at hc
  · simp only [emptyMatch, Option.some.injEq, Prod.mk.injEq] at hc
    obtain ⟨rfl, rfl, rfl⟩ := hc
    exact ⟨emptyMatch_shape b, fun h _ _ => (emptyMatch_sem h b).congr fun i j => (MCat_nil h i j).symm⟩
  · rename_i r
    exact ⟨hS _ _ _ _ _ hc, fun h hw hF => (hF _ _ _ _ _ hw.1 hc).congr fun i j => by
      rw [MCat_cons, ← comp_idRel_right (M r h) i j]; exact comp_congr_right (fun i j => (MCat_nil h i j).symm) i j⟩
  · rename_i r r2 rs
    cases hf : f r b with
    | none => simp [hf] at hc
    | some fr =>
      obtain ⟨s1, e1, b1⟩ := fr
      simp only [hf] at hc
      split at hc
      · cases hc
      · rename_i E b2 hl
        simp only [Option.some.injEq, Prod.mk.injEq] at hc
        obtain ⟨rfl, rfl, rfl⟩ := hc
        have sh := hS _ _ _ _ _ hf
        obtain ⟨r1, _, r3⟩ := concatLoop_ok hS b (r2 :: rs) e1 b1 _ _ hl _ sh
        exact ⟨r1, fun h hw hF => (r3 h hw.2 hF (M r h) (hF _ _ _ _ _ hw.1 hf)).congr fun i j =>
          (MCat_cons r (r2 :: rs) h i j).symm⟩

/-! ### alternation -/

theorem MAlt_nil (h : Bytes) (i j : Nat) : MAlt [] h i j ↔ False := by rw [MAlt]

theorem MAlt_cons (r : Regex) (rs : List Regex) (h : Bytes) (i j : Nat) :
    MAlt (r :: rs) h i j ↔ (M r h i j ∨ MAlt rs h i j) := by rw [MAlt]

/-- every compiled alternative `ss[k]` is a fragment for `rs[k]` that exits to `J` -/
def AltSem (N : NFA) (h : Bytes) (J : Nat) : List Nat → List Regex → Prop
  | [], [] => True
  | s :: ss, r :: rs => FragSem N h s J (M r h) ∧ AltSem N h J ss rs
  | _, _ => False

theorem altSubs_ok {f : Rec} (hS : ShapeOK f) : ∀ (rs : List Regex) (b : Builder) (ss es : List Nat) (b' : Builder),
    altSubs f rs b = some (ss, es, b') →
    Ext b b' ∧ ss.length = rs.length ∧ (∀ e, e ∈ es → b.size ≤ e ∧ e < b'.size ∧ patchable (b'.get e) = true) ∧
      ∀ h, AltOKs rs → SemOK h f → b'.size ≤ invalid → ∀ N J,
        (∀ q, b.size ≤ q → q < b'.size → N.get q = if q ∈ es then setNext (b'.get q) J else b'.get q) →
        AltSem N h J ss rs := by
  intro rs
  induction rs with
  | nil =>
    intro b ss es b' hc
    simp only [altSubs, Option.some.injEq, Prod.mk.injEq] at hc
    obtain ⟨rfl, rfl, rfl⟩ := hc
    exact ⟨Ext.refl _, rfl, fun e he => absurd he (by simp), fun _ _ _ _ _ _ _ => trivial⟩
  | cons r rs ih =>
    intro b ss es b' hc
    unfold altSubs at hc
    cases hf : f r b with
    | none => simp [hf] at hc
    | some fr =>
      obtain ⟨s, e, b1⟩ := fr
      simp only [hf] at hc
      split at hc
      · cases hc
      · rename_i ss' es' b2 ha
        simp only [Option.some.injEq, Prod.mk.injEq] at hc
        obtain ⟨rfl, rfl, rfl⟩ := hc
        have shr := hS _ _ _ _ _ hf
        have g1 := shr.ext.size; have g2 := shr.e_hi; have g3 := shr.e_lo; have g4 := shr.s_lo; have g5 := shr.s_hi
        obtain ⟨i1, i2, i3, i4⟩ := ih b1 ss' es' b2 ha
        have k1 := i1.size
        refine ⟨shr.ext.trans i1, by simp [i2], ?_, ?_⟩
        · intro x hx
          rcases List.mem_cons.mp hx with rfl | hx
          · exact ⟨g3, by omega, by rw [i1.get _ g2]; exact shr.pat⟩
          · have := i3 x hx; exact ⟨by omega, this.2.1, this.2.2⟩
        · intro h hw hF hb N J hN
          have hnot : ∀ q, q < b1.size → q ∉ es' := fun q hq hm => by have := (i3 q hm).1; omega
          refine ⟨hF _ _ _ _ _ hw.1 hf (by omega) N J ?_, i4 h hw.2 hF hb N J ?_⟩
          · intro q q1 q2
            rw [hN q q1 (by omega), i1.get q q2]
            by_cases hq : q = e
            · subst hq; rw [if_pos List.mem_cons_self, if_pos rfl]
            · rw [if_neg hq, if_neg]
              intro hm
              rcases List.mem_cons.mp hm with hm | hm
              · exact hq hm
              · exact hnot q q2 hm
          · intro q q1 q2
            rw [hN q (by omega) q2]
            by_cases hq : q ∈ es'
            · rw [if_pos hq, if_pos (List.mem_cons_of_mem _ hq)]
            · rw [if_neg hq, if_neg]
              intro hm
              rcases List.mem_cons.mp hm with hm | hm
              · omega
              · exact hq hm

theorem splitChain_ok : ∀ (ss : List Nat) (b : Builder) (st : Nat) (b' : Builder), splitChain ss b = (st, b') →
    Ext b b' ∧ (2 ≤ ss.length → b.size ≤ st ∧ st < b'.size) ∧
      ∀ N h J rs, ss ≠ [] → (∀ q, b.size ≤ q → q < b'.size → N.get q = b'.get q) → AltSem N h J ss rs →
        FragSem N h st J (MAlt rs h)
  | [], b, st, b', hc => by
    simp only [splitChain, Prod.mk.injEq] at hc
    obtain ⟨rfl, rfl⟩ := hc
    exact ⟨Ext.refl _, fun h => absurd h (by simp), fun _ _ _ _ h => absurd rfl h⟩
  | [t], b, st, b', hc => by
    simp only [splitChain, Prod.mk.injEq] at hc
    obtain ⟨rfl, rfl⟩ := hc
    refine ⟨Ext.refl _, fun h => absurd h (by simp), fun N h J rs _ _ ha => ?_⟩
    match rs, ha with
    | [r], ha => exact ha.1.congr fun i j => by rw [MAlt_cons, MAlt_nil]; simp
    | [], ha => exact ha.elim
    | _ :: _ :: _, ha => exact ha.2.elim
  | t :: t2 :: ts, b, st, b', hc => by
    simp only [splitChain, Prod.mk.injEq] at hc
    obtain ⟨rfl, rfl⟩ := hc
    obtain ⟨i1, _, i3⟩ := splitChain_ok (t2 :: ts) b _ _ rfl
    have k1 := i1.size
    refine ⟨i1.trans (Ext.push _ _), fun _ => ⟨k1, by sz⟩, fun N h J rs _ hN ha => ?_⟩
    match rs, ha with
    | [], ha => exact ha.elim
    | r :: rs, ha =>
      have hsp : N.get (splitChain (t2 :: ts) b).2.size = .split t (splitChain (t2 :: ts) b).1 := by
        rw [hN _ k1 (by sz), get_push_eq]
      have frest := i3 N h J rs (by simp) (fun q q1 q2 => by rw [hN q q1 (by sz), get_push_lt q2]) ha.2
      exact (fragSem_split hsp ha.1 frest).congr fun i j => (MAlt_cons r rs h i j).symm

theorem patchAll_ok (join : Nat) : ∀ (es : List Nat) (b : Builder),
    (∀ e, e ∈ es → e < b.size ∧ patchable (b.get e) = true) →
    (patchAll join es b).size = b.size ∧
      ∀ q, (patchAll join es b).get q = if q ∈ es then setNext (b.get q) join else b.get q := by
  intro es
  induction es with
  | nil => intro b _; exact ⟨rfl, fun q => by simp [patchAll]⟩
  | cons e es ih =>
    intro b hb
    obtain ⟨b1, hp⟩ := patch_of join (hb e List.mem_cons_self).1 (hb e List.mem_cons_self).2
    have p := patch_some hp
    have hb1 : ∀ x, x ∈ es → x < b1.size ∧ patchable (b1.get x) = true := by
      intro x hx
      have := hb x (List.mem_cons_of_mem _ hx)
      refine ⟨by rw [p.size]; exact this.1, ?_⟩
      rw [p.get]
      split
      · rw [patchable_setNext]; exact p.pat
      · exact this.2
    obtain ⟨i1, i2⟩ := ih b1 hb1
    unfold patchAll
    rw [hp]
    refine ⟨by rw [i1, p.size], fun q => ?_⟩
    rw [i2 q, p.get]
    by_cases hq : q = e
    · subst hq
      rw [if_pos rfl, if_pos List.mem_cons_self]
      split
      · rw [setNext_setNext]
      · rfl
    · rw [if_neg hq]
      by_cases hm : q ∈ es
      · rw [if_pos hm, if_pos (List.mem_cons_of_mem _ hm)]
      · rw [if_neg hm, if_neg]
        intro hm'
        rcases List.mem_cons.mp hm' with h1 | h1
        · exact hq h1
        · exact hm h1

theorem altSubs_tok {f : Rec} (hS : ShapeOK f) : ∀ (rs : List Regex) (b : Builder) (ss es : List Nat) (b' : Builder),
    altSubs f rs b = some (ss, es, b') → (TOK b → TOK b') ∧ ∀ s, s ∈ ss → s < b'.size := by
  intro rs
  induction rs with
  | nil =>
    intro b ss es b' hc
    simp only [altSubs, Option.some.injEq, Prod.mk.injEq] at hc
    obtain ⟨rfl, rfl, rfl⟩ := hc
    exact ⟨id, fun s hs => absurd hs (by simp)⟩
  | cons r rs ih =>
    intro b ss es b' hc
    unfold altSubs at hc
    cases hf : f r b with
    | none => simp [hf] at hc
    | some fr =>
      obtain ⟨s, e, b1⟩ := fr
      simp only [hf] at hc
      split at hc
      · cases hc
      · rename_i ss' es' b2 ha
        simp only [Option.some.injEq, Prod.mk.injEq] at hc
        obtain ⟨rfl, rfl, rfl⟩ := hc
        have shr := hS _ _ _ _ _ hf
        have k := (altSubs_ok hS _ _ _ _ _ ha).1.size
        obtain ⟨i1, i2⟩ := ih b1 ss' es' b2 ha
        refine ⟨fun t => i1 (shr.tok t), fun x hx => ?_⟩
        rcases List.mem_cons.mp hx with rfl | hx
        · have := shr.s_hi; omega
        · exact i2 x hx

theorem splitChain_tok : ∀ (ss : List Nat) (b : Builder), (∀ t, t ∈ ss → t < b.size) → TOK b →
    TOK (splitChain ss b).2 ∧ (ss ≠ [] → (splitChain ss b).1 < (splitChain ss b).2.size)
  | [], b, _, t => ⟨t, fun h => absurd rfl h⟩
  | [x], b, hx, t => ⟨t, fun _ => hx x (List.mem_singleton.mpr rfl)⟩
  | x :: x2 :: ts, b, hx, t => by
    obtain ⟨i1, i2⟩ := splitChain_tok (x2 :: ts) b (fun y hy => hx y (List.mem_cons_of_mem _ hy)) t
    have k := (splitChain_ok (x2 :: ts) b _ _ rfl).1.size
    have hx1 := hx x List.mem_cons_self
    simp only [splitChain]
    refine ⟨i1.push ?_, fun _ => by sz⟩
    simp only [stateTargetsOK, Bool.and_eq_true]
    exact ⟨refOK_lt (by omega), refOK_lt (by have := i2 (by simp); omega)⟩

theorem patchAll_tok (join : Nat) (es : List Nat) (b : Builder)
    (hes : ∀ e, e ∈ es → e < b.size ∧ patchable (b.get e) = true) (t : TOK b) (hj : join < b.size) :
    TOK (patchAll join es b) := by
  obtain ⟨p1, p2⟩ := patchAll_ok join es b hes
  intro q hq
  rw [p1] at hq ⊢
  rw [p2]
  split
  · exact stateTargetsOK_setNext (t q hq) (refOK_lt hj)
  · exact t q hq

theorem compileAlternate_ok {f : Rec} {rs : List Regex} {b b' : Builder} {s e : Nat} (hS : ShapeOK f) (hne : rs ≠ [])
    (hc : compileAlternate f rs b = some (s, e, b')) :
    Shape b b' s e ∧ ∀ h, AltOKs rs → SemOK h f → FragOK h b b' s e (MAlt rs h) := by
  unfold compileAlternate at hc
  split at hc
  · exact absurd rfl hne
  · rename_i r
    exact ⟨hS _ _ _ _ _ hc, fun h hw hF => (hF _ _ _ _ _ hw.1 hc).congr fun i j => by rw [MAlt_cons, MAlt_nil]; simp⟩
  · rename_i r r2 rs
    split at hc
    · cases hc
    · rename_i ss es b1 ha
      simp only [Option.some.injEq, Prod.mk.injEq] at hc
      obtain ⟨rfl, rfl, rfl⟩ := hc
      obtain ⟨a1, a2, a3, a4⟩ := altSubs_ok hS _ _ _ _ _ ha
      obtain ⟨c1, c2, c3⟩ := splitChain_ok ss b1 _ _ rfl
      have hlen : 2 ≤ ss.length := by rw [a2]; simp
      have c2 := c2 hlen
      have k1 := a1.size; have k2 := c1.size
      have hes : ∀ x, x ∈ es → x < ((splitChain ss b1).2.push (.eps invalid)).size ∧
          patchable (Builder.get ((splitChain ss b1).2.push (.eps invalid)) x) = true := by
        intro x hx
        have := a3 x hx
        exact ⟨by sz, by rw [get_push_lt (by omega), c1.get x this.2.1]; exact this.2.2⟩
      obtain ⟨p1, p2⟩ := patchAll_ok (splitChain ss b1).2.size es _ hes
      have hnot : ∀ q, q < b.size ∨ b1.size ≤ q → q ∉ es := fun q hq hm => by have := a3 q hm; omega
      refine ⟨⟨⟨by sz, fun q hq => ?_⟩, by omega, by sz, by omega, by sz, ?_, ?_⟩, ?_⟩
      · rw [p2 q, if_neg (hnot q (Or.inl hq)), get_push_lt (by omega), c1.get q (by omega), a1.get q hq]
      · rw [p2, if_neg (hnot _ (Or.inr k2)), get_push_eq]; rfl
      · intro t
        obtain ⟨t1, t2⟩ := altSubs_tok hS _ _ _ _ _ ha
        exact patchAll_tok _ es _ hes (((splitChain_tok ss b1 t2 (t1 t)).1).push (tok_eps _)) (by sz)
      · intro h hw hF hb N T hr
        have hjoin : N.get (splitChain ss b1).2.size = .eps T := by
          rw [hr.at_e (by omega) (by sz), p2, if_neg (hnot _ (Or.inr k2)), get_push_eq]; rfl
        have hsubs := a4 h hw hF (by sz) N (splitChain ss b1).2.size (fun q q1 q2 => by
          rw [hr.at_ne q1 (by sz) (by omega), p2 q, get_push_lt (by omega), c1.get q q2])
        have hchain := c3 N h (splitChain ss b1).2.size (r :: r2 :: rs) (by intro h0; rw [h0] at hlen; simp at hlen)
          (fun q q1 q2 => by
            rw [hr.at_ne (by omega) (by sz) (by omega), p2 q, if_neg (hnot _ (Or.inr q1)), get_push_lt q2]) hsubs
        exact hchain.post_eps hjoin

/-! ### counted repetition -/

theorem iter_add (R : Nat → Nat → Prop) : ∀ (a b i j : Nat), iter R (a + b) i j ↔ ∃ k, iter R a i k ∧ iter R b k j
  | 0, b, i, j => by
    rw [Nat.zero_add]
    exact ⟨fun hh => ⟨i, rfl, hh⟩, fun ⟨k, h1, h2⟩ => by cases h1; exact h2⟩
  | a+1, b, i, j => by
    have e : a + 1 + b = (a + b) + 1 := by omega
    rw [e]
    constructor
    · intro ⟨k1, h1, h2⟩
      obtain ⟨k, h3, h4⟩ := (iter_add R a b k1 j).mp h2
      exact ⟨k, ⟨k1, h1, h3⟩, h4⟩
    · intro ⟨k, ⟨k1, h1, h3⟩, h4⟩
      exact ⟨k1, h1, (iter_add R a b k1 j).mpr ⟨k, h3, h4⟩⟩

theorem MCat_replicate_append (r : Regex) (tail : List Regex) (h : Bytes) : ∀ (n i j : Nat),
    MCat (List.replicate n r ++ tail) h i j ↔ ∃ k, iter (M r h) n i k ∧ MCat tail h k j
  | 0, i, j => by
    simp only [List.replicate_zero, List.nil_append]
    exact ⟨fun hh => ⟨i, rfl, hh⟩, fun ⟨k, h1, h2⟩ => by cases h1; exact h2⟩
  | n+1, i, j => by
    rw [List.replicate_succ, List.cons_append, MCat_cons]
    constructor
    · intro ⟨k1, h1, h2⟩
      obtain ⟨k, h3, h4⟩ := (MCat_replicate_append r tail h n k1 j).mp h2
      exact ⟨k, ⟨k1, h1, h3⟩, h4⟩
    · intro ⟨k, ⟨k1, h1, h3⟩, h4⟩
      exact ⟨k1, h1, (MCat_replicate_append r tail h n k1 j).mpr ⟨k, h3, h4⟩⟩

theorem MCat_replicate (r : Regex) (h : Bytes) (n i j : Nat) :
    MCat (List.replicate n r) h i j ↔ iter (M r h) n i j := by
  have := MCat_replicate_append r [] h n i j
  rw [List.append_nil] at this
  rw [this]
  constructor
  · intro ⟨k, h1, h2⟩; rw [MCat_nil] at h2; cases h2; exact h1
  · intro h1; exact ⟨j, h1, (MCat_nil h j j).mpr rfl⟩

theorem M_rep_none (r : Regex) (mn : Nat) (g : Bool) (h : Bytes) (i j : Nat) :
    M (.rep r mn none g) h i j ↔ ∃ n, mn ≤ n ∧ iter (M r h) n i j := by
  rw [M]; simp [underMax]

theorem M_rep_some (r : Regex) (mn mx : Nat) (g : Bool) (h : Bytes) (i j : Nat) :
    M (.rep r mn (some mx) g) h i j ↔ ∃ n, mn ≤ n ∧ n ≤ mx ∧ iter (M r h) n i j := by
  rw [M]; simp [underMax]

theorem M_plus (r : Regex) (g : Bool) (h : Bytes) (i j : Nat) :
    M (.plus r g) h i j ↔ ∃ n, 1 ≤ n ∧ iter (M r h) n i j := by
  rw [M]

/-- `compileRepeatMin` for m ≥ 1: m-1 copies and the synthetic `OpPlus` through `compileConcat` (which compiles a
    single operand directly, as the `len(subs) == 1` shortcut does) -/
theorem compileRepeatMin_eq (f : Rec) (r : Regex) {mn : Nat} (g : Bool) (b : Builder) (hz : mn ≠ 0) :
    compileRepeatMin f r mn g b = compileConcat f (List.replicate (mn - 1) r ++ [Regex.plus r g]) b := by
  unfold compileRepeatMin
  rw [if_neg hz]
  by_cases h1 : mn - 1 = 0
  · rw [h1]; rfl
  · have : ¬ (List.replicate (mn - 1) r ++ [Regex.plus r g]).length = 1 := by
      simp only [List.length_append, List.length_replicate, List.length_singleton]; omega
    simp only [this, if_false]

/-- the language of `d` nested optional copies `(x(x(…)?)?)?` in front of a continuation `R` -/
def optNest (Mr : Nat → Nat → Prop) : Nat → (Nat → Nat → Prop) → Nat → Nat → Prop
  | 0, R => R
  | d+1, R => fun i j => comp Mr (optNest Mr d R) i j ∨ idRel i j

theorem optNest_id (Mr : Nat → Nat → Prop) : ∀ (d i j : Nat), optNest Mr d idRel i j ↔ ∃ n, n ≤ d ∧ iter Mr n i j
  | 0, i, j => by
    show idRel i j ↔ _
    constructor
    · intro hh; exact ⟨0, Nat.le_refl _, hh⟩
    · intro ⟨n, h1, h2⟩
      have : n = 0 := by omega
      subst this; exact h2
  | d+1, i, j => by
    show (comp Mr (optNest Mr d idRel) i j ∨ idRel i j) ↔ _
    constructor
    · intro hh
      rcases hh with ⟨k, h1, h2⟩ | hh
      · obtain ⟨n, h3, h4⟩ := (optNest_id Mr d k j).mp h2
        exact ⟨n + 1, by omega, k, h1, h4⟩
      · exact ⟨0, by omega, hh⟩
    · intro ⟨n, h1, h2⟩
      cases n with
      | zero => exact Or.inr h2
      | succ n =>
        obtain ⟨k, h3, h4⟩ := h2
        exact Or.inl ⟨k, h3, (optNest_id Mr d k j).mpr ⟨n, by omega, h4⟩⟩

/-- `N` carries the states `[lo, hi)` of builder `b`, the exit `e` patched to `X` and the epsilon `fin` to `T` -/
def Realizes2 (N : NFA) (b : Builder) (lo hi e X fin T : Nat) : Prop :=
  ∀ q, lo ≤ q → q < hi →
    N.get q = if q = e then setNext (b.get q) X else if q = fin then setNext (b.get q) T else b.get q

/-- the state of the second loop of `compileRepeatRange`, whatever the size of the builder: entry `st`, the end `en`
    of the last copy (still dangling) and the shared exit `fin` (an epsilon, still dangling) -/
structure LoopSh (b0 b : Builder) (st en fin : Nat) : Prop where
  ext : Ext b0 b
  tok : TOK b0 → TOK b
  s_lo : b0.size ≤ st
  s_hi : st < b.size
  e_lo : b0.size ≤ en
  e_hi : en < b.size
  pat : patchable (b.get en) = true
  f_lo : b0.size ≤ fin
  f_hi : fin < b.size
  f_get : b.get fin = .eps invalid
  ne : en ≠ fin

/-- semantics of that state: whatever `en` is connected to (`X`, with language `R` from there to the target `T` of
    `fin`), the part built so far has language `F R` from `st` to `T` -/
def OptOK (h : Bytes) (b0 b : Builder) (st en fin : Nat) (F : (Nat → Nat → Prop) → Nat → Nat → Prop) : Prop :=
  b.size ≤ invalid → ∀ N T X R, Realizes2 N b b0.size b.size en X fin T → FragSem N h X T R → FragSem N h st T (F R)

/-- one optional copy: the fragment `(s, e)` compiled in `b`, then its quantifier split at `b1.size` -/
theorem optCopy_sem {f : Rec} {r : Regex} {g : Bool} {b0 b b1 bN : Builder} {s e fin : Nat}
    (hf : f r b = some (s, e, b1)) (shr : Shape b b1 s e) (_h0 : b0.size ≤ b.size) (hfl : b0.size ≤ fin) (hfh : fin < b.size)
    (hsz : bN.size = b1.size + 1)
    (hget : ∀ q, b.size ≤ q → bN.get q = Builder.get (b1.push (quantSplit g s fin)) q)
    (hfg : bN.get fin = .eps invalid)
    {h : Bytes} (hw : AltOK r) (hF : SemOK h f) (hb : bN.size ≤ invalid) {N : NFA} {T X : Nat} {R : Nat → Nat → Prop}
    (hr : Realizes2 N bN b0.size bN.size e X fin T) (hX : FragSem N h X T R) :
    N.get fin = .eps T ∧ FragSem N h b1.size T (fun i j => comp (M r h) R i j ∨ idRel i j) := by
  have g1 := shr.ext.size; have g2 := shr.e_hi; have g3 := shr.e_lo; have g4 := shr.s_lo; have g5 := shr.s_hi
  have hfin : N.get fin = .eps T := by
    rw [hr fin hfl (by omega), if_neg (by omega), if_pos rfl, hfg]; rfl
  obtain ⟨a, c, hq, hac⟩ := quantSplit_cases g s fin
  have hsplit : N.get b1.size = .split a c := by
    rw [hr b1.size (by omega) (by omega), if_neg (by omega), if_neg (by omega), hget _ (by omega), get_push_eq]; exact hq
  have hsub : Realizes N b1 b.size b1.size e X := by
    intro q q1 q2
    rw [hr q (by omega) (by omega)]
    by_cases hqe : q = e
    · rw [if_pos hqe, if_pos hqe, hget q q1, get_push_lt q2]
    · rw [if_neg hqe, if_neg hqe, if_neg (by omega), hget q q1, get_push_lt q2]
  have fsub := hF _ _ _ _ _ hw hf (by omega) N X hsub
  exact ⟨hfin, fragSem_split_either hsplit hac (fsub.seq hX) (fragSem_eps hfin)⟩

/-- the second loop of `compileRepeatRange` -/
theorem rangeOptLoop_ok {f : Rec} {r : Regex} {g : Bool} (hS : ShapeOK f) (b0 : Builder) (fin : Nat) :
    ∀ (d st en : Nat) (b : Builder) (st' en' : Nat) (b' : Builder),
    rangeOptLoop f r g fin d st en b = some (st', en', b') → LoopSh b0 b st en fin →
    LoopSh b0 b' st' en' fin ∧ b.size ≤ b'.size ∧
      ∀ h, AltOK r → SemOK h f → ∀ F, OptOK h b0 b st en fin F →
        OptOK h b0 b' st' en' fin (fun R => F (optNest (M r h) d R)) := by
  intro d
  induction d with
  | zero =>
    intro st en b st' en' b' hc sh
    simp only [rangeOptLoop, Option.some.injEq, Prod.mk.injEq] at hc
    obtain ⟨rfl, rfl, rfl⟩ := hc
    exact ⟨sh, Nat.le_refl _, fun h _ _ F inv => inv⟩
  | succ d ih =>
    intro st en b st' en' b' hc sh
    unfold rangeOptLoop at hc
    cases hf : f r b with
    | none => simp [hf] at hc
    | some fr =>
      obtain ⟨s, e, b1⟩ := fr
      simp only [hf] at hc
      have shr := hS _ _ _ _ _ hf
      have g1 := shr.ext.size; have g2 := shr.e_hi; have g3 := shr.e_lo; have g4 := shr.s_lo; have g5 := shr.s_hi
      have k1 := sh.ext.size; have k2 := sh.e_hi; have k3 := sh.e_lo; have k4 := sh.s_lo; have k5 := sh.s_hi
      have k6 := sh.f_lo; have k7 := sh.f_hi; have k8 := sh.ne
      have hsz2 : (b1.push (quantSplit g s fin)).size = b1.size + 1 := by simp
      split at hc
      · -- `start == InvalidState`: the split becomes the start
        rename_i hst
        have sh2 : LoopSh b0 (b1.push (quantSplit g s fin)) b1.size e fin :=
          ⟨(sh.ext.trans shr.ext).trans (Ext.push _ _),
            fun t => (shr.tok (sh.tok t)).push (tok_quantSplit g (by omega) (by omega)),
            by omega, by omega, by omega, by omega, by rw [get_push_lt g2]; exact shr.pat, k6, by omega,
            by rw [get_push_lt (by omega), shr.ext.get fin k7]; exact sh.f_get, by omega⟩
        obtain ⟨r1, r2, r3⟩ := ih _ _ _ _ _ _ hc sh2
        refine ⟨r1, by omega, fun h hw hF F _ =>
          r3 h hw hF (fun R' => F (fun i j => comp (M r h) R' i j ∨ idRel i j)) ?_⟩
        intro hb
        exfalso
        omega
      · split at hc
        · cases hc
        · rename_i hst b3 hp
          have p := patchOrEps_some (by omega) hp
          have h6 := p.size
          have sh3 : LoopSh b0 b3 st e fin :=
            ⟨((sh.ext.trans shr.ext).trans (Ext.push _ _)).patch p k3,
              fun t => ((shr.tok (sh.tok t)).push (tok_quantSplit g (by omega) (by omega))).patch p (refOK_lt (by omega)),
              k4, by omega, by omega, by omega, by rw [p.get_ne (by omega), get_push_lt g2]; exact shr.pat, k6, by omega,
              by rw [p.get_ne (fun hh => k8 hh.symm), get_push_lt (by omega), shr.ext.get fin k7]; exact sh.f_get, by omega⟩
          obtain ⟨r1, r2, r3⟩ := ih _ _ _ _ _ _ hc sh3
          refine ⟨r1, by omega, fun h hw hF F inv =>
            r3 h hw hF (fun R' => F (fun i j => comp (M r h) R' i j ∨ idRel i j)) ?_⟩
          intro hb N T X R' hr hX
          have hfg : b3.get fin = .eps invalid := sh3.f_get
          obtain ⟨hfin, fsp⟩ := optCopy_sem (g := g) (b0 := b0) hf shr k1 k6 k7 (by omega)
            (fun q hq => p.get_ne (by omega)) hfg hw hF hb hr hX
          refine inv (by omega) N T b1.size _ ?_ fsp
          intro q q1 q2
          rw [hr q q1 (by omega), if_neg (by omega)]
          by_cases hqn : q = en
          · subst hqn
            rw [if_neg k8, if_pos rfl, p.get_eq, get_push_lt (by omega), shr.ext.get q q2]
          · rw [if_neg hqn, p.get_ne hqn, get_push_lt (by omega), shr.ext.get q q2]

/-- the second loop, the final epsilon and the last `connect` -/
theorem rangeTail_ok {f : Rec} {r : Regex} {g : Bool} (hS : ShapeOK f) {b0 b2 b3 b4 : Builder} {fin d st en st' en' : Nat}
    (hl : rangeOptLoop f r g fin d st en b2 = some (st', en', b3)) (hp : patchOrEps b3 en' fin = some b4)
    (sh : LoopSh b0 b2 st en fin) :
    Shape b0 b4 st' fin ∧ ∀ h, AltOK r → SemOK h f → ∀ F, OptOK h b0 b2 st en fin F →
      FragOK h b0 b4 st' fin (F (optNest (M r h) d idRel)) := by
  obtain ⟨l1, _, l3⟩ := rangeOptLoop_ok hS b0 fin d st en b2 st' en' b3 hl sh
  have p := patchOrEps_some l1.e_hi hp
  have h6 := p.size
  have k2 := l1.e_hi; have k3 := l1.e_lo; have k4 := l1.s_lo; have k5 := l1.s_hi
  have k6 := l1.f_lo; have k7 := l1.f_hi; have k8 := l1.ne
  have hfg : b4.get fin = .eps invalid := by rw [p.get_ne (fun hh => k8 hh.symm)]; exact l1.f_get
  refine ⟨⟨l1.ext.patch p k3, k4, by omega, k6, by omega, by rw [hfg]; rfl,
    fun t => (l1.tok t).patch p (refOK_lt k7)⟩, ?_⟩
  intro h hw hF F inv hb N T hr
  have hfin : N.get fin = .eps T := by rw [hr.at_e k6 (by omega), hfg]; rfl
  refine l3 h hw hF F inv (by omega) N T fin idRel ?_ (fragSem_eps hfin)
  intro q q1 q2
  rw [hr q q1 (by omega)]
  by_cases hqn : q = en'
  · subst hqn
    rw [if_neg k8, if_pos rfl, p.get_eq]
  · rw [if_neg hqn, p.get_ne hqn]

/-- the first loop of `compileRepeatRange`, after the first copy -/
theorem rangeMinLoop_ok {f : Rec} {r : Regex} (hS : ShapeOK f) (b0 : Builder) :
    ∀ (n st en : Nat) (b : Builder) (st' en' : Nat) (b' : Builder),
    rangeMinLoop f r n st en b = some (st', en', b') → Shape b0 b st en →
    Shape b0 b' st' en' ∧ b.size ≤ b'.size ∧
      ∀ h, AltOK r → SemOK h f → ∀ R, FragOK h b0 b st en R → FragOK h b0 b' st' en' (comp R (iter (M r h) n)) := by
  intro n
  induction n with
  | zero =>
    intro st en b st' en' b' hc sh
    simp only [rangeMinLoop, Option.some.injEq, Prod.mk.injEq] at hc
    obtain ⟨rfl, rfl, rfl⟩ := hc
    exact ⟨sh, Nat.le_refl _, fun h _ _ R fR => fR.congr fun i j => (comp_idRel_right R i j).symm⟩
  | succ n ih =>
    intro st en b st' en' b' hc sh
    unfold rangeMinLoop at hc
    cases hf : f r b with
    | none => simp [hf] at hc
    | some fr =>
      obtain ⟨s, e, b1⟩ := fr
      simp only [hf] at hc
      have shr := hS _ _ _ _ _ hf
      have g1 := shr.ext.size; have g2 := shr.e_hi; have g3 := shr.e_lo; have g4 := shr.s_lo; have g5 := shr.s_hi
      have h1 := sh.ext.size; have h2 := sh.e_hi; have h3 := sh.e_lo; have h4 := sh.s_lo; have h5 := sh.s_hi
      split at hc
      · -- `start == InvalidState`
        rename_i hst
        have sh2 : Shape b0 b1 s e :=
          ⟨sh.ext.trans shr.ext, by omega, g5, by omega, g2, shr.pat, fun t => shr.tok (sh.tok t)⟩
        obtain ⟨r1, r2, r3⟩ := ih _ _ _ _ _ _ hc sh2
        refine ⟨r1, by omega, fun h hw hF R _ => (r3 h hw hF (comp R (M r h)) ?_).congr fun i j => comp_assoc _ _ _ i j⟩
        intro hb
        exfalso
        omega
      · split at hc
        · cases hc
        · rename_i hst b2 hp
          have p := patchOrEps_some (by omega) hp
          have h6 := p.size
          have sh2 : Shape b0 b2 st e :=
            ⟨(sh.ext.trans shr.ext).patch p h3, h4, by omega, by omega, by omega, by rw [p.get_ne (by omega)]; exact shr.pat,
              fun t => (shr.tok (sh.tok t)).patch p (refOK_lt g5)⟩
          obtain ⟨r1, r2, r3⟩ := ih _ _ _ _ _ _ hc sh2
          refine ⟨r1, by omega, fun h hw hF R fR => (r3 h hw hF (comp R (M r h)) ?_).congr fun i j => comp_assoc _ _ _ i j⟩
          intro hb N T hr
          have hN1 : Realizes N b b0.size b.size en s :=
            hr.sub (Nat.le_refl _) (by omega) (Or.inr (by omega)) fun q _ hq =>
              p.get_sub (fun q hq => shr.ext.get q hq) h2 q hq
          have hN2 : Realizes N b1 b.size b1.size e T := by
            intro q q1 q2
            rw [hr q (by omega) (by omega), p.get_ne (by omega)]
          exact (fR (by omega) N s hN1).seq (hF _ _ _ _ _ hw hf (by omega) N T hN2)

/-- the first loop of `compileRepeatRange`, entered with `start = InvalidState`, at least one copy -/
theorem rangeMinLoop_fresh {f : Rec} {r : Regex} (hS : ShapeOK f) {n en : Nat} {b : Builder} {st' en' : Nat} {b' : Builder}
    (hc : rangeMinLoop f r (n + 1) invalid en b = some (st', en', b')) :
    Shape b b' st' en' ∧ ∀ h, AltOK r → SemOK h f → FragOK h b b' st' en' (iter (M r h) (n + 1)) := by
  unfold rangeMinLoop at hc
  cases hf : f r b with
  | none => simp [hf] at hc
  | some fr =>
    obtain ⟨s, e, b1⟩ := fr
    simp only [hf, if_true] at hc
    obtain ⟨r1, _, r3⟩ := rangeMinLoop_ok hS b n s e b1 st' en' b' hc (hS _ _ _ _ _ hf)
    exact ⟨r1, fun h hw hF => (r3 h hw hF (M r h) (hF _ _ _ _ _ hw hf)).congr fun i j => Iff.rfl⟩

/-- `compileRepeatRange` (called with min < max) -/
theorem compileRepeatRange_ok {f : Rec} {r : Regex} {mn mx : Nat} {g : Bool} {b b' : Builder} {s e : Nat}
    (hS : ShapeOK f) (hlt : mn < mx) (hc : compileRepeatRange f r mn mx g b = some (s, e, b')) :
    Shape b b' s e ∧ ∀ h, AltOK r → SemOK h f → FragOK h b b' s e (M (.rep r mn (some mx) g) h) := by
  unfold compileRepeatRange at hc
  rw [if_neg (by omega)] at hc
  cases mn with
  | zero =>
    obtain ⟨d, rfl⟩ : ∃ d, mx = d + 1 := ⟨mx - 1, by omega⟩
    simp only [rangeMinLoop, Nat.sub_zero] at hc
    unfold rangeOptLoop at hc
    cases hf : f r (b.push (.eps invalid)) with
    | none => simp [hf] at hc
    | some fr =>
      obtain ⟨s1, e1, b1⟩ := fr
      simp only [hf, if_true] at hc
      have shr := hS _ _ _ _ _ hf
      have g1 := shr.ext.size; have g2 := shr.e_hi; have g3 := shr.e_lo; have g4 := shr.s_lo; have g5 := shr.s_hi
      have hsz1 : (b.push (NState.eps invalid)).size = b.size + 1 := by simp
      have hsz2 : (b1.push (quantSplit g s1 b.size)).size = b1.size + 1 := by simp
      split at hc
      · cases hc
      · rename_i st' en' b3 hl
        split at hc
        · cases hc
        · rename_i b4 hp
          simp only [Option.some.injEq, Prod.mk.injEq] at hc
          obtain ⟨rfl, rfl, rfl⟩ := hc
          have hfg : Builder.get (b1.push (quantSplit g s1 b.size)) b.size = .eps invalid := by
            rw [get_push_lt (by omega), shr.ext.get _ (by omega), get_push_eq]
          have sh2 : LoopSh b (b1.push (quantSplit g s1 b.size)) b1.size e1 b.size :=
            ⟨((Ext.push _ _).trans shr.ext).trans (Ext.push _ _),
              fun t => (shr.tok (t.push (tok_eps _))).push (tok_quantSplit g (by omega) (by omega)),
              by omega, by omega, by omega, by omega, by rw [get_push_lt g2]; exact shr.pat, Nat.le_refl _, by omega,
              hfg, by omega⟩
          obtain ⟨t1, t2⟩ := rangeTail_ok hS hl hp sh2
          refine ⟨t1, fun h hw hF => (t2 h hw hF (fun R i j => comp (M r h) R i j ∨ idRel i j) ?_).congr fun i j => ?_⟩
          · intro hb N T X R hr hX
            exact (optCopy_sem (g := g) (b0 := b) hf shr (by omega) (Nat.le_refl _) (by omega) hsz2 (fun q _ => rfl) hfg
              hw hF hb hr hX).2
          · rw [M_rep_some]
            show optNest (M r h) (d + 1) idRel i j ↔ _
            rw [optNest_id]
            exact ⟨fun ⟨n, h1, h2⟩ => ⟨n, Nat.zero_le _, h1, h2⟩, fun ⟨n, _, h1, h2⟩ => ⟨n, h1, h2⟩⟩
  | succ k =>
    cases hmin : rangeMinLoop f r (k + 1) invalid invalid b with
    | none => simp [hmin] at hc
    | some fr =>
      obtain ⟨st, en, b1⟩ := fr
      simp only [hmin] at hc
      obtain ⟨shm, fmin⟩ := rangeMinLoop_fresh hS hmin
      have g1 := shm.ext.size; have g2 := shm.e_hi; have g3 := shm.e_lo; have g4 := shm.s_lo; have g5 := shm.s_hi
      have hsz1 : (b1.push (NState.eps invalid)).size = b1.size + 1 := by simp
      split at hc
      · cases hc
      · rename_i st' en' b3 hl
        split at hc
        · cases hc
        · rename_i b4 hp
          simp only [Option.some.injEq, Prod.mk.injEq] at hc
          obtain ⟨rfl, rfl, rfl⟩ := hc
          have sh2 : LoopSh b (b1.push (.eps invalid)) st en b1.size :=
            ⟨shm.ext.trans (Ext.push _ _), fun t => (shm.tok t).push (tok_eps _), g4, by omega, g3, by omega,
              by rw [get_push_lt g2]; exact shm.pat, g1, by omega, get_push_eq _ _, by omega⟩
          obtain ⟨t1, t2⟩ := rangeTail_ok hS hl hp sh2
          refine ⟨t1, fun h hw hF => (t2 h hw hF (fun R => comp (iter (M r h) (k + 1)) R) ?_).congr fun i j => ?_⟩
          · intro hb N T X R hr hX
            have hN1 : Realizes N b1 b.size b1.size en X := by
              intro q q1 q2
              rw [hr q q1 (by omega)]
              by_cases hqe : q = en
              · rw [if_pos hqe, if_pos hqe, get_push_lt q2]
              · rw [if_neg hqe, if_neg hqe, if_neg (by omega), get_push_lt q2]
            exact (fmin h hw hF (by omega) N X hN1).seq hX
          · rw [M_rep_some]
            constructor
            · intro ⟨c, h1, h2⟩
              obtain ⟨n, h3, h4⟩ := (optNest_id _ _ c j).mp h2
              exact ⟨k + 1 + n, by omega, by omega, (iter_add _ (k + 1) n i j).mpr ⟨c, h1, h4⟩⟩
            · intro ⟨n, h1, h2, h3⟩
              obtain ⟨d, rfl⟩ : ∃ d, n = k + 1 + d := ⟨n - (k + 1), by omega⟩
              obtain ⟨c, h4, h5⟩ := (iter_add _ (k + 1) d i j).mp h3
              exact ⟨c, h4, (optNest_id _ _ c j).mpr ⟨d, by omega, h5⟩⟩

theorem compileRepeat_ok {f : Rec} {r : Regex} {mn : Nat} {mx : Option Nat} {g : Bool} {b b' : Builder} {s e : Nat}
    (hS : ShapeOK f) (hc : compileRepeat f r mn mx g b = some (s, e, b')) :
    Shape b b' s e ∧ ∀ h, AltOK r → SemOK h f → FragOK h b b' s e (M (.rep r mn mx g) h) := by
  unfold compileRepeat at hc
  have hrep : ∀ n, AltOK r → AltOKs (List.replicate n r) := by
    intro n hw
    induction n with
    | zero => exact trivial
    | succ n ih => rw [List.replicate_succ]; exact ⟨hw, ih⟩
  have happ : ∀ l1 l2, AltOKs l1 → AltOKs l2 → AltOKs (l1 ++ l2) := by
    intro l1 l2 h1 h2
    induction l1 with
    | nil => exact h2
    | cons a l ih => exact ⟨h1.1, ih h1.2⟩
  split at hc
  · -- {mn,}: compileRepeatMin
    by_cases hz : mn = 0
    · subst hz
      unfold compileRepeatMin at hc
      rw [if_pos rfl] at hc
      obtain ⟨r1, r2⟩ := compileStar_ok hS hc
      exact ⟨r1, fun h hw hF => (r2 h hw hF).congr fun i j => by
        rw [M_rep_none]; exact ⟨fun ⟨n, hn⟩ => ⟨n, Nat.zero_le _, hn⟩, fun ⟨n, _, hn⟩ => ⟨n, hn⟩⟩⟩
    · rw [compileRepeatMin_eq f r g b hz] at hc
      obtain ⟨r1, r2⟩ := compileConcat_ok hS hc
      refine ⟨r1, fun h hw hF => (r2 h (happ _ _ (hrep (mn - 1) hw) ⟨hw, trivial⟩) hF).congr fun i j => ?_⟩
      rw [M_rep_none, MCat_replicate_append]
      constructor
      · intro ⟨k, h1, h2⟩
        rw [MCat_cons] at h2
        obtain ⟨k2, hp, h3⟩ := h2
        rw [MCat_nil] at h3
        have h3 : k2 = j := h3
        rw [h3, M_plus] at hp
        obtain ⟨n, hn1, hn⟩ := hp
        exact ⟨mn - 1 + n, by omega, (iter_add _ (mn - 1) n i j).mpr ⟨k, h1, hn⟩⟩
      · intro ⟨n, h1, h2⟩
        obtain ⟨d, rfl⟩ : ∃ d, n = mn - 1 + d := ⟨n - (mn - 1), by omega⟩
        obtain ⟨k, h3, h4⟩ := (iter_add _ (mn - 1) d i j).mp h2
        exact ⟨k, h3, (MCat_cons _ _ h k j).mpr ⟨j, (M_plus r g h k j).mpr ⟨d, by omega, h4⟩, (MCat_nil h j j).mpr rfl⟩⟩
  · rename_i mx
    split at hc
    · -- {n}: compileRepeatExact
      rename_i heq
      subst heq
      unfold compileRepeatExact at hc
      have hiff : ∀ h i j, (∃ n, mn ≤ n ∧ n ≤ mn ∧ iter (M r h) n i j) ↔ iter (M r h) mn i j := by
        intro h i j
        constructor
        · intro ⟨n, h1, h2, h3⟩
          have : n = mn := by omega
          subst this; exact h3
        · intro h3; exact ⟨mn, Nat.le_refl _, Nat.le_refl _, h3⟩
      split at hc
      · rename_i hz
        subst hz
        simp only [emptyMatch, Option.some.injEq, Prod.mk.injEq] at hc
        obtain ⟨rfl, rfl, rfl⟩ := hc
        exact ⟨emptyMatch_shape b, fun h _ _ => (emptyMatch_sem h b).congr fun i j => by
          rw [M_rep_some, hiff]; rfl⟩
      · split at hc
        · rename_i _ h1
          subst h1
          exact ⟨hS _ _ _ _ _ hc, fun h hw hF => (hF _ _ _ _ _ hw hc).congr fun i j => by
            rw [M_rep_some, hiff]
            exact ⟨fun hh => ⟨j, hh, rfl⟩, fun ⟨k, h1, h2⟩ => by cases h2; exact h1⟩⟩
        · obtain ⟨r1, r2⟩ := compileConcat_ok hS hc
          exact ⟨r1, fun h hw hF => (r2 h (hrep mn hw) hF).congr fun i j => by
            rw [M_rep_some, hiff, MCat_replicate]⟩
    · -- {m,n}: compileRepeatRange
      rename_i hne
      by_cases hgt : mn > mx
      · unfold compileRepeatRange at hc
        rw [if_pos hgt] at hc
        cases hc
      · exact compileRepeatRange_ok hS (by omega) hc


/-! ### `compileRegexp` -/

theorem compile_shape : ∀ fuel, ShapeOK (compile fuel)
  | 0 => fun re b s e b' hc => by simp [compile] at hc
  | fuel+1 => by
    intro re b s e b' hc
    have ih := compile_shape fuel
    cases re with
    | emptyMatch =>
      simp only [compile, emptyMatch, Option.some.injEq, Prod.mk.injEq] at hc
      obtain ⟨rfl, rfl, rfl⟩ := hc
      exact emptyMatch_shape b
    | noMatch => simp [compile] at hc
    | lit bs => exact (compileLit_ok (by simpa only [compile] using hc)).1
    | cls rs => exact (compileClass_ok (by simpa only [compile] using hc)).1
    | look k =>
      simp only [compile, Option.some.injEq, Prod.mk.injEq] at hc
      obtain ⟨rfl, rfl, rfl⟩ := hc
      exact look_shape b k
    | cap idx r => exact (compileCapture_ok ih (by simpa only [compile] using hc)).1
    | star r g => exact (compileStar_ok ih (by simpa only [compile] using hc)).1
    | plus r g => exact (compilePlus_ok ih (by simpa only [compile] using hc)).1
    | quest r g => exact (compileQuest_ok ih (by simpa only [compile] using hc)).1
    | rep r mn mx g => exact (compileRepeat_ok ih (by simpa only [compile] using hc)).1
    | cat rs => exact (compileConcat_ok ih (by simpa only [compile] using hc)).1
    | alt rs =>
      cases rs with
      | nil =>
        simp only [compile, compileAlternate, emptyMatch, Option.some.injEq, Prod.mk.injEq] at hc
        obtain ⟨rfl, rfl, rfl⟩ := hc
        exact emptyMatch_shape b
      | cons r rs => exact (compileAlternate_ok (rs := r :: rs) ih (by simp) (by simpa only [compile] using hc)).1

theorem compile_sem (h : Bytes) : ∀ fuel, SemOK h (compile fuel)
  | 0 => fun re b s e b' _ hc => by simp [compile] at hc
  | fuel+1 => by
    intro re b s e b' hw hc
    have ih := compile_sem h fuel
    have hS := compile_shape fuel
    cases re with
    | emptyMatch =>
      simp only [compile, emptyMatch, Option.some.injEq, Prod.mk.injEq] at hc
      obtain ⟨rfl, rfl, rfl⟩ := hc
      exact (emptyMatch_sem h b).congr fun i j => by rw [M]; rfl
    | noMatch => simp [compile] at hc
    | lit bs => exact ((compileLit_ok (by simpa only [compile] using hc)).2 h).congr fun i j => by rw [M]
    | cls rs => exact ((compileClass_ok (by simpa only [compile] using hc)).2 h).congr fun i j => by rw [M]
    | look k =>
      simp only [compile, Option.some.injEq, Prod.mk.injEq] at hc
      obtain ⟨rfl, rfl, rfl⟩ := hc
      exact (look_sem h b k).congr fun i j => by rw [M]
    | cap idx r =>
      have hw : AltOK r := by rw [AltOK] at hw; exact hw
      exact ((compileCapture_ok hS (by simpa only [compile] using hc)).2 h hw ih).congr fun i j => by rw [M]
    | star r g =>
      have hw : AltOK r := by rw [AltOK] at hw; exact hw
      exact ((compileStar_ok hS (by simpa only [compile] using hc)).2 h hw ih).congr fun i j => by rw [M]; rfl
    | plus r g =>
      have hw : AltOK r := by rw [AltOK] at hw; exact hw
      exact ((compilePlus_ok hS (by simpa only [compile] using hc)).2 h hw ih).congr fun i j => by rw [M]; rfl
    | quest r g =>
      have hw : AltOK r := by rw [AltOK] at hw; exact hw
      exact ((compileQuest_ok hS (by simpa only [compile] using hc)).2 h hw ih).congr fun i j => by rw [M]
    | rep r mn mx g =>
      have hw : AltOK r := by rw [AltOK] at hw; exact hw
      exact (compileRepeat_ok hS (by simpa only [compile] using hc)).2 h hw ih
    | cat rs =>
      have hw : AltOKs rs := by rw [AltOK] at hw; exact hw
      exact ((compileConcat_ok hS (by simpa only [compile] using hc)).2 h hw ih).congr fun i j => by rw [M]
    | alt rs =>
      have hw : rs ≠ [] ∧ AltOKs rs := by rw [AltOK] at hw; exact hw
      exact ((compileAlternate_ok hS hw.1 (by simpa only [compile] using hc)).2 h hw.2 ih).congr fun i j => by rw [M]

/-! ### `CompileRegexp` -/

theorem build_some {b : Builder} {sa su : Nat} {N : NFA} (h : build b sa su = some N) :
    N = { states := b, startAnchored := sa, startUnanchored := su } := by
  unfold build at h
  split at h
  · cases h; rfl
  · cases h

theorem build_of {b : Builder} {sa su : Nat} (t : TOK b) (h1 : sa < b.size) (h2 : su < b.size) (hb : b.size ≤ invalid) :
    ∃ N, build b sa su = some N := by
  unfold build
  have hv : validate b sa su = true := by
    unfold validate
    have e1 : (sa != invalid) = true := by simp; omega
    have e2 : (su != invalid) = true := by simp; omega
    rw [e1, e2, (tok_iff_all b).mpr t]
    simp [h1, h2]
  rw [if_pos hv]
  exact ⟨_, rfl⟩

theorem top_core {cfg : Config} {re : Regex} {s e : Nat} {b b2 : Builder} {N : NFA}
    (hcomp : compile cfg.maxDepth re #[] = some (s, e, b)) (p : PatchOK (b.push .mtch) e b.size b2)
    (hN : ∀ q, q < b2.size → N.get q = b2.get q) (hstart : N.startAnchored = s) (hsz1 : b2.size ≤ N.states.size)
    (hsz : N.states.size ≤ invalid) (hw : AltOK re) (h : Bytes) (i j : Nat) :
    Accepts N h i j ↔ M re h i j := by
  have sh := compile_shape _ _ _ _ _ _ hcomp
  have h2 := sh.e_hi
  have h6 : b2.size = b.size + 1 := by rw [p.size]; simp
  have hreal : Realizes N b (#[] : Builder).size b.size e b.size := by
    intro q _ q2
    rw [hN q (by omega)]
    exact p.get_sub (fun q hq => get_push_lt hq) h2 q q2
  have fs := compile_sem h _ _ _ _ _ _ hw hcomp (by omega) N b.size hreal
  have hmatch : N.get b.size = .mtch := by
    rw [hN _ (by omega), p.get_ne (by omega), get_push_eq]
  unfold Accepts Reaches
  rw [hstart]
  constructor
  · intro ⟨m, st, hm, _⟩
    obtain ⟨n, stn⟩ := stepsN_of_steps st
    obtain ⟨k, n', _, hM, st'⟩ := fs.sound n i m j stn hm
    obtain ⟨_, _, rfl⟩ := mtch_inv hmatch st'
    exact hM
  · intro hM
    exact ⟨b.size, fs.complete i j hM, hmatch, by omega⟩

/-- **The compiled automaton accepts exactly the language of the AST.**  `N.states.size ≤ 0xFFFFFFFF` says that
    `InvalidState` is not the id of a state (the builder would hand it out as an ordinary id for the 2³²-th state). -/
theorem compile_lang {cfg : Config} {re : Regex} {N : NFA} (hc : compileTop cfg re = some N) (hw : AltOK re)
    (hsz : N.states.size ≤ invalid) (h : Bytes) (i j : Nat) : Accepts N h i j ↔ M re h i j := by
  unfold compileTop at hc
  cases hcomp : compile cfg.maxDepth re #[] with
  | none => simp [hcomp] at hc
  | some fr =>
    obtain ⟨s, e, b⟩ := fr
    simp only [hcomp] at hc
    have sh := compile_shape _ _ _ _ _ _ hcomp
    have h2 := sh.e_hi
    split at hc
    · cases hc
    · rename_i b2 hp
      have p := patchOrEps_some (by sz) hp
      have h6 : b2.size = b.size + 1 := by rw [p.size]; simp
      split at hc
      · have hN := build_some hc
        subst hN
        exact top_core hcomp p (fun q _ => rfl) rfl (Nat.le_refl _) hsz hw h i j
      · split at hc
        · rename_i b5 hp5
          have hN := build_some hc
          subst hN
          have p5 := patch_some hp5
          have h7 := p5.size
          refine top_core hcomp p (fun q hq => ?_) rfl (by simp only []; sz) hsz hw h i j
          show Builder.get b5 q = b2.get q
          rw [p5.get_ne (by omega), get_push_lt (by sz), get_push_lt hq]
        · have hN := build_some hc
          subst hN
          refine top_core hcomp p (fun q hq => ?_) rfl (by simp only []; sz) hsz hw h i j
          show Builder.get ((b2.push (.byteRange 0 255 invalid)).push (.split s b2.size)) q = b2.get q
          rw [get_push_lt (by sz), get_push_lt hq]

/-- the statement in the form requested (with the redundant bound on `i`) -/
theorem compile_lang' {cfg : Config} {re : Regex} {N : NFA} (hc : compileTop cfg re = some N) (hw : AltOK re)
    (hsz : N.states.size ≤ invalid) : ∀ (h : Bytes) (i j : Nat), i ≤ h.size → (Accepts N h i j ↔ M re h i j) :=
  fun h i j _ => compile_lang hc hw hsz h i j

/-! ### totality: only the recursion limit (and what `Supported` excludes) makes the compiler fail -/

/-- `f` compiles `r` in every builder -/
def Succeeds (f : Rec) (r : Regex) : Prop := ∀ b, ∃ fr, f r b = some fr

theorem litLoop_total : ∀ (xs : List Nat) (prev first : Nat) (b : Builder),
    (prev = invalid ∨ (prev < b.size ∧ patchable (b.get prev) = true)) → ∃ fr, litLoop xs prev first b = some fr := by
  intro xs
  induction xs with
  | nil => intro prev first b _; exact ⟨_, rfl⟩
  | cons x xs ih =>
    intro prev first b hp
    simp only [litLoop]
    split
    · rename_i hne
      rcases hp with hp | hp
      · exact absurd hp hne
      · obtain ⟨b2, h2⟩ := patch_of (b := b.push (.byteRange x x invalid)) (e := prev) b.size (by sz) (by rw [get_push_lt hp.1]; exact hp.2)
        rw [h2]
        have p := patch_some h2
        exact ih _ _ _ (Or.inr ⟨by rw [p.size]; sz, by rw [p.get_ne (by omega), get_push_eq]; rfl⟩)
    · exact ih _ _ _ (Or.inr ⟨by sz, by rw [get_push_eq]; rfl⟩)

theorem compileLit_total (bs : List Nat) (b : Builder) : ∃ fr, compileLit bs b = some fr := by
  cases bs with
  | nil => exact ⟨_, rfl⟩
  | cons x xs => exact litLoop_total (x :: xs) invalid invalid b (Or.inl rfl)

theorem compileClass_total {rs : List (Nat × Nat)} (ha : allASCII rs = true) (b : Builder) :
    ∃ fr, compileClass rs b = some fr := by
  unfold compileClass
  split
  · exact ⟨_, rfl⟩
  · rw [if_pos ha]; exact ⟨_, rfl⟩
  · rw [if_pos ha]; exact ⟨_, rfl⟩

theorem compileCapture_total {f : Rec} {idx : Nat} {r : Regex} (hS : ShapeOK f) (hr : Succeeds f r) :
    ∀ b, ∃ fr, compileCapture f idx r b = some fr := by
  intro b
  obtain ⟨⟨s, e, b1⟩, hf⟩ := hr b
  have sh := hS _ _ _ _ _ hf
  have h2 := sh.e_hi
  obtain ⟨b3, hp⟩ := patchOrEps_of (b := b1.push (.cap idx false invalid)) (e := e) b1.size (by sz)
    (by rw [get_push_lt h2]; exact sh.pat)
  simp only [compileCapture, hf, hp]; exact ⟨_, rfl⟩

theorem quant_patch {b1 : Builder} {e : Nat} (st : NState) (t : Nat) (h2 : e < b1.size) (hp : patchable (b1.get e) = true) :
    ∃ b4, patchOrEps ((b1.push (.eps invalid)).push st) e t = some b4 :=
  patchOrEps_of t (by sz) (by rw [get_push_lt (by sz), get_push_lt h2]; exact hp)

theorem compileStarViaPlus_total {f : Rec} {r : Regex} {g : Bool} (hS : ShapeOK f) (hr : Succeeds f r) :
    ∀ b, ∃ fr, compileStarViaPlus f r g b = some fr := by
  intro b
  obtain ⟨⟨s, e, b1⟩, hf⟩ := hr b
  have sh := hS _ _ _ _ _ hf
  obtain ⟨b4, hp⟩ := quant_patch (quantSplit g s b1.size) (b1.push (.eps invalid)).size sh.e_hi sh.pat
  simp only [compileStarViaPlus, hf, hp]; exact ⟨_, rfl⟩

theorem compileStar_total {f : Rec} {r : Regex} {g : Bool} (hS : ShapeOK f) (hr : Succeeds f r) :
    ∀ b, ∃ fr, compileStar f r g b = some fr := by
  intro b
  unfold compileStar
  split
  · exact compileStarViaPlus_total hS hr b
  · obtain ⟨⟨s, e, b1⟩, hf⟩ := hr b
    have sh := hS _ _ _ _ _ hf
    obtain ⟨b4, hp⟩ := quant_patch (quantSplit g s b1.size) (b1.push (.eps invalid)).size sh.e_hi sh.pat
    simp only [hf, hp]; exact ⟨_, rfl⟩

theorem compilePlus_total {f : Rec} {r : Regex} {g : Bool} (hS : ShapeOK f) (hr : Succeeds f r) :
    ∀ b, ∃ fr, compilePlus f r g b = some fr := by
  intro b
  obtain ⟨⟨s, e, b1⟩, hf⟩ := hr b
  have sh := hS _ _ _ _ _ hf
  obtain ⟨b4, hp⟩ := quant_patch (quantSplit g s b1.size) (b1.push (.eps invalid)).size sh.e_hi sh.pat
  simp only [compilePlus, hf, hp]; exact ⟨_, rfl⟩

theorem compileQuest_total {f : Rec} {r : Regex} {g : Bool} (hS : ShapeOK f) (hr : Succeeds f r) :
    ∀ b, ∃ fr, compileQuest f r g b = some fr := by
  intro b
  obtain ⟨⟨s, e, b1⟩, hf⟩ := hr b
  have sh := hS _ _ _ _ _ hf
  obtain ⟨b4, hp⟩ := quant_patch (quantSplit g s b1.size) b1.size sh.e_hi sh.pat
  simp only [compileQuest, hf, hp]; exact ⟨_, rfl⟩

theorem concatLoop_total {f : Rec} (hS : ShapeOK f) : ∀ (rs : List Regex), (∀ r, r ∈ rs → Succeeds f r) →
    ∀ (e : Nat) (b : Builder), e < b.size → patchable (b.get e) = true → ∃ res, concatLoop f rs e b = some res := by
  intro rs
  induction rs with
  | nil => intro _ e b _ _; exact ⟨_, rfl⟩
  | cons r rs ih =>
    intro hr e b he hp
    obtain ⟨⟨ns, ne, b1⟩, hf⟩ := hr r List.mem_cons_self b
    have sh := hS _ _ _ _ _ hf
    have g1 := sh.ext.size; have g2 := sh.e_hi; have g3 := sh.e_lo
    obtain ⟨b2, hp2⟩ := patchOrEps_of (b := b1) (e := e) ns (by omega) (by rw [sh.ext.get e he]; exact hp)
    have p := patchOrEps_some (by omega) hp2
    obtain ⟨res, hres⟩ := ih (fun r' hr' => hr r' (List.mem_cons_of_mem _ hr')) ne b2 (by rw [p.size]; exact g2)
      (by rw [p.get_ne (by omega)]; exact sh.pat)
    exact ⟨res, by simp only [concatLoop, hf, hp2, hres]⟩

theorem compileConcat_total {f : Rec} (hS : ShapeOK f) {rs : List Regex} (hr : ∀ r, r ∈ rs → Succeeds f r) :
    ∀ b, ∃ fr, compileConcat f rs b = some fr := by
  intro b
  unfold compileConcat
  split
  · exact ⟨_, rfl⟩
  · rename_i r; exact hr r List.mem_cons_self b
  · rename_i r r2 rs
    obtain ⟨⟨s, e, b1⟩, hf⟩ := hr r List.mem_cons_self b
    have sh := hS _ _ _ _ _ hf
    obtain ⟨⟨E, b2⟩, hl⟩ := concatLoop_total hS (r2 :: rs) (fun r' hr' => hr r' (List.mem_cons_of_mem _ hr')) e b1 sh.e_hi sh.pat
    simp only [hf, hl]; exact ⟨_, rfl⟩

theorem altSubs_total {f : Rec} : ∀ (rs : List Regex), (∀ r, r ∈ rs → Succeeds f r) →
    ∀ b, ∃ res, altSubs f rs b = some res := by
  intro rs
  induction rs with
  | nil => intro _ b; exact ⟨_, rfl⟩
  | cons r rs ih =>
    intro hr b
    obtain ⟨⟨s, e, b1⟩, hf⟩ := hr r List.mem_cons_self b
    obtain ⟨⟨ss, es, b2⟩, ha⟩ := ih (fun r' hr' => hr r' (List.mem_cons_of_mem _ hr')) b1
    simp only [altSubs, hf, ha]; exact ⟨_, rfl⟩

theorem compileAlternate_total {f : Rec} {rs : List Regex} (hr : ∀ r, r ∈ rs → Succeeds f r) :
    ∀ b, ∃ fr, compileAlternate f rs b = some fr := by
  intro b
  unfold compileAlternate
  split
  · exact ⟨_, rfl⟩
  · rename_i r; exact hr r List.mem_cons_self b
  · rename_i r r2 rs
    obtain ⟨⟨ss, es, b1⟩, ha⟩ := altSubs_total (r :: r2 :: rs) hr b
    simp only [ha]; exact ⟨_, rfl⟩

theorem rangeMinLoop_total {f : Rec} {r : Regex} (hS : ShapeOK f) (hr : Succeeds f r) : ∀ (n st en : Nat) (b : Builder),
    en < b.size → patchable (b.get en) = true →
    ∃ st' en' b', rangeMinLoop f r n st en b = some (st', en', b') ∧ en' < b'.size ∧ patchable (b'.get en') = true := by
  intro n
  induction n with
  | zero => intro st en b he hp; exact ⟨st, en, b, rfl, he, hp⟩
  | succ n ih =>
    intro st en b he hp
    obtain ⟨⟨s, e, b1⟩, hf⟩ := hr b
    have sh := hS _ _ _ _ _ hf
    have g1 := sh.ext.size; have g2 := sh.e_hi; have g3 := sh.e_lo
    unfold rangeMinLoop
    simp only [hf]
    split
    · exact ih s e b1 g2 sh.pat
    · obtain ⟨b2, hp2⟩ := patchOrEps_of (b := b1) (e := en) s (by omega) (by rw [sh.ext.get en he]; exact hp)
      have p := patchOrEps_some (by omega) hp2
      simp only [hp2]
      exact ih st e b2 (by rw [p.size]; exact g2) (by rw [p.get_ne (by omega)]; exact sh.pat)

theorem rangeMinLoop_total_fresh {f : Rec} {r : Regex} (hS : ShapeOK f) (hr : Succeeds f r) (n en : Nat) (b : Builder) :
    ∃ st' en' b', rangeMinLoop f r (n + 1) invalid en b = some (st', en', b') ∧ en' < b'.size ∧
      patchable (b'.get en') = true := by
  obtain ⟨⟨s, e, b1⟩, hf⟩ := hr b
  have sh := hS _ _ _ _ _ hf
  unfold rangeMinLoop
  simp only [hf, ↓reduceIte]
  exact rangeMinLoop_total hS hr n s e b1 sh.e_hi sh.pat

theorem rangeOptLoop_total {f : Rec} {r : Regex} {g : Bool} {fin : Nat} (hS : ShapeOK f) (hr : Succeeds f r) :
    ∀ (d st en : Nat) (b : Builder), en < b.size → patchable (b.get en) = true →
    ∃ st' en' b', rangeOptLoop f r g fin d st en b = some (st', en', b') ∧ en' < b'.size ∧
      patchable (b'.get en') = true := by
  intro d
  induction d with
  | zero => intro st en b he hp; exact ⟨st, en, b, rfl, he, hp⟩
  | succ d ih =>
    intro st en b he hp
    obtain ⟨⟨s, e, b1⟩, hf⟩ := hr b
    have sh := hS _ _ _ _ _ hf
    have g1 := sh.ext.size; have g2 := sh.e_hi; have g3 := sh.e_lo
    have hsz2 : (b1.push (quantSplit g s fin)).size = b1.size + 1 := by simp
    unfold rangeOptLoop
    simp only [hf]
    split
    · exact ih _ e _ (by omega) (by rw [get_push_lt g2]; exact sh.pat)
    · obtain ⟨b3, hp3⟩ := patchOrEps_of (b := b1.push (quantSplit g s fin)) (e := en) b1.size (by omega)
        (by rw [get_push_lt (by omega), sh.ext.get en he]; exact hp)
      have p := patchOrEps_some (by omega) hp3
      simp only [hp3]
      exact ih st e b3 (by rw [p.size]; omega) (by rw [p.get_ne (by omega), get_push_lt g2]; exact sh.pat)

theorem rangeOptLoop_total_fresh {f : Rec} {r : Regex} {g : Bool} {fin : Nat} (hS : ShapeOK f) (hr : Succeeds f r)
    (d en : Nat) (b : Builder) :
    ∃ st' en' b', rangeOptLoop f r g fin (d + 1) invalid en b = some (st', en', b') ∧ en' < b'.size ∧
      patchable (b'.get en') = true := by
  obtain ⟨⟨s, e, b1⟩, hf⟩ := hr b
  have sh := hS _ _ _ _ _ hf
  have g2 := sh.e_hi
  have hsz2 : (b1.push (quantSplit g s fin)).size = b1.size + 1 := by simp
  unfold rangeOptLoop
  simp only [hf, ↓reduceIte]
  exact rangeOptLoop_total hS hr d _ e _ (by omega) (by rw [get_push_lt g2]; exact sh.pat)

theorem compileRepeatRange_total {f : Rec} {r : Regex} {mn mx : Nat} {g : Bool} (hS : ShapeOK f) (hlt : mn < mx)
    (hr : Succeeds f r) : ∀ b, ∃ fr, compileRepeatRange f r mn mx g b = some fr := by
  intro b
  unfold compileRepeatRange
  rw [if_neg (by omega)]
  cases mn with
  | zero =>
    obtain ⟨d, rfl⟩ : ∃ d, mx = d + 1 := ⟨mx - 1, by omega⟩
    simp only [rangeMinLoop, Nat.sub_zero]
    obtain ⟨st', en', b3, hl, h1, h2⟩ := rangeOptLoop_total_fresh (g := g) (fin := b.size) hS hr d invalid (b.push (.eps invalid))
    obtain ⟨b4, hp⟩ := patchOrEps_of (b := b3) (e := en') b.size h1 h2
    simp only [hl, hp]
    exact ⟨_, rfl⟩
  | succ k =>
    obtain ⟨st, en, b1, hmin, m1, m2⟩ := rangeMinLoop_total_fresh hS hr k invalid b
    obtain ⟨st', en', b3, hl, h1, h2⟩ := rangeOptLoop_total (g := g) (fin := b1.size) hS hr (mx - (k + 1)) st en
      (b1.push (.eps invalid)) (by simp; omega) (by rw [get_push_lt m1]; exact m2)
    obtain ⟨b4, hp⟩ := patchOrEps_of (b := b3) (e := en') b1.size h1 h2
    simp only [hmin, hl, hp]
    exact ⟨_, rfl⟩

theorem compileRepeat_total {f : Rec} {r : Regex} {mn : Nat} {mx : Option Nat} {g : Bool} (hS : ShapeOK f)
    (hle : ∀ m, mx = some m → mn ≤ m)
    (hr : (mx = some 0 → mn ≠ 0) → Succeeds f r)
    (hplus : mx = none → mn ≠ 0 → Succeeds f (.plus r g)) :
    ∀ b, ∃ fr, compileRepeat f r mn mx g b = some fr := by
  intro b
  unfold compileRepeat
  split
  · have hr := hr (fun hh => by cases hh)
    by_cases hz : mn = 0
    · unfold compileRepeatMin
      rw [if_pos hz]
      exact compileStar_total hS hr b
    · rw [compileRepeatMin_eq f r g b hz]
      refine compileConcat_total hS (fun r' hr' => ?_) b
      rcases List.mem_append.mp hr' with hm | hm
      · rw [List.eq_of_mem_replicate hm]; exact hr
      · rw [List.mem_singleton.mp hm]; exact hplus rfl hz
  · rename_i m
    split
    · rename_i heq
      unfold compileRepeatExact
      split
      · exact ⟨_, rfl⟩
      · rename_i hne
        have hr := hr (fun hh => by cases hh; omega)
        split
        · exact hr b
        · refine compileConcat_total hS (fun r' hr' => ?_) b
          rw [List.eq_of_mem_replicate hr']; exact hr
    · rename_i hne
      have := hle m rfl
      exact compileRepeatRange_total hS (by omega) (hr (fun hh => by cases hh; omega)) b


theorem depth_pos (re : Regex) : 1 ≤ depth re := by
  cases re with
  | rep r mn mx g =>
    cases mx with
    | none => simp only [depth]; split <;> omega
    | some m => simp only [depth]; split <;> (try split) <;> omega
  | _ => simp only [depth] <;> omega

theorem mem_supportedL : ∀ (rs : List Regex), SupportedL rs → ∀ r, r ∈ rs → Supported r ∧ depth r ≤ depthL rs
  | [], _, r, hr => absurd hr (by simp)
  | a :: rs, hs, r, hr => by
    rw [depthL]
    rcases List.mem_cons.mp hr with rfl | hr
    · exact ⟨hs.1, Nat.le_max_left _ _⟩
    · have := mem_supportedL rs hs.2 r hr
      exact ⟨this.1, Nat.le_trans this.2 (Nat.le_max_right _ _)⟩

/-- **`compile` fails only through the recursion limit** (on the ASTs of the model: no `OpNoMatch`, ASCII classes,
    ordered repeat bounds).  `fuel` = `MaxRecursionDepth`. -/
theorem compile_total : ∀ (fuel : Nat) (re : Regex), Supported re → depth re ≤ fuel → ∀ b, ∃ fr, compile fuel re b = some fr
  | 0, re, _, hd => by have := depth_pos re; omega
  | fuel+1, re, hs, hd => by
    have ih := compile_total fuel
    have hS := compile_shape fuel
    intro b
    cases re with
    | emptyMatch => exact ⟨_, rfl⟩
    | noMatch => rw [Supported] at hs; exact hs.elim
    | lit bs => simp only [compile]; exact compileLit_total bs b
    | cls rs => rw [Supported] at hs; simp only [compile]; exact compileClass_total hs b
    | look k => exact ⟨_, rfl⟩
    | cap idx r =>
      rw [Supported] at hs; rw [depth] at hd
      simp only [compile]; exact compileCapture_total hS (ih r hs (by omega)) b
    | star r g =>
      rw [Supported] at hs; rw [depth] at hd
      simp only [compile]; exact compileStar_total hS (ih r hs (by omega)) b
    | plus r g =>
      rw [Supported] at hs; rw [depth] at hd
      simp only [compile]; exact compilePlus_total hS (ih r hs (by omega)) b
    | quest r g =>
      rw [Supported] at hs; rw [depth] at hd
      simp only [compile]; exact compileQuest_total hS (ih r hs (by omega)) b
    | rep r mn mx g =>
      rw [Supported] at hs
      simp only [compile]
      refine compileRepeat_total hS hs.1 (fun hc => ih r hs.2 ?_) (fun hn hz => ih _ (by rw [Supported]; exact hs.2) ?_) b
      · cases mx with
        | none => simp only [depth] at hd; split at hd <;> omega
        | some m =>
          simp only [depth] at hd
          split at hd
          · split at hd
            · rename_i h1 h2; subst h1; exact absurd h2 (hc (by rw [h2]))
            · omega
          · omega
      · subst hn
        simp only [depth] at hd
        rw [if_neg hz] at hd
        rw [depth]; omega
    | cat rs =>
      rw [Supported] at hs; rw [depth] at hd
      simp only [compile]
      exact compileConcat_total hS (fun r hr => by
        have := mem_supportedL rs hs r hr; exact ih r this.1 (by omega)) b
    | alt rs =>
      rw [Supported] at hs; rw [depth] at hd
      simp only [compile]
      exact compileAlternate_total (fun r hr => by
        have := mem_supportedL rs hs r hr; exact ih r this.1 (by omega)) b

/-- … in the requested form -/
theorem compile_total' (limit : Nat) (re : Regex) (hs : Supported re) (hd : depth re ≤ limit) (b : Builder) :
    compile limit re b ≠ none := by
  obtain ⟨fr, h⟩ := compile_total limit re hs hd b
  rw [h]; simp

/-- `CompileRegexp` succeeds under the same conditions — `Builder.Validate` never rejects what the compiler built —
    unless the automaton has 2³² - 3 states or more (then `InvalidState` collides with a state id) -/
theorem compileTop_total (cfg : Config) (re : Regex) (hs : Supported re) (hd : depth re ≤ cfg.maxDepth) :
    ∃ s e b, compile cfg.maxDepth re #[] = some (s, e, b) ∧ (b.size + 3 ≤ invalid → ∃ N, compileTop cfg re = some N) := by
  obtain ⟨⟨s, e, b⟩, hc⟩ := compile_total cfg.maxDepth re hs hd #[]
  refine ⟨s, e, b, hc, fun hb => ?_⟩
  have sh := compile_shape _ _ _ _ _ _ hc
  have h2 := sh.e_hi; have h5 := sh.s_hi
  have t0 : TOK (#[] : Builder) := fun q hq => absurd hq (by simp)
  obtain ⟨b2, hp⟩ := patchOrEps_of (b := b.push .mtch) (e := e) b.size (by sz) (by rw [get_push_lt h2]; exact sh.pat)
  have p := patchOrEps_some (by sz) hp
  have h6 : b2.size = b.size + 1 := by rw [p.size]; simp
  have t2 : TOK b2 := ((sh.tok t0).push (s := .mtch) rfl).patch p (refOK_lt (by sz))
  unfold compileTop
  simp only [hc, hp]
  split
  · exact build_of t2 (by omega) (by omega) (by omega)
  · have t4 : TOK ((b2.push (.byteRange 0 255 invalid)).push (.split s b2.size)) := by
      refine (t2.push (tok_byteRange _ 0 255)).push ?_
      simp only [stateTargetsOK, Bool.and_eq_true]
      exact ⟨refOK_lt (by sz), refOK_lt (by sz)⟩
    split
    · rename_i b5 hp5
      have p5 := patch_some hp5
      have h7 := p5.size
      exact build_of (t4.patch p5 (refOK_lt (by sz))) (by sz) (by sz) (by sz)
    · exact build_of t4 (by sz) (by sz) (by sz)

/-! ### `depth` is exact: a successful compilation never nests deeper than the limit -/

/-- `f` has compiled `r` successfully in some builder -/
def Called (f : Rec) (r : Regex) : Prop := ∃ b fr, f r b = some fr

theorem compileCapture_called {f : Rec} {idx : Nat} {r : Regex} {b : Builder} {fr : Frag}
    (hc : compileCapture f idx r b = some fr) : Called f r := by
  cases hf : f r b with
  | none => simp [compileCapture, hf] at hc
  | some fr => exact ⟨b, fr, hf⟩

theorem compileStarViaPlus_called {f : Rec} {r : Regex} {g : Bool} {b : Builder} {fr : Frag}
    (hc : compileStarViaPlus f r g b = some fr) : Called f r := by
  cases hf : f r b with
  | none => simp [compileStarViaPlus, hf] at hc
  | some fr => exact ⟨b, fr, hf⟩

theorem compileStar_called {f : Rec} {r : Regex} {g : Bool} {b : Builder} {fr : Frag}
    (hc : compileStar f r g b = some fr) : Called f r := by
  unfold compileStar at hc
  split at hc
  · exact compileStarViaPlus_called hc
  · cases hf : f r b with
    | none => simp [hf] at hc
    | some fr => exact ⟨b, fr, hf⟩

theorem compilePlus_called {f : Rec} {r : Regex} {g : Bool} {b : Builder} {fr : Frag}
    (hc : compilePlus f r g b = some fr) : Called f r := by
  cases hf : f r b with
  | none => simp [compilePlus, hf] at hc
  | some fr => exact ⟨b, fr, hf⟩

theorem compileQuest_called {f : Rec} {r : Regex} {g : Bool} {b : Builder} {fr : Frag}
    (hc : compileQuest f r g b = some fr) : Called f r := by
  cases hf : f r b with
  | none => simp [compileQuest, hf] at hc
  | some fr => exact ⟨b, fr, hf⟩

theorem concatLoop_called {f : Rec} : ∀ (rs : List Regex) (e : Nat) (b : Builder) (res : Nat × Builder),
    concatLoop f rs e b = some res → ∀ r, r ∈ rs → Called f r := by
  intro rs
  induction rs with
  | nil => intro _ _ _ _ r hr; exact absurd hr (by simp)
  | cons a rs ih =>
    intro e b res hc r hr
    unfold concatLoop at hc
    cases hf : f a b with
    | none => simp [hf] at hc
    | some fr =>
      obtain ⟨ns, ne, b1⟩ := fr
      simp only [hf] at hc
      split at hc
      · cases hc
      · rcases List.mem_cons.mp hr with rfl | hr
        · exact ⟨b, _, hf⟩
        · exact ih _ _ _ hc r hr

theorem compileConcat_called {f : Rec} {rs : List Regex} {b : Builder} {fr : Frag}
    (hc : compileConcat f rs b = some fr) : ∀ r, r ∈ rs → Called f r := by
  intro r hr
  unfold compileConcat at hc
  split at hc
  · exact absurd hr (by simp)
  · rw [List.mem_singleton.mp hr]; exact ⟨b, fr, hc⟩
  · rename_i a a2 rs
    cases hf : f a b with
    | none => simp [hf] at hc
    | some fr1 =>
      obtain ⟨s, e, b1⟩ := fr1
      simp only [hf] at hc
      split at hc
      · cases hc
      · rename_i E b2 hl
        rcases List.mem_cons.mp hr with rfl | hr
        · exact ⟨b, _, hf⟩
        · exact concatLoop_called _ _ _ _ hl r hr

theorem altSubs_called {f : Rec} : ∀ (rs : List Regex) (b : Builder) (res : List Nat × List Nat × Builder),
    altSubs f rs b = some res → ∀ r, r ∈ rs → Called f r := by
  intro rs
  induction rs with
  | nil => intro _ _ _ r hr; exact absurd hr (by simp)
  | cons a rs ih =>
    intro b res hc r hr
    unfold altSubs at hc
    cases hf : f a b with
    | none => simp [hf] at hc
    | some fr =>
      obtain ⟨s, e, b1⟩ := fr
      simp only [hf] at hc
      split at hc
      · cases hc
      · rename_i ss es b2 ha
        rcases List.mem_cons.mp hr with rfl | hr
        · exact ⟨b, _, hf⟩
        · exact ih _ _ ha r hr

theorem compileAlternate_called {f : Rec} {rs : List Regex} {b : Builder} {fr : Frag}
    (hc : compileAlternate f rs b = some fr) : ∀ r, r ∈ rs → Called f r := by
  intro r hr
  unfold compileAlternate at hc
  split at hc
  · exact absurd hr (by simp)
  · rw [List.mem_singleton.mp hr]; exact ⟨b, fr, hc⟩
  · split at hc
    · cases hc
    · rename_i ss es b1 ha
      exact altSubs_called _ _ _ ha r hr

theorem rangeOptLoop_called {f : Rec} {r : Regex} {g : Bool} {fin d st en : Nat} {b : Builder} {fr : Frag}
    (hc : rangeOptLoop f r g fin (d + 1) st en b = some fr) : Called f r := by
  unfold rangeOptLoop at hc
  cases hf : f r b with
  | none => simp [hf] at hc
  | some fr1 => exact ⟨b, fr1, hf⟩

theorem compileRepeatRange_called {f : Rec} {r : Regex} {mn mx : Nat} {g : Bool} {b : Builder} {fr : Frag}
    (hne : mn ≠ mx) (hc : compileRepeatRange f r mn mx g b = some fr) : Called f r := by
  unfold compileRepeatRange at hc
  split at hc
  · cases hc
  · rename_i hgt
    cases hmin : rangeMinLoop f r mn invalid invalid b with
    | none => simp [hmin] at hc
    | some m1 =>
      obtain ⟨st, en, b1⟩ := m1
      simp only [hmin] at hc
      cases hl : rangeOptLoop f r g b1.size (mx - mn) st en (b1.push (.eps invalid)) with
      | none => simp [hl] at hc
      | some m2 =>
        obtain ⟨d, hd⟩ : ∃ d, mx - mn = d + 1 := ⟨mx - mn - 1, by omega⟩
        rw [hd] at hl
        exact rangeOptLoop_called hl

theorem depthL_le {n : Nat} : ∀ (rs : List Regex), (∀ r, r ∈ rs → depth r ≤ n) → depthL rs ≤ n
  | [], _ => by rw [depthL]; omega
  | a :: rs, hh => by
    rw [depthL]
    exact Nat.max_le.mpr ⟨hh a List.mem_cons_self, depthL_le rs fun r hr => hh r (List.mem_cons_of_mem _ hr)⟩

/-- a successful `compile` stayed within the limit: together with `compile_total`, for `Supported re`,
    `compile fuel re b` succeeds iff `depth re ≤ fuel` -/
theorem compile_depth : ∀ (fuel : Nat) (re : Regex) (b : Builder) (fr : Frag), compile fuel re b = some fr → depth re ≤ fuel
  | 0, re, b, fr, hc => by simp [compile] at hc
  | fuel+1, re, b, fr, hc => by
    have ih : ∀ r, Called (compile fuel) r → depth r ≤ fuel := fun r ⟨b, fr, h⟩ => compile_depth fuel r b fr h
    cases re with
    | emptyMatch => rw [depth]; omega
    | noMatch => rw [depth]; omega
    | lit bs => rw [depth]; omega
    | cls rs => rw [depth]; omega
    | look k => rw [depth]; omega
    | cap idx r =>
      simp only [compile] at hc
      have := ih r (compileCapture_called hc); rw [depth]; omega
    | star r g =>
      simp only [compile] at hc
      have := ih r (compileStar_called hc); rw [depth]; omega
    | plus r g =>
      simp only [compile] at hc
      have := ih r (compilePlus_called hc); rw [depth]; omega
    | quest r g =>
      simp only [compile] at hc
      have := ih r (compileQuest_called hc); rw [depth]; omega
    | rep r mn mx g =>
      simp only [compile] at hc
      unfold compileRepeat at hc
      cases mx with
      | none =>
        simp only [depth]
        simp only [] at hc
        by_cases hz : mn = 0
        · unfold compileRepeatMin at hc
          rw [if_pos hz] at hc
          have := ih r (compileStar_called hc); rw [if_pos hz]; omega
        · rw [compileRepeatMin_eq _ _ _ _ hz] at hc
          have h1 := compileConcat_called hc (Regex.plus r g) (List.mem_append.mpr (Or.inr (List.mem_singleton.mpr rfl)))
          have := ih _ h1
          rw [depth] at this
          rw [if_neg hz]; omega
      | some m =>
        simp only [depth]
        simp only [] at hc
        split at hc
        · rename_i heq
          rw [if_pos heq]
          unfold compileRepeatExact at hc
          split at hc
          · rename_i hz; rw [if_pos hz]; omega
          · rename_i hz
            rw [if_neg hz]
            split at hc
            · have := ih r ⟨b, fr, hc⟩; omega
            · have h1 := compileConcat_called hc r (by
                obtain ⟨k, hk⟩ : ∃ k, mn = k + 1 := ⟨mn - 1, by omega⟩
                rw [hk, List.replicate_succ]; exact List.mem_cons_self)
              have := ih r h1; omega
        · rename_i hne
          rw [if_neg hne]
          have := ih r (compileRepeatRange_called hne hc)
          omega
    | cat rs =>
      simp only [compile] at hc
      have := depthL_le rs fun r hr => ih r (compileConcat_called hc r hr)
      rw [depth]; omega
    | alt rs =>
      simp only [compile] at hc
      have := depthL_le rs fun r hr => ih r (compileAlternate_called hc r hr)
      rw [depth]; omega

/-- for the ASTs of the model, the recursion limit is the only source of failure, and `depth` measures it exactly -/
theorem compile_isSome_iff (fuel : Nat) (re : Regex) (hs : Supported re) (b : Builder) :
    (∃ fr, compile fuel re b = some fr) ↔ depth re ≤ fuel :=
  ⟨fun ⟨fr, h⟩ => compile_depth fuel re b fr h, fun hd => compile_total fuel re hs hd b⟩

/-! ### the unanchored start state: `compileUnanchoredPrefix` -/

/-- a split preferring `sa` over an any-byte state that loops back: the prefix `(?s-u:.)*?` in front of `sa` -/
theorem unanchored_prefix {N : NFA} {h : Bytes} {su sa ab : Nat} (hsu : N.get su = .split sa ab)
    (hab : N.get ab = .byteRange 0 255 su) (hb : ∀ k, h.at k ≤ 255) (i j : Nat) :
    Reaches N h su i j ↔ ∃ i', i ≤ i' ∧ (i' = i ∨ i' ≤ h.size) ∧ Reaches N h sa i' j := by
  constructor
  · intro ⟨m, st, hm, hlt⟩
    obtain ⟨n, stn⟩ := stepsN_of_steps st
    suffices hh : ∀ n i, StepsN N h n (su, i) (m, j) → ∃ i', i ≤ i' ∧ (i' = i ∨ i' ≤ h.size) ∧ Steps N h (sa, i') (m, j) by
      obtain ⟨i', h1, h2, h3⟩ := hh n i stn
      exact ⟨i', h1, h2, m, h3, hm, hlt⟩
    intro n
    induction n using Nat.strongRecOn with
    | _ n ih =>
      intro i stn
      obtain ⟨n1, rfl, rest⟩ := split_inv hsu stn hm
      rcases rest with rest | rest
      · exact ⟨i, Nat.le_refl _, Or.inl rfl, steps_of_stepsN rest⟩
      · obtain ⟨n2, rfl, h1, _, _, rest2⟩ := byteRange_inv hab rest hm
        obtain ⟨i', g1, g2, g3⟩ := ih n2 (by omega) (i + 1) rest2
        exact ⟨i', by omega, Or.inr (by omega), g3⟩
  · intro ⟨i', h1, h2, m, st, hm, hlt⟩
    have hloop : ∀ d i, i + d = i' → i' ≤ h.size → Steps N h (su, i) (su, i') := by
      intro d
      induction d with
      | zero => intro i hi _; rw [← hi]; exact Steps.refl _
      | succ d ih =>
        intro i hi hle
        exact Steps.cons (Step.splitR hsu)
          (Steps.cons (Step.byteRange hab (by omega) (Nat.zero_le _) (hb i)) (ih (i + 1) (by omega) hle))
    have hpre : Steps N h (su, i) (su, i') := by
      rcases h2 with rfl | h2
      · exact Steps.refl _
      · exact hloop (i' - i) i (by omega) h2
    exact ⟨m, Steps.trans' hpre (Steps.cons (Step.splitL hsu) st), hm, hlt⟩

/-- the two start states of the compiled automaton -/
theorem compileTop_starts {cfg : Config} {re : Regex} {N : NFA} (hc : compileTop cfg re = some N) :
    ((cfg.anchored || isPatternAnchored re) = true ∧ N.startUnanchored = N.startAnchored) ∨
    ((cfg.anchored || isPatternAnchored re) = false ∧ ∃ ab, N.get N.startUnanchored = .split N.startAnchored ab ∧
      N.get ab = .byteRange 0 255 N.startUnanchored) := by
  unfold compileTop at hc
  cases hcomp : compile cfg.maxDepth re #[] with
  | none => simp [hcomp] at hc
  | some fr =>
    obtain ⟨s, e, b⟩ := fr
    simp only [hcomp] at hc
    split at hc
    · cases hc
    · rename_i b2 hp
      split at hc
      · rename_i hanch
        have hN := build_some hc
        subst hN
        exact Or.inl ⟨hanch, rfl⟩
      · rename_i hanch
        have hanch : (cfg.anchored || isPatternAnchored re) = false := by
          cases hx : (cfg.anchored || isPatternAnchored re)
          · rfl
          · exact absurd hx hanch
        split at hc
        · rename_i b5 hp5
          have hN := build_some hc
          subst hN
          have p5 := patch_some hp5
          refine Or.inr ⟨hanch, b2.size, ?_, ?_⟩
          · show Builder.get b5 (b2.push (.byteRange 0 255 invalid)).size = _
            rw [p5.get_ne (by sz), get_push_eq]
          · show Builder.get b5 b2.size = _
            rw [p5.get_eq, get_push_lt (by sz), get_push_eq]; rfl
        · rename_i hp5
          exfalso
          obtain ⟨b5, h5⟩ := patch_of (b := (b2.push (.byteRange 0 255 invalid)).push (.split s b2.size)) (e := b2.size)
            (b2.push (.byteRange 0 255 invalid)).size (by sz) (by rw [get_push_lt (by sz), get_push_eq]; rfl)
          rw [h5] at hp5
          cases hp5

/-- **the language seen from the unanchored start state**: with `Anchored` or a pattern starting with `\A` it is
    the anchored language; otherwise a match of the pattern may begin at any later offset (haystack bytes ≤ 0xFF) -/
theorem compile_lang_unanchored {cfg : Config} {re : Regex} {N : NFA} (hc : compileTop cfg re = some N) (hw : AltOK re)
    (hsz : N.states.size ≤ invalid) (h : Bytes) (hb : ∀ k, h.at k ≤ 255) (i j : Nat) (hi : i ≤ h.size) :
    Reaches N h N.startUnanchored i j ↔
      if (cfg.anchored || isPatternAnchored re) = true then M re h i j else ∃ i', i ≤ i' ∧ i' ≤ h.size ∧ M re h i' j := by
  have hl := compile_lang hc hw hsz h
  unfold Accepts at hl
  rcases compileTop_starts hc with ⟨ha, hs⟩ | ⟨ha, ab, h1, h2⟩
  · rw [if_pos ha, hs]; exact hl i j
  · rw [if_neg (by rw [ha]; simp), unanchored_prefix h1 h2 hb]
    constructor
    · intro ⟨i', g1, g2, g3⟩; exact ⟨i', g1, by omega, (hl i' j).mp g3⟩
    · intro ⟨i', g1, g2, g3⟩; exact ⟨i', g1, Or.inr g2, (hl i' j).mpr g3⟩

end Cx.Compile
