import Cx.Model.Utf8Range
import Cx.Proofs.Utf8
/-
  Cx.Proofs.Utf8RangeBase — first half of the exactness proof of the class compiler model (`Cx.Model.Utf8Range`):
  Go bit operations as arithmetic (`byte(0xC0 | x>>6)` = `0xC0 + x/64`, `x | (2^k-1)`, `x &^ (2^k-1)` …), the algebra of
  `matchesSeq` / `accepts` (append, flatMap, the Go `for` loops), and the per-length compilers for 1, 2 and 3 bytes:
  `compile1_exact`, `compile2_exact`, `compile3s_exact` (simple, no surrogates inside), `compile3_exact` (surrogate gap).
  Each is "box of byte intervals ↔ interval of code points", closed by `omega` over `/` and `%` by 64, 4096.
-/
namespace Cx.Utf8Range
open Cx.Utf8

theorem shr6 (x : Nat) : x >>> 6 = x / 64 := by rw [Nat.shiftRight_eq_div_pow]
theorem shr12 (x : Nat) : x >>> 12 = x / 4096 := by rw [Nat.shiftRight_eq_div_pow]
theorem shr18 (x : Nat) : x >>> 18 = x / 262144 := by rw [Nat.shiftRight_eq_div_pow]
theorem and3F (x : Nat) : x &&& 0x3F = x % 64 := Nat.and_two_pow_sub_one_eq_mod x 6
theorem or80 (x : Nat) (h : x < 64) : 0x80 ||| x = 0x80 + x := by
  have := Nat.two_pow_add_eq_or_of_lt (i := 7) (b := x) (by omega) 1
  simpa using this.symm
theorem orC0 (x : Nat) (h : x < 64) : 0xC0 ||| x = 0xC0 + x := by
  have := Nat.two_pow_add_eq_or_of_lt (i := 6) (b := x) (by omega) 3
  simpa using this.symm
theorem orE0 (x : Nat) (h : x < 32) : 0xE0 ||| x = 0xE0 + x := by
  have := Nat.two_pow_add_eq_or_of_lt (i := 5) (b := x) (by omega) 7
  simpa using this.symm
theorem orF0 (x : Nat) (h : x < 16) : 0xF0 ||| x = 0xF0 + x := by
  have := Nat.two_pow_add_eq_or_of_lt (i := 4) (b := x) (by omega) 15
  simpa using this.symm

/-! ### the byte fields the Go code computes, as arithmetic -/

/-- `byte(0x80 | (x & 0x3F))` -/
theorem cont0_eq (x : Nat) : byte (0x80 ||| (x &&& 0x3F)) = 0x80 + x % 64 := by
  rw [and3F, or80 _ (Nat.mod_lt _ (by omega))]; unfold byte; omega
/-- `byte(0x80 | ((x >> 6) & 0x3F))` -/
theorem cont1_eq (x : Nat) : byte (0x80 ||| ((x >>> 6) &&& 0x3F)) = 0x80 + x / 64 % 64 := by
  rw [and3F, shr6, or80 _ (Nat.mod_lt _ (by omega))]; unfold byte; omega
/-- `byte(0x80 | ((x >> 12) & 0x3F))` -/
theorem cont2_eq (x : Nat) : byte (0x80 ||| ((x >>> 12) &&& 0x3F)) = 0x80 + x / 4096 % 64 := by
  rw [and3F, shr12, or80 _ (Nat.mod_lt _ (by omega))]; unfold byte; omega
theorem lead2_eq (x : Nat) (h : x < 0x800) : byte (0xC0 ||| (x >>> 6)) = 0xC0 + x / 64 := by
  rw [shr6, orC0 _ (by omega)]; unfold byte; omega
theorem lead3_eq (x : Nat) (h : x < 0x10000) : byte (0xE0 ||| (x >>> 12)) = 0xE0 + x / 4096 := by
  rw [shr12, orE0 _ (by omega)]; unfold byte; omega
theorem lead4_eq (x : Nat) (h : x < 0x200000) : byte (0xF0 ||| (x >>> 18)) = 0xF0 + x / 262144 := by
  rw [shr18, orF0 _ (by omega)]; unfold byte; omega

/-! ### sequences and alternation -/

theorem matchesSeq1 (bs : List Nat) (a : BR) :
    matchesSeq bs [a] = true ↔ ∃ x, bs = [x] ∧ a.1 ≤ x ∧ x ≤ a.2 := by
  match bs with
  | [] => simp [matchesSeq]
  | [x] => simp [matchesSeq]
  | x :: y :: t => simp [matchesSeq]

theorem matchesSeq_cons (bs : List Nat) (a : BR) (s : Seq) :
    matchesSeq bs (a :: s) = true ↔ ∃ x t, bs = x :: t ∧ a.1 ≤ x ∧ x ≤ a.2 ∧ matchesSeq t s = true := by
  match bs with
  | [] => simp [matchesSeq]
  | x :: t => simp [matchesSeq, and_assoc]

theorem matchesSeq2 (bs : List Nat) (a b : BR) :
    matchesSeq bs [a, b] = true ↔ ∃ x y, bs = [x, y] ∧ a.1 ≤ x ∧ x ≤ a.2 ∧ b.1 ≤ y ∧ y ≤ b.2 := by
  rw [matchesSeq_cons]
  constructor
  · rintro ⟨x, t, rfl, h1, h2, h3⟩
    obtain ⟨y, rfl, h4, h5⟩ := (matchesSeq1 _ _).mp h3
    exact ⟨x, y, rfl, h1, h2, h4, h5⟩
  · rintro ⟨x, y, rfl, h1, h2, h4, h5⟩
    exact ⟨x, [y], rfl, h1, h2, (matchesSeq1 _ _).mpr ⟨y, rfl, h4, h5⟩⟩

theorem matchesSeq3 (bs : List Nat) (a b c : BR) :
    matchesSeq bs [a, b, c] = true ↔
      ∃ x y z, bs = [x, y, z] ∧ a.1 ≤ x ∧ x ≤ a.2 ∧ b.1 ≤ y ∧ y ≤ b.2 ∧ c.1 ≤ z ∧ z ≤ c.2 := by
  rw [matchesSeq_cons]
  constructor
  · rintro ⟨x, t, rfl, h1, h2, h3⟩
    obtain ⟨y, z, rfl, h4, h5, h6, h7⟩ := (matchesSeq2 _ _ _).mp h3
    exact ⟨x, y, z, rfl, h1, h2, h4, h5, h6, h7⟩
  · rintro ⟨x, y, z, rfl, h1, h2, h4, h5, h6, h7⟩
    exact ⟨x, [y, z], rfl, h1, h2, (matchesSeq2 _ _ _).mpr ⟨y, z, rfl, h4, h5, h6, h7⟩⟩

theorem matchesSeq4 (bs : List Nat) (a b c d : BR) :
    matchesSeq bs [a, b, c, d] = true ↔
      ∃ x y z w, bs = [x, y, z, w] ∧ a.1 ≤ x ∧ x ≤ a.2 ∧ b.1 ≤ y ∧ y ≤ b.2 ∧ c.1 ≤ z ∧ z ≤ c.2 ∧ d.1 ≤ w ∧ w ≤ d.2 := by
  rw [matchesSeq_cons]
  constructor
  · rintro ⟨x, t, rfl, h1, h2, h3⟩
    obtain ⟨y, z, w, rfl, h4, h5, h6, h7, h8, h9⟩ := (matchesSeq3 _ _ _ _).mp h3
    exact ⟨x, y, z, w, rfl, h1, h2, h4, h5, h6, h7, h8, h9⟩
  · rintro ⟨x, y, z, w, rfl, h1, h2, h4, h5, h6, h7, h8, h9⟩
    exact ⟨x, [y, z, w], rfl, h1, h2, (matchesSeq3 _ _ _ _).mpr ⟨y, z, w, rfl, h4, h5, h6, h7, h8, h9⟩⟩

theorem accepts_nil (bs : List Nat) : accepts [] bs = false := rfl

theorem accepts_append (l₁ l₂ : List Seq) (bs : List Nat) :
    accepts (l₁ ++ l₂) bs = (accepts l₁ bs || accepts l₂ bs) := by
  unfold accepts; rw [List.any_append]

theorem accepts_append_iff (l₁ l₂ : List Seq) (bs : List Nat) :
    accepts (l₁ ++ l₂) bs = true ↔ accepts l₁ bs = true ∨ accepts l₂ bs = true := by
  rw [accepts_append, Bool.or_eq_true]

theorem accepts_single (s : Seq) (bs : List Nat) : accepts [s] bs = matchesSeq bs s := by
  simp [accepts]

theorem accepts_iff (l : List Seq) (bs : List Nat) :
    accepts l bs = true ↔ ∃ s, s ∈ l ∧ matchesSeq bs s = true := by
  unfold accepts; rw [List.any_eq_true]

theorem accepts_flatMap {α : Type} (l : List α) (f : α → List Seq) (bs : List Nat) :
    accepts (l.flatMap f) bs = true ↔ ∃ a, a ∈ l ∧ accepts (f a) bs = true := by
  unfold accepts
  rw [List.any_flatMap, List.any_eq_true]

theorem accepts_forRange (a b : Nat) (f : Nat → List Seq) (bs : List Nat) :
    accepts (forRange a b f) bs = true ↔ ∃ v, a ≤ v ∧ v ≤ b ∧ accepts (f v) bs = true := by
  unfold forRange
  rw [accepts_flatMap]
  constructor
  · rintro ⟨v, hv, h⟩
    rw [List.mem_range'_1] at hv
    exact ⟨v, hv.1, by omega, h⟩
  · rintro ⟨v, h1, h2, h⟩
    exact ⟨v, List.mem_range'_1.mpr ⟨h1, by omega⟩, h⟩

theorem accepts_map_cons (a : BR) (l : List Seq) (bs : List Nat) :
    accepts (l.map fun sub => a :: sub) bs = true ↔
      ∃ x t, bs = x :: t ∧ a.1 ≤ x ∧ x ≤ a.2 ∧ accepts l t = true := by
  rw [accepts_iff]
  constructor
  · rintro ⟨s, hs, hm⟩
    obtain ⟨sub, hsub, rfl⟩ := List.mem_map.mp hs
    obtain ⟨x, t, rfl, h1, h2, h3⟩ := (matchesSeq_cons _ _ _).mp hm
    exact ⟨x, t, rfl, h1, h2, (accepts_iff _ _).mpr ⟨sub, hsub, h3⟩⟩
  · rintro ⟨x, t, rfl, h1, h2, h3⟩
    obtain ⟨sub, hsub, hm⟩ := (accepts_iff _ _).mp h3
    exact ⟨a :: sub, List.mem_map.mpr ⟨sub, hsub, rfl⟩, (matchesSeq_cons _ _ _).mpr ⟨x, t, rfl, h1, h2, hm⟩⟩

theorem l2 {a b c d : Nat} (h1 : a = c) (h2 : b = d) : [a, b] = [c, d] := by subst h1 h2; rfl
theorem l3 {a b c d e f : Nat} (h1 : a = d) (h2 : b = e) (h3 : c = f) : [a, b, c] = [d, e, f] := by
  subst h1 h2 h3; rfl
theorem l4 {a b c d e f g h : Nat} (h1 : a = e) (h2 : b = f) (h3 : c = g) (h4 : d = h) :
    [a, b, c, d] = [e, f, g, h] := by subst h1 h2 h3 h4; rfl

/-! ### the encodings by length -/

def enc2 (r : Nat) : List Nat := [0xC0 + r / 64, 0x80 + r % 64]
def enc3 (r : Nat) : List Nat := [0xE0 + r / 4096, 0x80 + r / 64 % 64, 0x80 + r % 64]
def enc4 (r : Nat) : List Nat := [0xF0 + r / 262144, 0x80 + r / 4096 % 64, 0x80 + r / 64 % 64, 0x80 + r % 64]

theorem encode_1 {r : Nat} (h : r < 0x80) : encode r = [r] := by unfold encode; rw [if_pos h]
theorem encode_2 {r : Nat} (h1 : 0x80 ≤ r) (h2 : r < 0x800) : encode r = enc2 r := by
  unfold encode enc2; rw [if_neg (by omega), if_pos h2]
theorem encode_3 {r : Nat} (h1 : 0x800 ≤ r) (h2 : r < 0x10000) (hs : r < 0xD800 ∨ 0xDFFF < r) : encode r = enc3 r := by
  unfold encode enc3 maxRune; rw [if_neg (by omega), if_neg (by omega), if_neg (by omega), if_pos h2]
theorem encode_4 {r : Nat} (h1 : 0x10000 ≤ r) (h2 : r ≤ 0x10FFFF) : encode r = enc4 r := by
  unfold encode enc4 maxRune; rw [if_neg (by omega), if_neg (by omega), if_neg (by omega), if_neg (by omega)]

/-! ### 1 byte -/
theorem compile1_exact (lo hi : Nat) (hlo : lo ≤ 0x7F) (hhi : hi ≤ 0x7F) (bs : List Nat) :
    accepts (compileUTF81ByteRange lo hi) bs = true ↔ ∃ r, lo ≤ r ∧ r ≤ hi ∧ bs = [r] := by
  unfold compileUTF81ByteRange
  rw [accepts_single, matchesSeq1]
  have e1 : byte lo = lo := by unfold byte; omega
  have e2 : byte hi = hi := by unfold byte; omega
  simp only [e1, e2]
  constructor
  · rintro ⟨x, rfl, h1, h2⟩; exact ⟨x, h1, h2, rfl⟩
  · rintro ⟨r, h1, h2, rfl⟩; exact ⟨r, rfl, h1, h2⟩

/-! ### 2 bytes -/
theorem compile2_exact (lo hi : Nat) (h0 : 0x80 ≤ lo) (hlo : lo ≤ hi) (hhi : hi ≤ 0x7FF) (bs : List Nat) :
    accepts (compileUTF82ByteRange lo hi) bs = true ↔ ∃ r, lo ≤ r ∧ r ≤ hi ∧ bs = enc2 r := by
  unfold compileUTF82ByteRange
  simp only [lead2_eq lo (by omega), lead2_eq hi (by omega), cont0_eq]
  have eb : byte (0xC0 + lo / 64 + 1) = 0xC0 + lo / 64 + 1 := by unfold byte; omega
  rw [eb]
  unfold enc2
  split
  · rename_i hsame
    rw [accepts_single, matchesSeq2]
    constructor
    · rintro ⟨x, y, rfl, h1, h2, h3, h4⟩
      simp only at h1 h2 h3 h4
      refine ⟨(x - 0xC0) * 64 + (y - 0x80), by omega, by omega, ?_⟩
      exact l2 (by omega) (by omega)
    · rintro ⟨r, h1, h2, rfl⟩
      refine ⟨_, _, rfl, ?_, ?_, ?_, ?_⟩ <;> simp only <;> omega
  · rename_i hdiff
    rw [accepts_append_iff, accepts_append_iff, accepts_single, accepts_single, matchesSeq2, matchesSeq2]
    constructor
    · rintro ((⟨x, y, rfl, h1, h2, h3, h4⟩ | hm) | ⟨x, y, rfl, h1, h2, h3, h4⟩)
      · simp only at h1 h2 h3 h4
        refine ⟨(x - 0xC0) * 64 + (y - 0x80), by omega, by omega, ?_⟩
        exact l2 (by omega) (by omega)
      · split at hm
        · rw [accepts_single, matchesSeq2] at hm
          obtain ⟨x, y, rfl, h1, h2, h3, h4⟩ := hm
          simp only at h1 h2 h3 h4
          refine ⟨(x - 0xC0) * 64 + (y - 0x80), by omega, by omega, ?_⟩
          exact l2 (by omega) (by omega)
        · simp [accepts_nil] at hm
      · simp only at h1 h2 h3 h4
        refine ⟨(x - 0xC0) * 64 + (y - 0x80), by omega, by omega, ?_⟩
        exact l2 (by omega) (by omega)
    · rintro ⟨r, h1, h2, rfl⟩
      by_cases c1 : r / 64 = lo / 64
      · left; left
        refine ⟨_, _, rfl, ?_, ?_, ?_, ?_⟩ <;> simp only <;> omega
      · by_cases c2 : r / 64 = hi / 64
        · right
          refine ⟨_, _, rfl, ?_, ?_, ?_, ?_⟩ <;> simp only <;> omega
        · left; right
          rw [if_pos (by omega), accepts_single, matchesSeq2]
          refine ⟨_, _, rfl, ?_, ?_, ?_, ?_⟩ <;> simp only <;> omega


/-! ### 3 bytes -/
theorem utf8Cont2Lo_spec (a b c : Nat) :
    (a = b ∧ utf8Cont2Lo a b c = c) ∨ (a ≠ b ∧ utf8Cont2Lo a b c = 0x80) := by
  unfold utf8Cont2Lo; split <;> simp_all
theorem utf8Cont2Hi_spec (a b c : Nat) :
    (a = b ∧ utf8Cont2Hi a b c = c) ∨ (a ≠ b ∧ utf8Cont2Hi a b c = 0xBF) := by
  unfold utf8Cont2Hi; split <;> simp_all
theorem utf8Cont1Lo3Byte_spec (a b c : Nat) :
    (a = b ∧ utf8Cont1Lo3Byte a b c = c) ∨ (a ≠ b ∧ a = 0xE0 ∧ utf8Cont1Lo3Byte a b c = 0xA0) ∨
    (a ≠ b ∧ a ≠ 0xE0 ∧ utf8Cont1Lo3Byte a b c = 0x80) := by
  unfold utf8Cont1Lo3Byte; split <;> (try split) <;> simp_all
theorem utf8Cont1Hi3Byte_spec (a b c : Nat) :
    (a = b ∧ utf8Cont1Hi3Byte a b c = c) ∨ (a ≠ b ∧ a = 0xED ∧ utf8Cont1Hi3Byte a b c = 0x9F) ∨
    (a ≠ b ∧ a ≠ 0xED ∧ utf8Cont1Hi3Byte a b c = 0xBF) := by
  unfold utf8Cont1Hi3Byte; split <;> (try split) <;> simp_all
theorem utf8Cont2LoFull_spec (a a' b b' c : Nat) :
    (a = b ∧ a' = b' ∧ utf8Cont2LoFull a a' b b' c = c) ∨ ((a ≠ b ∨ a' ≠ b') ∧ utf8Cont2LoFull a a' b b' c = 0x80) := by
  unfold utf8Cont2LoFull; split <;> simp_all <;> omega
theorem utf8Cont2HiFull_spec (a a' b b' c : Nat) :
    (a = b ∧ a' = b' ∧ utf8Cont2HiFull a a' b b' c = c) ∨ ((a ≠ b ∨ a' ≠ b') ∧ utf8Cont2HiFull a a' b b' c = 0xBF) := by
  unfold utf8Cont2HiFull; split <;> simp_all <;> omega

theorem compile3s_exact (lo hi : Nat) (h0 : 0x800 ≤ lo) (hlo : lo ≤ hi) (hhi : hi ≤ 0xFFFF)
    (hns : hi < 0xD800 ∨ 0xDFFF < lo) (bs : List Nat) :
    accepts (compileUTF83ByteRangeSimple lo hi) bs = true ↔ ∃ r, lo ≤ r ∧ r ≤ hi ∧ bs = enc3 r := by
  unfold compileUTF83ByteRangeSimple
  simp only [lead3_eq lo (by omega), lead3_eq hi (by omega), cont0_eq, shr6]
  unfold enc3
  split
  · rename_i hsame
    rw [accepts_single, matchesSeq3]
    constructor
    · rintro ⟨x, y, z, rfl, h1, h2, h3, h4, h5, h6⟩
      simp only at h1 h2 h3 h4 h5 h6
      exact ⟨(x - 0xE0) * 4096 + (y - 0x80) * 64 + (z - 0x80), by omega, by omega, l3 (by omega) (by omega) (by omega)⟩
    · rintro ⟨r, h1, h2, rfl⟩
      refine ⟨_, _, _, rfl, ?_, ?_, ?_, ?_, ?_, ?_⟩ <;> simp only <;> omega
  · rename_i hn1
    split
    · rename_i hlead
      simp only [accepts_forRange, accepts_single, matchesSeq3]
      constructor
      · rintro ⟨c1, hc1, hc2, x, y, z, rfl, h1, h2, h3, h4, h5, h6⟩
        have s1 := utf8Cont2Lo_spec c1 (128 + lo / 64 % 64) (128 + lo % 64)
        have s2 := utf8Cont2Hi_spec c1 (128 + hi / 64 % 64) (128 + hi % 64)
        exact ⟨(x - 0xE0) * 4096 + (y - 0x80) * 64 + (z - 0x80), by omega, by omega, l3 (by omega) (by omega) (by omega)⟩
      · rintro ⟨r, h1, h2, rfl⟩
        have s1 := utf8Cont2Lo_spec (0x80 + r / 64 % 64) (128 + lo / 64 % 64) (128 + lo % 64)
        have s2 := utf8Cont2Hi_spec (0x80 + r / 64 % 64) (128 + hi / 64 % 64) (128 + hi % 64)
        exact ⟨0x80 + r / 64 % 64, by omega, by omega, _, _, _, rfl, by omega, by omega, by omega, by omega, by omega, by omega⟩
    · rename_i hlead
      simp only [accepts_forRange, accepts_single, matchesSeq3]
      constructor
      · rintro ⟨ld, hl1, hl2, c1, hc1, hc2, x, y, z, rfl, h1, h2, h3, h4, h5, h6⟩
        have s1 := utf8Cont1Lo3Byte_spec ld (224 + lo / 4096) (128 + lo / 64 % 64)
        have s2 := utf8Cont1Hi3Byte_spec ld (224 + hi / 4096) (128 + hi / 64 % 64)
        have s3 := utf8Cont2LoFull_spec ld c1 (224 + lo / 4096) (128 + lo / 64 % 64) (128 + lo % 64)
        have s4 := utf8Cont2HiFull_spec ld c1 (224 + hi / 4096) (128 + hi / 64 % 64) (128 + hi % 64)
        exact ⟨(x - 0xE0) * 4096 + (y - 0x80) * 64 + (z - 0x80), by omega, by omega, l3 (by omega) (by omega) (by omega)⟩
      · rintro ⟨r, h1, h2, rfl⟩
        have s1 := utf8Cont1Lo3Byte_spec (0xE0 + r / 4096) (224 + lo / 4096) (128 + lo / 64 % 64)
        have s2 := utf8Cont1Hi3Byte_spec (0xE0 + r / 4096) (224 + hi / 4096) (128 + hi / 64 % 64)
        have s3 := utf8Cont2LoFull_spec (0xE0 + r / 4096) (0x80 + r / 64 % 64) (224 + lo / 4096) (128 + lo / 64 % 64) (128 + lo % 64)
        have s4 := utf8Cont2HiFull_spec (0xE0 + r / 4096) (0x80 + r / 64 % 64) (224 + hi / 4096) (128 + hi / 64 % 64) (128 + hi % 64)
        exact ⟨0xE0 + r / 4096, by omega, by omega, 0x80 + r / 64 % 64, by omega, by omega, _, _, _, rfl, by omega, by omega,
          by omega, by omega, by omega, by omega⟩


/-! ### 3 bytes with the surrogate gap -/
theorem compile3_exact (lo hi : Nat) (h0 : 0x800 ≤ lo) (hlo : lo ≤ hi) (hhi : hi ≤ 0xFFFF) (bs : List Nat) :
    accepts (compileUTF83ByteRange lo hi) bs = true ↔
      ∃ r, lo ≤ r ∧ r ≤ hi ∧ (r < 0xD800 ∨ 0xDFFF < r) ∧ bs = enc3 r := by
  unfold compileUTF83ByteRange
  split
  · rename_i h
    rw [accepts_append_iff, compile3s_exact lo 0xD7FF h0 (by omega) (by omega) (by omega),
      compile3s_exact 0xE000 hi (by omega) (by omega) hhi (by omega)]
    constructor
    · rintro (⟨r, h1, h2, rfl⟩ | ⟨r, h1, h2, rfl⟩)
      · exact ⟨r, h1, by omega, by omega, rfl⟩
      · exact ⟨r, by omega, h2, by omega, rfl⟩
    · rintro ⟨r, h1, h2, h3, rfl⟩
      rcases h3 with h3 | h3
      · exact Or.inl ⟨r, h1, by omega, rfl⟩
      · exact Or.inr ⟨r, by omega, h2, rfl⟩
  · rename_i h
    split
    · rename_i h'
      rw [accepts_nil]
      constructor
      · intro hf; exact absurd hf (by decide)
      · rintro ⟨r, h1, h2, h3, -⟩; omega
    · rename_i h'
      simp only []
      by_cases c1 : lo ≥ 0xD800 ∧ lo ≤ 0xDFFF
      · by_cases c2 : hi ≥ 0xD800 ∧ hi ≤ 0xDFFF
        · omega
        · rw [if_pos c1, if_neg c2, if_neg (by omega), compile3s_exact 0xE000 hi (by omega) (by omega) hhi (by omega)]
          constructor
          · rintro ⟨r, h1, h2, rfl⟩; exact ⟨r, by omega, h2, by omega, rfl⟩
          · rintro ⟨r, h1, h2, h3, rfl⟩; exact ⟨r, by omega, h2, rfl⟩
      · by_cases c2 : hi ≥ 0xD800 ∧ hi ≤ 0xDFFF
        · rw [if_neg c1, if_pos c2, if_neg (by omega), compile3s_exact lo 0xD7FF h0 (by omega) (by omega) (by omega)]
          constructor
          · rintro ⟨r, h1, h2, rfl⟩; exact ⟨r, h1, by omega, by omega, rfl⟩
          · rintro ⟨r, h1, h2, h3, rfl⟩; exact ⟨r, h1, by omega, rfl⟩
        · rw [if_neg c1, if_neg c2, if_neg (by omega), compile3s_exact lo hi h0 hlo hhi (by omega)]
          constructor
          · rintro ⟨r, h1, h2, rfl⟩; exact ⟨r, h1, h2, by omega, rfl⟩
          · rintro ⟨r, h1, h2, h3, rfl⟩; exact ⟨r, h1, h2, rfl⟩

/-! ### 4 bytes: `utf84Split` -/

theorem or_mask (x k : Nat) : x ||| (2 ^ k - 1) = x - x % 2 ^ k + (2 ^ k - 1) := by
  have hp : 0 < 2 ^ k := Nat.two_pow_pos k
  have hb : x % 2 ^ k < 2 ^ k := Nat.mod_lt _ hp
  have h1 : x = 2 ^ k * (x / 2 ^ k) + x % 2 ^ k := (Nat.div_add_mod x (2 ^ k)).symm
  have h2 : (x % 2 ^ k) ||| (2 ^ k - 1) = 2 ^ k - 1 := by
    apply Nat.eq_of_testBit_eq
    intro i
    rw [Nat.testBit_or, Nat.testBit_two_pow_sub_one]
    by_cases hi : i < k
    · simp [hi]
    · have : x % 2 ^ k < 2 ^ i := Nat.lt_of_lt_of_le hb (Nat.pow_le_pow_right (by omega) (by omega))
      simp [hi, Nat.testBit_lt_two_pow this]
  have h3 : x ||| (2 ^ k - 1) = 2 ^ k * (x / 2 ^ k) + (2 ^ k - 1) := by
    conv => lhs; rw [h1]
    rw [Nat.two_pow_add_eq_or_of_lt hb, Nat.or_assoc, h2, ← Nat.two_pow_add_eq_or_of_lt (by omega)]
  rw [h3]
  omega

theorem bitClear_mask (x k : Nat) : bitClear x (2 ^ k - 1) = x - x % 2 ^ k := by
  unfold bitClear; rw [Nat.and_two_pow_sub_one_eq_mod]

theorem split_zero (f lo hi : Nat) : utf84Split (f + 1) lo hi 0 = [[(byteAt 0 lo, byteAt 0 hi)]] := by
  rw [utf84Split]; simp

theorem split_step (f lo hi n k : Nat) (hn : n ≠ 0) (hk : 6 * n = k) :
    utf84Split (f + 1) lo hi n =
      if lo - lo % 2 ^ k = hi - hi % 2 ^ k then
        (utf84Split f lo hi (n - 1)).map fun sub => (byteAt n lo, byteAt n lo) :: sub
      else
        (if lo % 2 ^ k ≠ 0 then utf84Split f lo (lo - lo % 2 ^ k + (2 ^ k - 1)) n else []) ++
        (if (if lo % 2 ^ k ≠ 0 then lo - lo % 2 ^ k + (2 ^ k - 1) + 1 else lo) ≤
            (if hi % 2 ^ k ≠ 2 ^ k - 1 then hi - hi % 2 ^ k - 1 else hi) then
          [(byteAt n (if lo % 2 ^ k ≠ 0 then lo - lo % 2 ^ k + (2 ^ k - 1) + 1 else lo),
            byteAt n (if hi % 2 ^ k ≠ 2 ^ k - 1 then hi - hi % 2 ^ k - 1 else hi)) :: List.replicate n (0x80, 0xBF)]
         else []) ++
        (if hi % 2 ^ k ≠ 2 ^ k - 1 then utf84Split f (hi - hi % 2 ^ k) hi n else []) := by
  subst hk
  rw [utf84Split, if_neg hn]
  simp only [Nat.shiftLeft_eq, Nat.one_mul, bitClear_mask, or_mask, Nat.and_two_pow_sub_one_eq_mod, List.append_assoc]

theorem byteAt0 (x : Nat) : byteAt 0 x = 0x80 + x % 64 := by
  unfold byteAt; rw [if_neg (by decide)]; simp only [Nat.mul_zero, Nat.shiftRight_zero]; exact cont0_eq x
theorem byteAt1 (x : Nat) : byteAt 1 x = 0x80 + x / 64 % 64 := by
  unfold byteAt; rw [if_neg (by decide)]; exact cont1_eq x
theorem byteAt2 (x : Nat) : byteAt 2 x = 0x80 + x / 4096 % 64 := by
  unfold byteAt; rw [if_neg (by decide)]; exact cont2_eq x
theorem byteAt3 (x : Nat) (h : x < 0x200000) : byteAt 3 x = 0xF0 + x / 262144 := by
  unfold byteAt; rw [if_pos rfl]; exact lead4_eq x h

end Cx.Utf8Range
