import Cx.Proofs.Utf8RangeBase
import Cx.Spec.GoRef
/-
  Cx.Proofs.Utf8Range — the byte-level automaton compiled for a character class accepts exactly the UTF-8 encodings of
  the class's runes (C15), as a theorem about the transliterated compiler `Cx.Model.Utf8Range`, for ALL ranges.

  * `split{0,1,2,3}_exact`: `utf84Split` level by level (same-current-byte case first, then head / whole blocks / tail),
    `compile4_exact`.
  * `compileUTF8Range_exact` (= `utf8RangeSeqs_exact_scalar`): for all `lo hi`, without any precondition,
      accepts (compileUTF8Range lo hi) bs ↔ ∃ r, lo ≤ r ≤ hi ∧ isScalar r ∧ bs = encode r
    and `utf8RangeSeqs_exact` in the form with `hi ≤ 0x10FFFF` and "no surrogate in [lo, hi]".
  * `classSeqs_exact`: all three paths of `compileCharClass` (ASCII Sparse, ≤ 256 runes literal alternation, large),
    with the one deviation (lone byte ≥ 0x80 in an any-non-ASCII class) stated exactly; `classSeqs_exact_of_exactClass`
    under the decidable predicate `exactClass`.
  * witnesses: `small_class_surrogate_fixed`, `all_surrogate_class_empty`, `large_class_surrogate_ok`,
    `covers_all_accepts_invalid_byte`.
-/
namespace Cx.Utf8Range
open Cx.Utf8

theorem l1 {a b : Nat} (h : a = b) : [a] = [b] := by subst h; rfl

theorem split0_exact (f lo hi : Nat) (hf : 1 ≤ f) (_hlo : lo ≤ hi) (hs : lo / 64 = hi / 64) (bs : List Nat) :
    accepts (utf84Split f lo hi 0) bs = true ↔ ∃ r, lo ≤ r ∧ r ≤ hi ∧ bs = [0x80 + r % 64] := by
  obtain ⟨f, rfl⟩ : ∃ f', f = f' + 1 := ⟨f - 1, by omega⟩
  rw [split_zero, accepts_single, matchesSeq1, byteAt0, byteAt0]
  constructor
  · rintro ⟨x, rfl, h1, h2⟩
    simp only at h1 h2
    exact ⟨lo / 64 * 64 + (x - 0x80), by omega, by omega, l1 (by omega)⟩
  · rintro ⟨r, h1, h2, rfl⟩
    exact ⟨_, rfl, by simp only; omega, by simp only; omega⟩

/-! level 1 (current byte = second continuation byte from the end) -/

def T1 (r : Nat) : List Nat := [0x80 + r / 64 % 64, 0x80 + r % 64]

theorem split1_same (f lo hi : Nat) (hf : 2 ≤ f) (hlo : lo ≤ hi) (hs : lo / 64 = hi / 64) (bs : List Nat) :
    accepts (utf84Split f lo hi 1) bs = true ↔ ∃ r, lo ≤ r ∧ r ≤ hi ∧ bs = T1 r := by
  obtain ⟨f, rfl⟩ : ∃ f', f = f' + 1 := ⟨f - 1, by omega⟩
  rw [split_step f lo hi 1 6 (by decide) rfl]
  simp only [Nat.reducePow, Nat.reduceSub]
  rw [if_pos (by omega), accepts_map_cons]
  simp only [split0_exact f lo hi (by omega) hlo hs, byteAt1]
  unfold T1
  constructor
  · rintro ⟨x, t, rfl, h1, h2, r, h3, h4, rfl⟩
    exact ⟨r, h3, h4, l2 (by omega) rfl⟩
  · rintro ⟨r, h1, h2, rfl⟩
    exact ⟨_, _, rfl, by omega, by omega, r, h1, h2, rfl⟩

theorem mid1 (a b : Nat) (ha : a % 64 = 0) (hb : b % 64 = 63) (hu : a / 4096 = b / 4096) (bs : List Nat) :
    accepts (if a ≤ b then [(byteAt 1 a, byteAt 1 b) :: List.replicate 1 (0x80, 0xBF)] else []) bs = true ↔
      ∃ r, a ≤ r ∧ r ≤ b ∧ bs = T1 r := by
  unfold T1
  split
  · rw [accepts_single, byteAt1, byteAt1]
    simp only [List.replicate_succ, List.replicate_zero]
    rw [matchesSeq2]
    constructor
    · rintro ⟨x, y, rfl, h1, h2, h3, h4⟩
      simp only at h1 h2 h3 h4
      exact ⟨a / 4096 * 4096 + (x - 0x80) * 64 + (y - 0x80), by omega, by omega, l2 (by omega) (by omega)⟩
    · rintro ⟨r, h1, h2, rfl⟩
      refine ⟨_, _, rfl, ?_, ?_, ?_, ?_⟩ <;> simp only <;> omega
  · rw [accepts_nil]
    constructor
    · intro h; exact absurd h (by decide)
    · rintro ⟨r, h1, h2, -⟩; omega

theorem split1_exact (f lo hi : Nat) (hf : 3 ≤ f) (hlo : lo ≤ hi) (hu : lo / 4096 = hi / 4096) (bs : List Nat) :
    accepts (utf84Split f lo hi 1) bs = true ↔ ∃ r, lo ≤ r ∧ r ≤ hi ∧ bs = T1 r := by
  by_cases hs : lo / 64 = hi / 64
  · exact split1_same f lo hi (by omega) hlo hs bs
  · obtain ⟨f, rfl⟩ : ∃ f', f = f' + 1 := ⟨f - 1, by omega⟩
    rw [split_step f lo hi 1 6 (by decide) rfl]
    simp only [Nat.reducePow, Nat.reduceSub]
    rw [if_neg (by omega)]
    generalize hlo1 : (if lo % 64 ≠ 0 then lo - lo % 64 + 63 + 1 else lo) = lo1
    generalize hhi1 : (if hi % 64 ≠ 63 then hi - hi % 64 - 1 else hi) = hi1
    have slo : (lo % 64 ≠ 0 ∧ lo1 = lo - lo % 64 + 64) ∨ (lo % 64 = 0 ∧ lo1 = lo) := by
      subst hlo1; split <;> omega
    have shi : (hi % 64 ≠ 63 ∧ hi1 + 1 = hi - hi % 64) ∨ (hi % 64 = 63 ∧ hi1 = hi) := by
      subst hhi1; split <;> omega
    rw [accepts_append_iff, accepts_append_iff, mid1 lo1 hi1 (by omega) (by omega) (by omega)]
    constructor
    · rintro ((h | h) | h)
      · split at h
        · obtain ⟨r, h1, h2, rfl⟩ := (split1_same f lo _ (by omega) (by omega) (by omega) bs).mp h
          exact ⟨r, h1, by omega, rfl⟩
        · rw [accepts_nil] at h; exact absurd h (by decide)
      · obtain ⟨r, h1, h2, rfl⟩ := h
        exact ⟨r, by omega, by omega, rfl⟩
      · split at h
        · obtain ⟨r, h1, h2, rfl⟩ := (split1_same f _ hi (by omega) (by omega) (by omega) bs).mp h
          exact ⟨r, by omega, h2, rfl⟩
        · rw [accepts_nil] at h; exact absurd h (by decide)
    · rintro ⟨r, h1, h2, rfl⟩
      by_cases c1 : r / 64 = lo / 64 ∧ lo % 64 ≠ 0
      · left; left
        rw [if_pos c1.2]
        exact (split1_same f lo _ (by omega) (by omega) (by omega) _).mpr ⟨r, h1, by omega, rfl⟩
      · by_cases c2 : r / 64 = hi / 64 ∧ hi % 64 ≠ 63
        · right
          rw [if_pos c2.2]
          exact (split1_same f _ hi (by omega) (by omega) (by omega) _).mpr ⟨r, by omega, h2, rfl⟩
        · left; right
          exact ⟨r, by omega, by omega, rfl⟩


/-! level 2 -/

def T2 (r : Nat) : List Nat := [0x80 + r / 4096 % 64, 0x80 + r / 64 % 64, 0x80 + r % 64]

theorem split2_same (f lo hi : Nat) (hf : 4 ≤ f) (hlo : lo ≤ hi) (hs : lo / 4096 = hi / 4096) (bs : List Nat) :
    accepts (utf84Split f lo hi 2) bs = true ↔ ∃ r, lo ≤ r ∧ r ≤ hi ∧ bs = T2 r := by
  obtain ⟨f, rfl⟩ : ∃ f', f = f' + 1 := ⟨f - 1, by omega⟩
  rw [split_step f lo hi 2 12 (by decide) rfl]
  simp only [Nat.reducePow, Nat.reduceSub]
  rw [if_pos (by omega), accepts_map_cons]
  simp only [split1_exact f lo hi (by omega) hlo hs, byteAt2]
  unfold T2 T1
  constructor
  · rintro ⟨x, t, rfl, h1, h2, r, h3, h4, rfl⟩
    exact ⟨r, h3, h4, l3 (by omega) rfl rfl⟩
  · rintro ⟨r, h1, h2, rfl⟩
    exact ⟨_, _, rfl, by omega, by omega, r, h1, h2, rfl⟩

theorem mid2 (a b : Nat) (ha : a % 4096 = 0) (hb : b % 4096 = 4095) (hu : a / 262144 = b / 262144) (bs : List Nat) :
    accepts (if a ≤ b then [(byteAt 2 a, byteAt 2 b) :: List.replicate 2 (0x80, 0xBF)] else []) bs = true ↔
      ∃ r, a ≤ r ∧ r ≤ b ∧ bs = T2 r := by
  unfold T2
  split
  · rw [accepts_single, byteAt2, byteAt2]
    simp only [List.replicate_succ, List.replicate_zero]
    rw [matchesSeq3]
    constructor
    · rintro ⟨x, y, z, rfl, h1, h2, h3, h4, h5, h6⟩
      simp only at h1 h2 h3 h4 h5 h6
      exact ⟨a / 262144 * 262144 + (x - 0x80) * 4096 + (y - 0x80) * 64 + (z - 0x80), by omega, by omega,
        l3 (by omega) (by omega) (by omega)⟩
    · rintro ⟨r, h1, h2, rfl⟩
      refine ⟨_, _, _, rfl, ?_, ?_, ?_, ?_, ?_, ?_⟩ <;> simp only <;> omega
  · rw [accepts_nil]
    constructor
    · intro h; exact absurd h (by decide)
    · rintro ⟨r, h1, h2, -⟩; omega

theorem split2_exact (f lo hi : Nat) (hf : 5 ≤ f) (hlo : lo ≤ hi) (hu : lo / 262144 = hi / 262144) (bs : List Nat) :
    accepts (utf84Split f lo hi 2) bs = true ↔ ∃ r, lo ≤ r ∧ r ≤ hi ∧ bs = T2 r := by
  by_cases hs : lo / 4096 = hi / 4096
  · exact split2_same f lo hi (by omega) hlo hs bs
  · obtain ⟨f, rfl⟩ : ∃ f', f = f' + 1 := ⟨f - 1, by omega⟩
    rw [split_step f lo hi 2 12 (by decide) rfl]
    simp only [Nat.reducePow, Nat.reduceSub]
    rw [if_neg (by omega)]
    generalize hlo1 : (if lo % 4096 ≠ 0 then lo - lo % 4096 + 4095 + 1 else lo) = lo1
    generalize hhi1 : (if hi % 4096 ≠ 4095 then hi - hi % 4096 - 1 else hi) = hi1
    have slo : (lo % 4096 ≠ 0 ∧ lo1 = lo - lo % 4096 + 4096) ∨ (lo % 4096 = 0 ∧ lo1 = lo) := by
      subst hlo1; split <;> omega
    have shi : (hi % 4096 ≠ 4095 ∧ hi1 + 1 = hi - hi % 4096) ∨ (hi % 4096 = 4095 ∧ hi1 = hi) := by
      subst hhi1; split <;> omega
    rw [accepts_append_iff, accepts_append_iff, mid2 lo1 hi1 (by omega) (by omega) (by omega)]
    constructor
    · rintro ((h | h) | h)
      · split at h
        · obtain ⟨r, h1, h2, rfl⟩ := (split2_same f lo _ (by omega) (by omega) (by omega) bs).mp h
          exact ⟨r, h1, by omega, rfl⟩
        · rw [accepts_nil] at h; exact absurd h (by decide)
      · obtain ⟨r, h1, h2, rfl⟩ := h
        exact ⟨r, by omega, by omega, rfl⟩
      · split at h
        · obtain ⟨r, h1, h2, rfl⟩ := (split2_same f _ hi (by omega) (by omega) (by omega) bs).mp h
          exact ⟨r, by omega, h2, rfl⟩
        · rw [accepts_nil] at h; exact absurd h (by decide)
    · rintro ⟨r, h1, h2, rfl⟩
      by_cases c1 : r / 4096 = lo / 4096 ∧ lo % 4096 ≠ 0
      · left; left
        rw [if_pos c1.2]
        exact (split2_same f lo _ (by omega) (by omega) (by omega) _).mpr ⟨r, h1, by omega, rfl⟩
      · by_cases c2 : r / 4096 = hi / 4096 ∧ hi % 4096 ≠ 4095
        · right
          rw [if_pos c2.2]
          exact (split2_same f _ hi (by omega) (by omega) (by omega) _).mpr ⟨r, by omega, h2, rfl⟩
        · left; right
          exact ⟨r, by omega, by omega, rfl⟩

/-! level 3 (lead byte) -/

theorem split3_same (f lo hi : Nat) (hf : 6 ≤ f) (hlo : lo ≤ hi) (hs : lo / 262144 = hi / 262144)
    (hb : hi < 0x200000) (bs : List Nat) :
    accepts (utf84Split f lo hi 3) bs = true ↔ ∃ r, lo ≤ r ∧ r ≤ hi ∧ bs = enc4 r := by
  obtain ⟨f, rfl⟩ : ∃ f', f = f' + 1 := ⟨f - 1, by omega⟩
  rw [split_step f lo hi 3 18 (by decide) rfl]
  simp only [Nat.reducePow, Nat.reduceSub]
  rw [if_pos (by omega), accepts_map_cons]
  simp only [split2_exact f lo hi (by omega) hlo hs, byteAt3 lo (by omega)]
  unfold enc4 T2
  constructor
  · rintro ⟨x, t, rfl, h1, h2, r, h3, h4, rfl⟩
    exact ⟨r, h3, h4, l4 (by omega) rfl rfl rfl⟩
  · rintro ⟨r, h1, h2, rfl⟩
    exact ⟨_, _, rfl, by omega, by omega, r, h1, h2, rfl⟩

theorem mid3 (a b : Nat) (ha : a % 262144 = 0) (hb : b % 262144 = 262143) (hb2 : b < 0x200000) (bs : List Nat) :
    accepts (if a ≤ b then [(byteAt 3 a, byteAt 3 b) :: List.replicate 3 (0x80, 0xBF)] else []) bs = true ↔
      ∃ r, a ≤ r ∧ r ≤ b ∧ bs = enc4 r := by
  unfold enc4
  split
  · rw [accepts_single, byteAt3 a (by omega), byteAt3 b hb2]
    simp only [List.replicate_succ, List.replicate_zero]
    rw [matchesSeq4]
    constructor
    · rintro ⟨x, y, z, w, rfl, h1, h2, h3, h4, h5, h6, h7, h8⟩
      simp only at h1 h2 h3 h4 h5 h6 h7 h8
      exact ⟨(x - 0xF0) * 262144 + (y - 0x80) * 4096 + (z - 0x80) * 64 + (w - 0x80), by omega, by omega,
        l4 (by omega) (by omega) (by omega) (by omega)⟩
    · rintro ⟨r, h1, h2, rfl⟩
      refine ⟨_, _, _, _, rfl, ?_, ?_, ?_, ?_, ?_, ?_, ?_, ?_⟩ <;> simp only <;> omega
  · rw [accepts_nil]
    constructor
    · intro h; exact absurd h (by decide)
    · rintro ⟨r, h1, h2, -⟩; omega

theorem split3_exact (f lo hi : Nat) (hf : 7 ≤ f) (hlo : lo ≤ hi) (hb : hi < 0x200000) (bs : List Nat) :
    accepts (utf84Split f lo hi 3) bs = true ↔ ∃ r, lo ≤ r ∧ r ≤ hi ∧ bs = enc4 r := by
  by_cases hs : lo / 262144 = hi / 262144
  · exact split3_same f lo hi (by omega) hlo hs hb bs
  · obtain ⟨f, rfl⟩ : ∃ f', f = f' + 1 := ⟨f - 1, by omega⟩
    rw [split_step f lo hi 3 18 (by decide) rfl]
    simp only [Nat.reducePow, Nat.reduceSub]
    rw [if_neg (by omega)]
    generalize hlo1 : (if lo % 262144 ≠ 0 then lo - lo % 262144 + 262143 + 1 else lo) = lo1
    generalize hhi1 : (if hi % 262144 ≠ 262143 then hi - hi % 262144 - 1 else hi) = hi1
    have slo : (lo % 262144 ≠ 0 ∧ lo1 = lo - lo % 262144 + 262144) ∨ (lo % 262144 = 0 ∧ lo1 = lo) := by
      subst hlo1; split <;> omega
    have shi : (hi % 262144 ≠ 262143 ∧ hi1 + 1 = hi - hi % 262144) ∨ (hi % 262144 = 262143 ∧ hi1 = hi) := by
      subst hhi1; split <;> omega
    rw [accepts_append_iff, accepts_append_iff, mid3 lo1 hi1 (by omega) (by omega) (by omega)]
    constructor
    · rintro ((h | h) | h)
      · split at h
        · obtain ⟨r, h1, h2, rfl⟩ := (split3_same f lo _ (by omega) (by omega) (by omega) (by omega) bs).mp h
          exact ⟨r, h1, by omega, rfl⟩
        · rw [accepts_nil] at h; exact absurd h (by decide)
      · obtain ⟨r, h1, h2, rfl⟩ := h
        exact ⟨r, by omega, by omega, rfl⟩
      · split at h
        · obtain ⟨r, h1, h2, rfl⟩ := (split3_same f _ hi (by omega) (by omega) (by omega) hb bs).mp h
          exact ⟨r, by omega, h2, rfl⟩
        · rw [accepts_nil] at h; exact absurd h (by decide)
    · rintro ⟨r, h1, h2, rfl⟩
      by_cases c1 : r / 262144 = lo / 262144 ∧ lo % 262144 ≠ 0
      · left; left
        rw [if_pos c1.2]
        exact (split3_same f lo _ (by omega) (by omega) (by omega) (by omega) _).mpr ⟨r, h1, by omega, rfl⟩
      · by_cases c2 : r / 262144 = hi / 262144 ∧ hi % 262144 ≠ 262143
        · right
          rw [if_pos c2.2]
          exact (split3_same f _ hi (by omega) (by omega) (by omega) hb _).mpr ⟨r, by omega, h2, rfl⟩
        · left; right
          exact ⟨r, by omega, by omega, rfl⟩

/-- `compileUTF84ByteRange` accepts exactly the 4-byte encodings of the code points of `[lo, hi]` that have one -/
theorem compile4_exact (lo hi : Nat) (bs : List Nat) :
    accepts (compileUTF84ByteRange lo hi) bs = true ↔
      ∃ r, lo ≤ r ∧ r ≤ hi ∧ 0x10000 ≤ r ∧ r ≤ 0x10FFFF ∧ bs = enc4 r := by
  unfold compileUTF84ByteRange
  simp only []
  generalize hhi' : (if hi > 0x10FFFF then 0x10FFFF else hi) = hi'
  generalize hlo' : (if lo < 0x10000 then 0x10000 else lo) = lo'
  have s1 : (hi > 0x10FFFF ∧ hi' = 0x10FFFF) ∨ (hi ≤ 0x10FFFF ∧ hi' = hi) := by subst hhi'; split <;> omega
  have s2 : (lo < 0x10000 ∧ lo' = 0x10000) ∨ (lo ≥ 0x10000 ∧ lo' = lo) := by subst hlo'; split <;> omega
  split
  · rw [accepts_nil]
    constructor
    · intro h; exact absurd h (by decide)
    · rintro ⟨r, h1, h2, h3, h4, -⟩; omega
  · rw [split3_exact splitFuel lo' hi' (by decide) (by omega) (by omega)]
    constructor
    · rintro ⟨r, h1, h2, rfl⟩; exact ⟨r, by omega, by omega, by omega, by omega, rfl⟩
    · rintro ⟨r, h1, h2, h3, h4, rfl⟩; exact ⟨r, by omega, by omega, rfl⟩


/-! ### `compileUTF8Range`: the four stages -/

theorem exists_empty {p : Nat → Prop} (h : ∀ r, ¬ p r) : (∃ r, p r) ↔ False := by
  constructor
  · rintro ⟨r, hr⟩; exact h r hr
  · intro hf; exact hf.elim

def rest3 (s3 : List Seq) (lo3 hi : Nat) : List Seq :=
  if lo3 > hi then s3 else s3 ++ compileUTF84ByteRange lo3 hi

def rest2 (s2 : List Seq) (lo2 hi : Nat) : List Seq :=
  if lo2 > hi then s2 else
  rest3 (if lo2 ≤ 0xFFFF then s2 ++ compileUTF83ByteRange lo2 (if hi > 0xFFFF then 0xFFFF else hi) else s2)
    (if lo2 ≤ 0xFFFF then 0x10000 else lo2) hi

def rest1 (s1 : List Seq) (lo1 hi : Nat) : List Seq :=
  if lo1 > hi then s1 else
  rest2 (if lo1 ≤ 0x7FF then s1 ++ compileUTF82ByteRange lo1 (if hi > 0x7FF then 0x7FF else hi) else s1)
    (if lo1 ≤ 0x7FF then 0x800 else lo1) hi

theorem compileUTF8Range_eq (lo hi : Nat) :
    compileUTF8Range lo hi =
      rest1 (if lo ≤ 0x7F then compileUTF81ByteRange lo (if hi > 0x7F then 0x7F else hi) else [])
        (if lo ≤ 0x7F then 0x80 else lo) hi := rfl

theorem rest3_spec (s3 : List Seq) (lo3 hi : Nat) (h : 0x10000 ≤ lo3) (bs : List Nat) :
    accepts (rest3 s3 lo3 hi) bs = true ↔
      accepts s3 bs = true ∨ ∃ r, lo3 ≤ r ∧ r ≤ hi ∧ isScalar r ∧ bs = encode r := by
  unfold rest3 isScalar maxRune
  split
  · rename_i hgt
    constructor
    · exact Or.inl
    · rintro (h1 | ⟨r, h1, h2, -⟩)
      · exact h1
      · omega
  · rw [accepts_append_iff, compile4_exact]
    constructor
    · rintro (h1 | ⟨r, h1, h2, h3, h4, rfl⟩)
      · exact Or.inl h1
      · exact Or.inr ⟨r, h1, h2, ⟨h4, by omega⟩, (encode_4 h3 h4).symm⟩
    · rintro (h1 | ⟨r, h1, h2, ⟨h3, h4⟩, rfl⟩)
      · exact Or.inl h1
      · exact Or.inr ⟨r, h1, h2, by omega, h3, encode_4 (by omega) h3⟩

theorem rest2_spec (s2 : List Seq) (lo2 hi : Nat) (h : 0x800 ≤ lo2) (bs : List Nat) :
    accepts (rest2 s2 lo2 hi) bs = true ↔
      accepts s2 bs = true ∨ ∃ r, lo2 ≤ r ∧ r ≤ hi ∧ isScalar r ∧ bs = encode r := by
  unfold rest2
  split
  · rename_i hgt
    constructor
    · exact Or.inl
    · rintro (h1 | ⟨r, h1, h2, -⟩)
      · exact h1
      · omega
  · rename_i hle
    by_cases c : lo2 ≤ 0xFFFF
    · rw [if_pos c, if_pos c, rest3_spec _ _ _ (by omega), accepts_append_iff,
        compile3_exact lo2 _ h (by split <;> omega) (by split <;> omega)]
      unfold isScalar maxRune
      constructor
      · rintro ((h1 | ⟨r, h1, h2, h3, rfl⟩) | ⟨r, h1, h2, ⟨h3, h4⟩, rfl⟩)
        · exact Or.inl h1
        · have h2' : r ≤ hi ∧ r ≤ 0xFFFF := by split at h2 <;> omega
          exact Or.inr ⟨r, h1, h2'.1, ⟨by omega, by omega⟩, (encode_3 (by omega) (by omega) h3).symm⟩
        · exact Or.inr ⟨r, by omega, h2, ⟨h3, h4⟩, rfl⟩
      · rintro (h1 | ⟨r, h1, h2, ⟨h3, h4⟩, rfl⟩)
        · exact Or.inl (Or.inl h1)
        · by_cases c4 : r < 0x10000
          · exact Or.inl (Or.inr ⟨r, h1, by split <;> omega, by omega, encode_3 (by omega) c4 (by omega)⟩)
          · exact Or.inr ⟨r, by omega, h2, ⟨h3, h4⟩, rfl⟩
    · rw [if_neg c, if_neg c, rest3_spec _ _ _ (by omega)]

theorem rest1_spec (s1 : List Seq) (lo1 hi : Nat) (h : 0x80 ≤ lo1) (bs : List Nat) :
    accepts (rest1 s1 lo1 hi) bs = true ↔
      accepts s1 bs = true ∨ ∃ r, lo1 ≤ r ∧ r ≤ hi ∧ isScalar r ∧ bs = encode r := by
  unfold rest1
  split
  · rename_i hgt
    constructor
    · exact Or.inl
    · rintro (h1 | ⟨r, h1, h2, -⟩)
      · exact h1
      · omega
  · rename_i hle
    by_cases c : lo1 ≤ 0x7FF
    · rw [if_pos c, if_pos c, rest2_spec _ _ _ (by omega), accepts_append_iff,
        compile2_exact lo1 _ h (by split <;> omega) (by split <;> omega)]
      unfold isScalar maxRune
      constructor
      · rintro ((h1 | ⟨r, h1, h2, rfl⟩) | ⟨r, h1, h2, ⟨h3, h4⟩, rfl⟩)
        · exact Or.inl h1
        · have h2' : r ≤ hi ∧ r ≤ 0x7FF := by split at h2 <;> omega
          exact Or.inr ⟨r, h1, h2'.1, ⟨by omega, by omega⟩, (encode_2 (by omega) (by omega)).symm⟩
        · exact Or.inr ⟨r, by omega, h2, ⟨h3, h4⟩, rfl⟩
      · rintro (h1 | ⟨r, h1, h2, ⟨h3, h4⟩, rfl⟩)
        · exact Or.inl (Or.inl h1)
        · by_cases c4 : r < 0x800
          · exact Or.inl (Or.inr ⟨r, h1, by split <;> omega, encode_2 (by omega) c4⟩)
          · exact Or.inr ⟨r, by omega, h2, ⟨h3, h4⟩, rfl⟩
    · rw [if_neg c, if_neg c, rest2_spec _ _ _ (by omega)]

/-- **Exactness of `compileUTF8Range`, for all `lo`, `hi`** (no precondition: an empty range `lo > hi` gives the empty
language, `hi > 0x10FFFF` is clamped, the surrogates `0xD800–0xDFFF` are skipped): the automaton accepts a byte string
iff it is the UTF-8 encoding of a scalar value of `[lo, hi]`. -/
theorem compileUTF8Range_exact (lo hi : Nat) (bs : List Nat) :
    accepts (compileUTF8Range lo hi) bs = true ↔ ∃ r, lo ≤ r ∧ r ≤ hi ∧ isScalar r ∧ bs = encode r := by
  rw [compileUTF8Range_eq]
  by_cases c : lo ≤ 0x7F
  · rw [if_pos c, if_pos c, rest1_spec _ _ _ (by omega), compile1_exact lo _ c (by split <;> omega)]
    unfold isScalar maxRune
    constructor
    · rintro (⟨r, h1, h2, rfl⟩ | ⟨r, h1, h2, ⟨h3, h4⟩, rfl⟩)
      · have h2' : r ≤ hi ∧ r ≤ 0x7F := by split at h2 <;> omega
        exact ⟨r, h1, h2'.1, ⟨by omega, by omega⟩, (encode_1 (by omega)).symm⟩
      · exact ⟨r, by omega, h2, ⟨h3, h4⟩, rfl⟩
    · rintro ⟨r, h1, h2, ⟨h3, h4⟩, rfl⟩
      by_cases c4 : r < 0x80
      · exact Or.inl ⟨r, h1, by split <;> omega, encode_1 c4⟩
      · exact Or.inr ⟨r, by omega, h2, ⟨h3, h4⟩, rfl⟩
  · rw [if_neg c, if_neg c, rest1_spec _ _ _ (by omega)]
    simp [accepts_nil]


/-! ### class level -/

/-- membership of a rune in a class given as rune ranges -/
def inR (r : Nat) (ranges : List (Nat × Nat)) : Prop := ∃ p, p ∈ ranges ∧ p.1 ≤ r ∧ r ≤ p.2

/-- what `regexp/syntax` guarantees for every class it builds (and what the proof needs): `lo ≤ hi ≤ MaxRune` -/
def wfRanges (ranges : List (Nat × Nat)) : Bool := ranges.all fun p => decide (p.1 ≤ p.2) && decide (p.2 ≤ 0x10FFFF)

/-- the full shape of a `regexp/syntax` class (`cleanClass`): additionally sorted, disjoint and non-adjacent -/
def cleanRanges : List (Nat × Nat) → Bool
  | [] => true
  | [p] => decide (p.1 ≤ p.2) && decide (p.2 ≤ 0x10FFFF)
  | p :: q :: t => decide (p.1 ≤ p.2) && decide (p.2 + 1 < q.1) && cleanRanges (q :: t)

theorem cleanRanges_wf : ∀ ranges, cleanRanges ranges = true → wfRanges ranges = true
  | [], _ => rfl
  | [p], h => by simpa [cleanRanges, wfRanges] using h
  | p :: q :: t, h => by
    simp only [cleanRanges, Bool.and_eq_true, decide_eq_true_eq] at h
    have ih := cleanRanges_wf (q :: t) h.2
    simp only [wfRanges, List.all_cons, Bool.and_eq_true, decide_eq_true_eq] at ih ⊢
    refine ⟨⟨h.1.1, ?_⟩, ih⟩
    omega

theorem wf_mem {ranges : List (Nat × Nat)} (h : wfRanges ranges = true) {p : Nat × Nat} (hp : p ∈ ranges) :
    p.1 ≤ p.2 ∧ p.2 ≤ 0x10FFFF := by
  unfold wfRanges at h
  have := List.all_eq_true.mp h p hp
  simpa using this

theorem matchesSeq_lit (l bs : List Nat) : matchesSeq bs (l.map fun b => (b, b)) = true ↔ bs = l := by
  induction l generalizing bs with
  | nil => cases bs <;> simp [matchesSeq]
  | cons a t ih =>
    rw [List.map_cons, matchesSeq_cons]
    constructor
    · rintro ⟨x, u, rfl, h1, h2, h3⟩
      simp only at h1 h2
      rw [(ih u).mp h3]
      congr 1; omega
    · rintro rfl
      exact ⟨a, t, rfl, Nat.le_refl _, Nat.le_refl _, (ih t).mpr rfl⟩

theorem encodeRune_scalar (r : Nat) (h : isScalar r) : encodeRune r = encode r := by
  obtain ⟨h1, h2⟩ := h
  unfold maxRune at h1
  unfold encodeRune
  split
  · rename_i c; rw [encode_1 c]; exact l1 (by unfold byte; omega)
  · split
    · rename_i c1 c2
      rw [encode_2 (by omega) c2, lead2_eq r c2, cont0_eq]; rfl
    · split
      · rename_i c1 c2 c3
        rw [encode_3 (by omega) c3 (by omega), lead3_eq r c3, cont1_eq, cont0_eq]; rfl
      · rename_i c1 c2 c3
        rw [encode_4 (by omega) h1, lead4_eq r (by omega), cont2_eq, cont1_eq, cont0_eq]; rfl

theorem isSurrogate_iff (r : Nat) : isSurrogate r = true ↔ 0xD800 ≤ r ∧ r ≤ 0xDFFF := by
  unfold isSurrogate; simp

/-- the three ways `compileCharClass` can go -/
def allASCII (ranges : List (Nat × Nat)) : Bool := ranges.all fun rng => decide (rng.1 ≤ 127) && decide (rng.2 ≤ 127)
def usesSmall (ranges : List (Nat × Nat)) : Bool := !allASCII ranges && !exceeds256 ranges 0
def usesLarge (ranges : List (Nat × Nat)) : Bool := !allASCII ranges && exceeds256 ranges 0

theorem ascii_path (ranges : List (Nat × Nat)) (ha : allASCII ranges = true) (bs : List Nat) :
    accepts (ranges.map fun rng => [(byte rng.1, byte rng.2)]) bs = true ↔ ∃ r, inR r ranges ∧ bs = [r] := by
  rw [accepts_iff]
  constructor
  · rintro ⟨s, hs, hm⟩
    obtain ⟨p, hp, rfl⟩ := List.mem_map.mp hs
    have hp7 := List.all_eq_true.mp ha p hp
    simp only [Bool.and_eq_true, decide_eq_true_eq] at hp7
    obtain ⟨x, rfl, h1, h2⟩ := (matchesSeq1 _ _).mp hm
    simp only [byte] at h1 h2
    exact ⟨x, ⟨p, hp, by omega, by omega⟩, rfl⟩
  · rintro ⟨r, ⟨p, hp, h1, h2⟩, rfl⟩
    have hp7 := List.all_eq_true.mp ha p hp
    simp only [Bool.and_eq_true, decide_eq_true_eq] at hp7
    refine ⟨_, List.mem_map.mpr ⟨p, hp, rfl⟩, (matchesSeq1 _ _).mpr ⟨r, rfl, ?_, ?_⟩⟩ <;> simp only [byte] <;> omega

theorem small_path (ranges : List (Nat × Nat)) (bs : List Nat) :
    accepts (ranges.flatMap fun rng => forRange rng.1 rng.2 fun r =>
        if isSurrogate r then [] else [(encodeRune r).map fun b => (b, b)]) bs = true ↔
      ∃ r, inR r ranges ∧ ¬ (0xD800 ≤ r ∧ r ≤ 0xDFFF) ∧ bs = encodeRune r := by
  rw [accepts_flatMap]
  simp only [accepts_forRange]
  constructor
  · rintro ⟨p, hp, r, h1, h2, h3⟩
    by_cases hs : isSurrogate r = true
    · rw [if_pos hs, accepts_nil] at h3; exact absurd h3 (by decide)
    · rw [if_neg hs, accepts_single, matchesSeq_lit] at h3
      exact ⟨r, ⟨p, hp, h1, h2⟩, fun h => hs ((isSurrogate_iff r).mpr h), h3⟩
  · rintro ⟨r, ⟨p, hp, h1, h2⟩, hs, rfl⟩
    refine ⟨p, hp, r, h1, h2, ?_⟩
    rw [if_neg (fun h => hs ((isSurrogate_iff r).mp h)), accepts_single, matchesSeq_lit]

theorem asciiPart_spec (ranges : List (Nat × Nat)) (hwf : wfRanges ranges = true) (bs : List Nat) :
    accepts ((asciiPart ranges).map fun t => [t]) bs = true ↔ ∃ r, inR r ranges ∧ r < 0x80 ∧ bs = [r] := by
  induction ranges with
  | nil => simp [asciiPart, accepts_nil, inR]
  | cons p t ih =>
    have hp := wf_mem hwf (List.mem_cons_self)
    have hwt : wfRanges t = true := by
      unfold wfRanges at hwf ⊢; rw [List.all_cons, Bool.and_eq_true] at hwf; exact hwf.2
    have ih := ih hwt
    obtain ⟨lo, hi⟩ := p
    simp only at hp
    have step : ∀ (a : BR), accepts ((a :: asciiPart t).map fun t => [t]) bs = true ↔
        (∃ x, bs = [x] ∧ a.1 ≤ x ∧ x ≤ a.2) ∨ ∃ r, inR r t ∧ r < 0x80 ∧ bs = [r] := by
      intro a
      rw [List.map_cons, ← List.singleton_append, accepts_append_iff, accepts_single, matchesSeq1, ih]
    have inR_cons : ∀ r, inR r ((lo, hi) :: t) ↔ (lo ≤ r ∧ r ≤ hi) ∨ inR r t := by
      intro r; unfold inR; simp
    unfold asciiPart
    split
    · rename_i c
      rw [step]
      simp only [byte]
      constructor
      · rintro (⟨x, rfl, h1, h2⟩ | ⟨r, h1, h2, rfl⟩)
        · exact ⟨x, (inR_cons x).mpr (Or.inl ⟨by omega, by omega⟩), by omega, rfl⟩
        · exact ⟨r, (inR_cons r).mpr (Or.inr h1), h2, rfl⟩
      · rintro ⟨r, h1, h2, rfl⟩
        rcases (inR_cons r).mp h1 with h | h
        · exact Or.inl ⟨r, rfl, by omega, by omega⟩
        · exact Or.inr ⟨r, h, h2, rfl⟩
    · rename_i c
      split
      · rename_i c2
        rw [ih]
        constructor
        · rintro ⟨r, h1, h2, rfl⟩; exact ⟨r, (inR_cons r).mpr (Or.inr h1), h2, rfl⟩
        · rintro ⟨r, h1, h2, rfl⟩
          rcases (inR_cons r).mp h1 with h | h
          · omega
          · exact ⟨r, h, h2, rfl⟩
      · rename_i c2
        rw [step]
        simp only [byte]
        constructor
        · rintro (⟨x, rfl, h1, h2⟩ | ⟨r, h1, h2, rfl⟩)
          · exact ⟨x, (inR_cons x).mpr (Or.inl ⟨by omega, by omega⟩), by omega, rfl⟩
          · exact ⟨r, (inR_cons r).mpr (Or.inr h1), h2, rfl⟩
        · rintro ⟨r, h1, h2, rfl⟩
          rcases (inR_cons r).mp h1 with h | h
          · exact Or.inl ⟨r, rfl, by omega, by omega⟩
          · exact Or.inr ⟨r, h, h2, rfl⟩

theorem nonAsciiPart_spec (ranges : List (Nat × Nat)) (r : Nat) :
    inR r (nonAsciiPart ranges) ↔ inR r ranges ∧ 0x80 ≤ r := by
  induction ranges with
  | nil => simp [nonAsciiPart, inR]
  | cons p t ih =>
    obtain ⟨lo, hi⟩ := p
    have inR_cons : ∀ (a : Nat × Nat) (l : List (Nat × Nat)), inR r (a :: l) ↔ (a.1 ≤ r ∧ r ≤ a.2) ∨ inR r l := by
      intro a l; unfold inR; simp
    unfold nonAsciiPart
    split
    · rw [ih, inR_cons]; simp only; constructor
      · rintro ⟨h1, h2⟩; exact ⟨Or.inr h1, h2⟩
      · rintro ⟨h1 | h1, h2⟩
        · omega
        · exact ⟨h1, h2⟩
    · split
      · rw [inR_cons, inR_cons, ih]; simp only; constructor
        · rintro (h | ⟨h1, h2⟩)
          · exact ⟨Or.inl h, by omega⟩
          · exact ⟨Or.inr h1, h2⟩
        · rintro ⟨h1 | h1, h2⟩
          · exact Or.inl h1
          · exact Or.inr ⟨h1, h2⟩
      · rw [inR_cons, inR_cons, ih]; simp only; constructor
        · rintro (h | ⟨h1, h2⟩)
          · exact ⟨Or.inl ⟨by omega, h.2⟩, by omega⟩
          · exact ⟨Or.inr h1, h2⟩
        · rintro ⟨h1 | h1, h2⟩
          · exact Or.inl ⟨h2, h1.2⟩
          · exact Or.inr ⟨h1, h2⟩

theorem precise_spec (non : List (Nat × Nat)) (bs : List Nat) :
    accepts (non.flatMap fun rng => compileUTF8Range rng.1 rng.2) bs = true ↔
      ∃ r, inR r non ∧ isScalar r ∧ bs = encode r := by
  rw [accepts_flatMap]
  simp only [compileUTF8Range_exact]
  constructor
  · rintro ⟨p, hp, r, h1, h2, h3, rfl⟩; exact ⟨r, ⟨p, hp, h1, h2⟩, h3, rfl⟩
  · rintro ⟨r, ⟨p, hp, h1, h2⟩, h3, rfl⟩; exact ⟨p, hp, r, h1, h2, h3, rfl⟩


theorem branches_spec (bs : List Nat) :
    accepts buildUTF8NonASCIIBranches bs = true ↔ ∃ r, 0x80 ≤ r ∧ isScalar r ∧ bs = encode r := by
  unfold buildUTF8NonASCIIBranches accepts isScalar maxRune
  simp only [List.any_cons, List.any_nil, Bool.or_false, Bool.or_eq_true, matchesSeq2, matchesSeq3, matchesSeq4]
  constructor
  · rintro (⟨x, y, rfl, h1, h2, h3, h4⟩ | ⟨x, y, z, rfl, h1, h2, h3, h4, h5, h6⟩ | ⟨x, y, z, rfl, h1, h2, h3, h4, h5, h6⟩ |
      ⟨x, y, z, rfl, h1, h2, h3, h4, h5, h6⟩ | ⟨x, y, z, rfl, h1, h2, h3, h4, h5, h6⟩ |
      ⟨x, y, z, w, rfl, h1, h2, h3, h4, h5, h6, h7, h8⟩ | ⟨x, y, z, w, rfl, h1, h2, h3, h4, h5, h6, h7, h8⟩ |
      ⟨x, y, z, w, rfl, h1, h2, h3, h4, h5, h6, h7, h8⟩)
    · refine ⟨(x - 0xC0) * 64 + (y - 0x80), by omega, ⟨by omega, by omega⟩, ?_⟩
      rw [encode_2 (by omega) (by omega)]; exact l2 (by omega) (by omega)
    · refine ⟨(x - 0xE0) * 4096 + (y - 0x80) * 64 + (z - 0x80), by omega, ⟨by omega, by omega⟩, ?_⟩
      rw [encode_3 (by omega) (by omega) (by omega)]; exact l3 (by omega) (by omega) (by omega)
    · refine ⟨(x - 0xE0) * 4096 + (y - 0x80) * 64 + (z - 0x80), by omega, ⟨by omega, by omega⟩, ?_⟩
      rw [encode_3 (by omega) (by omega) (by omega)]; exact l3 (by omega) (by omega) (by omega)
    · refine ⟨(x - 0xE0) * 4096 + (y - 0x80) * 64 + (z - 0x80), by omega, ⟨by omega, by omega⟩, ?_⟩
      rw [encode_3 (by omega) (by omega) (by omega)]; exact l3 (by omega) (by omega) (by omega)
    · refine ⟨(x - 0xE0) * 4096 + (y - 0x80) * 64 + (z - 0x80), by omega, ⟨by omega, by omega⟩, ?_⟩
      rw [encode_3 (by omega) (by omega) (by omega)]; exact l3 (by omega) (by omega) (by omega)
    · refine ⟨(x - 0xF0) * 262144 + (y - 0x80) * 4096 + (z - 0x80) * 64 + (w - 0x80), by omega, ⟨by omega, by omega⟩, ?_⟩
      rw [encode_4 (by omega) (by omega)]; exact l4 (by omega) (by omega) (by omega) (by omega)
    · refine ⟨(x - 0xF0) * 262144 + (y - 0x80) * 4096 + (z - 0x80) * 64 + (w - 0x80), by omega, ⟨by omega, by omega⟩, ?_⟩
      rw [encode_4 (by omega) (by omega)]; exact l4 (by omega) (by omega) (by omega) (by omega)
    · refine ⟨(x - 0xF0) * 262144 + (y - 0x80) * 4096 + (z - 0x80) * 64 + (w - 0x80), by omega, ⟨by omega, by omega⟩, ?_⟩
      rw [encode_4 (by omega) (by omega)]; exact l4 (by omega) (by omega) (by omega) (by omega)
  · rintro ⟨r, h1, ⟨h2, h3⟩, rfl⟩
    by_cases c2 : r < 0x800
    · rw [encode_2 h1 c2]; unfold enc2
      exact Or.inl ⟨_, _, rfl, by omega, by omega, by omega, by omega⟩
    · by_cases c3 : r < 0x10000
      · rw [encode_3 (by omega) c3 (by omega)]; unfold enc3
        by_cases d1 : r / 4096 = 0
        · exact Or.inr (Or.inl ⟨_, _, _, rfl, by omega, by omega, by omega, by omega, by omega, by omega⟩)
        · by_cases d2 : r / 4096 ≤ 12
          · exact Or.inr (Or.inr (Or.inl ⟨_, _, _, rfl, by omega, by omega, by omega, by omega, by omega, by omega⟩))
          · by_cases d3 : r / 4096 = 13
            · exact Or.inr (Or.inr (Or.inr (Or.inl ⟨_, _, _, rfl, by omega, by omega, by omega, by omega, by omega, by omega⟩)))
            · exact Or.inr (Or.inr (Or.inr (Or.inr (Or.inl
                ⟨_, _, _, rfl, by omega, by omega, by omega, by omega, by omega, by omega⟩))))
      · rw [encode_4 (by omega) h2]; unfold enc4
        by_cases d1 : r / 262144 = 0
        · exact Or.inr (Or.inr (Or.inr (Or.inr (Or.inr (Or.inl
            ⟨_, _, _, _, rfl, by omega, by omega, by omega, by omega, by omega, by omega, by omega, by omega⟩)))))
        · by_cases d2 : r / 262144 ≤ 3
          · exact Or.inr (Or.inr (Or.inr (Or.inr (Or.inr (Or.inr (Or.inl
              ⟨_, _, _, _, rfl, by omega, by omega, by omega, by omega, by omega, by omega, by omega, by omega⟩))))))
          · exact Or.inr (Or.inr (Or.inr (Or.inr (Or.inr (Or.inr (Or.inr
              ⟨_, _, _, _, rfl, by omega, by omega, by omega, by omega, by omega, by omega, by omega, by omega⟩))))))

theorem covers_shape {non : List (Nat × Nat)} (h : coversAllNonASCII non = true) :
    ∃ lo hi, non = [(lo, hi)] ∧ lo ≤ 0x80 ∧ 0x10FFFF ≤ hi := by
  match non, h with
  | [(lo, hi)], h =>
    simp only [coversAllNonASCII, Bool.and_eq_true, decide_eq_true_eq] at h
    exact ⟨lo, hi, rfl, h.1, h.2⟩

theorem large_path (ranges : List (Nat × Nat)) (hwf : wfRanges ranges = true) (bs : List Nat) :
    accepts (compileUnicodeClassLarge ranges) bs = true ↔
      (∃ r, inR r ranges ∧ isScalar r ∧ bs = encode r) ∨
      (coversAllNonASCII (nonAsciiPart ranges) = true ∧ ∃ b, 0x80 ≤ b ∧ b ≤ 0xFF ∧ bs = [b]) := by
  unfold compileUnicodeClassLarge
  simp only []
  rw [accepts_append_iff, asciiPart_spec ranges hwf]
  have hascii : ∀ r, r < 0x80 → isScalar r ∧ encode r = [r] := by
    intro r hr; exact ⟨⟨by unfold maxRune; omega, by omega⟩, encode_1 hr⟩
  by_cases hc : coversAllNonASCII (nonAsciiPart ranges) = true
  · rw [if_pos hc, accepts_append_iff, branches_spec, accepts_single, matchesSeq1]
    obtain ⟨lo, hi, hnon, hl, hh⟩ := covers_shape hc
    have hin : ∀ r, 0x80 ≤ r → isScalar r → inR r ranges := by
      intro r h1 h2
      have : inR r (nonAsciiPart ranges) := by
        rw [hnon]; exact ⟨(lo, hi), List.mem_singleton.mpr rfl, by simp only; omega, by
          simp only; have := h2.1; unfold maxRune at this; omega⟩
      exact ((nonAsciiPart_spec ranges r).mp this).1
    constructor
    · rintro (⟨r, h1, h2, rfl⟩ | ⟨r, h1, h2, rfl⟩ | ⟨x, rfl, h1, h2⟩)
      · exact Or.inl ⟨r, h1, (hascii r h2).1, (hascii r h2).2.symm⟩
      · exact Or.inl ⟨r, hin r h1 h2, h2, rfl⟩
      · exact Or.inr ⟨hc, x, h1, h2, rfl⟩
    · rintro (⟨r, h1, h2, rfl⟩ | ⟨-, x, h1, h2, rfl⟩)
      · by_cases c : r < 0x80
        · exact Or.inl ⟨r, h1, c, (hascii r c).2⟩
        · exact Or.inr (Or.inl ⟨r, by omega, h2, rfl⟩)
      · exact Or.inr (Or.inr ⟨x, rfl, h1, h2⟩)
  · rw [if_neg hc, precise_spec]
    constructor
    · rintro (⟨r, h1, h2, rfl⟩ | ⟨r, h1, h2, rfl⟩)
      · exact Or.inl ⟨r, h1, (hascii r h2).1, (hascii r h2).2.symm⟩
      · exact Or.inl ⟨r, ((nonAsciiPart_spec ranges r).mp h1).1, h2, rfl⟩
    · rintro (⟨r, h1, h2, rfl⟩ | ⟨h, -⟩)
      · by_cases c : r < 0x80
        · exact Or.inl ⟨r, h1, c, (hascii r c).2⟩
        · exact Or.inr ⟨r, (nonAsciiPart_spec ranges r).mpr ⟨h1, by omega⟩, h2, rfl⟩
      · exact absurd h hc

/-- **What the class automaton accepts, exactly** (all three paths of `compileCharClass`): the encodings of the
scalar values of the class, plus — and this is the only deviation —
* any single byte `0x80–0xFF` when the class is compiled by `compileUnicodeClassLarge` and its non-ASCII part is the
  single range `0x80–0x10FFFF` (deliberate: `regexp` decodes an ill-formed byte as U+FFFD, which such a class contains).

Surrogate members contribute nothing on any path: `compileUTF8Range` cuts them out of the 3-byte ranges, the
literal-alternation path (at most 256 runes) skips them (`small_class_surrogate_fixed`). -/
theorem classSeqs_exact (ranges : List (Nat × Nat)) (hwf : wfRanges ranges = true) (bs : List Nat) :
    accepts (classSeqs ranges) bs = true ↔
      (∃ r, inR r ranges ∧ isScalar r ∧ bs = encode r) ∨
      (usesLarge ranges = true ∧ coversAllNonASCII (nonAsciiPart ranges) = true ∧ ∃ b, 0x80 ≤ b ∧ b ≤ 0xFF ∧ bs = [b]) := by
  unfold classSeqs compileCharClass usesLarge
  by_cases hnil : ranges = []
  · subst hnil
    simp [accepts_nil, inR, allASCII]
  · rw [if_neg hnil]
    by_cases ha : allASCII ranges = true
    · have ha' := ha
      unfold allASCII at ha'
      rw [if_pos ha', ascii_path ranges ha, ha]
      simp only [Bool.not_true, Bool.false_and, Bool.false_eq_true, false_and, or_false]
      constructor
      · rintro ⟨r, ⟨p, hp, h1, h2⟩, rfl⟩
        have hp7 := List.all_eq_true.mp ha' p hp
        simp only [Bool.and_eq_true, decide_eq_true_eq] at hp7
        exact ⟨r, ⟨p, hp, h1, h2⟩, ⟨by unfold maxRune; omega, by omega⟩, (encode_1 (by omega)).symm⟩
      · rintro ⟨r, ⟨p, hp, h1, h2⟩, -, rfl⟩
        have hp7 := List.all_eq_true.mp ha' p hp
        simp only [Bool.and_eq_true, decide_eq_true_eq] at hp7
        exact ⟨r, ⟨p, hp, h1, h2⟩, encode_1 (by omega)⟩
    · have ha' := ha
      unfold allASCII at ha'
      rw [if_neg ha']
      have haf : allASCII ranges = false := by simpa using ha
      rw [haf]
      unfold compileUnicodeClass
      rw [if_neg hnil]
      by_cases he : exceeds256 ranges 0 = true
      · rw [if_pos he, large_path ranges hwf, he]
        simp
      · rw [if_neg he, small_path]
        have hef : exceeds256 ranges 0 = false := by simpa using he
        rw [hef]
        simp only [Bool.not_false, Bool.and_false, Bool.false_eq_true, false_and, or_false]
        constructor
        · rintro ⟨r, ⟨p, hp, h1, h2⟩, hs, rfl⟩
          have hw := wf_mem hwf hp
          have hsc : isScalar r := ⟨by unfold maxRune; omega, hs⟩
          exact ⟨r, ⟨p, hp, h1, h2⟩, hsc, encodeRune_scalar r hsc⟩
        · rintro ⟨r, h1, h2, rfl⟩
          exact ⟨r, h1, h2.2, (encodeRune_scalar r h2).symm⟩


/-! ### corollaries, preconditions, witnesses -/

/-- decidable precondition under which the class automaton is exact: well-formed ranges and not the
"any non-ASCII" shortcut (surrogate members need no exclusion: they are skipped on every path) -/
def exactClass (ranges : List (Nat × Nat)) : Bool :=
  wfRanges ranges &&
  !(usesLarge ranges && coversAllNonASCII (nonAsciiPart ranges))

/-- **Class-level corollary**: for a class satisfying `exactClass`, the automaton accepts exactly the UTF-8 encodings
of the scalar values of the class. -/
theorem classSeqs_exact_of_exactClass (ranges : List (Nat × Nat)) (h : exactClass ranges = true) (bs : List Nat) :
    accepts (classSeqs ranges) bs = true ↔ ∃ r, isScalar r ∧ inR r ranges ∧ bs = encode r := by
  unfold exactClass at h
  simp only [Bool.and_eq_true, Bool.not_eq_true', Bool.and_eq_false_iff] at h
  obtain ⟨hwf, hcov⟩ := h
  rw [classSeqs_exact ranges hwf]
  constructor
  · rintro (⟨r, h1, h2, rfl⟩ | ⟨h1, h2, -⟩)
    · exact ⟨r, h2, h1, rfl⟩
    · rcases hcov with hcov | hcov
      · rw [h1] at hcov; exact absurd hcov (by decide)
      · rw [h2] at hcov; exact absurd hcov (by decide)
  · rintro ⟨r, h1, h2, rfl⟩
    exact Or.inl ⟨r, h2, h1, rfl⟩

/-- the range theorem in the form with the "no surrogates" hypothesis: then every member is a scalar value -/
theorem utf8RangeSeqs_exact (lo hi : Nat) (hhi : hi ≤ 0x10FFFF) (hns : hi < 0xD800 ∨ 0xDFFF < lo) (bs : List Nat) :
    accepts (utf8RangeSeqs lo hi) bs = true ↔ ∃ r, lo ≤ r ∧ r ≤ hi ∧ bs = encode r := by
  unfold utf8RangeSeqs
  rw [compileUTF8Range_exact]
  constructor
  · rintro ⟨r, h1, h2, -, rfl⟩; exact ⟨r, h1, h2, rfl⟩
  · rintro ⟨r, h1, h2, rfl⟩; exact ⟨r, h1, h2, ⟨by unfold maxRune; omega, by omega⟩, rfl⟩

/-- the general form: no hypothesis on `lo`, `hi` at all -/
theorem utf8RangeSeqs_exact_scalar (lo hi : Nat) (bs : List Nat) :
    accepts (utf8RangeSeqs lo hi) bs = true ↔ ∃ r, lo ≤ r ∧ r ≤ hi ∧ isScalar r ∧ bs = encode r :=
  compileUTF8Range_exact lo hi bs

/-- accepted strings are byte strings, and nothing but whole encodings is accepted (so in particular no overlong
form `C0/C1 ..`, `E0 80–9F ..`, `F0 80–8F ..`, no surrogate `ED A0–BF ..`, nothing above `F4 8F BF BF`) -/
theorem utf8RangeSeqs_sound (lo hi : Nat) (bs : List Nat) (h : accepts (utf8RangeSeqs lo hi) bs = true) :
    ∃ r, isScalar r ∧ bs = encode r ∧ decodeAt (ofList bs) 0 = (r, bs.length) := by
  obtain ⟨r, -, -, hs, rfl⟩ := (compileUTF8Range_exact lo hi bs).mp h
  have := decode_encode r hs []
  rw [List.append_nil] at this
  exact ⟨r, hs, rfl, this⟩

theorem not_encoding_of_decode {bs : List Nat} {w : Nat} {x : Nat} (hd : decodeAt (ofList bs) 0 = (x, w))
    (hw : w ≠ bs.length) : ¬ ∃ r, isScalar r ∧ bs = encode r := by
  rintro ⟨r, hs, rfl⟩
  have := decode_encode r hs []
  rw [List.append_nil, hd] at this
  exact hw (congrArg Prod.snd this)

/-- a class on the literal-alternation path whose members are all surrogates emits no sequence at all (the code:
`len(alts) == 0` → `compileNoMatch`, a Fail state) -/
theorem small_all_surrogate_nil (ranges : List (Nat × Nat)) (hsm : usesSmall ranges = true)
    (hs : ∀ p, p ∈ ranges → ∀ r, p.1 ≤ r → r ≤ p.2 → 0xD800 ≤ r ∧ r ≤ 0xDFFF) : classSeqs ranges = [] := by
  unfold usesSmall at hsm
  simp only [Bool.and_eq_true, Bool.not_eq_true'] at hsm
  obtain ⟨ha, he⟩ := hsm
  unfold classSeqs compileCharClass
  by_cases hnil : ranges = []
  · rw [if_pos hnil]
  · unfold allASCII at ha
    rw [if_neg hnil, if_neg (by rw [ha]; decide)]
    unfold compileUnicodeClass
    rw [if_neg hnil, if_neg (by rw [he]; decide)]
    rw [List.flatMap_eq_nil_iff]
    intro p hp
    unfold forRange
    rw [List.flatMap_eq_nil_iff]
    intro r hr
    rw [List.mem_range'_1] at hr
    rw [if_pos ((isSurrogate_iff r).mpr (hs p hp r hr.1 (by omega)))]

/-- **Small classes with surrogates (fixed, b9d1f3d)**: `[\x{D7FF}-\x{D800}]` has 2 runes and is compiled as an
alternation of literals; the surrogate member is skipped, so the ill-formed bytes `ED A0 80` (not the encoding of any
scalar value; `regexp` decodes them as three U+FFFD) are rejected while U+D7FF = `ED 9F BF` is still accepted; and a
class made of surrogates only, `[\x{D800}-\x{D8FF}]` (256 runes, small path), emits no sequence and accepts nothing. -/
theorem small_class_surrogate_fixed :
    wfRanges [(0xD7FF, 0xD800)] = true ∧ usesSmall [(0xD7FF, 0xD800)] = true ∧
    accepts (classSeqs [(0xD7FF, 0xD800)]) [0xED, 0xA0, 0x80] = false ∧
    accepts (classSeqs [(0xD7FF, 0xD800)]) [0xED, 0x9F, 0xBF] = true ∧
    (¬ ∃ r, isScalar r ∧ [0xED, 0xA0, 0x80] = encode r) ∧
    usesSmall [(0xD800, 0xD8FF)] = true ∧ classSeqs [(0xD800, 0xD8FF)] = [] ∧
    ∀ bs, accepts (classSeqs [(0xD800, 0xD8FF)]) bs = false := by
  have h : classSeqs [(0xD800, 0xD8FF)] = [] :=
    small_all_surrogate_nil _ (by decide) (by
      intro p hp r h1 h2
      cases List.mem_singleton.mp hp
      simp only at h1 h2
      omega)
  refine ⟨by decide, by decide, by decide, by decide, ?_, by decide, h, ?_⟩
  · exact not_encoding_of_decode (w := 1) (x := 0xFFFD) (by decide) (by decide)
  · intro bs
    rw [h, accepts_nil]

/-- in general: a well-formed class all of whose members are surrogates accepts nothing, whatever the path -/
theorem all_surrogate_class_empty (ranges : List (Nat × Nat)) (hwf : wfRanges ranges = true)
    (hs : ∀ r, inR r ranges → 0xD800 ≤ r ∧ r ≤ 0xDFFF) (bs : List Nat) : accepts (classSeqs ranges) bs = false := by
  cases hacc : accepts (classSeqs ranges) bs with
  | false => rfl
  | true =>
    exfalso
    rcases (classSeqs_exact ranges hwf bs).mp hacc with ⟨r, h1, h2, -⟩ | ⟨-, hc, -⟩
    · exact h2.2 (hs r h1)
    · obtain ⟨lo, hi, hnon, hl, hh⟩ := covers_shape hc
      have : inR 0x80 (nonAsciiPart ranges) := by
        rw [hnon]; exact ⟨(lo, hi), List.mem_singleton.mpr rfl, by simp only; omega, by simp only; omega⟩
      have := hs 0x80 ((nonAsciiPart_spec ranges 0x80).mp this).1
      omega

/-- the same class compiled by the large path skips the surrogates: `[\x{D000}-\x{EFFF}]` rejects `ED A0 80` -/
theorem large_class_surrogate_ok : accepts (classSeqs [(0xD000, 0xEFFF)]) [0xED, 0xA0, 0x80] = false := by
  have h := classSeqs_exact [(0xD000, 0xEFFF)] (by decide) [0xED, 0xA0, 0x80]
  cases hacc : accepts (classSeqs [(0xD000, 0xEFFF)]) [0xED, 0xA0, 0x80] with
  | false => rfl
  | true =>
    exfalso
    rcases h.mp hacc with ⟨r, -, hs, he⟩ | ⟨-, hc, -⟩
    · exact not_encoding_of_decode (w := 1) (x := 0xFFFD) (by decide) (by decide) ⟨r, hs, he⟩
    · exact absurd hc (by decide)

/-- **Deliberate deviation (`coversAllNonASCII`)**: `[^,]` accepts the lone byte `FF`, which is not an encoding -/
theorem covers_all_accepts_invalid_byte :
    cleanRanges [(0, 0x2B), (0x2D, 0x10FFFF)] = true ∧
    accepts (classSeqs [(0, 0x2B), (0x2D, 0x10FFFF)]) [0xFF] = true ∧
    ¬ ∃ r, isScalar r ∧ [0xFF] = encode r := by
  refine ⟨by decide, by decide, ?_⟩
  rintro ⟨r, -, he⟩
  unfold encode at he
  repeat' split at he
  all_goals simp at he
  all_goals omega

/-- a non-trivial class satisfying the precondition: `[^а-я]` = `[\x00-\x{42F}\x{450}-\x{10FFFF}]` (large path, two
non-ASCII ranges, spans the surrogates) -/
example : cleanRanges [(0, 0x42F), (0x450, 0x10FFFF)] = true ∧ exactClass [(0, 0x42F), (0x450, 0x10FFFF)] = true := by
  decide

/-- … so its automaton is exact: -/
example (bs : List Nat) :
    accepts (classSeqs [(0, 0x42F), (0x450, 0x10FFFF)]) bs = true ↔
      ∃ r, isScalar r ∧ inR r [(0, 0x42F), (0x450, 0x10FFFF)] ∧ bs = encode r :=
  classSeqs_exact_of_exactClass _ (by decide) bs

/-- Greek and Coptic letters with a small (≤ 256 runes) companion class: `[α-ω]` goes through the literal path -/
example : exactClass [(0x3B1, 0x3C9)] = true ∧ usesSmall [(0x3B1, 0x3C9)] = true := by decide
/-- a small class with surrogate members now satisfies the precondition as well -/
example : exactClass [(0xD7FF, 0xD800)] = true ∧ usesSmall [(0xD7FF, 0xD800)] = true := by decide
example : exactClass [(0x370, 0x3FF), (0x1F00, 0x1FFF)] = true ∧ usesLarge [(0x370, 0x3FF), (0x1F00, 0x1FFF)] = true := by
  decide

/-- tie with the boolean membership used by the existing per-instance checker -/
theorem inRanges_iff (r : Nat) (ranges : List (Nat × Nat)) : GoRef.inRanges r ranges = true ↔ inR r ranges := by
  induction ranges with
  | nil => simp [GoRef.inRanges, inR]
  | cons p t ih =>
    obtain ⟨lo, hi⟩ := p
    unfold GoRef.inRanges
    rw [Bool.or_eq_true, ih]
    unfold inR
    simp

end Cx.Utf8Range
