import Cx.Proofs.CapsClean
/-
  Cx.Proofs.CapsOrder — the ordered thread simulation with slots against the priority DFS with slots.
   * a generic level machine (threads of an abstract type `T`, `step`, `isM`): depth first by levels (`FG`) =
     breadth first by levels (`RG`)  — the argument of `Cx.Proofs.PikeOrder`, with the winning THREAD as the result;
   * instance: threads with slots plus one `seeder` pseudo-thread (it re-creates the start thread of the next
     position at the end of every generation: this is the unanchored loop of the Pike VM, whose `Visited` set is
     shared by the stepped threads and the seed);
   * `S1K`: the reference DFS (`btCapsFind`) from a configuration = `FG` on the closure of that configuration
     (same answer, same slots, same marks);
   * `seed_thm`: the shared-visited multi-start DFS (`btSharedFrom`) = `FG` on (closure of the seed ++ [seeder]);
   * `loopKU_eq_RG`: the clean unanchored loop = `RG` on the same queue.
-/
namespace Cx.Caps
open Cx Cx.Nfa
open Cx.Pike (Thread Vis clearVis anchored isMatchState closureFuel isBetter hasLeftmost matchesEmptyAt RuneOK succs
  sparseSuccs SparseDisjoint)

/-! ### generic level machine -/

section LM
variable {T : Type} (step : Nat → T → Vis → Vis × List T) (isM : T → Bool)

def stepAllG (p : Nat) : List T → Vis → Vis × List T
  | [], W => (W, [])
  | t :: Q, W => ((stepAllG p Q (step p t W).1).1, (step p t W).2 ++ (stepAllG p Q (step p t W).1).2)

theorem stepAllG_append (p : Nat) (A B : List T) (W : Vis) :
    stepAllG step p (A ++ B) W =
      ((stepAllG step p B (stepAllG step p A W).1).1,
       (stepAllG step p A W).2 ++ (stepAllG step p B (stepAllG step p A W).1).2) := by
  induction A generalizing W with
  | nil => simp [stepAllG]
  | cons a A ih =>
    simp only [List.cons_append, stepAllG]
    rw [ih]
    simp [List.append_assoc]

def beforeM (Q : List T) : List T := Q.takeWhile (fun t => !isM t)

def findM (Q : List T) : Option T := Q.find? isM

def hereM (p : Nat) (Q : List T) : Option (Nat × T) := (findM isM Q).map (fun t => (p, t))

abbrev LR (T : Type) := Option (Nat × T) × List Vis

/-- breadth first: `Ms` holds the visited sets of the levels `p+1, p+2, …` -/
def RG : List Vis → Nat → List T → LR T
  | [], p, Q => (hereM isM p Q, [])
  | W :: Ms, p, Q =>
    ((RG Ms (p+1) (stepAllG step p (beforeM isM Q) W).2).1.or (hereM isM p Q),
     (stepAllG step p (beforeM isM Q) W).1 :: (RG Ms (p+1) (stepAllG step p (beforeM isM Q) W).2).2)

def tryAllG (d : T → List Vis → LR T) : List T → List Vis → LR T
  | [], Ms => (none, Ms)
  | t :: Q, Ms =>
    match d t Ms with
    | (some e, Ms') => (some e, Ms')
    | (none, Ms') => tryAllG d Q Ms'

def diveG (rec : List Vis → List T → LR T) (p : Nat) (t : T) (Ms : List Vis) : LR T :=
  if isM t then (some (p, t), Ms) else
  match Ms with
  | [] => (none, [])
  | W :: Ms' => ((rec Ms' (step p t W).2).1, (step p t W).1 :: (rec Ms' (step p t W).2).2)

/-- depth first, level by level -/
def FG : Nat → Nat → List Vis → List T → LR T
  | 0, _, Ms, _ => (none, Ms)
  | lv+1, p, Ms, Q => tryAllG (diveG step isM (FG lv (p+1)) p) Q Ms

theorem hereM_cons_of_not {t : T} (hm : isM t = false) (p : Nat) (Q : List T) :
    hereM isM p (t :: Q) = hereM isM p Q := by
  simp [hereM, findM, List.find?, hm]

theorem hereM_cons_of_match {t : T} (hm : isM t = true) (p : Nat) (Q : List T) :
    hereM isM p (t :: Q) = some (p, t) := by
  simp [hereM, findM, List.find?, hm]

theorem beforeM_cons_of_not {t : T} (hm : isM t = false) (Q : List T) :
    beforeM isM (t :: Q) = t :: beforeM isM Q := by
  simp [beforeM, List.takeWhile, hm]

theorem beforeM_cons_of_match {t : T} (hm : isM t = true) (Q : List T) : beforeM isM (t :: Q) = [] := by
  simp [beforeM, List.takeWhile, hm]

theorem hereM_append (p : Nat) (A B : List T) : hereM isM p (A ++ B) = (hereM isM p A).or (hereM isM p B) := by
  induction A with
  | nil => simp [hereM, findM]
  | cons a A ih =>
    cases hm : isM a with
    | true => simp [hereM_cons_of_match isM hm]
    | false => simp only [List.cons_append, hereM_cons_of_not isM hm]; exact ih

theorem beforeM_append_of_some {A : List T} {p : Nat} (hA : (hereM isM p A).isSome = true) (B : List T) :
    beforeM isM (A ++ B) = beforeM isM A := by
  induction A with
  | nil => simp [hereM, findM] at hA
  | cons a A ih =>
    cases hm : isM a with
    | true => simp [List.cons_append, beforeM_cons_of_match isM hm]
    | false =>
      rw [hereM_cons_of_not isM hm] at hA
      simp only [List.cons_append, beforeM_cons_of_not isM hm, ih hA]

theorem beforeM_append_of_none {A : List T} {p : Nat} (hA : hereM isM p A = none) (B : List T) :
    beforeM isM (A ++ B) = A ++ beforeM isM B := by
  induction A with
  | nil => rfl
  | cons a A ih =>
    cases hm : isM a with
    | true => rw [hereM_cons_of_match isM hm] at hA; cases hA
    | false =>
      rw [hereM_cons_of_not isM hm] at hA
      simp only [List.cons_append, beforeM_cons_of_not isM hm, ih hA]

theorem beforeM_of_none {A : List T} {p : Nat} (hA : hereM isM p A = none) : beforeM isM A = A := by
  have := beforeM_append_of_none isM hA []
  simpa [beforeM] using this

theorem RG_nil : ∀ (Ms : List Vis) (p : Nat), RG step isM Ms p [] = (none, Ms) := by
  intro Ms
  induction Ms with
  | nil => intro p; simp [RG, hereM, findM]
  | cons W Ms ih => intro p; simp [RG, beforeM, stepAllG, ih, hereM, findM]

theorem RG_length : ∀ (Ms : List Vis) (p : Nat) (Q : List T), (RG step isM Ms p Q).2.length = Ms.length := by
  intro Ms
  induction Ms with
  | nil => intro p Q; simp [RG]
  | cons W Ms ih => intro p Q; simp [RG, ih]

/-- the generation-wise search over `A ++ B`: `A`'s result if it has one, otherwise `B`'s over the marks `A` left -/
theorem RG_append : ∀ (Ms : List Vis) (p : Nat) (A B : List T),
    (RG step isM Ms p (A ++ B)).1 = (RG step isM Ms p A).1.or (RG step isM (RG step isM Ms p A).2 p B).1 ∧
    ((RG step isM Ms p A).1 = none → (RG step isM Ms p (A ++ B)).2 = (RG step isM (RG step isM Ms p A).2 p B).2) := by
  intro Ms
  induction Ms with
  | nil =>
    intro p A B
    simp only [RG, hereM_append]
    exact ⟨trivial, fun _ => trivial⟩
  | cons W Ms ih =>
    intro p A B
    cases hA : hereM isM p A with
    | some m =>
      have hne : (RG step isM (W :: Ms) p A).1 ≠ none := by
        simp only [RG, hA]
        cases (RG step isM Ms (p + 1) (stepAllG step p (beforeM isM A) W).2).1 <;> simp
      refine ⟨?_, fun hn => absurd hn hne⟩
      have h1 : (RG step isM (W :: Ms) p (A ++ B)).1 = (RG step isM (W :: Ms) p A).1 := by
        simp only [RG, beforeM_append_of_some isM (p := p) (by rw [hA]; rfl), hereM_append, hA, Option.some_or]
      rw [h1]
      cases hr : (RG step isM (W :: Ms) p A).1 with
      | none => exact absurd hr hne
      | some e => simp
    | none =>
      simp only [RG, beforeM_append_of_none isM hA, hereM_append, hA, Option.none_or, Option.or_none]
      rw [stepAllG_append]
      simp only []
      obtain ⟨i1, i2⟩ := ih (p+1) (stepAllG step p A W).2
        (stepAllG step p (beforeM isM B) (stepAllG step p A W).1).2
      rw [beforeM_of_none isM hA]
      refine ⟨?_, ?_⟩
      · rw [i1, Option.or_assoc]
      · intro hn
        rw [i2 hn]

theorem tryAllG_length {d : T → List Vis → LR T} (hd : ∀ t Ms, (d t Ms).2.length = Ms.length) :
    ∀ (Q : List T) (Ms : List Vis), (tryAllG d Q Ms).2.length = Ms.length := by
  intro Q
  induction Q with
  | nil => intro Ms; rfl
  | cons t Q ih =>
    intro Ms
    simp only [tryAllG]
    have := hd t Ms
    cases hdt : d t Ms with
    | mk r M =>
      rw [hdt] at this
      cases r with
      | some e => exact this
      | none => simp only []; rw [ih M]; exact this

theorem FG_length : ∀ (lv p : Nat) (Ms : List Vis) (Q : List T), (FG step isM lv p Ms Q).2.length = Ms.length := by
  intro lv
  induction lv with
  | zero => intro p Ms Q; rfl
  | succ lv ih =>
    intro p Ms Q
    simp only [FG]
    apply tryAllG_length
    intro t Ms
    unfold diveG
    split
    · rfl
    · cases Ms with
      | nil => rfl
      | cons W Ms' => simp [ih]

theorem tryAllG_append (d : T → List Vis → LR T) (A B : List T) : ∀ (Ms : List Vis),
    tryAllG d (A ++ B) Ms =
      match tryAllG d A Ms with
      | (some e, M) => (some e, M)
      | (none, M) => tryAllG d B M := by
  induction A with
  | nil => intro Ms; rfl
  | cons a A ih =>
    intro Ms
    simp only [List.cons_append, tryAllG]
    cases hd : d a Ms with
    | mk r M =>
      cases r with
      | some e => rfl
      | none => exact ih M

theorem FG_append (lv p : Nat) (Ms : List Vis) (A B : List T) :
    FG step isM (lv+1) p Ms (A ++ B) =
      match FG step isM (lv+1) p Ms A with
      | (some e, M) => (some e, M)
      | (none, M) => FG step isM (lv+1) p M B := by
  simp only [FG]
  exact tryAllG_append ..

/-- depth first = breadth first (ordered threads, cut at the first match state) -/
theorem FG_eq_RG : ∀ (n : Nat) (Ms : List Vis), Ms.length = n → ∀ (Q : List T) (p : Nat),
    (FG step isM (n+1) p Ms Q).1 = (RG step isM Ms p Q).1 ∧
    ((FG step isM (n+1) p Ms Q).1 = none → (FG step isM (n+1) p Ms Q).2 = (RG step isM Ms p Q).2) := by
  intro n
  induction n with
  | zero =>
    intro Ms hlen Q p
    have : Ms = [] := List.eq_nil_of_length_eq_zero hlen
    subst this
    induction Q with
    | nil => simp [FG, tryAllG, RG, hereM, findM]
    | cons t Q ihq =>
      cases hm : isM t with
      | true => simp [FG, tryAllG, diveG, hm, RG, hereM_cons_of_match isM hm]
      | false =>
        have h1 : FG step isM 1 p [] (t :: Q) = FG step isM 1 p [] Q := by
          simp [FG, tryAllG, diveG, hm]
        rw [h1]
        simp only [RG, hereM_cons_of_not isM hm] at ihq ⊢
        exact ihq
  | succ n ih =>
    intro Ms hlen Q
    induction Q generalizing Ms with
    | nil =>
      intro p
      simp [FG, tryAllG, RG_nil]
    | cons t Q ihq =>
      intro p
      cases Ms with
      | nil => simp at hlen
      | cons W Ms' =>
        have hlen' : Ms'.length = n := by simpa using hlen
        cases hm : isM t with
        | true =>
          refine ⟨?_, ?_⟩
          · simp [FG, tryAllG, diveG, hm, RG, beforeM_cons_of_match isM hm, stepAllG, RG_nil,
              hereM_cons_of_match isM hm]
          · simp [FG, tryAllG, diveG, hm]
        | false =>
          obtain ⟨o1, o2⟩ := ih Ms' hlen' (step p t W).2 (p+1)
          have hsplit : stepAllG step p (t :: beforeM isM Q) W =
              ((stepAllG step p (beforeM isM Q) (step p t W).1).1,
               (step p t W).2 ++ (stepAllG step p (beforeM isM Q) (step p t W).1).2) := rfl
          obtain ⟨a1, a2⟩ := RG_append step isM Ms' (p+1) (step p t W).2
            (stepAllG step p (beforeM isM Q) (step p t W).1).2
          have hR1 : (RG step isM (W :: Ms') p (t :: Q)).1 =
              ((RG step isM Ms' (p+1) (step p t W).2).1.or
                (RG step isM (RG step isM Ms' (p+1) (step p t W).2).2 (p+1)
                  (stepAllG step p (beforeM isM Q) (step p t W).1).2).1).or
              (hereM isM p Q) := by
            simp only [RG, beforeM_cons_of_not isM hm, hereM_cons_of_not isM hm]
            rw [hsplit]
            simp only []
            rw [a1]
          cases hr : (FG step isM (n+1) (p+1) Ms' (step p t W).2).1 with
          | some e =>
            have hF : (FG step isM (n+2) p (W :: Ms') (t :: Q)).1 = some e := by
              simp only [FG, tryAllG, diveG, hm, Bool.false_eq_true, ↓reduceIte]
              simp only [FG] at hr
              rw [hr]
            rw [hF, hR1, ← o1, hr]
            simp
          | none =>
            have hMs : (FG step isM (n+1) (p+1) Ms' (step p t W).2).2 =
                (RG step isM Ms' (p+1) (step p t W).2).2 := o2 hr
            have hRn : (RG step isM Ms' (p+1) (step p t W).2).1 = none := by rw [← o1, hr]
            have hF : FG step isM (n+2) p (W :: Ms') (t :: Q) =
                FG step isM (n+2) p ((step p t W).1 :: (RG step isM Ms' (p+1) (step p t W).2).2) Q := by
              simp only [FG, tryAllG, diveG, hm, Bool.false_eq_true, ↓reduceIte]
              simp only [FG] at hr hMs
              rw [hr, hMs]
            rw [hF]
            obtain ⟨q1, q2⟩ := ihq ((step p t W).1 :: (RG step isM Ms' (p+1) (step p t W).2).2)
              (by simp [RG_length, hlen']) p
            refine ⟨?_, ?_⟩
            · rw [q1, hR1, hRn]
              simp [RG]
            · intro hn
              rw [q2 hn]
              simp only [RG, beforeM_cons_of_not isM hm]
              rw [hsplit]
              simp only []
              rw [a2 hRn]

end LM

/-! ### the instance: threads with slots and the seeder -/

inductive QT where
  | thr (t : CT)
  | seeder
  deriving Inhabited

def isMQ (N : NFA) : QT → Bool
  | .thr t => isMatchState N t.state
  | .seeder => false

def seedCT (N : NFA) (n p : Nat) : CT := ⟨N.startAnchored, p, unset n⟩

def stepQ (N : NFA) (h : Bytes) (n : Nat) (p : Nat) : QT → Vis → Vis × List QT
  | .thr t, W => ((stepThreadK N h p t (W, [])).1, (stepThreadK N h p t (W, [])).2.map QT.thr)
  | .seeder, W => ((addThreadK N h (p+1) (seedCT N n (p+1)) (W, [])).1,
      (addThreadK N h (p+1) (seedCT N n (p+1)) (W, [])).2.map QT.thr ++ [.seeder])

/-! ### clean model: queues are only appended to; sizes -/

theorem addThreadK_out (N : NFA) (h : Bytes) (pos : Nat) (t : CT) (W : Vis) (o1 o2 : List CT) :
    addThreadK N h pos t (W, o1 ++ o2) =
      ((addThreadK N h pos t (W, o2)).1, o1 ++ (addThreadK N h pos t (W, o2)).2) := by
  unfold addThreadK closureK
  exact closureG_append ..

theorem addAllK_out (N : NFA) (h : Bytes) (pos : Nat) (L : List CT) : ∀ (W : Vis) (o1 o2 : List CT),
    addAllK N h pos L (W, o1 ++ o2) = ((addAllK N h pos L (W, o2)).1, o1 ++ (addAllK N h pos L (W, o2)).2) := by
  induction L with
  | nil => intro W o1 o2; rfl
  | cons a L ih =>
    intro W o1 o2
    simp only [addAllK_cons]
    rw [addThreadK_out, ih]

theorem stepThreadK_out (N : NFA) (h : Bytes) (pos : Nat) (t : CT) (W : Vis) (o1 o2 : List CT) :
    stepThreadK N h pos t (W, o1 ++ o2) =
      ((stepThreadK N h pos t (W, o2)).1, o1 ++ (stepThreadK N h pos t (W, o2)).2) := addAllK_out ..

theorem addAllK_size (N : NFA) (h : Bytes) (pos : Nat) (L : List CT) : ∀ (vq : Vis × List CT),
    (addAllK N h pos L vq).1.size = vq.1.size := by
  induction L with
  | nil => intro vq; rfl
  | cons a L ih => intro vq; rw [addAllK_cons, ih, addThreadK_size]

theorem stepThreadK_size (N : NFA) (h : Bytes) (pos : Nat) (t : CT) (vq : Vis × List CT) :
    (stepThreadK N h pos t vq).1.size = vq.1.size := addAllK_size ..

/-- the closures of a list of frames, one call after the other = one closure with the list as the stack -/
theorem addAllK_eq_closure (N : NFA) (h : Bytes) (pos : Nat) : ∀ (L : List CT) (W : Vis) (out : List CT) (fc : Nat),
    2 * W.count false + L.length ≤ fc → W.count false ≤ N.states.size →
    addAllK N h pos L (W, out) = closureK N h pos fc L W out := by
  intro L
  induction L with
  | nil => intro W out fc _ _; simp [addAllK, closureK_nil]
  | cons x xs ih =>
    intro W out fc hfc hn
    rw [addAllK_cons]
    have h1 : addThreadK N h pos x (W, out) = closureK N h pos fc [x] W out := by
      unfold addThreadK closureK
      apply closureG_fuel_irrel _ _ (expandK_len N h pos)
      · simp only [closureFuel, List.length_cons, List.length_nil]; omega
      · simp only [List.length_cons, List.length_nil] at hfc ⊢; omega
    rw [h1]
    have hc : (closureK N h pos fc [x] W out).1.count false ≤ W.count false := closureG_count_le ..
    have := ih (closureK N h pos fc [x] W out).1 (closureK N h pos fc [x] W out).2 fc
      (by simp only [List.length_cons] at hfc; omega) (by omega)
    rw [this]
    have hs := closureG_stack_append CT.state (expandK N h pos) (expandK_len N h pos) fc [x] xs W out
      (by simp only [List.length_append, List.length_cons, List.length_nil] at hfc ⊢; omega)
    exact hs.symm

/-! ### the reference's successor list in the vocabulary of the closure -/

theorem expandK_terminal_nil {N : NFA} {h : Bytes} {pos : Nat} {fr : CT} (he : (expandK N h pos fr).2 = true) :
    (expandK N h pos fr).1 = [] := by
  unfold expandK at he ⊢
  cases hk : N.get fr.state <;> simp only [hk] at he ⊢ <;> simp at he

theorem expandK_start {N : NFA} {h : Bytes} {pos : Nat} {fr x : CT} (hx : x ∈ (expandK N h pos fr).1) :
    x.start = fr.start := by
  unfold expandK at hx
  cases hk : N.get fr.state <;> simp only [hk] at hx
  all_goals try (simp at hx; done)
  · simp at hx; rcases hx with rfl | rfl <;> rfl
  · simp at hx; subst hx; rfl
  · simp at hx; subst hx; rfl
  · split at hx
    · simp at hx; subst hx; rfl
    · simp at hx

theorem nexts_eps (c : BTCtx) (p q s : Nat) (sl : Slots) (ht : (expandK c.N c.h p ⟨q, s, sl⟩).2 = false) :
    nexts c p q sl = (expandK c.N c.h p ⟨q, s, sl⟩).1.map (fun ch => (p, ch.state, ch.slots)) := by
  unfold expandK at ht ⊢
  unfold nexts
  cases hk : c.N.get q <;> simp only [hk] at ht ⊢ <;> first | (simp at ht; done) | rfl | skip
  split <;> rfl

theorem nexts_term {c : BTCtx} (hd : SparseDisjoint c.N) (hR : RuneOK c.N c.h) (p q s : Nat) (sl : Slots)
    (ht : (expandK c.N c.h p ⟨q, s, sl⟩).2 = true) (hm : isMatchState c.N q = false) :
    nexts c p q sl = if p < c.h.size then (succs c.N c.h p q).map (fun x => (p+1, x, sl)) else [] := by
  unfold expandK at ht
  unfold nexts succs
  cases hk : c.N.get q <;> simp only [hk] at ht ⊢ <;> first | (simp at ht; done) | skip
  · simp [isMatchState, hk] at hm
  · -- byteRange
    rename_i lo hi nx
    by_cases hp : p < c.h.size
    · rw [if_pos hp]
      by_cases hc : lo ≤ c.h.at p ∧ c.h.at p ≤ hi
      · rw [if_pos ⟨hp, hc⟩, if_pos hc]; rfl
      · rw [if_neg (fun hh => hc hh.2), if_neg hc]; rfl
    · rw [if_neg hp, if_neg (fun hh => hp hh.1)]
  · -- sparse
    rename_i ts
    by_cases hp : p < c.h.size
    · rw [if_neg (by omega), if_pos hp, Pike.sparseSuccs_of_disjoint (hd q ts hk)]
      cases hf : firstTrans (c.h.at p) ts with
      | none => rfl
      | some nx => rfl
    · rw [if_pos (by omega), if_neg hp]
  · -- runeAny
    rename_i nx
    rcases hR with hn | ha
    · exact absurd hk (hn _ _).1
    · by_cases hp : p < c.h.size
      · have hw := Pike.ascii_runeWidth ha hp
        rw [if_pos ⟨hp, by omega⟩, if_pos hp, hw]; rfl
      · rw [if_neg (fun hh => hp hh.1), if_neg hp]
  · -- runeAnyNotNL
    rename_i nx
    rcases hR with hn | ha
    · exact absurd hk (hn _ _).2
    · by_cases hp : p < c.h.size
      · have hw := Pike.ascii_runeWidth ha hp
        rw [if_pos hp]
        by_cases h10 : c.h.at p = 10
        · rw [if_neg (fun hh => hh.2.1 h10)]
          simp [h10]
        · rw [if_pos ⟨hp, h10, by omega⟩, if_pos h10, hw]; rfl
      · rw [if_neg (fun hh => hp hh.1), if_neg hp]


/-! ### the reference DFS against the level-organised depth-first search -/

open Cx.Pike (Rel)

/-- same end; the winning thread carries the reference's slots (and the start `s`) -/
def ResAgree (s : Nat) (b : Option (Nat × Slots)) (f : Option (Nat × QT)) : Prop :=
  (b = none ∧ f = none) ∨ ∃ e sl M, b = some (e, sl) ∧ f = some (e, QT.thr M) ∧ M.start = s ∧ M.slots = sl

def AgreeK (c : BTCtx) (V : Array Bool) (p s : Nat) (b : BR) (W' : Vis) (f : LR QT) : Prop :=
  ResAgree s b.1 f.1 ∧
  (b.1 = none → Rel c b.2 p (W' :: f.2) ∧ b.2.count false ≤ V.count false ∧ Pike.Frame c V b.2 p)

abbrev FQ (N : NFA) (h : Bytes) (n : Nat) := FG (stepQ N h n) (isMQ N)

def S1K (c : BTCtx) (n fuel : Nat) : Prop :=
  ∀ (p q s : Nat) (sl : Slots) (V : Array Bool) (W : Vis) (Ms : List Vis) (fc : Nat),
    c.spanStart ≤ p → p + Ms.length = c.h.size → Rel c V p (W :: Ms) → V.count false < fuel →
    2 * W.count false + 1 ≤ fc →
    AgreeK c V p s (btCapsFind c fuel p q sl V) (closureK c.N c.h p fc [⟨q, s, sl⟩] W []).1
      (FQ c.N c.h n (Ms.length + 1) p Ms ((closureK c.N c.h p fc [⟨q, s, sl⟩] W []).2.map QT.thr))

def S2K (c : BTCtx) (n fuel : Nat) : Prop :=
  ∀ (p : Nat) (L : List CT) (s : Nat) (V : Array Bool) (W : Vis) (Ms : List Vis) (fc : Nat),
    (∀ x ∈ L, x.start = s) →
    c.spanStart ≤ p → p + Ms.length = c.h.size → Rel c V p (W :: Ms) → V.count false < fuel →
    2 * W.count false + L.length ≤ fc →
    AgreeK c V p s (tryCfg (btCapsFind c fuel) (L.map fun ch => (p, ch.state, ch.slots)) V)
      (closureK c.N c.h p fc L W []).1
      (FQ c.N c.h n (Ms.length + 1) p Ms ((closureK c.N c.h p fc L W []).2.map QT.thr))

theorem S2K_of_S1K {c : BTCtx} {n fuel : Nat} (h1 : S1K c n fuel) : S2K c n fuel := by
  intro p L
  induction L with
  | nil =>
    intro s V W Ms fc _ _ _ hrel _ _
    simp only [List.map_nil, closureK_nil, tryCfg, FQ, FG, tryAllG]
    exact ⟨Or.inl ⟨rfl, rfl⟩, fun _ => ⟨hrel, Nat.le_refl _, Pike.Frame.refl c V p⟩⟩
  | cons x xs ih =>
    intro s V W Ms fc hst hsp hlen hrel hcnt hfc
    simp only [List.length_cons] at hfc
    have hsplit := closureG_stack_append CT.state (expandK c.N c.h p) (expandK_len c.N c.h p) fc [x] xs W []
      (by simp only [List.length_append, List.length_cons, List.length_nil]; omega)
    have hout := closureG_append CT.state (expandK c.N c.h p) fc xs
      (closureK c.N c.h p fc [x] W []).1 (closureK c.N c.h p fc [x] W []).2 []
    simp only [List.append_nil] at hout
    have hcl : closureK c.N c.h p fc (x :: xs) W [] =
        ((closureK c.N c.h p fc xs (closureK c.N c.h p fc [x] W []).1 []).1,
         (closureK c.N c.h p fc [x] W []).2 ++
          (closureK c.N c.h p fc xs (closureK c.N c.h p fc [x] W []).1 []).2) := by
      unfold closureK at hout hsplit ⊢
      rw [← hout, ← hsplit]; rfl
    rw [hcl]
    simp only [List.map_append]
    unfold FQ
    rw [FG_append]
    obtain ⟨a1, a2⟩ := h1 p x.state x.start x.slots V W Ms fc hsp hlen hrel hcnt (by omega)
    unfold FQ at a1 a2
    rw [show (⟨x.state, x.start, x.slots⟩ : CT) = x from rfl] at a1 a2
    have hxs : x.start = s := hst x List.mem_cons_self
    simp only [List.map_cons, tryCfg]
    cases hb : btCapsFind c fuel p x.state x.slots V with
    | mk r1 V1 =>
      rw [hb] at a1 a2
      simp only at a1 a2
      cases hf' : FG (stepQ c.N c.h n) (isMQ c.N) (Ms.length + 1) p Ms
          ((closureK c.N c.h p fc [x] W []).2.map QT.thr) with
      | mk rf Mf =>
        rw [hf'] at a1 a2
        simp only at a1 a2
        rcases a1 with ⟨rfl, rfl⟩ | ⟨e, sl, M, rfl, rfl, hM1, hM2⟩
        · -- this frame finds nothing: go on with the rest over the marks it left
          simp only []
          obtain ⟨b1, b2, b3⟩ := a2 rfl
          have hMf : Mf.length = Ms.length := by
            have := FG_length (stepQ c.N c.h n) (isMQ c.N) (Ms.length + 1) p Ms
              ((closureK c.N c.h p fc [x] W []).2.map QT.thr)
            rw [hf'] at this; exact this
          have hcc : (closureK c.N c.h p fc [x] W []).1.count false ≤ W.count false := closureG_count_le ..
          obtain ⟨d1, d2⟩ := ih s V1 (closureK c.N c.h p fc [x] W []).1 Mf fc
            (fun y hy => hst y (List.mem_cons_of_mem _ hy)) hsp (by omega) b1 (by omega) (by omega)
          rw [hMf] at d1 d2
          refine ⟨d1, ?_⟩
          intro hn
          obtain ⟨e1, e2, e3⟩ := d2 hn
          exact ⟨e1, by omega, b3.trans e3⟩
        · simp only []
          exact ⟨Or.inr ⟨e, sl, M, rfl, rfl, hM1.trans hxs, hM2⟩, fun hn => nomatch hn⟩


theorem expandK_match {N : NFA} {h : Bytes} {pos : Nat} {fr : CT} (hm : isMatchState N fr.state = true) :
    (expandK N h pos fr).2 = true := by
  have hk := (Pike.isMatchState_iff N fr.state).mp hm
  simp [expandK, hk]

theorem S1K_succ {c : BTCtx} (hd : SparseDisjoint c.N) (hR : RuneOK c.N c.h) {n fuel : Nat} (h2 : S2K c n fuel) :
    S1K c n (fuel+1) := by
  intro p q s sl V W Ms fc hsp hlen hrel hcnt hfc
  obtain ⟨fc, rfl⟩ : ∃ k, fc = k + 1 := ⟨fc - 1, by omega⟩
  obtain ⟨hWsz, hWrel⟩ := hrel.head
  rw [btCapsFind_unfold, closureK_cons]
  simp only [List.append_nil, List.nil_append]
  have hstop : AgreeK c V p s (none, V) W (FQ c.N c.h n (Ms.length + 1) p Ms (([] : List CT).map QT.thr)) := by
    simp only [List.map_nil, FQ, FG, tryAllG]
    exact ⟨Or.inl ⟨rfl, rfl⟩, fun _ => ⟨hrel, Nat.le_refl _, Pike.Frame.refl c V p⟩⟩
  by_cases hq : q ≥ c.N.states.size
  · -- state id out of range: dropped on both sides
    rw [if_pos hq]
    have hWq : W.getD q true = true := by
      simp [Array.getD_eq_getD_getElem?, Array.getElem?_eq_none (by omega : W.size ≤ q)]
    simp only [hWq, ↓reduceIte, closureK_nil]
    exact hstop
  · rw [if_neg hq]
    have hq' : q < c.N.states.size := by omega
    by_cases hv : V.getD (c.idx q p) true = true
    · rw [if_pos hv]
      have hWq : W.getD q true = true := by rw [← hWrel q hq']; exact hv
      simp only [hWq, ↓reduceIte, closureK_nil]
      exact hstop
    · rw [if_neg hv]
      have hv' : V.getD (c.idx q p) true = false := by simpa using hv
      have hWq : W.getD q true = false := by rw [← hWrel q hq']; exact hv'
      have hWq' : ¬ (W.getD q true = true) := by simp [hWq]
      rw [if_neg hWq']
      have hrel0 := hrel.mark hq' hsp hv'
      have hcntV := count_set_lt hv'
      have hcntW := count_set_lt hWq
      have hframe0 := Pike.Frame.mark c V hq' hsp
      by_cases hm : isMatchState c.N q = true
      · -- match state
        rw [if_pos hm]
        have hterm : (expandK c.N c.h p ⟨q, s, sl⟩).2 = true := expandK_match hm
        rw [expandK_terminal_nil hterm, hterm]
        simp only [↓reduceIte, closureK_nil, List.map_cons, List.map_nil, FQ, FG, tryAllG, diveG, isMQ, hm]
        exact ⟨Or.inr ⟨p, sl, ⟨q, s, sl⟩, rfl, rfl, rfl, rfl⟩, fun hn => nomatch hn⟩
      · rw [if_neg hm]
        have hm' : isMatchState c.N q = false := by simpa using hm
        by_cases ht : (expandK c.N c.h p ⟨q, s, sl⟩).2 = true
        · -- consuming state
          rw [expandK_terminal_nil ht, ht, nexts_term hd hR p q s sl ht hm']
          simp only [↓reduceIte, closureK_nil, List.map_cons, List.map_nil]
          cases Ms with
          | nil =>
            have hpe : ¬ (p < c.h.size) := by simp at hlen; omega
            rw [if_neg hpe]
            simp only [tryCfg, FQ, FG, tryAllG, diveG, isMQ, hm', Bool.false_eq_true, ↓reduceIte]
            exact ⟨Or.inl ⟨rfl, rfl⟩, fun _ => ⟨hrel0,
              (by show (V.setIfInBounds (c.idx q p) true).count false ≤ V.count false; omega), hframe0⟩⟩
          | cons W1 Ms' =>
            have hpl : p < c.h.size := by simp at hlen; omega
            rw [if_pos hpl]
            have hW1 := (hrel.tail).head
            have hW1cnt : W1.count false ≤ c.N.states.size := count_le_size' hW1.1
            have hstep : stepThreadK c.N c.h p ⟨q, s, sl⟩ (W1, []) =
                closureK c.N c.h (p+1) (2 * W1.count false + (succs c.N c.h p q).length)
                  ((succs c.N c.h p q).map (fun x => (⟨x, s, sl⟩ : CT))) W1 [] := by
              unfold stepThreadK
              exact addAllK_eq_closure c.N c.h (p+1) _ W1 [] _ (by simp) hW1cnt
            obtain ⟨a1, a2⟩ := h2 (p+1) ((succs c.N c.h p q).map (fun x => (⟨x, s, sl⟩ : CT))) s
              (V.setIfInBounds (c.idx q p) true) W1 Ms'
              (2 * W1.count false + (succs c.N c.h p q).length)
              (by intro x hx; simp only [List.mem_map] at hx; obtain ⟨y, _, rfl⟩ := hx; rfl)
              (by omega) (by simp at hlen ⊢; omega) hrel0.tail (by omega) (by simp)
            rw [← hstep] at a1 a2
            simp only [List.map_map] at a1 a2
            have hcomp : ((fun ch : CT => (p + 1, ch.state, ch.slots)) ∘ fun x => (⟨x, s, sl⟩ : CT)) =
                fun x => (p + 1, x, sl) := rfl
            rw [hcomp] at a1 a2
            have hF : FQ c.N c.h n ((W1 :: Ms').length + 1) p (W1 :: Ms') [QT.thr ⟨q, s, sl⟩] =
                ((FQ c.N c.h n (Ms'.length + 1) (p+1) Ms'
                    ((stepThreadK c.N c.h p ⟨q, s, sl⟩ (W1, [])).2.map QT.thr)).1,
                 (stepThreadK c.N c.h p ⟨q, s, sl⟩ (W1, [])).1 ::
                  (FQ c.N c.h n (Ms'.length + 1) (p+1) Ms'
                    ((stepThreadK c.N c.h p ⟨q, s, sl⟩ (W1, [])).2.map QT.thr)).2) := by
              simp only [List.length_cons, FQ, FG, tryAllG, diveG, isMQ, hm', Bool.false_eq_true, ↓reduceIte, stepQ]
              cases (tryAllG (diveG (stepQ c.N c.h n) (isMQ c.N) (FG (stepQ c.N c.h n) (isMQ c.N) Ms'.length (p + 1 + 1)) (p + 1))
                ((stepThreadK c.N c.h p ⟨q, s, sl⟩ (W1, [])).2.map QT.thr) Ms').1 <;> rfl
            rw [hF]
            refine ⟨a1, ?_⟩
            intro hn
            obtain ⟨b1, b2, b3⟩ := a2 hn
            refine ⟨?_, by omega, hframe0.trans (b3.weaken (by omega))⟩
            apply Rel.cons
            · refine ⟨hrel0.head.1, ?_⟩
              intro q2 hq2
              rw [b3 q2 p hsp (by omega) hq2]
              exact hrel0.head.2 q2 hq2
            · exact b1
        · -- epsilon-like state: its successors are pushed
          have ht' : (expandK c.N c.h p ⟨q, s, sl⟩).2 = false := by simpa using ht
          rw [nexts_eps c p q s sl ht', ht']
          simp only [Bool.false_eq_true, ↓reduceIte]
          have hlen2 := expandK_len c.N c.h p ⟨q, s, sl⟩
          obtain ⟨a1, a2⟩ := h2 p (expandK c.N c.h p ⟨q, s, sl⟩).1 s (V.setIfInBounds (c.idx q p) true)
            (W.setIfInBounds q true) Ms fc (fun x hx => expandK_start hx) hsp hlen hrel0 (by omega) (by omega)
          refine ⟨a1, ?_⟩
          intro hn
          obtain ⟨b1, b2, b3⟩ := a2 hn
          exact ⟨b1, by omega, hframe0.trans b3⟩

theorem S1K_all {c : BTCtx} (hd : SparseDisjoint c.N) (hR : RuneOK c.N c.h) (n : Nat) : ∀ fuel, S1K c n fuel := by
  intro fuel
  induction fuel with
  | zero => intro p q s sl V W Ms fc _ _ _ hcnt; omega
  | succ fuel ih => exact S1K_succ hd hR (S2K_of_S1K ih)

end Cx.Caps
