import Cx.Proofs.CompositeDfaBuild
import Cx.Proofs.CompositeDfaClasses
/-
  Cx.Proofs.CompositeDfaRun — running the three tables of a CompositeSequenceDFA over a haystack:

  * `Tracks`: the table state reached after a word stands for the configuration set with the word-level meaning `Wr`;
  * `matchAt_spec`: `matchAt` returns the greatest end of a match that starts at `start` (or `-1`);
  * `pass1_spec`: the unanchored table finds the earliest end of a match that starts at or after `from`;
  * `pass2_spec`: the reverse table finds the least start (not below `from`) of a match that ends at a given position.
-/
namespace Cx.CompDfa
open Cx Cx.Fast Cx.Fast.Spec

/-- bit of the accepting configuration: the last part has met its minimum -/
def accBit (ps : List CharClassPart) : Nat := bitIdx ps (ps.length - 1) (mn ps (ps.length - 1))

/-- a table (`trans`, `acc`) over the byte classes `btc` is the subset automaton of the part list `ps` (anchored:
    `r = false`, unanchored: `r = true`), `states` listing the configuration set of every state id -/
structure TabStates (btc : Array Nat) (nc : Nat) (ps : List CharClassPart) (r : Bool) (trans : Array Nat) (acc : Array Bool)
    (states : List Nat) : Prop where
  ne : 0 < ps.length
  minPos : MinPos ps
  cm : ∀ b p, p ∈ ps → classMatchesPart btc (btc.getD b 0) p = p.mem b
  clt : ∀ b, btc.getD b 0 < nc
  nodup : states.Nodup
  zero : states[0]? = some 0
  rows : ∀ id S, states[id]? = some S → acc.getD id false = S.testBit (accBit ps) ∧
    ∀ cls, cls < nc →
      states[CompositeSequenceDFA.step nc trans id cls]? = some (delta (classMatchesPart btc cls) ps r S)

/-- the table state `id` is the one reached after reading `w` -/
def Tracks (ps : List CharClassPart) (r : Bool) (states : List Nat) (id : Nat) (w : List Nat) : Prop :=
  ∃ S, states[id]? = some S ∧ Sem ps S (Wr ps r w)

section
variable {btc : Array Nat} {nc : Nat} {ps : List CharClassPart} {r : Bool} {trans : Array Nat} {acc : Array Bool}
  {states : List Nat} (ts : TabStates btc nc ps r trans acc states)
include ts

theorem tracks_init : Tracks ps r states 0 [] := by
  refine ⟨0, ts.zero, ?_, ?_⟩
  · intro p c _
    rw [Nat.zero_testBit]
    constructor
    · intro hf; exact absurd hf Bool.false_ne_true
    · intro hw; exact absurd hw (Wr_nil ps r p c)
  · intro j hj
    rw [Nat.zero_testBit] at hj
    exact absurd hj Bool.false_ne_true

theorem id_zero_iff {id S : Nat} (hS : states[id]? = some S) : id = 0 ↔ S = 0 := by
  constructor
  · intro h0
    subst h0
    rw [ts.zero] at hS
    exact (Option.some.inj hS).symm
  · intro h0
    subst h0
    have h1 := idOf_of_nodup ts.nodup hS
    rw [idOf_of_nodup ts.nodup ts.zero] at h1
    exact (Option.some.inj h1).symm

theorem tracks_step {id : Nat} {w : List Nat} (b : Nat) (ht : Tracks ps r states id w)
    (hlive : r = true ∨ w = [] ∨ id ≠ 0) :
    Tracks ps r states (CompositeSequenceDFA.step nc trans id (btc.getD b 0)) (w ++ [b]) := by
  obtain ⟨S, hS, hsem⟩ := ht
  refine ⟨_, (ts.rows id S hS).2 _ (ts.clt b), ?_⟩
  apply delta_sem ps ts.minPos ts.ne _ b _ r S w hsem
  · rcases hlive with h1 | h2 | h3
    · exact Or.inl h1
    · exact Or.inr (Or.inl h2)
    · exact Or.inr (Or.inr (fun h0 => h3 ((id_zero_iff ts hS).mpr h0)))
  · intro p hp
    apply ts.cm
    rw [List.getD_eq_getElem?_getD, List.getElem?_eq_getElem hp]
    exact List.getElem_mem hp

theorem tracks_zero {id : Nat} {w : List Nat} (ht : Tracks ps r states id w) :
    id = 0 ↔ ∀ p c, ¬ Wr ps r w p c := by
  obtain ⟨S, hS, hsem⟩ := ht
  rw [id_zero_iff ts hS, sem_zero_iff hsem]
  constructor
  · intro hall p c hw
    obtain ⟨x, y, _, _, hc⟩ := hw
    exact hall p c (hc.valid ts.minPos) ⟨x, y, ‹_›, ‹_›, hc⟩
  · intro hall p c _; exact hall p c

theorem tracks_acc {id : Nat} {w : List Nat} (ht : Tracks ps r states id w) :
    acc.getD id false = true ↔ Wr ps r w (ps.length - 1) (mn ps (ps.length - 1)) := by
  obtain ⟨S, hS, hsem⟩ := ht
  rw [(ts.rows id S hS).1]
  have hne := ts.ne
  exact hsem.1 _ _ ⟨by omega, mn_pos ps ts.minPos _ (by omega), Nat.le_refl _⟩

end

theorem Wr_false_iff (ps : List CharClassPart) (w : List Nat) (p c : Nat) : Wr ps false w p c ↔ Cfg ps p c w := by
  constructor
  · rintro ⟨x, y, rfl, hx, hc⟩
    rcases hx with hx | hx
    · exact nomatch hx
    · subst hx; simpa using hc
  · intro hc; exact ⟨[], w, rfl, Or.inr rfl, hc⟩

/-! ## `matchAt` -/

/-- `last` is the greatest end `≤ pos` of a match starting at `s` (`-1`: there is none) -/
def LastOK (ps : List CharClassPart) (h : Bytes) (s pos : Nat) (last : Int) : Prop :=
  (last = -1 ∧ ∀ e, s < e → e ≤ pos → ¬ Lang ps (slice h s e)) ∨
  (∃ e : Nat, last = (e : Int) ∧ s < e ∧ e ≤ pos ∧ Lang ps (slice h s e) ∧
    ∀ e', s < e' → e' ≤ pos → Lang ps (slice h s e') → e' ≤ e)

theorem lastOK_extend (ps : List CharClassPart) (h : Bytes) (s pos pos' : Nat) (last : Int) (hpp : pos ≤ pos')
    (hno : ∀ e, pos < e → e ≤ pos' → ¬ Lang ps (slice h s e)) (hl : LastOK ps h s pos last) : LastOK ps h s pos' last := by
  rcases hl with ⟨h1, h2⟩ | ⟨e, h1, h2, h3, h4, h5⟩
  · left
    refine ⟨h1, fun e he1 he2 => ?_⟩
    by_cases he : e ≤ pos
    · exact h2 e he1 he
    · exact hno e (by omega) he2
  · right
    refine ⟨e, h1, h2, by omega, h4, fun e' he1 he2 hl' => ?_⟩
    by_cases he : e' ≤ pos
    · exact h5 e' he1 he hl'
    · exact absurd hl' (hno e' (by omega) he2)

section
variable {d : CompositeSequenceDFA} {ps : List CharClassPart} {states : List Nat}
  (ts : TabStates d.byteToClass d.numClasses ps false d.transitions d.accepting states)
include ts

theorem matchLoop_spec (h : Bytes) (s : Nat) : ∀ (k pos state : Nat) (last : Int), pos + k = h.size → s < pos →
    Tracks ps false states state (slice h s pos) → state ≠ 0 → LastOK ps h s pos last →
    LastOK ps h s h.size (d.matchLoop h k pos state last) := by
  intro k
  induction k with
  | zero =>
    intro pos state last hk _ _ _ hl
    rw [CompositeSequenceDFA.matchLoop]
    have : pos = h.size := by omega
    subst this; exact hl
  | succ k ih =>
    intro pos state last hk hsp ht hne hl
    rw [CompositeSequenceDFA.matchLoop]
    have ht' := tracks_step ts (h.at pos) ht (Or.inr (Or.inr hne))
    rw [← slice_snoc h s pos (by omega)] at ht'
    have hstep : CompositeSequenceDFA.step d.numClasses d.transitions state (d.classAt h pos) =
        CompositeSequenceDFA.step d.numClasses d.transitions state (d.byteToClass.getD (h.at pos) 0) := rfl
    rw [hstep]
    by_cases h0 : CompositeSequenceDFA.step d.numClasses d.transitions state (d.byteToClass.getD (h.at pos) 0) = 0
    · rw [if_pos h0]
      rw [h0] at ht'
      have hdead := (tracks_zero ts ht').mp rfl
      apply lastOK_extend ps h s pos h.size last (by omega) _ hl
      intro e he1 he2 hlang
      rw [lang_iff_cfg_last ps ts.minPos ts.ne] at hlang
      have hne' : slice h s (pos + 1) ≠ [] := by
        intro hnil
        have := congrArg List.length hnil
        rw [slice_length] at this; simp at this; omega
      have := cfg_dead_forever ps ts.minPos (slice h (pos + 1) e) (slice h s (pos + 1)) hne'
        (fun p c hc => hdead p c ((Wr_false_iff ps _ p c).mpr hc))
      rw [← slice_append h s (pos + 1) e (by omega) (by omega)] at this
      exact this _ _ hlang
    · rw [if_neg h0]
      apply ih (pos + 1) _ _ (by omega) (by omega) ht' h0
      have hacc := tracks_acc ts ht'
      rw [Wr_false_iff, ← lang_iff_cfg_last ps ts.minPos ts.ne] at hacc
      by_cases ha : d.accepting.getD (CompositeSequenceDFA.step d.numClasses d.transitions state
          (d.byteToClass.getD (h.at pos) 0)) false = true
      · rw [if_pos ha]
        right
        exact ⟨pos + 1, rfl, by omega, Nat.le_refl _, hacc.mp ha, fun e' _ he2 _ => he2⟩
      · rw [if_neg ha]
        apply lastOK_extend ps h s pos (pos + 1) last (by omega) _ hl
        intro e he1 he2 hlang
        have : e = pos + 1 := by omega
        subst this
        exact ha (hacc.mpr hlang)

/-- **`matchAt`**: the greatest match end from `s`, provided `h[s]` belongs to the first part -/
theorem matchAt_spec (h : Bytes) (s : Nat) (hs : s < h.size) (hfirst : (ps.getD 0 default).mem (h.at s) = true) :
    LastOK ps h s h.size (d.matchAt h s) := by
  unfold CompositeSequenceDFA.matchAt
  simp only []
  have ht0 := tracks_init ts
  have ht1 := tracks_step ts (h.at s) ht0 (Or.inr (Or.inl rfl))
  have hsl : slice h s (s + 1) = [] ++ [h.at s] := by
    rw [slice_snoc h s s (Nat.le_refl _), slice_self]
  rw [← hsl] at ht1
  have hstep : CompositeSequenceDFA.step d.numClasses d.transitions 0 (d.classAt h s) =
      CompositeSequenceDFA.step d.numClasses d.transitions 0 (d.byteToClass.getD (h.at s) 0) := rfl
  rw [hstep]
  have hne1 : CompositeSequenceDFA.step d.numClasses d.transitions 0 (d.byteToClass.getD (h.at s) 0) ≠ 0 := by
    intro h0
    rw [h0] at ht1
    have hdead := (tracks_zero ts ht1).mp rfl
    apply hdead 0 1
    rw [Wr_false_iff, hsl]
    have hmn := mn_pos ps ts.minPos 0 ts.ne
    refine ⟨ts.ne, [], [h.at s], rfl, (lang_take_zero ps []).mpr rfl, by simp, ?_, ?_⟩
    · intro x hx
      have : x = h.at s := by simpa using hx
      subst this; exact hfirst
    · simp only [List.length_singleton]; omega
  apply matchLoop_spec ts h s _ (s + 1) _ _ (by omega) (by omega) ht1 hne1
  have hacc := tracks_acc ts ht1
  rw [Wr_false_iff, ← lang_iff_cfg_last ps ts.minPos ts.ne] at hacc
  by_cases ha : d.accepting.getD (CompositeSequenceDFA.step d.numClasses d.transitions 0
      (d.byteToClass.getD (h.at s) 0)) false = true
  · rw [if_pos ha]
    right
    exact ⟨s + 1, rfl, by omega, Nat.le_refl _, hacc.mp ha, fun e' _ he2 _ => he2⟩
  · rw [if_neg ha]
    left
    refine ⟨rfl, fun e he1 he2 hlang => ?_⟩
    have : e = s + 1 := by omega
    subst this
    exact ha (hacc.mpr hlang)

end

/-! ## pass 1: earliest end -/

/-- some match that starts at or after `from_` ends at `e` -/
def EndsAt (ps : List CharClassPart) (h : Bytes) (from_ e : Nat) : Prop :=
  ∃ t, from_ ≤ t ∧ t < e ∧ Lang ps (slice h t e)

theorem wr_true_iff_endsAt (ps : List CharClassPart) (hm : MinPos ps) (hne : 0 < ps.length) (h : Bytes) (from_ e : Nat)
    (hfe : from_ ≤ e) :
    Wr ps true (slice h from_ e) (ps.length - 1) (mn ps (ps.length - 1)) ↔ EndsAt ps h from_ e := by
  constructor
  · rintro ⟨x, y, hxy, _, hc⟩
    rw [← lang_iff_cfg_last ps hm hne] at hc
    obtain ⟨h1, _, h3⟩ := slice_split h from_ e hfe x y hxy
    have hyne := lang_nonempty ps (by intro hn; rw [hn] at hne; exact Nat.lt_irrefl _ hne) hm y hc
    have hylen : 0 < y.length := by
      cases y with
      | nil => exact absurd rfl hyne
      | cons _ _ => simp
    rw [h3, slice_length] at hylen
    exact ⟨from_ + x.length, by omega, by omega, h3 ▸ hc⟩
  · rintro ⟨t, h1, h2, hl⟩
    refine ⟨slice h from_ t, slice h t e, slice_append h from_ t e h1 (by omega), Or.inl rfl, ?_⟩
    rw [← lang_iff_cfg_last ps hm hne]; exact hl

section
variable {d : CompositeSequenceDFA} {ps : List CharClassPart} {states : List Nat}
  (ts : TabStates d.byteToClass d.numClasses ps true d.unanchored.transitions d.unanchored.accepting states)
include ts

theorem pass1_spec (h : Bytes) (from_ : Nat) : ∀ (k pos state : Nat), pos + k = h.size → from_ ≤ pos →
    Tracks ps true states state (slice h from_ pos) → (∀ e, e ≤ pos → ¬ EndsAt ps h from_ e) →
    match d.pass1 h k pos state with
    | some E => from_ < E ∧ E ≤ h.size ∧ EndsAt ps h from_ E ∧ ∀ e, e < E → ¬ EndsAt ps h from_ e
    | none => ∀ e, e ≤ h.size → ¬ EndsAt ps h from_ e := by
  intro k
  induction k with
  | zero =>
    intro pos state hk _ _ hno
    rw [CompositeSequenceDFA.pass1]
    have : pos = h.size := by omega
    subst this; exact hno
  | succ k ih =>
    intro pos state hk hfp ht hno
    rw [CompositeSequenceDFA.pass1]
    have ht' := tracks_step ts (h.at pos) ht (Or.inl rfl)
    rw [← slice_snoc h from_ pos hfp] at ht'
    have hstep : CompositeSequenceDFA.step d.numClasses d.unanchored.transitions state (d.classAt h pos) =
        CompositeSequenceDFA.step d.numClasses d.unanchored.transitions state (d.byteToClass.getD (h.at pos) 0) := rfl
    rw [hstep]
    have hacc := tracks_acc ts ht'
    rw [wr_true_iff_endsAt ps ts.minPos ts.ne h from_ (pos + 1) (by omega)] at hacc
    by_cases ha : d.unanchored.accepting.getD (CompositeSequenceDFA.step d.numClasses d.unanchored.transitions state
        (d.byteToClass.getD (h.at pos) 0)) false = true
    · rw [if_pos ha]
      exact ⟨by omega, by omega, hacc.mp ha, fun e he => hno e (by omega)⟩
    · rw [if_neg ha]
      apply ih (pos + 1) _ (by omega) (by omega) ht'
      intro e he
      by_cases hep : e ≤ pos
      · exact hno e hep
      · have : e = pos + 1 := by omega
        subst this
        exact fun hh => ha (hacc.mpr hh)

end

/-! ## pass 2: leftmost start of the matches that end at `E` -/

/-- `start` is the least `t ∈ [lo, E)` such that `[t, E)` is a match (`none`: there is none) -/
def StartOK (ps : List CharClassPart) (h : Bytes) (E lo : Nat) (start : Option Nat) : Prop :=
  (start = none ∧ ∀ t, lo ≤ t → t < E → ¬ Lang ps (slice h t E)) ∨
  (∃ t0, start = some t0 ∧ lo ≤ t0 ∧ t0 < E ∧ Lang ps (slice h t0 E) ∧ ∀ t, lo ≤ t → t < t0 → ¬ Lang ps (slice h t E))

theorem startOK_extend (ps : List CharClassPart) (h : Bytes) (E lo lo' : Nat) (start : Option Nat) (hll : lo' ≤ lo)
    (hno : ∀ t, lo' ≤ t → t < lo → ¬ Lang ps (slice h t E)) (hs : StartOK ps h E lo start) : StartOK ps h E lo' start := by
  rcases hs with ⟨h1, h2⟩ | ⟨t0, h1, h2, h3, h4, h5⟩
  · left
    refine ⟨h1, fun t ht1 ht2 => ?_⟩
    by_cases ht : lo ≤ t
    · exact h2 t ht ht2
    · exact hno t ht1 (by omega)
  · right
    refine ⟨t0, h1, by omega, h3, h4, fun t ht1 ht2 => ?_⟩
    by_cases ht : lo ≤ t
    · exact h5 t ht ht2
    · exact hno t ht1 (by omega)

section
variable {d : CompositeSequenceDFA} {ps : List CharClassPart} {states : List Nat}
  (ts : TabStates d.byteToClass d.numClasses ps.reverse false d.reverse.transitions d.reverse.accepting states)
include ts

theorem pass2_spec (h : Bytes) (from_ E : Nat) (hE : E ≤ h.size) : ∀ (k pos1 state : Nat) (start : Option Nat),
    from_ + k = pos1 → pos1 ≤ E → Tracks ps.reverse false states state (slice h pos1 E).reverse →
    (pos1 = E ∨ state ≠ 0) → StartOK ps h E pos1 start →
    StartOK ps h E from_ (d.pass2 h k pos1 state start) := by
  have hrne : 0 < ps.length := by have := ts.ne; simpa using this
  intro k
  induction k with
  | zero =>
    intro pos1 state start hk _ _ _ hs
    rw [CompositeSequenceDFA.pass2]
    have : pos1 = from_ := by omega
    subst this; exact hs
  | succ k ih =>
    intro pos1 state start hk hpE ht hlive hs
    rw [CompositeSequenceDFA.pass2]
    have hpos : pos1 - 1 < E := by omega
    have hw : (slice h (pos1 - 1) E).reverse = (slice h pos1 E).reverse ++ [h.at (pos1 - 1)] := by
      rw [slice_cons h (pos1 - 1) E hpos, List.reverse_cons, show pos1 - 1 + 1 = pos1 by omega]
    have hlive' : false = true ∨ (slice h pos1 E).reverse = [] ∨ state ≠ 0 := by
      rcases hlive with h1 | h2
      · subst h1; right; left; rw [slice_self]; rfl
      · exact Or.inr (Or.inr h2)
    have ht' := tracks_step ts (h.at (pos1 - 1)) ht hlive'
    rw [← hw] at ht'
    have hstep : CompositeSequenceDFA.step d.numClasses d.reverse.transitions state (d.classAt h (pos1 - 1)) =
        CompositeSequenceDFA.step d.numClasses d.reverse.transitions state (d.byteToClass.getD (h.at (pos1 - 1)) 0) := rfl
    rw [hstep]
    have hR : ∀ t, Lang ps.reverse (slice h t E).reverse ↔ Lang ps (slice h t E) := fun t => Lang_reverse ps _
    by_cases h0 : CompositeSequenceDFA.step d.numClasses d.reverse.transitions state
        (d.byteToClass.getD (h.at (pos1 - 1)) 0) = 0
    · rw [if_pos h0]
      rw [h0] at ht'
      have hdead := (tracks_zero ts ht').mp rfl
      apply startOK_extend ps h E pos1 from_ start (by omega) _ hs
      intro t ht1 ht2 hlang
      rw [← hR, lang_iff_cfg_last ps.reverse ts.minPos ts.ne] at hlang
      have hne' : (slice h (pos1 - 1) E).reverse ≠ [] := by
        intro hnil
        have := congrArg List.length hnil
        rw [List.length_reverse, slice_length] at this; simp at this; omega
      have := cfg_dead_forever ps.reverse ts.minPos (slice h t (pos1 - 1)).reverse (slice h (pos1 - 1) E).reverse hne'
        (fun p c hc => hdead p c ((Wr_false_iff ps.reverse _ p c).mpr hc))
      rw [← List.reverse_append, ← slice_append h t (pos1 - 1) E (by omega) (by omega)] at this
      exact this _ _ hlang
    · rw [if_neg h0]
      apply ih (pos1 - 1) _ _ (by omega) (by omega) ht' (Or.inr h0)
      have hacc := tracks_acc ts ht'
      rw [Wr_false_iff, ← lang_iff_cfg_last ps.reverse ts.minPos ts.ne, hR] at hacc
      by_cases ha : d.reverse.accepting.getD (CompositeSequenceDFA.step d.numClasses d.reverse.transitions state
          (d.byteToClass.getD (h.at (pos1 - 1)) 0)) false = true
      · rw [if_pos ha]
        right
        exact ⟨pos1 - 1, rfl, Nat.le_refl _, hpos, hacc.mp ha, fun t ht1 ht2 => by omega⟩
      · rw [if_neg ha]
        apply startOK_extend ps h E pos1 (pos1 - 1) start (by omega) _ hs
        intro t ht1 ht2 hlang
        have : t = pos1 - 1 := by omega
        subst this
        exact ha (hacc.mpr hlang)

end

end Cx.CompDfa
