import Cx.Proofs.CompositeSimTables
/-
  Cx.Proofs.CompositeSim — the rewritten CompositeSearcher (Cx.Model.CompositeSim: tables + greedy attempt + ordered-list
  simulation) computes exactly what the old greedy backtracking searcher (Cx.Fast.CompositeSearcher) computes.

    compSim_searchAt_eq   : s.searchAt h a = c.searchAt h a          (every haystack, every offset; NO side hypothesis)
    compSim_isMatch_eq    : s.isMatch h   = c.isMatch h
    compSim_eq_reference  : s.searchAt h a = Ref.refFind re h a       (with `compositeSearcher_eq_reference`)
    compSim_isMatch_eq_reference

  Route: Cx.Proofs.CompositeSimRun (`simulate` = leftmost start with a complete walk of the table automaton, best walk
  there: `simulate_spec`; earliest mode has the same verdict: `simulate_earliest`), Cx.Proofs.CompositeSimTables (the
  tables satisfy the hypotheses: `tablesOK`; the value of a new attempt is the old `matchAt`: `startVal_eq_matchFrom`),
  and here: the start-byte skip passes only positions without a match, `matchGreedy` success is the first alternative
  of the backtracking (`greedy_sound`).
-/
namespace Cx.CompSim
open Cx Cx.Fast CompositeSim

/-! ## `matchGreedy` -/

theorem scanRun_eq_consume (mem : Nat → Bool) (h : Bytes) : ∀ (k pos : Nat), k ≤ h.size - pos →
    scanRun mem h k pos = pos + CompositeSearcher.consume mem h k pos := by
  intro k
  induction k with
  | zero => intro pos _; rfl
  | succ k ih =>
    intro pos hk
    rw [scanRun, CompositeSearcher.consume]
    have hp : pos < h.size := by omega
    by_cases hm : mem (h.at pos) = true
    · simp only [hm, if_true, hp, decide_true, Bool.and_self]
      rw [ih (pos + 1) (by omega)]; omega
    · simp [hm]

theorem greedy_limit (q : CharClassPart) (n pos : Nat) :
    (if bounded q = true ∧ q.maxMatch < ((n - pos : Nat) : Int) then pos + q.maxMatch.toNat else n) - pos =
      CompositeSearcher.maxLen q n pos := by
  unfold CompositeSearcher.maxLen bounded
  by_cases hb : q.maxMatch > 0
  · simp only [hb, decide_true, true_and]
    split <;> omega
  · simp only [hb, decide_false, Bool.false_eq_true, false_and, if_false]

theorem maxLen_le (q : CharClassPart) (n pos : Nat) : CompositeSearcher.maxLen q n pos ≤ n - pos := by
  unfold CompositeSearcher.maxLen
  split <;> omega

theorem tryDown_first (rest : Nat → Option Nat) (pos lo t e : Nat) (hlo : lo ≤ t) (hr : rest (pos + t) = some e) :
    CompositeSearcher.tryDown rest pos lo t = some e := by
  cases t with
  | zero =>
    rw [CompositeSearcher.tryDown, if_pos (by omega)]
    exact hr
  | succ t =>
    rw [CompositeSearcher.tryDown, if_pos (by omega), hr]

/-- **the greedy attempt is the first alternative of the backtracking**: when every part reaches its minimum with its
    longest run, the old matcher returns that very end -/
theorem greedy_sound (h : Bytes) : ∀ (ps : List CharClassPart) (pos e : Nat), greedyLoop h ps pos = some e →
    CompositeSearcher.matchFrom h ps pos = some e := by
  intro ps
  induction ps with
  | nil => intro pos e hg; exact hg
  | cons q qs ih =>
    intro pos e hg
    rw [greedyLoop] at hg
    rw [greedy_limit, scanRun_eq_consume q.mem h _ pos (maxLen_le q h.size pos)] at hg
    rw [CompositeSearcher.matchFrom]
    generalize CompositeSearcher.consume q.mem h (CompositeSearcher.maxLen q h.size pos) pos = t at hg ⊢
    by_cases hlt : pos + t - pos < q.minMatch
    · rw [if_pos hlt] at hg; exact nomatch hg
    · rw [if_neg hlt] at hg
      exact tryDown_first _ pos q.minMatch t e (by omega) (ih (pos + t) e hg)

/-! ## `search` -/

theorem later_first (s : CompositeSim) (h : Bytes) (k p e : Nat) (hv : startVal s h p = some e) :
    later s h (k + 1) p = some (p, e) := by
  rw [later, hv]

/-- **`SearchAt` of the tables of ANY non-empty part list = the old `SearchAt`** -/
theorem search_eq_old (parts : List CharClassPart) (hne : parts ≠ []) (hsz : ∀ q ∈ parts, q.membership.size ≤ 256)
    (h : Bytes) (a : Nat) :
    (buildTables parts).searchAt h a = CompositeSearcher.searchAt { parts := parts } h a := by
  have ok := tablesOK parts hne hsz
  have hlen : ¬ parts.length = 0 := fun hl => hne (List.length_eq_zero_iff.mp hl)
  unfold searchAt search CompositeSearcher.searchAt
  have hp : (buildTables parts).parts = parts := rfl
  rw [hp, if_neg hlen, if_neg hlen]
  simp only []
  by_cases ha : a > h.size
  · rw [if_pos ha, show h.size + 1 - a = 0 by omega]; rfl
  · rw [if_neg ha, ← later_eq_searchLoop parts hne h]
    have hskip := skip_spec (buildTables parts) h (h.size - a) a (by omega)
    generalize hpos : (if (!(buildTables parts).startMatches) = true then (buildTables parts).skip h (h.size - a) a else a) = pos
    have hle : a ≤ pos ∧ pos ≤ h.size := by
      rw [← hpos]; split
      · exact ⟨hskip.1, hskip.2.1⟩
      · exact ⟨Nat.le_refl _, by omega⟩
    have hlater : later (buildTables parts) h (h.size + 1 - a) a = later (buildTables parts) h (h.size + 1 - pos) pos := by
      by_cases hsm : (buildTables parts).startMatches = true
      · simp only [hsm, Bool.not_true, Bool.false_eq_true, if_false] at hpos; rw [hpos]
      · have hsm : (buildTables parts).startMatches = false := by simpa using hsm
        simp only [hsm, Bool.not_false, if_true] at hpos
        have := later_skip (s := buildTables parts) h (pos - a) a (by omega) (fun q h1 h2 =>
          startVal_none_of_noStartByte ok h q hsm (Or.inr (hskip.2.2.1 q h1 (by rw [hpos]; omega))))
        rw [this, show a + (pos - a) = pos by omega]
    rw [hlater]
    by_cases hend : (!(buildTables parts).startMatches && decide (pos ≥ h.size)) = true
    · rw [if_pos hend]
      obtain ⟨h1, h2⟩ := Bool.and_eq_true_iff.mp hend
      have hsm : (buildTables parts).startMatches = false := by simpa using h1
      have hpn : pos = h.size := by have := of_decide_eq_true h2; omega
      rw [hpn, show h.size + 1 - h.size = 0 + 1 by omega, later_succ,
        startVal_none_of_noStartByte ok h h.size hsm (Or.inl (Nat.le_refl _))]
      rfl
    · rw [if_neg hend]
      unfold matchGreedy
      rw [hp]
      cases hg : greedyLoop h parts pos with
      | some e =>
        simp only []
        have := greedy_sound h parts pos e hg
        rw [← startVal_eq_matchFrom parts hne h pos] at this
        rw [show h.size + 1 - pos = (h.size - pos) + 1 by omega, later_first _ _ _ _ _ this]
      | none =>
        simp only []
        exact simulate_spec ok h pos hle.2

/-- `search` with `earliest` set has the same verdict -/
theorem search_earliest (s : CompositeSim) (h : Bytes) (a : Nat) :
    (s.search h a true).isSome = (s.search h a false).isSome := by
  unfold search
  by_cases hl : s.parts.length = 0
  · rw [if_pos hl, if_pos hl]
  · rw [if_neg hl, if_neg hl]
    simp only []
    by_cases ha : a > h.size
    · rw [if_pos ha, if_pos ha]
    · rw [if_neg ha, if_neg ha]
      generalize (if (!s.startMatches) = true then s.skip h (h.size - a) a else a) = pos
      by_cases hend : (!s.startMatches && decide (pos ≥ h.size)) = true
      · rw [if_pos hend, if_pos hend]
      · rw [if_neg hend, if_neg hend]
        cases s.matchGreedy h pos with
        | some e => rfl
        | none => exact simulate_earliest s h pos

/-! ## from a pattern -/

theorem mem_of_mapM {α β : Type} (f : α → Option β) : ∀ (l : List α) (ys : List β), l.mapM f = some ys →
    ∀ y ∈ ys, ∃ x ∈ l, f x = some y := by
  intro l
  induction l with
  | nil =>
    intro ys hm y hy
    rw [mapM_option_nil] at hm
    cases hm
    exact nomatch hy
  | cons a l ih =>
    intro ys hm y hy
    rw [mapM_option_cons] at hm
    cases hfa : f a with
    | none => rw [hfa] at hm; exact nomatch hm
    | some b =>
      rw [hfa, Option.bind_some] at hm
      cases hl : l.mapM f with
      | none => rw [hl] at hm; exact nomatch hm
      | some bs =>
        rw [hl, Option.bind_some] at hm
        cases hm
        rcases List.mem_cons.mp hy with rfl | hy
        · exact ⟨a, List.mem_cons_self, hfa⟩
        · obtain ⟨x, hx, hfx⟩ := ih bs hl y hy
          exact ⟨x, List.mem_cons_of_mem _ hx, hfx⟩

theorem tableOfRanges_size (rs : List (Nat × Nat)) : (tableOfRanges rs).size = 256 := by
  unfold tableOfRanges
  exact Array.size_ofFn

section
attribute [local irreducible] tableOfRanges

theorem extractSinglePart_size (x : Re) (q : CharClassPart) (hx : extractSinglePart x = some q) :
    q.membership.size = 256 := by
  unfold extractSinglePart at hx
  simp only [] at hx
  split at hx
  · exact nomatch hx
  · split at hx
    · exact nomatch hx
    · split at hx
      · exact nomatch hx
      · have h2 := Option.some.inj hx
        rw [← h2]
        exact tableOfRanges_size _

end

theorem extractCompositeParts_props (re : Re) (ps : List CharClassPart) (hx : extractCompositeParts re = some ps) :
    ps ≠ [] ∧ ∀ q ∈ ps, q.membership.size ≤ 256 := by
  unfold extractCompositeParts at hx
  split at hx
  · exact nomatch hx
  · cases hm : re.sub.mapM extractSinglePart with
    | none => rw [hm] at hx; exact nomatch hx
    | some parts =>
      rw [hm] at hx
      simp only [] at hx
      split at hx
      · exact nomatch hx
      · rename_i hlen
        cases hx
        refine ⟨fun hnil => by rw [hnil] at hlen; simp at hlen, fun q hq => ?_⟩
        obtain ⟨x, _, hfx⟩ := mem_of_mapM extractSinglePart re.sub ps hm q hq
        rw [extractSinglePart_size x q hfx]; exact Nat.le_refl _

/-- **the new code is the old model**: `SearchAt`, every haystack, every offset -/
theorem compSim_searchAt_eq (re : Re) (s : CompositeSim) (c : CompositeSearcher) (hs : newCompositeSim re = some s)
    (hc : newCompositeSearcher re = some c) (h : Bytes) (a : Nat) : s.searchAt h a = c.searchAt h a := by
  unfold newCompositeSim at hs
  unfold newCompositeSearcher at hc
  cases hx : extractCompositeParts re with
  | none => rw [hx] at hs; exact nomatch hs
  | some ps =>
    rw [hx] at hs hc
    cases hs; cases hc
    obtain ⟨hne, hsz⟩ := extractCompositeParts_props re ps hx
    exact search_eq_old ps hne hsz h a

/-- `IsMatch` -/
theorem compSim_isMatch_eq (re : Re) (s : CompositeSim) (c : CompositeSearcher) (hs : newCompositeSim re = some s)
    (hc : newCompositeSearcher re = some c) (h : Bytes) : s.isMatch h = c.isMatch h := by
  unfold isMatch
  rw [search_earliest, CompositeSearcher.isMatch_eq, ← compSim_searchAt_eq re s c hs hc h 0]
  rfl

/-- the two constructors succeed on the same patterns -/
theorem newCompositeSim_isSome (re : Re) : (newCompositeSim re).isSome = (newCompositeSearcher re).isSome := by
  unfold newCompositeSim newCompositeSearcher
  cases extractCompositeParts re <;> rfl

/-- **the new code is exact**: on every pattern `IsCompositeCharClassPattern` accepts, `SearchAt` returns what the
    general leftmost-first reference matcher returns (`repOK`, `sorted`: parser invariants, as for the old model) -/
theorem compSim_eq_reference (re : Re) (s : CompositeSim) (hok : isCompositeCharClassPattern re = true)
    (hs : newCompositeSim re = some s) (repOK : RepeatOK re) (sorted : ClassSorted re) (h : Bytes) (a : Nat) :
    s.searchAt h a = Ref.refFind re h a := by
  have hsome := newCompositeSim_isSome re
  rw [hs, Option.isSome_some] at hsome
  obtain ⟨c, hc⟩ := Option.isSome_iff_exists.mp hsome.symm
  rw [compSim_searchAt_eq re s c hs hc h a]
  exact compositeSearcher_eq_reference re c hok hc repOK sorted h a

theorem compSim_isMatch_eq_reference (re : Re) (s : CompositeSim) (hok : isCompositeCharClassPattern re = true)
    (hs : newCompositeSim re = some s) (repOK : RepeatOK re) (sorted : ClassSorted re) (h : Bytes) :
    s.isMatch h = (Ref.refFind re h 0).isSome := by
  unfold isMatch
  rw [search_earliest, ← compSim_eq_reference re s hok hs repOK sorted h 0]
  rfl

end Cx.CompSim
