import Cx.Model.Dfa
import Cx.Proofs.Pike
import Cx.Proofs.DfaCache
import Cx.Proofs.DfaClass
import Cx.Proofs.DfaClo
/-
  Cx.Proofs.DfaRef — (b) THE UNCACHED LAZY DFA IS THE REFERENCE — for every NFA, look-around included
  (`\A \z ^ $ (?m)^ (?m)$ \b \B`), without rune states, with disjoint sparse ranges.

  Route.  A DFA state is the ordered list `L` of all NFA states popped by the closure; its terminal members
  (`thr s L`: byte and match states, as Pike threads) are compared with the thread queue of the Pike VM's generation:
  `closureInto` with the REAL look set of a position (`lkReal h pos`: every assertion evaluated by `lookOK` on the whole
  haystack) and `Pike.closure` are the same DFS (`closure_dfa`); `moveLoop` with break-at-match is
  `Pike.stepAll ∘ beforeMatch` (`moveLoop_dfa`).
  The DFA does not know the real look set when it closes the targets of a move: it closes them with the look-BEHIND
  assertions only (`lkBehind h pos`: `\A`, `(?m)^`), records that context in the state (`lookHave`, `isFromWord`) and
  re-closes the list when the next byte — or the end of input — is known.  State invariant `SI`: the list of the state
  at `pos` is the incremental closure of some seed list under `lkBehind h pos`, and its context fields describe `pos`.
  Then, by the re-closure lemma (`Cx.Proofs.DfaClo.reclose`), the list `determinize` works on (`resolved`) and the list
  of the end-of-input check are the incremental closure of the same seeds under the REAL look set (`resolved_real`,
  `eoi_real_list`) — i.e. the Pike generation.  Hence the DFA loop with its 1-byte-delayed match flag is the
  generation-wise search `Pike.R` (`sU_eq_R`), which `Cx.Proofs.PikeOrder` proves equal to the priority DFS of the
  backtracker for ONE start position (`R_eq_bt`).
  Anchored start state  ⇒  `anchoredU = btFirst` (`anchoredU_eq_bt`).
  Unanchored start state: the closure from the `(?s:.)*?` prefix is the anchored queue followed by the any-byte thread
  (`prefix_queue`); threads of start positions without a match are dead and invisible to `R` (`R_sim`), the threads
  of the leftmost matching start come first (`R_append`)  ⇒  `searchAtU = (btSearchAt …).map (·.2)`.
  `at = len`: `matchesEmptyAt` is one closure under the real look set of the end position (`matchesEmptyAt_iff`).
-/

namespace Cx.Dfa
open Cx Cx.Nfa

/-! ### hypotheses as propositions, and their checkers -/

def LookFree (N : NFA) : Prop := ∀ q k nx, N.get q ≠ .look k nx

theorem lookFree_of_B {N : NFA} (h : lookFreeB N = true) : LookFree N := by
  intro q k nx hq
  unfold lookFreeB at h
  have hf : hasLookWhere N (fun _ => true) = false := by simpa using h
  have := hasLookWhere_false hf hq
  simp at this

theorem hasLookWhere_true {N : NFA} {p : Look → Bool} (ht : hasLookWhere N p = true) :
    ∃ q k nx, N.get q = .look k nx ∧ p k = true := by
  unfold hasLookWhere at ht
  rw [List.any_eq_true] at ht
  obtain ⟨s, hs, hp⟩ := ht
  obtain ⟨i, hi, hget⟩ := List.getElem_of_mem hs
  have hi' : i < N.states.size := by simpa using hi
  have hg : N.get i = s := by
    unfold NFA.get
    rw [← hget]
    simp [Array.getD_eq_getD_getElem?, hi']
  cases s with
  | look k nx => exact ⟨i, k, nx, hg, hp⟩
  | _ => cases hp

theorem hasLookWhere_lookFree {N : NFA} (h : lookFreeB N = true) (p : Look → Bool) : hasLookWhere N p = false := by
  cases hw : hasLookWhere N p with
  | false => rfl
  | true =>
    obtain ⟨q, k, nx, hq, _⟩ := hasLookWhere_true hw
    exact absurd hq (lookFree_of_B h q k nx)

theorem hasWB_of_lookFree {N : NFA} (h : lookFreeB N = true) : hasWB N = false := hasLookWhere_lookFree h _

theorem hasEndLine_of_lookFree {N : NFA} (h : lookFreeB N = true) : hasEndLine N = false := hasLookWhere_lookFree h _



theorem noRune_of_B {N : NFA} (h : noRuneB N = true) : Pike.NoRune N := by
  intro q nx
  unfold noRuneB at h
  rw [List.all_eq_true] at h
  constructor
  · intro hq
    have := h _ (get_mem_of_ne_fail (by rw [hq]; simp))
    rw [hq] at this
    simp at this
  · intro hq
    have := h _ (get_mem_of_ne_fail (by rw [hq]; simp))
    rw [hq] at this
    simp at this

theorem rangesDisjoint_pairwise : ∀ {ts : List (Nat × Nat × Nat)}, rangesDisjointB ts = true →
    ts.Pairwise (fun a b => a.2.1 < b.1 ∨ b.2.1 < a.1)
  | [], _ => List.Pairwise.nil
  | (lo, hi, nx) :: ts, h => by
    simp only [rangesDisjointB, Bool.and_eq_true, List.all_eq_true, decide_eq_true_eq] at h
    exact List.Pairwise.cons (fun b hb => h.1 b hb) (rangesDisjoint_pairwise h.2)

theorem sparseDisjoint_of_B {N : NFA} (h : sparseDisjointB N = true) : Pike.SparseDisjoint N := by
  intro q ts hq
  unfold sparseDisjointB at h
  rw [List.all_eq_true] at h
  have := h _ (get_mem_of_ne_fail (by rw [hq]; simp))
  rw [hq] at this
  exact rangesDisjoint_pairwise this


/-! ### a DFA state as a Pike generation -/

/-- states that the Pike VM keeps in its thread queue -/
def termB (N : NFA) (q : Nat) : Bool :=
  match N.get q with
  | .mtch => true
  | .byteRange _ _ _ => true
  | .sparse _ => true
  | .runeAny _ => true
  | .runeAnyNotNL _ => true
  | _ => false

def mk (s : Nat) (q : Nat) : Pike.Thread := ⟨q, s⟩

/-- the terminal members of a DFA state, as threads with start label `s` -/
def thr (N : NFA) (s : Nat) (L : List Nat) : List Pike.Thread := (L.filter (termB N)).map (mk s)

/-- the Pike visited set marks exactly the members of the list (ids outside the automaton count as marked) -/
def Rel (N : NFA) (vis : Pike.Vis) (L : List Nat) : Prop :=
  vis.size = N.states.size ∧ ∀ q, q < N.states.size → vis.getD q true = L.contains q

theorem rel_clear (N : NFA) : Rel N (Pike.clearVis N) [] := by
  refine ⟨Pike.clearVis_size N, ?_⟩
  intro q hq
  simp [Pike.clearVis, Array.getD_eq_getD_getElem?, hq]

theorem thr_append (N : NFA) (s : Nat) (A B : List Nat) : thr N s (A ++ B) = thr N s A ++ thr N s B := by
  simp [thr]

theorem thr_single (N : NFA) (s q : Nat) : thr N s [q] = if termB N q then [mk s q] else [] := by
  unfold thr
  by_cases ht : termB N q = true <;> simp [ht]


/-- the look set that satisfies exactly the assertions that hold at `pos` of `h` (`checkLookAssertion`) -/
def lkReal (h : Bytes) (pos : Nat) : LookSet :=
  { startText := lookOK .startText h pos, endText := lookOK .endText h pos, startLine := lookOK .startLine h pos,
    endLine := lookOK .endLine h pos, wordB := lookOK .wordB h pos, noWordB := lookOK .noWordB h pos }

theorem lkReal_contains (h : Bytes) (pos : Nat) (k : Look) : (lkReal h pos).contains k = lookOK k h pos := by
  cases k <;> rfl

theorem succs_real (N : NFA) (h : Bytes) (pos q : Nat) :
    succs N (lkReal h pos) q =
      (match N.get q with
       | .eps nx => [nx]
       | .split l r => [l, r]
       | .look k nx => if lookOK k h pos then [nx] else []
       | .cap _ _ nx => [nx]
       | _ => []) := by
  unfold succs
  cases hq : N.get q <;> simp only [lkReal_contains]

theorem expand_eq {N : NFA} {h : Bytes} {pos : Nat} {lk : LookSet} (hlk : LkEq N lk (lkReal h pos)) (q s : Nat) :
    Pike.expand N h pos ⟨q, s⟩ = ((succs N lk q).map (mk s), termB N q) := by
  rw [hlk q, succs_real]
  unfold Pike.expand termB mk
  cases hq : N.get q <;> simp
  split <;> simp


theorem termB_oob {N : NFA} {q : Nat} (hq : N.states.size ≤ q) : termB N q = false := by
  unfold termB; rw [get_oob N hq]


theorem getD_oob {vis : Pike.Vis} {q : Nat} (hq : vis.size ≤ q) : vis.getD q true = true := by
  simp [Array.getD_eq_getD_getElem?, Array.getElem?_eq_none hq]

theorem contains_append_single (L : List Nat) (q q' : Nat) :
    (L ++ [q]).contains q' = (L.contains q' || q' == q) := by
  by_cases hq : q' = q
  · subst hq; simp
  · have : (q' == q) = false := by simp [hq]
    simp [hq, this]


/-- `closureInto` and the Pike VM's closure are the same DFS -/
theorem closure_dfa {N : NFA} {h : Bytes} {pos : Nat} {lk : LookSet} (hlk : LkEq N lk (lkReal h pos)) (s : Nat) :
    ∀ (fuel : Nat) (st res : List Nat) (vis : Pike.Vis), Rel N vis res →
      (Pike.closure N h pos fuel (st.map (mk s)) vis (thr N s res)).2 = thr N s (closureInto N lk fuel st res) ∧
      Rel N (Pike.closure N h pos fuel (st.map (mk s)) vis (thr N s res)).1 (closureInto N lk fuel st res) := by
  intro fuel
  induction fuel with
  | zero => intro st res vis hr; exact ⟨rfl, hr⟩
  | succ fuel ih =>
    intro st res vis hr
    cases st with
    | nil => exact ⟨rfl, hr⟩
    | cons q st =>
      simp only [List.map_cons, Pike.closure, closureInto]
      by_cases hq : q < N.states.size
      · have hv := hr.2 q hq
        by_cases hc : res.contains q = true
        · rw [if_pos hc]
          have hv' : vis.getD (mk s q).state true = true := by
            show vis.getD q true = true
            rw [hv]; exact hc
          rw [if_pos hv']
          exact ih st res vis hr
        · rw [if_neg hc]
          have hv' : ¬ (vis.getD (mk s q).state true = true) := by
            show ¬ (vis.getD q true = true)
            rw [hv]; exact hc
          rw [if_neg hv']
          have he : Pike.expand N h pos (mk s q) = ((succs N lk q).map (mk s), termB N q) := expand_eq hlk q s
          rw [he]
          simp only
          have hout : (if termB N q = true then thr N s res ++ [mk s q] else thr N s res) = thr N s (res ++ [q]) := by
            rw [thr_append, thr_single]
            split <;> simp
          have hst : (succs N lk q).map (mk s) ++ st.map (mk s) = (succs N lk q ++ st).map (mk s) := by simp
          rw [hout, hst]
          apply ih
          refine ⟨by rw [Array.size_setIfInBounds]; exact hr.1, ?_⟩
          intro q' hq'
          rw [contains_append_single]
          show (vis.setIfInBounds q true).getD q' true = _
          by_cases hqq : q = q'
          · subst hqq
            have hvf : vis.getD q true = false := by
              cases hx : vis.getD q true with
              | false => rfl
              | true => rw [hx] at hv; exact absurd hv.symm hc
            rw [getD_set_self hvf]
            simp
          · rw [getD_set_other hqq, hr.2 q' hq']
            have : (q' == q) = false := by simp; exact fun hh => hqq hh.symm
            simp [this]
      · have hq' : N.states.size ≤ q := Nat.le_of_not_lt hq
        have hv' : vis.getD (mk s q).state true = true := getD_oob (by rw [hr.1]; exact hq')
        rw [if_pos hv']
        by_cases hc : res.contains q = true
        · rw [if_pos hc]
          exact ih st res vis hr
        · rw [if_neg hc, succs_oob lk hq']
          simp only [List.nil_append]
          have hthr : thr N s res = thr N s (res ++ [q]) := by
            rw [thr_append, thr_single, termB_oob hq']; simp
          rw [hthr]
          apply ih
          refine ⟨hr.1, ?_⟩
          intro q2 hq2
          rw [contains_append_single, hr.2 q2 hq2]
          have : (q2 == q) = false := by simp; omega
          simp [this]

theorem closureFuel_eq (N : NFA) : closureFuel N = Pike.closureFuel N := rfl

/-- `epsilonClosureInto(result, seed)` is `addSearchThread` -/
theorem closeSeed_dfa {N : NFA} {h : Bytes} {pos : Nat} {lk : LookSet} (hlk : LkEq N lk (lkReal h pos)) (s : Nat) (seed : Nat)
    {res : List Nat} {vis : Pike.Vis} (hr : Rel N vis res) :
    (Pike.addThread N h pos (mk s seed) (vis, thr N s res)).2 = thr N s (closeSeed N lk res seed) ∧
    Rel N (Pike.addThread N h pos (mk s seed) (vis, thr N s res)).1 (closeSeed N lk res seed) := by
  unfold Pike.addThread closeSeed
  rw [closureFuel_eq]
  exact closure_dfa hlk s (Pike.closureFuel N) [seed] res vis hr

/-! ### `moveLoop` is `stepAll ∘ beforeMatch` -/

/-- the part of the list `moveLoop` looks at -/
def cut (N : NFA) (brk : Bool) (L : List Nat) : List Nat :=
  if brk then L.takeWhile (fun q => !Pike.isMatchState N q) else L

theorem sparseInto_dfa {N : NFA} {h : Bytes} {pos : Nat} {lk : LookSet} (hlk : LkEq N lk (lkReal h (pos+1))) (s b : Nat) :
    ∀ (ts : List (Nat × Nat × Nat)) (res : List Nat) (vis : Pike.Vis), Rel N vis res →
      (Pike.stepSparse N h pos b s ts (vis, thr N s res)).2 = thr N s (sparseInto N lk b ts res) ∧
      Rel N (Pike.stepSparse N h pos b s ts (vis, thr N s res)).1 (sparseInto N lk b ts res) := by
  intro ts
  induction ts with
  | nil => intro res vis hr; exact ⟨rfl, hr⟩
  | cons t ts ih =>
    intro res vis hr
    obtain ⟨lo, hi, nx⟩ := t
    simp only [Pike.stepSparse, sparseInto]
    split
    · obtain ⟨e1, e2⟩ := closeSeed_dfa hlk s nx hr
      have hpair : Pike.addThread N h (pos+1) ⟨nx, s⟩ (vis, thr N s res) =
          ((Pike.addThread N h (pos+1) (mk s nx) (vis, thr N s res)).1, thr N s (closeSeed N lk res nx)) := by
        rw [← e1]; rfl
      rw [hpair]
      exact ih _ _ e2
    · exact ih res vis hr

theorem isMatch_termB {N : NFA} {q : Nat} (hm : Pike.isMatchState N q = true) : termB N q = true := by
  unfold Pike.isMatchState at hm
  unfold termB
  cases hq : N.get q <;> simp [hq] at hm ⊢

theorem moveLoop_dfa {N : NFA} (hnr : Pike.NoRune N) {h : Bytes} {pos : Nat} {lk : LookSet} (hlk : LkEq N lk (lkReal h (pos+1))) (s : Nat)
    (brk : Bool) : ∀ (L res : List Nat) (vis : Pike.Vis), Rel N vis res →
      (Pike.stepAll N h pos (thr N s (cut N brk L)) (vis, thr N s res)).2 = thr N s (moveLoop N lk (h.at pos) brk L res) ∧
      Rel N (Pike.stepAll N h pos (thr N s (cut N brk L)) (vis, thr N s res)).1 (moveLoop N lk (h.at pos) brk L res) := by
  intro L
  induction L with
  | nil =>
    intro res vis hr
    have : thr N s (cut N brk []) = [] := by unfold cut; split <;> rfl
    rw [this]
    exact ⟨rfl, hr⟩
  | cons q qs ih =>
    intro res vis hr
    -- unfold one step of both sides according to the kind of `q`
    have hcut_keep : Pike.isMatchState N q = false → cut N brk (q :: qs) = q :: cut N brk qs := by
      intro hm
      unfold cut
      cases brk <;> simp [List.takeWhile, hm]
    cases hq : N.get q with
    | mtch =>
      have hm : Pike.isMatchState N q = true := by unfold Pike.isMatchState; rw [hq]
      rw [moveLoop, hq]
      simp only
      cases brk with
      | true =>
        have : cut N true (q :: qs) = [] := by unfold cut; simp [List.takeWhile, hm]
        rw [this]
        exact ⟨rfl, hr⟩
      | false =>
        have hc : cut N false (q :: qs) = q :: cut N false qs := by unfold cut; simp
        have ht : thr N s (q :: cut N false qs) = mk s q :: thr N s (cut N false qs) := by
          unfold thr; simp [List.filter, isMatch_termB hm]
        rw [hc, ht]
        have hstep : Pike.stepThread N h pos (mk s q) (vis, thr N s res) = (vis, thr N s res) := by
          unfold Pike.stepThread mk; simp only [hq]
        simp only [Bool.false_eq_true, ↓reduceIte]
        rw [show Pike.stepAll N h pos (mk s q :: thr N s (cut N false qs)) (vis, thr N s res) =
          Pike.stepAll N h pos (thr N s (cut N false qs)) (Pike.stepThread N h pos (mk s q) (vis, thr N s res)) from rfl,
          hstep]
        exact ih res vis hr
    | byteRange lo hi nx =>
      have hm : Pike.isMatchState N q = false := by unfold Pike.isMatchState; rw [hq]
      have htq : termB N q = true := by unfold termB; rw [hq]
      have ht : thr N s (q :: cut N brk qs) = mk s q :: thr N s (cut N brk qs) := by
        unfold thr; simp [List.filter, htq]
      rw [hcut_keep hm, ht, moveLoop, hq]
      simp only
      rw [show Pike.stepAll N h pos (mk s q :: thr N s (cut N brk qs)) (vis, thr N s res) =
        Pike.stepAll N h pos (thr N s (cut N brk qs)) (Pike.stepThread N h pos (mk s q) (vis, thr N s res)) from rfl]
      have hstep : Pike.stepThread N h pos (mk s q) (vis, thr N s res) =
          (if lo ≤ h.at pos ∧ h.at pos ≤ hi then Pike.addThread N h (pos+1) ⟨nx, s⟩ (vis, thr N s res)
           else (vis, thr N s res)) := by
        unfold Pike.stepThread mk; simp only [hq]
      rw [hstep]
      split
      · obtain ⟨e1, e2⟩ := closeSeed_dfa hlk s nx hr
        have hpair : Pike.addThread N h (pos+1) ⟨nx, s⟩ (vis, thr N s res) =
            ((Pike.addThread N h (pos+1) (mk s nx) (vis, thr N s res)).1, thr N s (closeSeed N lk res nx)) := by
          rw [← e1]; rfl
        rw [hpair]
        exact ih _ _ e2
      · exact ih res vis hr
    | sparse ts =>
      have hm : Pike.isMatchState N q = false := by unfold Pike.isMatchState; rw [hq]
      have htq : termB N q = true := by unfold termB; rw [hq]
      have ht : thr N s (q :: cut N brk qs) = mk s q :: thr N s (cut N brk qs) := by
        unfold thr; simp [List.filter, htq]
      rw [hcut_keep hm, ht, moveLoop, hq]
      simp only
      rw [show Pike.stepAll N h pos (mk s q :: thr N s (cut N brk qs)) (vis, thr N s res) =
        Pike.stepAll N h pos (thr N s (cut N brk qs)) (Pike.stepThread N h pos (mk s q) (vis, thr N s res)) from rfl]
      have hstep : Pike.stepThread N h pos (mk s q) (vis, thr N s res) =
          Pike.stepSparse N h pos (h.at pos) s ts (vis, thr N s res) := by
        unfold Pike.stepThread mk; simp only [hq]
      rw [hstep]
      obtain ⟨e1, e2⟩ := sparseInto_dfa hlk s (h.at pos) ts res vis hr
      have hpair : Pike.stepSparse N h pos (h.at pos) s ts (vis, thr N s res) =
          ((Pike.stepSparse N h pos (h.at pos) s ts (vis, thr N s res)).1, thr N s (sparseInto N lk (h.at pos) ts res)) := by
        rw [← e1]
      rw [hpair]
      exact ih _ _ e2
    | runeAny nx => exact absurd hq (hnr q nx).1
    | runeAnyNotNL nx => exact absurd hq (hnr q nx).2
    | look k nx =>
      have hm : Pike.isMatchState N q = false := by unfold Pike.isMatchState; rw [hq]
      have htq : termB N q = false := by unfold termB; rw [hq]
      have ht : thr N s (q :: cut N brk qs) = thr N s (cut N brk qs) := by
        unfold thr; simp [List.filter, htq]
      rw [hcut_keep hm, ht, moveLoop, hq]
      exact ih res vis hr
    | split l r =>
      have hm : Pike.isMatchState N q = false := by unfold Pike.isMatchState; rw [hq]
      have htq : termB N q = false := by unfold termB; rw [hq]
      have ht : thr N s (q :: cut N brk qs) = thr N s (cut N brk qs) := by
        unfold thr; simp [List.filter, htq]
      rw [hcut_keep hm, ht, moveLoop, hq]
      exact ih res vis hr
    | eps nx =>
      have hm : Pike.isMatchState N q = false := by unfold Pike.isMatchState; rw [hq]
      have htq : termB N q = false := by unfold termB; rw [hq]
      have ht : thr N s (q :: cut N brk qs) = thr N s (cut N brk qs) := by
        unfold thr; simp [List.filter, htq]
      rw [hcut_keep hm, ht, moveLoop, hq]
      exact ih res vis hr
    | cap i st nx =>
      have hm : Pike.isMatchState N q = false := by unfold Pike.isMatchState; rw [hq]
      have htq : termB N q = false := by unfold termB; rw [hq]
      have ht : thr N s (q :: cut N brk qs) = thr N s (cut N brk qs) := by
        unfold thr; simp [List.filter, htq]
      rw [hcut_keep hm, ht, moveLoop, hq]
      exact ih res vis hr
    | fail =>
      have hm : Pike.isMatchState N q = false := by unfold Pike.isMatchState; rw [hq]
      have htq : termB N q = false := by unfold termB; rw [hq]
      have ht : thr N s (q :: cut N brk qs) = thr N s (cut N brk qs) := by
        unfold thr; simp [List.filter, htq]
      rw [hcut_keep hm, ht, moveLoop, hq]
      exact ih res vis hr

/-! ### threads of a DFA state: matches, cut -/

theorem anyMatch_thr (N : NFA) (s : Nat) (L : List Nat) : Pike.anyMatch N (thr N s L) = containsMatch N L := by
  induction L with
  | nil => rfl
  | cons q qs ih =>
    have hc : containsMatch N (q :: qs) = (Pike.isMatchState N q || containsMatch N qs) := by
      simp [containsMatch]
    rw [hc, ← ih]
    by_cases ht : termB N q = true
    · have : thr N s (q :: qs) = mk s q :: thr N s qs := by unfold thr; simp [List.filter, ht]
      rw [this]
      simp [Pike.anyMatch, mk]
    · have htf : termB N q = false := by simpa using ht
      have : thr N s (q :: qs) = thr N s qs := by unfold thr; simp [List.filter, htf]
      rw [this]
      have hm : Pike.isMatchState N q = false := by
        cases hm : Pike.isMatchState N q with
        | false => rfl
        | true => rw [isMatch_termB hm] at htf; cases htf
      simp [hm]

theorem beforeMatch_thr (N : NFA) (s : Nat) (L : List Nat) :
    Pike.beforeMatch N (thr N s L) = thr N s (L.takeWhile (fun q => !Pike.isMatchState N q)) := by
  induction L with
  | nil => rfl
  | cons q qs ih =>
    by_cases ht : termB N q = true
    · have h1 : thr N s (q :: qs) = mk s q :: thr N s qs := by unfold thr; simp [List.filter, ht]
      rw [h1]
      by_cases hm : Pike.isMatchState N q = true
      · have h2 : (q :: qs).takeWhile (fun q => !Pike.isMatchState N q) = [] := by simp [List.takeWhile, hm]
        rw [h2]
        simp [Pike.beforeMatch, List.takeWhile, mk, hm, thr]
      · have hmf : Pike.isMatchState N q = false := by simpa using hm
        have h2 : (q :: qs).takeWhile (fun q => !Pike.isMatchState N q) =
            q :: qs.takeWhile (fun q => !Pike.isMatchState N q) := by simp [List.takeWhile, hmf]
        have h3 : thr N s (q :: qs.takeWhile (fun q => !Pike.isMatchState N q)) =
            mk s q :: thr N s (qs.takeWhile (fun q => !Pike.isMatchState N q)) := by
          unfold thr; simp [List.filter, ht]
        rw [h2, h3, ← ih]
        simp [Pike.beforeMatch, List.takeWhile, mk, hmf]
    · have htf : termB N q = false := by simpa using ht
      have hmf : Pike.isMatchState N q = false := by
        cases hm : Pike.isMatchState N q with
        | false => rfl
        | true => rw [isMatch_termB hm] at htf; cases htf
      have h1 : thr N s (q :: qs) = thr N s qs := by unfold thr; simp [List.filter, htf]
      have h2 : (q :: qs).takeWhile (fun q => !Pike.isMatchState N q) =
          q :: qs.takeWhile (fun q => !Pike.isMatchState N q) := by simp [List.takeWhile, hmf]
      have h3 : thr N s (q :: qs.takeWhile (fun q => !Pike.isMatchState N q)) =
          thr N s (qs.takeWhile (fun q => !Pike.isMatchState N q)) := by
        unfold thr; simp [List.filter, htf]
      rw [h1, h2, h3, ih]

theorem takeWhile_no_match {N : NFA} {L : List Nat} (h : containsMatch N L = false) :
    L.takeWhile (fun q => !Pike.isMatchState N q) = L := by
  induction L with
  | nil => rfl
  | cons q qs ih =>
    simp only [containsMatch, List.any_cons, Bool.or_eq_false_iff] at h
    simp only [List.takeWhile, h.1, Bool.not_false]
    rw [ih (by simpa [containsMatch] using h.2)]

/-- the threads `moveLoop` steps are those before the first match state -/
theorem thr_cut (N : NFA) (s : Nat) (L : List Nat) :
    thr N s (cut N (containsMatch N L) L) = Pike.beforeMatch N (thr N s L) := by
  rw [beforeMatch_thr]
  unfold cut
  cases hm : containsMatch N L with
  | true => rfl
  | false => simp only [Bool.false_eq_true, ↓reduceIte]; rw [takeWhile_no_match hm]


/-- the current DFA state is a complete Pike generation at position `pos` -/
def Good (N : NFA) (h : Bytes) (pos s : Nat) (L : List Nat) : Prop :=
  ∃ vis, Rel N vis L ∧ Pike.GenOK N h pos (vis, thr N s L)

theorem stepAll_genOK {N : NFA} {h : Bytes} (hR : Pike.RuneOK N h) {pos : Nat} (hp : pos < h.size) :
    ∀ (Q : List Pike.Thread) (vq : Pike.Vis × List Pike.Thread), Pike.GenOK N h (pos+1) vq →
      Pike.GenOK N h (pos+1) (Pike.stepAll N h pos Q vq) := by
  intro Q
  induction Q with
  | nil => intro vq g; exact g
  | cons t ts ih =>
    intro vq g
    have hunf : Pike.stepAll N h pos (t :: ts) vq = Pike.stepAll N h pos ts (Pike.stepThread N h pos t vq) := rfl
    rw [hunf, Pike.stepThread_eq hR hp]
    exact ih _ (Pike.addAll_spec t.start _ g).1

/-- the successor list: its threads are the next Pike generation, and it is again a complete generation -/
theorem next_dfa {N : NFA} (hnr : Pike.NoRune N) {h : Bytes} {pos : Nat} (hp : pos < h.size) (s : Nat)
    {lk : LookSet} (hlk : LkEq N lk (lkReal h (pos+1))) (L : List Nat) :
    thr N s (moveLoop N lk (h.at pos) (containsMatch N L) L []) =
      (Pike.stepAll N h pos (Pike.beforeMatch N (thr N s L)) (Pike.clearVis N, [])).2 ∧
    Good N h (pos+1) s (moveLoop N lk (h.at pos) (containsMatch N L) L []) := by
  obtain ⟨e1, e2⟩ := moveLoop_dfa hnr hlk s (containsMatch N L) L [] (Pike.clearVis N) (rel_clear N)
  rw [thr_cut] at e1 e2
  have hnil : thr N s [] = [] := rfl
  rw [hnil] at e1 e2
  refine ⟨e1.symm, _, e2, ?_⟩
  have g := stepAll_genOK (Or.inl hnr) hp (Pike.beforeMatch N (thr N s L)) _ (Pike.genOK_clear N h (pos+1))
  rw [← e1]
  exact g

theorem good_start {N : NFA} {h : Bytes} {pos : Nat} {lk : LookSet} (hlk : LkEq N lk (lkReal h pos)) (s : Nat) (q0 : Nat) :
    thr N s (epsilonClosure N [q0] lk) = (Pike.addThread N h pos ⟨q0, s⟩ (Pike.clearVis N, [])).2 ∧
    Good N h pos s (epsilonClosure N [q0] lk) := by
  obtain ⟨e1, e2⟩ := closeSeed_dfa hlk s q0 (rel_clear N)
  have hnil : thr N s [] = [] := rfl
  rw [hnil] at e1 e2
  have he : epsilonClosure N [q0] lk = closeSeed N lk [] q0 := rfl
  rw [he]
  refine ⟨e1.symm, _, e2, ?_⟩
  have g := (Pike.addThread_spec (Pike.genOK_clear N h pos) ⟨q0, s⟩).1
  rw [← e1]
  exact g

theorem mem_thr {N : NFA} {s : Nat} {L : List Nat} {t : Pike.Thread} (ht : t ∈ thr N s L) : t.state ∈ L := by
  unfold thr at ht
  simp only [List.mem_map, List.mem_filter] at ht
  obtain ⟨q, ⟨hq, _⟩, rfl⟩ := ht
  exact hq

theorem mem_thr_of {N : NFA} {s : Nat} {L : List Nat} {q : Nat} (hq : q ∈ L) (ht : termB N q = true) : mk s q ∈ thr N s L := by
  unfold thr
  simp only [List.mem_map, List.mem_filter]
  exact ⟨q, ⟨hq, ht⟩, rfl⟩

theorem epsReach_oob {N : NFA} {h : Bytes} {pos q q' : Nat} (hq : N.states.size ≤ q) (e : Pike.EpsReach N h pos q q') : q' = q := by
  cases e with
  | refl => rfl
  | cons st _ =>
    have := step_inv st
    rw [get_oob N hq] at this
    exact this.elim

/-! ### the look-behind context of a DFA state and the real look set of its position -/

theorem nat_beq_decide (a b : Nat) : (a == b) = decide (a = b) := by
  by_cases h : a = b
  · simp [h]
  · have : (a == b) = false := by simp [h]
    rw [this]; simp [h]

/-- the assertions about what precedes `pos` (what the closure of a target / a start state is computed with) -/
def lkBehind (h : Bytes) (pos : Nat) : LookSet :=
  { startText := decide (pos = 0), startLine := lookOK .startLine h pos }

theorem lookOfKind_kindAt (h : Bytes) (pos : Nat) : lookOfKind (kindAt h pos) = lkBehind h pos := by
  unfold kindAt lkBehind
  by_cases hp : pos = 0
  · subst hp
    simp [lookOfKind, lookOK]
  · rw [if_neg hp]
    unfold kindOfByte
    have hpos : pos > 0 := by omega
    by_cases h10 : h.at (pos - 1) = 10
    · rw [if_pos h10]
      simp [lookOfKind, lookOK, hp, h10, hpos]
    · rw [if_neg h10]
      have : lookOK .startLine h pos = false := by simp [lookOK, hp, h10]
      rw [this]
      split
      · simp [lookOfKind, hp]
      · split <;> simp [lookOfKind, hp]

theorem lookAfter_eq (h : Bytes) (pos : Nat) : lookAfter (h.at pos) = lkBehind h (pos + 1) := by
  unfold lookAfter lkBehind
  by_cases h10 : h.at pos = 10
  · rw [if_pos h10]; simp [lookOK, h10]
  · rw [if_neg h10]; simp [lookOK, h10]

/-- the DFA state `S` stands at `pos`: its list is the incremental closure of `seeds` under the look-behind set of
    `pos`, and its context fields describe `pos` -/
structure SI (N : NFA) (h : Bytes) (pos : Nat) (S : DState) (seeds : List Nat) : Prop where
  nfa : S.nfa = seeds.foldl (closeSeed N (lkBehind h pos)) []
  fw : S.fromWord = (decide (0 < pos) && isWordByte (h.at (pos - 1)))
  lhT : S.lhText = (decide (pos = 0) && hasStartText N)
  lhL : S.lhLine = (lookOK .startLine h pos && hasStartLine N)

/-- the same seeds closed under the real look set of the position: the Pike generation -/
def Lr (N : NFA) (h : Bytes) (pos : Nat) (seeds : List Nat) : List Nat := seeds.foldl (closeSeed N (lkReal h pos)) []

theorem ahead_real {N : NFA} {h : Bytes} {pos : Nat} {S : DState} {seeds : List Nat} (hsi : SI N h pos S seeds)
    (hlt : pos < h.size) : LkEq N (aheadLook S (h.at pos)) (lkReal h pos) := by
  apply lkEq_of_agree
  intro q k nx hq
  have hne : pos ≠ h.size := by omega
  cases k with
  | startText =>
    have hh : hasStartText N = true := hasLookWhere_of hq (p := fun k => k == .startText) rfl
    simp only [aheadLook, lkReal, LookSet.contains, lookOK, hsi.lhT, hh, Bool.and_true]
  | endText => simp [aheadLook, lkReal, LookSet.contains, lookOK, hne]
  | startLine =>
    have hh : hasStartLine N = true := hasLookWhere_of hq (p := fun k => k == .startLine) rfl
    simp only [aheadLook, lkReal, LookSet.contains, hsi.lhL, hh, Bool.and_true]
  | endLine => simp [aheadLook, lkReal, LookSet.contains, lookOK, hne, hlt, nat_beq_decide]
  | wordB => simp [aheadLook, lkReal, LookSet.contains, lookOK, hsi.fw, hlt]
  | noWordB => simp [aheadLook, lkReal, LookSet.contains, lookOK, hsi.fw, hlt]

theorem eoi_real {N : NFA} {h : Bytes} {pos : Nat} {S : DState} {seeds : List Nat} (hsi : SI N h pos S seeds)
    (he : pos = h.size) : LkEq N (eoiLook S) (lkReal h pos) := by
  apply lkEq_of_agree
  intro q k nx hq
  have hnlt : ¬ pos < h.size := by omega
  cases k with
  | startText =>
    have hh : hasStartText N = true := hasLookWhere_of hq (p := fun k => k == .startText) rfl
    simp only [eoiLook, lkReal, LookSet.contains, lookOK, hsi.lhT, hh, Bool.and_true]
  | endText => simp [eoiLook, lkReal, LookSet.contains, lookOK, he]
  | startLine =>
    have hh : hasStartLine N = true := hasLookWhere_of hq (p := fun k => k == .startLine) rfl
    simp only [eoiLook, lkReal, LookSet.contains, hsi.lhL, hh, Bool.and_true]
  | endLine => simp [eoiLook, lkReal, LookSet.contains, lookOK, he]
  | wordB => simp [eoiLook, lkReal, LookSet.contains, lookOK, hsi.fw, hnlt]
  | noWordB => simp [eoiLook, lkReal, LookSet.contains, lookOK, hsi.fw, hnlt]

theorem behind_sub_real (N : NFA) (h : Bytes) (pos : Nat) : LkSub N (lkBehind h pos) (lkReal h pos) := by
  apply lkSub_of_imp
  intro q k nx _ hk
  cases k <;> simp_all [lkBehind, lkReal, LookSet.contains, lookOK]

/-- when `determinize` does not re-close, no assertion of the automaton looks ahead at this position -/
theorem behind_eq_real {N : NFA} {h : Bytes} {pos : Nat} (hlt : pos < h.size) (hw : hasWB N = false)
    (he : ¬ (hasEndLine N = true ∧ h.at pos = 10)) : LkEq N (lkBehind h pos) (lkReal h pos) := by
  apply lkEq_of_agree
  intro q k nx hq
  have hne : pos ≠ h.size := by omega
  cases k with
  | startText => simp [lkBehind, lkReal, LookSet.contains, lookOK]
  | endText => simp [lkBehind, lkReal, LookSet.contains, lookOK, hne]
  | startLine => simp [lkBehind, lkReal, LookSet.contains]
  | endLine =>
    have hh : hasEndLine N = true := hasLookWhere_of hq (p := fun k => k == .endLine) rfl
    have h10 : ¬ h.at pos = 10 := fun h1 => he ⟨hh, h1⟩
    simp [lkBehind, lkReal, LookSet.contains, lookOK, hne, h10]
  | wordB =>
    have := hasLookWhere_false hw hq
    simp at this
  | noWordB =>
    have := hasLookWhere_false hw hq
    simp at this

/-- the thread list `determinize` works on is the Pike generation of the position -/
theorem resolved_real {N : NFA} {h : Bytes} {pos : Nat} {S : DState} {seeds : List Nat} (hsi : SI N h pos S seeds)
    (hlt : pos < h.size) : resolved N S (h.at pos) = Lr N h pos seeds := by
  unfold resolved Lr
  split
  · unfold resolveLookAhead
    rw [epsilonClosure_congr (ahead_real hsi hlt), hsi.nfa]
    exact reclose (behind_sub_real N h pos) seeds
  · rename_i hc
    simp only [Bool.or_eq_true, Bool.and_eq_true, beq_iff_eq, not_or, not_and] at hc
    rw [hsi.nfa]
    apply foldl_closeSeed_congr
    apply behind_eq_real hlt (by simpa using hc.1)
    intro hh
    exact hc.2 hh.1 hh.2

/-- … and so is the list of the end-of-input check -/
theorem eoi_real_list {N : NFA} {h : Bytes} {pos : Nat} {S : DState} {seeds : List Nat} (hsi : SI N h pos S seeds)
    (he : pos = h.size) : epsilonClosure N S.nfa (eoiLook S) = Lr N h pos seeds := by
  rw [epsilonClosure_congr (eoi_real hsi he), hsi.nfa]
  exact reclose (behind_sub_real N h pos) seeds

/-- the start state stands at its position -/
theorem si_start (N : NFA) (h : Bytes) (pos : Nat) (anch : Bool) :
    SI N h pos (startState N (kindAt h pos) anch) [if anch then N.startAnchored else N.startUnanchored] := by
  refine ⟨?_, ?_, ?_, ?_⟩
  · show epsilonClosure N _ (lookOfKind (kindAt h pos)) = _
    rw [lookOfKind_kindAt]
    rfl
  · show (kindAt h pos == StartKind.word) = _
    unfold kindAt
    by_cases hp : pos = 0
    · subst hp; simp
    · rw [if_neg hp]
      have hpos : 0 < pos := by omega
      unfold kindOfByte
      by_cases h10 : h.at (pos - 1) = 10
      · rw [if_pos h10, h10]; simp [hpos]; decide
      · rw [if_neg h10]
        by_cases h13 : h.at (pos - 1) = 13
        · rw [if_pos h13, h13]; simp [hpos]; decide
        · rw [if_neg h13]
          cases hw : isWordByte (h.at (pos - 1)) <;> simp [hpos]
  · show ((lookOfKind (kindAt h pos)).startText && hasStartText N) = _
    rw [lookOfKind_kindAt]
    rfl
  · show ((lookOfKind (kindAt h pos)).startLine && hasStartLine N) = _
    rw [lookOfKind_kindAt]
    rfl

/-- one `determinize` step, in terms of the Pike generation `Lr` of the source position -/
theorem step_real {N : NFA} {cfg : Config} (hbrk : cfg.breakAtMatch = true) {h : Bytes} {pos : Nat} {S : DState}
    {seeds : List Nat} (hsi : SI N h pos S seeds) (hlt : pos < h.size) :
    step N cfg S (h.at pos) =
      (if (moveLoop N (lookAfter (h.at pos)) (h.at pos) (containsMatch N (Lr N h pos seeds)) (Lr N h pos seeds) []).isEmpty ∧
          containsMatch N (Lr N h pos seeds) = false then .dead
       else if (moveLoop N (lookAfter (h.at pos)) (h.at pos) (containsMatch N (Lr N h pos seeds)) (Lr N h pos seeds) []).length
          > cfg.detLimit then .limit
       else .next { nfa := moveLoop N (lookAfter (h.at pos)) (h.at pos) (containsMatch N (Lr N h pos seeds)) (Lr N h pos seeds) [],
                    isMatch := containsMatch N (Lr N h pos seeds), fromWord := isWordByte (h.at pos),
                    lhText := false, lhLine := h.at pos == 10 && hasStartLine N }) := by
  unfold step
  simp only [resolved_real hsi hlt, hbrk, Bool.and_true]

/-- the successor state stands at the next position, its seeds are the targets of the move -/
theorem si_step (N : NFA) (h : Bytes) (pos : Nat) (L : List Nat) (brk isM : Bool) :
    SI N h (pos + 1)
      { nfa := moveLoop N (lookAfter (h.at pos)) (h.at pos) brk L [], isMatch := isM, fromWord := isWordByte (h.at pos),
        lhText := false, lhLine := h.at pos == 10 && hasStartLine N }
      (targets N (h.at pos) brk L) := by
  refine ⟨?_, ?_, ?_, ?_⟩
  · show moveLoop N (lookAfter (h.at pos)) (h.at pos) brk L [] = _
    rw [moveLoop_eq_foldl, lookAfter_eq]
  · simp
  · simp
  · show (h.at pos == 10 && hasStartLine N) = _
    simp [lookOK, nat_beq_decide]

theorem Lr_step (N : NFA) (h : Bytes) (pos : Nat) (L : List Nat) (brk : Bool) :
    Lr N h (pos + 1) (targets N (h.at pos) brk L) = moveLoop N (lkReal h (pos + 1)) (h.at pos) brk L [] := by
  unfold Lr
  rw [moveLoop_eq_foldl]

/-! ### the DFA loop is the generation-wise search -/

theorem matchAt_thr (N : NFA) (s p : Nat) (L : List Nat) :
    Pike.matchAt N p (thr N s L) = if containsMatch N L then some p else none := by
  unfold Pike.matchAt
  rw [anyMatch_thr]

theorem sU_eq_R {N : NFA} (hnr : Pike.NoRune N) (cfg : Config) (hbrk : cfg.breakAtMatch = true) (h : Bytes) (s : Nat) :
    ∀ (n pos : Nat) (S : DState) (seeds : List Nat) (last : Option Nat), n = h.size - pos → pos ≤ h.size →
      SI N h pos S seeds → Good N h pos s (Lr N h pos seeds) →
      sU N cfg h pos S last = .gaveUp ∨
      sU N cfg h pos S last =
        .ok ((Pike.R N h (List.replicate (h.size - pos) (Pike.clearVis N)) pos (thr N s (Lr N h pos seeds))).1.or last) := by
  intro n
  induction n with
  | zero =>
    intro pos S seeds last hn hp hsi hg
    have hps : pos = h.size := by omega
    have hlt : ¬ pos < h.size := by omega
    rw [sU_ge hlt hp]
    have hpe : h.size - pos = 0 := by omega
    rw [hpe]
    simp only [List.replicate_zero, Pike.R]
    rw [matchAt_thr]
    unfold checkEOI
    rw [eoi_real_list hsi hps]
    right
    cases hcm : containsMatch N (Lr N h pos seeds) <;> simp [hps]
  | succ n ih =>
    intro pos S seeds last hn hp hsi hg
    have hlt : pos < h.size := by omega
    rw [sU_lt hlt, step_real hbrk hsi hlt]
    have hrep : List.replicate (h.size - pos) (Pike.clearVis N) =
        Pike.clearVis N :: List.replicate (h.size - (pos+1)) (Pike.clearVis N) := by
      have : h.size - pos = (h.size - (pos+1)) + 1 := by omega
      rw [this, List.replicate_succ]
    obtain ⟨hn1, hn2⟩ := next_dfa hnr hlt s (LkEq.refl N (lkReal h (pos+1))) (Lr N h pos seeds)
    rw [← Lr_step] at hn1 hn2
    rw [hrep]
    simp only [Pike.R]
    rw [← hn1, matchAt_thr]
    generalize hL : Lr N h pos seeds = L at *
    generalize hML : moveLoop N (lookAfter (h.at pos)) (h.at pos) (containsMatch N L) L [] = ML
    by_cases hd : ML.isEmpty = true ∧ containsMatch N L = false
    · -- dead
      rw [if_pos hd]
      right
      have hnil : ML = [] := by simpa using hd.1
      rw [hnil, moveLoop_eq_foldl, foldl_closeSeed_eq_nil] at hML
      have hLr : Lr N h (pos + 1) (targets N (h.at pos) (containsMatch N L) L) = [] := by
        unfold Lr; rw [hML]; rfl
      rw [hLr, hd.2]
      have : thr N s [] = [] := rfl
      rw [this, Pike.R_nil]
      simp
    · rw [if_neg hd]
      by_cases hl : ML.length > cfg.detLimit
      · rw [if_pos hl]; left; rfl
      · rw [if_neg hl]
        simp only
        have hsi' := si_step N h pos L (containsMatch N L) (containsMatch N L)
        rw [hML] at hsi'
        have := ih (pos+1) _ _ (if containsMatch N L then some pos else last) (by omega) (by omega) hsi' hn2
        rcases this with hgu | hok
        · left; exact hgu
        · right
          rw [hok]
          cases hcm : containsMatch N L <;> simp

/-! ### anchored start state: one start position -/

theorem Lr_single (N : NFA) (h : Bytes) (pos q0 : Nat) : Lr N h pos [q0] = epsilonClosure N [q0] (lkReal h pos) := rfl

/-- (b), anchored: `SearchAtAnchored` without a cache reports the end the backtracker finds first from `at` -/
theorem anchoredU_eq_bt {N : NFA} (hnrB : noRuneB N = true) (hsdB : sparseDisjointB N = true)
    (cfg : Config) (hbrk : cfg.breakAtMatch = true) (h : Bytes) {at_ : Nat} (hat : at_ ≤ h.size) :
    anchoredU N cfg h at_ = .gaveUp ∨ anchoredU N cfg h at_ = .ok (Pike.btFirst N h at_ at_) := by
  have hnr := noRune_of_B hnrB
  have hU : anchoredU N cfg h at_ = sU N cfg h at_ (startState N (kindAt h at_) true) none := rfl
  rw [hU]
  obtain ⟨e1, e2⟩ := good_start (LkEq.refl N (lkReal h at_)) at_ N.startAnchored
  have hsi := si_start N h at_ true
  simp only [↓reduceIte] at hsi
  rcases sU_eq_R hnr cfg hbrk h at_ (h.size - at_) at_ _ _ none rfl hat hsi (by rw [Lr_single]; exact e2) with hg | hok
  · exact Or.inl hg
  · right
    rw [hok, Lr_single, e1, Pike.R_eq_bt (sparseDisjoint_of_B hsdB) (Or.inl hnr) (Nat.le_refl _) hat]
    simp

/-! ### the unanchored prefix -/

structure PrefixOK (N : NFA) (a : Nat) : Prop where
  su : N.get N.startUnanchored = .split N.startAnchored a
  any : ∃ hi, 255 ≤ hi ∧ N.get a = .byteRange 0 hi N.startUnanchored
  ne1 : a ≠ N.startUnanchored
  ne2 : N.startAnchored ≠ N.startUnanchored
  ne3 : N.startAnchored ≠ a
  tgt : ∀ q t, t ∈ stateTargets (N.get q) → (t = N.startUnanchored → q = a) ∧ (t = a → q = N.startUnanchored)

theorem prefixOK_of_B {N : NFA} (h : prefixOKB N = true) : ∃ a, PrefixOK N a := by
  unfold prefixOKB at h
  split at h
  · rename_i l a hsu
    simp only [Bool.and_eq_true, decide_eq_true_eq, List.all_eq_true, List.mem_range, Bool.or_eq_true] at h
    obtain ⟨⟨⟨⟨⟨hl, hany⟩, h1⟩, h2⟩, h3⟩, htg⟩ := h
    subst hl
    refine ⟨a, hsu, ?_, h1, h2, h3, ?_⟩
    · split at hany
      · rename_i lo hi nx ha
        simp only [Bool.and_eq_true, decide_eq_true_eq] at hany
        obtain ⟨⟨rfl, hhi⟩, rfl⟩ := hany
        exact ⟨hi, hhi, ha⟩
      · cases hany
    · intro q t ht
      by_cases hq : q < N.states.size
      · have := htg q hq t ht
        constructor
        · intro htu
          rcases this.1 with h' | h'
          · exact absurd htu h'
          · exact h'
        · intro hta
          rcases this.2 with h' | h'
          · exact absurd hta h'
          · exact h'
      · rw [get_oob N (Nat.le_of_not_lt hq)] at ht
        simp [stateTargets] at ht
  · cases h

theorem expand_targets {N : NFA} {h : Bytes} {pos : Nat} {fr x : Pike.Thread} (hx : x ∈ (Pike.expand N h pos fr).1) :
    x.state ∈ stateTargets (N.get fr.state) := by
  unfold Pike.expand at hx
  cases hk : N.get fr.state <;> simp only [hk] at hx <;> simp [stateTargets] at hx ⊢
  · rcases hx with rfl | rfl <;> simp
  · subst hx; rfl
  · subst hx; rfl
  · rw [hx.2]

theorem getD_set_same (W : Pike.Vis) (i : Nat) : (W.setIfInBounds i true).getD i true = true := by
  simp [Array.getD_eq_getD_getElem?, Array.getElem?_setIfInBounds]
  split <;> simp

/-- a closure that starts outside `{u, a}` never meets `u` or `a`: it does not see the mark on `u` and leaves `a` alone -/
theorem closure_avoid {N : NFA} {a : Nat} (hp : PrefixOK N a) (h : Bytes) (pos : Nat) :
    ∀ (fuel : Nat) (st : List Pike.Thread) (W1 W2 : Pike.Vis) (out : List Pike.Thread),
      (∀ fr ∈ st, fr.state ≠ N.startUnanchored ∧ fr.state ≠ a) →
      (∀ q, q ≠ N.startUnanchored → W1.getD q true = W2.getD q true) →
      (Pike.closure N h pos fuel st W1 out).2 = (Pike.closure N h pos fuel st W2 out).2 ∧
      (Pike.closure N h pos fuel st W1 out).1.getD a true = W1.getD a true := by
  intro fuel
  induction fuel with
  | zero => intro st W1 W2 out _ _; exact ⟨rfl, rfl⟩
  | succ fuel ih =>
    intro st W1 W2 out hst hag
    cases st with
    | nil => exact ⟨rfl, rfl⟩
    | cons fr st =>
      obtain ⟨hfu, hfa⟩ := hst fr List.mem_cons_self
      have hst' : ∀ x ∈ st, x.state ≠ N.startUnanchored ∧ x.state ≠ a :=
        fun x hx => hst x (List.mem_cons_of_mem _ hx)
      rw [Pike.closure, Pike.closure, hag fr.state hfu]
      split
      · exact ih st W1 W2 out hst' hag
      · simp only
        have hnew : ∀ x ∈ (Pike.expand N h pos fr).1 ++ st, x.state ≠ N.startUnanchored ∧ x.state ≠ a := by
          intro x hx
          rcases List.mem_append.mp hx with h1 | h1
          · have ht := hp.tgt fr.state x.state (expand_targets h1)
            exact ⟨fun hh => hfa (ht.1 hh), fun hh => hfu (ht.2 hh)⟩
          · exact hst' x h1
        have hag' : ∀ q, q ≠ N.startUnanchored →
            (W1.setIfInBounds fr.state true).getD q true = (W2.setIfInBounds fr.state true).getD q true := by
          intro q hq
          by_cases hqf : fr.state = q
          · subst hqf; rw [getD_set_same, getD_set_same]
          · rw [getD_set_other hqf, getD_set_other hqf]; exact hag q hq
        obtain ⟨i1, i2⟩ := ih _ (W1.setIfInBounds fr.state true) (W2.setIfInBounds fr.state true) _ hnew hag'
        exact ⟨i1, by rw [i2, getD_set_other hfa]⟩

theorem clearVis_getD {N : NFA} {q : Nat} (hq : q < N.states.size) : (Pike.clearVis N).getD q true = false := by
  simp [Pike.clearVis, Array.getD_eq_getD_getElem?, hq]

/-- the closure from the unanchored start: the anchored queue, then the any-byte thread -/
theorem prefix_queue {N : NFA} {a : Nat} (hp : PrefixOK N a) (h : Bytes) (pos s : Nat) :
    (Pike.addThread N h pos ⟨N.startUnanchored, s⟩ (Pike.clearVis N, [])).2 =
      (Pike.addThread N h pos ⟨N.startAnchored, s⟩ (Pike.clearVis N, [])).2 ++ [⟨a, s⟩] := by
  obtain ⟨hi, hhi, hany⟩ := hp.any
  have hu : N.startUnanchored < N.states.size := Pike.get_lt_of_ne_fail (by rw [hp.su]; simp)
  have ha : a < N.states.size := Pike.get_lt_of_ne_fail (by rw [hany]; simp)
  have hF : Pike.closureFuel N = 2 * N.states.size + 1 + 1 := rfl
  have hcu := clearVis_getD hu
  unfold Pike.addThread
  simp only
  rw [hF, Pike.closure]
  simp only [hcu, Bool.false_eq_true, ↓reduceIte]
  have hexp : Pike.expand N h pos ⟨N.startUnanchored, s⟩ = ([⟨N.startAnchored, s⟩, ⟨a, s⟩], false) := by
    unfold Pike.expand; simp only [hp.su]
  rw [hexp]
  simp only [Bool.false_eq_true, ↓reduceIte, List.append_nil]
  have hcnt : ((Pike.clearVis N).setIfInBounds N.startUnanchored true).count false + 1 = N.states.size := by
    rw [count_set_lt hcu, Pike.clearVis_count]
  have happ := Pike.closure_stack_append N h pos (2 * N.states.size + 1) [⟨N.startAnchored, s⟩] [⟨a, s⟩]
    ((Pike.clearVis N).setIfInBounds N.startUnanchored true) [] (by simp; omega)
  have hcons : ([⟨N.startAnchored, s⟩, ⟨a, s⟩] : List Pike.Thread) = [⟨N.startAnchored, s⟩] ++ [⟨a, s⟩] := rfl
  rw [hcons, happ]
  obtain ⟨av1, av2⟩ := closure_avoid hp h pos (2 * N.states.size + 1) [⟨N.startAnchored, s⟩]
    ((Pike.clearVis N).setIfInBounds N.startUnanchored true) (Pike.clearVis N) []
    (by intro fr hfr; simp at hfr; subst hfr; exact ⟨hp.ne2, hp.ne3⟩)
    (by intro q hq; exact getD_set_other (fun hh => hq hh.symm))
  have hirr := Pike.closure_fuel_irrel N h pos (2 * N.states.size + 1) (2 * N.states.size + 1 + 1) [⟨N.startAnchored, s⟩]
    (Pike.clearVis N) [] (by rw [Pike.clearVis_count]; simp) (by rw [Pike.clearVis_count]; simp)
  rw [av1, hirr]
  have hva : (Pike.closure N h pos (2 * N.states.size + 1) [⟨N.startAnchored, s⟩]
      ((Pike.clearVis N).setIfInBounds N.startUnanchored true) []).1.getD a true = false := by
    rw [av2, getD_set_other (fun hh => hp.ne1 hh.symm)]
    exact clearVis_getD ha
  rw [Pike.closure]
  simp only [hva, Bool.false_eq_true, ↓reduceIte]
  have hexpa : Pike.expand N h pos ⟨a, s⟩ = ([], true) := by
    unfold Pike.expand; simp only [hany]
  rw [hexpa]
  simp only [↓reduceIte, List.nil_append, Pike.closure_nil]

/-! ### the unanchored run: earlier starts are dead, the leftmost matching start wins -/

/-- the generation-wise search from the unanchored start state, threads labelled `s` -/
def G (N : NFA) (h : Bytes) (s p : Nat) : Option Nat :=
  (Pike.R N h (List.replicate (h.size - p) (Pike.clearVis N)) p
    (Pike.addThread N h p ⟨N.startUnanchored, s⟩ (Pike.clearVis N, [])).2).1

theorem anchoredQueue_dead {N : NFA} {h : Bytes} {p : Nat} (s : Nat) (hd : ∀ j, ¬ Accepts N h p j) :
    ∀ x ∈ (Pike.addThread N h p ⟨N.startAnchored, s⟩ (Pike.clearVis N, [])).2, Pike.NM N h p x.state := by
  intro x hx
  obtain ⟨_, _, _, new, hnew, hprop⟩ := Pike.addThread_spec (Pike.genOK_clear N h p) ⟨N.startAnchored, s⟩
  rw [hnew] at hx
  simp only [List.nil_append] at hx
  obtain ⟨_, hreach, _⟩ := hprop x hx
  intro ⟨j, m, hsteps, hm, hlt⟩
  exact hd j ⟨m, Pike.steps_trans hreach.steps hsteps, hm, hlt⟩

theorem replicate_agree (N : NFA) (h : Bytes) (n p : Nat) :
    ∀ k W1 W2, (List.replicate n (Pike.clearVis N))[k]? = some W1 → (List.replicate n (Pike.clearVis N))[k]? = some W2 →
      W1.size = N.states.size ∧ W2.size = N.states.size ∧ Pike.AgreeD (Pike.NM N h (p+1+k)) W1 W2 := by
  intro k W1 W2 h1 h2
  have e1 : W1 = Pike.clearVis N := by
    rw [List.getElem?_replicate] at h1; split at h1 <;> simp_all
  have e2 : W2 = Pike.clearVis N := by
    rw [List.getElem?_replicate] at h2; split at h2 <;> simp_all
  subst e1; subst e2
  exact ⟨Pike.clearVis_size N, Pike.clearVis_size N, fun _ _ => rfl⟩

theorem not_match_any {N : NFA} {a hi nx : Nat} (ha : N.get a = .byteRange 0 hi nx) : Pike.isMatchState N a = false := by
  unfold Pike.isMatchState; rw [ha]

/-- no match starts at `p < len`: the search moves on to `p+1` -/
theorem G_skip {N : NFA} {a : Nat} (hp : PrefixOK N a) (hS : Pike.SparseDet N) (hnr : Pike.NoRune N) {h : Bytes}
    (hb : BytesOK h) (s : Nat) {p : Nat} (hlt : p < h.size) (hd : ∀ j, ¬ Accepts N h p j) :
    G N h s p = G N h s (p+1) := by
  obtain ⟨hi, hhi, hany⟩ := hp.any
  unfold G
  rw [prefix_queue hp]
  have hrep : List.replicate (h.size - p) (Pike.clearVis N) =
      Pike.clearVis N :: List.replicate (h.size - (p+1)) (Pike.clearVis N) := by
    have : h.size - p = (h.size - (p+1)) + 1 := by omega
    rw [this, List.replicate_succ]
  have hsim : Pike.Sim (Pike.NM N h p)
      ((Pike.addThread N h p ⟨N.startAnchored, s⟩ (Pike.clearVis N, [])).2 ++ [⟨a, s⟩]) [⟨a, s⟩] :=
    Pike.Sim.left_append (anchoredQueue_dead s hd) (Pike.Sim.refl _ _)
  rw [Pike.R_sim hS (Or.inl hnr) _ (List.replicate (h.size - p) (Pike.clearVis N)) p _ [⟨a, s⟩] (by simp; omega) rfl
    (replicate_agree N h _ p) hsim]
  rw [hrep]
  simp only [Pike.R]
  have hbm : Pike.beforeMatch N [(⟨a, s⟩ : Pike.Thread)] = [⟨a, s⟩] := by
    simp [Pike.beforeMatch, List.takeWhile, not_match_any hany]
  have hma : Pike.matchAt N p [(⟨a, s⟩ : Pike.Thread)] = none := by
    simp [Pike.matchAt, Pike.anyMatch, not_match_any hany]
  rw [hbm, hma]
  have hstep : Pike.stepAll N h p [(⟨a, s⟩ : Pike.Thread)] (Pike.clearVis N, []) =
      Pike.addThread N h (p+1) ⟨N.startUnanchored, s⟩ (Pike.clearVis N, []) := by
    have hle : h.at p ≤ hi := by have := hb p; omega
    simp only [Pike.stepAll, Pike.stepThread, hany]
    rw [if_pos ⟨Nat.zero_le _, hle⟩]
  rw [hstep]
  simp

/-- no match starts at `len` -/
theorem G_end {N : NFA} {a : Nat} (hp : PrefixOK N a) {h : Bytes} (s : Nat) (hd : ∀ j, ¬ Accepts N h h.size j) :
    G N h s h.size = none := by
  obtain ⟨hi, hhi, hany⟩ := hp.any
  unfold G
  rw [prefix_queue hp, Nat.sub_self]
  simp only [List.replicate_zero, Pike.R, Pike.matchAt]
  rw [Pike.anyMatch_append, Pike.anyMatch_dead (anchoredQueue_dead s hd)]
  simp [Pike.anyMatch, not_match_any hany]

/-- the backtracker finds `e` from `s0`: so does the unanchored run when it gets there -/
theorem G_hit {N : NFA} {a : Nat} (hp : PrefixOK N a) (hd : Pike.SparseDisjoint N) (hnr : Pike.NoRune N) {h : Bytes}
    {at_ s0 e : Nat} (has : at_ ≤ s0) (hs : s0 ≤ h.size) (hbt : Pike.btFirst N h at_ s0 = some e) :
    G N h s0 s0 = some e := by
  unfold G
  rw [prefix_queue hp, (Pike.R_append N h _ s0 _ _).1, Pike.R_eq_bt hd (Or.inl hnr) has hs, hbt]
  simp

theorem G_before {N : NFA} {a : Nat} (hp : PrefixOK N a) (hS : Pike.SparseDet N) (hnr : Pike.NoRune N) {h : Bytes}
    (hb : BytesOK h) (s : Nat) {s0 : Nat} (hs0 : s0 ≤ h.size) :
    ∀ (k p : Nat), s0 - p = k → p ≤ s0 → (∀ i j, p ≤ i → i < s0 → ¬ Accepts N h i j) → G N h s p = G N h s s0 := by
  intro k
  induction k with
  | zero => intro p hk hp0 _; have : p = s0 := by omega
            subst this; rfl
  | succ k ih =>
    intro p hk hp0 hdead
    rw [G_skip hp hS hnr hb s (by omega) (fun j => hdead p j (Nat.le_refl _) (by omega))]
    exact ih (p+1) (by omega) (by omega) (fun i j hi hlt => hdead i j (by omega) hlt)

theorem G_none {N : NFA} {a : Nat} (hp : PrefixOK N a) (hS : Pike.SparseDet N) (hnr : Pike.NoRune N) {h : Bytes}
    (hb : BytesOK h) (s : Nat) :
    ∀ (k p : Nat), h.size - p = k → p ≤ h.size → (∀ i j, p ≤ i → i ≤ h.size → ¬ Accepts N h i j) → G N h s p = none := by
  intro k
  induction k with
  | zero =>
    intro p hk hp0 hdead
    have : p = h.size := by omega
    subst this
    exact G_end hp s (fun j => hdead _ j (Nat.le_refl _) (Nat.le_refl _))
  | succ k ih =>
    intro p hk hp0 hdead
    rw [G_skip hp hS hnr hb s (by omega) (fun j => hdead p j (Nat.le_refl _) (by omega))]
    exact ih (p+1) (by omega) (by omega) (fun i j hi hle => hdead i j (by omega) hle)


/-- (b) THE UNCACHED LAZY DFA REPORTS THE END OF THE LEFTMOST-FIRST MATCH — LOOK-AROUND INCLUDED.  For an NFA without
    rune states, with pairwise disjoint sparse ranges and the compiler's `(?s:.)*?` prefix as unanchored start (any
    assertions `\A \z ^ $ \b \B` anywhere), `searchAt` without a cache either hits the determinization limit (NFA
    fallback) or returns exactly the end offset of the span the bounded backtracker (priority DFS, leftmost start first,
    assertions evaluated by `lookOK` on the whole haystack) returns — and `none` exactly when that returns none. -/
theorem searchAtU_eq_bt {N : NFA} (hnrB : noRuneB N = true) (hsdB : sparseDisjointB N = true)
    (hpB : prefixOKB N = true) (cfg : Config) (hbrk : cfg.breakAtMatch = true) {h : Bytes} (hb : BytesOK h) {at_ : Nat}
    (hat : at_ ≤ h.size) :
    searchAtU N cfg h at_ = .gaveUp ∨ searchAtU N cfg h at_ = .ok ((btSearchAt N h at_).map (·.2)) := by
  have hnr := noRune_of_B hnrB
  have hd := sparseDisjoint_of_B hsdB
  have hS := Pike.sparseDet_of_disjoint hd
  obtain ⟨a, hp⟩ := prefixOK_of_B hpB
  unfold searchAtU
  rw [if_neg (by omega)]
  have hna : ¬ (alwaysAnchored N = true ∧ at_ > 0) := by
    intro hh
    have := hh.1
    unfold alwaysAnchored at this
    exact hp.ne2 (by simpa using this)
  rw [if_neg hna]
  have hU : searchLoopU N cfg h (h.size + 1 - at_) at_ (startState N (kindAt h at_) false) none =
      sU N cfg h at_ (startState N (kindAt h at_) false) none := rfl
  rw [hU]
  have hsi := si_start N h at_ false
  simp only [Bool.false_eq_true, ↓reduceIte] at hsi
  -- the result in terms of `G`, for any thread label
  have key : ∀ s, sU N cfg h at_ (startState N (kindAt h at_) false) none = .gaveUp ∨
      sU N cfg h at_ (startState N (kindAt h at_) false) none = .ok (G N h s at_) := by
    intro s
    obtain ⟨e1, e2⟩ := good_start (LkEq.refl N (lkReal h at_)) s N.startUnanchored
    rcases sU_eq_R hnr cfg hbrk h s (h.size - at_) at_ _ _ none rfl hat hsi (by rw [Lr_single]; exact e2) with hg | hok
    · exact Or.inl hg
    · right
      rw [hok, Lr_single, e1]
      unfold G
      simp
  cases hbt : btSearchAt N h at_ with
  | none =>
    rcases key 0 with hg | hok
    · exact Or.inl hg
    · right
      rw [hok, G_none hp hS hnr hb 0 _ at_ rfl hat ((btSearchAt_leftmost N h at_ hat).2 hbt)]
      rfl
  | some r =>
    obtain ⟨s0, e⟩ := r
    obtain ⟨b1, b2, b3, _⟩ := btSearchAt_sound N h at_ s0 e hbt
    have bleft := (btSearchAt_leftmost N h at_ hat).1 s0 e hbt
    have bfirst : Pike.btFirst N h at_ s0 = some e := Pike.btSearchFrom_first N h at_ _ _ s0 e hbt
    rcases key s0 with hg | hok
    · exact Or.inl hg
    · right
      rw [hok, G_before hp hS hnr hb s0 (by omega) _ at_ rfl b1 bleft, G_hit hp hd hnr b1 (by omega) bfirst]
      rfl

/-! ### (c) `IsMatch` -/


theorem G_eq_bt {N : NFA} (hnrB : noRuneB N = true) (hsdB : sparseDisjointB N = true) (hpB : prefixOKB N = true)
    {h : Bytes} (hb : BytesOK h) {at_ : Nat} (hat : at_ ≤ h.size) :
    ∃ s, G N h s at_ = (btSearchAt N h at_).map (·.2) := by
  have hnr := noRune_of_B hnrB
  have hd := sparseDisjoint_of_B hsdB
  have hS := Pike.sparseDet_of_disjoint hd
  obtain ⟨a, hp⟩ := prefixOK_of_B hpB
  cases hbt : btSearchAt N h at_ with
  | none =>
    exact ⟨0, by rw [G_none hp hS hnr hb 0 _ at_ rfl hat ((btSearchAt_leftmost N h at_ hat).2 hbt)]; rfl⟩
  | some r =>
    obtain ⟨s0, e⟩ := r
    obtain ⟨b1, b2, b3, _⟩ := btSearchAt_sound N h at_ s0 e hbt
    have bleft := (btSearchAt_leftmost N h at_ hat).1 s0 e hbt
    have bfirst : Pike.btFirst N h at_ s0 = some e := Pike.btSearchFrom_first N h at_ _ _ s0 e hbt
    exact ⟨s0, by rw [G_before hp hS hnr hb s0 (by omega) _ at_ rfl b1 bleft, G_hit hp hd hnr b1 (by omega) bfirst]; rfl⟩


theorem eU_eq_R {N : NFA} (hnr : Pike.NoRune N) (cfg : Config) (hbrk : cfg.breakAtMatch = true) (h : Bytes) (s : Nat) :
    ∀ (n pos : Nat) (S : DState) (seeds : List Nat), n = h.size - pos → pos ≤ h.size →
      SI N h pos S seeds → Good N h pos s (Lr N h pos seeds) →
      eU N cfg h pos S = .gaveUp ∨
      eU N cfg h pos S =
        .ok (Pike.R N h (List.replicate (h.size - pos) (Pike.clearVis N)) pos (thr N s (Lr N h pos seeds))).1.isSome := by
  intro n
  induction n with
  | zero =>
    intro pos S seeds hn hp hsi hg
    have hps : pos = h.size := by omega
    have hlt : ¬ pos < h.size := by omega
    rw [eU_ge hlt hp]
    have hpe : h.size - pos = 0 := by omega
    rw [hpe]
    simp only [List.replicate_zero, Pike.R]
    rw [matchAt_thr]
    unfold checkEOI
    rw [eoi_real_list hsi hps]
    right
    cases hcm : containsMatch N (Lr N h pos seeds) <;> simp
  | succ n ih =>
    intro pos S seeds hn hp hsi hg
    have hlt : pos < h.size := by omega
    rw [eU_lt hlt, step_real hbrk hsi hlt]
    have hrep : List.replicate (h.size - pos) (Pike.clearVis N) =
        Pike.clearVis N :: List.replicate (h.size - (pos+1)) (Pike.clearVis N) := by
      have : h.size - pos = (h.size - (pos+1)) + 1 := by omega
      rw [this, List.replicate_succ]
    obtain ⟨hn1, hn2⟩ := next_dfa hnr hlt s (LkEq.refl N (lkReal h (pos+1))) (Lr N h pos seeds)
    rw [← Lr_step] at hn1 hn2
    rw [hrep]
    simp only [Pike.R]
    rw [← hn1, matchAt_thr]
    generalize hL : Lr N h pos seeds = L at *
    generalize hML : moveLoop N (lookAfter (h.at pos)) (h.at pos) (containsMatch N L) L [] = ML
    by_cases hd : ML.isEmpty = true ∧ containsMatch N L = false
    · rw [if_pos hd]
      right
      have hnil : ML = [] := by simpa using hd.1
      rw [hnil, moveLoop_eq_foldl, foldl_closeSeed_eq_nil] at hML
      have hLr : Lr N h (pos + 1) (targets N (h.at pos) (containsMatch N L) L) = [] := by
        unfold Lr; rw [hML]; rfl
      rw [hLr, hd.2]
      have : thr N s [] = [] := rfl
      rw [this, Pike.R_nil]
      simp
    · rw [if_neg hd]
      by_cases hl : ML.length > cfg.detLimit
      · rw [if_pos hl]; left; rfl
      · rw [if_neg hl]
        simp only
        cases hcm : containsMatch N L with
        | true =>
          right
          simp
        | false =>
          simp only [Bool.false_eq_true, ↓reduceIte, Option.or_none]
          have hsi' := si_step N h pos L (containsMatch N L) (containsMatch N L)
          rw [hML, hcm] at hsi'
          rw [hcm] at hn2
          exact ih (pos+1) _ _ (by omega) (by omega) hsi' hn2

/-- (c) `searchEarliestMatch` without a cache answers whether the reference finds a match at or after `at` -/
theorem earliestU_eq_bt {N : NFA} (hnrB : noRuneB N = true) (hsdB : sparseDisjointB N = true)
    (hpB : prefixOKB N = true) (cfg : Config) (hbrk : cfg.breakAtMatch = true) {h : Bytes} (hb : BytesOK h) {at_ : Nat}
    (hat : at_ ≤ h.size) :
    earliestU N cfg h at_ = .gaveUp ∨ earliestU N cfg h at_ = .ok (btSearchAt N h at_).isSome := by
  have hnr := noRune_of_B hnrB
  obtain ⟨a, hp⟩ := prefixOK_of_B hpB
  obtain ⟨s, hG⟩ := G_eq_bt hnrB hsdB hpB hb hat
  unfold earliestU
  rw [if_neg (by omega)]
  have hna : ¬ (alwaysAnchored N = true ∧ at_ > 0) := by
    intro hh
    have := hh.1
    unfold alwaysAnchored at this
    exact hp.ne2 (by simpa using this)
  rw [if_neg hna]
  have hU : earliestLoopU N cfg h (h.size + 1 - at_) at_ (startState N (kindAt h at_) false) =
      eU N cfg h at_ (startState N (kindAt h at_) false) := rfl
  rw [hU]
  have hsi := si_start N h at_ false
  simp only [Bool.false_eq_true, ↓reduceIte] at hsi
  obtain ⟨e1, e2⟩ := good_start (LkEq.refl N (lkReal h at_)) s N.startUnanchored
  rcases eU_eq_R hnr cfg hbrk h s (h.size - at_) at_ _ _ rfl hat hsi (by rw [Lr_single]; exact e2) with hg | hok
  · exact Or.inl hg
  · right
    rw [hok, Lr_single, e1]
    have : (Pike.R N h (List.replicate (h.size - at_) (Pike.clearVis N)) at_
        (Pike.addThread N h at_ ⟨N.startUnanchored, s⟩ (Pike.clearVis N, [])).2).1 = G N h s at_ := rfl
    rw [this, hG]
    cases btSearchAt N h at_ <;> rfl


/-- the reference finds a match at or after `at` iff some span starting there is accepted -/
theorem bt_isSome_iff (N : NFA) (h : Bytes) {at_ : Nat} (hat : at_ ≤ h.size) :
    (btSearchAt N h at_).isSome = true ↔ ∃ i j, at_ ≤ i ∧ i ≤ h.size ∧ Accepts N h i j := by
  constructor
  · intro hs
    cases hbt : btSearchAt N h at_ with
    | none => rw [hbt] at hs; cases hs
    | some r =>
      obtain ⟨s0, e⟩ := r
      obtain ⟨b1, b2, b3, b4⟩ := btSearchAt_sound N h at_ s0 e hbt
      exact ⟨s0, e, b1, by omega, b4⟩
  · intro ⟨i, j, h1, h2, h3⟩
    cases hbt : btSearchAt N h at_ with
    | none => exact absurd h3 ((btSearchAt_leftmost N h at_ hat).2 hbt i j h1 h2)
    | some r => rfl


/-! ### `at = len`: the empty match -/


theorem accepts_empty_iff {N : NFA} (h : Bytes) (p : Nat) (hp : p ≤ h.size) :
    Accepts N h p p ↔ ∃ m, Pike.EpsReach N h p N.startAnchored m ∧ N.get m = .mtch := by
  constructor
  · intro ⟨m, hs, hm, _⟩
    exact ⟨m, Pike.epsReach_of_steps hs hp rfl, hm⟩
  · intro ⟨m, he, hm⟩
    exact ⟨m, he.steps, hm, Pike.get_lt_of_ne_fail (by rw [hm]; simp)⟩


theorem emptyLook_real (N : NFA) (h : Bytes) : LkEq N (emptyLook h h.size) (lkReal h h.size) := by
  apply lkEq_of_agree
  intro q k nx _
  cases k with
  | startText => simp [emptyLook, lkReal, LookSet.contains, lookOK, nat_beq_decide]
  | endText => simp [emptyLook, lkReal, LookSet.contains, lookOK]
  | startLine =>
    by_cases h0 : h.size = 0
    · simp [emptyLook, lkReal, LookSet.contains, lookOK, h0]
    · have : h.size > 0 := by omega
      simp [emptyLook, lkReal, LookSet.contains, lookOK, h0, this, nat_beq_decide]
  | endLine => simp [emptyLook, lkReal, LookSet.contains, lookOK]
  | wordB =>
    by_cases h0 : h.size = 0
    · simp [emptyLook, lkReal, LookSet.contains, lookOK, h0]
    · have : h.size > 0 := by omega
      simp [emptyLook, lkReal, LookSet.contains, lookOK, h0, this]
  | noWordB =>
    by_cases h0 : h.size = 0
    · simp [emptyLook, lkReal, LookSet.contains, lookOK, h0]
    · have : h.size > 0 := by omega
      simp [emptyLook, lkReal, LookSet.contains, lookOK, h0, this]

/-- `matchesEmptyAt(haystack, len)`: one closure under the real look set of the end position — exactly "the empty
    string at `len` is accepted", for every NFA -/
theorem matchesEmptyAt_iff (N : NFA) (h : Bytes) : matchesEmptyAt N h h.size = true ↔ Accepts N h h.size h.size := by
  rw [accepts_empty_iff h h.size (Nat.le_refl _)]
  unfold matchesEmptyAt
  rw [epsilonClosure_congr (emptyLook_real N h)]
  obtain ⟨e1, vis, hrel, _⟩ := good_start (LkEq.refl N (lkReal h h.size)) 0 N.startAnchored
  obtain ⟨g, _, hmark, new, hnew, hprop⟩ := Pike.addThread_spec (Pike.genOK_clear N h h.size) ⟨N.startAnchored, 0⟩
  simp only [List.nil_append] at hnew
  rw [← anyMatch_thr N 0, e1, Pike.anyMatch_iff]
  constructor
  · intro ⟨t, ht, hm⟩
    rw [hnew] at ht
    obtain ⟨_, hreach, _⟩ := hprop t ht
    exact ⟨t.state, hreach, (Pike.isMatchState_iff N _).mp hm⟩
  · intro ⟨m, hreach, hm⟩
    have hmlt : m < N.states.size := Pike.get_lt_of_ne_fail (by rw [hm]; simp)
    have hmm : Pike.Marked (Pike.addThread N h h.size ⟨N.startAnchored, 0⟩ (Pike.clearVis N, [])).1 m :=
      Pike.closed_reach g.closed hreach hmark
    have hterm : Pike.Terminal N m := by
      unfold Pike.Terminal
      rw [hm]
      trivial
    obtain ⟨t, ht, hts⟩ := g.covered m hmlt hmm hterm
    exact ⟨t, ht, by rw [hts]; exact (Pike.isMatchState_iff N m).mpr hm⟩


theorem bt_at_end {N : NFA} (h : Bytes) :
    (Accepts N h h.size h.size → (btSearchAt N h h.size).map (·.2) = some h.size) ∧
    (¬ Accepts N h h.size h.size → (btSearchAt N h h.size).map (·.2) = none) := by
  cases hbt : btSearchAt N h h.size with
  | none =>
    have := (btSearchAt_leftmost N h h.size (Nat.le_refl _)).2 hbt h.size h.size (Nat.le_refl _) (Nat.le_refl _)
    exact ⟨fun ha => absurd ha this, fun _ => rfl⟩
  | some r =>
    obtain ⟨s, e⟩ := r
    obtain ⟨b1, b2, b3, b4⟩ := btSearchAt_sound N h h.size s e hbt
    have hs : s = h.size := by omega
    have he : e = h.size := by omega
    subst hs; subst he
    exact ⟨fun _ => rfl, fun hn => absurd b4 hn⟩


/-- (b) at `at = len`, for every NFA -/
theorem apiSearchAtU_end (N : NFA) (cfg : Config) (h : Bytes) :
    apiSearchAtU N cfg h h.size = .ok ((btSearchAt N h h.size).map (·.2)) := by
  unfold apiSearchAtU
  rw [if_neg (by omega), if_pos rfl]
  by_cases ha : Accepts N h h.size h.size
  · rw [(bt_at_end h).1 ha, if_pos ((matchesEmptyAt_iff N h).mpr ha)]
  · rw [(bt_at_end h).2 ha]
    have : ¬ (matchesEmptyAt N h h.size = true) := fun hm => ha ((matchesEmptyAt_iff N h).mp hm)
    rw [if_neg this]

/-! ### always-anchored automata (`\A…`: no unanchored prefix) -/

theorem steps_head {N : NFA} {h : Bytes} {a b : Nat × Nat} (s : Steps N h a b) : a = b ∨ ∃ c, Step N h a c := by
  cases s with
  | refl c => exact Or.inl rfl
  | cons st _ => exact Or.inr ⟨_, st⟩

theorem no_accept_after_start {N : NFA} (hh : anchoredHeadB N = true) {h : Bytes} {i j : Nat} (hi : 0 < i) :
    ¬ Accepts N h i j := by
  unfold anchoredHeadB at hh
  simp only [Bool.and_eq_true] at hh
  obtain ⟨_, hlook⟩ := hh
  intro ⟨m, hs, hm, _⟩
  rcases steps_head hs with heq | ⟨c, st⟩
  · have : N.startAnchored = m := (Prod.mk.inj heq).1
    rw [this, hm] at hlook
    cases hlook
  · obtain ⟨q', p'⟩ := c
    have hinv := step_inv st
    cases hg : N.get N.startAnchored with
    | look k nx =>
      rw [hg] at hinv hlook
      cases k <;> simp at hlook
      simp only [lookOK, decide_eq_true_eq] at hinv
      omega
    | _ => rw [hg] at hlook; cases hlook

theorem startState_anchored_eq {N : NFA} (ha : alwaysAnchored N = true) (kind : StartKind) :
    startState N kind false = startState N kind true := by
  unfold alwaysAnchored at ha
  have : N.startAnchored = N.startUnanchored := by simpa using ha
  unfold startState
  simp [this]

/-- the reference on an always-anchored automaton: only start position 0 can match -/
theorem bt_anchored_head {N : NFA} (hh : anchoredHeadB N = true) (h : Bytes) :
    (btSearchAt N h 0).map (·.2) = Pike.btFirst N h 0 0 ∧ ∀ at_, 0 < at_ → btSearchAt N h at_ = none := by
  have hpos : ∀ at_, 0 < at_ → btSearchAt N h at_ = none := by
    intro at_ hat
    cases hbt : btSearchAt N h at_ with
    | none => rfl
    | some r =>
      obtain ⟨s, e⟩ := r
      obtain ⟨b1, _, _, b4⟩ := btSearchAt_sound N h at_ s e hbt
      exact absurd b4 (no_accept_after_start hh (by omega))
  refine ⟨?_, hpos⟩
  cases hbf : Pike.btFirst N h 0 0 with
  | none =>
    have hno := Pike.btFirst_complete (Nat.le_refl 0) (Nat.zero_le _) hbf
    cases hbt : btSearchAt N h 0 with
    | none => rfl
    | some r =>
      obtain ⟨s, e⟩ := r
      obtain ⟨_, _, _, b4⟩ := btSearchAt_sound N h 0 s e hbt
      by_cases hs : s = 0
      · subst hs; exact absurd ⟨e, b4⟩ hno
      · exact absurd b4 (no_accept_after_start hh (by omega))
  | some e =>
    unfold Pike.btFirst at hbf
    unfold btSearchAt
    have : h.size + 2 - 0 = (h.size + 1) + 1 := by omega
    rw [this, btSearchFrom]
    simp only [Nat.not_lt_zero, gt_iff_lt, ↓reduceIte, hbf, Option.map_some]

/-- (b) for always-anchored automata (no prefix; the start state is `\A`), look-around included -/
theorem searchAtU_eq_bt_anchored {N : NFA} (hnrB : noRuneB N = true) (hsdB : sparseDisjointB N = true)
    (hh : anchoredHeadB N = true) (cfg : Config) (hbrk : cfg.breakAtMatch = true) {h : Bytes} {at_ : Nat}
    (hat : at_ ≤ h.size) :
    searchAtU N cfg h at_ = .gaveUp ∨ searchAtU N cfg h at_ = .ok ((btSearchAt N h at_).map (·.2)) := by
  have ha : alwaysAnchored N = true := by
    unfold anchoredHeadB at hh
    simp only [Bool.and_eq_true] at hh
    exact hh.1
  obtain ⟨b0, bpos⟩ := bt_anchored_head hh h
  unfold searchAtU
  rw [if_neg (by omega)]
  by_cases hp : at_ > 0
  · rw [if_pos ⟨ha, hp⟩, bpos at_ hp]
    exact Or.inr rfl
  · have h0 : at_ = 0 := by omega
    subst h0
    rw [if_neg (by simp), startState_anchored_eq ha, b0]
    exact anchoredU_eq_bt hnrB hsdB cfg hbrk h hat

/-- (c) for always-anchored automata -/
theorem earliestU_eq_bt_anchored {N : NFA} (hnrB : noRuneB N = true) (hsdB : sparseDisjointB N = true)
    (hh : anchoredHeadB N = true) (cfg : Config) (hbrk : cfg.breakAtMatch = true) {h : Bytes} {at_ : Nat}
    (hat : at_ ≤ h.size) :
    earliestU N cfg h at_ = .gaveUp ∨ earliestU N cfg h at_ = .ok (btSearchAt N h at_).isSome := by
  have hnr := noRune_of_B hnrB
  have ha : alwaysAnchored N = true := by
    unfold anchoredHeadB at hh
    simp only [Bool.and_eq_true] at hh
    exact hh.1
  obtain ⟨b0, bpos⟩ := bt_anchored_head hh h
  unfold earliestU
  rw [if_neg (by omega)]
  by_cases hp : at_ > 0
  · rw [if_pos ⟨ha, hp⟩, bpos at_ hp]
    exact Or.inr rfl
  · have h0 : at_ = 0 := by omega
    subst h0
    rw [if_neg (by simp), startState_anchored_eq ha]
    have hU : earliestLoopU N cfg h (h.size + 1 - 0) 0 (startState N (kindAt h 0) true) =
        eU N cfg h 0 (startState N (kindAt h 0) true) := rfl
    rw [hU]
    obtain ⟨e1, e2⟩ := good_start (LkEq.refl N (lkReal h 0)) 0 N.startAnchored
    have hsi := si_start N h 0 true
    simp only [↓reduceIte] at hsi
    rcases eU_eq_R hnr cfg hbrk h 0 (h.size - 0) 0 _ _ rfl hat hsi (by rw [Lr_single]; exact e2) with hg | hok
    · exact Or.inl hg
    · right
      rw [hok, Lr_single, e1, Pike.R_eq_bt (sparseDisjoint_of_B hsdB) (Or.inl hnr) (Nat.le_refl _) hat, ← b0]
      cases btSearchAt N h 0 <;> rfl

end Cx.Dfa
