import Cx.Proofs.PikeBase
/-
  Cx.Proofs.PikeOrder — the ordered-thread simulation against the priority DFS (theorem (c)).
  Route: btFind = btX (the backtracker re-expressed through `expand`/`succs`) ~ F (level-organised DFS: finish the
  closure of a level, then dive thread by thread) = R (level-organised BFS: one generation per level, cut at the
  first match state) = loopA (the model's anchored loop).
-/
namespace Cx.Pike
open Cx Cx.Nfa

/-! ### closure: fuel is irrelevant once sufficient; stacks decompose -/

theorem closure_nil (N : NFA) (h : Bytes) (pos fuel : Nat) (vis : Vis) (out : List Thread) :
    closure N h pos fuel [] vis out = (vis, out) := by
  cases fuel <;> simp [closure]

theorem closure_fuel_irrel (N : NFA) (h : Bytes) (pos : Nat) : ∀ (f1 f2 : Nat) (stack : List Thread) (vis : Vis)
    (out : List Thread), 2 * vis.count false + stack.length ≤ f1 → 2 * vis.count false + stack.length ≤ f2 →
    closure N h pos f1 stack vis out = closure N h pos f2 stack vis out := by
  intro f1
  induction f1 with
  | zero =>
    intro f2 stack vis out h1 _
    have : stack = [] := by
      cases stack with
      | nil => rfl
      | cons a b => simp at h1
    subst this
    rw [closure_nil, closure_nil]
  | succ f1 ih =>
    intro f2 stack vis out h1 h2
    cases stack with
    | nil => rw [closure_nil, closure_nil]
    | cons fr st =>
      cases f2 with
      | zero => simp at h2
      | succ f2 =>
        rw [closure, closure]
        split
        · apply ih <;> (simp at h1 h2; omega)
        · rename_i hv
          have hv : vis.getD fr.state true = false := by simpa using hv
          have hcnt := count_set_lt hv
          have hlen := expand_len N h pos fr
          simp only []
          apply ih <;> (simp only [List.length_append, List.length_cons] at h1 h2 ⊢; omega)

theorem closure_count_le (N : NFA) (h : Bytes) (pos : Nat) : ∀ (fuel : Nat) (stack : List Thread) (vis : Vis)
    (out : List Thread), (closure N h pos fuel stack vis out).1.count false ≤ vis.count false := by
  intro fuel
  induction fuel with
  | zero => intro stack vis out; simp [closure]
  | succ fuel ih =>
    intro stack vis out
    cases stack with
    | nil => simp [closure]
    | cons fr st =>
      rw [closure]
      split
      · exact ih ..
      · rename_i hv
        have hv : vis.getD fr.state true = false := by simpa using hv
        have hcnt := count_set_lt hv
        simp only []
        have := ih ((expand N h pos fr).1 ++ st) (vis.setIfInBounds fr.state true)
          (if (expand N h pos fr).2 = true then out ++ [fr] else out)
        omega

theorem closure_stack_append (N : NFA) (h : Bytes) (pos : Nat) : ∀ (fuel : Nat) (s1 s2 : List Thread) (vis : Vis)
    (out : List Thread), 2 * vis.count false + (s1 ++ s2).length ≤ fuel →
    closure N h pos fuel (s1 ++ s2) vis out =
      closure N h pos fuel s2 (closure N h pos fuel s1 vis out).1 (closure N h pos fuel s1 vis out).2 := by
  intro fuel
  induction fuel with
  | zero =>
    intro s1 s2 vis out hf
    have : s1 = [] := by
      cases s1 with
      | nil => rfl
      | cons a b => simp at hf
    subst this
    simp [closure]
  | succ fuel ih =>
    intro s1 s2 vis out hf
    cases s1 with
    | nil => simp [closure_nil]
    | cons fr st =>
      simp only [List.cons_append]
      rw [closure, closure]
      split
      · rw [ih st s2 vis out (by simp at hf ⊢; omega)]
        apply closure_fuel_irrel
        · have := closure_count_le N h pos fuel st vis out
          simp at hf; omega
        · have := closure_count_le N h pos fuel st vis out
          simp at hf; omega
      · rename_i hv
        have hv : vis.getD fr.state true = false := by simpa using hv
        have hcnt := count_set_lt hv
        have hlen := expand_len N h pos fr
        simp only []
        rw [← List.append_assoc, ih _ s2 _ _ (by simp only [List.length_append, List.length_cons] at hf ⊢; omega)]
        apply closure_fuel_irrel
        · have := closure_count_le N h pos fuel ((expand N h pos fr).1 ++ st) (vis.setIfInBounds fr.state true)
            (if (expand N h pos fr).2 = true then out ++ [fr] else out)
          simp only [List.length_append, List.length_cons] at hf; omega
        · have := closure_count_le N h pos fuel ((expand N h pos fr).1 ++ st) (vis.setIfInBounds fr.state true)
            (if (expand N h pos fr).2 = true then out ++ [fr] else out)
          simp only [List.length_append, List.length_cons] at hf; omega

/-! ### the queue under construction is only appended to -/

theorem addThread_out (N : NFA) (h : Bytes) (pos : Nat) (t : Thread) (W : Vis) (o1 o2 : List Thread) :
    addThread N h pos t (W, o1 ++ o2) =
      ((addThread N h pos t (W, o2)).1, o1 ++ (addThread N h pos t (W, o2)).2) := by
  unfold addThread
  exact closure_append ..

theorem stepSparse_out (N : NFA) (h : Bytes) (pos b start : Nat) (ts : List (Nat × Nat × Nat)) :
    ∀ (W : Vis) (o1 o2 : List Thread), stepSparse N h pos b start ts (W, o1 ++ o2) =
      ((stepSparse N h pos b start ts (W, o2)).1, o1 ++ (stepSparse N h pos b start ts (W, o2)).2) := by
  induction ts with
  | nil => intro W o1 o2; rfl
  | cons a ts ih =>
    intro W o1 o2
    obtain ⟨lo, hi, nx⟩ := a
    simp only [stepSparse]
    split
    · rw [addThread_out, ih]
    · exact ih ..

theorem stepThread_out (N : NFA) (h : Bytes) (pos : Nat) (t : Thread) (W : Vis) (o1 o2 : List Thread) :
    stepThread N h pos t (W, o1 ++ o2) =
      ((stepThread N h pos t (W, o2)).1, o1 ++ (stepThread N h pos t (W, o2)).2) := by
  unfold stepThread
  cases hk : N.get t.state <;> simp only []
  · split
    · exact addThread_out ..
    · rfl
  · exact stepSparse_out ..
  · split
    · simp
    · split
      · split
        · exact addThread_out ..
        · rfl
      · rfl
  · split
    · simp
    · split
      · split
        · exact addThread_out ..
        · rfl
      · rfl

theorem stepAll_out (N : NFA) (h : Bytes) (pos : Nat) (Q : List Thread) : ∀ (W : Vis) (o1 o2 : List Thread),
    stepAll N h pos Q (W, o1 ++ o2) =
      ((stepAll N h pos Q (W, o2)).1, o1 ++ (stepAll N h pos Q (W, o2)).2) := by
  induction Q with
  | nil => intro W o1 o2; rfl
  | cons t ts ih =>
    intro W o1 o2
    simp only [stepAll]
    rw [stepThread_out, ih]

theorem stepAll_append (N : NFA) (h : Bytes) (pos : Nat) (A B : List Thread) (vq : Vis × List Thread) :
    stepAll N h pos (A ++ B) vq = stepAll N h pos B (stepAll N h pos A vq) := by
  induction A generalizing vq with
  | nil => rfl
  | cons a A ih => simp only [List.cons_append, stepAll]; exact ih _

/-- stepping `A ++ B` from an empty queue: `A`'s threads, then `B`'s threads computed from the marks `A` left -/
theorem stepAll_split (N : NFA) (h : Bytes) (pos : Nat) (A B : List Thread) (W : Vis) :
    stepAll N h pos (A ++ B) (W, []) =
      ((stepAll N h pos B ((stepAll N h pos A (W, [])).1, [])).1,
       (stepAll N h pos A (W, [])).2 ++ (stepAll N h pos B ((stepAll N h pos A (W, [])).1, [])).2) := by
  rw [stepAll_append]
  have := stepAll_out N h pos B (stepAll N h pos A (W, [])).1 (stepAll N h pos A (W, [])).2 []
  simpa using this

/-! ### the two level-organised searches -/

def beforeMatch (N : NFA) (Q : List Thread) : List Thread := Q.takeWhile (fun t => !isMatchState N t.state)

def matchAt (N : NFA) (p : Nat) (Q : List Thread) : Option Nat := if anyMatch N Q then some p else none

/-- breadth first: `Ms` holds the visited sets of the levels `p+1, p+2, …` (one per remaining input position) -/
def R (N : NFA) (h : Bytes) : List Vis → Nat → List Thread → Option Nat × List Vis
  | [], p, Q => (matchAt N p Q, [])
  | W :: Ms, p, Q =>
    ((R N h Ms (p+1) (stepAll N h p (beforeMatch N Q) (W, [])).2).1.or (matchAt N p Q),
     (stepAll N h p (beforeMatch N Q) (W, [])).1 :: (R N h Ms (p+1) (stepAll N h p (beforeMatch N Q) (W, [])).2).2)

def tryAll (d : Thread → List Vis → Option Nat × List Vis) : List Thread → List Vis → Option Nat × List Vis
  | [], Ms => (none, Ms)
  | t :: Q, Ms =>
    match d t Ms with
    | (some e, Ms') => (some e, Ms')
    | (none, Ms') => tryAll d Q Ms'

def dive (N : NFA) (h : Bytes) (rec : List Vis → List Thread → Option Nat × List Vis) (p : Nat) (t : Thread)
    (Ms : List Vis) : Option Nat × List Vis :=
  if isMatchState N t.state then (some p, Ms) else
  match Ms with
  | [] => (none, [])
  | W :: Ms' => ((rec Ms' (stepThread N h p t (W, [])).2).1, (stepThread N h p t (W, [])).1 :: (rec Ms' (stepThread N h p t (W, [])).2).2)

/-- depth first, level by level: try the threads of a level in order; each dives into the next level -/
def F (N : NFA) (h : Bytes) : Nat → Nat → List Vis → List Thread → Option Nat × List Vis
  | 0, _, Ms, _ => (none, Ms)
  | lv+1, p, Ms, Q => tryAll (dive N h (F N h lv (p+1)) p) Q Ms

theorem anyMatch_append (N : NFA) (A B : List Thread) : anyMatch N (A ++ B) = (anyMatch N A || anyMatch N B) := by
  simp [anyMatch]

theorem beforeMatch_append_of_match {N : NFA} {A : List Thread} (hA : anyMatch N A = true) (B : List Thread) :
    beforeMatch N (A ++ B) = beforeMatch N A := by
  induction A with
  | nil => simp [anyMatch] at hA
  | cons a A ih =>
    by_cases hm : isMatchState N a.state = true
    · simp [beforeMatch, List.takeWhile, hm]
    · have hm' : isMatchState N a.state = false := by simpa using hm
      have hA' : anyMatch N A = true := by simpa [anyMatch, hm'] using hA
      have := ih hA'
      simp only [beforeMatch] at this ⊢
      simp [List.takeWhile, hm', this]

theorem beforeMatch_append_of_none {N : NFA} {A : List Thread} (hA : anyMatch N A = false) (B : List Thread) :
    beforeMatch N (A ++ B) = A ++ beforeMatch N B := by
  induction A with
  | nil => rfl
  | cons a A ih =>
    have hm' : isMatchState N a.state = false := by
      cases hm : isMatchState N a.state with
      | false => rfl
      | true => simp [anyMatch, hm] at hA
    have hA' : anyMatch N A = false := by simpa [anyMatch, hm'] using hA
    have := ih hA'
    simp only [beforeMatch] at this ⊢
    simp [hm', this]

theorem R_nil (N : NFA) (h : Bytes) : ∀ (Ms : List Vis) (p : Nat), R N h Ms p [] = (none, Ms) := by
  intro Ms
  induction Ms with
  | nil => intro p; simp [R, matchAt, anyMatch]
  | cons W Ms ih =>
    intro p
    simp [R, beforeMatch, stepAll, ih, matchAt, anyMatch]

/-- the generation-wise search over `A ++ B`: `A`'s result if it has one, otherwise `B`'s over the marks `A` left -/
theorem R_append (N : NFA) (h : Bytes) : ∀ (Ms : List Vis) (p : Nat) (A B : List Thread),
    (R N h Ms p (A ++ B)).1 = (R N h Ms p A).1.or (R N h (R N h Ms p A).2 p B).1 ∧
    ((R N h Ms p A).1 = none → (R N h Ms p (A ++ B)).2 = (R N h (R N h Ms p A).2 p B).2) := by
  intro Ms
  induction Ms with
  | nil =>
    intro p A B
    simp only [R, matchAt, anyMatch_append]
    cases anyMatch N A <;> cases anyMatch N B <;> simp
  | cons W Ms ih =>
    intro p A B
    cases hA : anyMatch N A with
    | true =>
      have hne : (R N h (W :: Ms) p A).1 ≠ none := by
        simp only [R, matchAt, hA, ↓reduceIte]
        cases (R N h Ms (p + 1) (stepAll N h p (beforeMatch N A) (W, [])).2).1 <;> simp
      refine ⟨?_, fun hn => absurd hn hne⟩
      have h1 : (R N h (W :: Ms) p (A ++ B)).1 = (R N h (W :: Ms) p A).1 := by
        simp only [R, beforeMatch_append_of_match hA, matchAt, anyMatch_append, hA, Bool.true_or]
      rw [h1]
      cases hr : (R N h (W :: Ms) p A).1 with
      | none => exact absurd hr hne
      | some e => simp
    | false =>
      simp only [R, beforeMatch_append_of_none hA, matchAt, anyMatch_append, hA, Bool.false_or,
        Bool.false_eq_true, ↓reduceIte, Option.or_none]
      rw [stepAll_split]
      simp only []
      obtain ⟨i1, i2⟩ := ih (p+1) (stepAll N h p A (W, [])).2
        (stepAll N h p (beforeMatch N B) ((stepAll N h p A (W, [])).1, [])).2
      have hbA : beforeMatch N A = A := by
        have := beforeMatch_append_of_none hA []
        simpa [beforeMatch] using this
      rw [hbA]
      refine ⟨?_, ?_⟩
      · rw [i1, Option.or_assoc]
      · intro hn
        rw [i2 hn]

theorem R_length (N : NFA) (h : Bytes) : ∀ (Ms : List Vis) (p : Nat) (Q : List Thread),
    (R N h Ms p Q).2.length = Ms.length := by
  intro Ms
  induction Ms with
  | nil => intro p Q; simp [R]
  | cons W Ms ih => intro p Q; simp [R, ih]

theorem matchAt_cons_of_not {N : NFA} {t : Thread} (hm : isMatchState N t.state = false) (p : Nat) (Q : List Thread) :
    matchAt N p (t :: Q) = matchAt N p Q := by
  simp [matchAt, anyMatch, hm]

theorem matchAt_cons_of_match {N : NFA} {t : Thread} (hm : isMatchState N t.state = true) (p : Nat) (Q : List Thread) :
    matchAt N p (t :: Q) = some p := by
  simp [matchAt, anyMatch, hm]

theorem beforeMatch_cons_of_not {N : NFA} {t : Thread} (hm : isMatchState N t.state = false) (Q : List Thread) :
    beforeMatch N (t :: Q) = t :: beforeMatch N Q := by
  simp [beforeMatch, List.takeWhile, hm]

theorem beforeMatch_cons_of_match {N : NFA} {t : Thread} (hm : isMatchState N t.state = true) (Q : List Thread) :
    beforeMatch N (t :: Q) = [] := by
  simp [beforeMatch, List.takeWhile, hm]

/-- depth first = breadth first (ordered threads, cut at the first match state) -/
theorem F_eq_R (N : NFA) (h : Bytes) : ∀ (n : Nat) (Ms : List Vis), Ms.length = n → ∀ (Q : List Thread) (p : Nat),
    (F N h (n+1) p Ms Q).1 = (R N h Ms p Q).1 ∧
    ((F N h (n+1) p Ms Q).1 = none → (F N h (n+1) p Ms Q).2 = (R N h Ms p Q).2) := by
  intro n
  induction n with
  | zero =>
    intro Ms hlen Q p
    have : Ms = [] := List.eq_nil_of_length_eq_zero hlen
    subst this
    induction Q with
    | nil => simp [F, tryAll, R, matchAt, anyMatch]
    | cons t Q ihq =>
      by_cases hm : isMatchState N t.state = true
      · simp [F, tryAll, dive, hm, R, matchAt_cons_of_match hm]
      · have hm' : isMatchState N t.state = false := by simpa using hm
        have h1 : F N h 1 p [] (t :: Q) = F N h 1 p [] Q := by
          simp [F, tryAll, dive, hm']
        rw [h1]
        simp only [R, matchAt_cons_of_not hm'] at ihq ⊢
        exact ihq
  | succ n ih =>
    intro Ms hlen Q
    induction Q generalizing Ms with
    | nil =>
      intro p
      simp [F, tryAll, R_nil]
    | cons t Q ihq =>
      intro p
      cases Ms with
      | nil => simp at hlen
      | cons W Ms' =>
        have hlen' : Ms'.length = n := by simpa using hlen
        by_cases hm : isMatchState N t.state = true
        · refine ⟨?_, ?_⟩
          · simp [F, tryAll, dive, hm, R, beforeMatch_cons_of_match hm, stepAll, R_nil, matchAt_cons_of_match hm]
          · simp [F, tryAll, dive, hm]
        · have hm' : isMatchState N t.state = false := by simpa using hm
          obtain ⟨o1, o2⟩ := ih Ms' hlen' (stepThread N h p t (W, [])).2 (p+1)
          -- the generation-wise side
          have hsplit : stepAll N h p (t :: beforeMatch N Q) (W, []) =
              ((stepAll N h p (beforeMatch N Q) ((stepThread N h p t (W, [])).1, [])).1,
               (stepThread N h p t (W, [])).2 ++
                 (stepAll N h p (beforeMatch N Q) ((stepThread N h p t (W, [])).1, [])).2) :=
            stepAll_split N h p [t] (beforeMatch N Q) W
          obtain ⟨a1, a2⟩ := R_append N h Ms' (p+1) (stepThread N h p t (W, [])).2
            (stepAll N h p (beforeMatch N Q) ((stepThread N h p t (W, [])).1, [])).2
          have hR1 : (R N h (W :: Ms') p (t :: Q)).1 =
              ((R N h Ms' (p+1) (stepThread N h p t (W, [])).2).1.or
                (R N h (R N h Ms' (p+1) (stepThread N h p t (W, [])).2).2 (p+1)
                  (stepAll N h p (beforeMatch N Q) ((stepThread N h p t (W, [])).1, [])).2).1).or
              (matchAt N p Q) := by
            simp only [R, beforeMatch_cons_of_not hm', matchAt_cons_of_not hm']
            rw [hsplit]
            simp only []
            rw [a1]
          cases hr : (F N h (n+1) (p+1) Ms' (stepThread N h p t (W, [])).2).1 with
          | some e =>
            have hF : (F N h (n+2) p (W :: Ms') (t :: Q)).1 = some e := by
              simp only [F, tryAll, dive, hm', Bool.false_eq_true, ↓reduceIte]
              simp only [F] at hr
              rw [hr]
            rw [hF, hR1, ← o1, hr]
            simp
          | none =>
            have hMs : (F N h (n+1) (p+1) Ms' (stepThread N h p t (W, [])).2).2 =
                (R N h Ms' (p+1) (stepThread N h p t (W, [])).2).2 := o2 hr
            have hRn : (R N h Ms' (p+1) (stepThread N h p t (W, [])).2).1 = none := by rw [← o1, hr]
            have hF : F N h (n+2) p (W :: Ms') (t :: Q) =
                F N h (n+2) p ((stepThread N h p t (W, [])).1 ::
                  (R N h Ms' (p+1) (stepThread N h p t (W, [])).2).2) Q := by
              simp only [F, tryAll, dive, hm', Bool.false_eq_true, ↓reduceIte]
              simp only [F] at hr hMs
              rw [hr, hMs]
            rw [hF]
            obtain ⟨q1, q2⟩ := ihq ((stepThread N h p t (W, [])).1 ::
              (R N h Ms' (p+1) (stepThread N h p t (W, [])).2).2) (by simp [R_length, hlen']) p
            refine ⟨?_, ?_⟩
            · rw [q1, hR1, hRn]
              simp [R]
            · intro hn
              rw [q2 hn]
              simp only [R, beforeMatch_cons_of_not hm']
              rw [hsplit]
              simp only []
              rw [a2 hRn]

/-! ### the model's anchored loop is the generation-wise search -/

def updLast (last : Option Nat) (pos : Nat) : Option Nat :=
  match last with
  | none => some pos
  | some l => if pos > l then some pos else some l

theorem stepQueueA_first (N : NFA) (h : Bytes) (pos : Nat) (Q : List Thread) : ∀ last vq,
    stepQueueA N h false pos Q last vq =
      (if anyMatch N Q then updLast last pos else last, stepAll N h pos (beforeMatch N Q) vq) := by
  induction Q with
  | nil => intro last vq; simp [stepQueueA, anyMatch, beforeMatch, stepAll]
  | cons t ts ih =>
    intro last vq
    by_cases hm : isMatchState N t.state = true
    · simp only [stepQueueA, hm, ↓reduceIte, Bool.not_false, anyMatch, List.any_cons, Bool.true_or,
        beforeMatch_cons_of_match hm, stepAll]
      cases last <;> simp [updLast]
    · have hm' : isMatchState N t.state = false := by simpa using hm
      simp only [stepQueueA, hm', Bool.false_eq_true, ↓reduceIte, beforeMatch_cons_of_not hm', stepAll]
      rw [ih]
      simp [anyMatch, hm']

theorem endQueueA_eq (N : NFA) (pos : Nat) (Q : List Thread) : ∀ last,
    endQueueA N pos Q last = if anyMatch N Q then updLast last pos else last := by
  induction Q with
  | nil => intro last; simp [endQueueA, anyMatch]
  | cons t ts ih =>
    intro last
    by_cases hm : isMatchState N t.state = true
    · simp only [endQueueA, hm, ↓reduceIte, anyMatch, List.any_cons, Bool.true_or]
      cases last <;> simp [updLast]
    · have hm' : isMatchState N t.state = false := by simpa using hm
      simp only [endQueueA, hm', Bool.false_eq_true, ↓reduceIte]
      rw [ih]
      simp [anyMatch, hm']

theorem updLast_lt {last : Option Nat} {pos : Nat} (hl : ∀ l, last = some l → l < pos) : updLast last pos = some pos := by
  cases last with
  | none => rfl
  | some l => have := hl l rfl; simp [updLast, this]

theorem loopA_eq_R (N : NFA) (h : Bytes) : ∀ (fuel pos : Nat) (Q : List Thread) (last : Option Nat),
    fuel = h.size + 1 - pos → pos ≤ h.size → (∀ l, last = some l → l < pos) →
    loopA N h false fuel pos Q last = (R N h (List.replicate (h.size - pos) (clearVis N)) pos Q).1.or last := by
  intro fuel
  induction fuel with
  | zero => intro pos Q last hf hp; omega
  | succ fuel ih =>
    intro pos Q last hf hp hl
    rw [loopA]
    by_cases hlt : pos < h.size
    · rw [if_pos hlt]
      have hrep : List.replicate (h.size - pos) (clearVis N) =
          clearVis N :: List.replicate (h.size - (pos+1)) (clearVis N) := by
        have : h.size - pos = (h.size - (pos+1)) + 1 := by omega
        rw [this, List.replicate_succ]
      rw [hrep, stepQueueA_first]
      simp only [R]
      have hlast' : (if anyMatch N Q = true then updLast last pos else last) = (matchAt N pos Q).or last := by
        unfold matchAt
        split
        · rw [updLast_lt hl]; simp
        · simp
      rw [hlast']
      have hl' : ∀ l, (matchAt N pos Q).or last = some l → l < pos + 1 := by
        intro l hh
        unfold matchAt at hh
        split at hh
        · simp at hh; omega
        · simp at hh; have := hl l hh; omega
      have hih := ih (pos+1) (stepAll N h pos (beforeMatch N Q) (clearVis N, [])).2 ((matchAt N pos Q).or last)
        (by omega) (by omega) hl'
      split
      · rename_i hc
        have hnil : (stepAll N h pos (beforeMatch N Q) (clearVis N, [])).2 = [] := by
          have := hc.1
          simpa using this
        rw [hnil, R_nil]
        simp
      · rw [hih, Option.or_assoc]
    · rw [if_neg hlt]
      have hpe : h.size - pos = 0 := by omega
      rw [hpe, endQueueA_eq]
      simp only [List.replicate_zero, R]
      unfold matchAt
      split
      · rw [updLast_lt hl]; simp
      · simp

/-! ### the backtracker, re-expressed through `expand` and `succs` -/

def btTry (f : Nat → Array Bool → Option Nat × Array Bool) : List Nat → Array Bool → Option Nat × Array Bool
  | [], vis => (none, vis)
  | x :: xs, vis =>
    match f x vis with
    | (some e, v) => (some e, v)
    | (none, v) => btTry f xs v

def btX (c : BTCtx) : Nat → Nat → Nat → Array Bool → Option Nat × Array Bool
  | 0, _, _, vis => (none, vis)
  | fuel+1, pos, q, vis =>
    if q ≥ c.N.states.size then (none, vis) else
    if vis.getD (c.idx q pos) true then (none, vis) else
    if isMatchState c.N q then (some pos, vis.setIfInBounds (c.idx q pos) true) else
    if (expand c.N c.h pos ⟨q, 0⟩).2 then
      (if pos < c.h.size then
        btTry (btX c fuel (pos+1)) (succs c.N c.h pos q) (vis.setIfInBounds (c.idx q pos) true)
       else (none, vis.setIfInBounds (c.idx q pos) true))
    else btTry (btX c fuel pos) ((expand c.N c.h pos ⟨q, 0⟩).1.map (·.state)) (vis.setIfInBounds (c.idx q pos) true)

theorem btTry_single (f : Nat → Array Bool → Option Nat × Array Bool) (x : Nat) (vis : Array Bool) :
    btTry f [x] vis = f x vis := by
  simp only [btTry]
  cases hf : f x vis with
  | mk r v => cases r <;> rfl

theorem sparseSuccs_of_disjoint {ts : List (Nat × Nat × Nat)}
    (hd : ts.Pairwise (fun a b => a.2.1 < b.1 ∨ b.2.1 < a.1)) (b : Nat) :
    sparseSuccs b ts = (firstTrans b ts).toList := by
  induction ts with
  | nil => rfl
  | cons a ts ih =>
    obtain ⟨lo, hi, nx⟩ := a
    have hd' := List.pairwise_cons.mp hd
    simp only [sparseSuccs, firstTrans]
    split
    · rename_i hc
      have hnone : sparseSuccs b ts = [] := by
        cases hs : sparseSuccs b ts with
        | nil => rfl
        | cons y ys =>
          exfalso
          have hy : y ∈ sparseSuccs b ts := by rw [hs]; exact List.mem_cons_self
          obtain ⟨l2, h2, m2, c1, c2⟩ := mem_sparseSuccs.mp hy
          have := hd'.1 _ m2
          simp only at this
          omega
      rw [hnone]; rfl
    · exact ih hd'.2

theorem btFind_eq_btX (c : BTCtx) (hd : SparseDisjoint c.N) (hR : RuneOK c.N c.h) :
    ∀ (fuel pos q : Nat) (vis : Array Bool), btFind c fuel pos q vis = btX c fuel pos q vis := by
  intro fuel
  induction fuel with
  | zero => intro pos q vis; rfl
  | succ fuel ih =>
    intro pos q vis
    rw [btFind, btX]
    split
    · rfl
    · split
      · rfl
      · simp only []
        cases hk : c.N.get q <;> simp only [isMatchState, hk, expand, succs, Bool.false_eq_true, ↓reduceIte,
          List.map_cons, List.map_nil]
        · -- byteRange
          rename_i lo hi nx
          by_cases hp : pos < c.h.size
          · rw [if_pos hp]
            by_cases hc : lo ≤ c.h.at pos ∧ c.h.at pos ≤ hi
            · rw [if_pos ⟨hp, hc⟩, if_pos hc, btTry_single, ih]
            · rw [if_neg (fun hh => hc hh.2), if_neg hc]; rfl
          · rw [if_neg hp, if_neg (fun hh => hp hh.1)]
        · -- sparse
          rename_i ts
          by_cases hp : pos < c.h.size
          · rw [if_neg (by omega), if_pos hp, sparseSuccs_of_disjoint (hd q ts hk)]
            cases hf : firstTrans (c.h.at pos) ts with
            | none => rfl
            | some nx => simp only [Option.toList]; rw [btTry_single, ih]
          · rw [if_pos (by omega), if_neg hp]
        · -- split
          rename_i l r
          simp only [btTry]
          rw [ih]
          cases h1 : btX c fuel pos l (vis.setIfInBounds (c.idx q pos) true) with
          | mk r1 v1 =>
            cases r1 with
            | some e => rfl
            | none =>
              simp only []
              rw [ih]
              cases h2 : btX c fuel pos r v1 with
              | mk r2 v2 => cases r2 <;> rfl
        · rw [btTry_single, ih]
        · rw [btTry_single, ih]
        · rfl
        · -- look
          split
          · simp only [List.map_cons, List.map_nil]; rw [btTry_single, ih]
          · rfl
        · -- runeAny
          rename_i nx
          rcases hR with hn | ha
          · exact absurd hk (hn _ _).1
          · by_cases hp : pos < c.h.size
            · have hw := ascii_runeWidth ha hp
              rw [if_pos ⟨hp, by omega⟩, if_pos hp, btTry_single, ih, hw]
            · rw [if_neg (fun hh => hp hh.1), if_neg hp]
        · -- runeAnyNotNL
          rename_i nx
          rcases hR with hn | ha
          · exact absurd hk (hn _ _).2
          · by_cases hp : pos < c.h.size
            · have hw := ascii_runeWidth ha hp
              rw [if_pos hp]
              by_cases h10 : c.h.at pos = 10
              · rw [if_neg (fun hh => hh.2.1 h10)]
                simp [h10, btTry]
              · rw [if_pos ⟨hp, h10, by omega⟩, if_pos h10, btTry_single, ih, hw]
            · rw [if_neg (fun hh => hp hh.1), if_neg hp]

/-! ### helper facts about `F`, `expand`, `addAll` -/

theorem tryAll_length {d : Thread → List Vis → Option Nat × List Vis}
    (hd : ∀ t Ms, (d t Ms).2.length = Ms.length) : ∀ (Q : List Thread) (Ms : List Vis),
    (tryAll d Q Ms).2.length = Ms.length := by
  intro Q
  induction Q with
  | nil => intro Ms; rfl
  | cons t Q ih =>
    intro Ms
    simp only [tryAll]
    have := hd t Ms
    cases hdt : d t Ms with
    | mk r M =>
      rw [hdt] at this
      cases r with
      | some e => exact this
      | none => simp only []; rw [ih M]; exact this

theorem F_length (N : NFA) (h : Bytes) : ∀ (lv p : Nat) (Ms : List Vis) (Q : List Thread),
    (F N h lv p Ms Q).2.length = Ms.length := by
  intro lv
  induction lv with
  | zero => intro p Ms Q; rfl
  | succ lv ih =>
    intro p Ms Q
    simp only [F]
    apply tryAll_length
    intro t Ms
    unfold dive
    split
    · rfl
    · cases Ms with
      | nil => rfl
      | cons W Ms' => simp [ih]

theorem tryAll_append (d : Thread → List Vis → Option Nat × List Vis) (A B : List Thread) : ∀ (Ms : List Vis),
    tryAll d (A ++ B) Ms =
      match tryAll d A Ms with
      | (some e, M) => (some e, M)
      | (none, M) => tryAll d B M := by
  induction A with
  | nil => intro Ms; rfl
  | cons a A ih =>
    intro Ms
    simp only [List.cons_append, tryAll]
    cases hd : d a Ms with
    | mk r M =>
      cases r with
      | some e => rfl
      | none => exact ih M

theorem F_append (N : NFA) (h : Bytes) (lv p : Nat) (Ms : List Vis) (A B : List Thread) :
    F N h (lv+1) p Ms (A ++ B) =
      match F N h (lv+1) p Ms A with
      | (some e, M) => (some e, M)
      | (none, M) => F N h (lv+1) p M B := by
  simp only [F]
  exact tryAll_append ..

theorem expand_terminal_nil {N : NFA} {h : Bytes} {pos : Nat} {fr : Thread} (he : (expand N h pos fr).2 = true) :
    (expand N h pos fr).1 = [] := by
  unfold expand at he ⊢
  cases hk : N.get fr.state <;> simp only [hk] at he ⊢ <;> simp at he

theorem expand_start (N : NFA) (h : Bytes) (pos q s : Nat) :
    (expand N h pos ⟨q, s⟩).1 = ((expand N h pos ⟨q, 0⟩).1.map (·.state)).map (fun x => (⟨x, s⟩ : Thread)) ∧
    (expand N h pos ⟨q, s⟩).2 = (expand N h pos ⟨q, 0⟩).2 := by
  unfold expand
  cases hk : N.get q <;> simp
  split <;> simp

theorem addAll_eq_closure (N : NFA) (h : Bytes) (pos s : Nat) : ∀ (L : List Nat) (W : Vis) (out : List Thread) (fc : Nat),
    2 * W.count false + L.length ≤ fc → W.count false ≤ N.states.size →
    addAll N h pos s L (W, out) = closure N h pos fc (L.map (fun x => (⟨x, s⟩ : Thread))) W out := by
  intro L
  induction L with
  | nil => intro W out fc _ _; simp [addAll, closure_nil]
  | cons x xs ih =>
    intro W out fc hfc hn
    have hunf : addAll N h pos s (x :: xs) (W, out) = addAll N h pos s xs (addThread N h pos ⟨x, s⟩ (W, out)) := rfl
    rw [hunf]
    have h1 : addThread N h pos ⟨x, s⟩ (W, out) = closure N h pos fc [⟨x, s⟩] W out := by
      unfold addThread
      apply closure_fuel_irrel
      · simp only [closureFuel, List.length_cons, List.length_nil]; omega
      · simp only [List.length_cons, List.length_nil] at hfc ⊢; omega
    rw [h1]
    have hc := closure_count_le N h pos fc [⟨x, s⟩] W out
    have := ih (closure N h pos fc [⟨x, s⟩] W out).1 (closure N h pos fc [⟨x, s⟩] W out).2 fc
      (by simp only [List.length_cons] at hfc; omega) (by omega)
    rw [this]
    have hs := closure_stack_append N h pos fc [⟨x, s⟩] (xs.map (fun x => (⟨x, s⟩ : Thread))) W out
      (by simp only [List.length_append, List.length_cons, List.length_nil, List.length_map] at hfc ⊢; omega)
    simp only [List.map_cons]
    exact hs.symm

/-! ### relating the backtracker's flat visited array to per-level visited sets -/

/-- `Ms[k]` is the slice of `V` for input position `p + k` -/
def Rel (c : BTCtx) (V : Array Bool) (p : Nat) (Ms : List Vis) : Prop :=
  ∀ k W, Ms[k]? = some W →
    W.size = c.N.states.size ∧ ∀ q, q < c.N.states.size → V.getD (c.idx q (p + k)) true = W.getD q true

/-- entries for positions before `p` are untouched -/
def Frame (c : BTCtx) (V V' : Array Bool) (p : Nat) : Prop :=
  ∀ q' p', c.spanStart ≤ p' → p' < p → q' < c.N.states.size →
    V'.getD (c.idx q' p') true = V.getD (c.idx q' p') true

theorem Frame.refl (c : BTCtx) (V : Array Bool) (p : Nat) : Frame c V V p := fun _ _ _ _ _ => rfl

theorem Frame.trans {c : BTCtx} {V1 V2 V3 : Array Bool} {p : Nat} (h1 : Frame c V1 V2 p) (h2 : Frame c V2 V3 p) :
    Frame c V1 V3 p := fun q' p' a b d => (h2 q' p' a b d).trans (h1 q' p' a b d)

theorem Frame.weaken {c : BTCtx} {V1 V2 : Array Bool} {p p2 : Nat} (h1 : Frame c V1 V2 p) (hle : p2 ≤ p) :
    Frame c V1 V2 p2 := fun q' p' a b d => h1 q' p' a (by omega) d

theorem Rel.tail {c : BTCtx} {V : Array Bool} {p : Nat} {W : Vis} {Ms : List Vis} (hr : Rel c V p (W :: Ms)) :
    Rel c V (p+1) Ms := by
  intro k W' hk
  have := hr (k+1) W' (by simpa using hk)
  have he : p + (k + 1) = p + 1 + k := by omega
  rw [he] at this
  exact this

theorem Rel.head {c : BTCtx} {V : Array Bool} {p : Nat} {W : Vis} {Ms : List Vis} (hr : Rel c V p (W :: Ms)) :
    W.size = c.N.states.size ∧ ∀ q, q < c.N.states.size → V.getD (c.idx q p) true = W.getD q true := by
  have := hr 0 W (by simp)
  simpa using this

theorem Rel.cons {c : BTCtx} {V : Array Bool} {p : Nat} {W : Vis} {Ms : List Vis}
    (h0 : W.size = c.N.states.size ∧ ∀ q, q < c.N.states.size → V.getD (c.idx q p) true = W.getD q true)
    (hr : Rel c V (p+1) Ms) : Rel c V p (W :: Ms) := by
  intro k W' hk
  cases k with
  | zero =>
    simp only [List.getElem?_cons_zero, Option.some.injEq] at hk
    subst hk
    simpa using h0
  | succ k =>
    have := hr k W' (by simpa using hk)
    have he : p + 1 + k = p + (k + 1) := by omega
    rw [he] at this
    exact this

/-- marking `(q,p)` in the flat array is marking `q` in the slice of position `p` -/
theorem Rel.mark {c : BTCtx} {V : Array Bool} {p q : Nat} {W : Vis} {Ms : List Vis} (hr : Rel c V p (W :: Ms))
    (hq : q < c.N.states.size) (hsp : c.spanStart ≤ p) (hv : V.getD (c.idx q p) true = false) :
    Rel c (V.setIfInBounds (c.idx q p) true) p (W.setIfInBounds q true :: Ms) := by
  have hW : W.getD q true = false := by rw [← hr.head.2 q hq]; exact hv
  apply Rel.cons
  · refine ⟨by simpa using hr.head.1, ?_⟩
    intro q' hq'
    by_cases he : q' = q
    · subst he
      rw [getD_set_self hv, getD_set_self hW]
    · have hne : c.idx q p ≠ c.idx q' p := fun hh => he (idx_inj c hq hq' hsp hsp hh).1.symm
      rw [getD_set_other hne, getD_set_other (Ne.symm he)]
      exact hr.head.2 q' hq'
  · intro k W' hk
    obtain ⟨a1, a2⟩ := hr.tail k W' hk
    refine ⟨a1, ?_⟩
    intro q' hq'
    have hne : c.idx q p ≠ c.idx q' (p + 1 + k) := by
      intro hh
      have := (idx_inj c hq hq' hsp (by omega) hh).2
      omega
    rw [getD_set_other hne]
    exact a2 q' hq'

theorem Frame.mark (c : BTCtx) (V : Array Bool) {p q : Nat} (hq : q < c.N.states.size) (hsp : c.spanStart ≤ p) :
    Frame c V (V.setIfInBounds (c.idx q p) true) p := by
  intro q' p' a b d
  have hne : c.idx q p ≠ c.idx q' p' := by
    intro hh
    have := (idx_inj c hq d hsp a hh).2
    omega
  rw [getD_set_other hne]

/-! ### the backtracker against the level-organised depth-first search -/

/-- outcome relation: same answer; after a failing exploration the visited sets agree, level by level -/
def Agree (c : BTCtx) (V : Array Bool) (p : Nat) (b : Option Nat × Array Bool) (W' : Vis)
    (f : Option Nat × List Vis) : Prop :=
  b.1 = f.1 ∧ (b.1 = none → Rel c b.2 p (W' :: f.2) ∧ b.2.count false ≤ V.count false ∧ Frame c V b.2 p)

def S1 (c : BTCtx) (fuel : Nat) : Prop :=
  ∀ (p q s : Nat) (V : Array Bool) (W : Vis) (Ms : List Vis) (fc : Nat),
    c.spanStart ≤ p → p + Ms.length = c.h.size → Rel c V p (W :: Ms) → V.count false < fuel →
    2 * W.count false + 1 ≤ fc →
    Agree c V p (btX c fuel p q V) (closure c.N c.h p fc [⟨q, s⟩] W []).1
      (F c.N c.h (Ms.length + 1) p Ms (closure c.N c.h p fc [⟨q, s⟩] W []).2)

def S2 (c : BTCtx) (fuel : Nat) : Prop :=
  ∀ (p : Nat) (L : List Nat) (s : Nat) (V : Array Bool) (W : Vis) (Ms : List Vis) (fc : Nat),
    c.spanStart ≤ p → p + Ms.length = c.h.size → Rel c V p (W :: Ms) → V.count false < fuel →
    2 * W.count false + L.length ≤ fc →
    Agree c V p (btTry (btX c fuel p) L V) (closure c.N c.h p fc (L.map (fun x => (⟨x, s⟩ : Thread))) W []).1
      (F c.N c.h (Ms.length + 1) p Ms (closure c.N c.h p fc (L.map (fun x => (⟨x, s⟩ : Thread))) W []).2)

theorem S2_of_S1 {c : BTCtx} {fuel : Nat} (h1 : S1 c fuel) : S2 c fuel := by
  intro p L
  induction L with
  | nil =>
    intro s V W Ms fc _ _ hrel _ _
    simp only [List.map_nil, closure_nil, btTry, F, tryAll]
    exact ⟨rfl, fun _ => ⟨hrel, Nat.le_refl _, Frame.refl c V p⟩⟩
  | cons x xs ih =>
    intro s V W Ms fc hsp hlen hrel hcnt hfc
    simp only [List.length_cons] at hfc
    have hsplit := closure_stack_append c.N c.h p fc [⟨x, s⟩] (xs.map (fun x => (⟨x, s⟩ : Thread))) W []
      (by simp only [List.length_append, List.length_cons, List.length_nil, List.length_map]; omega)
    have hout := closure_append c.N c.h p fc (xs.map (fun x => (⟨x, s⟩ : Thread)))
      (closure c.N c.h p fc [⟨x, s⟩] W []).1 (closure c.N c.h p fc [⟨x, s⟩] W []).2 []
    simp only [List.append_nil] at hout
    have hcl : closure c.N c.h p fc ((x :: xs).map (fun x => (⟨x, s⟩ : Thread))) W [] =
        ((closure c.N c.h p fc (xs.map (fun x => (⟨x, s⟩ : Thread))) (closure c.N c.h p fc [⟨x, s⟩] W []).1 []).1,
         (closure c.N c.h p fc [⟨x, s⟩] W []).2 ++
          (closure c.N c.h p fc (xs.map (fun x => (⟨x, s⟩ : Thread))) (closure c.N c.h p fc [⟨x, s⟩] W []).1 []).2) := by
      rw [← hout, ← hsplit]; rfl
    rw [hcl]
    simp only []
    rw [F_append]
    obtain ⟨a1, a2⟩ := h1 p x s V W Ms fc hsp hlen hrel hcnt (by omega)
    simp only [btTry]
    cases hb : btX c fuel p x V with
    | mk r1 V1 =>
      rw [hb] at a1 a2
      simp only at a1 a2
      cases r1 with
      | some e =>
        simp only []
        cases hf : F c.N c.h (Ms.length + 1) p Ms (closure c.N c.h p fc [⟨x, s⟩] W []).2 with
        | mk rf Mf =>
          rw [hf] at a1
          simp only at a1
          subst a1
          exact ⟨rfl, fun hn => nomatch hn⟩
      | none =>
        simp only []
        obtain ⟨b1, b2, b3⟩ := a2 rfl
        cases hf : F c.N c.h (Ms.length + 1) p Ms (closure c.N c.h p fc [⟨x, s⟩] W []).2 with
        | mk rf Mf =>
          rw [hf] at a1 b1
          simp only at a1 b1
          subst a1
          simp only []
          have hMf : Mf.length = Ms.length := by
            have := F_length c.N c.h (Ms.length + 1) p Ms (closure c.N c.h p fc [⟨x, s⟩] W []).2
            rw [hf] at this; exact this
          have hcc := closure_count_le c.N c.h p fc [⟨x, s⟩] W []
          obtain ⟨d1, d2⟩ := ih s V1 (closure c.N c.h p fc [⟨x, s⟩] W []).1 Mf fc hsp (by omega) b1 (by omega)
            (by omega)
          rw [hMf] at d1 d2
          refine ⟨d1, ?_⟩
          intro hn
          obtain ⟨e1, e2, e3⟩ := d2 hn
          exact ⟨e1, by omega, b3.trans e3⟩

theorem S1_succ {c : BTCtx} (hR : RuneOK c.N c.h) {fuel : Nat} (h2 : S2 c fuel) : S1 c (fuel+1) := by
  intro p q s V W Ms fc hsp hlen hrel hcnt hfc
  obtain ⟨fc, rfl⟩ : ∃ k, fc = k + 1 := ⟨fc - 1, by omega⟩
  obtain ⟨hWsz, hWrel⟩ := hrel.head
  rw [btX, closure]
  by_cases hq : q ≥ c.N.states.size
  · -- state id out of range: dropped on both sides
    rw [if_pos hq]
    have hWq : W.getD q true = true := by
      simp [Array.getD_eq_getD_getElem?, Array.getElem?_eq_none (by omega : W.size ≤ q)]
    simp only [hWq, ↓reduceIte, closure_nil, F, tryAll]
    exact ⟨rfl, fun _ => ⟨hrel, Nat.le_refl _, Frame.refl c V p⟩⟩
  · rw [if_neg hq]
    have hq' : q < c.N.states.size := by omega
    by_cases hv : V.getD (c.idx q p) true = true
    · rw [if_pos hv]
      have hWq : W.getD q true = true := by rw [← hWrel q hq']; exact hv
      simp only [hWq, ↓reduceIte, closure_nil, F, tryAll]
      exact ⟨rfl, fun _ => ⟨hrel, Nat.le_refl _, Frame.refl c V p⟩⟩
    · rw [if_neg hv]
      have hv' : V.getD (c.idx q p) true = false := by simpa using hv
      have hWq : W.getD q true = false := by rw [← hWrel q hq']; exact hv'
      have hWq' : ¬ (W.getD q true = true) := by simp [hWq]
      rw [if_neg hWq']
      simp only []
      have hrel0 := hrel.mark hq' hsp hv'
      have hcntV := count_set_lt hv'
      have hcntW := count_set_lt hWq
      have hframe0 := Frame.mark c V hq' hsp
      obtain ⟨hes, het⟩ := expand_start c.N c.h p q s
      by_cases hm : isMatchState c.N q = true
      · -- match state
        rw [if_pos hm]
        have hterm : (expand c.N c.h p ⟨q, s⟩).2 = true :=
          (expand_emit c.N c.h p ⟨q, s⟩).mpr (by simp [Terminal, (isMatchState_iff c.N q).mp hm])
        rw [expand_terminal_nil hterm, hterm]
        simp only [↓reduceIte, List.nil_append, closure_nil, F, tryAll, dive, hm]
        exact ⟨rfl, fun hn => nomatch hn⟩
      · rw [if_neg hm]
        have hm' : isMatchState c.N q = false := by simpa using hm
        by_cases ht : (expand c.N c.h p ⟨q, 0⟩).2 = true
        · -- consuming state
          rw [if_pos ht]
          have hterm : (expand c.N c.h p ⟨q, s⟩).2 = true := by rw [het]; exact ht
          rw [expand_terminal_nil hterm, hterm]
          simp only [↓reduceIte, List.nil_append, closure_nil]
          cases Ms with
          | nil =>
            have hpe : ¬ (p < c.h.size) := by simp at hlen; omega
            rw [if_neg hpe]
            simp only [F, tryAll, dive, hm', Bool.false_eq_true, ↓reduceIte]
            exact ⟨rfl, fun _ => ⟨hrel0, (by show (V.setIfInBounds (c.idx q p) true).count false ≤ V.count false; omega), hframe0⟩⟩
          | cons W1 Ms' =>
            have hpl : p < c.h.size := by simp at hlen; omega
            rw [if_pos hpl]
            have hW1 := (hrel.tail).head
            have hW1cnt : W1.count false ≤ c.N.states.size := by
              have := Array.count_le_size (a := false) (xs := W1)
              rw [hW1.1] at this; exact this
            have hstep : stepThread c.N c.h p ⟨q, s⟩ (W1, []) =
                closure c.N c.h (p+1) (2 * W1.count false + (succs c.N c.h p q).length)
                  ((succs c.N c.h p q).map (fun x => (⟨x, s⟩ : Thread))) W1 [] := by
              rw [stepThread_eq hR hpl]
              exact addAll_eq_closure c.N c.h (p+1) s _ W1 [] _ (Nat.le_refl _) hW1cnt
            obtain ⟨a1, a2⟩ := h2 (p+1) (succs c.N c.h p q) s (V.setIfInBounds (c.idx q p) true) W1 Ms'
              (2 * W1.count false + (succs c.N c.h p q).length) (by omega) (by simp at hlen ⊢; omega)
              hrel0.tail (by omega) (Nat.le_refl _)
            rw [← hstep] at a1 a2
            have hF : F c.N c.h ((W1 :: Ms').length + 1) p (W1 :: Ms') [⟨q, s⟩] =
                ((F c.N c.h (Ms'.length + 1) (p+1) Ms' (stepThread c.N c.h p ⟨q, s⟩ (W1, [])).2).1,
                 (stepThread c.N c.h p ⟨q, s⟩ (W1, [])).1 ::
                  (F c.N c.h (Ms'.length + 1) (p+1) Ms' (stepThread c.N c.h p ⟨q, s⟩ (W1, [])).2).2) := by
              simp only [List.length_cons, F, tryAll, dive, hm', Bool.false_eq_true, ↓reduceIte]
              cases (tryAll (dive c.N c.h (F c.N c.h Ms'.length (p + 1 + 1)) (p + 1))
                (stepThread c.N c.h p ⟨q, s⟩ (W1, [])).2 Ms').1 <;> rfl
            rw [hF]
            refine ⟨a1, ?_⟩
            intro hn
            obtain ⟨b1, b2, b3⟩ := a2 hn
            refine ⟨?_, by omega, hframe0.trans (b3.weaken (by omega))⟩
            apply Rel.cons
            · refine ⟨hrel0.head.1, ?_⟩
              intro q2 hq2
              rw [b3 q2 p hsp (by omega) hq2]
              exact hrel0.head.2 q2 hq2
            · exact b1
        · -- epsilon-like state: its successors are pushed
          rw [if_neg ht]
          have hnt : ¬ ((expand c.N c.h p ⟨q, s⟩).2 = true) := by rw [het]; exact ht
          rw [if_neg hnt, hes]
          simp only [List.append_nil]
          have hlen2 := expand_len c.N c.h p ⟨q, 0⟩
          obtain ⟨a1, a2⟩ := h2 p ((expand c.N c.h p ⟨q, 0⟩).1.map (·.state)) s (V.setIfInBounds (c.idx q p) true)
            (W.setIfInBounds q true) Ms fc hsp hlen hrel0 (by omega)
            (by simp only [List.length_map]; omega)
          refine ⟨a1, ?_⟩
          intro hn
          obtain ⟨b1, b2, b3⟩ := a2 hn
          exact ⟨b1, by omega, hframe0.trans b3⟩

theorem S1_all {c : BTCtx} (hR : RuneOK c.N c.h) : ∀ fuel, S1 c fuel := by
  intro fuel
  induction fuel with
  | zero => intro p q s V W Ms fc _ _ _ hcnt; omega
  | succ fuel ih => exact S1_succ hR (S2_of_S1 ih)

/-! ### (c) for one start position: ordered-thread simulation = priority DFS -/

/-- the backtracker's answer for the single start position `s` (visited array based at `at_`, fresh) -/
def btFirst (N : NFA) (h : Bytes) (at_ s : Nat) : Option Nat :=
  (btFind { N := N, h := h, spanStart := at_ } (btFuel N h) s N.startAnchored (freshVis N h)).1

theorem rel_fresh (N : NFA) (h : Bytes) (at_ : Nat) (hat : at_ ≤ h.size) (k : Nat) (hk : k ≤ h.size - at_ + 1) :
    Rel { N := N, h := h, spanStart := at_ } (freshVis N h) (h.size + 1 - k) (List.replicate k (clearVis N)) := by
  induction k with
  | zero => intro j W hj; simp at hj
  | succ k ih =>
    have hp : h.size + 1 - (k+1) + 1 = h.size + 1 - k := by omega
    rw [List.replicate_succ]
    apply Rel.cons
    · refine ⟨clearVis_size N, ?_⟩
      intro q hq
      have hidx := idx_lt { N := N, h := h, spanStart := at_ } (q := q) (p := h.size + 1 - (k+1)) hq
        (by simp only; omega)
      rw [freshVis_getD N h hidx]
      simp [clearVis, Array.getD_eq_getD_getElem?, hq]
    · rw [hp]; exact ih (by omega)

/-- the generation-wise search from the closure of the start thread at `s` is the backtracker's answer for the
    start position `s` (whatever base `at_ ≤ s` its visited array has) -/
theorem R_eq_bt {N : NFA} {h : Bytes} (hd : SparseDisjoint N) (hR : RuneOK N h) {at_ s : Nat}
    (has : at_ ≤ s) (hs : s ≤ h.size) :
    (R N h (List.replicate (h.size - s) (clearVis N)) s (addThread N h s ⟨N.startAnchored, s⟩ (clearVis N, [])).2).1 =
      btFirst N h at_ s := by
  have hrel := rel_fresh N h at_ (by omega) (h.size - s + 1) (by omega)
  have hpe : h.size + 1 - (h.size - s + 1) = s := by omega
  rw [hpe, List.replicate_succ] at hrel
  have hS := S1_all (c := { N := N, h := h, spanStart := at_ }) hR (btFuel N h) s N.startAnchored s
    (freshVis N h) (clearVis N) (List.replicate (h.size - s) (clearVis N)) (closureFuel N)
    has (by simp; omega) hrel (freshVis_fuel N h)
    (by rw [clearVis_count]; simp only [closureFuel]; omega)
  have hbt : btFirst N h at_ s =
      (F N h (h.size - s + 1) s (List.replicate (h.size - s) (clearVis N))
        (addThread N h s ⟨N.startAnchored, s⟩ (clearVis N, [])).2).1 := by
    unfold btFirst
    rw [btFind_eq_btX _ hd hR]
    have := hS.1
    simp only [List.length_replicate] at this
    exact this
  have hFR := (F_eq_R N h (h.size - s) (List.replicate (h.size - s) (clearVis N)) (by simp)
    (addThread N h s ⟨N.startAnchored, s⟩ (clearVis N, [])).2 s).1
  rw [hbt, hFR]

/-- (c), one start position: the anchored span search of the Pike VM (leftmost-first mode) reports exactly the end
    the bounded backtracker finds first from that start position -/
theorem searchAnchored_eq_bt {N : NFA} {h : Bytes} (hd : SparseDisjoint N) (hR : RuneOK N h) {at_ s : Nat}
    (has : at_ ≤ s) (hs : s ≤ h.size) :
    searchAnchored N h s false = (btFirst N h at_ s).map (fun e => (s, e)) := by
  have hloop := loopA_eq_R N h (h.size + 1 - s) s (addThread N h s ⟨N.startAnchored, s⟩ (clearVis N, [])).2
    none rfl hs (fun l hl => nomatch hl)
  rw [← R_eq_bt hd hR has hs]
  unfold searchAnchored
  simp only []
  rw [hloop]
  cases (R N h (List.replicate (h.size - s) (clearVis N)) s
    (addThread N h s ⟨N.startAnchored, s⟩ (clearVis N, [])).2).1 <;> simp

end Cx.Pike
