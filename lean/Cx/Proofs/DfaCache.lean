import Cx.Model.Dfa
/-
  Cx.Proofs.DfaCache — (a) MEMOISATION IS INVISIBLE.

  The cached searches of `Cx.Model.Dfa` (`searchAtC`, `earliestC`, `anchoredC`: state ids, flat transition table per
  byte class, start table, capacity check, clear-and-rebuild, give-up) against the same searches on state VALUES
  (`searchAtU`, `earliestU`, `anchoredU`).

  Invariant `Inv`: ids are consistent with the slot a state sits in; EVERY TABLE ENTRY `(S, class k) ↦ T` SATISFIES
  `T ≃ step S b` for every byte `b` of class `k` (`TransOK`), a dead entry means `step S b = dead`; start-table
  entries point at the start state of their kind; fresh ids are fresh; a cache that was never cleared has nothing in
  row 0.  It holds for `Cache.empty` and is preserved by `setTrans` (given `TransOK`), `insertNew`, `tagStart`,
  `clearRebuild`, `tryDetect`, `determinize`, `getStart` and by the three searches (`searchAtC_inv`, `earliestC_inv`,
  `anchoredC_inv`), for every capacity and every clear limit, whatever the cache went through before.

  Hypotheses of the equalities, and why they are needed (each has a `decide`-checked counterexample in
  `Cx.Proofs.Dfa` or a concrete witness found by the fidelity harness):
    * `hasWB N = false`: with `\b`/`\B` the pre-check flags of a state depend on whether it was first created as a
      start state or by `determinize`, and the start-state fast transition skips the pre-check;
    * `ClassSound N cfg`: bytes of one class must have `≃`-equal transitions (the table is indexed by class).  Trivial
      for `cls = id` (`classSound_id`); follows from the decidable `classStepB` / `classCompatB` for automata without
      look-around (`Cx.Proofs.DfaRef.classSound_of_compat`); FALSE for compiled NFAs with `(?m)^` / `$` / `\b`, whose
      byte classes do not separate `\n` (resp. word bytes) from the other bytes — a genuine defect of the code;
    * `NoAccel c` (searchAt / earliest): no state object carries exit bytes and every state with a non-empty row has
      been through the acceleration detection.  True for `Cache.empty`, preserved by `searchAt` / `searchEarliestMatch`
      (they run the detection on a state before they ever fill its row, so it never finds anything) and by clears —
      but NOT by `SearchAtAnchored`, which fills rows without detecting; after it the detection can succeed, and the
      acceleration it enables is unsound (`Cx.Proofs.Dfa.accel_visible`);
    * `c.clearCount = 0 ∨ noStartLookB N` (searchAt / earliest): a start state that cannot be cached gets the id
      `InvalidState`, whose offset aliases row 0 in the unrolled block; row 0 is in use only after a clear and then holds
      the `StartText` start state, which is equivalent to every other start state iff there is no `^`/`\A`;
    * `cfg.maxClears = 0 ∧ c.clearCount = 0` (SearchAtAnchored): after a successful clear the loop restarts from the
      anchored start state at the CURRENT position and forgets the threads in flight (`anchoredC_inv`: the invariant
      itself survives).
  `≃` is equality of the NFA-state list and of the match flag (`isFromWord` may differ: it is computed from the first
  byte of the class that reached the state; it is irrelevant without word boundaries).
-/
namespace Cx.Dfa
open Cx Cx.Nfa

/-! ### without word boundaries, only the NFA-state list of the source matters -/

theorem hasLookWhere_false {N : NFA} {p : Look → Bool} (hf : hasLookWhere N p = false) {q : Nat} {k : Look} {nx : Nat}
    (hq : N.get q = .look k nx) : p k = false := by
  unfold hasLookWhere at hf
  rw [List.any_eq_false] at hf
  unfold NFA.get at hq
  by_cases hlt : q < N.states.size
  · have hmem : N.states[q] ∈ N.states.toList := by simp
    have := hf _ hmem
    have he : N.states.getD q NState.fail = N.states[q] := by simp [Array.getD_eq_getD_getElem?, hlt]
    rw [he] at hq
    rw [hq] at this
    simpa using this
  · have he : N.states.getD q NState.fail = NState.fail := by
      simp [Array.getD_eq_getD_getElem?, hlt]
    rw [he] at hq
    cases hq

theorem wbTarget_none {N : NFA} (hW : hasWB N = false) (sat : Bool) (q : Nat) : wbTarget N sat q = none := by
  unfold wbTarget
  split
  · rename_i nx hq
    have := hasLookWhere_false hW hq
    simp at this
  · rename_i nx hq
    have := hasLookWhere_false hW hq
    simp at this
  · rfl

theorem wbScan_id {N : NFA} (hW : hasWB N = false) (sat : Bool) : ∀ (l : List Nat) (cs : List Nat × List Nat),
    wbScan N sat l cs = cs := by
  intro l
  induction l with
  | nil => intro cs; rfl
  | cons q qs ih => intro cs; simp only [wbScan, wbTarget_none hW]; exact ih cs

theorem resolveWB_id {N : NFA} (hW : hasWB N = false) (l : List Nat) (sat : Bool) : resolveWB N l sat = l := by
  simp [resolveWB, wbScan_id hW]

theorem step_congr {N : NFA} (hW : hasWB N = false) (cfg : Config) {S S' : DState} (hn : S.nfa = S'.nfa) (b : Nat) :
    step N cfg S b = step N cfg S' b := by
  simp only [step, moveBreak, hW, hn, Bool.false_eq_true, ↓reduceIte, Bool.false_and]

theorem checkEOI_congr {N : NFA} (hW : hasWB N = false) {S S' : DState} (hn : S.nfa = S'.nfa) :
    checkEOI N S = checkEOI N S' := by
  simp only [checkEOI, checkEOIStates, resolveWB_id hW, hn]

/-! ### the invariant -/

/-- bytes of one class have equivalent transitions from every state -/
def ClassSound (N : NFA) (cfg : Config) : Prop :=
  ∀ (S : DState) (b b' : Nat), b < 256 → b' < 256 → cfg.cls b = cfg.cls b' →
    (step N cfg S b = .dead → step N cfg S b' = .dead) ∧
    (∀ T, step N cfg S b = .next T → ∃ T', step N cfg S b' = .next T' ∧ T'.nfa = T.nfa ∧ T'.isMatch = T.isMatch)

theorem classSound_id (N : NFA) (cfg : Config) (hid : ∀ b, cfg.cls b = b) : ClassSound N cfg := by
  intro S b b' _ _ hc
  rw [hid, hid] at hc
  subst hc
  exact ⟨fun h => h, fun T h => ⟨T, h, rfl, rfl⟩⟩

def BytesOK (h : Bytes) : Prop := ∀ i, h.at i < 256

/-- the table entry `t` for (state value `S`, class `k`) describes `step S b` for every byte `b` of the class -/
def TransOK (N : NFA) (cfg : Config) (c : Cache) (S : DState) (k : Nat) (t : Sid) : Prop :=
  (t = Sid.deadS ∧ ∀ b, b < 256 → cfg.cls b = k → step N cfg S b = .dead) ∨
  (t.inv = false ∧ t.dead = false ∧ ∃ T, c.list.getD t.off none = some T ∧ t.mtch = T.st.isMatch ∧
    ∀ b, b < 256 → cfg.cls b = k → ∃ T', step N cfg S b = .next T' ∧ T'.nfa = T.st.nfa ∧ T'.isMatch = T.st.isMatch)

structure Inv (N : NFA) (cfg : Config) (c : Cache) : Prop where
  ids : ∀ i cs, c.list.getD i none = some cs →
    cs.id.off = i ∧ cs.id.inv = false ∧ cs.id.dead = false ∧ cs.id.mtch = cs.st.isMatch
  trans : ∀ r k, c.trans r k = Sid.invalid ∨ ∃ S, c.list.getD r none = some S ∧ TransOK N cfg c S.st k (c.trans r k)
  start : ∀ kd a, c.start kd a = Sid.invalid ∨ ((c.start kd a).inv = false ∧ (c.start kd a).dead = false ∧
    ∃ T, c.list.getD (c.start kd a).off none = some T ∧ T.st.nfa = (startState N kd a).nfa)
  idx : 1 ≤ c.nextIdx ∧ c.list.length ≤ c.nextIdx
  row0 : c.clearCount = 0 → c.list.getD 0 none = none
  row0st : ∀ cs, c.list.getD 0 none = some cs → cs.st.nfa = (startState N .text false).nfa

/-- every state of `c` is still there in `c'`, with the same value (its id may have gained the start tag) -/
def Ext (c c' : Cache) : Prop :=
  ∀ i cs, c.list.getD i none = some cs → ∃ cs', c'.list.getD i none = some cs' ∧ cs'.st = cs.st

theorem Ext.refl (c : Cache) : Ext c c := fun _ cs h => ⟨cs, h, rfl⟩

theorem Ext.trans {a b c : Cache} (h1 : Ext a b) (h2 : Ext b c) : Ext a c := by
  intro i cs h
  obtain ⟨cs1, e1, s1⟩ := h1 i cs h
  obtain ⟨cs2, e2, s2⟩ := h2 i cs1 e1
  exact ⟨cs2, e2, s2.trans s1⟩

theorem TransOK.mono {N : NFA} {cfg : Config} {c c' : Cache} {S : DState} {k : Nat} {t : Sid} (he : Ext c c')
    (h : TransOK N cfg c S k t) : TransOK N cfg c' S k t := by
  rcases h with h | ⟨h1, h2, T, hT, hm, hs⟩
  · exact Or.inl h
  · obtain ⟨T', hT', hst⟩ := he _ _ hT
    exact Or.inr ⟨h1, h2, T', hT', by rw [hst]; exact hm, by rw [hst]; exact hs⟩

theorem inv_empty (N : NFA) (cfg : Config) : Inv N cfg Cache.empty where
  ids := by intro i cs h; simp [Cache.empty] at h
  trans := by intro r k; left; rfl
  start := by intro kd a; left; rfl
  idx := by simp [Cache.empty]
  row0 := by intro _; simp [Cache.empty]
  row0st := by intro cs h; simp [Cache.empty] at h

/-! ### list plumbing -/

theorem getD_set_list (l : List (Option CState)) (i j : Nat) (x : Option CState) :
    (l.set i x).getD j none = if j = i ∧ i < l.length then x else l.getD j none := by
  simp only [List.getD_eq_getElem?_getD, List.getElem?_set]
  by_cases hji : i = j
  · subst hji
    by_cases hlt : i < l.length
    · simp [hlt]
    · simp [hlt]
  · have : ¬ (j = i) := fun h => hji h.symm
    simp [hji, this]

theorem getD_setAt (l : List (Option CState)) (i j : Nat) (v : CState) (hi : l.length ≤ i) :
    (setAt l i v).getD j none = if j = i then some v else l.getD j none := by
  unfold setAt
  rw [if_neg (by omega)]
  simp only [List.getD_eq_getElem?_getD, List.append_assoc]
  by_cases hj : j < l.length
  · have hne : j ≠ i := by omega
    rw [List.getElem?_append_left hj]
    simp [hne]
  · rw [List.getElem?_append_right (by omega)]
    have hnone : l[j]? = none := List.getElem?_eq_none (by omega)
    rw [hnone]
    by_cases hji : j = i
    · subst hji
      rw [List.getElem?_append_right (by simp)]
      simp
    · simp only [hji, ↓reduceIte]
      by_cases hj2 : j < i
      · rw [List.getElem?_append_left (by simp; omega)]
        rw [List.getElem?_replicate]
        split <;> rfl
      · rw [List.getElem?_append_right (by simp; omega)]
        have : j - l.length - (List.replicate (i - l.length) (none : Option CState)).length = (j - i - 1) + 1 := by
          simp; omega
        rw [this]
        simp

theorem length_setAt (l : List (Option CState)) (i : Nat) (v : CState) (hi : l.length ≤ i) :
    (setAt l i v).length = i + 1 := by
  unfold setAt
  rw [if_neg (by omega)]
  simp
  omega

theorem getD_some_lt {l : List (Option CState)} {i : Nat} {cs : CState} (h : l.getD i none = some cs) : i < l.length := by
  by_cases hlt : i < l.length
  · exact hlt
  · simp [List.getD_eq_getElem?_getD, List.getElem?_eq_none (Nat.le_of_not_lt hlt)] at h

theorem findKey_spec {c : Cache} {key : List Nat × Bool × Bool} {ex : CState} (h : c.findKey key = some ex) :
    ex.st.key = key ∧ ∃ i, c.list.getD i none = some ex := by
  unfold Cache.findKey at h
  obtain ⟨o, ho, hf⟩ := List.exists_of_findSome?_eq_some h
  cases o with
  | none => simp at hf
  | some cs =>
    simp only at hf
    split at hf
    · rename_i hk
      cases hf
      refine ⟨hk, ?_⟩
      obtain ⟨i, hi, hget⟩ := List.getElem_of_mem ho
      exact ⟨i, by simp [List.getD_eq_getElem?_getD, List.getElem?_eq_getElem hi, hget]⟩
    · cases hf

theorem key_eq {S T : DState} (h : S.key = T.key) : S.nfa = T.nfa ∧ S.isMatch = T.isMatch := by
  unfold DState.key at h
  simp only [Prod.mk.injEq] at h
  exact ⟨h.1, h.2.2⟩

/-! ### the cache operations preserve the invariant -/

theorem inv_setTrans {N : NFA} {cfg : Config} {c : Cache} (hI : Inv N cfg c) {row k : Nat} {t : Sid} {S : CState}
    (hS : c.list.getD row none = some S) (ht : TransOK N cfg c S.st k t) : Inv N cfg (c.setTrans row k t) := by
  have hlt : row < c.rows := getD_some_lt hS
  unfold Cache.setTrans
  rw [if_pos hlt]
  have hext : Ext c { c with trans := fun r k' => if r = row ∧ k' = k then t else c.trans r k' } :=
    fun i cs h => ⟨cs, h, rfl⟩
  refine ⟨hI.ids, ?_, hI.start, hI.idx, hI.row0, hI.row0st⟩
  intro r k'
  simp only
  by_cases hrk : r = row ∧ k' = k
  · rw [if_pos hrk]
    obtain ⟨rfl, rfl⟩ := hrk
    exact Or.inr ⟨S, hS, ht.mono hext⟩
  · rw [if_neg hrk]
    rcases hI.trans r k' with h | ⟨S', hS', hok⟩
    · exact Or.inl h
    · exact Or.inr ⟨S', hS', hok.mono hext⟩

theorem setTrans_list (c : Cache) (row k : Nat) (t : Sid) : (c.setTrans row k t).list = c.list := by
  unfold Cache.setTrans; split <;> rfl

theorem setTrans_clearCount (c : Cache) (row k : Nat) (t : Sid) : (c.setTrans row k t).clearCount = c.clearCount := by
  unfold Cache.setTrans; split <;> rfl

theorem ext_setTrans (c : Cache) (row k : Nat) (t : Sid) : Ext c (c.setTrans row k t) := by
  intro i cs h; exact ⟨cs, by rw [setTrans_list]; exact h, rfl⟩

theorem insertNew_eqs {cfg : Config} {c : Cache} {st : DState} {cs : CState} {c1 : Cache}
    (h : c.insertNew cfg st = some (cs, c1)) :
    cs = { id := { off := c.nextIdx, mtch := st.isMatch }, st := st } ∧ c1.list = setAt c.list c.nextIdx cs ∧
    c1.trans = c.trans ∧ c1.start = c.start ∧ c1.nextIdx = c.nextIdx + 1 ∧ c1.clearCount = c.clearCount := by
  unfold Cache.insertNew at h
  split at h
  · cases h
  · simp only [Option.some.injEq, Prod.mk.injEq] at h
    obtain ⟨rfl, rfl⟩ := h
    exact ⟨rfl, rfl, rfl, rfl, rfl, rfl⟩

theorem insertNew_spec {N : NFA} {cfg : Config} {c : Cache} (hI : Inv N cfg c) {st : DState} {cs : CState} {c1 : Cache}
    (h : c.insertNew cfg st = some (cs, c1)) :
    Inv N cfg c1 ∧ Ext c c1 ∧ cs.st = st ∧ c1.list.getD cs.id.off none = some cs ∧ c1.clearCount = c.clearCount := by
  obtain ⟨hcs, hl, htr, hsta, hnx, hcc⟩ := insertNew_eqs h
  have hlen := hI.idx.2
  have hget : ∀ j, c1.list.getD j none = if j = c.nextIdx then some cs else c.list.getD j none := by
    intro j; rw [hl]; exact getD_setAt _ _ _ _ hlen
  have hoff : cs.id.off = c.nextIdx := by rw [hcs]
  have hext : Ext c c1 := by
    intro i cs' hcs'
    have hlt := getD_some_lt hcs'
    refine ⟨cs', ?_, rfl⟩
    rw [hget, if_neg (by omega)]
    exact hcs'
  refine ⟨⟨?_, ?_, ?_, ?_, ?_, ?_⟩, hext, by rw [hcs], ?_, hcc⟩
  · intro i cs' hcs'
    rw [hget] at hcs'
    split at hcs'
    · rename_i hi
      cases hcs'
      rw [hcs]
      simp [hi]
    · exact hI.ids i cs' hcs'
  · intro r k
    rw [htr]
    rcases hI.trans r k with h | ⟨S, hS, hok⟩
    · exact Or.inl h
    · obtain ⟨S', hS', hst⟩ := hext _ _ hS
      exact Or.inr ⟨S', hS', by rw [hst]; exact hok.mono hext⟩
  · intro kd a
    rw [hsta]
    rcases hI.start kd a with h | ⟨h1, h2, T, hT, hn⟩
    · exact Or.inl h
    · obtain ⟨T', hT', hst⟩ := hext _ _ hT
      exact Or.inr ⟨h1, h2, T', hT', by rw [hst]; exact hn⟩
  · rw [hnx, hl, length_setAt _ _ _ hlen]
    omega
  · intro h0
    rw [hcc] at h0
    rw [hget, if_neg (by have := hI.idx.1; omega)]
    exact hI.row0 h0
  · intro cs0 h0
    rw [hget, if_neg (by have := hI.idx.1; omega)] at h0
    exact hI.row0st cs0 h0
  · rw [hget, hoff]
    simp

theorem tagStart_eqs (c : Cache) (cs : CState) (kind : StartKind) (anch : Bool) :
    (c.tagStart cs kind anch).1 = { cs with id := { cs.id with start := true } } ∧
    (c.tagStart cs kind anch).2.list = c.list.set cs.id.off (some (c.tagStart cs kind anch).1) ∧
    (c.tagStart cs kind anch).2.trans = c.trans ∧
    (c.tagStart cs kind anch).2.start = (fun k a => if k = kind ∧ a = anch then (c.tagStart cs kind anch).1.id else c.start k a) ∧
    (c.tagStart cs kind anch).2.nextIdx = c.nextIdx ∧ (c.tagStart cs kind anch).2.clearCount = c.clearCount :=
  ⟨rfl, rfl, rfl, rfl, rfl, rfl⟩

theorem tagStart_spec {N : NFA} {cfg : Config} {c : Cache} (hI : Inv N cfg c) {cs : CState} {i : Nat}
    (hcs : c.list.getD i none = some cs) (kind : StartKind) (anch : Bool)
    (hn : cs.st.nfa = (startState N kind anch).nfa) :
    Inv N cfg (c.tagStart cs kind anch).2 ∧ Ext c (c.tagStart cs kind anch).2 ∧
    (c.tagStart cs kind anch).2.list.getD (c.tagStart cs kind anch).1.id.off none = some (c.tagStart cs kind anch).1 ∧
    (c.tagStart cs kind anch).1.st = cs.st ∧ (c.tagStart cs kind anch).1.id.inv = false ∧
    (c.tagStart cs kind anch).1.id.dead = false ∧
    (c.tagStart cs kind anch).2.clearCount = c.clearCount := by
  obtain ⟨hoff, hinv, hdead, hm⟩ := hI.ids i cs hcs
  have hlt := getD_some_lt hcs
  subst hoff
  obtain ⟨e1, el, etr, est, enx, ecc⟩ := tagStart_eqs c cs kind anch
  generalize (c.tagStart cs kind anch).1 = cs' at *
  generalize (c.tagStart cs kind anch).2 = c1 at *
  have hoff' : cs'.id.off = cs.id.off := by rw [e1]
  have hst' : cs'.st = cs.st := by rw [e1]
  have hget : ∀ j, c1.list.getD j none = if j = cs.id.off then some cs' else c.list.getD j none := by
    intro j
    rw [el, getD_set_list]
    by_cases hj : j = cs.id.off
    · simp [hj, hlt]
    · simp [hj]
  have hext : Ext c c1 := by
    intro j cs2 hj
    rw [hget]
    by_cases hjo : j = cs.id.off
    · subst hjo
      rw [hcs] at hj
      cases hj
      exact ⟨cs', by simp, hst'⟩
    · exact ⟨cs2, by rw [if_neg hjo]; exact hj, rfl⟩
  refine ⟨⟨?_, ?_, ?_, ?_, ?_, ?_⟩, hext, ?_, hst', by rw [e1]; exact hinv, by rw [e1]; exact hdead, ecc⟩
  · intro j cs2 hj
    rw [hget] at hj
    split at hj
    · rename_i hjo
      cases hj
      rw [e1]
      simp [hjo, hinv, hdead, hm]
    · exact hI.ids j cs2 hj
  · intro r k
    rw [etr]
    rcases hI.trans r k with h | ⟨S, hS, hok⟩
    · exact Or.inl h
    · obtain ⟨S', hS', hst⟩ := hext _ _ hS
      exact Or.inr ⟨S', hS', by rw [hst]; exact hok.mono hext⟩
  · intro kd a
    rw [est]
    simp only
    by_cases hka : kd = kind ∧ a = anch
    · rw [if_pos hka]
      obtain ⟨rfl, rfl⟩ := hka
      refine Or.inr ⟨by rw [e1]; exact hinv, by rw [e1]; exact hdead, cs', ?_, by rw [hst']; exact hn⟩
      rw [hget, hoff']
      simp
    · rw [if_neg hka]
      rcases hI.start kd a with h | ⟨h1, h2, T, hT, hn'⟩
      · exact Or.inl h
      · obtain ⟨T', hT', hst⟩ := hext _ _ hT
        exact Or.inr ⟨h1, h2, T', hT', by rw [hst]; exact hn'⟩
  · rw [enx, el, List.length_set]
    exact hI.idx
  · intro h0
    rw [ecc] at h0
    have := hI.row0 h0
    rw [hget]
    by_cases h0o : 0 = cs.id.off
    · rw [← h0o] at hcs
      rw [this] at hcs
      cases hcs
    · rw [if_neg h0o]; exact this
  · intro cs0 h0
    rw [hget] at h0
    by_cases h0o : 0 = cs.id.off
    · rw [if_pos h0o] at h0
      cases h0
      rw [hst']
      rw [← h0o] at hcs
      exact hI.row0st cs hcs
    · rw [if_neg h0o] at h0
      exact hI.row0st cs0 h0
  · rw [hget, hoff']
    simp

theorem inv_clearRebuild (N : NFA) (cfg : Config) (c : Cache) : Inv N cfg (clearRebuild N c) where
  ids := by
    intro i cs h
    unfold clearRebuild at h
    simp only at h
    match i with
    | 0 => simp at h; subst h; simp [startState]
    | i+1 => simp at h
  trans := by intro r k; left; rfl
  start := by
    intro kd a
    unfold clearRebuild
    simp only
    by_cases hk : kd = StartKind.text ∧ a = false
    · rw [if_pos hk]
      obtain ⟨rfl, rfl⟩ := hk
      right
      exact ⟨rfl, rfl, { id := { off := 0, start := true }, st := startState N .text false }, rfl, rfl⟩
    · rw [if_neg hk]
      left; rfl
  idx := by simp [clearRebuild]
  row0 := by intro h; simp [clearRebuild] at h
  row0st := by
    intro cs h
    simp [clearRebuild] at h
    subst h
    rfl

/-! ### `determinize` -/

theorem determinize_spec {N : NFA} {cfg : Config} {c : Cache} (hI : Inv N cfg c) (hC : ClassSound N cfg) {cur : CState}
    {i : Nat} (hcur : c.list.getD i none = some cur) {b : Nat} (hb : b < 256) :
    ∀ r c1, determinize N cfg c cur b = (r, c1) →
      Inv N cfg c1 ∧
      (match r with
       | .dead => step N cfg cur.st b = .dead ∧ Ext c c1
       | .next cs => (∃ T, step N cfg cur.st b = .next T ∧ T.nfa = cs.st.nfa ∧ T.isMatch = cs.st.isMatch) ∧
           c1.list.getD cs.id.off none = some cs ∧ Ext c c1
       | .cleared => True
       | .fail => True) := by
  intro r c1 hd
  obtain ⟨hoff, _, _, _⟩ := hI.ids i cur hcur
  unfold determinize at hd
  cases hs : step N cfg cur.st b with
  | dead =>
    rw [hs] at hd
    simp only [Prod.mk.injEq] at hd
    obtain ⟨rfl, rfl⟩ := hd
    refine ⟨?_, rfl, ext_setTrans _ _ _ _⟩
    rw [hoff]
    apply inv_setTrans hI hcur
    left
    refine ⟨rfl, ?_⟩
    intro b' hb' hk
    exact (hC cur.st b b' hb hb' hk.symm).1 hs
  | limit =>
    rw [hs] at hd
    simp only [Prod.mk.injEq] at hd
    obtain ⟨rfl, rfl⟩ := hd
    exact ⟨hI, trivial⟩
  | next T =>
    rw [hs] at hd
    simp only at hd
    cases hf : c.findKey T.key with
    | some ex =>
      rw [hf] at hd
      simp only [Prod.mk.injEq] at hd
      obtain ⟨rfl, rfl⟩ := hd
      obtain ⟨hkey, j, hj⟩ := findKey_spec hf
      obtain ⟨hn, hm⟩ := key_eq hkey
      obtain ⟨hjoff, hjinv, hjdead, hjm⟩ := hI.ids j ex hj
      refine ⟨?_, ⟨T, rfl, hn.symm, hm.symm⟩, ?_, ext_setTrans _ _ _ _⟩
      · rw [hoff]
        apply inv_setTrans hI hcur
        right
        refine ⟨hjinv, hjdead, ex, by rw [hjoff]; exact hj, hjm, ?_⟩
        intro b' hb' hk
        obtain ⟨T', hT', h1, h2⟩ := (hC cur.st b b' hb hb' hk.symm).2 T hs
        exact ⟨T', hT', by rw [h1, hn], by rw [h2, hm]⟩
      · rw [setTrans_list, hjoff]; exact hj
    | none =>
      rw [hf] at hd
      simp only at hd
      cases hi : c.insertNew cfg T with
      | some p =>
        obtain ⟨cs, c2⟩ := p
        rw [hi] at hd
        simp only [Prod.mk.injEq] at hd
        obtain ⟨rfl, rfl⟩ := hd
        obtain ⟨hI2, hext, hst, hget, _⟩ := insertNew_spec hI hi
        obtain ⟨cur', hcur', hcst⟩ := hext _ _ hcur
        obtain ⟨hoff', _, _, _⟩ := hI2.ids i cur' hcur'
        obtain ⟨_, hcinv, hcdead, hcm⟩ := hI2.ids _ cs hget
        refine ⟨?_, ⟨T, rfl, by rw [hst], by rw [hst]⟩, ?_, hext.trans (ext_setTrans _ _ _ _)⟩
        · rw [hoff]
          apply inv_setTrans hI2 hcur'
          right
          refine ⟨hcinv, hcdead, cs, hget, hcm, ?_⟩
          intro b' hb' hk
          rw [hcst]
          obtain ⟨T', hT', h1, h2⟩ := (hC cur.st b b' hb hb' hk.symm).2 T hs
          exact ⟨T', hT', by rw [h1, hst], by rw [h2, hst]⟩
        · rw [setTrans_list]; exact hget
      | none =>
        rw [hi] at hd
        simp only at hd
        split at hd
        · simp only [Prod.mk.injEq] at hd
          obtain ⟨rfl, rfl⟩ := hd
          exact ⟨hI, trivial⟩
        · simp only [Prod.mk.injEq] at hd
          obtain ⟨rfl, rfl⟩ := hd
          exact ⟨inv_clearRebuild N cfg c, trivial⟩

/-! ### `getStartState` -/

theorem getStart_spec {N : NFA} {cfg : Config} {c : Cache} (hI : Inv N cfg c) (h : Bytes) (pos : Nat) (anch : Bool) :
    ∀ ocur c1, getStart N cfg c h pos anch = (ocur, c1) →
      Inv N cfg c1 ∧ Ext c c1 ∧ c1.clearCount = c.clearCount ∧
      (∀ cur, ocur = some cur → cur.st.nfa = (startState N (kindAt h pos) anch).nfa ∧
        ((cur.id = Sid.invalid ∧ c1 = c) ∨
         (cur.id.inv = false ∧ cur.id.dead = false ∧ c1.list.getD cur.id.off none = some cur))) := by
  intro ocur c1 hg
  unfold getStart at hg
  simp only at hg
  split at hg
  · -- cached in the start table
    rename_i hid
    simp only [Prod.mk.injEq] at hg
    obtain ⟨rfl, rfl⟩ := hg
    refine ⟨hI, Ext.refl _, rfl, ?_⟩
    intro cur hcur
    rcases hI.start (kindAt h pos) anch with hinv | ⟨h1, h2, T, hT, hn⟩
    · exact absurd hinv hid
    · have hgs : c.getState (c.start (kindAt h pos) anch) = some T := by
        unfold Cache.getState
        simp only [h1, h2, Bool.or_self, Bool.false_eq_true, ↓reduceIte]
        exact hT
      rw [hgs] at hcur
      cases hcur
      obtain ⟨hoff, hi, hd, _⟩ := hI.ids _ _ hT
      exact ⟨hn, Or.inr ⟨hi, hd, by rw [hoff]; exact hT⟩⟩
  · cases hf : c.findKey (startState N (kindAt h pos) anch).key with
    | some ex =>
      rw [hf] at hg
      simp only [Prod.mk.injEq] at hg
      obtain ⟨rfl, rfl⟩ := hg
      obtain ⟨hkey, j, hj⟩ := findKey_spec hf
      obtain ⟨hn, _⟩ := key_eq hkey
      obtain ⟨i1, i2, i3, i4, i5, i6, i7⟩ := tagStart_spec hI hj (kindAt h pos) anch hn
      refine ⟨i1, i2, i7, ?_⟩
      intro cur hcur
      cases hcur
      exact ⟨by rw [i4]; exact hn, Or.inr ⟨i5, i6, i3⟩⟩
    | none =>
      rw [hf] at hg
      simp only at hg
      cases hi : c.insertNew cfg (startState N (kindAt h pos) anch) with
      | none =>
        rw [hi] at hg
        simp only [Prod.mk.injEq] at hg
        obtain ⟨rfl, rfl⟩ := hg
        refine ⟨hI, Ext.refl _, rfl, ?_⟩
        intro cur hcur
        cases hcur
        exact ⟨rfl, Or.inl ⟨rfl, rfl⟩⟩
      | some p =>
        obtain ⟨cs, c2⟩ := p
        rw [hi] at hg
        simp only [Prod.mk.injEq] at hg
        obtain ⟨rfl, rfl⟩ := hg
        obtain ⟨hI2, hext, hst, hget, hcc⟩ := insertNew_spec hI hi
        obtain ⟨i1, i2, i3, i4, i5, i6, i7⟩ := tagStart_spec hI2 hget (kindAt h pos) anch (by rw [hst])
        refine ⟨i1, hext.trans i2, by rw [i7, hcc], ?_⟩
        intro cur hcur
        cases hcur
        exact ⟨by rw [i4, hst], Or.inr ⟨i5, i6, i3⟩⟩

/-! ### without `^` / `\A` states the start state does not depend on the look-behind kind -/

theorem succs_noStart {N : NFA} (hns : noStartLookB N = true) (k1 k2 : StartKind) (q : Nat) :
    succs N (lookOfKind k1) q = succs N (lookOfKind k2) q := by
  unfold succs
  cases hq : N.get q with
  | look k nx =>
    have hf : hasLookWhere N (fun k => k == .startText || k == .startLine) = false := by
      unfold noStartLookB at hns; simpa using hns
    have hk := hasLookWhere_false hf hq
    simp only [Bool.or_eq_false_iff, beq_eq_false_iff_ne, ne_eq] at hk
    have h1 : ∀ kd : StartKind, (lookOfKind kd).contains k = false := by
      intro kd
      cases k <;> cases kd <;> simp_all [lookOfKind, LookSet.contains]
    simp only [h1]
  | _ => rfl

theorem closureInto_congr {N : NFA} {lk1 lk2 : LookSet} (hs : ∀ q, succs N lk1 q = succs N lk2 q) :
    ∀ (fuel : Nat) (st res : List Nat), closureInto N lk1 fuel st res = closureInto N lk2 fuel st res := by
  intro fuel
  induction fuel with
  | zero => intro st res; rfl
  | succ fuel ih =>
    intro st res
    cases st with
    | nil => rfl
    | cons q st =>
      simp only [closureInto]
      split
      · exact ih st res
      · rw [hs q]; exact ih _ _

theorem startState_noStart {N : NFA} (hns : noStartLookB N = true) (k1 k2 : StartKind) (a : Bool) :
    (startState N k1 a).nfa = (startState N k2 a).nfa := by
  simp only [startState, epsilonClosure, List.foldl, closeSeed]
  exact closureInto_congr (succs_noStart hns k1 k2) _ _ _

/-! ### the run is at a state equivalent to the uncached one -/

/-- the id `sid` names a cached state whose NFA-state list is that of `S` -/
def AtState (c : Cache) (sid : Sid) (S : DState) : Prop :=
  sid.inv = false ∧ sid.dead = false ∧ ∃ cs, c.list.getD sid.off none = some cs ∧ cs.st.nfa = S.nfa

theorem AtState.getState {c : Cache} {sid : Sid} {S : DState} (h : AtState c sid S) :
    ∃ cs, c.getState sid = some cs ∧ c.list.getD sid.off none = some cs ∧ cs.st.nfa = S.nfa := by
  obtain ⟨h1, h2, cs, hcs, hn⟩ := h
  refine ⟨cs, ?_, hcs, hn⟩
  unfold Cache.getState
  simp only [h1, h2, Bool.or_self, Bool.false_eq_true, ↓reduceIte]
  exact hcs

theorem AtState.lookupT {c : Cache} {sid : Sid} {S : DState} (h : AtState c sid S) (k : Nat) :
    c.lookupT sid.off k = c.trans sid.off k := by
  obtain ⟨_, _, cs, hcs, _⟩ := h
  unfold Cache.lookupT Cache.rows
  rw [if_pos (getD_some_lt hcs)]

theorem AtState.ext {c c' : Cache} {sid : Sid} {S : DState} (h : AtState c sid S) (he : Ext c c') : AtState c' sid S := by
  obtain ⟨h1, h2, cs, hcs, hn⟩ := h
  obtain ⟨cs', hcs', hst⟩ := he _ _ hcs
  exact ⟨h1, h2, cs', hcs', by rw [hst]; exact hn⟩

/-- a non-invalid table entry of the current state describes the uncached step -/
theorem follow {N : NFA} {cfg : Config} {c : Cache} (hW : hasWB N = false) (hI : Inv N cfg c) {sid : Sid} {S : DState}
    (hat : AtState c sid S) {b : Nat} (hb : b < 256) (hne : c.trans sid.off (cfg.cls b) ≠ Sid.invalid) :
    (c.trans sid.off (cfg.cls b) = Sid.deadS ∧ step N cfg S b = .dead) ∨
    (c.trans sid.off (cfg.cls b) ≠ Sid.deadS ∧
      ∃ T', step N cfg S b = .next T' ∧ AtState c (c.trans sid.off (cfg.cls b)) T' ∧
        T'.isMatch = (c.trans sid.off (cfg.cls b)).mtch) := by
  obtain ⟨_, _, cs, hcs, hn⟩ := hat
  rcases hI.trans sid.off (cfg.cls b) with h | ⟨S0, hS0, hok⟩
  · exact absurd h hne
  · rw [hcs] at hS0
    cases hS0
    rcases hok with ⟨hd, hall⟩ | ⟨h1, h2, T, hT, hm, hall⟩
    · left
      exact ⟨hd, by rw [← step_congr hW cfg hn]; exact hall b hb rfl⟩
    · right
      obtain ⟨T', hs, hn', hm'⟩ := hall b hb rfl
      refine ⟨?_, T', by rw [← step_congr hW cfg hn]; exact hs, ⟨h1, h2, T, hT, hn'.symm⟩, by rw [hm', hm]⟩
      intro hd
      rw [hd] at h2
      simp [Sid.deadS] at h2

theorem tagged_false {n : Sid} (h : n.tagged = false) : n.inv = false ∧ n.dead = false ∧ n.start = false ∧ n.mtch = false := by
  unfold Sid.tagged at h
  simp only [Bool.or_eq_false_iff] at h
  exact ⟨h.1.1.1, h.1.1.2, h.1.2, h.2⟩

theorem getState_some {c : Cache} {sid : Sid} {cur : CState} (h : c.getState sid = some cur) :
    c.list.getD sid.off none = some cur := by
  unfold Cache.getState at h
  split at h
  · cases h
  · exact h

/-! ### acceleration detection touches only the acceleration fields of a state object -/

/-- replace the state object in slot `i` -/
def Cache.replace (c : Cache) (i : Nat) (cs : CState) : Cache := { c with list := c.list.set i (some cs) }

theorem replace_getD {c : Cache} {i : Nat} {cs cs' : CState} (hcs : c.list.getD i none = some cs) (j : Nat) :
    (c.replace i cs').list.getD j none = if j = i then some cs' else c.list.getD j none := by
  have hlt := getD_some_lt hcs
  unfold Cache.replace
  simp only
  rw [getD_set_list]
  by_cases hj : j = i
  · simp [hj, hlt]
  · simp [hj]

theorem inv_replace {N : NFA} {cfg : Config} {c : Cache} (hI : Inv N cfg c) {i : Nat} {cs cs' : CState}
    (hcs : c.list.getD i none = some cs) (hst : cs'.st = cs.st) (hid : cs'.id = cs.id) :
    Inv N cfg (c.replace i cs') ∧ Ext c (c.replace i cs') := by
  have hget := replace_getD (cs' := cs') hcs
  have hext : Ext c (c.replace i cs') := by
    intro j cs2 hj
    rw [hget]
    by_cases hji : j = i
    · subst hji
      rw [hcs] at hj
      cases hj
      exact ⟨cs', by simp, hst⟩
    · exact ⟨cs2, by rw [if_neg hji]; exact hj, rfl⟩
  refine ⟨⟨?_, ?_, ?_, ?_, ?_, ?_⟩, hext⟩
  · intro j cs2 hj
    rw [hget] at hj
    split at hj
    · rename_i hji
      cases hj
      obtain ⟨h1, h2, h3, h4⟩ := hI.ids i cs hcs
      rw [hid, hst, hji]
      exact ⟨h1, h2, h3, h4⟩
    · exact hI.ids j cs2 hj
  · intro r k
    show (c.trans r k = Sid.invalid) ∨ _
    rcases hI.trans r k with h | ⟨S, hS, hok⟩
    · exact Or.inl h
    · obtain ⟨S', hS', hst'⟩ := hext _ _ hS
      exact Or.inr ⟨S', hS', by rw [hst']; exact hok.mono hext⟩
  · intro kd a
    show (c.start kd a = Sid.invalid) ∨ _
    rcases hI.start kd a with h | ⟨h1, h2, T, hT, hn⟩
    · exact Or.inl h
    · obtain ⟨T', hT', hst'⟩ := hext _ _ hT
      exact Or.inr ⟨h1, h2, T', hT', by rw [hst']; exact hn⟩
  · show 1 ≤ c.nextIdx ∧ (c.list.set i (some cs')).length ≤ c.nextIdx
    rw [List.length_set]
    exact hI.idx
  · intro h0
    have h0' : c.clearCount = 0 := h0
    have := hI.row0 h0'
    rw [hget]
    by_cases h0i : 0 = i
    · rw [← h0i, this] at hcs; cases hcs
    · rw [if_neg h0i]; exact this
  · intro cs0 h0
    rw [hget] at h0
    by_cases h0i : 0 = i
    · rw [if_pos h0i] at h0
      cases h0
      rw [hst]
      rw [← h0i] at hcs
      exact hI.row0st cs hcs
    · rw [if_neg h0i] at h0
      exact hI.row0st cs0 h0

theorem tryDetect_eq (cfg : Config) (c : Cache) (cs : CState) :
    tryDetect cfg c cs = (cs, c) ∨
    ∃ cs', tryDetect cfg c cs = (cs', c.replace cs.id.off cs') ∧ cs'.st = cs.st ∧ cs'.id = cs.id ∧
      cs'.accelChecked = true ∧ cs.accelChecked = false ∧
      cs'.accel = (if 0 < (detectAccel cfg c cs.id).length ∧ (detectAccel cfg c cs.id).length ≤ 3
        then detectAccel cfg c cs.id else cs.accel) := by
  unfold tryDetect
  split
  · exact Or.inl rfl
  · rename_i hch
    exact Or.inr ⟨_, rfl, rfl, rfl, rfl, by simpa using hch, rfl⟩

theorem tryDetect_spec {N : NFA} {cfg : Config} {c : Cache} (hI : Inv N cfg c) {i : Nat} {cs : CState}
    (hcs : c.list.getD i none = some cs) :
    Inv N cfg (tryDetect cfg c cs).2 ∧ Ext c (tryDetect cfg c cs).2 ∧
    (tryDetect cfg c cs).2.list.getD i none = some (tryDetect cfg c cs).1 ∧
    (tryDetect cfg c cs).1.st = cs.st ∧ (tryDetect cfg c cs).1.id = cs.id ∧
    (tryDetect cfg c cs).2.trans = c.trans ∧ (tryDetect cfg c cs).2.list.length = c.list.length := by
  obtain ⟨hoff, _, _, _⟩ := hI.ids i cs hcs
  rcases tryDetect_eq cfg c cs with he | ⟨cs', he, hst, hid, _, _, _⟩
  · rw [he]
    exact ⟨hI, Ext.refl _, hcs, rfl, rfl, rfl, rfl⟩
  · rw [he, hoff]
    obtain ⟨i1, i2⟩ := inv_replace hI hcs hst hid
    refine ⟨i1, i2, ?_, hst, hid, rfl, ?_⟩
    · rw [replace_getD hcs]; simp
    · show (c.list.set i (some cs')).length = c.list.length
      rw [List.length_set]

/-- ACCELERATION IS OFF: no state object has exit bytes, and a state whose row holds an entry has been through the
    detection (which then found an empty row).  Holds for caches used by `searchAt` / `searchEarliestMatch` only;
    `SearchAtAnchored` fills rows without running the detection and breaks it. -/
structure NoAccel (c : Cache) : Prop where
  noBytes : ∀ i cs, c.list.getD i none = some cs → cs.accel = []
  checked : ∀ i cs k, c.list.getD i none = some cs → c.trans i k ≠ Sid.invalid → cs.accelChecked = true

theorem noAccel_empty : NoAccel Cache.empty where
  noBytes := by intro i cs h; simp [Cache.empty] at h
  checked := by intro i cs k h; simp [Cache.empty] at h

theorem noAccel_clearRebuild (N : NFA) (c : Cache) : NoAccel (clearRebuild N c) where
  noBytes := by
    intro i cs h
    unfold clearRebuild at h
    match i with
    | 0 => simp at h; subst h; rfl
    | i+1 => simp at h
  checked := by intro i cs k _ h; exact absurd rfl h

theorem noAccel_setTrans {c : Cache} (hN : NoAccel c) {row k : Nat} {t : Sid} {S : CState}
    (hS : c.list.getD row none = some S) (hch : S.accelChecked = true) : NoAccel (c.setTrans row k t) := by
  have hlt : row < c.rows := getD_some_lt hS
  unfold Cache.setTrans
  rw [if_pos hlt]
  refine ⟨hN.noBytes, ?_⟩
  intro i cs k' hcs hne
  simp only at hne hcs
  by_cases hrk : i = row ∧ k' = k
  · obtain ⟨rfl, rfl⟩ := hrk
    rw [hS] at hcs
    cases hcs
    exact hch
  · rw [if_neg hrk] at hne
    exact hN.checked i cs k' hcs hne

theorem noAccel_insertNew {N : NFA} {cfg : Config} {c : Cache} (hI : Inv N cfg c) (hN : NoAccel c) {st : DState}
    {cs : CState} {c1 : Cache} (h : c.insertNew cfg st = some (cs, c1)) : NoAccel c1 := by
  obtain ⟨hcs, hl, htr, _, _, _⟩ := insertNew_eqs h
  have hlen := hI.idx.2
  have hget : ∀ j, c1.list.getD j none = if j = c.nextIdx then some cs else c.list.getD j none := by
    intro j; rw [hl]; exact getD_setAt _ _ _ _ hlen
  refine ⟨?_, ?_⟩
  · intro i cs' hcs'
    rw [hget] at hcs'
    split at hcs'
    · cases hcs'; rw [hcs]
    · exact hN.noBytes i cs' hcs'
  · intro i cs' k hcs' hne
    rw [htr] at hne
    rw [hget] at hcs'
    split at hcs'
    · rename_i hi
      exfalso
      rcases hI.trans i k with hinv | ⟨S, hS, _⟩
      · exact hne hinv
      · have := getD_some_lt hS
        omega
    · exact hN.checked i cs' k hcs' hne

theorem noAccel_tagStart {N : NFA} {cfg : Config} {c : Cache} (hI : Inv N cfg c) (hN : NoAccel c) {cs : CState} {i : Nat}
    (hcs : c.list.getD i none = some cs) (kind : StartKind) (anch : Bool) : NoAccel (c.tagStart cs kind anch).2 := by
  obtain ⟨hoff, _, _, _⟩ := hI.ids i cs hcs
  have hlt := getD_some_lt hcs
  subst hoff
  obtain ⟨e1, el, etr, _, _, _⟩ := tagStart_eqs c cs kind anch
  generalize (c.tagStart cs kind anch).1 = cs' at *
  generalize (c.tagStart cs kind anch).2 = c1 at *
  have hget : ∀ j, c1.list.getD j none = if j = cs.id.off then some cs' else c.list.getD j none := by
    intro j
    rw [el, getD_set_list]
    by_cases hj : j = cs.id.off
    · simp [hj, hlt]
    · simp [hj]
  refine ⟨?_, ?_⟩
  · intro j cs2 hj
    rw [hget] at hj
    split at hj
    · cases hj; rw [e1]; exact hN.noBytes _ cs hcs
    · exact hN.noBytes j cs2 hj
  · intro j cs2 k hj hne
    rw [etr] at hne
    rw [hget] at hj
    split at hj
    · rename_i hjo
      cases hj
      rw [e1]
      rw [hjo] at hne
      exact hN.checked _ cs k hcs hne
    · exact hN.checked j cs2 k hj hne

theorem detectAccel_empty (cfg : Config) (c : Cache) (sid : Sid) (he : ∀ k, accelEntry c sid k = Sid.invalid) :
    detectAccel cfg c sid = [] := by
  unfold detectAccel
  simp only
  have hf : (List.filter (fun k => accelEntry c sid k != Sid.invalid) (List.range cfg.stride)) = [] := by
    rw [List.filter_eq_nil_iff]
    intro k _
    simp [he k]
  rw [hf]
  have : (([] : List Nat).length < max 1 (cfg.stride - cfg.stride / 16)) := by simp; omega
  rw [if_pos this]

theorem noAccel_tryDetect {N : NFA} {cfg : Config} {c : Cache} (hI : Inv N cfg c) (hN : NoAccel c) {i : Nat} {cs : CState}
    (hcs : c.list.getD i none = some cs) :
    (tryDetect cfg c cs).1.accel = [] ∧ (tryDetect cfg c cs).1.accelChecked = true ∧ NoAccel (tryDetect cfg c cs).2 := by
  obtain ⟨hoff, hinv, hdead, _⟩ := hI.ids i cs hcs
  rcases tryDetect_eq cfg c cs with he | ⟨cs', he, hst, hid, hch', hch, hacc⟩
  · rw [he]
    have hc : cs.accelChecked = true := by
      unfold tryDetect at he
      split at he
      · rename_i h; exact h
      · exfalso
        have := congrArg (fun p => p.1.accelChecked) he
        simp at this
        rename_i hh
        exact hh this
    exact ⟨hN.noBytes i cs hcs, hc, hN⟩
  · rw [he]
    -- the row of an unchecked state is empty, so the detection finds nothing
    have hrow : ∀ k, accelEntry c cs.id k = Sid.invalid := by
      intro k
      unfold accelEntry
      rw [hinv, hdead]
      simp only [Bool.or_self, Bool.false_eq_true, ↓reduceIte]
      unfold Cache.lookupT
      split
      · rw [hoff]
        cases hx : decide (c.trans i k = Sid.invalid) with
        | true => exact of_decide_eq_true hx
        | false =>
          have hne : c.trans i k ≠ Sid.invalid := of_decide_eq_false hx
          have := hN.checked i cs k hcs hne
          rw [hch] at this; cases this
      · rfl
    have hdet := detectAccel_empty cfg c cs.id hrow
    rw [hdet] at hacc
    simp only [List.length_nil, Nat.lt_irrefl, false_and, ↓reduceIte] at hacc
    have hacc' : cs'.accel = [] := by rw [hacc]; exact hN.noBytes i cs hcs
    refine ⟨hacc', hch', ?_, ?_⟩
    · intro j cs2 hj
      rw [hoff, replace_getD hcs] at hj
      split at hj
      · cases hj; exact hacc'
      · exact hN.noBytes j cs2 hj
    · intro j cs2 k hj hne
      rw [hoff, replace_getD hcs] at hj
      split at hj
      · cases hj; exact hch'
      · exact hN.checked j cs2 k hj hne

theorem noAccel_determinize {N : NFA} {cfg : Config} {c : Cache} (hI : Inv N cfg c) (hN : NoAccel c) {cur : CState}
    {i : Nat} (hcur : c.list.getD i none = some cur) (hch : cur.accelChecked = true) (b : Nat) :
    ∀ r c1, determinize N cfg c cur b = (r, c1) → NoAccel c1 := by
  intro r c1 hd
  obtain ⟨hoff, _, _, _⟩ := hI.ids i cur hcur
  unfold determinize at hd
  cases hs : step N cfg cur.st b with
  | dead =>
    rw [hs] at hd
    simp only [Prod.mk.injEq] at hd
    obtain ⟨_, rfl⟩ := hd
    rw [hoff]
    exact noAccel_setTrans hN hcur hch
  | limit =>
    rw [hs] at hd
    simp only [Prod.mk.injEq] at hd
    obtain ⟨_, rfl⟩ := hd
    exact hN
  | next T =>
    rw [hs] at hd
    simp only at hd
    cases hf : c.findKey T.key with
    | some ex =>
      rw [hf] at hd
      simp only [Prod.mk.injEq] at hd
      obtain ⟨_, rfl⟩ := hd
      rw [hoff]
      exact noAccel_setTrans hN hcur hch
    | none =>
      rw [hf] at hd
      simp only at hd
      cases hi : c.insertNew cfg T with
      | some p =>
        obtain ⟨cs, c2⟩ := p
        rw [hi] at hd
        simp only [Prod.mk.injEq] at hd
        obtain ⟨_, rfl⟩ := hd
        obtain ⟨_, hext, _, _, _⟩ := insertNew_spec hI hi
        have hN2 := noAccel_insertNew hI hN hi
        -- the current state object is unchanged by the insertion
        obtain ⟨_, hl, _, _, _, _⟩ := insertNew_eqs hi
        have hcur2 : c2.list.getD i none = some cur := by
          rw [hl, getD_setAt _ _ _ _ hI.idx.2, if_neg (by have := getD_some_lt hcur; have := hI.idx.2; omega)]
          exact hcur
        rw [hoff]
        exact noAccel_setTrans hN2 hcur2 hch
      | none =>
        rw [hi] at hd
        simp only at hd
        split at hd
        · simp only [Prod.mk.injEq] at hd
          obtain ⟨_, rfl⟩ := hd
          exact hN
        · simp only [Prod.mk.injEq] at hd
          obtain ⟨_, rfl⟩ := hd
          exact noAccel_clearRebuild N c

theorem noAccel_getStart {N : NFA} {cfg : Config} {c : Cache} (hI : Inv N cfg c) (hN : NoAccel c) (h : Bytes) (pos : Nat)
    (anch : Bool) : ∀ ocur c1, getStart N cfg c h pos anch = (ocur, c1) → NoAccel c1 := by
  intro ocur c1 hg
  unfold getStart at hg
  simp only at hg
  split at hg
  · simp only [Prod.mk.injEq] at hg
    obtain ⟨_, rfl⟩ := hg
    exact hN
  · cases hf : c.findKey (startState N (kindAt h pos) anch).key with
    | some ex =>
      rw [hf] at hg
      simp only [Prod.mk.injEq] at hg
      obtain ⟨_, rfl⟩ := hg
      obtain ⟨_, j, hj⟩ := findKey_spec hf
      exact noAccel_tagStart hI hN hj _ _
    | none =>
      rw [hf] at hg
      simp only at hg
      cases hi : c.insertNew cfg (startState N (kindAt h pos) anch) with
      | none =>
        rw [hi] at hg
        simp only [Prod.mk.injEq] at hg
        obtain ⟨_, rfl⟩ := hg
        exact hN
      | some p =>
        obtain ⟨cs, c2⟩ := p
        rw [hi] at hg
        simp only [Prod.mk.injEq] at hg
        obtain ⟨_, rfl⟩ := hg
        obtain ⟨hI2, _, _, hget, _⟩ := insertNew_spec hI hi
        exact noAccel_tagStart hI2 (noAccel_insertNew hI hN hi) hget _ _

theorem accelJump_nil (h : Bytes) {cur : CState} (ha : cur.accel = []) (pos : Nat) : accelJump h cur pos = some pos := by
  unfold accelJump
  rw [ha]
  rfl

theorem lookupT_congr {c c' : Cache} (ht : c'.trans = c.trans) (hl : c'.list.length = c.list.length) (row k : Nat) :
    c'.lookupT row k = c.lookupT row k := by
  unfold Cache.lookupT Cache.rows
  rw [ht, hl]

theorem fastStep_some {N : NFA} {cfg : Config} {c : Cache} {h : Bytes} {pos : Nat} {sid n : Sid} {k : Nat}
    (hf : fastStep N cfg c h pos sid k = some n) :
    n.tagged = false ∧
    ((0 < k ∧ n = c.lookupT sid.off (cfg.cls (h.at pos))) ∨
     (k = 0 ∧ sid.off < c.rows ∧ n = c.trans sid.off (cfg.cls (h.at pos)))) := by
  unfold fastStep at hf
  split at hf
  · rename_i hk
    simp only at hf
    split at hf
    · cases hf
    · rename_i ht
      cases hf
      exact ⟨by simpa using ht, Or.inl ⟨hk, rfl⟩⟩
  · rename_i hk
    split at hf
    · rename_i hc
      simp only [Bool.and_eq_true, decide_eq_true_eq] at hc
      simp only at hf
      split at hf
      · cases hf
      · rename_i ht
        cases hf
        exact ⟨by simpa using ht, Or.inr ⟨by omega, hc.2, rfl⟩⟩
    · cases hf

/-! ### the invariant survives every search, whatever the cache went through before -/

theorem searchLoopC_inv {N : NFA} {cfg : Config} {h : Bytes} (hC : ClassSound N cfg) (hb : BytesOK h) :
    ∀ (fuel : Nat) (c : Cache) (pos : Nat) (sid : Sid) (last : Option Nat) (k : Nat), Inv N cfg c →
      Inv N cfg (searchLoopC N cfg h fuel c pos sid last k).2 := by
  intro fuel
  induction fuel with
  | zero => intro c pos sid last k hI; exact hI
  | succ fuel ih =>
    intro c pos sid last k hI
    rw [searchLoopC]
    by_cases hlt : pos < h.size
    · simp only [hlt, ↓reduceIte]
      cases hfs : fastStep N cfg c h pos sid k with
      | some n => exact ih _ _ _ _ _ hI
      | none =>
        simp only
        by_cases hsf : (sid.start && c.lookupT sid.off (cfg.cls (h.at pos)) != Sid.invalid &&
            c.lookupT sid.off (cfg.cls (h.at pos)) != Sid.deadS) = true
        · rw [if_pos hsf]; exact ih _ _ _ _ _ hI
        · rw [if_neg hsf]
          cases hgs : c.getState sid with
          | none => exact hI
          | some cur0 =>
            simp only
            obtain ⟨i1, _, i3, _, _, _, _⟩ := tryDetect_spec hI (getState_some hgs)
            generalize tryDetect cfg c cur0 = dc at *
            cases hj : accelJump h dc.1 pos with
            | none => exact i1
            | some pos' =>
              simp only
              by_cases hwb : (hasWB N && wbMatch N dc.1.st (h.at pos')) = true
              · rw [if_pos hwb]; exact i1
              · rw [if_neg hwb]
                by_cases hinv : dc.2.lookupT sid.off (cfg.cls (h.at pos')) = Sid.invalid
                · rw [if_pos hinv]
                  cases hd : determinize N cfg dc.2 dc.1 (h.at pos') with
                  | mk r c1 =>
                    obtain ⟨hI1, _⟩ := determinize_spec i1 hC i3 (hb pos') r c1 hd
                    cases r with
                    | dead => exact hI1
                    | next cs => exact ih _ _ _ _ _ hI1
                    | cleared => exact hI1
                    | fail => exact hI1
                · rw [if_neg hinv]
                  by_cases hdd : dc.2.lookupT sid.off (cfg.cls (h.at pos')) = Sid.deadS
                  · rw [if_pos hdd]; exact i1
                  · rw [if_neg hdd]; exact ih _ _ _ _ _ i1
    · simp only [hlt, ↓reduceIte]
      cases hgs : c.getState sid with
      | none => exact hI
      | some e => simp only; split <;> exact hI

theorem searchAtC_inv {N : NFA} {cfg : Config} {h : Bytes} (hC : ClassSound N cfg) (hb : BytesOK h) {c : Cache}
    (hI : Inv N cfg c) (startPos : Nat) : Inv N cfg (searchAtC N cfg c h startPos).2 := by
  unfold searchAtC
  split
  · exact hI
  · split
    · exact hI
    · cases hg : getStart N cfg c h startPos false with
      | mk ocur c1 =>
        obtain ⟨hI1, _⟩ := getStart_spec hI h startPos false ocur c1 hg
        cases ocur with
        | none => exact hI1
        | some cur => exact searchLoopC_inv hC hb _ _ _ _ _ _ hI1

theorem earliestLoopC_inv {N : NFA} {cfg : Config} {h : Bytes} (hC : ClassSound N cfg) (hb : BytesOK h) :
    ∀ (fuel : Nat) (c : Cache) (pos : Nat) (sid : Sid) (k : Nat), Inv N cfg c →
      Inv N cfg (earliestLoopC N cfg h fuel c pos sid k).2 := by
  intro fuel
  induction fuel with
  | zero => intro c pos sid k hI; exact hI
  | succ fuel ih =>
    intro c pos sid k hI
    rw [earliestLoopC]
    by_cases hlt : pos < h.size
    · simp only [hlt, ↓reduceIte]
      cases hfs : fastStepE N cfg c h pos sid k with
      | hit => exact hI
      | go n => exact ih _ _ _ _ hI
      | slow =>
        simp only
        by_cases hsf : (sid.start && c.lookupT sid.off (cfg.cls (h.at pos)) != Sid.invalid &&
            c.lookupT sid.off (cfg.cls (h.at pos)) != Sid.deadS) = true
        · rw [if_pos hsf]
          split
          · exact hI
          · exact ih _ _ _ _ hI
        · rw [if_neg hsf]
          cases hgs : c.getState sid with
          | none => exact hI
          | some cur0 =>
            simp only
            obtain ⟨i1, _, i3, _, _, _, _⟩ := tryDetect_spec hI (getState_some hgs)
            generalize tryDetect cfg c cur0 = dc at *
            cases hj : accelJump h dc.1 pos with
            | none => exact i1
            | some pos' =>
              simp only
              by_cases hwb : (hasWB N && wbFast dc.1.st (h.at pos')) = true
              · rw [if_pos hwb]; exact i1
              · rw [if_neg hwb]
                by_cases hinv : dc.2.lookupT sid.off (cfg.cls (h.at pos')) = Sid.invalid
                · rw [if_pos hinv]
                  cases hd : determinize N cfg dc.2 dc.1 (h.at pos') with
                  | mk r c1 =>
                    obtain ⟨hI1, _⟩ := determinize_spec i1 hC i3 (hb pos') r c1 hd
                    cases r with
                    | dead => exact hI1
                    | next cs =>
                      simp only
                      split
                      · exact hI1
                      · exact ih _ _ _ _ hI1
                    | cleared => exact hI1
                    | fail => exact hI1
                · rw [if_neg hinv]
                  by_cases hdd : dc.2.lookupT sid.off (cfg.cls (h.at pos')) = Sid.deadS
                  · rw [if_pos hdd]; exact i1
                  · rw [if_neg hdd]
                    split
                    · exact i1
                    · exact ih _ _ _ _ i1
    · simp only [hlt, ↓reduceIte]
      cases hgs : c.getState sid with
      | none => exact hI
      | some e => exact hI

theorem earliestC_inv {N : NFA} {cfg : Config} {h : Bytes} (hC : ClassSound N cfg) (hb : BytesOK h) {c : Cache}
    (hI : Inv N cfg c) (startPos : Nat) : Inv N cfg (earliestC N cfg c h startPos).2 := by
  unfold earliestC
  split
  · exact hI
  · split
    · exact hI
    · cases hg : getStart N cfg c h startPos false with
      | mk ocur c1 =>
        obtain ⟨hI1, _⟩ := getStart_spec hI h startPos false ocur c1 hg
        cases ocur with
        | none => exact hI1
        | some cur => exact earliestLoopC_inv hC hb _ _ _ _ _ hI1

/-! ### `searchAt` -/

theorem searchLoopC_sim {N : NFA} {cfg : Config} {h : Bytes} (hW : hasWB N = false) (hC : ClassSound N cfg)
    (hb : BytesOK h) : ∀ (fuel : Nat) (c : Cache) (pos : Nat) (sid : Sid) (last : Option Nat) (k : Nat) (S : DState),
    Inv N cfg c → NoAccel c → AtState c sid S →
    NoAccel (searchLoopC N cfg h fuel c pos sid last k).2 ∧
    ((searchLoopC N cfg h fuel c pos sid last k).1 = .gaveUp ∨
     (searchLoopC N cfg h fuel c pos sid last k).1 = searchLoopU N cfg h fuel pos S last) := by
  intro fuel
  induction fuel with
  | zero => intro c pos sid last k S _ hN _; exact ⟨hN, Or.inr rfl⟩
  | succ fuel ih =>
    intro c pos sid last k S hI hN hat
    obtain ⟨cur0, hgs, hcur0, hcn⟩ := hat.getState
    have hbb : h.at pos < 256 := hb pos
    by_cases hlt : pos < h.size
    · -- the uncached step
      have hU : searchLoopU N cfg h (fuel+1) pos S last =
          (match step N cfg S (h.at pos) with
           | .dead => .ok last
           | .limit => .gaveUp
           | .next T => searchLoopU N cfg h fuel (pos+1) T (if T.isMatch then some pos else last)) := by
        rw [searchLoopU]
        simp only [hlt, ↓reduceIte, hW, Bool.false_and, Bool.false_eq_true]
        cases step N cfg S (h.at pos) <;> rfl
      -- following a known, non-dead transition (in any cache in which the run is at `S`)
      have hfollow : ∀ (c' : Cache) (k' : Nat) (nx : Sid), Inv N cfg c' → NoAccel c' → AtState c' sid S →
          nx = c'.trans sid.off (cfg.cls (h.at pos)) → nx ≠ Sid.invalid → nx ≠ Sid.deadS →
          NoAccel (searchLoopC N cfg h fuel c' (pos+1) nx (if nx.mtch then some pos else last) k').2 ∧
          ((searchLoopC N cfg h fuel c' (pos+1) nx (if nx.mtch then some pos else last) k').1 = .gaveUp ∨
           (searchLoopC N cfg h fuel c' (pos+1) nx (if nx.mtch then some pos else last) k').1 =
             searchLoopU N cfg h (fuel+1) pos S last) := by
        intro c' k' nx hI' hN' hat' hnx hne hnd
        subst hnx
        rcases follow hW hI' hat' hbb hne with ⟨hd, _⟩ | ⟨_, T', hs, hat'', hm⟩
        · exact absurd hd hnd
        · rw [hU, hs]
          simp only
          rw [hm]
          exact ih c' (pos+1) _ _ k' T' hI' hN' hat''
      rw [searchLoopC]
      simp only [hlt, ↓reduceIte]
      cases hfs : fastStep N cfg c h pos sid k with
      | some n =>
        simp only
        obtain ⟨ht, hn⟩ := fastStep_some hfs
        have hn' : n = c.trans sid.off (cfg.cls (h.at pos)) := by
          rcases hn with ⟨_, hn⟩ | ⟨_, _, hn⟩
          · rw [hn, hat.lookupT]
          · exact hn
        obtain ⟨t1, t2, t3, t4⟩ := tagged_false ht
        have hne : n ≠ Sid.invalid := by intro he; rw [he] at t1; cases t1
        have hnd : n ≠ Sid.deadS := by intro he; rw [he] at t2; cases t2
        have := hfollow c (nextPhase k) n hI hN hat hn' hne hnd
        rw [t4] at this
        simpa using this
      | none =>
        simp only
        rw [hat.lookupT]
        by_cases hsf : (sid.start && c.trans sid.off (cfg.cls (h.at pos)) != Sid.invalid &&
            c.trans sid.off (cfg.cls (h.at pos)) != Sid.deadS) = true
        · rw [if_pos hsf]
          simp only [Bool.and_eq_true, bne_iff_ne, ne_eq] at hsf
          exact hfollow c 0 _ hI hN hat rfl hsf.1.2 hsf.2
        · rw [if_neg hsf, hgs]
          simp only
          obtain ⟨i1, i2, i3, i4, _, i6, i7⟩ := tryDetect_spec (cfg := cfg) hI hcur0
          obtain ⟨a1, a2, a3⟩ := noAccel_tryDetect (cfg := cfg) hI hN hcur0
          generalize tryDetect cfg c cur0 = dc at *
          rw [accelJump_nil h a1]
          simp only
          have hat2 : AtState dc.2 sid S := hat.ext i2
          have hlk : dc.2.lookupT sid.off (cfg.cls (h.at pos)) = c.trans sid.off (cfg.cls (h.at pos)) := by
            rw [hat2.lookupT, i6]
          have hdn : dc.1.st.nfa = S.nfa := by rw [i4]; exact hcn
          rw [hlk]
          simp only [hW, Bool.false_and, Bool.false_eq_true, ↓reduceIte]
          by_cases hinv : c.trans sid.off (cfg.cls (h.at pos)) = Sid.invalid
          · rw [if_pos hinv]
            cases hd : determinize N cfg dc.2 dc.1 (h.at pos) with
            | mk r c1 =>
              obtain ⟨hI1, hr⟩ := determinize_spec i1 hC i3 hbb r c1 hd
              have hN1 := noAccel_determinize i1 a3 i3 a2 (h.at pos) r c1 hd
              cases r with
              | dead =>
                simp only at hr ⊢
                refine ⟨hN1, Or.inr ?_⟩
                rw [hU, ← step_congr hW cfg hdn, hr.1]
              | next cs =>
                simp only at hr ⊢
                obtain ⟨⟨T, hs, hn, hm⟩, hget, hext⟩ := hr
                obtain ⟨_, ci, cd, cm⟩ := hI1.ids _ _ hget
                rw [hU, ← step_congr hW cfg hdn, hs]
                simp only
                rw [hm, ← cm]
                exact ih c1 (pos+1) cs.id _ 0 T hI1 hN1 ⟨ci, cd, cs, hget, hn.symm⟩
              | cleared => exact ⟨hN1, Or.inl rfl⟩
              | fail => exact ⟨hN1, Or.inl rfl⟩
          · rw [if_neg hinv]
            by_cases hdd : c.trans sid.off (cfg.cls (h.at pos)) = Sid.deadS
            · rw [if_pos hdd]
              refine ⟨a3, Or.inr ?_⟩
              rcases follow hW hI hat hbb hinv with ⟨_, hs⟩ | ⟨hnd, _⟩
              · rw [hU, hs]
              · exact absurd hdd hnd
            · rw [if_neg hdd]
              exact hfollow dc.2 0 _ i1 a3 hat2 (by rw [i6]) hinv hdd
    · rw [searchLoopC, searchLoopU]
      simp only [hlt, ↓reduceIte, hgs]
      rw [checkEOI_congr hW hcn]
      split
      · exact ⟨hN, Or.inr rfl⟩
      · exact ⟨hN, Or.inr rfl⟩

/-- what row 0 holds, if anything, is equivalent to the start state `S` (so an `InvalidState` id, whose offset is 0, may
    use it): true when the cache was never cleared (row 0 is empty) or when start states do not depend on the kind -/
def Row0OK (c : Cache) (S : DState) : Prop := ∀ cs, c.list.getD 0 none = some cs → cs.st.nfa = S.nfa

theorem row0OK_of {N : NFA} {cfg : Config} {c : Cache} (hI : Inv N cfg c)
    (h0 : c.clearCount = 0 ∨ noStartLookB N = true) (kind : StartKind) : Row0OK c (startState N kind false) := by
  intro cs hcs
  rcases h0 with h0 | h0
  · rw [hI.row0 h0] at hcs; cases hcs
  · rw [hI.row0st cs hcs]; exact startState_noStart h0 _ _ _

theorem getState_invalid (c : Cache) : c.getState Sid.invalid = none := by simp [Sid.invalid, Cache.getState]

/-- an `InvalidState` start id (the start state could not be cached): the slow path gives up; the unrolled block reads
    row 0, which is harmless when `Row0OK` -/
theorem searchLoopC_invalid {N : NFA} {cfg : Config} {h : Bytes} (hW : hasWB N = false) (hC : ClassSound N cfg)
    (hb : BytesOK h) {c : Cache} (hI : Inv N cfg c) (hN : NoAccel c) {S : DState} (h0 : Row0OK c S) {pos : Nat}
    (hlt : pos < h.size) (fuel : Nat) (last : Option Nat) :
    NoAccel (searchLoopC N cfg h (fuel+1) c pos Sid.invalid last 0).2 ∧
    ((searchLoopC N cfg h (fuel+1) c pos Sid.invalid last 0).1 = .gaveUp ∨
     (searchLoopC N cfg h (fuel+1) c pos Sid.invalid last 0).1 = searchLoopU N cfg h (fuel+1) pos S last) := by
  rw [searchLoopC]
  simp only [hlt, ↓reduceIte]
  cases hfs : fastStep N cfg c h pos Sid.invalid 0 with
  | none =>
    simp only
    have hst : Sid.invalid.start = false := rfl
    rw [getState_invalid, hst]
    simp only [Bool.false_and, Bool.false_eq_true, ↓reduceIte]
    exact ⟨hN, Or.inl trivial⟩
  | some n =>
    simp only
    obtain ⟨ht, hn⟩ := fastStep_some hfs
    obtain ⟨t1, t2, t3, t4⟩ := tagged_false ht
    have hne : n ≠ Sid.invalid := by intro he; rw [he] at t1; cases t1
    have hoff : Sid.invalid.off = 0 := rfl
    have hn0 : n = c.trans 0 (cfg.cls (h.at pos)) := by
      rcases hn with ⟨hk, _⟩ | ⟨_, _, hn⟩
      · omega
      · rw [hoff] at hn; exact hn
    rcases hI.trans 0 (cfg.cls (h.at pos)) with hi | ⟨S0, hS0, _⟩
    · exact absurd (hn0.trans hi) hne
    · have hat0 : AtState c { off := 0 } S := ⟨rfl, rfl, S0, hS0, h0 S0 hS0⟩
      rcases follow hW hI hat0 (hb pos) (by rw [← hn0]; exact hne) with ⟨hd, _⟩ | ⟨_, T', hs, hat', hm⟩
      · exfalso
        have : n = Sid.deadS := hn0.trans hd
        rw [this] at t2; cases t2
      · have hU : searchLoopU N cfg h (fuel+1) pos S last = searchLoopU N cfg h fuel (pos+1) T' last := by
          rw [searchLoopU]
          simp only [hlt, ↓reduceIte, hW, Bool.false_and, Bool.false_eq_true, hs]
          have : T'.isMatch = false := by rw [hm, ← hn0]; exact t4
          rw [this]
          simp
        rw [hU]
        have hn' : c.trans ({ off := 0 } : Sid).off (cfg.cls (h.at pos)) = n := hn0.symm
        rw [hn'] at hat'
        exact searchLoopC_sim hW hC hb fuel c (pos+1) n last (nextPhase 0) T' hI hN hat'

/-- (a) for `searchAt`: on a cache satisfying the invariant on which acceleration is off, the cached search either gives
    up (NFA fallback) or returns exactly what the search without a cache returns; the invariant holds again afterwards
    and acceleration is still off.  Every capacity, every clear limit.
    `h0`: the cache was never cleared, or the NFA has no `^`/`\A` state. -/
theorem searchAtC_eq {N : NFA} {cfg : Config} {h : Bytes} {c : Cache} (hW : hasWB N = false) (hC : ClassSound N cfg)
    (hb : BytesOK h) (hI : Inv N cfg c) (hN : NoAccel c) (h0 : c.clearCount = 0 ∨ noStartLookB N = true)
    {startPos : Nat} (hp : startPos < h.size) :
    Inv N cfg (searchAtC N cfg c h startPos).2 ∧ NoAccel (searchAtC N cfg c h startPos).2 ∧
    ((searchAtC N cfg c h startPos).1 = .gaveUp ∨ (searchAtC N cfg c h startPos).1 = searchAtU N cfg h startPos) := by
  refine ⟨searchAtC_inv hC hb hI startPos, ?_⟩
  unfold searchAtC searchAtU
  have hgt : ¬ startPos > h.size := by omega
  simp only [hgt, ↓reduceIte]
  by_cases ha : alwaysAnchored N = true ∧ startPos > 0
  · simp only [ha, and_self, ↓reduceIte]
    exact ⟨hN, Or.inr trivial⟩
  · rw [if_neg ha, if_neg ha]
    cases hg : getStart N cfg c h startPos false with
    | mk ocur c1 =>
      obtain ⟨hI1, _, hcc, hcur⟩ := getStart_spec hI h startPos false ocur c1 hg
      have hN1 := noAccel_getStart hI hN h startPos false ocur c1 hg
      cases ocur with
      | none => exact ⟨hN1, Or.inl rfl⟩
      | some cur =>
        simp only
        obtain ⟨hn, hid | ⟨hi, hd, hget⟩⟩ := hcur cur rfl
        · obtain ⟨hid, rfl⟩ := hid
          have hf : h.size + 1 - startPos = (h.size - startPos) + 1 := by omega
          rw [hid, hf]
          exact searchLoopC_invalid hW hC hb hI hN (row0OK_of hI h0 _) hp _ _
        · exact searchLoopC_sim hW hC hb _ c1 startPos cur.id none 0 _ hI1 hN1 ⟨hi, hd, cur, hget, hn⟩

/-! ### `searchEarliestMatch` -/

theorem fastStepE_spec {N : NFA} {cfg : Config} {c : Cache} {h : Bytes} {pos : Nat} {sid : Sid} {k : Nat} :
    (fastStepE N cfg c h pos sid k = .slow) ∨
    (∃ n, (fastStepE N cfg c h pos sid k = .hit ∧ n.mtch = true ∧ n.tagged = true ∨
           fastStepE N cfg c h pos sid k = .go n ∧ n.tagged = false) ∧
      ((0 < k ∧ n = c.lookupT sid.off (cfg.cls (h.at pos))) ∨
       (k = 0 ∧ sid.off < c.rows ∧ n = c.trans sid.off (cfg.cls (h.at pos))))) := by
  unfold fastStepE
  split
  · rename_i hk
    simp only
    split
    · rename_i ht
      split
      · rename_i hm; exact Or.inr ⟨_, Or.inl ⟨rfl, hm, ht⟩, Or.inl ⟨hk, rfl⟩⟩
      · exact Or.inl rfl
    · rename_i ht
      exact Or.inr ⟨_, Or.inr ⟨rfl, by simpa using ht⟩, Or.inl ⟨hk, rfl⟩⟩
  · rename_i hk
    split
    · rename_i hc
      simp only [Bool.and_eq_true, decide_eq_true_eq] at hc
      simp only
      split
      · rename_i ht
        split
        · rename_i hm; exact Or.inr ⟨_, Or.inl ⟨rfl, hm, ht⟩, Or.inr ⟨by omega, hc.2, rfl⟩⟩
        · exact Or.inl rfl
      · rename_i ht
        exact Or.inr ⟨_, Or.inr ⟨rfl, by simpa using ht⟩, Or.inr ⟨by omega, hc.2, rfl⟩⟩
    · exact Or.inl rfl

theorem earliestLoopC_sim {N : NFA} {cfg : Config} {h : Bytes} (hW : hasWB N = false) (hC : ClassSound N cfg)
    (hb : BytesOK h) : ∀ (fuel : Nat) (c : Cache) (pos : Nat) (sid : Sid) (k : Nat) (S : DState),
    Inv N cfg c → NoAccel c → AtState c sid S →
    NoAccel (earliestLoopC N cfg h fuel c pos sid k).2 ∧
    ((earliestLoopC N cfg h fuel c pos sid k).1 = .gaveUp ∨
     (earliestLoopC N cfg h fuel c pos sid k).1 = earliestLoopU N cfg h fuel pos S) := by
  intro fuel
  induction fuel with
  | zero => intro c pos sid k S _ hN _; exact ⟨hN, Or.inr rfl⟩
  | succ fuel ih =>
    intro c pos sid k S hI hN hat
    obtain ⟨cur0, hgs, hcur0, hcn⟩ := hat.getState
    have hbb : h.at pos < 256 := hb pos
    by_cases hlt : pos < h.size
    · have hU : earliestLoopU N cfg h (fuel+1) pos S =
          (match step N cfg S (h.at pos) with
           | .dead => .ok false
           | .limit => .gaveUp
           | .next T => if T.isMatch then .ok true else earliestLoopU N cfg h fuel (pos+1) T) := by
        rw [earliestLoopU]
        simp only [hlt, ↓reduceIte, hW, Bool.false_and, Bool.false_eq_true]
        cases step N cfg S (h.at pos) <;> rfl
      have hfollow : ∀ (c' : Cache) (k' : Nat) (nx : Sid), Inv N cfg c' → NoAccel c' → AtState c' sid S →
          nx = c'.trans sid.off (cfg.cls (h.at pos)) → nx ≠ Sid.invalid → nx ≠ Sid.deadS →
          NoAccel (if nx.mtch then ((Outcome.ok true : Outcome Bool), c') else earliestLoopC N cfg h fuel c' (pos+1) nx k').2 ∧
          ((if nx.mtch then ((Outcome.ok true : Outcome Bool), c') else earliestLoopC N cfg h fuel c' (pos+1) nx k').1 = .gaveUp ∨
           (if nx.mtch then ((Outcome.ok true : Outcome Bool), c') else earliestLoopC N cfg h fuel c' (pos+1) nx k').1 =
             earliestLoopU N cfg h (fuel+1) pos S) := by
        intro c' k' nx hI' hN' hat' hnx hne hnd
        subst hnx
        rcases follow hW hI' hat' hbb hne with ⟨hd, _⟩ | ⟨_, T', hs, hat'', hm⟩
        · exact absurd hd hnd
        · rw [hU, hs]
          simp only
          rw [hm]
          split
          · exact ⟨hN', Or.inr rfl⟩
          · exact ih c' (pos+1) _ k' T' hI' hN' hat''
      rw [earliestLoopC]
      simp only [hlt, ↓reduceIte]
      rcases fastStepE_spec (N := N) (cfg := cfg) (c := c) (h := h) (pos := pos) (sid := sid) (k := k) with
        hs | ⟨n, hcase, hn⟩
      · rw [hs]
        simp only
        rw [hat.lookupT]
        by_cases hsf : (sid.start && c.trans sid.off (cfg.cls (h.at pos)) != Sid.invalid &&
            c.trans sid.off (cfg.cls (h.at pos)) != Sid.deadS) = true
        · rw [if_pos hsf]
          simp only [Bool.and_eq_true, bne_iff_ne, ne_eq] at hsf
          exact hfollow c 0 _ hI hN hat rfl hsf.1.2 hsf.2
        · rw [if_neg hsf, hgs]
          simp only
          obtain ⟨i1, i2, i3, i4, _, i6, i7⟩ := tryDetect_spec (cfg := cfg) hI hcur0
          obtain ⟨a1, a2, a3⟩ := noAccel_tryDetect (cfg := cfg) hI hN hcur0
          generalize tryDetect cfg c cur0 = dc at *
          rw [accelJump_nil h a1]
          simp only
          have hat2 : AtState dc.2 sid S := hat.ext i2
          have hlk : dc.2.lookupT sid.off (cfg.cls (h.at pos)) = c.trans sid.off (cfg.cls (h.at pos)) := by
            rw [hat2.lookupT, i6]
          have hdn : dc.1.st.nfa = S.nfa := by rw [i4]; exact hcn
          rw [hlk]
          simp only [hW, Bool.false_and, Bool.false_eq_true, ↓reduceIte]
          by_cases hinv : c.trans sid.off (cfg.cls (h.at pos)) = Sid.invalid
          · rw [if_pos hinv]
            cases hd : determinize N cfg dc.2 dc.1 (h.at pos) with
            | mk r c1 =>
              obtain ⟨hI1, hr⟩ := determinize_spec i1 hC i3 hbb r c1 hd
              have hN1 := noAccel_determinize i1 a3 i3 a2 (h.at pos) r c1 hd
              cases r with
              | dead =>
                simp only at hr ⊢
                refine ⟨hN1, Or.inr ?_⟩
                rw [hU, ← step_congr hW cfg hdn, hr.1]
              | next cs =>
                simp only at hr ⊢
                obtain ⟨⟨T, hs, hn, hm⟩, hget, hext⟩ := hr
                obtain ⟨_, ci, cd, cm⟩ := hI1.ids _ _ hget
                rw [hU, ← step_congr hW cfg hdn, hs]
                simp only
                rw [hm, ← cm]
                split
                · exact ⟨hN1, Or.inr rfl⟩
                · exact ih c1 (pos+1) cs.id 0 T hI1 hN1 ⟨ci, cd, cs, hget, hn.symm⟩
              | cleared => exact ⟨hN1, Or.inl rfl⟩
              | fail => exact ⟨hN1, Or.inl rfl⟩
          · rw [if_neg hinv]
            by_cases hdd : c.trans sid.off (cfg.cls (h.at pos)) = Sid.deadS
            · rw [if_pos hdd]
              refine ⟨a3, Or.inr ?_⟩
              rcases follow hW hI hat hbb hinv with ⟨_, hs⟩ | ⟨hnd, _⟩
              · rw [hU, hs]
              · exact absurd hdd hnd
            · rw [if_neg hdd]
              exact hfollow dc.2 0 _ i1 a3 hat2 (by rw [i6]) hinv hdd
      · have hn' : n = c.trans sid.off (cfg.cls (h.at pos)) := by
          rcases hn with ⟨_, hn⟩ | ⟨_, _, hn⟩
          · rw [hn, hat.lookupT]
          · exact hn
        rcases hcase with ⟨hs, hm, _⟩ | ⟨hs, ht⟩
        · -- a match-tagged target seen by the unrolled block
          rw [hs]
          simp only
          have hne : n ≠ Sid.invalid := by intro he; rw [he] at hm; cases hm
          have hnd : n ≠ Sid.deadS := by intro he; rw [he] at hm; cases hm
          have := hfollow c 0 n hI hN hat hn' hne hnd
          rw [hm] at this
          simpa using this
        · rw [hs]
          simp only
          obtain ⟨t1, t2, t3, t4⟩ := tagged_false ht
          have hne : n ≠ Sid.invalid := by intro he; rw [he] at t1; cases t1
          have hnd : n ≠ Sid.deadS := by intro he; rw [he] at t2; cases t2
          have := hfollow c (nextPhase k) n hI hN hat hn' hne hnd
          rw [t4] at this
          simpa using this
    · rw [earliestLoopC, earliestLoopU]
      simp only [hlt, ↓reduceIte, hgs]
      rw [checkEOI_congr hW hcn]
      exact ⟨hN, Or.inr rfl⟩

theorem earliestLoopC_invalid {N : NFA} {cfg : Config} {h : Bytes} (hW : hasWB N = false) (hC : ClassSound N cfg)
    (hb : BytesOK h) {c : Cache} (hI : Inv N cfg c) (hN : NoAccel c) {S : DState} (h0 : Row0OK c S) {pos : Nat}
    (hlt : pos < h.size) (fuel : Nat) :
    NoAccel (earliestLoopC N cfg h (fuel+1) c pos Sid.invalid 0).2 ∧
    ((earliestLoopC N cfg h (fuel+1) c pos Sid.invalid 0).1 = .gaveUp ∨
     (earliestLoopC N cfg h (fuel+1) c pos Sid.invalid 0).1 = earliestLoopU N cfg h (fuel+1) pos S) := by
  rw [earliestLoopC]
  simp only [hlt, ↓reduceIte]
  have hoff : Sid.invalid.off = 0 := rfl
  have hU : earliestLoopU N cfg h (fuel+1) pos S =
      (match step N cfg S (h.at pos) with
       | .dead => .ok false
       | .limit => .gaveUp
       | .next T => if T.isMatch then .ok true else earliestLoopU N cfg h fuel (pos+1) T) := by
    rw [earliestLoopU]
    simp only [hlt, ↓reduceIte, hW, Bool.false_and, Bool.false_eq_true]
    cases step N cfg S (h.at pos) <;> rfl
  -- a non-invalid entry of row 0 describes the step from `S`
  have hrow : ∀ n, n = c.trans 0 (cfg.cls (h.at pos)) → n ≠ Sid.invalid → n ≠ Sid.deadS →
      ∃ T', step N cfg S (h.at pos) = .next T' ∧ AtState c n T' ∧ T'.isMatch = n.mtch := by
    intro n hn hne hnd
    rcases hI.trans 0 (cfg.cls (h.at pos)) with hi | ⟨S0, hS0, _⟩
    · exact absurd (hn.trans hi) hne
    · have hat0 : AtState c { off := 0 } S := ⟨rfl, rfl, S0, hS0, h0 S0 hS0⟩
      rcases follow hW hI hat0 (hb pos) (by rw [← hn]; exact hne) with ⟨hd, _⟩ | ⟨_, T', hs, hat', hm⟩
      · exact absurd (hn.trans hd) hnd
      · have hn' : c.trans ({ off := 0 } : Sid).off (cfg.cls (h.at pos)) = n := hn.symm
        rw [hn'] at hat' hm
        exact ⟨T', hs, hat', hm⟩
  rcases fastStepE_spec (N := N) (cfg := cfg) (c := c) (h := h) (pos := pos) (sid := Sid.invalid) (k := 0) with
    hs | ⟨n, hcase, hn⟩
  · rw [hs]
    simp only
    have hst : Sid.invalid.start = false := rfl
    rw [getState_invalid, hst]
    simp only [Bool.false_and, Bool.false_eq_true, ↓reduceIte]
    exact ⟨hN, Or.inl trivial⟩
  · have hn0 : n = c.trans 0 (cfg.cls (h.at pos)) := by
      rcases hn with ⟨hk, _⟩ | ⟨_, _, hn⟩
      · omega
      · rw [hoff] at hn; exact hn
    rcases hcase with ⟨hs, hm, _⟩ | ⟨hs, ht⟩
    · rw [hs]
      simp only
      have hne : n ≠ Sid.invalid := by intro he; rw [he] at hm; cases hm
      have hnd : n ≠ Sid.deadS := by intro he; rw [he] at hm; cases hm
      obtain ⟨T', hst, _, hmm⟩ := hrow n hn0 hne hnd
      refine ⟨hN, Or.inr ?_⟩
      rw [hU, hst]
      simp only
      rw [hmm, hm]
      rfl
    · rw [hs]
      simp only
      obtain ⟨t1, t2, t3, t4⟩ := tagged_false ht
      have hne : n ≠ Sid.invalid := by intro he; rw [he] at t1; cases t1
      have hnd : n ≠ Sid.deadS := by intro he; rw [he] at t2; cases t2
      obtain ⟨T', hst, hat', hmm⟩ := hrow n hn0 hne hnd
      rw [hU, hst]
      simp only
      rw [hmm, t4]
      simp only [Bool.false_eq_true, ↓reduceIte]
      exact earliestLoopC_sim hW hC hb fuel c (pos+1) _ (nextPhase 0) T' hI hN hat'

/-- (a) for `searchEarliestMatch` (`IsMatch`, `IsMatchAt`) -/
theorem earliestC_eq {N : NFA} {cfg : Config} {h : Bytes} {c : Cache} (hW : hasWB N = false) (hC : ClassSound N cfg)
    (hb : BytesOK h) (hI : Inv N cfg c) (hN : NoAccel c) (h0 : c.clearCount = 0 ∨ noStartLookB N = true)
    {startPos : Nat} (hp : startPos < h.size) :
    Inv N cfg (earliestC N cfg c h startPos).2 ∧ NoAccel (earliestC N cfg c h startPos).2 ∧
    ((earliestC N cfg c h startPos).1 = .gaveUp ∨ (earliestC N cfg c h startPos).1 = earliestU N cfg h startPos) := by
  refine ⟨earliestC_inv hC hb hI startPos, ?_⟩
  unfold earliestC earliestU
  have hgt : ¬ startPos > h.size := by omega
  simp only [hgt, ↓reduceIte]
  by_cases ha : alwaysAnchored N = true ∧ startPos > 0
  · simp only [ha, and_self, ↓reduceIte]
    exact ⟨hN, Or.inr trivial⟩
  · rw [if_neg ha, if_neg ha]
    cases hg : getStart N cfg c h startPos false with
    | mk ocur c1 =>
      obtain ⟨hI1, _, hcc, hcur⟩ := getStart_spec hI h startPos false ocur c1 hg
      have hN1 := noAccel_getStart hI hN h startPos false ocur c1 hg
      cases ocur with
      | none => exact ⟨hN1, Or.inl rfl⟩
      | some cur =>
        simp only
        obtain ⟨hn, hid | ⟨hi, hd, hget⟩⟩ := hcur cur rfl
        · obtain ⟨hid, rfl⟩ := hid
          have hf : h.size + 1 - startPos = (h.size - startPos) + 1 := by omega
          rw [hid, hf]
          exact earliestLoopC_invalid hW hC hb hI hN (row0OK_of hI h0 _) hp _
        · exact earliestLoopC_sim hW hC hb _ c1 startPos cur.id 0 _ hI1 hN1 ⟨hi, hd, cur, hget, hn⟩


/-! ### `SearchAtAnchored` when no clear is allowed -/

/-- more fuel than positions left does not change the uncached anchored loop -/
theorem anchoredLoopU_fuel (N : NFA) (cfg : Config) (h : Bytes) : ∀ (fuel pos : Nat) (S : DState) (last : Option Nat)
    (k : Nat), pos ≤ h.size → h.size + 1 - pos ≤ fuel →
    anchoredLoopU N cfg h (fuel + k) pos S last = anchoredLoopU N cfg h fuel pos S last := by
  intro fuel
  induction fuel with
  | zero => intro pos S last k hp hf; omega
  | succ fuel ih =>
    intro pos S last k hp hf
    have : fuel + 1 + k = (fuel + k) + 1 := by omega
    rw [this, anchoredLoopU, anchoredLoopU]
    by_cases hlt : pos < h.size
    · simp only [hlt, ↓reduceIte]
      split
      · rfl
      · cases step N cfg S (h.at pos) with
        | dead => rfl
        | limit => rfl
        | next T => exact ih (pos+1) T _ k (by omega) (by omega)
    · simp only [hlt, ↓reduceIte]


theorem determinize_not_cleared {N : NFA} {cfg : Config} (hm : cfg.maxClears = 0) (c : Cache) (cur : CState) (b : Nat)
    (c1 : Cache) : determinize N cfg c cur b ≠ (.cleared, c1) := by
  unfold determinize
  intro hd
  split at hd
  · cases hd
  · cases hd
  · split at hd
    · cases hd
    · split at hd
      · cases hd
      · rw [if_pos (by omega)] at hd
        cases hd

theorem anchoredLoopC_sim {N : NFA} {cfg : Config} {h : Bytes} (hW : hasWB N = false) (hC : ClassSound N cfg)
    (hb : BytesOK h) (hm0 : cfg.maxClears = 0) :
    ∀ (fuel : Nat) (c : Cache) (pos : Nat) (sid : Sid) (last : Option Nat) (S : DState),
    Inv N cfg c → AtState c sid S →
    Inv N cfg (anchoredLoopC N cfg h fuel c pos sid last).2 ∧
    ((anchoredLoopC N cfg h fuel c pos sid last).1 = .gaveUp ∨
     (anchoredLoopC N cfg h fuel c pos sid last).1 = anchoredLoopU N cfg h fuel pos S last) := by
  intro fuel
  induction fuel with
  | zero => intro c pos sid last S hI _; exact ⟨hI, Or.inr rfl⟩
  | succ fuel ih =>
    intro c pos sid last S hI hat
    obtain ⟨cur, hgs, hcur, hcn⟩ := hat.getState
    have hbb : h.at pos < 256 := hb pos
    by_cases hlt : pos < h.size
    · have hU : anchoredLoopU N cfg h (fuel+1) pos S last =
          (match step N cfg S (h.at pos) with
           | .dead => .ok last
           | .limit => .gaveUp
           | .next T => anchoredLoopU N cfg h fuel (pos+1) T (if T.isMatch then some pos else last)) := by
        rw [anchoredLoopU]
        simp only [hlt, ↓reduceIte, hW, Bool.false_and, Bool.false_eq_true]
        cases step N cfg S (h.at pos) <;> rfl
      rw [anchoredLoopC]
      simp only [hlt, ↓reduceIte, hW, Bool.false_and, Bool.false_eq_true]
      rw [hat.lookupT]
      by_cases hinv : c.trans sid.off (cfg.cls (h.at pos)) = Sid.invalid
      · rw [if_pos hinv, hgs]
        simp only
        cases hd : determinize N cfg c cur (h.at pos) with
        | mk r c1 =>
          obtain ⟨hI1, hr⟩ := determinize_spec hI hC hcur hbb r c1 hd
          cases r with
          | dead =>
            simp only at hr ⊢
            refine ⟨hI1, Or.inr ?_⟩
            rw [hU, ← step_congr hW cfg hcn, hr.1]
          | next cs =>
            simp only at hr ⊢
            obtain ⟨⟨T, hs, hn, hm⟩, hget, hext⟩ := hr
            obtain ⟨_, ci, cd, cm⟩ := hI1.ids _ _ hget
            rw [hU, ← step_congr hW cfg hcn, hs]
            simp only
            rw [hm, ← cm]
            exact ih c1 (pos+1) cs.id _ T hI1 ⟨ci, cd, cs, hget, hn.symm⟩
          | cleared => exact absurd hd (determinize_not_cleared hm0 c cur _ c1)
          | fail => exact ⟨hI1, Or.inl rfl⟩
      · rw [if_neg hinv]
        rcases follow hW hI hat hbb hinv with ⟨hd, hs⟩ | ⟨hnd, T', hs, hat', hm⟩
        · rw [if_pos hd]
          exact ⟨hI, Or.inr (by rw [hU, hs])⟩
        · rw [if_neg hnd, hU, hs]
          simp only
          rw [hm]
          exact ih c (pos+1) _ _ T' hI hat'
    · rw [anchoredLoopC, anchoredLoopU]
      simp only [hlt, ↓reduceIte, hgs]
      rw [checkEOI_congr hW hcn]
      split
      · exact ⟨hI, Or.inr rfl⟩
      · exact ⟨hI, Or.inr rfl⟩

theorem anchoredLoopC_invalid {N : NFA} {cfg : Config} {h : Bytes} {c : Cache} (hW : hasWB N = false) (hI : Inv N cfg c)
    (h0 : c.list.getD 0 none = none) {pos : Nat} (hlt : pos < h.size) (fuel : Nat) (last : Option Nat) :
    anchoredLoopC N cfg h (fuel+1) c pos Sid.invalid last = (.gaveUp, c) := by
  have hinv : c.lookupT Sid.invalid.off (cfg.cls (h.at pos)) = Sid.invalid := by
    unfold Cache.lookupT
    split
    · rcases hI.trans 0 (cfg.cls (h.at pos)) with hi | ⟨S, hS, _⟩
      · exact hi
      · rw [h0] at hS; cases hS
    · rfl
  rw [anchoredLoopC]
  simp only [hlt, ↓reduceIte, hW, Bool.false_and, Bool.false_eq_true, hinv]
  simp [Sid.invalid, Cache.getState]

/-- (a) for `SearchAtAnchored`, ONLY when the configuration allows no cache clear: with `maxClears > 0` the loop
    restarts from the start state after a clear and the statement is false (`Cx.Proofs.Dfa.anchored_clear_visible`) -/
theorem anchoredC_eq {N : NFA} {cfg : Config} {h : Bytes} {c : Cache} (hW : hasWB N = false) (hC : ClassSound N cfg)
    (hb : BytesOK h) (hm0 : cfg.maxClears = 0) (hI : Inv N cfg c) (h0 : c.clearCount = 0) {at_ : Nat} (hp : at_ < h.size) :
    Inv N cfg (anchoredC N cfg c h at_).2 ∧
    ((anchoredC N cfg c h at_).1 = .gaveUp ∨ (anchoredC N cfg c h at_).1 = anchoredU N cfg h at_) := by
  unfold anchoredC anchoredU
  cases hg : getStart N cfg c h at_ true with
  | mk ocur c1 =>
    obtain ⟨hI1, _, hcc, hcur⟩ := getStart_spec hI h at_ true ocur c1 hg
    cases ocur with
    | none => exact ⟨hI1, Or.inl rfl⟩
    | some cur =>
      simp only
      obtain ⟨hn, hid | ⟨hi, hd, hget⟩⟩ := hcur cur rfl
      · obtain ⟨hid, rfl⟩ := hid
        have hf : h.size + cfg.maxClears + 2 - at_ = (h.size + 1 - at_) + 1 := by omega
        rw [hid, hf, anchoredLoopC_invalid hW hI (hI.row0 h0) hp]
        exact ⟨hI, Or.inl rfl⟩
      · have hf : h.size + cfg.maxClears + 2 - at_ = (h.size + 1 - at_) + 1 := by omega
        have := anchoredLoopC_sim hW hC hb hm0 (h.size + 1 - at_ + 1) c1 at_ cur.id none _ hI1 ⟨hi, hd, cur, hget, hn⟩
        rw [hf]
        refine ⟨this.1, ?_⟩
        rcases this.2 with hg | he
        · exact Or.inl hg
        · right
          rw [he]
          exact anchoredLoopU_fuel N cfg h _ _ _ _ 1 (by omega) (by omega)

/-! ### the invariant survives `SearchAtAnchored` also when it clears and restarts -/

theorem anchoredLoopC_inv {N : NFA} {cfg : Config} {h : Bytes} (hC : ClassSound N cfg) (hb : BytesOK h) :
    ∀ (fuel : Nat) (c : Cache) (pos : Nat) (sid : Sid) (last : Option Nat), Inv N cfg c →
      Inv N cfg (anchoredLoopC N cfg h fuel c pos sid last).2 := by
  intro fuel
  induction fuel with
  | zero => intro c pos sid last hI; exact hI
  | succ fuel ih =>
    intro c pos sid last hI
    rw [anchoredLoopC]
    cases hgs : c.getState sid with
    | none =>
      simp only
      split
      · simp only [Bool.and_false, Bool.false_eq_true, ↓reduceIte]
        split
        · exact hI
        · split
          · exact hI
          · exact ih _ _ _ _ hI
      · exact hI
    | some cur =>
      simp only
      split
      · split
        · exact hI
        · split
          · cases hd : determinize N cfg c cur (h.at pos) with
            | mk r c1 =>
              obtain ⟨hI1, _⟩ := determinize_spec hI hC (getState_some hgs) (hb pos) r c1 hd
              cases r with
              | dead => exact hI1
              | next cs => exact ih _ _ _ _ hI1
              | cleared =>
                simp only
                cases hg : getStart N cfg c1 h pos true with
                | mk ocur c2 =>
                  obtain ⟨hI2, _⟩ := getStart_spec hI1 h pos true ocur c2 hg
                  cases ocur with
                  | none => exact hI2
                  | some st => exact ih _ _ _ _ hI2
              | fail => exact hI1
          · split
            · exact hI
            · exact ih _ _ _ _ hI
      · split <;> exact hI

theorem anchoredC_inv {N : NFA} {cfg : Config} {h : Bytes} (hC : ClassSound N cfg) (hb : BytesOK h) {c : Cache}
    (hI : Inv N cfg c) (at_ : Nat) : Inv N cfg (anchoredC N cfg c h at_).2 := by
  unfold anchoredC
  cases hg : getStart N cfg c h at_ true with
  | mk ocur c1 =>
    obtain ⟨hI1, _⟩ := getStart_spec hI h at_ true ocur c1 hg
    cases ocur with
    | none => exact hI1
    | some cur => exact anchoredLoopC_inv hC hb _ _ _ _ _ hI1

end Cx.Dfa
