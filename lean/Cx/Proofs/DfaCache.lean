import Cx.Model.Dfa
/-
  Cx.Proofs.DfaCache — (a) MEMOISATION IS INVISIBLE.

  The cached searches of `Cx.Model.Dfa` (`searchAtC`, `earliestC`, `anchoredC`: state ids, flat transition table per
  byte class, start table, capacity check, clear-and-reinsert, give-up, exact state acceleration, the 4x unrolled
  block) against the same searches on state VALUES (`searchAtU`, `earliestU`, `anchoredU`).

  Invariant `Inv`: ids are consistent with the slot a state sits in; EVERY TABLE ENTRY `(S, class k) ↦ T` SATISFIES
  `T ≃ step S b` for every byte `b` of class `k` (`TransOK`), a dead entry means `step S b = dead`; start-table
  entries point at the start state of their kind; fresh ids are fresh; A STATE OBJECT THAT CARRIES EXIT BYTES LOOPS
  BACK TO ITSELF (`≃`) ON EVERY OTHER BYTE (`AccelOK`, established by `detectAccelExact` from a completely known row).
  It holds for `Cache.empty` and is preserved by `setTrans` (given `TransOK`), `insertNew`, `tagStart`, `clearRebuild`,
  `tryDetect`, `determinize`, `getStart` and by the three searches, for every capacity and every clear limit, whatever
  the cache went through before.

  `≃` (`Eqv`) is equality of the NFA-state list, of the match flag, of the look-behind context, and — when the automaton
  has `\b`/`\B` — of `isFromWord` (`isFromWord` is computed from the first byte of the class that reached the state; it is
  irrelevant without word boundaries).  `step` and `checkEOI` respect it (`step_congr`, `checkEOI_congr`).

  The only hypotheses of the equalities:
    * `ClassSound N cfg`: bytes of one class have `≃`-equal transitions (the table is indexed by class).  Trivial for
      `cls = id` (`classSound_id`); follows from the decidable `classStepB` / `classCompatB` (byte ranges AND the
      distinctions made by the look-around of the automaton: `\n` when it has `(?m)^`/`$`, word bytes when it has
      `\b`/`\B`) — `classSound_of_compat`;
    * `BytesOK h`: the haystack consists of bytes.
  No restriction on word boundaries, on acceleration, on the clear limit or on the history of the cache.
-/
namespace Cx.Dfa
open Cx Cx.Nfa

/-! ### look sets only matter through the look states of the automaton -/

theorem hasLookWhere_false {N : NFA} {p : Look → Bool} (hf : hasLookWhere N p = false) {q : Nat} {k : Look} {nx : Nat}
    (hq : N.get q = .look k nx) : p k = false := by
  unfold hasLookWhere at hf
  rw [List.any_eq_false] at hf
  unfold NFA.get at hq
  by_cases hlt : q < N.states.size
  · have hmem : N.states[q] ∈ N.states.toList := by simp
    have := hf _ hmem
    have he : N.states.getD q NState.fail = N.states[q] := by simp [Array.getD_eq_getD_getElem?, hlt]
    rw [he] at hq
    rw [hq] at this
    simpa using this
  · have he : N.states.getD q NState.fail = NState.fail := by
      simp [Array.getD_eq_getD_getElem?, hlt]
    rw [he] at hq
    cases hq

/-- the two look sets are indistinguishable for the closure of `N` -/
def LkEq (N : NFA) (lk lk' : LookSet) : Prop := ∀ q, succs N lk q = succs N lk' q

theorem LkEq.refl (N : NFA) (lk : LookSet) : LkEq N lk lk := fun _ => rfl
theorem LkEq.symm {N : NFA} {a b : LookSet} (h : LkEq N a b) : LkEq N b a := fun q => (h q).symm
theorem LkEq.trans {N : NFA} {a b c : LookSet} (h1 : LkEq N a b) (h2 : LkEq N b c) : LkEq N a c :=
  fun q => (h1 q).trans (h2 q)

/-- look sets that agree on the kinds occurring in the automaton -/
theorem lkEq_of_agree {N : NFA} {lk lk' : LookSet}
    (h : ∀ q k nx, N.get q = .look k nx → lk.contains k = lk'.contains k) : LkEq N lk lk' := by
  intro q
  unfold succs
  cases hq : N.get q with
  | look k nx => simp only [h q k nx hq]
  | _ => rfl

theorem closureInto_congr {N : NFA} {lk1 lk2 : LookSet} (hs : LkEq N lk1 lk2) :
    ∀ (fuel : Nat) (st res : List Nat), closureInto N lk1 fuel st res = closureInto N lk2 fuel st res := by
  intro fuel
  induction fuel with
  | zero => intro st res; rfl
  | succ fuel ih =>
    intro st res
    cases st with
    | nil => rfl
    | cons q st =>
      simp only [closureInto]
      split
      · exact ih st res
      · rw [hs q]; exact ih _ _

theorem closeSeed_congr {N : NFA} {lk1 lk2 : LookSet} (hs : LkEq N lk1 lk2) (res : List Nat) (seed : Nat) :
    closeSeed N lk1 res seed = closeSeed N lk2 res seed := closureInto_congr hs _ _ _

theorem foldl_closeSeed_congr {N : NFA} {lk1 lk2 : LookSet} (hs : LkEq N lk1 lk2) :
    ∀ (L res : List Nat), L.foldl (closeSeed N lk1) res = L.foldl (closeSeed N lk2) res := by
  intro L
  induction L with
  | nil => intro res; rfl
  | cons q qs ih => intro res; simp only [List.foldl]; rw [closeSeed_congr hs]; exact ih _

theorem epsilonClosure_congr {N : NFA} {lk1 lk2 : LookSet} (hs : LkEq N lk1 lk2) (L : List Nat) :
    epsilonClosure N L lk1 = epsilonClosure N L lk2 := foldl_closeSeed_congr hs L []

theorem sparseInto_congr {N : NFA} {lk1 lk2 : LookSet} (hs : LkEq N lk1 lk2) (b : Nat) :
    ∀ (ts : List (Nat × Nat × Nat)) (res : List Nat), sparseInto N lk1 b ts res = sparseInto N lk2 b ts res := by
  intro ts
  induction ts with
  | nil => intro res; rfl
  | cons t ts ih =>
    intro res
    obtain ⟨lo, hi, nx⟩ := t
    simp only [sparseInto]
    split
    · rw [closeSeed_congr hs]; exact ih _
    · exact ih _

theorem moveLoop_congr {N : NFA} {lk1 lk2 : LookSet} (hs : LkEq N lk1 lk2) (b : Nat) (brk : Bool) :
    ∀ (L res : List Nat), moveLoop N lk1 b brk L res = moveLoop N lk2 b brk L res := by
  intro L
  induction L with
  | nil => intro res; rfl
  | cons q qs ih =>
    intro res
    rw [moveLoop, moveLoop]
    cases hg : N.get q with
    | mtch => simp only; split
              · rfl
              · exact ih res
    | byteRange lo hi nx =>
      simp only
      split
      · rw [closeSeed_congr hs]; exact ih _
      · exact ih _
    | sparse ts => simp only; rw [sparseInto_congr hs]; exact ih _
    | _ => exact ih res

/-! ### equivalent DFA states -/

/-- same threads, same match flag, same look-behind context, and the same `isFromWord` when it matters -/
def Eqv (N : NFA) (S T : DState) : Prop :=
  S.nfa = T.nfa ∧ S.isMatch = T.isMatch ∧ S.lhText = T.lhText ∧ S.lhLine = T.lhLine ∧
    (hasWB N = true → S.fromWord = T.fromWord)

theorem Eqv.refl (N : NFA) (S : DState) : Eqv N S S := ⟨rfl, rfl, rfl, rfl, fun _ => rfl⟩

theorem Eqv.symm {N : NFA} {S T : DState} (h : Eqv N S T) : Eqv N T S :=
  ⟨h.1.symm, h.2.1.symm, h.2.2.1.symm, h.2.2.2.1.symm, fun hw => (h.2.2.2.2 hw).symm⟩

theorem Eqv.trans {N : NFA} {S T U : DState} (h1 : Eqv N S T) (h2 : Eqv N T U) : Eqv N S U :=
  ⟨h1.1.trans h2.1, h1.2.1.trans h2.2.1, h1.2.2.1.trans h2.2.2.1, h1.2.2.2.1.trans h2.2.2.2.1,
    fun hw => (h1.2.2.2.2 hw).trans (h2.2.2.2.2 hw)⟩

theorem aheadLook_eqv {N : NFA} {S T : DState} (h : Eqv N S T) (b : Nat) : LkEq N (aheadLook S b) (aheadLook T b) := by
  obtain ⟨_, _, h3, h4, h5⟩ := h
  cases hw : hasWB N with
  | true =>
    have := h5 hw
    unfold aheadLook
    rw [h3, h4, this]
    exact LkEq.refl _ _
  | false =>
    apply lkEq_of_agree
    intro q k nx hq
    have hk := hasLookWhere_false hw hq
    cases k <;> simp_all [aheadLook, LookSet.contains]

theorem eoiLook_eqv {N : NFA} {S T : DState} (h : Eqv N S T) : LkEq N (eoiLook S) (eoiLook T) := by
  obtain ⟨_, _, h3, h4, h5⟩ := h
  cases hw : hasWB N with
  | true =>
    have := h5 hw
    unfold eoiLook
    rw [h3, h4, this]
    exact LkEq.refl _ _
  | false =>
    apply lkEq_of_agree
    intro q k nx hq
    have hk := hasLookWhere_false hw hq
    cases k <;> simp_all [eoiLook, LookSet.contains]

theorem resolved_congr {N : NFA} {S T : DState} (h : Eqv N S T) (b : Nat) : resolved N S b = resolved N T b := by
  unfold resolved resolveLookAhead
  rw [h.1, epsilonClosure_congr (aheadLook_eqv h b)]

/-- `determinize` does not distinguish equivalent states -/
theorem step_congr {N : NFA} (cfg : Config) {S T : DState} (h : Eqv N S T) (b : Nat) :
    step N cfg S b = step N cfg T b := by
  unfold step
  rw [resolved_congr h b]

theorem checkEOI_congr {N : NFA} {S T : DState} (h : Eqv N S T) : checkEOI N S = checkEOI N T := by
  unfold checkEOI
  rw [h.1, epsilonClosure_congr (eoiLook_eqv h)]

theorem key_eq {S T : DState} (h : S.key = T.key) : S = T := by
  unfold DState.key at h
  simp only [Prod.mk.injEq] at h
  obtain ⟨h1, h2, h3, h4, h5⟩ := h
  cases S; cases T
  simp_all

/-! ### the uncached loops: canonical fuel, unfolding, congruence -/

def BytesOK (h : Bytes) : Prop := ∀ i, h.at i < 256

/-- `searchAt` without a cache from `pos` in state `S` -/
def sU (N : NFA) (cfg : Config) (h : Bytes) (pos : Nat) (S : DState) (last : Option Nat) : Outcome (Option Nat) :=
  searchLoopU N cfg h (h.size + 1 - pos) pos S last

theorem sU_lt {N : NFA} {cfg : Config} {h : Bytes} {pos : Nat} (hlt : pos < h.size) (S : DState) (last : Option Nat) :
    sU N cfg h pos S last =
      (match step N cfg S (h.at pos) with
       | .dead => .ok last
       | .limit => .gaveUp
       | .next T => sU N cfg h (pos+1) T (if T.isMatch then some pos else last)) := by
  unfold sU
  have : h.size + 1 - pos = (h.size + 1 - (pos + 1)) + 1 := by omega
  rw [this, searchLoopU]
  simp only [hlt, ↓reduceIte]
  cases step N cfg S (h.at pos) <;> rfl

theorem sU_ge {N : NFA} {cfg : Config} {h : Bytes} {pos : Nat} (hge : ¬ pos < h.size) (hle : pos ≤ h.size) (S : DState)
    (last : Option Nat) :
    sU N cfg h pos S last = if checkEOI N S then .ok (some h.size) else .ok last := by
  unfold sU
  have : h.size + 1 - pos = 0 + 1 := by omega
  rw [this, searchLoopU]
  simp only [hge, ↓reduceIte]

theorem sU_congr {N : NFA} {cfg : Config} {h : Bytes} {S T : DState} (he : Eqv N S T) {pos : Nat} (hle : pos ≤ h.size)
    (last : Option Nat) : sU N cfg h pos S last = sU N cfg h pos T last := by
  by_cases hlt : pos < h.size
  · rw [sU_lt hlt, sU_lt hlt, step_congr cfg he]
  · rw [sU_ge hlt hle, sU_ge hlt hle, checkEOI_congr he]

/-- `searchEarliestMatch` without a cache from `pos` in state `S` -/
def eU (N : NFA) (cfg : Config) (h : Bytes) (pos : Nat) (S : DState) : Outcome Bool :=
  earliestLoopU N cfg h (h.size + 1 - pos) pos S

theorem eU_lt {N : NFA} {cfg : Config} {h : Bytes} {pos : Nat} (hlt : pos < h.size) (S : DState) :
    eU N cfg h pos S =
      (match step N cfg S (h.at pos) with
       | .dead => .ok false
       | .limit => .gaveUp
       | .next T => if T.isMatch then .ok true else eU N cfg h (pos+1) T) := by
  unfold eU
  have : h.size + 1 - pos = (h.size + 1 - (pos + 1)) + 1 := by omega
  rw [this, earliestLoopU]
  simp only [hlt, ↓reduceIte]
  cases step N cfg S (h.at pos) <;> rfl

theorem eU_ge {N : NFA} {cfg : Config} {h : Bytes} {pos : Nat} (hge : ¬ pos < h.size) (hle : pos ≤ h.size) (S : DState) :
    eU N cfg h pos S = .ok (checkEOI N S) := by
  unfold eU
  have : h.size + 1 - pos = 0 + 1 := by omega
  rw [this, earliestLoopU]
  simp only [hge, ↓reduceIte]

theorem eU_congr {N : NFA} {cfg : Config} {h : Bytes} {S T : DState} (he : Eqv N S T) {pos : Nat} (hle : pos ≤ h.size) :
    eU N cfg h pos S = eU N cfg h pos T := by
  by_cases hlt : pos < h.size
  · rw [eU_lt hlt, eU_lt hlt, step_congr cfg he]
  · rw [eU_ge hlt hle, eU_ge hlt hle, checkEOI_congr he]

/-! ### the invariant -/

/-- bytes of one class have equivalent transitions from every state -/
def ClassSound (N : NFA) (cfg : Config) : Prop :=
  ∀ (S : DState) (b b' : Nat), b < 256 → b' < 256 → cfg.cls b = cfg.cls b' →
    (step N cfg S b = .dead → step N cfg S b' = .dead) ∧
    (∀ T, step N cfg S b = .next T → ∃ T', step N cfg S b' = .next T' ∧ Eqv N T' T)

theorem classSound_id (N : NFA) (cfg : Config) (hid : ∀ b, cfg.cls b = b) : ClassSound N cfg := by
  intro S b b' _ _ hc
  rw [hid, hid] at hc
  subst hc
  exact ⟨fun h => h, fun T h => ⟨T, h, Eqv.refl N T⟩⟩

/-- the table entry `t` for (state value `S`, class `k`) describes `step S b` for every byte `b` of the class -/
def TransOK (N : NFA) (cfg : Config) (c : Cache) (S : DState) (k : Nat) (t : Sid) : Prop :=
  (t = Sid.deadS ∧ ∀ b, b < 256 → cfg.cls b = k → step N cfg S b = .dead) ∨
  (t.inv = false ∧ t.dead = false ∧ ∃ T, c.list.getD t.off none = some T ∧ t.mtch = T.st.isMatch ∧
    ∀ b, b < 256 → cfg.cls b = k → ∃ T', step N cfg S b = .next T' ∧ Eqv N T' T.st)

/-- the exit bytes of a state object are exact: every other byte loops back to an equivalent state -/
def AccelOK (N : NFA) (cfg : Config) (cs : CState) : Prop :=
  ∀ b, b < 256 → cs.accel.contains b = false → ∃ T, step N cfg cs.st b = .next T ∧ Eqv N T cs.st

structure Inv (N : NFA) (cfg : Config) (c : Cache) : Prop where
  ids : ∀ i cs, c.list.getD i none = some cs →
    cs.id.off = i ∧ cs.id.inv = false ∧ cs.id.dead = false ∧ cs.id.mtch = cs.st.isMatch
  trans : ∀ r k, c.trans r k = Sid.invalid ∨ ∃ S, c.list.getD r none = some S ∧ TransOK N cfg c S.st k (c.trans r k)
  start : ∀ kd a, c.start kd a = Sid.invalid ∨ ((c.start kd a).inv = false ∧ (c.start kd a).dead = false ∧
    ∃ T, c.list.getD (c.start kd a).off none = some T ∧ T.st = startState N kd a)
  idx : 1 ≤ c.nextIdx ∧ c.list.length ≤ c.nextIdx
  accel : ∀ i cs, c.list.getD i none = some cs → cs.accel ≠ [] → AccelOK N cfg cs

/-- every state of `c` is still there in `c'`, with the same value (its id may have gained the start tag, its
    acceleration fields may have been filled in) -/
def Ext (c c' : Cache) : Prop :=
  ∀ i cs, c.list.getD i none = some cs → ∃ cs', c'.list.getD i none = some cs' ∧ cs'.st = cs.st

theorem Ext.refl (c : Cache) : Ext c c := fun _ cs h => ⟨cs, h, rfl⟩

theorem Ext.trans {a b c : Cache} (h1 : Ext a b) (h2 : Ext b c) : Ext a c := by
  intro i cs h
  obtain ⟨cs1, e1, s1⟩ := h1 i cs h
  obtain ⟨cs2, e2, s2⟩ := h2 i cs1 e1
  exact ⟨cs2, e2, s2.trans s1⟩

theorem TransOK.mono {N : NFA} {cfg : Config} {c c' : Cache} {S : DState} {k : Nat} {t : Sid} (he : Ext c c')
    (h : TransOK N cfg c S k t) : TransOK N cfg c' S k t := by
  rcases h with h | ⟨h1, h2, T, hT, hm, hs⟩
  · exact Or.inl h
  · obtain ⟨T', hT', hst⟩ := he _ _ hT
    exact Or.inr ⟨h1, h2, T', hT', by rw [hst]; exact hm, by rw [hst]; exact hs⟩

theorem AccelOK.congr {N : NFA} {cfg : Config} {cs cs' : CState} (hst : cs'.st = cs.st) (hacc : cs'.accel = cs.accel)
    (h : AccelOK N cfg cs) : AccelOK N cfg cs' := by
  intro b hb hc
  rw [hacc] at hc
  rw [hst]
  exact h b hb hc

theorem inv_empty (N : NFA) (cfg : Config) : Inv N cfg Cache.empty where
  ids := by intro i cs h; simp [Cache.empty] at h
  trans := by intro r k; left; rfl
  start := by intro kd a; left; rfl
  idx := by simp [Cache.empty]
  accel := by intro i cs h; simp [Cache.empty] at h

/-! ### list plumbing -/

theorem getD_set_list (l : List (Option CState)) (i j : Nat) (x : Option CState) :
    (l.set i x).getD j none = if j = i ∧ i < l.length then x else l.getD j none := by
  simp only [List.getD_eq_getElem?_getD, List.getElem?_set]
  by_cases hji : i = j
  · subst hji
    by_cases hlt : i < l.length
    · simp [hlt]
    · simp [hlt]
  · have : ¬ (j = i) := fun h => hji h.symm
    simp [hji, this]

theorem getD_setAt (l : List (Option CState)) (i j : Nat) (v : CState) (hi : l.length ≤ i) :
    (setAt l i v).getD j none = if j = i then some v else l.getD j none := by
  unfold setAt
  rw [if_neg (by omega)]
  simp only [List.getD_eq_getElem?_getD, List.append_assoc]
  by_cases hj : j < l.length
  · have hne : j ≠ i := by omega
    rw [List.getElem?_append_left hj]
    simp [hne]
  · rw [List.getElem?_append_right (by omega)]
    have hnone : l[j]? = none := List.getElem?_eq_none (by omega)
    rw [hnone]
    by_cases hji : j = i
    · subst hji
      rw [List.getElem?_append_right (by simp)]
      simp
    · simp only [hji, ↓reduceIte]
      by_cases hj2 : j < i
      · rw [List.getElem?_append_left (by simp; omega)]
        rw [List.getElem?_replicate]
        split <;> rfl
      · rw [List.getElem?_append_right (by simp; omega)]
        have : j - l.length - (List.replicate (i - l.length) (none : Option CState)).length = (j - i - 1) + 1 := by
          simp; omega
        rw [this]
        simp

theorem length_setAt (l : List (Option CState)) (i : Nat) (v : CState) (hi : l.length ≤ i) :
    (setAt l i v).length = i + 1 := by
  unfold setAt
  rw [if_neg (by omega)]
  simp
  omega

theorem getD_some_lt {l : List (Option CState)} {i : Nat} {cs : CState} (h : l.getD i none = some cs) : i < l.length := by
  by_cases hlt : i < l.length
  · exact hlt
  · simp [List.getD_eq_getElem?_getD, List.getElem?_eq_none (Nat.le_of_not_lt hlt)] at h

theorem findKey_spec {c : Cache} {key : List Nat × Bool × Bool × Bool × Bool} {ex : CState} (h : c.findKey key = some ex) :
    ex.st.key = key ∧ ∃ i, c.list.getD i none = some ex := by
  unfold Cache.findKey at h
  obtain ⟨o, ho, hf⟩ := List.exists_of_findSome?_eq_some h
  cases o with
  | none => simp at hf
  | some cs =>
    simp only at hf
    split at hf
    · rename_i hk
      cases hf
      refine ⟨hk, ?_⟩
      obtain ⟨i, hi, hget⟩ := List.getElem_of_mem ho
      exact ⟨i, by simp [List.getD_eq_getElem?_getD, List.getElem?_eq_getElem hi, hget]⟩
    · cases hf

/-! ### the cache operations preserve the invariant -/

theorem inv_setTrans {N : NFA} {cfg : Config} {c : Cache} (hI : Inv N cfg c) {row k : Nat} {t : Sid} {S : CState}
    (hS : c.list.getD row none = some S) (ht : TransOK N cfg c S.st k t) : Inv N cfg (c.setTrans row k t) := by
  have hlt : row < c.rows := getD_some_lt hS
  unfold Cache.setTrans
  rw [if_pos hlt]
  have hext : Ext c { c with trans := fun r k' => if r = row ∧ k' = k then t else c.trans r k' } :=
    fun i cs h => ⟨cs, h, rfl⟩
  refine ⟨hI.ids, ?_, hI.start, hI.idx, hI.accel⟩
  intro r k'
  simp only
  by_cases hrk : r = row ∧ k' = k
  · rw [if_pos hrk]
    obtain ⟨rfl, rfl⟩ := hrk
    exact Or.inr ⟨S, hS, ht.mono hext⟩
  · rw [if_neg hrk]
    rcases hI.trans r k' with h | ⟨S', hS', hok⟩
    · exact Or.inl h
    · exact Or.inr ⟨S', hS', hok.mono hext⟩

theorem setTrans_list (c : Cache) (row k : Nat) (t : Sid) : (c.setTrans row k t).list = c.list := by
  unfold Cache.setTrans; split <;> rfl

theorem insertNew_eqs {cfg : Config} {c : Cache} {st : DState} {cs : CState} {c1 : Cache}
    (h : c.insertNew cfg st = some (cs, c1)) :
    cs = { id := { off := c.nextIdx, mtch := st.isMatch }, st := st } ∧ c1.list = setAt c.list c.nextIdx cs ∧
    c1.trans = c.trans ∧ c1.start = c.start ∧ c1.nextIdx = c.nextIdx + 1 ∧ c1.clearCount = c.clearCount := by
  unfold Cache.insertNew at h
  split at h
  · cases h
  · simp only [Option.some.injEq, Prod.mk.injEq] at h
    obtain ⟨rfl, rfl⟩ := h
    exact ⟨rfl, rfl, rfl, rfl, rfl, rfl⟩

theorem insertNew_spec {N : NFA} {cfg : Config} {c : Cache} (hI : Inv N cfg c) {st : DState} {cs : CState} {c1 : Cache}
    (h : c.insertNew cfg st = some (cs, c1)) :
    Inv N cfg c1 ∧ Ext c c1 ∧ cs.st = st ∧ c1.list.getD cs.id.off none = some cs := by
  obtain ⟨hcs, hl, htr, hsta, hnx, hcc⟩ := insertNew_eqs h
  have hlen := hI.idx.2
  have hget : ∀ j, c1.list.getD j none = if j = c.nextIdx then some cs else c.list.getD j none := by
    intro j; rw [hl]; exact getD_setAt _ _ _ _ hlen
  have hoff : cs.id.off = c.nextIdx := by rw [hcs]
  have hext : Ext c c1 := by
    intro i cs' hcs'
    have hlt := getD_some_lt hcs'
    refine ⟨cs', ?_, rfl⟩
    rw [hget, if_neg (by omega)]
    exact hcs'
  refine ⟨⟨?_, ?_, ?_, ?_, ?_⟩, hext, by rw [hcs], ?_⟩
  · intro i cs' hcs'
    rw [hget] at hcs'
    split at hcs'
    · rename_i hi
      cases hcs'
      rw [hcs]
      simp [hi]
    · exact hI.ids i cs' hcs'
  · intro r k
    rw [htr]
    rcases hI.trans r k with h | ⟨S, hS, hok⟩
    · exact Or.inl h
    · obtain ⟨S', hS', hst⟩ := hext _ _ hS
      exact Or.inr ⟨S', hS', by rw [hst]; exact hok.mono hext⟩
  · intro kd a
    rw [hsta]
    rcases hI.start kd a with h | ⟨h1, h2, T, hT, hn⟩
    · exact Or.inl h
    · obtain ⟨T', hT', hst⟩ := hext _ _ hT
      exact Or.inr ⟨h1, h2, T', hT', by rw [hst]; exact hn⟩
  · rw [hnx, hl, length_setAt _ _ _ hlen]
    omega
  · intro i cs' hcs' hne
    rw [hget] at hcs'
    split at hcs'
    · cases hcs'
      rw [hcs] at hne
      exact absurd rfl hne
    · exact hI.accel i cs' hcs' hne
  · rw [hget, hoff]
    simp

theorem tagStart_eqs (c : Cache) (cs : CState) (kind : StartKind) (anch : Bool) :
    (c.tagStart cs kind anch).1 = { cs with id := { cs.id with start := true } } ∧
    (c.tagStart cs kind anch).2.list = c.list.set cs.id.off (some (c.tagStart cs kind anch).1) ∧
    (c.tagStart cs kind anch).2.trans = c.trans ∧
    (c.tagStart cs kind anch).2.start = (fun k a => if k = kind ∧ a = anch then (c.tagStart cs kind anch).1.id else c.start k a) ∧
    (c.tagStart cs kind anch).2.nextIdx = c.nextIdx ∧ (c.tagStart cs kind anch).2.clearCount = c.clearCount :=
  ⟨rfl, rfl, rfl, rfl, rfl, rfl⟩

theorem tagStart_spec {N : NFA} {cfg : Config} {c : Cache} (hI : Inv N cfg c) {cs : CState} {i : Nat}
    (hcs : c.list.getD i none = some cs) (kind : StartKind) (anch : Bool)
    (hn : cs.st = startState N kind anch) :
    Inv N cfg (c.tagStart cs kind anch).2 ∧ Ext c (c.tagStart cs kind anch).2 ∧
    (c.tagStart cs kind anch).2.list.getD (c.tagStart cs kind anch).1.id.off none = some (c.tagStart cs kind anch).1 ∧
    (c.tagStart cs kind anch).1.st = cs.st ∧ (c.tagStart cs kind anch).1.id.inv = false ∧
    (c.tagStart cs kind anch).1.id.dead = false := by
  obtain ⟨hoff, hinv, hdead, hm⟩ := hI.ids i cs hcs
  have hlt := getD_some_lt hcs
  subst hoff
  obtain ⟨e1, el, etr, est, enx, ecc⟩ := tagStart_eqs c cs kind anch
  generalize (c.tagStart cs kind anch).1 = cs' at *
  generalize (c.tagStart cs kind anch).2 = c1 at *
  have hoff' : cs'.id.off = cs.id.off := by rw [e1]
  have hst' : cs'.st = cs.st := by rw [e1]
  have hacc' : cs'.accel = cs.accel := by rw [e1]
  have hget : ∀ j, c1.list.getD j none = if j = cs.id.off then some cs' else c.list.getD j none := by
    intro j
    rw [el, getD_set_list]
    by_cases hj : j = cs.id.off
    · simp [hj, hlt]
    · simp [hj]
  have hext : Ext c c1 := by
    intro j cs2 hj
    rw [hget]
    by_cases hjo : j = cs.id.off
    · subst hjo
      rw [hcs] at hj
      cases hj
      exact ⟨cs', by simp, hst'⟩
    · exact ⟨cs2, by rw [if_neg hjo]; exact hj, rfl⟩
  refine ⟨⟨?_, ?_, ?_, ?_, ?_⟩, hext, ?_, hst', by rw [e1]; exact hinv, by rw [e1]; exact hdead⟩
  · intro j cs2 hj
    rw [hget] at hj
    split at hj
    · rename_i hjo
      cases hj
      rw [e1]
      simp [hjo, hinv, hdead, hm]
    · exact hI.ids j cs2 hj
  · intro r k
    rw [etr]
    rcases hI.trans r k with h | ⟨S, hS, hok⟩
    · exact Or.inl h
    · obtain ⟨S', hS', hst⟩ := hext _ _ hS
      exact Or.inr ⟨S', hS', by rw [hst]; exact hok.mono hext⟩
  · intro kd a
    rw [est]
    simp only
    by_cases hka : kd = kind ∧ a = anch
    · rw [if_pos hka]
      obtain ⟨rfl, rfl⟩ := hka
      refine Or.inr ⟨by rw [e1]; exact hinv, by rw [e1]; exact hdead, cs', ?_, by rw [hst']; exact hn⟩
      rw [hget, hoff']
      simp
    · rw [if_neg hka]
      rcases hI.start kd a with h | ⟨h1, h2, T, hT, hn'⟩
      · exact Or.inl h
      · obtain ⟨T', hT', hst⟩ := hext _ _ hT
        exact Or.inr ⟨h1, h2, T', hT', by rw [hst]; exact hn'⟩
  · rw [enx, el, List.length_set]
    exact hI.idx
  · intro j cs2 hj hne
    rw [hget] at hj
    split at hj
    · cases hj
      rw [hacc'] at hne
      exact (hI.accel _ cs hcs hne).congr hst' hacc'
    · exact hI.accel j cs2 hj hne
  · rw [hget, hoff']
    simp

theorem inv_clearRebuild (N : NFA) (cfg : Config) (c : Cache) : Inv N cfg (clearRebuild N c) where
  ids := by
    intro i cs h
    unfold clearRebuild at h
    simp only at h
    match i with
    | 0 => simp at h; subst h; simp [startState]
    | i+1 => simp at h
  trans := by intro r k; left; rfl
  start := by
    intro kd a
    unfold clearRebuild
    simp only
    by_cases hk : kd = StartKind.text ∧ a = false
    · rw [if_pos hk]
      obtain ⟨rfl, rfl⟩ := hk
      right
      exact ⟨rfl, rfl, { id := { off := 0, start := true }, st := startState N .text false }, rfl, rfl⟩
    · rw [if_neg hk]
      left; rfl
  idx := by simp [clearRebuild]
  accel := by
    intro i cs h hne
    unfold clearRebuild at h
    simp only at h
    match i with
    | 0 => simp at h; subst h; exact absurd rfl hne
    | i+1 => simp at h

/-! ### `determinize` -/

/-- the new state looked up in / inserted into a cache: the invariant survives and the result names that very state -/
theorem place_spec {N : NFA} {cfg : Config} {c : Cache} (hI : Inv N cfg c) (T : DState) :
    (∀ ex, c.findKey T.key = some ex → ex.st = T ∧ c.list.getD ex.id.off none = some ex) ∧
    (∀ cs c1, c.insertNew cfg T = some (cs, c1) → Inv N cfg c1 ∧ cs.st = T ∧ c1.list.getD cs.id.off none = some cs) := by
  constructor
  · intro ex hf
    obtain ⟨hkey, j, hj⟩ := findKey_spec hf
    obtain ⟨hjoff, _, _, _⟩ := hI.ids j ex hj
    exact ⟨key_eq hkey, by rw [hjoff]; exact hj⟩
  · intro cs c1 hi
    obtain ⟨h1, _, h3, h4⟩ := insertNew_spec hI hi
    exact ⟨h1, h3, h4⟩

theorem afterClear_spec {N : NFA} {cfg : Config} (c : Cache) (hI : Inv N cfg c) (T : DState) :
    ∀ r c1, afterClear N cfg c T = (r, c1) →
      Inv N cfg c1 ∧
      (match r with
       | .dead => False
       | .next cs => cs.st = T ∧ c1.list.getD cs.id.off none = some cs
       | .fail => True) := by
  intro r c1 hd
  unfold afterClear at hd
  split at hd
  · simp only [Prod.mk.injEq] at hd
    obtain ⟨rfl, rfl⟩ := hd
    exact ⟨hI, trivial⟩
  · have hI1 := inv_clearRebuild N cfg c
    obtain ⟨p1, p2⟩ := place_spec hI1 T
    simp only at hd
    cases hf : (clearRebuild N c).findKey T.key with
    | some ex =>
      rw [hf] at hd
      simp only [Prod.mk.injEq] at hd
      obtain ⟨rfl, rfl⟩ := hd
      exact ⟨hI1, p1 ex hf⟩
    | none =>
      rw [hf] at hd
      simp only at hd
      cases hi : (clearRebuild N c).insertNew cfg T with
      | some p =>
        obtain ⟨cs, c2⟩ := p
        rw [hi] at hd
        simp only [Prod.mk.injEq] at hd
        obtain ⟨rfl, rfl⟩ := hd
        obtain ⟨q1, q2, q3⟩ := p2 cs c2 hi
        exact ⟨q1, q2, q3⟩
      | none =>
        rw [hi] at hd
        simp only [Prod.mk.injEq] at hd
        obtain ⟨rfl, rfl⟩ := hd
        exact ⟨hI1, trivial⟩

theorem determinize_spec {N : NFA} {cfg : Config} {c : Cache} (hI : Inv N cfg c) (hC : ClassSound N cfg) {cur : CState}
    {i : Nat} (hcur : c.list.getD i none = some cur) {b : Nat} (hb : b < 256) :
    ∀ r c1, determinize N cfg c cur b = (r, c1) →
      Inv N cfg c1 ∧
      (match r with
       | .dead => step N cfg cur.st b = .dead
       | .next cs => step N cfg cur.st b = .next cs.st ∧ c1.list.getD cs.id.off none = some cs
       | .fail => True) := by
  intro r c1 hd
  obtain ⟨hoff, _, _, _⟩ := hI.ids i cur hcur
  unfold determinize at hd
  cases hs : step N cfg cur.st b with
  | dead =>
    rw [hs] at hd
    simp only [Prod.mk.injEq] at hd
    obtain ⟨rfl, rfl⟩ := hd
    refine ⟨?_, rfl⟩
    rw [hoff]
    apply inv_setTrans hI hcur
    left
    refine ⟨rfl, ?_⟩
    intro b' hb' hk
    exact (hC cur.st b b' hb hb' hk.symm).1 hs
  | limit =>
    rw [hs] at hd
    simp only [Prod.mk.injEq] at hd
    obtain ⟨rfl, rfl⟩ := hd
    exact ⟨hI, trivial⟩
  | next T =>
    rw [hs] at hd
    simp only at hd
    cases hf : c.findKey T.key with
    | some ex =>
      rw [hf] at hd
      simp only [Prod.mk.injEq] at hd
      obtain ⟨rfl, rfl⟩ := hd
      obtain ⟨hkey, j, hj⟩ := findKey_spec hf
      have hex : ex.st = T := key_eq hkey
      obtain ⟨hjoff, hjinv, hjdead, hjm⟩ := hI.ids j ex hj
      refine ⟨?_, by rw [hex], ?_⟩
      · rw [hoff]
        apply inv_setTrans hI hcur
        right
        refine ⟨hjinv, hjdead, ex, by rw [hjoff]; exact hj, hjm, ?_⟩
        intro b' hb' hk
        obtain ⟨T', hT', he⟩ := (hC cur.st b b' hb hb' hk.symm).2 T hs
        exact ⟨T', hT', by rw [hex]; exact he⟩
      · rw [setTrans_list, hjoff]; exact hj
    | none =>
      rw [hf] at hd
      simp only at hd
      cases hi : c.insertNew cfg T with
      | some p =>
        obtain ⟨cs, c2⟩ := p
        rw [hi] at hd
        simp only [Prod.mk.injEq] at hd
        obtain ⟨rfl, rfl⟩ := hd
        obtain ⟨hI2, hext, hst, hget⟩ := insertNew_spec hI hi
        obtain ⟨cur', hcur', hcst⟩ := hext _ _ hcur
        obtain ⟨_, hcinv, hcdead, hcm⟩ := hI2.ids _ cs hget
        refine ⟨?_, by rw [hst], ?_⟩
        · rw [hoff]
          apply inv_setTrans hI2 hcur'
          right
          refine ⟨hcinv, hcdead, cs, hget, hcm, ?_⟩
          intro b' hb' hk
          rw [hcst]
          obtain ⟨T', hT', he⟩ := (hC cur.st b b' hb hb' hk.symm).2 T hs
          exact ⟨T', hT', by rw [hst]; exact he⟩
        · rw [setTrans_list]; exact hget
      | none =>
        rw [hi] at hd
        simp only at hd
        obtain ⟨hI1, hr⟩ := afterClear_spec c hI T r c1 hd
        refine ⟨hI1, ?_⟩
        cases r with
        | dead => exact hr.elim
        | next cs => simp only at hr ⊢; exact ⟨by rw [hr.1], hr.2⟩
        | fail => trivial

/-! ### `getStartState` -/

theorem putStart_spec {N : NFA} {cfg : Config} {c : Cache} (hI : Inv N cfg c) (kind : StartKind) (anch : Bool) :
    ∀ cur c1, c.putStart cfg (startState N kind anch) kind anch = some (cur, c1) →
      Inv N cfg c1 ∧ cur.st = startState N kind anch ∧ cur.id.inv = false ∧ cur.id.dead = false ∧
        c1.list.getD cur.id.off none = some cur := by
  intro cur c1 hp
  unfold Cache.putStart at hp
  cases hf : c.findKey (startState N kind anch).key with
  | some ex =>
    rw [hf] at hp
    simp only [Option.some.injEq] at hp
    obtain ⟨hkey, j, hj⟩ := findKey_spec hf
    have hex := key_eq hkey
    obtain ⟨i1, _, i3, i4, i5, i6⟩ := tagStart_spec hI hj kind anch hex
    rw [hp] at i1 i3 i4 i5 i6
    exact ⟨i1, by rw [i4]; exact hex, i5, i6, i3⟩
  | none =>
    rw [hf] at hp
    simp only at hp
    cases hi : c.insertNew cfg (startState N kind anch) with
    | none => rw [hi] at hp; cases hp
    | some p =>
      obtain ⟨cs, c2⟩ := p
      rw [hi] at hp
      simp only [Option.some.injEq] at hp
      obtain ⟨hI2, _, hst, hget⟩ := insertNew_spec hI hi
      obtain ⟨i1, _, i3, i4, i5, i6⟩ := tagStart_spec hI2 hget kind anch hst
      rw [hp] at i1 i3 i4 i5 i6
      exact ⟨i1, by rw [i4]; exact hst, i5, i6, i3⟩

theorem getStart_spec {N : NFA} {cfg : Config} {c : Cache} (hI : Inv N cfg c) (h : Bytes) (pos : Nat) (anch : Bool) :
    ∀ ocur c1, getStart N cfg c h pos anch = (ocur, c1) →
      Inv N cfg c1 ∧
      (∀ cur, ocur = some cur → cur.st = startState N (kindAt h pos) anch ∧
         cur.id.inv = false ∧ cur.id.dead = false ∧ c1.list.getD cur.id.off none = some cur) := by
  intro ocur c1 hg
  unfold getStart at hg
  simp only at hg
  split at hg
  · -- cached in the start table
    rename_i hid
    simp only [Prod.mk.injEq] at hg
    obtain ⟨rfl, rfl⟩ := hg
    refine ⟨hI, ?_⟩
    intro cur hcur
    rcases hI.start (kindAt h pos) anch with hinv | ⟨h1, h2, T, hT, hn⟩
    · exact absurd hinv hid
    · have hgs : c.getState (c.start (kindAt h pos) anch) = some T := by
        unfold Cache.getState
        simp only [h1, h2, Bool.or_self, Bool.false_eq_true, ↓reduceIte]
        exact hT
      rw [hgs] at hcur
      cases hcur
      obtain ⟨hoff, hi, hd, _⟩ := hI.ids _ _ hT
      exact ⟨hn, hi, hd, by rw [hoff]; exact hT⟩
  · cases hp : c.putStart cfg (startState N (kindAt h pos) anch) (kindAt h pos) anch with
    | some r =>
      rw [hp] at hg
      simp only [Prod.mk.injEq] at hg
      obtain ⟨rfl, rfl⟩ := hg
      obtain ⟨i1, i2, i3, i4, i5⟩ := putStart_spec hI (kindAt h pos) anch r.1 r.2 hp
      refine ⟨i1, ?_⟩
      intro cur hcur
      cases hcur
      exact ⟨i2, i3, i4, i5⟩
    | none =>
      rw [hp] at hg
      simp only at hg
      split at hg
      · simp only [Prod.mk.injEq] at hg
        obtain ⟨rfl, rfl⟩ := hg
        exact ⟨hI, fun cur hcur => by cases hcur⟩
      · have hI1 := inv_clearRebuild N cfg c
        cases hp2 : (clearRebuild N c).putStart cfg (startState N (kindAt h pos) anch) (kindAt h pos) anch with
        | some r =>
          rw [hp2] at hg
          simp only [Prod.mk.injEq] at hg
          obtain ⟨rfl, rfl⟩ := hg
          obtain ⟨i1, i2, i3, i4, i5⟩ := putStart_spec hI1 (kindAt h pos) anch r.1 r.2 hp2
          refine ⟨i1, ?_⟩
          intro cur hcur
          cases hcur
          exact ⟨i2, i3, i4, i5⟩
        | none =>
          rw [hp2] at hg
          simp only [Prod.mk.injEq] at hg
          obtain ⟨rfl, rfl⟩ := hg
          exact ⟨hI1, fun cur hcur => by cases hcur⟩

/-! ### the run is at a state equivalent to the uncached one -/

/-- the id `sid` names a cached state equivalent to `S`, and carries its match tag -/
def AtState (N : NFA) (c : Cache) (sid : Sid) (S : DState) : Prop :=
  sid.inv = false ∧ sid.dead = false ∧ sid.mtch = S.isMatch ∧
    ∃ cs, c.list.getD sid.off none = some cs ∧ Eqv N cs.st S

theorem AtState.getState {N : NFA} {c : Cache} {sid : Sid} {S : DState} (h : AtState N c sid S) :
    ∃ cs, c.getState sid = some cs ∧ c.list.getD sid.off none = some cs ∧ Eqv N cs.st S := by
  obtain ⟨h1, h2, _, cs, hcs, hn⟩ := h
  refine ⟨cs, ?_, hcs, hn⟩
  unfold Cache.getState
  simp only [h1, h2, Bool.or_self, Bool.false_eq_true, ↓reduceIte]
  exact hcs

theorem AtState.lookupT {N : NFA} {c : Cache} {sid : Sid} {S : DState} (h : AtState N c sid S) (k : Nat) :
    c.lookupT sid.off k = c.trans sid.off k := by
  obtain ⟨_, _, _, cs, hcs, _⟩ := h
  unfold Cache.lookupT Cache.rows
  rw [if_pos (getD_some_lt hcs)]

theorem AtState.ext {N : NFA} {c c' : Cache} {sid : Sid} {S : DState} (h : AtState N c sid S) (he : Ext c c') :
    AtState N c' sid S := by
  obtain ⟨h1, h2, h3, cs, hcs, hn⟩ := h
  obtain ⟨cs', hcs', hst⟩ := he _ _ hcs
  exact ⟨h1, h2, h3, cs', hcs', by rw [hst]; exact hn⟩

/-- the id of a state object names it -/
theorem atState_of_get {N : NFA} {cfg : Config} {c : Cache} (hI : Inv N cfg c) {cs : CState}
    (hget : c.list.getD cs.id.off none = some cs) : AtState N c cs.id cs.st := by
  obtain ⟨_, ci, cd, cm⟩ := hI.ids _ _ hget
  exact ⟨ci, cd, cm, cs, hget, Eqv.refl N _⟩

/-- a non-invalid table entry of the current state describes the uncached step -/
theorem follow {N : NFA} {cfg : Config} {c : Cache} (hI : Inv N cfg c) {sid : Sid} {S : DState}
    (hat : AtState N c sid S) {b : Nat} (hb : b < 256) (hne : c.trans sid.off (cfg.cls b) ≠ Sid.invalid) :
    (c.trans sid.off (cfg.cls b) = Sid.deadS ∧ step N cfg S b = .dead) ∨
    (c.trans sid.off (cfg.cls b) ≠ Sid.deadS ∧
      ∃ T', step N cfg S b = .next T' ∧ AtState N c (c.trans sid.off (cfg.cls b)) T') := by
  obtain ⟨_, _, _, cs, hcs, hn⟩ := hat
  rcases hI.trans sid.off (cfg.cls b) with h | ⟨S0, hS0, hok⟩
  · exact absurd h hne
  · rw [hcs] at hS0
    cases hS0
    rcases hok with ⟨hd, hall⟩ | ⟨h1, h2, T, hT, hm, hall⟩
    · left
      exact ⟨hd, by rw [← step_congr cfg hn]; exact hall b hb rfl⟩
    · right
      obtain ⟨T', hs, he⟩ := hall b hb rfl
      refine ⟨?_, T', by rw [← step_congr cfg hn]; exact hs, ⟨h1, h2, by rw [hm]; exact he.2.1.symm, T, hT, he.symm⟩⟩
      intro hd
      rw [hd] at h2
      simp [Sid.deadS] at h2

theorem tagged_false {n : Sid} (h : n.tagged = false) : n.inv = false ∧ n.dead = false ∧ n.start = false ∧ n.mtch = false := by
  unfold Sid.tagged at h
  simp only [Bool.or_eq_false_iff] at h
  exact ⟨h.1.1.1, h.1.1.2, h.1.2, h.2⟩

theorem getState_some {c : Cache} {sid : Sid} {cur : CState} (h : c.getState sid = some cur) :
    c.list.getD sid.off none = some cur := by
  unfold Cache.getState at h
  split at h
  · cases h
  · exact h

/-! ### acceleration detection: touches only the acceleration fields of a state object, and is exact -/

/-- replace the state object in slot `i` -/
def Cache.replace (c : Cache) (i : Nat) (cs : CState) : Cache := { c with list := c.list.set i (some cs) }

theorem replace_getD {c : Cache} {i : Nat} {cs cs' : CState} (hcs : c.list.getD i none = some cs) (j : Nat) :
    (c.replace i cs').list.getD j none = if j = i then some cs' else c.list.getD j none := by
  have hlt := getD_some_lt hcs
  unfold Cache.replace
  simp only
  rw [getD_set_list]
  by_cases hj : j = i
  · simp [hj, hlt]
  · simp [hj]

theorem inv_replace {N : NFA} {cfg : Config} {c : Cache} (hI : Inv N cfg c) {i : Nat} {cs cs' : CState}
    (hcs : c.list.getD i none = some cs) (hst : cs'.st = cs.st) (hid : cs'.id = cs.id)
    (hacc : cs'.accel ≠ [] → AccelOK N cfg cs') :
    Inv N cfg (c.replace i cs') ∧ Ext c (c.replace i cs') := by
  have hget := replace_getD (cs' := cs') hcs
  have hext : Ext c (c.replace i cs') := by
    intro j cs2 hj
    rw [hget]
    by_cases hji : j = i
    · subst hji
      rw [hcs] at hj
      cases hj
      exact ⟨cs', by simp, hst⟩
    · exact ⟨cs2, by rw [if_neg hji]; exact hj, rfl⟩
  refine ⟨⟨?_, ?_, ?_, ?_, ?_⟩, hext⟩
  · intro j cs2 hj
    rw [hget] at hj
    split at hj
    · rename_i hji
      cases hj
      obtain ⟨h1, h2, h3, h4⟩ := hI.ids i cs hcs
      rw [hid, hst, hji]
      exact ⟨h1, h2, h3, h4⟩
    · exact hI.ids j cs2 hj
  · intro r k
    show (c.trans r k = Sid.invalid) ∨ _
    rcases hI.trans r k with h | ⟨S, hS, hok⟩
    · exact Or.inl h
    · obtain ⟨S', hS', hst'⟩ := hext _ _ hS
      exact Or.inr ⟨S', hS', by rw [hst']; exact hok.mono hext⟩
  · intro kd a
    show (c.start kd a = Sid.invalid) ∨ _
    rcases hI.start kd a with h | ⟨h1, h2, T, hT, hn⟩
    · exact Or.inl h
    · obtain ⟨T', hT', hst'⟩ := hext _ _ hT
      exact Or.inr ⟨h1, h2, T', hT', by rw [hst']; exact hn⟩
  · show 1 ≤ c.nextIdx ∧ (c.list.set i (some cs')).length ≤ c.nextIdx
    rw [List.length_set]
    exact hI.idx
  · intro j cs2 hj hne
    rw [hget] at hj
    split at hj
    · cases hj; exact hacc hne
    · exact hI.accel j cs2 hj hne

/-- `detectAccelExact` only reports exit bytes when every other byte provably loops back to the state -/
theorem detectAccelExact_ok {N : NFA} {cfg : Config} {c : Cache} (hI : Inv N cfg c) {i : Nat} {cs : CState}
    (hcs : c.list.getD i none = some cs) (hne : detectAccelExact cfg c cs.id ≠ []) :
    ∀ b, b < 256 → (detectAccelExact cfg c cs.id).contains b = false →
      ∃ T, step N cfg cs.st b = .next T ∧ Eqv N T cs.st := by
  obtain ⟨hoff, hinv, hdead, _⟩ := hI.ids i cs hcs
  intro b hb hnc
  unfold detectAccelExact at hne hnc
  split at hne
  · exact absurd rfl hne
  · split at hne
    · exact absurd rfl hne
    · split at hne
      · exact absurd rfl hne
      · rename_i h1 h2 h3
        rw [if_neg h1, if_neg h2, if_neg h3] at hnc
        simp only at hne hnc
        split at hne
        · exact absurd rfl hne
        · rename_i h4
          rw [if_neg h4] at hnc
          -- `b` is not among the filtered bytes
          have hnm : b ∉ (List.range 256).filter (fun b =>
              decide (cfg.cls b ≥ cfg.stride) || (c.trans cs.id.off (cfg.cls b)).dead ||
                (c.trans cs.id.off (cfg.cls b)).off != cs.id.off) := by
            intro hm
            have : ((List.range 256).filter (fun b =>
              decide (cfg.cls b ≥ cfg.stride) || (c.trans cs.id.off (cfg.cls b)).dead ||
                (c.trans cs.id.off (cfg.cls b)).off != cs.id.off)).contains b = true := by
              simpa using hm
            rw [this] at hnc
            cases hnc
          rw [List.mem_filter] at hnm
          have hpred : ¬ ((decide (cfg.cls b ≥ cfg.stride) || (c.trans cs.id.off (cfg.cls b)).dead ||
                (c.trans cs.id.off (cfg.cls b)).off != cs.id.off) = true) :=
            fun hp => hnm ⟨List.mem_range.mpr hb, hp⟩
          simp only [Bool.or_eq_true, decide_eq_true_eq, bne_iff_ne, ne_eq, not_or, Decidable.not_not] at hpred
          obtain ⟨⟨hk, hdd⟩, hoo⟩ := hpred
          have hklt : cfg.cls b < cfg.stride := by omega
          -- the entry is known
          have hninv : (c.trans cs.id.off (cfg.cls b)).inv = false := by
            have hall : ¬ ((List.range cfg.stride).any (fun k => (c.trans cs.id.off k).inv) = true) := h3
            rw [List.any_eq_true] at hall
            cases hx : (c.trans cs.id.off (cfg.cls b)).inv with
            | false => rfl
            | true => exact absurd ⟨cfg.cls b, List.mem_range.mpr hklt, hx⟩ hall
          rw [hoff] at hninv hdd hoo
          rcases hI.trans i (cfg.cls b) with hi | ⟨S0, hS0, hok⟩
          · rw [hi] at hninv; cases hninv
          · rw [hcs] at hS0
            cases hS0
            rcases hok with ⟨hd, _⟩ | ⟨_, _, T, hT, _, hall⟩
            · rw [hd] at hdd; simp [Sid.deadS] at hdd
            · have hdd' : (c.trans i (cfg.cls b)).dead = false := by simpa using hdd
              rw [hoo, hcs] at hT
              cases hT
              exact hall b hb rfl

theorem tryDetect_eq (cfg : Config) (c : Cache) (cs : CState) :
    tryDetect cfg c cs = (cs, c) ∨
    ∃ cs', tryDetect cfg c cs = (cs', c.replace cs.id.off cs') ∧ cs'.st = cs.st ∧ cs'.id = cs.id ∧
      cs.accelChecked = false ∧
      cs'.accel = (if 0 < (if cfg.stride > 0 then detectAccelExact cfg c cs.id else []).length ∧
          (if cfg.stride > 0 then detectAccelExact cfg c cs.id else []).length ≤ 3
        then (if cfg.stride > 0 then detectAccelExact cfg c cs.id else []) else cs.accel) := by
  unfold tryDetect
  split
  · exact Or.inl rfl
  · rename_i hch
    exact Or.inr ⟨_, rfl, rfl, rfl, by simpa using hch, rfl⟩

theorem tryDetect_spec {N : NFA} {cfg : Config} {c : Cache} (hI : Inv N cfg c) {i : Nat} {cs : CState}
    (hcs : c.list.getD i none = some cs) :
    Inv N cfg (tryDetect cfg c cs).2 ∧ Ext c (tryDetect cfg c cs).2 ∧
    (tryDetect cfg c cs).2.list.getD i none = some (tryDetect cfg c cs).1 ∧
    (tryDetect cfg c cs).1.st = cs.st ∧ (tryDetect cfg c cs).1.id = cs.id ∧
    (tryDetect cfg c cs).2.trans = c.trans ∧ (tryDetect cfg c cs).2.list.length = c.list.length := by
  obtain ⟨hoff, _, _, _⟩ := hI.ids i cs hcs
  rcases tryDetect_eq cfg c cs with he | ⟨cs', he, hst, hid, _, hacc⟩
  · rw [he]
    exact ⟨hI, Ext.refl _, hcs, rfl, rfl, rfl, rfl⟩
  · rw [he, hoff]
    have hok : cs'.accel ≠ [] → AccelOK N cfg cs' := by
      intro hne
      by_cases hs : cfg.stride > 0
      · simp only [hs, ↓reduceIte] at hacc
        split at hacc
        · rename_i hlen
          have hne' : detectAccelExact cfg c cs.id ≠ [] := by
            intro hnil; rw [hnil] at hlen; simp at hlen
          intro b hb hc
          rw [hacc] at hc
          rw [hst]
          exact detectAccelExact_ok hI hcs hne' b hb hc
        · rw [hacc] at hne
          exact (hI.accel i cs hcs hne).congr hst hacc
      · simp only [hs, ↓reduceIte, List.length_nil, Nat.lt_irrefl, false_and] at hacc
        rw [hacc] at hne
        exact (hI.accel i cs hcs hne).congr hst hacc
    obtain ⟨i1, i2⟩ := inv_replace hI hcs hst hid hok
    refine ⟨i1, i2, ?_, hst, hid, rfl, ?_⟩
    · rw [replace_getD hcs]; simp
    · show (c.list.set i (some cs')).length = c.list.length
      rw [List.length_set]

theorem accelFind_spec (h : Bytes) (ex : List Nat) : ∀ (fuel pos : Nat), h.size + 1 - pos ≤ fuel →
    (∀ p, accelFind h ex fuel pos = some p → pos ≤ p ∧ p < h.size ∧ ∀ q, pos ≤ q → q < p → ex.contains (h.at q) = false) ∧
    (accelFind h ex fuel pos = none → ∀ q, pos ≤ q → q < h.size → ex.contains (h.at q) = false) := by
  intro fuel
  induction fuel with
  | zero =>
    intro pos hf
    rw [accelFind]
    exact ⟨fun p hp => (by cases hp), fun _ q h1 h2 => (by omega)⟩
  | succ fuel ih =>
    intro pos hf
    rw [accelFind]
    by_cases hge : pos ≥ h.size
    · rw [if_pos hge]
      exact ⟨fun p hp => (by cases hp), fun _ q h1 h2 => (by omega)⟩
    · rw [if_neg hge]
      by_cases hc : ex.contains (h.at pos) = true
      · rw [if_pos hc]
        refine ⟨?_, fun hn => by cases hn⟩
        intro p hp
        cases hp
        exact ⟨Nat.le_refl _, by omega, fun q h1 h2 => by omega⟩
      · rw [if_neg hc]
        obtain ⟨i1, i2⟩ := ih (pos+1) (by omega)
        have hcf : ex.contains (h.at pos) = false := by simpa using hc
        constructor
        · intro p hp
          obtain ⟨j1, j2, j3⟩ := i1 p hp
          refine ⟨by omega, j2, ?_⟩
          intro q h1 h2
          by_cases hq : q = pos
          · rw [hq]; exact hcf
          · exact j3 q (by omega) h2
        · intro hn q h1 h2
          by_cases hq : q = pos
          · rw [hq]; exact hcf
          · exact i2 hn q (by omega) h2

/-- where the acceleration step lands: every byte it skipped is a non-exit byte -/
theorem accelPos_spec (h : Bytes) (cur : CState) {pos : Nat} (hp : pos ≤ h.size) :
    pos ≤ accelPos h cur pos ∧ accelPos h cur pos ≤ h.size ∧
    (cur.accel = [] → accelPos h cur pos = pos) ∧
    (∀ q, pos ≤ q → q < accelPos h cur pos → cur.accel.contains (h.at q) = false) := by
  unfold accelPos
  by_cases he : cur.accel.isEmpty = true
  · rw [if_pos he]
    exact ⟨Nat.le_refl _, hp, fun _ => rfl, fun q h1 h2 => by omega⟩
  · rw [if_neg he]
    have hne : cur.accel ≠ [] := by intro hh; rw [hh] at he; exact he rfl
    obtain ⟨i1, i2⟩ := accelFind_spec h cur.accel (h.size + 1 - pos) pos (Nat.le_refl _)
    cases hf : accelFind h cur.accel (h.size + 1 - pos) pos with
    | none =>
      simp only [Option.getD_none]
      exact ⟨hp, Nat.le_refl _, fun hh => absurd hh hne, fun q h1 h2 => i2 hf q h1 h2⟩
    | some p =>
      simp only [Option.getD_some]
      obtain ⟨j1, j2, j3⟩ := i1 p hf
      exact ⟨j1, by omega, fun hh => absurd hh hne, j3⟩

/-- the uncached `searchAt` loop over a stretch of bytes that loop back to the state -/
theorem sU_skip {N : NFA} {cfg : Config} {h : Bytes} (hb : BytesOK h) {S : DState} {ex : List Nat}
    (hacc : ∀ b, b < 256 → ex.contains b = false → ∃ T, step N cfg S b = .next T ∧ Eqv N T S) :
    ∀ (d pos : Nat) (last : Option Nat), pos + d ≤ h.size →
      (∀ q, pos ≤ q → q < pos + d → ex.contains (h.at q) = false) →
      sU N cfg h pos S last =
        sU N cfg h (pos + d) S (if decide (pos + d > pos) && S.isMatch then some (pos + d - 1) else last) := by
  intro d
  induction d with
  | zero => intro pos last _ _; simp
  | succ d ih =>
    intro pos last hle hall
    have hlt : pos < h.size := by omega
    obtain ⟨T, hs, he⟩ := hacc (h.at pos) (hb pos) (hall pos (Nat.le_refl _) (by omega))
    rw [sU_lt hlt, hs]
    simp only
    rw [sU_congr he (by omega), ih (pos+1) _ (by omega) (fun q h1 h2 => hall q (by omega) (by omega))]
    have hpd : pos + 1 + d = pos + (d + 1) := by omega
    rw [hpd, he.2.1]
    congr 1
    cases hm : S.isMatch with
    | false => simp
    | true =>
      by_cases hd : d = 0
      · subst hd; simp
      · have h1 : pos + (d + 1) > pos + 1 := by omega
        have h2 : pos + (d + 1) > pos := by omega
        simp [h1, h2]

/-- the uncached `searchEarliestMatch` loop over a stretch of bytes that loop back to a non-match state -/
theorem eU_skip {N : NFA} {cfg : Config} {h : Bytes} (hb : BytesOK h) {S : DState} {ex : List Nat} (hm : S.isMatch = false)
    (hacc : ∀ b, b < 256 → ex.contains b = false → ∃ T, step N cfg S b = .next T ∧ Eqv N T S) :
    ∀ (d pos : Nat), pos + d ≤ h.size →
      (∀ q, pos ≤ q → q < pos + d → ex.contains (h.at q) = false) →
      eU N cfg h pos S = eU N cfg h (pos + d) S := by
  intro d
  induction d with
  | zero => intro pos _ _; rfl
  | succ d ih =>
    intro pos hle hall
    have hlt : pos < h.size := by omega
    obtain ⟨T, hs, he⟩ := hacc (h.at pos) (hb pos) (hall pos (Nat.le_refl _) (by omega))
    rw [eU_lt hlt, hs]
    simp only
    rw [he.2.1, hm]
    simp only [Bool.false_eq_true, ↓reduceIte]
    rw [eU_congr he (by omega), ih (pos+1) (by omega) (fun q h1 h2 => hall q (by omega) (by omega))]
    have hpd : pos + 1 + d = pos + (d + 1) := by omega
    rw [hpd]

theorem lookupT_congr {c c' : Cache} (ht : c'.trans = c.trans) (hl : c'.list.length = c.list.length) (row k : Nat) :
    c'.lookupT row k = c.lookupT row k := by
  unfold Cache.lookupT Cache.rows
  rw [ht, hl]

theorem fastStep_some {N : NFA} {cfg : Config} {c : Cache} {h : Bytes} {pos : Nat} {sid n : Sid} {k : Nat}
    (hf : fastStep N cfg c h pos sid k = some n) :
    n.tagged = false ∧
    ((0 < k ∧ n = c.lookupT sid.off (cfg.cls (h.at pos))) ∨
     (k = 0 ∧ sid.off < c.rows ∧ n = c.trans sid.off (cfg.cls (h.at pos)))) := by
  unfold fastStep at hf
  split at hf
  · rename_i hk
    simp only at hf
    split at hf
    · cases hf
    · rename_i ht
      cases hf
      exact ⟨by simpa using ht, Or.inl ⟨hk, rfl⟩⟩
  · rename_i hk
    split at hf
    · rename_i hc
      simp only [Bool.and_eq_true, decide_eq_true_eq] at hc
      simp only at hf
      split at hf
      · cases hf
      · rename_i ht
        cases hf
        exact ⟨by simpa using ht, Or.inr ⟨by omega, hc.2, rfl⟩⟩
    · cases hf

/-! ### `searchAt` -/

theorem eoiC_eq {N : NFA} {c : Cache} {sid : Sid} {S : DState} (hat : AtState N c sid S) : eoiC N c sid = checkEOI N S := by
  obtain ⟨cs, hgs, _, he⟩ := hat.getState
  unfold eoiC
  rw [hgs]
  exact checkEOI_congr he

/-- the acceleration step of the slow path, seen from the uncached loop -/
theorem accel_skip {N : NFA} {cfg : Config} {h : Bytes} (hb : BytesOK h) {c : Cache} (hI : Inv N cfg c) {sid : Sid}
    {S : DState} {cur : CState} (hcur : c.list.getD sid.off none = some cur) (he : Eqv N cur.st S) {pos : Nat}
    (hp : pos ≤ h.size) :
    pos ≤ accelPos h cur pos ∧ accelPos h cur pos ≤ h.size ∧
    (∀ last, sU N cfg h pos S last = sU N cfg h (accelPos h cur pos) S
      (if decide (accelPos h cur pos > pos) && S.isMatch then some (accelPos h cur pos - 1) else last)) ∧
    (S.isMatch = false → eU N cfg h pos S = eU N cfg h (accelPos h cur pos) S) := by
  obtain ⟨a1, a2, a3, a4⟩ := accelPos_spec h cur hp
  refine ⟨a1, a2, ?_, ?_⟩
  · intro last
    by_cases hnil : cur.accel = []
    · rw [a3 hnil]; simp
    · have hacc : ∀ b, b < 256 → cur.accel.contains b = false → ∃ T, step N cfg S b = .next T ∧ Eqv N T S := by
        intro b hb' hc
        obtain ⟨T, hs, hT⟩ := hI.accel _ cur hcur hnil b hb' hc
        exact ⟨T, by rw [← step_congr cfg he]; exact hs, hT.trans he⟩
      have := sU_skip hb hacc (accelPos h cur pos - pos) pos last (by omega) (fun q h1 h2 => a4 q h1 (by omega))
      have hpd : pos + (accelPos h cur pos - pos) = accelPos h cur pos := by omega
      rw [hpd] at this
      exact this
  · intro hm
    by_cases hnil : cur.accel = []
    · rw [a3 hnil]
    · have hacc : ∀ b, b < 256 → cur.accel.contains b = false → ∃ T, step N cfg S b = .next T ∧ Eqv N T S := by
        intro b hb' hc
        obtain ⟨T, hs, hT⟩ := hI.accel _ cur hcur hnil b hb' hc
        exact ⟨T, by rw [← step_congr cfg he]; exact hs, hT.trans he⟩
      have := eU_skip hb hm hacc (accelPos h cur pos - pos) pos (by omega) (fun q h1 h2 => a4 q h1 (by omega))
      have hpd : pos + (accelPos h cur pos - pos) = accelPos h cur pos := by omega
      rw [hpd] at this
      exact this

theorem searchLoopC_sim {N : NFA} {cfg : Config} {h : Bytes} (hC : ClassSound N cfg) (hb : BytesOK h) :
    ∀ (fuel : Nat) (c : Cache) (pos : Nat) (sid : Sid) (last : Option Nat) (k : Nat) (S : DState),
    h.size + 1 - pos ≤ fuel → pos ≤ h.size → Inv N cfg c → AtState N c sid S →
    Inv N cfg (searchLoopC N cfg h fuel c pos sid last k).2 ∧
    ((searchLoopC N cfg h fuel c pos sid last k).1 = .gaveUp ∨
     (searchLoopC N cfg h fuel c pos sid last k).1 = sU N cfg h pos S last) := by
  intro fuel
  induction fuel with
  | zero => intro c pos sid last k S hf hp _ _; omega
  | succ fuel ih =>
    intro c pos sid last k S hf hp hI hat
    obtain ⟨cur0, hgs, hcur0, hcn⟩ := hat.getState
    by_cases hlt : pos < h.size
    · -- following a known, non-dead transition (in any cache in which the run is at `S`, at any position reached)
      have hfollow : ∀ (c' : Cache) (k' : Nat) (nx : Sid) (np : Nat) (lst : Option Nat), Inv N cfg c' → AtState N c' sid S →
          pos ≤ np → np < h.size →
          nx = c'.trans sid.off (cfg.cls (h.at np)) → nx ≠ Sid.invalid → nx ≠ Sid.deadS →
          Inv N cfg (searchLoopC N cfg h fuel c' (np+1) nx (if nx.mtch then some np else lst) k').2 ∧
          ((searchLoopC N cfg h fuel c' (np+1) nx (if nx.mtch then some np else lst) k').1 = .gaveUp ∨
           (searchLoopC N cfg h fuel c' (np+1) nx (if nx.mtch then some np else lst) k').1 = sU N cfg h np S lst) := by
        intro c' k' nx np lst hI' hat' hnp1 hnp2 hnx hne hnd
        subst hnx
        rcases follow hI' hat' (hb np) hne with ⟨hd, _⟩ | ⟨_, T', hs, hat''⟩
        · exact absurd hd hnd
        · rw [sU_lt hnp2, hs]
          simp only
          rw [← hat''.2.2.1]
          exact ih c' (np+1) _ _ k' T' (by omega) (by omega) hI' hat''
      rw [searchLoopC]
      simp only [hlt, ↓reduceIte]
      cases hfs : fastStep N cfg c h pos sid k with
      | some n =>
        simp only
        obtain ⟨ht, hn⟩ := fastStep_some hfs
        have hn' : n = c.trans sid.off (cfg.cls (h.at pos)) := by
          rcases hn with ⟨_, hn⟩ | ⟨_, _, hn⟩
          · rw [hn, hat.lookupT]
          · exact hn
        obtain ⟨t1, t2, t3, t4⟩ := tagged_false ht
        have hne : n ≠ Sid.invalid := by intro he; rw [he] at t1; cases t1
        have hnd : n ≠ Sid.deadS := by intro he; rw [he] at t2; cases t2
        have := hfollow c (nextPhase k) n pos last hI hat (Nat.le_refl _) hlt hn' hne hnd
        rw [t4] at this
        simpa using this
      | none =>
        simp only
        rw [hat.lookupT]
        by_cases hsf : (sid.start && c.trans sid.off (cfg.cls (h.at pos)) != Sid.invalid &&
            c.trans sid.off (cfg.cls (h.at pos)) != Sid.deadS) = true
        · rw [if_pos hsf]
          simp only [Bool.and_eq_true, bne_iff_ne, ne_eq] at hsf
          exact hfollow c 0 _ pos last hI hat (Nat.le_refl _) hlt rfl hsf.1.2 hsf.2
        · rw [if_neg hsf, hgs]
          simp only
          obtain ⟨i1, i2, i3, i4, _, i6, i7⟩ := tryDetect_spec (cfg := cfg) hI hcur0
          generalize tryDetect cfg c cur0 = dc at *
          have hat2 : AtState N dc.2 sid S := hat.ext i2
          have hde : Eqv N dc.1.st S := by rw [i4]; exact hcn
          obtain ⟨s1, s2, s3, _⟩ := accel_skip (cfg := cfg) hb i1 i3 hde hp
          have hm : sid.mtch = S.isMatch := hat.2.2.1
          rw [s3 last, ← hm]
          generalize accelPos h dc.1 pos = np at *
          generalize (if (decide (np > pos) && sid.mtch) = true then some (np - 1) else last) = lst
          by_cases hge : np ≥ h.size
          · rw [if_pos hge, eoiC_eq hat2, sU_ge (by omega) s2]
            split
            · exact ⟨i1, Or.inr rfl⟩
            · exact ⟨i1, Or.inr rfl⟩
          · rw [if_neg hge]
            have hnlt : np < h.size := by omega
            have hlk : dc.2.lookupT sid.off (cfg.cls (h.at np)) = c.trans sid.off (cfg.cls (h.at np)) := by
              rw [hat2.lookupT, i6]
            rw [hlk]
            by_cases hinv : c.trans sid.off (cfg.cls (h.at np)) = Sid.invalid
            · rw [if_pos hinv]
              cases hd : determinize N cfg dc.2 dc.1 (h.at np) with
              | mk r c1 =>
                obtain ⟨hI1, hr⟩ := determinize_spec i1 hC i3 (hb np) r c1 hd
                cases r with
                | dead =>
                  simp only at hr ⊢
                  refine ⟨hI1, Or.inr ?_⟩
                  rw [sU_lt hnlt, ← step_congr cfg hde, hr]
                | next cs =>
                  simp only at hr ⊢
                  obtain ⟨hs, hget⟩ := hr
                  have hat3 := atState_of_get hI1 hget
                  rw [sU_lt hnlt, ← step_congr cfg hde, hs]
                  simp only
                  rw [← hat3.2.2.1]
                  exact ih c1 (np+1) cs.id _ 0 cs.st (by omega) (by omega) hI1 hat3
                | fail => exact ⟨hI1, Or.inl rfl⟩
            · rw [if_neg hinv]
              have hinv2 : dc.2.trans sid.off (cfg.cls (h.at np)) ≠ Sid.invalid := by rw [i6]; exact hinv
              by_cases hdd : c.trans sid.off (cfg.cls (h.at np)) = Sid.deadS
              · rw [if_pos hdd]
                refine ⟨i1, Or.inr ?_⟩
                rcases follow i1 hat2 (hb np) hinv2 with ⟨_, hs⟩ | ⟨hnd, _⟩
                · rw [sU_lt hnlt, hs]
                · rw [i6] at hnd; exact absurd hdd hnd
              · rw [if_neg hdd]
                exact hfollow dc.2 0 _ np lst i1 hat2 s1 hnlt (by rw [i6]) hinv hdd
    · rw [searchLoopC]
      simp only [hlt, ↓reduceIte]
      rw [eoiC_eq hat, sU_ge hlt hp]
      split
      · exact ⟨hI, Or.inr rfl⟩
      · exact ⟨hI, Or.inr rfl⟩

/-- (a) for `searchAt`: on ANY cache satisfying the invariant the cached search either gives up (NFA fallback) or returns
    exactly what the search without a cache returns; the invariant holds again afterwards.  Every capacity, every clear
    limit, acceleration and word boundaries included. -/
theorem searchAtC_eq {N : NFA} {cfg : Config} {h : Bytes} {c : Cache} (hC : ClassSound N cfg)
    (hb : BytesOK h) (hI : Inv N cfg c) (startPos : Nat) :
    Inv N cfg (searchAtC N cfg c h startPos).2 ∧
    ((searchAtC N cfg c h startPos).1 = .gaveUp ∨ (searchAtC N cfg c h startPos).1 = searchAtU N cfg h startPos) := by
  unfold searchAtC searchAtU
  by_cases hgt : startPos > h.size
  · simp only [hgt, ↓reduceIte]
    exact ⟨hI, Or.inr trivial⟩
  · simp only [hgt, ↓reduceIte]
    by_cases ha : alwaysAnchored N = true ∧ startPos > 0
    · simp only [ha, and_self, ↓reduceIte]
      exact ⟨hI, Or.inr trivial⟩
    · rw [if_neg ha, if_neg ha]
      cases hg : getStart N cfg c h startPos false with
      | mk ocur c1 =>
        obtain ⟨hI1, hcur⟩ := getStart_spec hI h startPos false ocur c1 hg
        cases ocur with
        | none => exact ⟨hI1, Or.inl rfl⟩
        | some cur =>
          simp only
          obtain ⟨hn, hi, hd, hget⟩ := hcur cur rfl
          have hat := atState_of_get hI1 hget
          rw [hn] at hat
          exact searchLoopC_sim hC hb _ c1 startPos cur.id none 0 _ (Nat.le_refl _) (by omega) hI1 hat

/-! ### `searchEarliestMatch` -/

theorem fastStepE_spec {N : NFA} {cfg : Config} {c : Cache} {h : Bytes} {pos : Nat} {sid : Sid} {k : Nat} :
    (fastStepE N cfg c h pos sid k = .slow) ∨
    (∃ n, (fastStepE N cfg c h pos sid k = .hit ∧ n.mtch = true ∧ n.tagged = true ∨
           fastStepE N cfg c h pos sid k = .go n ∧ n.tagged = false) ∧
      ((0 < k ∧ n = c.lookupT sid.off (cfg.cls (h.at pos))) ∨
       (k = 0 ∧ sid.off < c.rows ∧ n = c.trans sid.off (cfg.cls (h.at pos))))) := by
  unfold fastStepE
  split
  · rename_i hk
    simp only
    split
    · rename_i ht
      split
      · rename_i hm; exact Or.inr ⟨_, Or.inl ⟨rfl, hm, ht⟩, Or.inl ⟨hk, rfl⟩⟩
      · exact Or.inl rfl
    · rename_i ht
      exact Or.inr ⟨_, Or.inr ⟨rfl, by simpa using ht⟩, Or.inl ⟨hk, rfl⟩⟩
  · rename_i hk
    split
    · rename_i hc
      simp only [Bool.and_eq_true, decide_eq_true_eq] at hc
      simp only
      split
      · rename_i ht
        split
        · rename_i hm; exact Or.inr ⟨_, Or.inl ⟨rfl, hm, ht⟩, Or.inr ⟨by omega, hc.2, rfl⟩⟩
        · exact Or.inl rfl
      · rename_i ht
        exact Or.inr ⟨_, Or.inr ⟨rfl, by simpa using ht⟩, Or.inr ⟨by omega, hc.2, rfl⟩⟩
    · exact Or.inl rfl

/-- the loop of `searchEarliestMatch` is only ever at states that are not match-tagged (`hnm`) -/
theorem earliestLoopC_sim {N : NFA} {cfg : Config} {h : Bytes} (hC : ClassSound N cfg) (hb : BytesOK h) :
    ∀ (fuel : Nat) (c : Cache) (pos : Nat) (sid : Sid) (k : Nat) (S : DState),
    h.size + 1 - pos ≤ fuel → pos ≤ h.size → Inv N cfg c → AtState N c sid S → S.isMatch = false →
    Inv N cfg (earliestLoopC N cfg h fuel c pos sid k).2 ∧
    ((earliestLoopC N cfg h fuel c pos sid k).1 = .gaveUp ∨
     (earliestLoopC N cfg h fuel c pos sid k).1 = eU N cfg h pos S) := by
  intro fuel
  induction fuel with
  | zero => intro c pos sid k S hf hp _ _ _; omega
  | succ fuel ih =>
    intro c pos sid k S hf hp hI hat hnm
    obtain ⟨cur0, hgs, hcur0, hcn⟩ := hat.getState
    by_cases hlt : pos < h.size
    · have hfollow : ∀ (c' : Cache) (k' : Nat) (nx : Sid) (np : Nat), Inv N cfg c' → AtState N c' sid S →
          pos ≤ np → np < h.size →
          nx = c'.trans sid.off (cfg.cls (h.at np)) → nx ≠ Sid.invalid → nx ≠ Sid.deadS →
          Inv N cfg (if nx.mtch then ((Outcome.ok true : Outcome Bool), c') else earliestLoopC N cfg h fuel c' (np+1) nx k').2 ∧
          ((if nx.mtch then ((Outcome.ok true : Outcome Bool), c') else earliestLoopC N cfg h fuel c' (np+1) nx k').1 = .gaveUp ∨
           (if nx.mtch then ((Outcome.ok true : Outcome Bool), c') else earliestLoopC N cfg h fuel c' (np+1) nx k').1 =
             eU N cfg h np S) := by
        intro c' k' nx np hI' hat' hnp1 hnp2 hnx hne hnd
        subst hnx
        rcases follow hI' hat' (hb np) hne with ⟨hd, _⟩ | ⟨_, T', hs, hat''⟩
        · exact absurd hd hnd
        · rw [eU_lt hnp2, hs]
          simp only
          rw [← hat''.2.2.1]
          split
          · exact ⟨hI', Or.inr rfl⟩
          · rename_i hmf
            exact ih c' (np+1) _ k' T' (by omega) (by omega) hI' hat'' (by rw [← hat''.2.2.1]; simpa using hmf)
      rw [earliestLoopC]
      simp only [hlt, ↓reduceIte]
      rcases fastStepE_spec (N := N) (cfg := cfg) (c := c) (h := h) (pos := pos) (sid := sid) (k := k) with
        hs | ⟨n, hcase, hn⟩
      · rw [hs]
        simp only
        rw [hat.lookupT]
        by_cases hsf : (sid.start && c.trans sid.off (cfg.cls (h.at pos)) != Sid.invalid &&
            c.trans sid.off (cfg.cls (h.at pos)) != Sid.deadS) = true
        · rw [if_pos hsf]
          simp only [Bool.and_eq_true, bne_iff_ne, ne_eq] at hsf
          exact hfollow c 0 _ pos hI hat (Nat.le_refl _) hlt rfl hsf.1.2 hsf.2
        · rw [if_neg hsf, hgs]
          simp only
          obtain ⟨i1, i2, i3, i4, _, i6, i7⟩ := tryDetect_spec (cfg := cfg) hI hcur0
          generalize tryDetect cfg c cur0 = dc at *
          have hat2 : AtState N dc.2 sid S := hat.ext i2
          have hde : Eqv N dc.1.st S := by rw [i4]; exact hcn
          obtain ⟨s1, s2, _, s4⟩ := accel_skip (cfg := cfg) hb i1 i3 hde hp
          rw [s4 hnm]
          generalize accelPos h dc.1 pos = np at *
          by_cases hge : np ≥ h.size
          · rw [if_pos hge, eoiC_eq hat2, eU_ge (by omega) s2]
            exact ⟨i1, Or.inr rfl⟩
          · rw [if_neg hge]
            have hnlt : np < h.size := by omega
            have hlk : dc.2.lookupT sid.off (cfg.cls (h.at np)) = c.trans sid.off (cfg.cls (h.at np)) := by
              rw [hat2.lookupT, i6]
            rw [hlk]
            by_cases hinv : c.trans sid.off (cfg.cls (h.at np)) = Sid.invalid
            · rw [if_pos hinv]
              cases hd : determinize N cfg dc.2 dc.1 (h.at np) with
              | mk r c1 =>
                obtain ⟨hI1, hr⟩ := determinize_spec i1 hC i3 (hb np) r c1 hd
                cases r with
                | dead =>
                  simp only at hr ⊢
                  refine ⟨hI1, Or.inr ?_⟩
                  rw [eU_lt hnlt, ← step_congr cfg hde, hr]
                | next cs =>
                  simp only at hr ⊢
                  obtain ⟨hs, hget⟩ := hr
                  have hat3 := atState_of_get hI1 hget
                  rw [eU_lt hnlt, ← step_congr cfg hde, hs]
                  simp only
                  rw [← hat3.2.2.1]
                  split
                  · exact ⟨hI1, Or.inr rfl⟩
                  · rename_i hmf
                    exact ih c1 (np+1) cs.id 0 cs.st (by omega) (by omega) hI1 hat3 (by rw [← hat3.2.2.1]; simpa using hmf)
                | fail => exact ⟨hI1, Or.inl rfl⟩
            · rw [if_neg hinv]
              have hinv2 : dc.2.trans sid.off (cfg.cls (h.at np)) ≠ Sid.invalid := by rw [i6]; exact hinv
              by_cases hdd : c.trans sid.off (cfg.cls (h.at np)) = Sid.deadS
              · rw [if_pos hdd]
                refine ⟨i1, Or.inr ?_⟩
                rcases follow i1 hat2 (hb np) hinv2 with ⟨_, hs⟩ | ⟨hnd, _⟩
                · rw [eU_lt hnlt, hs]
                · rw [i6] at hnd; exact absurd hdd hnd
              · rw [if_neg hdd]
                exact hfollow dc.2 0 _ np i1 hat2 s1 hnlt (by rw [i6]) hinv hdd
      · have hn' : n = c.trans sid.off (cfg.cls (h.at pos)) := by
          rcases hn with ⟨_, hn⟩ | ⟨_, _, hn⟩
          · rw [hn, hat.lookupT]
          · exact hn
        rcases hcase with ⟨hs, hm, _⟩ | ⟨hs, ht⟩
        · -- a match-tagged target seen by the unrolled block
          rw [hs]
          simp only
          have hne : n ≠ Sid.invalid := by intro he; rw [he] at hm; cases hm
          have hnd : n ≠ Sid.deadS := by intro he; rw [he] at hm; cases hm
          have := hfollow c 0 n pos hI hat (Nat.le_refl _) hlt hn' hne hnd
          rw [hm] at this
          simpa using this
        · rw [hs]
          simp only
          obtain ⟨t1, t2, t3, t4⟩ := tagged_false ht
          have hne : n ≠ Sid.invalid := by intro he; rw [he] at t1; cases t1
          have hnd : n ≠ Sid.deadS := by intro he; rw [he] at t2; cases t2
          have := hfollow c (nextPhase k) n pos hI hat (Nat.le_refl _) hlt hn' hne hnd
          rw [t4] at this
          simpa using this
    · rw [earliestLoopC]
      simp only [hlt, ↓reduceIte]
      rw [eoiC_eq hat, eU_ge hlt hp]
      exact ⟨hI, Or.inr rfl⟩

/-- (a) for `searchEarliestMatch` (`IsMatch`, `IsMatchAt`) -/
theorem earliestC_eq {N : NFA} {cfg : Config} {h : Bytes} {c : Cache} (hC : ClassSound N cfg)
    (hb : BytesOK h) (hI : Inv N cfg c) (startPos : Nat) :
    Inv N cfg (earliestC N cfg c h startPos).2 ∧
    ((earliestC N cfg c h startPos).1 = .gaveUp ∨ (earliestC N cfg c h startPos).1 = earliestU N cfg h startPos) := by
  unfold earliestC earliestU
  by_cases hgt : startPos > h.size
  · simp only [hgt, ↓reduceIte]
    exact ⟨hI, Or.inr trivial⟩
  · simp only [hgt, ↓reduceIte]
    by_cases ha : alwaysAnchored N = true ∧ startPos > 0
    · simp only [ha, and_self, ↓reduceIte]
      exact ⟨hI, Or.inr trivial⟩
    · rw [if_neg ha, if_neg ha]
      cases hg : getStart N cfg c h startPos false with
      | mk ocur c1 =>
        obtain ⟨hI1, hcur⟩ := getStart_spec hI h startPos false ocur c1 hg
        cases ocur with
        | none => exact ⟨hI1, Or.inl rfl⟩
        | some cur =>
          simp only
          obtain ⟨hn, hi, hd, hget⟩ := hcur cur rfl
          have hat := atState_of_get hI1 hget
          rw [hn] at hat
          exact earliestLoopC_sim hC hb _ c1 startPos cur.id 0 _ (Nat.le_refl _) (by omega) hI1 hat rfl

/-! ### `SearchAtAnchored` -/

theorem anchoredLoopC_sim {N : NFA} {cfg : Config} {h : Bytes} (hC : ClassSound N cfg) (hb : BytesOK h) :
    ∀ (fuel : Nat) (c : Cache) (pos : Nat) (sid : Sid) (last : Option Nat) (S : DState),
    h.size + 1 - pos ≤ fuel → pos ≤ h.size → Inv N cfg c → AtState N c sid S →
    Inv N cfg (anchoredLoopC N cfg h fuel c pos sid last).2 ∧
    ((anchoredLoopC N cfg h fuel c pos sid last).1 = .gaveUp ∨
     (anchoredLoopC N cfg h fuel c pos sid last).1 = sU N cfg h pos S last) := by
  intro fuel
  induction fuel with
  | zero => intro c pos sid last S hf hp _ _; omega
  | succ fuel ih =>
    intro c pos sid last S hf hp hI hat
    obtain ⟨cur, hgs, hcur, hcn⟩ := hat.getState
    by_cases hlt : pos < h.size
    · rw [anchoredLoopC]
      simp only [hlt, ↓reduceIte]
      rw [hat.lookupT]
      by_cases hinv : c.trans sid.off (cfg.cls (h.at pos)) = Sid.invalid
      · rw [if_pos hinv, hgs]
        simp only
        cases hd : determinize N cfg c cur (h.at pos) with
        | mk r c1 =>
          obtain ⟨hI1, hr⟩ := determinize_spec hI hC hcur (hb pos) r c1 hd
          cases r with
          | dead =>
            simp only at hr ⊢
            refine ⟨hI1, Or.inr ?_⟩
            rw [sU_lt hlt, ← step_congr cfg hcn, hr]
          | next cs =>
            simp only at hr ⊢
            obtain ⟨hs, hget⟩ := hr
            have hat3 := atState_of_get hI1 hget
            rw [sU_lt hlt, ← step_congr cfg hcn, hs]
            simp only
            rw [← hat3.2.2.1]
            exact ih c1 (pos+1) cs.id _ cs.st (by omega) (by omega) hI1 hat3
          | fail => exact ⟨hI1, Or.inl rfl⟩
      · rw [if_neg hinv]
        rcases follow hI hat (hb pos) hinv with ⟨hd, hs⟩ | ⟨hnd, T', hs, hat'⟩
        · rw [if_pos hd]
          exact ⟨hI, Or.inr (by rw [sU_lt hlt, hs])⟩
        · rw [if_neg hnd, sU_lt hlt, hs]
          simp only
          rw [← hat'.2.2.1]
          exact ih c (pos+1) _ _ T' (by omega) (by omega) hI hat'
    · rw [anchoredLoopC]
      simp only [hlt, ↓reduceIte]
      rw [eoiC_eq hat, sU_ge hlt hp]
      split
      · exact ⟨hI, Or.inr rfl⟩
      · exact ⟨hI, Or.inr rfl⟩

/-- (a) for `SearchAtAnchored`, for every clear limit: a cache clear no longer loses the threads in flight -/
theorem anchoredC_eq {N : NFA} {cfg : Config} {h : Bytes} {c : Cache} (hC : ClassSound N cfg)
    (hb : BytesOK h) (hI : Inv N cfg c) {at_ : Nat} (hp : at_ ≤ h.size) :
    Inv N cfg (anchoredC N cfg c h at_).2 ∧
    ((anchoredC N cfg c h at_).1 = .gaveUp ∨ (anchoredC N cfg c h at_).1 = anchoredU N cfg h at_) := by
  unfold anchoredC anchoredU
  cases hg : getStart N cfg c h at_ true with
  | mk ocur c1 =>
    obtain ⟨hI1, hcur⟩ := getStart_spec hI h at_ true ocur c1 hg
    cases ocur with
    | none => exact ⟨hI1, Or.inl rfl⟩
    | some cur =>
      simp only
      obtain ⟨hn, hi, hd, hget⟩ := hcur cur rfl
      have hat := atState_of_get hI1 hget
      rw [hn] at hat
      exact anchoredLoopC_sim hC hb _ c1 at_ cur.id none _ (Nat.le_refl _) hp hI1 hat

end Cx.Dfa
