import Cx.Proofs.DfaRev
import Cx.Proofs.DfaRef
import Cx.Proofs.ReverseBase
/-
  Cx.Proofs.DfaRevRef — (b) THE UNCACHED REVERSE SEARCH IS THE LONGEST REVERSE MATCH.

  `R` is the automaton the reverse DFA is built from (`nfa.Reverse(N)` / `nfa.ReverseAnchored(N)`; here ANY automaton
  without look-around and rune states), `cfg.breakAtMatch = false`.  The search reads `h[end-1], h[end-2], …`, i.e. it runs
  `R` forwards over the REVERSED haystack `revB h` from position `|h| - end`.  Reference = the path relation `AcceptsA` /
  `ReachesA` of `Cx.Proofs.ReverseBase` in which a sparse state follows EVERY transition containing the byte (reverse
  automata have overlapping sparse ranges; `Dfa.moveLoop`/`sparseInto` — the real `Builder.step` — follow them all, so NO
  `sparseDisjointB` hypothesis is needed here, unlike in `Cx.Proofs.DfaRef`):

      RAcc R h e s    :=  ReachesA R (revB h) R.startUnanchored (|h| - e) (|h| - s)     "R accepts h[e-1], …, h[s]"
      RAlive R h e p  :=  some state of R is reachable after reading h[e-1], …, h[p]

  Without break-at-match a DFA state is exactly the SET of reachable NFA states (`SetAt`), the delayed match flag of the
  state reached by `h[p-1]` says `RAcc … p`, and:

    reverseWalk_spec      with lb = max start minStart, for start < e ≤ |h|:
                            start < lb  and  RAlive at every at ∈ [lb, e)   →  reverseWalk … = .cutOff   (-2)
                            otherwise                                        →  reverseWalk … = ofLast o with
                                                                                 `LeastIn (RAcc R h e) start e o`
                          (o = the LEAST s ∈ [start, e] with RAcc … s, `none` iff there is none)
    searchReverseU_spec   SearchReverse  = ofLast (that least s)
    searchReverseLimitedU_found / _none / _cutOff
    isMatchReverseU_iff   IsMatchReverse ↔ ∃ s ∈ [start, e], RAcc … s

  The cached versions follow with `Cx.Proofs.DfaRev` (`searchReverseC_spec`, …).
-/
namespace Cx.Dfa
open Cx Cx.Nfa
open Cx.Rev (StepA StepsA Star ReachesA AcceptsA revB)
open Cx.RevSuffix (RevAnswer)

/-! ### snoc induction for `Star` -/

theorem star_snoc_ind {α : Type} {R : α → α → Prop} {a b : α} (h : Star R a b) :
    ∀ {P : α → Prop}, P a → (∀ b c, Star R a b → R b c → P b → P c) → P b := by
  induction h with
  | refl a => intro P h0 _; exact h0
  | @cons a a' b hab _ ih =>
    intro P h0 hs
    exact ih (P := P) (hs a a' (.refl a) hab h0) (fun b' c' hb' hr hp => hs b' c' (.cons hab hb') hr hp)

/-! ### the closure as a set -/

/-- `t` is pushed when `q` is popped -/
def EpsR (N : NFA) (lk : LookSet) (q t : Nat) : Prop := t ∈ succs N lk q

theorem clo_sound {N : NFA} {lk : LookSet} {st res r : List Nat} (h : Clo N lk st res r) :
    ∀ x ∈ r, x ∈ res ∨ ∃ s ∈ st, Star (EpsR N lk) s x := by
  induction h with
  | nil res => intro x hx; exact Or.inl hx
  | @skip q st res r _ _ ih =>
    intro x hx
    rcases ih x hx with h1 | ⟨s, hs, hp⟩
    · exact Or.inl h1
    · exact Or.inr ⟨s, List.mem_cons_of_mem _ hs, hp⟩
  | @add q st res r _ _ ih =>
    intro x hx
    rcases ih x hx with h1 | ⟨s, hs, hp⟩
    · rcases List.mem_append.mp h1 with h2 | h2
      · exact Or.inl h2
      · have : x = q := by simpa using h2
        subst this
        exact Or.inr ⟨x, List.mem_cons_self, .refl _⟩
    · rcases List.mem_append.mp hs with h2 | h2
      · exact Or.inr ⟨q, List.mem_cons_self, .cons h2 hp⟩
      · exact Or.inr ⟨s, List.mem_cons_of_mem _ h2, hp⟩

theorem closed_star {N : NFA} {lk : LookSet} {X : List Nat} (hc : Closed N lk X) {s x : Nat} (hp : Star (EpsR N lk) s x) :
    s ∈ X → x ∈ X := by
  induction hp with
  | refl _ => intro h; exact h
  | cons hst _ ih => intro h; exact ih (hc _ h _ hst)

/-- the incremental closure of a seed list, as a set: everything epsilon-reachable from a seed -/
theorem mem_foldl_closeSeed_iff {N : NFA} (lk : LookSet) (L : List Nat) (x : Nat) :
    x ∈ L.foldl (closeSeed N lk) [] ↔ ∃ s ∈ L, Star (EpsR N lk) s x := by
  have hclo := clo_foldl (N := N) lk L (res := []) List.nodup_nil
  constructor
  · intro hx
    rcases clo_sound hclo x hx with h1 | h1
    · cases h1
    · exact h1
  · rintro ⟨s, hs, hp⟩
    have hcm : CM N lk L [] := fun q' hq' => by cases hq'
    obtain ⟨c1, _, c3⟩ := hclo.closed hcm
    have hcl : Closed N lk (L.foldl (closeSeed N lk) []) := by
      intro q hq t ht
      rcases c1 q hq t ht with h | h
      · exact h
      · cases h
    exact closed_star hcl hp (c3 s hs)

/-! ### the steps of a look-free, rune-free automaton -/

theorem mem_sparseTargets {b t : Nat} : ∀ {ts : List (Nat × Nat × Nat)},
    t ∈ sparseTargets b ts ↔ ∃ lo hi, (lo, hi, t) ∈ ts ∧ lo ≤ b ∧ b ≤ hi
  | [] => by simp [sparseTargets]
  | (lo, hi, nx) :: ts => by
    have ih := mem_sparseTargets (b := b) (t := t) (ts := ts)
    simp only [sparseTargets]
    split
    · rename_i hc
      rw [List.mem_cons, ih]
      constructor
      · rintro (rfl | ⟨lo', hi', hm, h1, h2⟩)
        · exact ⟨lo, hi, List.mem_cons_self, hc.1, hc.2⟩
        · exact ⟨lo', hi', List.mem_cons_of_mem _ hm, h1, h2⟩
      · rintro ⟨lo', hi', hm, h1, h2⟩
        rcases List.mem_cons.mp hm with he | hm
        · simp only [Prod.mk.injEq] at he
          exact Or.inl he.2.2
        · exact Or.inr ⟨lo', hi', hm, h1, h2⟩
    · rename_i hc
      rw [ih]
      constructor
      · rintro ⟨lo', hi', hm, h1, h2⟩
        exact ⟨lo', hi', List.mem_cons_of_mem _ hm, h1, h2⟩
      · rintro ⟨lo', hi', hm, h1, h2⟩
        rcases List.mem_cons.mp hm with he | hm
        · simp only [Prod.mk.injEq] at he
          obtain ⟨rfl, rfl, _⟩ := he
          exact absurd ⟨h1, h2⟩ hc
        · exact ⟨lo', hi', hm, h1, h2⟩

/-- the byte successors of ONE state: what `step` closes for it (no break) -/
def tg1 (N : NFA) (b q : Nat) : List Nat := targets N b false [q]

theorem targets_cons (N : NFA) (b q : Nat) (qs : List Nat) :
    targets N b false (q :: qs) = tg1 N b q ++ targets N b false qs := by
  unfold tg1
  rw [targets, targets]
  cases hq : N.get q with
  | mtch => simp [targets]
  | byteRange lo hi nx =>
    simp only
    split <;> simp [targets]
  | sparse ts => simp [targets]
  | _ => simp [targets]

theorem mem_targets_iff (N : NFA) (b t : Nat) : ∀ (L : List Nat), t ∈ targets N b false L ↔ ∃ q ∈ L, t ∈ tg1 N b q := by
  intro L
  induction L with
  | nil => simp [targets]
  | cons q qs ih =>
    rw [targets_cons, List.mem_append, ih]
    constructor
    · rintro (h | ⟨q', hq', ht⟩)
      · exact ⟨q, List.mem_cons_self, h⟩
      · exact ⟨q', List.mem_cons_of_mem _ hq', ht⟩
    · rintro ⟨q', hq', ht⟩
      rcases List.mem_cons.mp hq' with rfl | hq'
      · exact Or.inl ht
      · exact Or.inr ⟨q', hq', ht⟩

section
variable {R : NFA} (hlf : LookFree R) (hnr : Pike.NoRune R) (g : Bytes) (lk : LookSet)
include hlf hnr

/-- every step is an epsilon step or a byte step -/
theorem stepA_cases {q i t j : Nat} (s : StepA R g (q, i) (t, j)) :
    (j = i ∧ EpsR R lk q t) ∨ (j = i + 1 ∧ i < g.size ∧ t ∈ tg1 R (g.at i) q) := by
  unfold EpsR succs tg1
  cases s with
  | byteRange hk h1 h2 h3 =>
    right
    refine ⟨rfl, h1, ?_⟩
    rw [targets, hk]
    simp [h2, h3, targets]
  | sparse hk h1 hm h2 h3 =>
    right
    refine ⟨rfl, h1, ?_⟩
    rw [targets, hk]
    simp only [targets, List.append_nil]
    exact mem_sparseTargets.mpr ⟨_, _, hm, h2, h3⟩
  | splitL hk => left; rw [hk]; simp
  | splitR hk => left; rw [hk]; simp
  | eps hk => left; rw [hk]; simp
  | cap hk => left; rw [hk]; simp
  | look hk _ => exact absurd hk (hlf _ _ _)
  | runeAny hk _ _ => exact absurd hk (hnr _ _).1
  | runeAnyNotNL hk _ _ _ => exact absurd hk (hnr _ _).2

omit hnr in
theorem stepA_of_eps {q t : Nat} (i : Nat) (he : EpsR R lk q t) : StepA R g (q, i) (t, i) := by
  unfold EpsR succs at he
  cases hk : R.get q with
  | eps nx => rw [hk] at he; simp at he; subst he; exact .eps hk
  | split l r =>
    rw [hk] at he
    simp at he
    rcases he with rfl | rfl
    · exact .splitL hk
    · exact .splitR hk
  | cap a b nx => rw [hk] at he; simp at he; subst he; exact .cap hk
  | look k nx => exact absurd hk (hlf _ _ _)
  | _ => rw [hk] at he; simp at he

omit hlf hnr in
theorem stepA_of_tg {q t i : Nat} (hlt : i < g.size) (ht : t ∈ tg1 R (g.at i) q) : StepA R g (q, i) (t, i + 1) := by
  unfold tg1 at ht
  rw [targets] at ht
  cases hk : R.get q with
  | byteRange lo hi nx =>
    rw [hk] at ht
    simp only at ht
    split at ht
    · rename_i hc
      simp [targets] at ht
      subst ht
      exact .byteRange hk hlt hc.1 hc.2
    · simp [targets] at ht
  | sparse ts =>
    rw [hk] at ht
    simp only [targets, List.append_nil] at ht
    obtain ⟨lo, hi', hm, h1, h2⟩ := mem_sparseTargets.mp ht
    exact .sparse hk hlt hm h1 h2
  | mtch => rw [hk] at ht; simp [targets] at ht
  | _ => rw [hk] at ht; simp [targets] at ht

omit hnr in
theorem stepsA_of_epsStar {s x : Nat} (i : Nat) (hp : Star (EpsR R lk) s x) : StepsA R g (s, i) (x, i) := by
  induction hp with
  | refl _ => exact .refl _
  | cons hst _ ih => exact .cons (stepA_of_eps hlf g lk i hst) ih

theorem stepsA_mono {a b : Nat × Nat} (s : StepsA R g a b) : a.2 ≤ b.2 := by
  induction s with
  | refl _ => exact Nat.le_refl _
  | @cons a a' b st _ ih =>
    obtain ⟨q, i⟩ := a
    obtain ⟨t, j⟩ := a'
    rcases stepA_cases hlf hnr g {} st with ⟨h1, _⟩ | ⟨h1, _, _⟩ <;> simp only at ih ⊢ <;> omega

/-- a path that does not move consists of epsilon steps -/
theorem epsStar_of_stepsA {a b : Nat × Nat} (s : StepsA R g a b) : a.2 = b.2 → Star (EpsR R lk) a.1 b.1 := by
  induction s with
  | refl _ => intro _; exact .refl _
  | @cons a a' b st tail ih =>
    intro he
    obtain ⟨q, i⟩ := a
    obtain ⟨t, j⟩ := a'
    have hm := stepsA_mono hlf hnr g tail
    rcases stepA_cases hlf hnr g lk st with ⟨h1, h2⟩ | ⟨h1, _, _⟩
    · simp only at he hm ih ⊢
      exact .cons h2 (ih (by omega))
    · simp only at he hm
      omega

/-- reachable from `(s0, i0)` at position `j` -/
def Reach (R : NFA) (g : Bytes) (s0 i0 j q : Nat) : Prop := StepsA R g (s0, i0) (q, j)

theorem reach_same (s0 i0 q : Nat) : Reach R g s0 i0 i0 q ↔ Star (EpsR R lk) s0 q := by
  constructor
  · intro h
    exact epsStar_of_stepsA hlf hnr g lk h rfl
  · intro h
    exact stepsA_of_epsStar hlf g lk i0 h

/-- the last byte step of a path -/
theorem reach_succ (s0 i0 j q : Nat) (hij : i0 ≤ j) :
    Reach R g s0 i0 (j + 1) q ↔
      j < g.size ∧ ∃ q1 t, Reach R g s0 i0 j q1 ∧ t ∈ tg1 R (g.at j) q1 ∧ Star (EpsR R lk) t q := by
  constructor
  · intro h
    have key : ∀ c : Nat × Nat, StepsA R g (s0, i0) c → c.2 = j + 1 →
        j < g.size ∧ ∃ q1 t, Reach R g s0 i0 j q1 ∧ t ∈ tg1 R (g.at j) q1 ∧ Star (EpsR R lk) t c.1 := by
      intro c hc
      refine star_snoc_ind hc (P := fun c => c.2 = j + 1 →
        j < g.size ∧ ∃ q1 t, Reach R g s0 i0 j q1 ∧ t ∈ tg1 R (g.at j) q1 ∧ Star (EpsR R lk) t c.1) ?_ ?_
      · intro he
        simp only at he
        omega
      · intro b c hb st ihb hc
        obtain ⟨q', p'⟩ := b
        obtain ⟨q'', p''⟩ := c
        simp only at hc ihb ⊢
        rcases stepA_cases hlf hnr g lk st with ⟨h1, h2⟩ | ⟨h1, h2, h3⟩
        · obtain ⟨k1, q1, t, k2, k3, k4⟩ := ihb (by omega)
          exact ⟨k1, q1, t, k2, k3, k4.trans (.single h2)⟩
        · have hp : p' = j := by omega
          subst hp
          exact ⟨h2, q', q'', hb, h3, .refl _⟩
    exact key (q, j + 1) h rfl
  · rintro ⟨hj, q1, t, h1, h2, h3⟩
    exact (Star.snoc h1 (stepA_of_tg g hj h2)).trans (stepsA_of_epsStar hlf g lk (j + 1) h3)

/-- once no state is reachable, none is reachable later -/
theorem reach_dead (s0 i0 j : Nat) (hij : i0 ≤ j) (hd : ∀ q, ¬ Reach R g s0 i0 j q) :
    ∀ d q, ¬ Reach R g s0 i0 (j + d) q := by
  intro d
  induction d with
  | zero => exact hd
  | succ d ih =>
    intro q hq
    rw [show j + (d + 1) = (j + d) + 1 by omega, reach_succ hlf hnr g {} s0 i0 (j + d) q (by omega)] at hq
    obtain ⟨_, q1, _, h1, _⟩ := hq
    exact ih q1 h1

/-! ### a DFA state of the non-breaking DFA is the set of reachable states -/

def SetAt (R : NFA) (g : Bytes) (s0 i0 j : Nat) (L : List Nat) : Prop := ∀ q, q ∈ L ↔ Reach R g s0 i0 j q

theorem setAt_start (s0 i0 : Nat) : SetAt R g s0 i0 i0 (epsilonClosure R [s0] lk) := by
  intro q
  unfold epsilonClosure
  rw [mem_foldl_closeSeed_iff, reach_same hlf hnr g lk]
  constructor
  · rintro ⟨s, hs, hp⟩
    have : s = s0 := by simpa using hs
    subst this
    exact hp
  · intro hp
    exact ⟨s0, List.mem_cons_self, hp⟩

theorem setAt_move (s0 i0 j : Nat) (hij : i0 ≤ j) (hj : j < g.size) {L : List Nat} (hL : SetAt R g s0 i0 j L) :
    SetAt R g s0 i0 (j + 1) (moveLoop R lk (g.at j) false L []) := by
  intro q
  rw [moveLoop_eq_foldl, mem_foldl_closeSeed_iff, reach_succ hlf hnr g lk s0 i0 j q hij]
  constructor
  · rintro ⟨t, ht, hp⟩
    obtain ⟨q1, hq1, ht1⟩ := (mem_targets_iff R _ t L).mp ht
    exact ⟨hj, q1, t, (hL q1).mp hq1, ht1, hp⟩
  · rintro ⟨_, q1, t, h1, h2, h3⟩
    exact ⟨t, (mem_targets_iff R _ t L).mpr ⟨q1, (hL q1).mpr h1, h2⟩, h3⟩

end

theorem containsMatch_iff (N : NFA) (L : List Nat) : containsMatch N L = true ↔ ∃ m ∈ L, N.get m = .mtch := by
  unfold containsMatch
  rw [List.any_eq_true]
  constructor
  · rintro ⟨m, hm, hx⟩
    refine ⟨m, hm, ?_⟩
    unfold Pike.isMatchState at hx
    cases hg : N.get m <;> simp_all
  · rintro ⟨m, hm, hg⟩
    exact ⟨m, hm, by unfold Pike.isMatchState; rw [hg]⟩

theorem containsMatch_setAt {R : NFA} {g : Bytes} {s0 i0 j : Nat} {L : List Nat} (hL : SetAt R g s0 i0 j L) :
    containsMatch R L = true ↔ ReachesA R g s0 i0 j := by
  rw [containsMatch_iff]
  constructor
  · rintro ⟨m, hm, hg⟩
    refine ⟨m, (hL m).mp hm, hg, ?_⟩
    apply Pike.get_lt_of_ne_fail
    rw [hg]
    simp
  · rintro ⟨m, hp, hg, _⟩
    exact ⟨m, (hL m).mpr hp, hg⟩

/-! ### the hypotheses -/

/-- what the theorems ask of the automaton `R` the reverse DFA is built from and of its configuration -/
structure RevDfaHyp (R : NFA) (cfg : Config) : Prop where
  /-- no look-around states (reverse DFAs are only built for such patterns; `nfa.Reverse` writes none) -/
  lf : lookFreeB R = true
  /-- no rune states -/
  nr : noRuneB R = true
  /-- `Config.BreakAtMatch = false`, as every reverse DFA is configured -/
  brk : cfg.breakAtMatch = false

theorem resolved_lookFree {R : NFA} (hlf : lookFreeB R = true) (S : DState) (b : Nat) : resolved R S b = S.nfa := by
  unfold resolved
  rw [hasWB_of_lookFree hlf, hasEndLine_of_lookFree hlf]
  simp

theorem walkStep_eq {R : NFA} {cfg : Config} (H : RevDfaHyp R cfg) (S : DState) (b : Nat) :
    walkStep R cfg S b = (containsMatch R S.nfa, moveLoop R (lookAfter b) b false S.nfa []) := by
  unfold walkStep
  simp only [resolved_lookFree H.lf, H.brk, Bool.and_false]

/-! ### the reference, in haystack coordinates -/

/-- `R` accepts `h[e-1], h[e-2], …, h[s]` (from its unanchored start state, which is what the reverse searches use) -/
def RAcc (R : NFA) (h : Bytes) (e s : Nat) : Prop := ReachesA R (revB h) R.startUnanchored (h.size - e) (h.size - s)

/-- some state of `R` is reachable after reading `h[e-1], …, h[p]` -/
def RAlive (R : NFA) (h : Bytes) (e p : Nat) : Prop := ∃ q, Reach R (revB h) R.startUnanchored (h.size - e) (h.size - p) q

/-- `r` is the least `s ∈ [lo, hi]` with `A s`; `none` iff there is none -/
def LeastIn (A : Nat → Prop) (lo hi : Nat) (r : Option Nat) : Prop :=
  match r with
  | some s => lo ≤ s ∧ s ≤ hi ∧ A s ∧ ∀ s', lo ≤ s' → s' < s → ¬ A s'
  | none => ∀ s', lo ≤ s' → s' ≤ hi → ¬ A s'

theorem LeastIn.unique {A : Nat → Prop} {lo hi : Nat} {r r' : Option Nat} (h1 : LeastIn A lo hi r) (h2 : LeastIn A lo hi r') :
    r = r' := by
  cases r with
  | none =>
    cases r' with
    | none => rfl
    | some s' => exact absurd h2.2.2.1 (h1 s' h2.1 h2.2.1)
  | some s =>
    cases r' with
    | none => exact absurd h1.2.2.1 (h2 s h1.1 h1.2.1)
    | some s' =>
      have a : ¬ s' < s := fun hlt => h1.2.2.2 s' h2.1 hlt h2.2.2.1
      have b : ¬ s < s' := fun hlt => h2.2.2.2 s h1.1 hlt h1.2.2.1
      congr 1
      omega

theorem ofLast_found {o : Option Nat} {s : Nat} (h : ofLast o = .found s) : o = some s := by
  cases o with
  | none => cases h
  | some x => simp only [ofLast, RevAnswer.found.injEq] at h; rw [h]

theorem ofLast_none {o : Option Nat} (h : ofLast o = .none) : o = none := by
  cases o with
  | none => rfl
  | some x => cases h

theorem ofLast_ne_cutOff (o : Option Nat) : ofLast o ≠ .cutOff := by
  cases o <;> simp [ofLast]

theorem LeastIn.congr {A B : Nat → Prop} {lo hi : Nat} {r : Option Nat} (hAB : ∀ s, lo ≤ s → s ≤ hi → (A s ↔ B s))
    (h : LeastIn A lo hi r) : LeastIn B lo hi r := by
  cases r with
  | none => intro s' h1 h2 hb; exact h s' h1 h2 ((hAB s' h1 h2).mpr hb)
  | some s =>
    obtain ⟨h1, h2, h3, h4⟩ := h
    exact ⟨h1, h2, (hAB s h1 h2).mp h3, fun s' g1 g2 hb => h4 s' g1 g2 ((hAB s' g1 (by omega)).mpr hb)⟩

theorem revB_at_rev (h : Bytes) {p : Nat} (h1 : 1 ≤ p) (h2 : p ≤ h.size) : (revB h).at (h.size - p) = h.at (p - 1) := by
  rw [Rev.at_reverse h (by omega)]
  congr 1
  omega

section
variable {R : NFA} {cfg : Config} (H : RevDfaHyp R cfg) (h : Bytes)
include H

/-- after a dead set at `p`, nothing is accepted at or below `p` -/
theorem dead_noAcc {e p : Nat} (hpe : p ≤ e) (hd : ¬ RAlive R h e p) : ∀ s, s ≤ p → ¬ RAcc R h e s := by
  intro s hs hacc
  obtain ⟨m, hp, _⟩ := hacc
  have hlf := lookFree_of_B H.lf
  have hnr := noRune_of_B H.nr
  have hd' : ∀ q, ¬ Reach R (revB h) R.startUnanchored (h.size - e) (h.size - p) q := fun q hq => hd ⟨q, hq⟩
  have := reach_dead hlf hnr (revB h) R.startUnanchored (h.size - e) (h.size - p) (by omega) hd'
    ((h.size - s) - (h.size - p)) m
  rw [show h.size - p + ((h.size - s) - (h.size - p)) = h.size - s by omega] at this
  exact this hp

/-- the loop of `reverseWalk` (leftmost-start mode) from `p`, where the thread set is the reachable set and `last` the
    least accepted start found so far -/
theorem wL_spec (start lb e : Nat) (hsl : start ≤ lb) (he : e ≤ h.size) :
    ∀ (n p : Nat) (S : DState) (last : Option Nat), p - lb = n → p ≤ e → (lb ≤ p ∨ start < lb) →
    SetAt R (revB h) R.startUnanchored (h.size - e) (h.size - p) S.nfa →
    LeastIn (RAcc R h e) (p + 1) e last →
    ((start < lb ∧ ∀ at_, lb ≤ at_ → at_ < p → RAlive R h e at_) →
        wL R cfg h start lb false p S last = .cutOff) ∧
    (¬ (start < lb ∧ ∀ at_, lb ≤ at_ → at_ < p → RAlive R h e at_) →
        ∃ o, wL R cfg h start lb false p S last = ofLast o ∧ LeastIn (RAcc R h e) start e o) := by
  have hlf := lookFree_of_B H.lf
  have hnr := noRune_of_B H.nr
  intro n
  induction n with
  | zero =>
    intro p S last hn hpe hlb hS hlast
    have hle : ¬ p > lb := by omega
    rw [wL_le hle]
    constructor
    · rintro ⟨h1, _⟩
      rw [if_pos h1]
    · intro hc
      have hnl : ¬ lb > start := by
        intro h1
        exact hc ⟨h1, fun at_ h2 h3 => by omega⟩
      rw [if_neg hnl]
      have hpl : p = lb ∧ lb = start := by omega
      obtain ⟨rfl, rfl⟩ := hpl
      refine ⟨_, rfl, ?_⟩
      have hcm := containsMatch_setAt hS
      by_cases hm : containsMatch R S.nfa = true
      · rw [if_pos hm]
        exact ⟨Nat.le_refl _, hpe, hcm.mp hm, fun s' h1 h2 => by omega⟩
      · rw [if_neg hm]
        have hnacc : ¬ RAcc R h e p := fun ha => hm (hcm.mpr ha)
        cases last with
        | none =>
          intro s' h1 h2
          by_cases hs : s' = p
          · rw [hs]; exact hnacc
          · exact hlast s' (by omega) h2
        | some s =>
          obtain ⟨l1, l2, l3, l4⟩ := hlast
          refine ⟨by omega, l2, l3, ?_⟩
          intro s' h1 h2
          by_cases hs : s' = p
          · rw [hs]; exact hnacc
          · exact l4 s' (by omega) h2
  | succ n ih =>
    intro p S last hn hpe hlb hS hlast
    have hgt : p > lb := by omega
    have hp1 : 1 ≤ p := by omega
    have hph : p ≤ h.size := by omega
    have hb : (revB h).at (h.size - p) = h.at (p - 1) := revB_at_rev h hp1 hph
    have hjlt : h.size - p < (revB h).size := by rw [Rev.size_revB]; omega
    have hnext := setAt_move hlf hnr (revB h) (lookAfter (h.at (p - 1))) R.startUnanchored (h.size - e) (h.size - p)
      (by omega) hjlt hS
    rw [hb, show h.size - p + 1 = h.size - (p - 1) by omega] at hnext
    have hcm := containsMatch_setAt hS
    rw [wL_gt hgt, walkStep_eq H]
    simp only [Bool.and_false, Bool.false_eq_true, ↓reduceIte]
    -- `last` after this round: the least accepted start in [p, e]
    have hlast' : LeastIn (RAcc R h e) (p - 1 + 1) e (if containsMatch R S.nfa = true then some p else last) := by
      rw [show p - 1 + 1 = p by omega]
      by_cases hm : containsMatch R S.nfa = true
      · rw [if_pos hm]
        exact ⟨Nat.le_refl _, hpe, hcm.mp hm, fun s' h1 h2 => by omega⟩
      · rw [if_neg hm]
        have hnacc : ¬ RAcc R h e p := fun ha => hm (hcm.mpr ha)
        cases last with
        | none =>
          intro s' h1 h2
          by_cases hs : s' = p
          · rw [hs]; exact hnacc
          · exact hlast s' (by omega) h2
        | some s =>
          obtain ⟨l1, l2, l3, l4⟩ := hlast
          refine ⟨by omega, l2, l3, ?_⟩
          intro s' h1 h2
          by_cases hs : s' = p
          · rw [hs]; exact hnacc
          · exact l4 s' (by omega) h2
    by_cases hemp : (moveLoop R (lookAfter (h.at (p - 1))) (h.at (p - 1)) false S.nfa []).isEmpty = true
    · -- the automaton dies on h[p-1]
      rw [if_pos hemp]
      have hnil : moveLoop R (lookAfter (h.at (p - 1))) (h.at (p - 1)) false S.nfa [] = [] := by simpa using hemp
      have hdead : ¬ RAlive R h e (p - 1) := by
        rintro ⟨q, hq⟩
        have := (hnext q).mpr hq
        rw [hnil] at this
        cases this
      constructor
      · rintro ⟨_, hall⟩
        exact absurd (hall (p - 1) (by omega) (by omega)) hdead
      · intro _
        refine ⟨_, rfl, ?_⟩
        have hno := dead_noAcc H h (e := e) (p := p - 1) (by omega) hdead
        rw [show p - 1 + 1 = p by omega] at hlast'
        generalize (if containsMatch R S.nfa = true then some p else last) = o at hlast'
        cases o with
        | none =>
          intro s' h1 h2
          by_cases hs : s' ≤ p - 1
          · exact hno s' hs
          · exact hlast' s' (by omega) h2
        | some s =>
          obtain ⟨l1, l2, l3, l4⟩ := hlast'
          refine ⟨by omega, l2, l3, ?_⟩
          intro s' h1 h2
          by_cases hs : s' ≤ p - 1
          · exact hno s' hs
          · exact l4 s' (by omega) h2
    · rw [if_neg hemp]
      have halive : RAlive R h e (p - 1) := by
        cases hml : moveLoop R (lookAfter (h.at (p - 1))) (h.at (p - 1)) false S.nfa [] with
        | nil => rw [hml] at hemp; exact absurd rfl hemp
        | cons q qs =>
          refine ⟨q, (hnext q).mp ?_⟩
          rw [hml]
          exact List.mem_cons_self
      obtain ⟨i1, i2⟩ := ih (p - 1) (walkState R (h.at (p - 1)) (containsMatch R S.nfa)
          (moveLoop R (lookAfter (h.at (p - 1))) (h.at (p - 1)) false S.nfa []))
        (if containsMatch R S.nfa = true then some p else last) (by omega) (by omega) (Or.inl (by omega)) hnext hlast'
      have hequiv : (start < lb ∧ ∀ at_, lb ≤ at_ → at_ < p → RAlive R h e at_) ↔
          (start < lb ∧ ∀ at_, lb ≤ at_ → at_ < p - 1 → RAlive R h e at_) := by
        constructor
        · rintro ⟨h1, h2⟩
          exact ⟨h1, fun at_ h3 h4 => h2 at_ h3 (by omega)⟩
        · rintro ⟨h1, h2⟩
          refine ⟨h1, fun at_ h3 h4 => ?_⟩
          by_cases ha : at_ = p - 1
          · rw [ha]; exact halive
          · exact h2 at_ h3 (by omega)
      constructor
      · intro hc
        exact i1 (hequiv.mp hc)
      · intro hc
        exact i2 (fun hc' => hc (hequiv.mpr hc'))

/-- **(b)** `reverseWalk` in leftmost-start mode: -2 exactly when the bound cuts the scan while the automaton is alive,
    otherwise the least start -/
theorem reverseWalk_spec {start e minStart : Nat} (hse : start < e) (he : e ≤ h.size) :
    ((start < minStart ∧ ∀ at_, minStart ≤ at_ → at_ < e → RAlive R h e at_) →
        reverseWalk R cfg h start e minStart false = .cutOff) ∧
    (¬ (start < minStart ∧ ∀ at_, minStart ≤ at_ → at_ < e → RAlive R h e at_) →
        ∃ o, reverseWalk R cfg h start e minStart false = ofLast o ∧ LeastIn (RAcc R h e) start e o) := by
  have hlf := lookFree_of_B H.lf
  have hnr := noRune_of_B H.nr
  have hns : ¬ (e ≤ start ∨ e > h.size) := by omega
  rw [reverseWalk_unfold hns]
  have hS : SetAt R (revB h) R.startUnanchored (h.size - e) (h.size - e) (startState R (kindRev h e) false).nfa := by
    have := setAt_start hlf hnr (revB h) (lookOfKind (kindRev h e)) R.startUnanchored (h.size - e)
    unfold startState
    simpa using this
  have hlast : LeastIn (RAcc R h e) (e + 1) e none := fun s' h1 h2 => by omega
  have hsl : start ≤ lowerBound start minStart := by unfold lowerBound; split <;> omega
  have hlb : lowerBound start minStart ≤ e ∨ start < lowerBound start minStart := by
    unfold lowerBound; split <;> omega
  obtain ⟨i1, i2⟩ := wL_spec H h start (lowerBound start minStart) e hsl he _ e _ none rfl (Nat.le_refl _) hlb hS hlast
  have hcond : (start < minStart ∧ ∀ at_, minStart ≤ at_ → at_ < e → RAlive R h e at_) ↔
      (start < lowerBound start minStart ∧ ∀ at_, lowerBound start minStart ≤ at_ → at_ < e → RAlive R h e at_) := by
    unfold lowerBound
    by_cases hms : minStart > start
    · rw [if_pos hms]
    · rw [if_neg hms]
      constructor
      · rintro ⟨h1, _⟩; omega
      · rintro ⟨h1, _⟩; omega
  exact ⟨fun hc => i1 (hcond.mp hc), fun hc => i2 (fun hc' => hc (hcond.mpr hc'))⟩

/-- **(b)** `SearchReverse` without a cache = the LEAST `s ∈ [start, end]` such that `R` accepts `h[end-1] … h[s]`
    (the longest reverse match), -1 iff there is none -/
theorem searchReverseU_spec {start e : Nat} (hse : start < e) (he : e ≤ h.size) :
    ∃ o, searchReverseU R cfg h start e = ofLast o ∧ LeastIn (RAcc R h e) start e o := by
  unfold searchReverseU
  exact (reverseWalk_spec H h hse he).2 (fun hc => by omega)

/-- **(b)** `SearchReverseLimited` without a cache: a start is the least one in `[start, end]` -/
theorem searchReverseLimitedU_found {start e minStart s : Nat} (hse : start < e) (he : e ≤ h.size)
    (hr : searchReverseLimitedU R cfg h start e minStart = .found s) : LeastIn (RAcc R h e) start e (some s) := by
  unfold searchReverseLimitedU at hr
  obtain ⟨i1, i2⟩ := reverseWalk_spec H h (minStart := minStart) hse he
  by_cases hc : start < minStart ∧ ∀ at_, minStart ≤ at_ → at_ < e → RAlive R h e at_
  · rw [i1 hc] at hr; cases hr
  · obtain ⟨o, ho, hl⟩ := i2 hc
    rw [ho] at hr
    rw [ofLast_found hr] at hl
    exact hl

/-- -1 means: no start in `[start, end]` -/
theorem searchReverseLimitedU_none {start e minStart : Nat} (hse : start < e) (he : e ≤ h.size)
    (hr : searchReverseLimitedU R cfg h start e minStart = .none) : LeastIn (RAcc R h e) start e none := by
  unfold searchReverseLimitedU at hr
  obtain ⟨i1, i2⟩ := reverseWalk_spec H h (minStart := minStart) hse he
  by_cases hc : start < minStart ∧ ∀ at_, minStart ≤ at_ → at_ < e → RAlive R h e at_
  · rw [i1 hc] at hr; cases hr
  · obtain ⟨o, ho, hl⟩ := i2 hc
    rw [ho] at hr
    rw [ofLast_none hr] at hl
    exact hl

/-- -2 exactly when the bound is above `start` and the automaton is alive after every byte the bounded scan may read -/
theorem searchReverseLimitedU_cutOff_iff {start e minStart : Nat} (hse : start < e) (he : e ≤ h.size) :
    searchReverseLimitedU R cfg h start e minStart = .cutOff ↔
      (start < minStart ∧ ∀ at_, minStart ≤ at_ → at_ < e → RAlive R h e at_) := by
  unfold searchReverseLimitedU
  obtain ⟨i1, i2⟩ := reverseWalk_spec H h (minStart := minStart) hse he
  constructor
  · intro hr
    apply Classical.byContradiction
    intro hc
    obtain ⟨o, ho, _⟩ := i2 hc
    rw [ho] at hr
    exact ofLast_ne_cutOff o hr
  · exact i1

/-- the loop of `reverseWalk` in earliest mode (`IsMatchReverse`), bound = `start` -/
theorem wL_earliest_spec (start e : Nat) (he : e ≤ h.size) :
    ∀ (n p : Nat) (S : DState), p - start = n → p ≤ e → start ≤ p →
    SetAt R (revB h) R.startUnanchored (h.size - e) (h.size - p) S.nfa →
    (∀ s', p < s' → s' ≤ e → ¬ RAcc R h e s') →
    ((wL R cfg h start start true p S none).isFound = true ↔ ∃ s, start ≤ s ∧ s ≤ e ∧ RAcc R h e s) := by
  have hlf := lookFree_of_B H.lf
  have hnr := noRune_of_B H.nr
  intro n
  induction n with
  | zero =>
    intro p S hn hpe hsp hS hlast
    have hle : ¬ p > start := by omega
    have hps : p = start := by omega
    subst hps
    rw [wL_le hle]
    simp only [Nat.lt_irrefl, ↓reduceIte]
    have hcm := containsMatch_setAt hS
    by_cases hm : containsMatch R S.nfa = true
    · rw [if_pos hm]
      simp only [ofLast, RevAnswer.isFound, true_iff]
      exact ⟨p, Nat.le_refl _, hpe, hcm.mp hm⟩
    · rw [if_neg hm]
      simp only [ofLast, RevAnswer.isFound, Bool.false_eq_true, false_iff]
      rintro ⟨s, h1, h2, h3⟩
      by_cases hs : s = p
      · rw [hs] at h3; exact hm (hcm.mpr h3)
      · exact hlast s (by omega) h2 h3
  | succ n ih =>
    intro p S hn hpe hsp hS hlast
    have hgt : p > start := by omega
    have hp1 : 1 ≤ p := by omega
    have hph : p ≤ h.size := by omega
    have hb : (revB h).at (h.size - p) = h.at (p - 1) := revB_at_rev h hp1 hph
    have hjlt : h.size - p < (revB h).size := by rw [Rev.size_revB]; omega
    have hnext := setAt_move hlf hnr (revB h) (lookAfter (h.at (p - 1))) R.startUnanchored (h.size - e) (h.size - p)
      (by omega) hjlt hS
    rw [hb, show h.size - p + 1 = h.size - (p - 1) by omega] at hnext
    have hcm := containsMatch_setAt hS
    rw [wL_gt hgt, walkStep_eq H]
    simp only [Bool.and_true]
    by_cases hm : containsMatch R S.nfa = true
    · rw [if_pos hm]
      simp only [hm, ↓reduceIte, ofLast, RevAnswer.isFound, true_iff]
      exact ⟨p, by omega, hpe, hcm.mp hm⟩
    · rw [if_neg hm]
      simp only [hm, Bool.false_eq_true, ↓reduceIte]
      have hnacc : ¬ RAcc R h e p := fun ha => hm (hcm.mpr ha)
      by_cases hemp : (moveLoop R (lookAfter (h.at (p - 1))) (h.at (p - 1)) false S.nfa []).isEmpty = true
      · rw [if_pos hemp]
        have hnil : moveLoop R (lookAfter (h.at (p - 1))) (h.at (p - 1)) false S.nfa [] = [] := by simpa using hemp
        have hdead : ¬ RAlive R h e (p - 1) := by
          rintro ⟨q, hq⟩
          have := (hnext q).mpr hq
          rw [hnil] at this
          cases this
        have hno := dead_noAcc H h (e := e) (p := p - 1) (by omega) hdead
        simp only [ofLast, RevAnswer.isFound, Bool.false_eq_true, false_iff]
        rintro ⟨s, h1, h2, h3⟩
        by_cases hs : s ≤ p - 1
        · exact hno s hs h3
        · by_cases hsp' : s = p
          · rw [hsp'] at h3; exact hnacc h3
          · exact hlast s (by omega) h2 h3
      · rw [if_neg hemp]
        apply ih (p - 1) _ (by omega) (by omega) (by omega) hnext
        intro s' h1 h2
        by_cases hsp' : s' = p
        · rw [hsp']; exact hnacc
        · exact hlast s' (by omega) h2

/-- **(b)** `IsMatchReverse` without a cache: true iff `R` accepts `h[end-1] … h[s]` for some `s ∈ [start, end]` -/
theorem isMatchReverseU_iff {start e : Nat} (hse : start < e) (he : e ≤ h.size) :
    isMatchReverseU R cfg h start e = true ↔ ∃ s, start ≤ s ∧ s ≤ e ∧ RAcc R h e s := by
  have hlf := lookFree_of_B H.lf
  have hnr := noRune_of_B H.nr
  have hns : ¬ (e ≤ start ∨ e > h.size) := by omega
  unfold isMatchReverseU
  rw [reverseWalk_unfold hns, lowerBound_self]
  have hS : SetAt R (revB h) R.startUnanchored (h.size - e) (h.size - e) (startState R (kindRev h e) false).nfa := by
    have := setAt_start hlf hnr (revB h) (lookOfKind (kindRev h e)) R.startUnanchored (h.size - e)
    unfold startState
    simpa using this
  exact wL_earliest_spec H h start e he _ e _ rfl (Nat.le_refl _) (by omega) hS (fun s' h1 h2 => by omega)

end

/-! ### the cached searches against the reference: (a) + (b) -/

section
variable {R : NFA} {cfg : Config} (H : RevDfaHyp R cfg) (hC : ClassSound R cfg) {h : Bytes} (hb : BytesOK h) {c : Cache}
  (hI : Inv R cfg c)
include H hC hb hI

theorem searchReverseC_spec {start e : Nat} (hse : start < e) (he : e ≤ h.size) :
    Inv R cfg (searchReverseC R cfg c h start e).2 ∧
    ∃ o, (searchReverseC R cfg c h start e).1 = ofLast o ∧ LeastIn (RAcc R h e) start e o := by
  obtain ⟨i1, i2⟩ := searchReverseC_eq hC hb hI start e
  refine ⟨i1, ?_⟩
  rw [i2]
  exact searchReverseU_spec H h hse he

theorem isMatchReverseC_iff {start e : Nat} (hse : start < e) (he : e ≤ h.size) :
    (isMatchReverseC R cfg c h start e).1 = true ↔ ∃ s, start ≤ s ∧ s ≤ e ∧ RAcc R h e s := by
  rw [(isMatchReverseC_eq hC hb hI start e).2]
  exact isMatchReverseU_iff H h hse he

theorem searchReverseLimitedC_found {start e minStart s : Nat} (hse : start < e) (he : e ≤ h.size)
    (hr : (searchReverseLimitedC R cfg c h start e minStart).1 = .found s) : LeastIn (RAcc R h e) start e (some s) := by
  rcases (searchReverseLimitedC_eq hC hb hI start e minStart).2 with h1 | ⟨h1, _, _⟩
  · rw [h1] at hr
    exact searchReverseLimitedU_found H h hse he hr
  · rw [h1] at hr; cases hr

theorem searchReverseLimitedC_none {start e minStart : Nat} (hse : start < e) (he : e ≤ h.size)
    (hr : (searchReverseLimitedC R cfg c h start e minStart).1 = .none) : LeastIn (RAcc R h e) start e none := by
  rcases (searchReverseLimitedC_eq hC hb hI start e minStart).2 with h1 | ⟨h1, _, _⟩
  · rw [h1] at hr
    exact searchReverseLimitedU_none H h hse he hr
  · rw [h1] at hr; cases hr

/-- -2 is only answered when `minStart > start` -/
theorem searchReverseLimitedC_cutOff {start e minStart : Nat} (hse : start < e) (he : e ≤ h.size)
    (hr : (searchReverseLimitedC R cfg c h start e minStart).1 = .cutOff) : start < minStart := by
  rcases (searchReverseLimitedC_eq hC hb hI start e minStart).2 with h1 | ⟨_, h2, _⟩
  · rw [h1] at hr
    exact ((searchReverseLimitedU_cutOff_iff H h hse he).mp hr).1
  · exact h2

end

end Cx.Dfa
