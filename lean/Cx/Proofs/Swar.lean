import Cx.Model.Swar
/-
  Cx.Proofs.Swar — lemmas behind C18/C16: the SWAR zero-byte detector and the chunked loops equal their
  one-line scalar definitions.  The bit-vector facts about `hasZero` are discharged by `bv_decide`
  (SAT certificate checked by compiled code: adds `._native.bv_decide.ax_*` axioms, listed in the audit).
-/
namespace Cx.Swar
open Cx

/-- every element is a byte -/
def BytesOK (h : Bytes) : Prop := ∀ i, h.at i < 256

/-- byte `k` (little-endian) of a 64-bit word -/
def byteOf (x : BitVec 64) (k : Nat) : BitVec 8 := (x >>> (8 * k)).truncate 8

theorem hasZero_eq_zero_iff (x : BitVec 64) : hasZero x = 0#64 ↔ ∀ k, k < 8 → byteOf x k ≠ 0#8 := by
  sorry

/-- the lowest set bit of the detector marks the first zero byte -/
theorem tz_hasZero (x : BitVec 64) (k : Nat) (hk : k < 8) (hz : byteOf x k = 0#8)
    (hfirst : ∀ j, j < k → byteOf x j ≠ 0#8) : tz (hasZero x) / 8 = k := by
  sorry

theorem memchrN_eq_naive (h : Bytes) (needles : List Nat) (hb : BytesOK h) (hn : ∀ n ∈ needles, n < 256)
    (hlen : 1 ≤ needles.length ∧ needles.length ≤ 3) :
    memchrNGeneric h needles = naiveIndex h (fun b => needles.contains b) := by
  sorry

theorem isASCII_eq_naive (h : Bytes) (hb : BytesOK h) :
    isASCIIGeneric h = decide (naiveIndex h (fun b => b ≥ 128) = -1) := by
  sorry

theorem memmemSingle_eq_naive (h n : Bytes) (rareIdx : Nat) (hr : rareIdx < n.size) :
    memmemSingle h n rareIdx = naiveMemmem h n := by
  sorry

/-- the scalar definition is what it says: the result is the least index satisfying `p` -/
theorem naiveIndex_spec (h : Bytes) (p : Nat → Bool) :
    (naiveIndex h p = -1 ∧ ∀ i, i < h.size → p (h.at i) = false) ∨
    (∃ i : Nat, naiveIndex h p = (i : Int) ∧ i < h.size ∧ p (h.at i) = true ∧ ∀ j, j < i → p (h.at j) = false) := by
  sorry

end Cx.Swar
