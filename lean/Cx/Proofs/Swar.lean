import Cx.Model.Swar
import Std.Tactic.BVDecide
/-
  Cx.Proofs.Swar — lemmas behind C18/C16: the SWAR zero-byte detector and the chunked loops equal their
  one-line scalar definitions.  The bit-vector facts about `hasZero` are discharged by `bv_decide`
  (SAT certificate checked by compiled code: adds `._native.bv_decide.ax_*` axioms, listed in the audit).
-/
namespace Cx.Swar
open Cx

/-- every element is a byte -/
def BytesOK (h : Bytes) : Prop := ∀ i, h.at i < 256

/-- byte `k` (little-endian) of a 64-bit word -/
def byteOf (x : BitVec 64) (k : Nat) : BitVec 8 := (x >>> (8 * k)).truncate 8

/-! ### the scalar scan `naiveFrom` -/

theorem naiveFrom_spec (h : Bytes) (p : Nat → Bool) : ∀ fuel i, h.size < fuel + i →
    (naiveFrom h p fuel i = -1 ∧ ∀ j, i ≤ j → j < h.size → p (h.at j) = false) ∨
    (∃ k : Nat, naiveFrom h p fuel i = (k : Int) ∧ i ≤ k ∧ k < h.size ∧ p (h.at k) = true ∧
      ∀ j, i ≤ j → j < k → p (h.at j) = false) := by
  intro fuel
  induction fuel with
  | zero => intro i hf; left; exact ⟨rfl, fun j h1 h2 => by omega⟩
  | succ fuel ih =>
    intro i hf
    unfold naiveFrom
    by_cases hi : i ≥ h.size
    · left; rw [if_pos hi]; exact ⟨rfl, fun j h1 h2 => by omega⟩
    · rw [if_neg hi]
      cases hp : p (h.at i) with
      | true =>
        right
        exact ⟨i, by simp, Nat.le_refl _, by omega, hp, fun j h1 h2 => by omega⟩
      | false =>
        have hstep : (if false = true then (i : Int) else naiveFrom h p fuel (i+1)) = naiveFrom h p fuel (i+1) := by simp
        rw [hstep]
        rcases ih (i+1) (by omega) with ⟨h1, h2⟩ | ⟨k, h1, h2, h3, h4, h5⟩
        · left
          refine ⟨h1, fun j hj1 hj2 => ?_⟩
          by_cases hji : j = i
          · subst hji; exact hp
          · exact h2 j (by omega) hj2
        · right
          refine ⟨k, h1, by omega, h3, h4, fun j hj1 hj2 => ?_⟩
          by_cases hji : j = i
          · subst hji; exact hp
          · exact h5 j (by omega) hj2

theorem naiveFrom_eq_of_first (h : Bytes) (p : Nat → Bool) (fuel i k : Nat) (hf : h.size < fuel + i)
    (hik : i ≤ k) (hk : k < h.size) (hpk : p (h.at k) = true)
    (hlt : ∀ j, i ≤ j → j < k → p (h.at j) = false) : naiveFrom h p fuel i = (k : Int) := by
  rcases naiveFrom_spec h p fuel i hf with ⟨_, h2⟩ | ⟨k', h1, h2, h3, h4, h5⟩
  · have := h2 k hik hk; rw [hpk] at this; cases this
  · by_cases hkk : k' = k
    · subst hkk; exact h1
    · by_cases hlt' : k' < k
      · have := hlt k' h2 hlt'; rw [h4] at this; cases this
      · have := h5 k hik (by omega); rw [hpk] at this; cases this

theorem naiveFrom_eq_neg_one (h : Bytes) (p : Nat → Bool) (fuel i : Nat) (hf : h.size < fuel + i)
    (hall : ∀ j, i ≤ j → j < h.size → p (h.at j) = false) : naiveFrom h p fuel i = -1 := by
  rcases naiveFrom_spec h p fuel i hf with ⟨h1, _⟩ | ⟨k', _, h2, h3, h4, _⟩
  · exact h1
  · have := hall k' h2 h3; rw [h4] at this; cases this

/-- skipping `m` positions none of which satisfies `p` -/
theorem naiveFrom_skip (h : Bytes) (p : Nat → Bool) (i m : Nat)
    (hlt : ∀ j, i ≤ j → j < i + m → p (h.at j) = false) :
    naiveFrom h p (h.size + 1) i = naiveFrom h p (h.size + 1) (i + m) := by
  rcases naiveFrom_spec h p (h.size + 1) (i + m) (by omega) with ⟨h1, h2⟩ | ⟨k, h1, h2, h3, h4, h5⟩
  · rw [h1]
    apply naiveFrom_eq_neg_one _ _ _ _ (by omega)
    intro j hj1 hj2
    by_cases hjm : j < i + m
    · exact hlt j hj1 hjm
    · exact h2 j (by omega) hj2
  · rw [h1]
    apply naiveFrom_eq_of_first _ _ _ _ _ (by omega) (by omega) h3 h4
    intro j hj1 hj2
    by_cases hjm : j < i + m
    · exact hlt j hj1 hjm
    · exact h5 j (by omega) hj2

/-- the scalar definition is what it says: the result is the least index satisfying `p` -/
theorem naiveIndex_spec (h : Bytes) (p : Nat → Bool) :
    (naiveIndex h p = -1 ∧ ∀ i, i < h.size → p (h.at i) = false) ∨
    (∃ i : Nat, naiveIndex h p = (i : Int) ∧ i < h.size ∧ p (h.at i) = true ∧ ∀ j, j < i → p (h.at j) = false) := by
  unfold naiveIndex
  rcases naiveFrom_spec h p (h.size + 1) 0 (by omega) with ⟨h1, h2⟩ | ⟨k, h1, _, h3, h4, h5⟩
  · left; exact ⟨h1, fun i hi => h2 i (Nat.zero_le _) hi⟩
  · right; exact ⟨k, h1, h3, h4, fun j hj => h5 j (Nat.zero_le _) hj⟩

/-! ### memmemSingle -/

theorem matchesAt_false_of_gt (h n : Bytes) (j : Nat) (hj : j + n.size > h.size) : matchesAt h n j = false := by
  unfold matchesAt
  have : decide (j + n.size ≤ h.size) = false := by simp; omega
  rw [this]; rfl

theorem matchesAt_rare (h n : Bytes) (i r : Nat) (hr : r < n.size) (hm : matchesAt h n i = true) :
    h.at (i + r) = n.at r ∧ i + n.size ≤ h.size := by
  unfold matchesAt at hm
  simp only [Bool.and_eq_true, decide_eq_true_eq, List.all_eq_true, List.mem_range] at hm
  exact ⟨hm.2 r hr, hm.1⟩

theorem naiveMemmemFrom_spec (h n : Bytes) : ∀ fuel i, h.size < fuel + i →
    (naiveMemmemFrom h n fuel i = -1 ∧ ∀ j, i ≤ j → matchesAt h n j = false) ∨
    (∃ k : Nat, naiveMemmemFrom h n fuel i = (k : Int) ∧ i ≤ k ∧ matchesAt h n k = true ∧
      ∀ j, i ≤ j → j < k → matchesAt h n j = false) := by
  intro fuel
  induction fuel with
  | zero =>
    intro i hf; left
    exact ⟨rfl, fun j h1 => matchesAt_false_of_gt h n j (by omega)⟩
  | succ fuel ih =>
    intro i hf
    unfold naiveMemmemFrom
    by_cases hi : i + n.size > h.size
    · left; rw [if_pos hi]; exact ⟨rfl, fun j h1 => matchesAt_false_of_gt h n j (by omega)⟩
    · rw [if_neg hi]
      cases hp : matchesAt h n i with
      | true =>
        right
        exact ⟨i, by simp, Nat.le_refl _, hp, fun j h1 h2 => by omega⟩
      | false =>
        have hstep : (if false = true then (i : Int) else naiveMemmemFrom h n fuel (i+1))
            = naiveMemmemFrom h n fuel (i+1) := by simp
        rw [hstep]
        rcases ih (i+1) (by omega) with ⟨h1, h2⟩ | ⟨k, h1, h2, h4, h5⟩
        · left
          refine ⟨h1, fun j hj1 => ?_⟩
          by_cases hji : j = i
          · subst hji; exact hp
          · exact h2 j (by omega)
        · right
          refine ⟨k, h1, by omega, h4, fun j hj1 hj2 => ?_⟩
          by_cases hji : j = i
          · subst hji; exact hp
          · exact h5 j (by omega) hj2

theorem naiveMemmem_eq_of_first (h n : Bytes) (k : Nat) (hk : matchesAt h n k = true)
    (hlt : ∀ j, j < k → matchesAt h n j = false) : naiveMemmem h n = (k : Int) := by
  unfold naiveMemmem
  rcases naiveMemmemFrom_spec h n (h.size + 1) 0 (by omega) with ⟨_, h2⟩ | ⟨k', h1, _, h4, h5⟩
  · have := h2 k (Nat.zero_le _); rw [hk] at this; cases this
  · by_cases hkk : k' = k
    · subst hkk; exact h1
    · by_cases hlt' : k' < k
      · have := hlt k' hlt'; rw [h4] at this; cases this
      · have := h5 k (Nat.zero_le _) (by omega); rw [hk] at this; cases this

theorem naiveMemmem_eq_neg_one (h n : Bytes) (hall : ∀ j, matchesAt h n j = false) : naiveMemmem h n = -1 := by
  unfold naiveMemmem
  rcases naiveMemmemFrom_spec h n (h.size + 1) 0 (by omega) with ⟨h1, _⟩ | ⟨k', _, _, h4, _⟩
  · exact h1
  · have := hall k'; rw [h4] at this; cases this

theorem memmemSingleLoop_eq (h n : Bytes) (r : Nat) (hr : r < n.size) : ∀ fuel s, h.size < fuel + s →
    (∀ j, j + r < s → matchesAt h n j = false) →
    memmemSingleLoop h n r fuel s = naiveMemmem h n := by
  intro fuel
  induction fuel with
  | zero =>
    intro s hf hinv
    rw [naiveMemmem_eq_neg_one]; rfl
    intro j
    cases hm : matchesAt h n j with
    | false => rfl
    | true =>
      have := matchesAt_rare h n j r hr hm
      rw [hinv j (by omega)] at hm; cases hm
  | succ fuel ih =>
    intro s hf hinv
    unfold memmemSingleLoop
    rcases naiveFrom_spec h (fun b => b = n.at r) (h.size + 1) s (by omega) with
      ⟨h1, h2⟩ | ⟨cand, h1, h2, h3, h4, h5⟩
    · rw [h1]
      show (-1 : Int) = _
      rw [naiveMemmem_eq_neg_one]
      intro j
      cases hm : matchesAt h n j with
      | false => rfl
      | true =>
        have hb := matchesAt_rare h n j r hr hm
        by_cases hjs : j + r < s
        · rw [hinv j hjs] at hm; cases hm
        · have := h2 (j + r) (by omega) (by omega)
          simp [hb.1] at this
    · rw [h1]
      show (if cand < r ∨ cand - r + n.size > h.size then
              if cand + 1 ≥ h.size then -1 else memmemSingleLoop h n r fuel (cand + 1)
            else if matchesAt h n (cand - r) then ((cand - r : Nat) : Int)
            else if cand + 1 ≥ h.size then -1 else memmemSingleLoop h n r fuel (cand + 1)) = _
      -- no occurrence whose rare byte lies before the candidate
      have hbefore : ∀ j, j + r < cand → matchesAt h n j = false := by
        intro j hj
        by_cases hjs : j + r < s
        · exact hinv j hjs
        · cases hm : matchesAt h n j with
          | false => rfl
          | true =>
            have hb := matchesAt_rare h n j r hr hm
            have := h5 (j + r) (by omega) hj
            simp [hb.1] at this
      -- if the occurrence aligned with the candidate is excluded, the invariant extends past the candidate
      have hnext : matchesAt h n (cand - r) = false ∨ cand < r ∨ cand - r + n.size > h.size →
          ∀ j, j + r < cand + 1 → matchesAt h n j = false := by
        intro hex j hj
        by_cases hjc : j + r < cand
        · exact hbefore j hjc
        · have hje : j = cand - r := by omega
          rcases hex with hex | hex
          · rw [hje]; exact hex
          · exact matchesAt_false_of_gt h n j (by omega)
      have hlast : (matchesAt h n (cand - r) = false ∨ cand < r ∨ cand - r + n.size > h.size) →
          cand + 1 ≥ h.size → ∀ j, matchesAt h n j = false := by
        intro hex hc j
        by_cases hjc : j + r < cand + 1
        · exact hnext hex j hjc
        · exact matchesAt_false_of_gt h n j (by omega)
      by_cases hc1 : cand < r ∨ cand - r + n.size > h.size
      · rw [if_pos hc1]
        by_cases hc2 : cand + 1 ≥ h.size
        · rw [if_pos hc2, naiveMemmem_eq_neg_one h n (hlast (Or.inr hc1) hc2)]
        · rw [if_neg hc2]
          exact ih (cand + 1) (by omega) (hnext (Or.inr hc1))
      · rw [if_neg hc1]
        cases hm : matchesAt h n (cand - r) with
        | true =>
          simp only [if_true]
          rw [naiveMemmem_eq_of_first h n (cand - r) hm]
          intro j hj
          exact hbefore j (by omega)
        | false =>
          have hstep : ∀ (a b : Int), (if false = true then a else b) = b := by intros; simp
          rw [hstep]
          by_cases hc2 : cand + 1 ≥ h.size
          · rw [if_pos hc2, naiveMemmem_eq_neg_one h n (hlast (Or.inl hm) hc2)]
          · rw [if_neg hc2]
            exact ih (cand + 1) (by omega) (hnext (Or.inl hm))

theorem memmemSingle_eq_naive (h n : Bytes) (rareIdx : Nat) (hr : rareIdx < n.size) :
    memmemSingle h n rareIdx = naiveMemmem h n := by
  unfold memmemSingle
  exact memmemSingleLoop_eq h n rareIdx hr (h.size + 1) 0 (by omega) (fun j hj => by omega)

/-! ### bit-vector facts (bv_decide) -/

theorem hi8_bit : ∀ i, i < 64 → hi8.getLsbD i = decide (i % 8 = 7) := by decide

theorem lt8_cases {k : Nat} (hk : k < 8) : k = 0 ∨ k = 1 ∨ k = 2 ∨ k = 3 ∨ k = 4 ∨ k = 5 ∨ k = 6 ∨ k = 7 := by
  omega

theorem hasZero_zero_iff8 (x : BitVec 64) : hasZero x = 0#64 ↔
    (byteOf x 0 ≠ 0#8 ∧ byteOf x 1 ≠ 0#8 ∧ byteOf x 2 ≠ 0#8 ∧ byteOf x 3 ≠ 0#8 ∧
     byteOf x 4 ≠ 0#8 ∧ byteOf x 5 ≠ 0#8 ∧ byteOf x 6 ≠ 0#8 ∧ byteOf x 7 ≠ 0#8) := by
  unfold hasZero byteOf lo8 hi8
  bv_decide

theorem hasZero_eq_zero_iff (x : BitVec 64) : hasZero x = 0#64 ↔ ∀ k, k < 8 → byteOf x k ≠ 0#8 := by
  rw [hasZero_zero_iff8]
  constructor
  · intro ⟨h0, h1, h2, h3, h4, h5, h6, h7⟩ k hk
    rcases lt8_cases hk with rfl | rfl | rfl | rfl | rfl | rfl | rfl | rfl <;> assumption
  · intro hall
    exact ⟨hall 0 (by omega), hall 1 (by omega), hall 2 (by omega), hall 3 (by omega),
      hall 4 (by omega), hall 5 (by omega), hall 6 (by omega), hall 7 (by omega)⟩

theorem hz_bit0 (x : BitVec 64) : (hasZero x).getLsbD (8*0+7) = (byteOf x 0 == 0#8) := by
  unfold hasZero byteOf lo8 hi8 at *
  bv_decide

theorem hz_bit1 (x : BitVec 64) (h0 : byteOf x 0 ≠ 0#8) :
    (hasZero x).getLsbD (8*1+7) = (byteOf x 1 == 0#8) := by
  unfold hasZero byteOf lo8 hi8 at *
  bv_decide

theorem hz_bit2 (x : BitVec 64) (h0 : byteOf x 0 ≠ 0#8) (h1 : byteOf x 1 ≠ 0#8) :
    (hasZero x).getLsbD (8*2+7) = (byteOf x 2 == 0#8) := by
  unfold hasZero byteOf lo8 hi8 at *
  bv_decide

theorem hz_bit3 (x : BitVec 64) (h0 : byteOf x 0 ≠ 0#8) (h1 : byteOf x 1 ≠ 0#8) (h2 : byteOf x 2 ≠ 0#8) :
    (hasZero x).getLsbD (8*3+7) = (byteOf x 3 == 0#8) := by
  unfold hasZero byteOf lo8 hi8 at *
  bv_decide

theorem hz_bit4 (x : BitVec 64) (h0 : byteOf x 0 ≠ 0#8) (h1 : byteOf x 1 ≠ 0#8) (h2 : byteOf x 2 ≠ 0#8)
    (h3 : byteOf x 3 ≠ 0#8) : (hasZero x).getLsbD (8*4+7) = (byteOf x 4 == 0#8) := by
  unfold hasZero byteOf lo8 hi8 at *
  bv_decide

theorem hz_bit5 (x : BitVec 64) (h0 : byteOf x 0 ≠ 0#8) (h1 : byteOf x 1 ≠ 0#8) (h2 : byteOf x 2 ≠ 0#8)
    (h3 : byteOf x 3 ≠ 0#8) (h4 : byteOf x 4 ≠ 0#8) : (hasZero x).getLsbD (8*5+7) = (byteOf x 5 == 0#8) := by
  unfold hasZero byteOf lo8 hi8 at *
  bv_decide

theorem hz_bit6 (x : BitVec 64) (h0 : byteOf x 0 ≠ 0#8) (h1 : byteOf x 1 ≠ 0#8) (h2 : byteOf x 2 ≠ 0#8)
    (h3 : byteOf x 3 ≠ 0#8) (h4 : byteOf x 4 ≠ 0#8) (h5 : byteOf x 5 ≠ 0#8) :
    (hasZero x).getLsbD (8*6+7) = (byteOf x 6 == 0#8) := by
  unfold hasZero byteOf lo8 hi8 at *
  bv_decide

theorem hz_bit7 (x : BitVec 64) (h0 : byteOf x 0 ≠ 0#8) (h1 : byteOf x 1 ≠ 0#8) (h2 : byteOf x 2 ≠ 0#8)
    (h3 : byteOf x 3 ≠ 0#8) (h4 : byteOf x 4 ≠ 0#8) (h5 : byteOf x 5 ≠ 0#8) (h6 : byteOf x 6 ≠ 0#8) :
    (hasZero x).getLsbD (8*7+7) = (byteOf x 7 == 0#8) := by
  unfold hasZero byteOf lo8 hi8 at *
  bv_decide

/-- if bytes `0..k-1` are non-zero, bit `8k+7` of the detector says exactly whether byte `k` is zero -/
theorem hz_bit (x : BitVec 64) (k : Nat) (hk : k < 8) (hfirst : ∀ j, j < k → byteOf x j ≠ 0#8) :
    (hasZero x).getLsbD (8*k+7) = (byteOf x k == 0#8) := by
  rcases lt8_cases hk with rfl | rfl | rfl | rfl | rfl | rfl | rfl | rfl
  · exact hz_bit0 x
  · exact hz_bit1 x (hfirst 0 (by omega))
  · exact hz_bit2 x (hfirst 0 (by omega)) (hfirst 1 (by omega))
  · exact hz_bit3 x (hfirst 0 (by omega)) (hfirst 1 (by omega)) (hfirst 2 (by omega))
  · exact hz_bit4 x (hfirst 0 (by omega)) (hfirst 1 (by omega)) (hfirst 2 (by omega)) (hfirst 3 (by omega))
  · exact hz_bit5 x (hfirst 0 (by omega)) (hfirst 1 (by omega)) (hfirst 2 (by omega)) (hfirst 3 (by omega))
      (hfirst 4 (by omega))
  · exact hz_bit6 x (hfirst 0 (by omega)) (hfirst 1 (by omega)) (hfirst 2 (by omega)) (hfirst 3 (by omega))
      (hfirst 4 (by omega)) (hfirst 5 (by omega))
  · exact hz_bit7 x (hfirst 0 (by omega)) (hfirst 1 (by omega)) (hfirst 2 (by omega)) (hfirst 3 (by omega))
      (hfirst 4 (by omega)) (hfirst 5 (by omega)) (hfirst 6 (by omega))

/-- the detector only ever sets the top bit of a byte -/
theorem hasZero_bit_pos (x : BitVec 64) (i : Nat) (hi : (hasZero x).getLsbD i = true) : i < 64 ∧ i % 8 = 7 := by
  have h64 : i < 64 := BitVec.lt_of_getLsbD hi
  unfold hasZero at hi
  rw [BitVec.getLsbD_and, hi8_bit i h64] at hi
  simp only [Bool.and_eq_true, decide_eq_true_eq] at hi
  exact ⟨h64, hi.2⟩

/-- no detector bit below the top bit of the first zero byte -/
theorem hasZero_below (x : BitVec 64) (k : Nat) (hk : k < 8) (hfirst : ∀ j, j < k → byteOf x j ≠ 0#8) :
    ∀ i, i < 8*k+7 → (hasZero x).getLsbD i = false := by
  intro i hi
  have _ := hk
  cases hbit : (hasZero x).getLsbD i with
  | false => rfl
  | true =>
    have ⟨_, h7⟩ := hasZero_bit_pos x i hbit
    have hj : i / 8 < k := by omega
    have hi' : i = 8 * (i / 8) + 7 := by omega
    have hb := hz_bit x (i / 8) (by omega) (fun j hj' => hfirst j (by omega))
    rw [← hi', hbit] at hb
    have hne := hfirst (i / 8) hj
    simp only [Bool.true_eq, beq_iff_eq] at hb
    exact absurd hb hne

/-! ### trailing zeros -/

theorem tzFrom_eq (x : BitVec 64) (p : Nat) (hp : x.getLsbD p = true) : ∀ fuel i, i ≤ p → p < i + fuel →
    (∀ j, i ≤ j → j < p → x.getLsbD j = false) → tzFrom x fuel i = p := by
  intro fuel
  induction fuel with
  | zero => intro i h1 h2; omega
  | succ fuel ih =>
    intro i h1 h2 hlow
    unfold tzFrom
    by_cases hip : i = p
    · subst hip; rw [if_pos hp]
    · have hf := hlow i (Nat.le_refl _) (by omega)
      rw [hf]
      have hstep : ∀ (a b : Nat), (if false = true then a else b) = b := by intros; simp
      rw [hstep]
      exact ih (i+1) (by omega) (by omega) (fun j hj1 hj2 => hlow j (by omega) hj2)

theorem tz_eq (x : BitVec 64) (p : Nat) (hp64 : p < 64) (hp : x.getLsbD p = true)
    (hlow : ∀ j, j < p → x.getLsbD j = false) : tz x = p := by
  unfold tz
  exact tzFrom_eq x p hp 64 0 (Nat.zero_le _) (by omega) (fun j _ hj => hlow j hj)

theorem tz_hasZero_eq (x : BitVec 64) (k : Nat) (hk : k < 8) (hz : byteOf x k = 0#8)
    (hfirst : ∀ j, j < k → byteOf x j ≠ 0#8) : tz (hasZero x) = 8*k+7 := by
  apply tz_eq _ _ (by omega)
  · rw [hz_bit x k hk hfirst, hz]; rfl
  · exact hasZero_below x k hk hfirst

/-- the lowest set bit of the detector marks the first zero byte -/
theorem tz_hasZero (x : BitVec 64) (k : Nat) (hk : k < 8) (hz : byteOf x k = 0#8)
    (hfirst : ∀ j, j < k → byteOf x j ≠ 0#8) : tz (hasZero x) / 8 = k := by
  rw [tz_hasZero_eq x k hk hz hfirst]; omega

/-! ### bytes of a loaded chunk -/

theorem byteOf_load64 (h : Bytes) (idx k : Nat) (hb : BytesOK h) (hk : k < 8) :
    byteOf (load64 h idx) k = BitVec.ofNat 8 (h.at (idx + k)) := by
  have b0 := hb idx
  have b1 := hb (idx+1)
  have b2 := hb (idx+2)
  have b3 := hb (idx+3)
  have b4 := hb (idx+4)
  have b5 := hb (idx+5)
  have b6 := hb (idx+6)
  have b7 := hb (idx+7)
  apply BitVec.eq_of_toNat_eq
  unfold byteOf load64
  simp only [BitVec.truncate_eq_setWidth, BitVec.toNat_setWidth, BitVec.toNat_ushiftRight, BitVec.toNat_ofNat,
    Nat.shiftRight_eq_div_pow]
  rcases lt8_cases hk with rfl | rfl | rfl | rfl | rfl | rfl | rfl | rfl <;>
    (try simp only [Nat.add_zero, Nat.reduceMul, Nat.reducePow, Nat.mul_zero, Nat.pow_zero, Nat.div_one]) <;> omega

theorem byteOf_xor_bc (c : BitVec 64) (b : BitVec 8) (k : Nat) (hk : k < 8) :
    byteOf (c ^^^ (b.zeroExtend 64 * lo8)) k = byteOf c k ^^^ b := by
  rcases lt8_cases hk with rfl | rfl | rfl | rfl | rfl | rfl | rfl | rfl <;>
    (unfold byteOf lo8; bv_decide)

theorem byteOf_xor_broadcast (c : BitVec 64) (n k : Nat) (hn : n < 256) (hk : k < 8) :
    byteOf (c ^^^ broadcast n) k = byteOf c k ^^^ BitVec.ofNat 8 n := by
  have hw : BitVec.ofNat 64 n = (BitVec.ofNat 8 n).zeroExtend 64 := by
    apply BitVec.eq_of_toNat_eq
    simp only [BitVec.truncate_eq_setWidth, BitVec.toNat_setWidth, BitVec.toNat_ofNat]
    omega
  unfold broadcast
  rw [hw]
  exact byteOf_xor_bc c _ k hk

theorem ofNat8_xor_eq_zero (a n : Nat) (ha : a < 256) (hn : n < 256) :
    BitVec.ofNat 8 a ^^^ BitVec.ofNat 8 n = 0#8 ↔ a = n := by
  rw [BitVec.xor_eq_zero_iff]
  constructor
  · intro he
    have := congrArg BitVec.toNat he
    simp only [BitVec.toNat_ofNat] at this
    omega
  · intro he; rw [he]

theorem chunk_byte_zero (h : Bytes) (idx n k : Nat) (hb : BytesOK h) (hn : n < 256) (hk : k < 8) :
    byteOf (load64 h idx ^^^ broadcast n) k = 0#8 ↔ h.at (idx + k) = n := by
  rw [byteOf_xor_broadcast _ _ _ hn hk, byteOf_load64 h idx k hb hk]
  exact ofNat8_xor_eq_zero _ _ (hb _) hn

/-! ### the combined detector -/

theorem foldl_or_bit (f : Nat → BitVec 64) (l : List Nat) (acc : BitVec 64) (i : Nat) :
    (l.foldl (fun a n => a ||| f n) acc).getLsbD i = (acc.getLsbD i || l.any (fun n => (f n).getLsbD i)) := by
  induction l generalizing acc with
  | nil => simp
  | cons a l ih => simp [List.foldl, ih, BitVec.getLsbD_or, Bool.or_assoc]

theorem detect_bit (needles : List Nat) (c : BitVec 64) (i : Nat) :
    (detect needles c).getLsbD i = needles.any (fun n => (hasZero (c ^^^ broadcast n)).getLsbD i) := by
  unfold detect
  rw [foldl_or_bit (fun n => hasZero (c ^^^ broadcast n))]
  simp

theorem exists_first (m : Nat → Bool) : ∀ n, (∃ k, k < n ∧ m k = true) →
    ∃ k, k < n ∧ m k = true ∧ ∀ j, j < k → m j = false := by
  intro n
  induction n with
  | zero => intro ⟨k, hk, _⟩; omega
  | succ n ih =>
    intro ⟨k, hk, hmk⟩
    by_cases hex : ∃ k, k < n ∧ m k = true
    · obtain ⟨k', h1, h2, h3⟩ := ih hex
      exact ⟨k', by omega, h2, h3⟩
    · have hkn : k = n := by
        by_cases hlt : k < n
        · exact absurd ⟨k, hlt, hmk⟩ hex
        · omega
      subst hkn
      refine ⟨k, by omega, hmk, fun j hj => ?_⟩
      cases hmj : m j with
      | false => rfl
      | true => exact absurd ⟨j, hj, hmj⟩ hex

section Chunk
variable (h : Bytes) (needles : List Nat) (hb : BytesOK h) (hn : ∀ n ∈ needles, n < 256)
include hb hn

theorem chunk_nonzero_before (idx k : Nat) (hk : k < 8)
    (hlt : ∀ j, j < k → needles.contains (h.at (idx + j)) = false) :
    ∀ n ∈ needles, ∀ j, j < k → byteOf (load64 h idx ^^^ broadcast n) j ≠ 0#8 := by
  intro n hmem j hj hz
  have he := (chunk_byte_zero h idx n j hb (hn n hmem) (by omega)).mp hz
  have := hlt j hj
  rw [he] at this
  simp only [List.contains_eq_mem, decide_eq_false_iff_not] at this
  exact this hmem

theorem detect_first (idx k : Nat) (hk : k < 8) (hpk : needles.contains (h.at (idx + k)) = true)
    (hlt : ∀ j, j < k → needles.contains (h.at (idx + j)) = false) :
    detect needles (load64 h idx) ≠ 0#64 ∧ tz (detect needles (load64 h idx)) = 8*k+7 := by
  have hnz := chunk_nonzero_before h needles hb hn idx k hk hlt
  have hmem : h.at (idx + k) ∈ needles := by simpa using hpk
  have hbit : (detect needles (load64 h idx)).getLsbD (8*k+7) = true := by
    rw [detect_bit, List.any_eq_true]
    refine ⟨h.at (idx + k), hmem, ?_⟩
    rw [hz_bit _ k hk (hnz _ hmem), (chunk_byte_zero h idx _ k hb (hn _ hmem) hk).mpr rfl]
    rfl
  constructor
  · intro hzero
    rw [hzero] at hbit
    simp at hbit
  · apply tz_eq _ _ (by omega) hbit
    intro i hi
    rw [detect_bit, List.any_eq_false]
    intro n hmemn
    rw [hasZero_below _ k hk (hnz n hmemn) i hi]
    simp

theorem detect_zero (idx : Nat) (hall : ∀ j, j < 8 → needles.contains (h.at (idx + j)) = false) :
    detect needles (load64 h idx) = 0#64 := by
  apply BitVec.eq_of_getLsbD_eq
  intro i _
  rw [detect_bit]
  have hnz := chunk_nonzero_before h needles hb hn idx 8
  have : ∀ n ∈ needles, hasZero (load64 h idx ^^^ broadcast n) = 0#64 := by
    intro n hmem
    rw [hasZero_eq_zero_iff]
    intro k hk
    have he := chunk_byte_zero h idx n k hb (hn n hmem) hk
    intro hz
    have := hall k hk
    rw [he.mp hz] at this
    simp only [List.contains_eq_mem, decide_eq_false_iff_not] at this
    exact this hmem
  rw [BitVec.getLsbD_zero, List.any_eq_false]
  intro n hmem
  rw [this n hmem]
  simp

theorem chunkLoop_eq : ∀ fuel idx, h.size < fuel + idx →
    chunkLoop h needles fuel idx = naiveFrom h (fun b => needles.contains b) (h.size + 1) idx := by
  intro fuel
  induction fuel with
  | zero =>
    intro idx hf
    rw [naiveFrom_eq_neg_one _ _ _ _ (by omega) (fun j h1 h2 => by omega)]
    rfl
  | succ fuel ih =>
    intro idx hf
    unfold chunkLoop
    by_cases hc : idx + 8 ≤ h.size
    · rw [if_pos hc]
      by_cases hex : ∃ k, k < 8 ∧ needles.contains (h.at (idx + k)) = true
      · obtain ⟨k, hk, hpk, hlt⟩ := exists_first (fun k => needles.contains (h.at (idx + k))) 8 hex
        obtain ⟨hne, htz⟩ := detect_first h needles hb hn idx k hk hpk hlt
        dsimp only
        rw [if_pos hne, htz]
        rw [naiveFrom_eq_of_first h _ (h.size + 1) idx (idx + k) (by omega) (by omega) (by omega) hpk]
        · simp; omega
        · intro j hj1 hj2
          have := hlt (j - idx) (by omega)
          rw [show idx + (j - idx) = j by omega] at this
          exact this
      · have hall : ∀ j, j < 8 → needles.contains (h.at (idx + j)) = false := by
          intro j hj
          cases hm : needles.contains (h.at (idx + j)) with
          | false => rfl
          | true => exact absurd ⟨j, hj, hm⟩ hex
        have hz := detect_zero h needles hb hn idx hall
        dsimp only
        rw [hz, naiveFrom_skip h _ idx 8]
        · simpa using ih (idx + 8) (by omega)
        · intro j hj1 hj2
          have := hall (j - idx) (by omega)
          rw [show idx + (j - idx) = j by omega] at this
          exact this
    · rw [if_neg hc]

end Chunk

theorem memchrN_eq_naive (h : Bytes) (needles : List Nat) (hb : BytesOK h) (hn : ∀ n ∈ needles, n < 256)
    (hlen : 1 ≤ needles.length ∧ needles.length ≤ 3) :
    memchrNGeneric h needles = naiveIndex h (fun b => needles.contains b) := by
  have _ := hlen  -- the equality holds for any number of needles
  unfold memchrNGeneric
  by_cases h0 : h.size = 0
  · rw [if_pos h0]
    unfold naiveIndex
    rw [naiveFrom_eq_neg_one _ _ _ _ (by omega) (fun j h1 h2 => by omega)]
  · rw [if_neg h0]
    by_cases h8 : h.size < 8
    · rw [if_pos h8]
    · rw [if_neg h8]
      exact chunkLoop_eq h needles hb hn (h.size + 1) 0 (by omega)

/-! ### isASCII -/

theorem and_hi8_zero_iff8 (c : BitVec 64) : c &&& hi8 = 0#64 ↔
    (byteOf c 0 < 128#8 ∧ byteOf c 1 < 128#8 ∧ byteOf c 2 < 128#8 ∧ byteOf c 3 < 128#8 ∧
     byteOf c 4 < 128#8 ∧ byteOf c 5 < 128#8 ∧ byteOf c 6 < 128#8 ∧ byteOf c 7 < 128#8) := by
  unfold byteOf hi8
  bv_decide

theorem and_hi8_zero_iff (c : BitVec 64) : c &&& hi8 = 0#64 ↔ ∀ k, k < 8 → byteOf c k < 128#8 := by
  rw [and_hi8_zero_iff8]
  constructor
  · intro ⟨h0, h1, h2, h3, h4, h5, h6, h7⟩ k hk
    rcases lt8_cases hk with rfl | rfl | rfl | rfl | rfl | rfl | rfl | rfl <;> assumption
  · intro hall
    exact ⟨hall 0 (by omega), hall 1 (by omega), hall 2 (by omega), hall 3 (by omega),
      hall 4 (by omega), hall 5 (by omega), hall 6 (by omega), hall 7 (by omega)⟩

theorem chunk_ascii_iff (h : Bytes) (idx : Nat) (hb : BytesOK h) :
    load64 h idx &&& hi8 = 0#64 ↔ ∀ k, k < 8 → h.at (idx + k) < 128 := by
  rw [and_hi8_zero_iff]
  have key : ∀ k, k < 8 → (byteOf (load64 h idx) k < 128#8 ↔ h.at (idx + k) < 128) := by
    intro k hk
    rw [byteOf_load64 h idx k hb hk, BitVec.lt_def]
    have := hb (idx + k)
    simp only [BitVec.toNat_ofNat]
    omega
  constructor
  · intro hall k hk; exact (key k hk).mp (hall k hk)
  · intro hall k hk; exact (key k hk).mpr (hall k hk)

theorem naiveFrom_neg_one_iff (h : Bytes) (p : Nat → Bool) (fuel i : Nat) (hf : h.size < fuel + i) :
    naiveFrom h p fuel i = -1 ↔ ∀ j, i ≤ j → j < h.size → p (h.at j) = false := by
  constructor
  · intro he
    rcases naiveFrom_spec h p fuel i hf with ⟨_, h2⟩ | ⟨k, h1, _⟩
    · exact h2
    · rw [h1] at he; omega
  · exact naiveFrom_eq_neg_one h p fuel i hf

theorem asciiLoop_eq (h : Bytes) (hb : BytesOK h) : ∀ fuel idx, h.size < fuel + idx →
    asciiLoop h fuel idx = decide (naiveFrom h (fun b => b ≥ 128) (h.size + 1) idx = -1) := by
  intro fuel
  induction fuel with
  | zero =>
    intro idx hf
    rw [naiveFrom_eq_neg_one _ _ _ _ (by omega) (fun j h1 h2 => by omega)]
    rfl
  | succ fuel ih =>
    intro idx hf
    unfold asciiLoop
    by_cases hc : idx + 8 ≤ h.size
    · rw [if_pos hc]
      by_cases hall : ∀ k, k < 8 → h.at (idx + k) < 128
      · have hz := (chunk_ascii_iff h idx hb).mpr hall
        rw [hz, naiveFrom_skip h _ idx 8]
        · simpa using ih (idx + 8) (by omega)
        · intro j hj1 hj2
          have := hall (j - idx) (by omega)
          rw [show idx + (j - idx) = j by omega] at this
          simp only [ge_iff_le, decide_eq_false_iff_not]
          omega
      · have hnz : load64 h idx &&& hi8 ≠ 0#64 := fun hz => hall ((chunk_ascii_iff h idx hb).mp hz)
        rw [if_pos hnz]
        symm
        rw [decide_eq_false_iff_not, naiveFrom_neg_one_iff _ _ _ _ (by omega)]
        intro hnone
        apply hall
        intro k hk
        have := hnone (idx + k) (by omega) (by omega)
        simp only [ge_iff_le, decide_eq_false_iff_not] at this
        omega
    · rw [if_neg hc]

theorem isASCII_eq_naive (h : Bytes) (hb : BytesOK h) :
    isASCIIGeneric h = decide (naiveIndex h (fun b => b ≥ 128) = -1) := by
  unfold isASCIIGeneric
  by_cases h0 : h.size = 0
  · rw [if_pos h0]
    unfold naiveIndex
    rw [naiveFrom_eq_neg_one _ _ _ _ (by omega) (fun j h1 h2 => by omega)]
    rfl
  · rw [if_neg h0]
    by_cases h8 : h.size < 8
    · rw [if_pos h8]
    · rw [if_neg h8]
      exact asciiLoop_eq h hb (h.size + 1) 0 (by omega)

end Cx.Swar
