import Cx.Model.CompositeDfa
import Cx.Proofs.Fast
/-
  Cx.Proofs.CompositeDfaSem — semantic facts about concatenations of UNBOUNDED class repetitions `c1{m1,} … ck{mk,}`
  (the pattern class of the CompositeSequenceDFA), independent of the automaton:

  * `valid_exchange_right` / `valid_exchange_left`: of two matches, one nested in the other, the start of either can
     be combined with the end of the other (the exchange argument of `searchAfterFailure`'s comment);
  * `greedy_sum_max`: the leftmost-first (greedy, lexicographically greatest) count tuple has the greatest end;
  * the word-level language `Lang` of a part list, its behaviour under append / reversal, and the bridge
    `lang_slice_iff` to `Spec.Valid` on a haystack slice.
-/
namespace Cx.CompDfa
open Cx Cx.Fast Cx.Fast.Spec

/-- all parts unbounded -/
def Unb (ps : List Part) : Prop := ∀ p ∈ ps, p.hi = none

theorem Unb.tail {p : Part} {ps : List Part} (h : Unb (p :: ps)) : Unb ps := fun q hq => h q (List.mem_cons_of_mem _ hq)

theorem admits_of_sub (p : Part) (hp : p.hi = none) (h : Bytes) (t' k' t k : Nat) (hadm : p.admits h t' k')
    (hlo : p.lo ≤ k) (h1 : t' ≤ t) (h2 : t + k ≤ t' + k') : p.admits h t k := by
  obtain ⟨_, _, hr⟩ := hadm
  refine ⟨hlo, (fun b hb => by rw [hp] at hb; exact nomatch hb), ?_⟩
  rw [le_runLen_iff] at hr ⊢
  intro i hi
  have := hr (t + i - t') (by omega)
  rw [show t' + (t + i - t') = t + i by omega] at this
  exact this

/-- two matches `[t', e')` ⊇ `[t, e)`: then `[t, e')` is a match -/
theorem valid_exchange_right (h : Bytes) : ∀ (ps : List Part), Unb ps → ∀ (t' t : Nat) (ks' ks : List Nat),
    Valid h ps t' ks' → Valid h ps t ks → t' ≤ t → t + ks.sum ≤ t' + ks'.sum →
    ∃ ks'', Valid h ps t ks'' ∧ t + ks''.sum = t' + ks'.sum := by
  intro ps
  induction ps with
  | nil =>
    intro _ t' t ks' ks hv' hv h1 h2
    cases ks' with
    | cons _ _ => exact nomatch hv'
    | nil =>
      cases ks with
      | cons _ _ => exact nomatch hv
      | nil => exact ⟨[], trivial, by simp at h2 ⊢; omega⟩
  | cons q qs ih =>
    intro hu t' t ks' ks hv' hv h1 h2
    cases ks' with
    | nil => exact nomatch hv'
    | cons k' kst' =>
      cases ks with
      | nil => exact nomatch hv
      | cons k kst =>
        obtain ⟨ha', hvt'⟩ := hv'
        obtain ⟨ha, hvt⟩ := hv
        simp only [List.sum_cons] at h2 ⊢
        by_cases hc : t + k ≤ t' + k'
        · refine ⟨(t' + k' - t) :: kst', ⟨?_, ?_⟩, by simp only [List.sum_cons]; omega⟩
          · exact admits_of_sub q (hu q List.mem_cons_self) h t' k' t _ ha' (by have := ha.1; omega) h1 (by omega)
          · rw [show t + (t' + k' - t) = t' + k' by omega]; exact hvt'
        · obtain ⟨ks'', hv'', hs''⟩ := ih hu.tail (t' + k') (t + k) kst' kst hvt' hvt (by omega) (by omega)
          exact ⟨k :: ks'', ⟨ha, hv''⟩, by simp only [List.sum_cons]; omega⟩

/-- two matches `[t', e')` ⊇ `[t, e)`: then `[t', e)` is a match -/
theorem valid_exchange_left (h : Bytes) : ∀ (ps : List Part), Unb ps → ∀ (t' t : Nat) (ks' ks : List Nat),
    Valid h ps t' ks' → Valid h ps t ks → t' ≤ t → t + ks.sum ≤ t' + ks'.sum →
    ∃ ks'', Valid h ps t' ks'' ∧ t' + ks''.sum = t + ks.sum := by
  intro ps
  induction ps with
  | nil =>
    intro _ t' t ks' ks hv' hv h1 h2
    cases ks' with
    | cons _ _ => exact nomatch hv'
    | nil =>
      cases ks with
      | cons _ _ => exact nomatch hv
      | nil => exact ⟨[], trivial, by simp at h2 ⊢; omega⟩
  | cons q qs ih =>
    intro hu t' t ks' ks hv' hv h1 h2
    cases ks' with
    | nil => exact nomatch hv'
    | cons k' kst' =>
      cases ks with
      | nil => exact nomatch hv
      | cons k kst =>
        obtain ⟨ha', hvt'⟩ := hv'
        obtain ⟨ha, hvt⟩ := hv
        simp only [List.sum_cons] at h2 ⊢
        by_cases hc : t + k ≤ t' + k'
        · refine ⟨(t + k - t') :: kst, ⟨?_, ?_⟩, by simp only [List.sum_cons]; omega⟩
          · exact admits_of_sub q (hu q List.mem_cons_self) h t' k' t' _ ha' (by have := ha.1; omega) (Nat.le_refl _)
              (by omega)
          · rw [show t' + (t + k - t') = t + k by omega]; exact hvt
        · obtain ⟨ks'', hv'', hs''⟩ := ih hu.tail (t' + k') (t + k) kst' kst hvt' hvt (by omega) (by omega)
          exact ⟨k' :: ks'', ⟨ha', hv''⟩, by simp only [List.sum_cons]; omega⟩

/-- the greedy (leftmost-first) count tuple ends at least as far right as every other valid tuple -/
theorem greedy_sum_max (h : Bytes) : ∀ (ps : List Part), Unb ps → ∀ (s : Nat) (ks ks' : List Nat),
    IsGreedyMatch h ps s ks → Valid h ps s ks' → ks'.sum ≤ ks.sum := by
  intro ps
  induction ps with
  | nil =>
    intro _ s ks ks' hg hv'
    cases ks' with
    | cons _ _ => exact nomatch hv'
    | nil => simp
  | cons p ps ih =>
    intro hu s ks ks' hg hv'
    obtain ⟨hv, hmax⟩ := hg
    cases ks' with
    | nil => exact nomatch hv'
    | cons k' ks0' =>
      cases ks with
      | nil => exact nomatch hv
      | cons k ks0 =>
        have htail : IsGreedyMatch h ps (s + k) ks0 := by
          refine ⟨hv.2, fun ksx hx => ?_⟩
          have := hmax (k :: ksx) ⟨hv.1, hx⟩
          rcases this with hlt | ⟨_, hle⟩
          · omega
          · exact hle
        simp only [List.sum_cons]
        rcases hmax (k' :: ks0') hv' with hlt | ⟨rfl, _⟩
        · by_cases hend : (s + k) + ks0.sum ≤ (s + k') + ks0'.sum
          · obtain ⟨ks'', hv'', hs''⟩ :=
              valid_exchange_right h ps hu.tail (s + k') (s + k) ks0' ks0 hv'.2 hv.2 (by omega) hend
            have := ih hu.tail (s + k) ks0 ks'' htail hv''
            omega
          · omega
        · have := ih hu.tail (s + k') ks0 ks0' htail hv'.2
          omega

/-! ## the word language of a part list -/

/-- one block: at least `minMatch` bytes, all of the class -/
def Blk (p : CharClassPart) (u : List Nat) : Prop := p.minMatch ≤ u.length ∧ ∀ b ∈ u, p.mem b = true

/-- `w ∈ c1{m1,} … ck{mk,}` -/
def Lang : List CharClassPart → List Nat → Prop
  | [], w => w = []
  | p :: ps, w => ∃ u v, w = u ++ v ∧ Blk p u ∧ Lang ps v

theorem Blk_reverse (p : CharClassPart) (u : List Nat) : Blk p u.reverse ↔ Blk p u := by
  unfold Blk; simp

theorem Lang_single (p : CharClassPart) (w : List Nat) : Lang [p] w ↔ Blk p w := by
  constructor
  · rintro ⟨u, v, rfl, hb, hv⟩
    have hv : v = [] := hv
    subst hv; simpa using hb
  · intro hb; exact ⟨w, [], by simp, hb, rfl⟩

theorem Lang_append : ∀ (as bs : List CharClassPart) (w : List Nat),
    Lang (as ++ bs) w ↔ ∃ u v, w = u ++ v ∧ Lang as u ∧ Lang bs v := by
  intro as
  induction as with
  | nil =>
    intro bs w
    constructor
    · intro hl; exact ⟨[], w, rfl, rfl, hl⟩
    · rintro ⟨u, v, rfl, hu, hv⟩
      have hu : u = [] := hu
      subst hu; exact hv
  | cons a as ih =>
    intro bs w
    constructor
    · rintro ⟨u, v, rfl, hb, hl⟩
      obtain ⟨x, y, rfl, hx, hy⟩ := (ih bs v).mp hl
      exact ⟨u ++ x, y, by simp, ⟨u, x, rfl, hb, hx⟩, hy⟩
    · rintro ⟨u, v, rfl, ⟨x, y, rfl, hb, hy⟩, hv⟩
      exact ⟨x, y ++ v, by simp, hb, (ih bs _).mpr ⟨y, v, rfl, hy, hv⟩⟩

theorem Lang_reverse : ∀ (ps : List CharClassPart) (w : List Nat), Lang ps.reverse w.reverse ↔ Lang ps w := by
  intro ps
  induction ps with
  | nil => intro w; show w.reverse = [] ↔ w = []; simp
  | cons p ps ih =>
    intro w
    rw [List.reverse_cons, Lang_append]
    constructor
    · rintro ⟨u, v, huv, hu, hv⟩
      rw [List.reverse_eq_append_iff] at huv
      rw [Lang_single] at hv
      refine ⟨v.reverse, u.reverse, huv, (Blk_reverse p v).mpr hv, (ih u.reverse).mp ?_⟩
      rw [List.reverse_reverse]; exact hu
    · rintro ⟨u, v, rfl, hb, hv⟩
      refine ⟨v.reverse, u.reverse, by simp, (ih v).mpr hv, ?_⟩
      rw [Lang_single]; exact (Blk_reverse p u).mpr hb

/-! ## haystack slices -/

/-- the bytes `h[s:e]` -/
def slice (h : Bytes) (s e : Nat) : List Nat := (List.range' s (e - s)).map (h.at ·)

theorem slice_length (h : Bytes) (s e : Nat) : (slice h s e).length = e - s := by simp [slice]

theorem slice_self (h : Bytes) (s : Nat) : slice h s s = [] := by simp [slice]

theorem slice_snoc (h : Bytes) (s e : Nat) (hse : s ≤ e) : slice h s (e + 1) = slice h s e ++ [h.at e] := by
  unfold slice
  rw [show e + 1 - s = (e - s) + 1 by omega, List.range'_concat, List.map_append]
  simp only [List.map_cons, List.map_nil, Nat.one_mul]
  rw [show s + (e - s) = e by omega]

theorem slice_cons (h : Bytes) (s e : Nat) (hse : s < e) : slice h s e = h.at s :: slice h (s + 1) e := by
  unfold slice
  rw [show e - s = (e - (s + 1)) + 1 by omega, List.range'_succ, List.map_cons]

theorem slice_append (h : Bytes) (s m e : Nat) (h1 : s ≤ m) (h2 : m ≤ e) : slice h s e = slice h s m ++ slice h m e := by
  unfold slice
  rw [← List.map_append]
  congr 1
  have := @List.range'_append s (m - s) (e - m) 1
  rw [Nat.one_mul, show s + (m - s) = m by omega, show m - s + (e - m) = e - s by omega] at this
  exact this.symm

theorem slice_split (h : Bytes) (s e : Nat) (hse : s ≤ e) (u v : List Nat) (huv : slice h s e = u ++ v) :
    s + u.length ≤ e ∧ u = slice h s (s + u.length) ∧ v = slice h (s + u.length) e := by
  have hlen : u.length + v.length = e - s := by
    have := congrArg List.length huv
    rw [slice_length, List.length_append] at this; omega
  have hm : s + u.length ≤ e := by omega
  rw [slice_append h s (s + u.length) e (by omega) hm] at huv
  obtain ⟨h1, h2⟩ := List.append_inj huv (by rw [slice_length]; omega)
  exact ⟨hm, h1.symm, h2.symm⟩

theorem mem_slice_iff (h : Bytes) (s e : Nat) (P : Nat → Prop) :
    (∀ b ∈ slice h s e, P b) ↔ ∀ i, s ≤ i → i < e → P (h.at i) := by
  unfold slice
  constructor
  · intro hall i h1 h2
    apply hall
    rw [List.mem_map]
    exact ⟨i, List.mem_range'_1.mpr ⟨h1, by omega⟩, rfl⟩
  · intro hall b hb
    rw [List.mem_map] at hb
    obtain ⟨i, hi, rfl⟩ := hb
    obtain ⟨h1, h2⟩ := List.mem_range'_1.mp hi
    exact hall i h1 (by omega)

/-- how the DFA's part records are read: every part unbounded (`maxMatch ≤ 0`) -/
def AllUnbounded (ps : List CharClassPart) : Prop := ∀ p ∈ ps, ¬ p.maxMatch > 0

theorem unb_of_allUnbounded (ps : List CharClassPart) (hu : AllUnbounded ps) : Unb (ps.map partOf) := by
  intro q hq
  rw [List.mem_map] at hq
  obtain ⟨p, hp, rfl⟩ := hq
  unfold partOf
  simp only [hu p hp, if_false]

/-- `[s, e)` is a match of the concatenation -/
def IsMatchSpan (h : Bytes) (ps : List Part) (s e : Nat) : Prop := ∃ ks, Valid h ps s ks ∧ s + ks.sum = e

theorem blk_slice_iff (p : CharClassPart) (hp : ¬ p.maxMatch > 0) (h : Bytes) (s m : Nat) (hsm : s ≤ m) (hm : m ≤ h.size) :
    Blk p (slice h s m) ↔ (partOf p).admits h s (m - s) := by
  unfold Blk Part.admits
  rw [slice_length, mem_slice_iff, le_runLen_iff]
  have hhi : (partOf p).hi = none := by unfold partOf; simp only [hp, if_false]
  constructor
  · rintro ⟨h1, h2⟩
    refine ⟨h1, (fun b hb => by rw [hhi] at hb; exact nomatch hb), fun i hi => ⟨by omega, h2 _ (by omega) (by omega)⟩⟩
  · rintro ⟨h1, _, h3⟩
    refine ⟨h1, fun i hi1 hi2 => ?_⟩
    have := (h3 (i - s) (by omega)).2
    rw [show s + (i - s) = i by omega] at this
    exact this

/-- **bridge**: the word language on a slice of the haystack is `Spec.Valid` -/
theorem lang_slice_iff (h : Bytes) : ∀ (ps : List CharClassPart), AllUnbounded ps → ∀ (s e : Nat), s ≤ e → e ≤ h.size →
    (Lang ps (slice h s e) ↔ IsMatchSpan h (ps.map partOf) s e) := by
  intro ps
  induction ps with
  | nil =>
    intro _ s e hse he
    constructor
    · intro hl
      have hl : slice h s e = [] := hl
      have := congrArg List.length hl
      rw [slice_length] at this
      exact ⟨[], trivial, by simp at this ⊢; omega⟩
    · rintro ⟨ks, hv, hs⟩
      cases ks with
      | cons _ _ => exact nomatch hv
      | nil =>
        have : s = e := by simpa using hs
        subst this
        exact slice_self h s
  | cons p ps ih =>
    intro hu s e hse he
    have hp := hu p List.mem_cons_self
    have hu' : AllUnbounded ps := fun q hq => hu q (List.mem_cons_of_mem _ hq)
    constructor
    · rintro ⟨u, v, huv, hb, hl⟩
      obtain ⟨hm, hu1, hv1⟩ := slice_split h s e hse u v huv
      rw [hu1] at hb
      rw [hv1] at hl
      have ha := (blk_slice_iff p hp h s (s + u.length) (by omega) (by omega)).mp hb
      rw [show s + u.length - s = u.length by omega] at ha
      obtain ⟨ks, hv, hs⟩ := (ih hu' (s + u.length) e hm he).mp hl
      exact ⟨u.length :: ks, ⟨ha, hv⟩, by simp only [List.sum_cons]; omega⟩
    · rintro ⟨ks, hv, hs⟩
      cases ks with
      | nil => exact nomatch hv
      | cons k ks =>
        obtain ⟨ha, hvt⟩ := hv
        simp only [List.sum_cons] at hs
        have hm : s + k ≤ e := by omega
        refine ⟨slice h s (s + k), slice h (s + k) e, slice_append h s (s + k) e (by omega) hm, ?_, ?_⟩
        · rw [blk_slice_iff p hp h s (s + k) (by omega) (by omega), show s + k - s = k by omega]; exact ha
        · exact (ih hu' (s + k) e hm he).mpr ⟨ks, hvt, by omega⟩

theorem lang_nonempty (ps : List CharClassPart) (hne : ps ≠ []) (hmin : ∀ p ∈ ps, 1 ≤ p.minMatch) (w : List Nat)
    (hl : Lang ps w) : w ≠ [] := by
  cases ps with
  | nil => exact absurd rfl hne
  | cons p ps =>
    obtain ⟨u, v, rfl, hb, _⟩ := hl
    have := hmin p List.mem_cons_self
    have := hb.1
    intro hnil
    have := congrArg List.length hnil
    rw [List.length_append, List.length_nil] at this
    omega

end Cx.CompDfa
