import Cx.Proofs.PikeBase
import Cx.Proofs.PikeOrder
import Cx.Proofs.PikeMulti
/-
  Cx.Proofs.Pike — the Pike VM of `nfa/pikevm.go` (model: `Cx.Model.Pike`, SlotTable family + `IsMatch`) against
  the path relation of the NFA and against the bounded backtracker of `Cx.Model.Nfa`.

  Hypotheses used (each one is needed by the code as written; see Cx/Model/Pike.lean and the fidelity harness):
    * `Pike.anchored N = false`  — the automaton is not flagged anchored (`startAnchored ≠ startUnanchored`);
       for anchored automata see `pike_search_anchored` / `pike_search_eq_bt_anchored`;
    * `SparseDet N` (language theorems) / `SparseDisjoint N` (equivalence with the backtracker) — the Pike VM
       follows EVERY transition of a sparse state that contains the byte, the reference only the first;
    * `RuneOK N h` — no rune states, or ASCII input: the Pike VM mishandles rune states on multi-byte input;
    * `at ≤ h.size` where stated.

  Proved in Cx.Proofs.PikeBase:
    pike_isMatch_iff      (a) `isMatch N h = true ↔ ∃ i j, i ≤ h.size ∧ Accepts N h i j`
    pike_search_sound     (b) a reported span lies in `[at, len]` and is accepted (both modes)
    pike_search_leftmost  (b) no match starts in `[at, s)`; `none` ⇒ no match starts at or after `at` (both modes)
    pike_search_none_iff      `none ↔` no match starts at or after `at`
    pike_search_longest   (d) longest mode: leftmost start, greatest end from that start
  Proved in Cx.Proofs.PikeOrder (closure/fuel algebra, DFS-by-levels = BFS-by-levels, backtracker = DFS-by-levels):
    F_eq_R, loopA_eq_R, btFind_eq_btX, S1_all, R_eq_bt,
    searchAnchored_eq_bt  (c) for one start position: ordered-thread simulation = priority DFS
  Proved in Cx.Proofs.PikeMulti (dead threads of earlier starts do not matter):
    pike_search_eq_bt           (c) `searchAt N h at false = btSearchAt N h at` (unanchored automata)
    pike_search_anchored        `searchAt` on an anchored automaton = the backtracker's answer for the start `at`
    pike_search_eq_bt_anchored  (c) for anchored automata when no match starts after `at`
-/
namespace Cx.Pike
open Cx Cx.Nfa

/-! ### the theorems in one place (restated over the reference relation / the backtracker model) -/

theorem isMatch_iff {N : NFA} {h : Bytes} (hna : anchored N = false) (hS : SparseDet N) (hR : RuneOK N h) :
    isMatch N h = true ↔ ∃ i j, i ≤ h.size ∧ Accepts N h i j := pike_isMatch_iff hna hS hR

theorem search_sound {N : NFA} {h : Bytes} (hna : anchored N = false) (hS : SparseDet N) (hR : RuneOK N h)
    {at_ s e : Nat} (hr : searchAt N h at_ false = some (s, e)) :
    at_ ≤ s ∧ s ≤ e ∧ e ≤ h.size ∧ Accepts N h s e := pike_search_sound hna hS hR hr

theorem search_leftmost {N : NFA} {h : Bytes} (hna : anchored N = false) (hS : SparseDet N) (hR : RuneOK N h)
    (at_ : Nat) :
    (∀ s e, searchAt N h at_ false = some (s, e) → ∀ i j, at_ ≤ i → i < s → ¬ Accepts N h i j) ∧
    (searchAt N h at_ false = none ↔ ∀ i j, at_ ≤ i → i ≤ h.size → ¬ Accepts N h i j) :=
  ⟨(pike_search_leftmost hna hS hR at_ false).1, pike_search_none_iff hna hS hR at_ false⟩

theorem search_longest {N : NFA} {h : Bytes} (hna : anchored N = false) (hS : SparseDet N) (hR : RuneOK N h)
    (at_ : Nat) :
    (∀ s e, searchAt N h at_ true = some (s, e) →
      (at_ ≤ s ∧ s ≤ e ∧ e ≤ h.size ∧ Accepts N h s e) ∧ (∀ i j, at_ ≤ i → i < s → ¬ Accepts N h i j) ∧
      (∀ j, Accepts N h s j → j ≤ e)) ∧
    (searchAt N h at_ true = none ↔ ∀ i j, at_ ≤ i → i ≤ h.size → ¬ Accepts N h i j) :=
  ⟨fun _ _ hr => pike_search_longest hna hS hR hr, pike_search_none_iff hna hS hR at_ true⟩

theorem search_eq_bt {N : NFA} {h : Bytes} (hna : anchored N = false) (hd : SparseDisjoint N) (hR : RuneOK N h)
    {at_ : Nat} (hat : at_ ≤ h.size) : searchAt N h at_ false = btSearchAt N h at_ :=
  pike_search_eq_bt hna hd hR hat

/-! ### non-vacuity: `a|ab` (two byte paths behind a split) with a separate unanchored start state -/

def exN : NFA :=
  { states := #[.split 1 2, .byteRange 97 97 5, .byteRange 97 97 3, .byteRange 98 98 5, .fail, .mtch, .eps 0],
    startAnchored := 0, startUnanchored := 6 }

theorem exN_anchored : anchored exN = false := by decide

theorem exN_get_cases (q : Nat) : exN.get q = .split 1 2 ∨ exN.get q = .byteRange 97 97 5 ∨
    exN.get q = .byteRange 97 97 3 ∨ exN.get q = .byteRange 98 98 5 ∨ exN.get q = .fail ∨ exN.get q = .mtch ∨
    exN.get q = .eps 0 := by
  unfold NFA.get exN
  match q with
  | 0 => simp
  | 1 => simp
  | 2 => simp
  | 3 => simp
  | 4 => simp
  | 5 => simp
  | 6 => simp
  | n+7 => simp

theorem exN_disjoint : SparseDisjoint exN := by
  intro q ts hk
  rcases exN_get_cases q with h | h | h | h | h | h | h <;> rw [h] at hk <;> cases hk

theorem exN_norune (h : Bytes) : RuneOK exN h := by
  left
  intro q nx
  rcases exN_get_cases q with h | h | h | h | h | h | h <;> rw [h] <;> exact ⟨by simp, by simp⟩

example : searchAt exN #[98, 97, 98] 0 false = some (1, 2) := by decide
example : searchAt exN #[98, 97, 98] 0 true = some (1, 3) := by decide
example : isMatch exN #[98, 98] = false := by decide
example : searchAt exN #[98, 97, 98] 0 false = btSearchAt exN #[98, 97, 98] 0 :=
  search_eq_bt exN_anchored exN_disjoint (exN_norune _) (by decide)

end Cx.Pike
