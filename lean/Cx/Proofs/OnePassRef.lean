import Cx.Proofs.CapsBase
/-
  Cx.Proofs.OnePassRef — the reference `btCapsFind` without its visited set.

  `refFind c pos q sl` is the answer of `btCapsFind` from a FRESH visited set.  At a configuration that cannot be
  reached again from any of its own successors (`refFind_unfold`), it satisfies the plain recursive equation of a
  priority DFS: a match state answers at once, otherwise the successors are tried in order.  Ingredients:
   * `btCapsFind_fuel`  the fuel is irrelevant once it exceeds the number of unmarked configurations;
   * `btCapsFind_DAR`   two visited sets that, on a `Step`-closed region `R`, differ only at dead configurations give
                        the same answer to every call started inside `R` (generalises `btCapsFind_DA`).
-/
namespace Cx.Caps
open Cx Cx.Nfa

/-! ### the fuel is irrelevant -/

theorem tryCfg_fuel (c : BTCtx) (a b : Nat)
    (ih : ∀ (pos q : Nat) (sl : Slots) (V : Array Bool), V.count false < a → V.count false < b →
      btCapsFind c a pos q sl V = btCapsFind c b pos q sl V) :
    ∀ (L : List (Nat × Nat × Slots)) (V : Array Bool), V.count false < a → V.count false < b →
      tryCfg (btCapsFind c a) L V = tryCfg (btCapsFind c b) L V := by
  intro L
  induction L with
  | nil => intro V _ _; rfl
  | cons x L ihL =>
    intro V h1 h2
    obtain ⟨p, q, sl⟩ := x
    simp only [tryCfg]
    rw [ih p q sl V h1 h2]
    have hc := (btCapsFind_vis c b p q sl V).2
    cases hf : btCapsFind c b p q sl V with
    | mk r v =>
      rw [hf] at hc
      simp only at hc
      cases r with
      | some e => rfl
      | none => exact ihL v (by omega) (by omega)

theorem btCapsFind_fuel (c : BTCtx) : ∀ (a b pos q : Nat) (sl : Slots) (V : Array Bool), V.count false < a →
    V.count false < b → btCapsFind c a pos q sl V = btCapsFind c b pos q sl V := by
  intro a
  induction a with
  | zero => intro b pos q sl V h1; omega
  | succ a ih =>
    intro b pos q sl V h1 h2
    obtain ⟨b, rfl⟩ : ∃ b', b = b' + 1 := ⟨b - 1, by omega⟩
    rw [btCapsFind_unfold, btCapsFind_unfold]
    split
    · rfl
    · split
      · rfl
      · rename_i hv
        have hv' : V.getD (c.idx q pos) true = false := by simpa using hv
        have hk := count_set_lt hv'
        split
        · rfl
        · exact tryCfg_fuel c a b (fun pos q sl V h1 h2 => ih b pos q sl V h1 h2) _ _ (by omega) (by omega)

/-! ### visited sets that differ only at dead configurations of a `Step`-closed region -/

def DAR (c : BTCtx) (R : Nat → Nat → Prop) (V1 V2 : Array Bool) : Prop :=
  V1.size = V2.size ∧ ∀ q p, R q p → q < c.N.states.size → c.spanStart ≤ p → p ≤ c.h.size →
    V1.getD (c.idx q p) true ≠ V2.getD (c.idx q p) true → Pike.NM c.N c.h p q

theorem DAR.refl (c : BTCtx) (R : Nat → Nat → Prop) (V : Array Bool) : DAR c R V V :=
  ⟨rfl, fun _ _ _ _ _ _ h => absurd rfl h⟩

theorem DAR.chg_right {c : BTCtx} {R : Nat → Nat → Prop} {V1 V2 V2' : Array Bool} (h : DAR c R V1 V2)
    (hc : ChgIn c (fun q p => Pike.NM c.N c.h p q) V2 V2') (hs : V2'.size = V2.size) : DAR c R V1 V2' := by
  refine ⟨h.1.trans hs.symm, ?_⟩
  intro q p hr hq hsp hle hne
  by_cases h2 : V2'.getD (c.idx q p) true = V2.getD (c.idx q p) true
  · exact h.2 q p hr hq hsp hle (by rw [← h2]; exact hne)
  · obtain ⟨q', p', hd, hq', hsp', he⟩ := hc _ h2
    obtain ⟨rfl, rfl⟩ := idx_inj c hq hq' hsp hsp' he
    exact hd

theorem DAR.chg_left {c : BTCtx} {R : Nat → Nat → Prop} {V1 V1' V2 : Array Bool} (h : DAR c R V1 V2)
    (hc : ChgIn c (fun q p => Pike.NM c.N c.h p q) V1 V1') (hs : V1'.size = V1.size) : DAR c R V1' V2 := by
  refine ⟨hs.trans h.1, ?_⟩
  intro q p hr hq hsp hle hne
  by_cases h2 : V1'.getD (c.idx q p) true = V1.getD (c.idx q p) true
  · exact h.2 q p hr hq hsp hle (by rw [← h2]; exact hne)
  · obtain ⟨q', p', hd, hq', hsp', he⟩ := hc _ h2
    obtain ⟨rfl, rfl⟩ := idx_inj c hq hq' hsp hsp' he
    exact hd

theorem DAR.set_both {c : BTCtx} {R : Nat → Nat → Prop} {V1 V2 : Array Bool} (h : DAR c R V1 V2) (i : Nat) :
    DAR c R (V1.setIfInBounds i true) (V2.setIfInBounds i true) := by
  refine ⟨by simp [h.1], ?_⟩
  intro q p hr hq hsp hle hne
  by_cases he : i = c.idx q p
  · exfalso
    subst he
    apply hne
    have e1 : V1.size = V2.size := h.1
    simp only [Array.getD_eq_getD_getElem?, Array.getElem?_setIfInBounds, e1, ↓reduceIte]
  · rw [getD_set_other he, getD_set_other he] at hne
    exact h.2 q p hr hq hsp hle hne

theorem tryCfg_DAR (c : BTCtx) (R : Nat → Nat → Prop) (fuel : Nat)
    (ih : ∀ (pos q : Nat) (sl : Slots) (V1 V2 : Array Bool), DAR c R V1 V2 → R q pos → V1.count false < fuel →
      V2.count false < fuel → c.spanStart ≤ pos → pos ≤ c.h.size →
      (btCapsFind c fuel pos q sl V1).1 = (btCapsFind c fuel pos q sl V2).1 ∧
      DAR c R (btCapsFind c fuel pos q sl V1).2 (btCapsFind c fuel pos q sl V2).2) :
    ∀ (L : List (Nat × Nat × Slots)) (V1 V2 : Array Bool),
      (∀ x ∈ L, R x.2.1 x.1 ∧ c.spanStart ≤ x.1 ∧ x.1 ≤ c.h.size) →
      DAR c R V1 V2 → V1.count false < fuel → V2.count false < fuel →
      (tryCfg (btCapsFind c fuel) L V1).1 = (tryCfg (btCapsFind c fuel) L V2).1 ∧
      DAR c R (tryCfg (btCapsFind c fuel) L V1).2 (tryCfg (btCapsFind c fuel) L V2).2 := by
  intro L
  induction L with
  | nil => intro V1 V2 _ hda _ _; exact ⟨rfl, hda⟩
  | cons x L ihL =>
    intro V1 V2 hL hda h1 h2
    obtain ⟨p, q, sl⟩ := x
    have hx := hL (p, q, sl) List.mem_cons_self
    obtain ⟨a1, a2⟩ := ih p q sl V1 V2 hda hx.1 h1 h2 hx.2.1 hx.2.2
    have c1 := (btCapsFind_vis c fuel p q sl V1).2
    have c2 := (btCapsFind_vis c fuel p q sl V2).2
    simp only [tryCfg]
    cases hf1 : btCapsFind c fuel p q sl V1 with
    | mk r1 v1 =>
      cases hf2 : btCapsFind c fuel p q sl V2 with
      | mk r2 v2 =>
        rw [hf1, hf2] at a1 a2
        rw [hf1] at c1
        rw [hf2] at c2
        simp only at a1 a2 c1 c2
        subst a1
        cases r1 with
        | some e => exact ⟨rfl, a2⟩
        | none =>
          exact ihL v1 v2 (fun y hy => hL y (List.mem_cons_of_mem _ hy)) a2 (by omega) (by omega)

theorem btCapsFind_DAR (c : BTCtx) (R : Nat → Nat → Prop)
    (hR : ∀ q p q' p', R q p → Step c.N c.h (q, p) (q', p') → R q' p') :
    ∀ (fuel pos q : Nat) (sl : Slots) (V1 V2 : Array Bool), DAR c R V1 V2 → R q pos →
    V1.count false < fuel → V2.count false < fuel → c.spanStart ≤ pos → pos ≤ c.h.size →
    (btCapsFind c fuel pos q sl V1).1 = (btCapsFind c fuel pos q sl V2).1 ∧
    DAR c R (btCapsFind c fuel pos q sl V1).2 (btCapsFind c fuel pos q sl V2).2 := by
  intro fuel
  induction fuel with
  | zero => intro pos q sl V1 V2 _ _ h1; omega
  | succ fuel ih =>
    intro pos q sl V1 V2 hda hr h1 h2 hsp hle
    by_cases hq : q ≥ c.N.states.size
    · rw [btCapsFind_unfold, btCapsFind_unfold, if_pos hq, if_pos hq]
      exact ⟨rfl, hda⟩
    · have hq' : q < c.N.states.size := by omega
      by_cases m1 : V1.getD (c.idx q pos) true = true
      · by_cases m2 : V2.getD (c.idx q pos) true = true
        · rw [btCapsFind_unfold, btCapsFind_unfold, if_neg hq, if_neg hq, if_pos m1, if_pos m2]
          exact ⟨rfl, hda⟩
        · have hn : Pike.NM c.N c.h pos q := hda.2 q pos hr hq' hsp hle (by rw [m1]; simpa using m2)
          have hl : btCapsFind c (fuel+1) pos q sl V1 = (none, V1) := by
            rw [btCapsFind_unfold, if_neg hq, if_pos m1]
          rw [hl, btCapsFind_dead c _ pos q sl V2 hn]
          exact ⟨rfl, hda.chg_right (btCapsFind_chg c _ (nm_closed c) _ pos q sl V2 hn hsp hle)
            (btCapsFind_vis c _ pos q sl V2).1⟩
      · by_cases m2 : V2.getD (c.idx q pos) true = true
        · have hn : Pike.NM c.N c.h pos q := hda.2 q pos hr hq' hsp hle (by rw [m2]; simpa using m1)
          have hr' : btCapsFind c (fuel+1) pos q sl V2 = (none, V2) := by
            rw [btCapsFind_unfold, if_neg hq, if_pos m2]
          rw [hr', btCapsFind_dead c _ pos q sl V1 hn]
          exact ⟨rfl, hda.chg_left (btCapsFind_chg c _ (nm_closed c) _ pos q sl V1 hn hsp hle)
            (btCapsFind_vis c _ pos q sl V1).1⟩
        · rw [btCapsFind_unfold, btCapsFind_unfold, if_neg hq, if_neg hq, if_neg m1, if_neg m2]
          have m1' : V1.getD (c.idx q pos) true = false := by simpa using m1
          have m2' : V2.getD (c.idx q pos) true = false := by simpa using m2
          have k1 := count_set_lt m1'
          have k2 := count_set_lt m2'
          split
          · exact ⟨rfl, hda.set_both _⟩
          · exact tryCfg_DAR c R fuel ih (nexts c pos q sl) _ _
              (fun x hx => by
                have hp := nexts_pos hx hle
                exact ⟨hR _ _ _ _ hr (nexts_step hx).1, by omega, hp.2⟩)
              (hda.set_both _) (by omega) (by omega)

/-! ### the reference from a fresh visited set -/

/-- the answer of the reference DFS from `(pos, q)` carrying `sl`, fresh visited set -/
def refFind (c : BTCtx) (pos q : Nat) (sl : Slots) : Option (Nat × Slots) :=
  (btCapsFind c (btFuel c.N c.h) pos q sl (freshVis c.N c.h)).1

/-- try the configurations in order -/
def refTry (c : BTCtx) (L : List (Nat × Nat × Slots)) : Option (Nat × Slots) :=
  L.findSome? fun x => refFind c x.1 x.2.1 x.2.2

theorem refFind_oob (c : BTCtx) (pos q : Nat) (sl : Slots) (hq : c.N.states.size ≤ q) : refFind c pos q sl = none := by
  unfold refFind
  have : btFuel c.N c.h = (btFuel c.N c.h - 1) + 1 := by unfold btFuel; omega
  rw [this, btCapsFind_unfold, if_pos hq]

/-- `none` from a fresh visited set: no accepting path from that configuration -/
theorem refFind_none_nm (c : BTCtx) {pos q : Nat} {sl : Slots} (hsp : c.spanStart ≤ pos) (hle : pos ≤ c.h.size)
    (hr : refFind c pos q sl = none) : Pike.NM c.N c.h pos q := by
  unfold refFind at hr
  have he := btCapsFind_erase c (btFuel c.N c.h) pos q sl (freshVis c.N c.h)
  rw [hr] at he
  simp only [Option.map_none] at he
  have hb := btFind_none c (btFuel c.N c.h) pos q (freshVis c.N c.h) _ (fun _ _ => False)
    (Prod.ext he.1.symm rfl) (freshVis_fuel c.N c.h) hsp (freshVis_inv c)
  exact pruned_no_reach hb.1 hb.2.1 hsp hle

theorem steps_snoc' {N : NFA} {h : Bytes} {a b d : Nat × Nat} (s1 : Steps N h a b) (s2 : Step N h b d) : Steps N h a d := by
  induction s1 with
  | refl x => exact Steps.cons s2 (Steps.refl _)
  | cons st _ ih => exact Steps.cons st (ih s2)

/-- trying a list of configurations of the region `R` from a visited set that is fresh on `R` up to dead
    configurations -/
theorem tryCfg_ref (c : BTCtx) (R : Nat → Nat → Prop)
    (hR : ∀ q p q' p', R q p → Step c.N c.h (q, p) (q', p') → R q' p') (F : Nat)
    (hF : (freshVis c.N c.h).count false < F) :
    ∀ (L : List (Nat × Nat × Slots)) (V : Array Bool),
      (∀ x ∈ L, R x.2.1 x.1 ∧ c.spanStart ≤ x.1 ∧ x.1 ≤ c.h.size) →
      DAR c R (freshVis c.N c.h) V → V.count false < F →
      (tryCfg (btCapsFind c F) L V).1 = refTry c L := by
  intro L
  induction L with
  | nil => intro V _ _ _; rfl
  | cons x L ih =>
    intro V hL hda hV
    obtain ⟨p, q, sl⟩ := x
    obtain ⟨hx1, hx2, hx3⟩ := hL (p, q, sl) List.mem_cons_self
    obtain ⟨a1, _⟩ := btCapsFind_DAR c R hR F p q sl (freshVis c.N c.h) V hda hx1 hF hV hx2 hx3
    have a0 : (btCapsFind c F p q sl (freshVis c.N c.h)).1 = refFind c p q sl := by
      unfold refFind
      rw [btCapsFind_fuel c F (btFuel c.N c.h) p q sl _ hF (freshVis_fuel c.N c.h)]
    simp only [tryCfg, refTry, List.findSome?_cons]
    have hvis := btCapsFind_vis c F p q sl V
    cases hf : btCapsFind c F p q sl V with
    | mk r v =>
      rw [hf] at a1 hvis
      simp only at a1 hvis
      rw [a0] at a1
      cases r with
      | some e => rw [a1]
      | none =>
        rw [a1]
        simp only []
        have hn := refFind_none_nm c hx2 hx3 a1
        have hchg := btCapsFind_chg c _ (nm_closed c) F p q sl V hn hx2 hx3
        rw [hf] at hchg
        exact ih v (fun y hy => hL y (List.mem_cons_of_mem _ hy)) (hda.chg_right hchg hvis.1) (by omega)

/-- At a configuration that none of its successors leads back to, the reference is the plain priority DFS. -/
theorem refFind_unfold (c : BTCtx) {pos q : Nat} (sl : Slots) (hq : q < c.N.states.size) (hsp : c.spanStart ≤ pos)
    (hle : pos ≤ c.h.size)
    (hacyc : ∀ x ∈ nexts c pos q sl, ¬ Steps c.N c.h (x.2.1, x.1) (q, pos)) :
    refFind c pos q sl =
      if Pike.isMatchState c.N q then some (pos, sl) else refTry c (nexts c pos q sl) := by
  have hfu : btFuel c.N c.h = (c.N.states.size * (c.h.size + 2) + 1) + 1 := rfl
  have hF : (freshVis c.N c.h).count false < c.N.states.size * (c.h.size + 2) + 1 := by
    rw [freshVis_count, Nat.mul_add, Nat.mul_add]; omega
  have hidx := idx_lt c hq hle
  have hfv : (freshVis c.N c.h).getD (c.idx q pos) true = false := freshVis_getD c.N c.h hidx
  conv => lhs; unfold refFind
  rw [hfu, btCapsFind_unfold, if_neg (by omega), hfv]
  simp only [Bool.false_eq_true, ↓reduceIte]
  split
  · rfl
  · -- the region reachable from the successors
    let R : Nat → Nat → Prop := fun q' p' => ∃ x ∈ nexts c pos q sl, Steps c.N c.h (x.2.1, x.1) (q', p')
    have hR : ∀ a b a' b', R a b → Step c.N c.h (a, b) (a', b') → R a' b' := by
      rintro a b a' b' ⟨x, hx, hs⟩ st
      exact ⟨x, hx, steps_snoc' hs st⟩
    apply tryCfg_ref c R hR _ hF
    · intro x hx
      have hp := nexts_pos hx hle
      exact ⟨⟨x, hx, Steps.refl _⟩, by omega, hp.2⟩
    · refine ⟨by simp, ?_⟩
      intro q' p' hr' hq' hsp' hle' hne
      exfalso
      by_cases he : c.idx q pos = c.idx q' p'
      · obtain ⟨rfl, rfl⟩ := idx_inj c hq hq' hsp hsp' he
        obtain ⟨x, hx, hs⟩ := hr'
        exact hacyc x hx hs
      · rw [getD_set_other he] at hne
        exact hne rfl
    · have := count_set_lt hfv
      omega

end Cx.Caps
