import Cx.Properties.C01b
import Cx.Properties.C02b
import Cx.Properties.C05b
/-! The property-level statements of Cx.Proofs.MetaFind2 live in Cx/Properties/C01b.lean, C02b.lean, C05b.lean (audited with the
    property files of C01, C02 and C05). -/
