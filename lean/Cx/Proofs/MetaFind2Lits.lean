import Cx.Model.MetaFind2
import Cx.Proofs.MetaFind
/-
  Cx.Proofs.MetaFind2Lits — literal sets and the Aho-Corasick automaton of github.com/coregx/ahocorasick v0.3.0 as the
  UseAhoCorasick strategy, the Fat Teddy small-haystack fallback and `prefilter.AhoCorasickPrefilter` use it.

  What the dependency ACTUALLY does (automaton.go l.18-85, match kind LeftmostFirst = the builder's default): `Find(h, a)` runs the
  DFA from the start state at `a` and returns at the FIRST accepting state, i.e. at the least END `e` of an occurrence of a
  literal that starts at or after `a`; the occurrence it reports is `matches[0]` of that state: the state's own pattern (the
  LONGEST literal ending at `e`, hence the one that starts first), then those of the failure chain (nfa.go l.163-195).  Its
  "leftmost-first" is therefore ENDS-first.  `FindAt(h, p)` (l.90-147) answers iff some literal starts exactly at `p`.

  Contracts (the haystack `h` fixed; `find`, `findAt : Nat → Option Span` the automaton's answers from every offset):
    LitOcc lits h s e    some literal of the set occupies `h[s..e)`
    EndsFirstOK find lits h   `find a = some (s, e)` → `a ≤ s`, `LitOcc lits h s e`, and `e` is the LEAST end of an occurrence that
                         starts at or after `a` (WHICH occurrence with that end is not specified: none of the theorems needs it;
                         the real automaton reports the longest one — checked by `fidelity/metafind2.go`);
                         `find a = none` → no occurrence starts at or after `a`
    AnchOccOK findAt lits h   for `p < |h|`: `findAt p` answers iff some literal occurs at `p`
    AcSetOK lits nested maxLen   the set-level facts the engine computes at compile time, as DECIDABLE definitions on the literal
                         list: every literal is at most `maxLen` long (`litMaxLen`); `nested = false` → `hasNestedLiteral lits =
                         false` (`prefilter.HasNestedLiteral`)                              (`acSetOK_compile`)
  Theory:
    hasNestedLiteral_false / NoNest   no literal occurs inside another one (as values: `a ≠ b`, `|a| ≤ |b|` → `a` nowhere in `b`)
    noNest_unique_at     two literals of a set without nesting that occur at the same position are EQUAL (prefix-related)
    noNest_no_earlier    an occurrence that starts earlier and ends at or after another one would CONTAIN it
    refLit_some / refLit_none / refLit_first / refLit_refOK   the executable reference `refLit` meets `RefOK (LitOcc lits)`,
                         incl. the restart property; its literal is the first of the list that occurs at the leftmost position
    endsFirst_eq_ref     (a) **without nesting ends-first = leftmost-first**: `find a = ref h a` for ANY reference meeting `RefOK` when
                         the matches are the occurrences (one match per start); `endsFirst_eq_refLit`: `find a = refLit lits h a`
    endsFirst_lo         (b) with nesting: no occurrence from `a` starts before `lo = max a (e − maxLen)`, and `lo ≤ s ≤ |h|`
    ahoPrefilterFind_some / _none   `AhoCorasickPrefilter.Find(h, a)` = the LEAST start `≥ a` of an occurrence
    endsFirst_ok / anchOcc_ok       non-vacuity: the brute-force ends-first automaton `endsFirst` meets `EndsFirstOK`
-/
namespace Cx.MetaFind2
open Cx
open Cx.MetaFind (Span RefOK PfOK PikeOK)
open Cx.RevSuffix (RefSpec findFirst findFirst_some findFirst_none occursAt Occ occursAt_iff)

/-! ### occurrences -/

/-- some literal of the set occupies `h[s..e)` -/
def LitOcc (lits : List Bytes) (h : Bytes) (s e : Nat) : Prop := ∃ l, l ∈ lits ∧ Occ h l s ∧ e = s + l.size

theorem LitOcc.le {lits : List Bytes} {h : Bytes} {s e : Nat} (ho : LitOcc lits h s e) : s ≤ e ∧ e ≤ h.size := by
  obtain ⟨l, _, h2, h3⟩ := ho
  have := h2.1
  omega

/-- `a` at `s` and `b` at `s'` in `h`, the first INSIDE the second: `a` occurs in `b` -/
theorem occ_inside {h a b : Bytes} {s s' : Nat} (ha : Occ h a s) (hb : Occ h b s') (h1 : s' ≤ s)
    (h2 : s + a.size ≤ s' + b.size) : Occ b a (s - s') := by
  refine ⟨by omega, ?_⟩
  intro k hk
  have e1 := hb.2 (s - s' + k) (by omega)
  have e2 := ha.2 k hk
  rw [show s' + (s - s' + k) = s + k by omega] at e1
  rw [← e1, e2]

theorem containsSub_iff (b a : Bytes) : containsSub b a = true ↔ ∃ p, Occ b a p := by
  unfold containsSub
  rw [List.any_eq_true]
  constructor
  · rintro ⟨p, _, hp⟩
    exact ⟨p, (occursAt_iff b a p).mp hp⟩
  · rintro ⟨p, hp⟩
    exact ⟨p, List.mem_range.mpr (by have := hp.1; omega), (occursAt_iff b a p).mpr hp⟩

/-- no literal occurs inside another one -/
def NoNest (lits : List Bytes) : Prop :=
  ∀ a b, a ∈ lits → b ∈ lits → a ≠ b → a.size ≤ b.size → ∀ p, ¬ Occ b a p

/-- what `prefilter.HasNestedLiteral(lits) = false` says (it also says that no literal is listed twice) -/
theorem hasNestedLiteral_false {lits : List Bytes} (hn : hasNestedLiteral lits = false) : NoNest lits := by
  intro a b ha hb hab hsz p hp
  obtain ⟨i, hi⟩ := List.mem_iff_getElem?.mp ha
  obtain ⟨j, hj⟩ := List.mem_iff_getElem?.mp hb
  have hij : i ≠ j := by
    intro heq
    subst heq
    rw [hi] at hj
    exact hab (Option.some.inj hj)
  have hil : i < lits.length := by
    apply Classical.byContradiction
    intro hlt
    rw [List.getElem?_eq_none (by omega)] at hi
    cases hi
  have hjl : j < lits.length := by
    apply Classical.byContradiction
    intro hlt
    rw [List.getElem?_eq_none (by omega)] at hj
    cases hj
  have hgi : lits.getD i #[] = a := by rw [List.getD_eq_getElem?_getD, hi]; rfl
  have hgj : lits.getD j #[] = b := by rw [List.getD_eq_getElem?_getD, hj]; rfl
  have : hasNestedLiteral lits = true := by
    unfold hasNestedLiteral
    rw [List.any_eq_true]
    refine ⟨i, List.mem_range.mpr hil, ?_⟩
    rw [List.any_eq_true]
    refine ⟨j, List.mem_range.mpr hjl, ?_⟩
    rw [hgi, hgj]
    simp only [Bool.and_eq_true, decide_eq_true_eq]
    exact ⟨⟨hij, hsz⟩, (containsSub_iff b a).mpr ⟨p, hp⟩⟩
  rw [hn] at this
  cases this

/-- two literals of a set without nesting that occur at the same position are equal: one would be a prefix of the other -/
theorem noNest_unique_at {lits : List Bytes} {h a b : Bytes} {s : Nat} (hn : NoNest lits) (ha : a ∈ lits) (hb : b ∈ lits)
    (oa : Occ h a s) (ob : Occ h b s) : a = b := by
  apply Classical.byContradiction
  intro hab
  by_cases hsz : a.size ≤ b.size
  · exact hn a b ha hb hab hsz (s - s) (occ_inside oa ob (Nat.le_refl _) (by omega))
  · exact hn b a hb ha (fun g => hab g.symm) (by omega) (s - s) (occ_inside ob oa (Nat.le_refl _) (by omega))

/-- in a set without nesting, an occurrence that starts earlier than another one ends before it: otherwise it would contain it -/
theorem noNest_no_earlier {lits : List Bytes} {h : Bytes} {s e s' e' : Nat} (hn : NoNest lits) (o : LitOcc lits h s e)
    (o' : LitOcc lits h s' e') (hlt : s' < s) (hee : e ≤ e') : False := by
  obtain ⟨a, ha, oa, rfl⟩ := o
  obtain ⟨b, hb, ob, rfl⟩ := o'
  have hne : a ≠ b := by
    intro g
    subst g
    omega
  exact hn a b ha hb hne (by omega) (s - s') (occ_inside oa ob (by omega) hee)

/-! ### the set-level facts of the engine -/

theorem litMaxLen_ge {lits : List Bytes} {l : Bytes} (hl : l ∈ lits) : l.size ≤ litMaxLen lits := by
  unfold litMaxLen
  have key : ∀ (ls : List Bytes) (m : Nat), m ≤ ls.foldl (fun m l => max m l.size) m ∧
      ∀ l ∈ ls, l.size ≤ ls.foldl (fun m l => max m l.size) m := by
    intro ls
    induction ls with
    | nil => intro m; exact ⟨Nat.le_refl _, fun l hl => by cases hl⟩
    | cons x xs ih =>
      intro m
      simp only [List.foldl_cons]
      obtain ⟨i1, i2⟩ := ih (max m x.size)
      refine ⟨by omega, ?_⟩
      intro l hl
      cases hl with
      | head => omega
      | tail _ hl' => exact i2 l hl'
  exact (key lits 0).2 l hl

/-- the facts `compile.go` / `newACPrefilter` record about the literal set -/
structure AcSetOK (lits : List Bytes) (nested : Bool) (maxLen : Nat) : Prop where
  /-- `maxLen` bounds every literal, hence the length of every occurrence (decidable: `lits.all (·.size ≤ maxLen)`) -/
  maxLen_ok : ∀ l, l ∈ lits → l.size ≤ maxLen
  /-- `nested = false` only for a set in which no literal occurs inside another one -/
  nested_ok : nested = false → hasNestedLiteral lits = false

/-- what the engine computes meets `AcSetOK` -/
theorem acSetOK_compile (lits : List Bytes) : AcSetOK lits (hasNestedLiteral lits) (litMaxLen lits) :=
  ⟨fun _ hl => litMaxLen_ge hl, fun g => g⟩

theorem AcSetOK.noNest {lits : List Bytes} {nested : Bool} {maxLen : Nat} (S : AcSetOK lits nested maxLen) (hn : nested = false) :
    NoNest lits := hasNestedLiteral_false (S.nested_ok hn)

theorem AcSetOK.occ_len {lits : List Bytes} {nested : Bool} {maxLen : Nat} (S : AcSetOK lits nested maxLen) {h : Bytes} {s e : Nat}
    (o : LitOcc lits h s e) : e ≤ s + maxLen := by
  obtain ⟨l, hl, _, rfl⟩ := o
  have := S.maxLen_ok l hl
  omega

/-! ### `findFirst`, once more -/

theorem findFirst_some_of {p : Nat → Bool} : ∀ {n lo i : Nat}, lo ≤ i → i < lo + n → p i = true →
    (∀ j, lo ≤ j → j < i → p j = false) → findFirst p lo n = some i := by
  intro n
  induction n with
  | zero => intro lo i h1 h2; omega
  | succ n ih =>
    intro lo i h1 h2 h3 h4
    rw [findFirst]
    by_cases hlo : lo = i
    · subst hlo; rw [if_pos h3]
    · rw [if_neg (by rw [h4 lo (Nat.le_refl _) (by omega)]; exact Bool.false_ne_true)]
      exact ih (by omega) (by omega) h3 (fun j g1 g2 => h4 j (by omega) g2)

theorem findFirst_none_of {p : Nat → Bool} : ∀ {n lo : Nat}, (∀ j, lo ≤ j → j < lo + n → p j = false) → findFirst p lo n = none := by
  intro n
  induction n with
  | zero => intro lo _; rfl
  | succ n ih =>
    intro lo h4
    rw [findFirst, if_neg (by rw [h4 lo (Nat.le_refl _) (by omega)]; exact Bool.false_ne_true)]
    exact ih (fun j g1 g2 => h4 j (by omega) (by omega))

/-! ### the reference of an alternation of literals -/

theorem anyLitAt_iff (lits : List Bytes) (h : Bytes) (p : Nat) : anyLitAt lits h p = true ↔ ∃ e, LitOcc lits h p e := by
  unfold anyLitAt
  rw [List.any_eq_true]
  constructor
  · rintro ⟨l, hl, ho⟩
    exact ⟨p + l.size, l, hl, (occursAt_iff h l p).mp ho, rfl⟩
  · rintro ⟨e, l, hl, ho, _⟩
    exact ⟨l, hl, (occursAt_iff h l p).mpr ho⟩

theorem anyLitAt_false {lits : List Bytes} {h : Bytes} {p : Nat} (hf : anyLitAt lits h p = false) (e : Nat) : ¬ LitOcc lits h p e := by
  intro ho
  rw [(anyLitAt_iff lits h p).mpr ⟨e, ho⟩] at hf
  cases hf

/-- `refLit` unfolded: the scan for the leftmost position, then the first literal there -/
theorem refLit_iff {lits : List Bytes} {h : Bytes} {a s e : Nat} :
    refLit lits h a = some (s, e) ↔
      findFirst (anyLitAt lits h) a (h.size + 1 - a) = some s ∧
      ∃ l, (lits.find? fun l => occursAt h l s) = some l ∧ e = s + l.size := by
  unfold refLit
  cases hf : findFirst (anyLitAt lits h) a (h.size + 1 - a) with
  | none => simp
  | some p =>
    simp only [Option.some.injEq]
    cases hl : (lits.find? fun l => occursAt h l p) with
    | none =>
      simp only [Option.map_none]
      constructor
      · intro hc; cases hc
      · rintro ⟨hp, l, hl', _⟩
        subst hp
        rw [hl] at hl'
        cases hl'
    | some l =>
      simp only [Option.map_some, Option.some.injEq, Prod.mk.injEq]
      constructor
      · rintro ⟨rfl, rfl⟩
        exact ⟨rfl, l, hl, rfl⟩
      · rintro ⟨rfl, l', hl', rfl⟩
        rw [hl] at hl'
        cases hl'
        exact ⟨rfl, rfl⟩

/-- `refLit` answers the leftmost position where a literal occurs, with a literal of the set that occurs there -/
theorem refLit_some {lits : List Bytes} {h : Bytes} {a s e : Nat} (hr : refLit lits h a = some (s, e)) :
    a ≤ s ∧ s ≤ h.size ∧ LitOcc lits h s e ∧ ∀ s' e', a ≤ s' → s' < s → ¬ LitOcc lits h s' e' := by
  obtain ⟨hf, l, hl, he⟩ := refLit_iff.mp hr
  obtain ⟨h1, h2, _, h4⟩ := findFirst_some hf
  have hm := List.mem_of_find?_eq_some hl
  have ho : occursAt h l s = true := List.find?_some (p := fun l => occursAt h l s) hl
  refine ⟨h1, by omega, ⟨l, hm, (occursAt_iff h l s).mp ho, he⟩, ?_⟩
  intro s' e' g1 g2
  exact anyLitAt_false (h4 s' g1 g2) e'

/-- … and that literal is the FIRST of the list that occurs there -/
theorem refLit_first {lits : List Bytes} {h : Bytes} {a s e : Nat} (hr : refLit lits h a = some (s, e)) :
    ∃ pre l post, lits = pre ++ l :: post ∧ Occ h l s ∧ e = s + l.size ∧ ∀ l', l' ∈ pre → ¬ Occ h l' s := by
  obtain ⟨_, l, hl, he⟩ := refLit_iff.mp hr
  obtain ⟨ho, pre, post, hsplit, hpre⟩ := List.find?_eq_some_iff_append.mp hl
  refine ⟨pre, l, post, hsplit, (occursAt_iff h l s).mp ho, he, ?_⟩
  intro l' hl' ho'
  have := hpre l' hl'
  rw [(occursAt_iff h l' s).mpr ho'] at this
  cases this

theorem refLit_none {lits : List Bytes} {h : Bytes} {a : Nat} (hr : refLit lits h a = none) :
    ∀ s e, a ≤ s → ¬ LitOcc lits h s e := by
  intro s e g1 ho
  have hs := ho.le
  unfold refLit at hr
  cases hf : findFirst (anyLitAt lits h) a (h.size + 1 - a) with
  | none => exact anyLitAt_false (findFirst_none hf s g1 (by omega)) e ho
  | some p =>
    rw [hf] at hr
    simp only [Option.map_eq_none_iff, List.find?_eq_none] at hr
    obtain ⟨_, _, h3, _⟩ := findFirst_some hf
    obtain ⟨e', l, hl, ho', _⟩ := (anyLitAt_iff lits h p).mp h3
    exact hr l hl ((occursAt_iff h l p).mpr ho')

/-- the executable reference meets the contract of the abstract one, including the restart property -/
theorem refLit_refOK (lits : List Bytes) (h : Bytes) : RefOK (LitOcc lits) (refLit lits) h := by
  refine { ref_sound := ?_, ref_leftmost := ?_, ref_none := ?_, mt_le := ?_, restart := ?_ }
  · intro a s e _ hr
    obtain ⟨h1, h2, h3, _⟩ := refLit_some hr
    exact ⟨h1, h2, h3⟩
  · intro a s e _ hr s' e' g1 g2
    obtain ⟨_, _, _, h4⟩ := refLit_some hr
    apply Classical.byContradiction
    intro hlt
    exact h4 s' e' g1 (by omega) g2
  · intro a _ hr s e g1 _
    exact refLit_none hr s e g1
  · intro s e _ hm
    exact hm.le
  · intro a a' s e _ hr g1 g2
    obtain ⟨hf, hl⟩ := refLit_iff.mp hr
    obtain ⟨h1, h2, h3, h4⟩ := findFirst_some hf
    exact refLit_iff.mpr ⟨findFirst_some_of g2 (by omega) h3 (fun j k1 k2 => h4 j (by omega) k2), hl⟩

/-! ### the automaton's contracts -/

/-- **what `Automaton.Find` does**: the occurrence it reports ENDS first among those that start at or after `a` -/
structure EndsFirstOK (find : Nat → Option Span) (lits : List Bytes) (h : Bytes) : Prop where
  some_occ : ∀ a s e, a ≤ h.size → find a = some (s, e) →
    a ≤ s ∧ LitOcc lits h s e ∧ ∀ s' e', a ≤ s' → LitOcc lits h s' e' → e ≤ e'
  none_occ : ∀ a, a ≤ h.size → find a = none → ∀ s e, a ≤ s → ¬ LitOcc lits h s e

/-- **what `Automaton.FindAt` does**: it answers iff some literal starts exactly at `p` -/
def AnchOccOK (findAt : Nat → Option Span) (lits : List Bytes) (h : Bytes) : Prop :=
  ∀ p, p < h.size → ((findAt p).isSome = true ↔ ∃ e, LitOcc lits h p e)

section
variable {find findAt : Nat → Option Span} {lits : List Bytes} {h : Bytes}

/-- (a) **in a set without nesting the occurrence that ends first IS the leftmost-first match**: an occurrence that starts earlier
    would contain it, and two literals at one start would be prefix-related (so there is ONE match per start, and the contract
    `RefOK` of the reference — leftmost start — determines its answer).  `Mt` = the pattern is the alternation of the literals. -/
theorem endsFirst_eq_ref {Mt : Bytes → Nat → Nat → Prop} {ref : Bytes → Nat → Option Span} (hn : NoNest lits)
    (E : EndsFirstOK find lits h) (R : RefOK Mt ref h) (hmt : ∀ s e, Mt h s e ↔ LitOcc lits h s e) {a : Nat} (ha : a ≤ h.size) :
    find a = ref h a := by
  cases hf : find a with
  | none =>
    exact (R.toRefSpec.none_of ha (fun s e g1 _ hm => E.none_occ a ha hf s e g1 ((hmt s e).mp hm))).symm
  | some se =>
    obtain ⟨s, e⟩ := se
    obtain ⟨h1, h2, h3⟩ := E.some_occ a s e ha hf
    have hsle := h2.le
    cases hr : ref h a with
    | none => exact absurd ((hmt s e).mpr h2) (R.ref_none a ha hr s e h1 (by omega))
    | some se0 =>
      obtain ⟨s0, e0⟩ := se0
      obtain ⟨k1, _, k3⟩ := R.ref_sound a s0 e0 ha hr
      have k3' := (hmt s0 e0).mp k3
      have hee : e ≤ e0 := h3 s0 e0 k1 k3'
      have hle : s0 ≤ s := R.ref_leftmost a s0 e0 ha hr s e h1 ((hmt s e).mpr h2)
      have hss : s0 = s := by
        apply Classical.byContradiction
        intro hne
        exact noNest_no_earlier hn h2 k3' (by omega) hee
      subst hss
      obtain ⟨l, hl, ol, rfl⟩ := h2
      obtain ⟨l0, hl0, ol0, rfl⟩ := k3'
      have := noNest_unique_at hn hl hl0 ol ol0
      subst this
      rfl

/-- (a), for the executable reference: without nesting ends-first = `refLit` -/
theorem endsFirst_eq_refLit (hn : NoNest lits) (E : EndsFirstOK find lits h) {a : Nat} (ha : a ≤ h.size) :
    find a = refLit lits h a :=
  endsFirst_eq_ref hn E (refLit_refOK lits h) (fun _ _ => Iff.rfl) ha

/-- (b) every occurrence ends at or after the reported end and is at most `maxLen` long: none starts before
    `lo = max a (e − maxLen)`; and `lo` is a legal restart position: `a ≤ lo ≤ s ≤ |h|` -/
theorem endsFirst_lo {nested : Bool} {maxLen : Nat} (S : AcSetOK lits nested maxLen) (E : EndsFirstOK find lits h) {a s e : Nat}
    (ha : a ≤ h.size) (hf : find a = some (s, e)) :
    a ≤ max a (e - maxLen) ∧ max a (e - maxLen) ≤ s ∧ s ≤ h.size ∧
    ∀ s' e', a ≤ s' → s' < max a (e - maxLen) → ¬ LitOcc lits h s' e' := by
  obtain ⟨h1, h2, h3⟩ := E.some_occ a s e ha hf
  have l1 := S.occ_len h2
  have l2 := h2.le
  refine ⟨by omega, by omega, by omega, ?_⟩
  intro s' e' g1 g2 ho
  have := h3 s' e' g1 ho
  have := S.occ_len ho
  omega

end

/-! ### `prefilter.AhoCorasickPrefilter.Find` returns the least start of an occurrence: the prefilter never skips -/

section
variable {find findAt : Bytes → Nat → Option Span} {lits : List Bytes} {h : Bytes} {nested : Bool} {maxLen : Nat}

theorem ahoPrefilterFind_some (S : AcSetOK lits nested maxLen) (E : EndsFirstOK (find h) lits h)
    (A : nested = true → AnchOccOK (findAt h) lits h) (hne : ∀ l, l ∈ lits → 0 < l.size) {a p : Nat}
    (hf : ahoPrefilterFind find findAt nested maxLen h a = some p) :
    a ≤ p ∧ p < h.size ∧ (∃ e, LitOcc lits h p e) ∧ ∀ s e, a ≤ s → s < p → ¬ LitOcc lits h s e := by
  have occ_lt : ∀ {s e : Nat}, LitOcc lits h s e → s < h.size := by
    rintro s e ⟨l, hl, ho, _⟩
    have := hne l hl
    have := ho.1
    omega
  unfold ahoPrefilterFind at hf
  by_cases hge : a ≥ h.size
  · rw [if_pos hge] at hf; cases hf
  · rw [if_neg hge] at hf
    have ha : a ≤ h.size := by omega
    cases hfd : find h a with
    | none => rw [hfd] at hf; cases hf
    | some se =>
      obtain ⟨s, e⟩ := se
      rw [hfd] at hf
      simp only at hf
      obtain ⟨h1, h2, h3⟩ := E.some_occ a s e ha hfd
      cases hnest : nested with
      | false =>
        rw [hnest] at hf
        simp only [Bool.not_false, ↓reduceIte, Option.some.injEq] at hf
        subst hf
        refine ⟨h1, occ_lt h2, ⟨e, h2⟩, ?_⟩
        intro s' e' g1 g2 ho
        exact noNest_no_earlier (S.noNest hnest) h2 ho g2 (h3 s' e' g1 ho)
      | true =>
        rw [hnest] at hf
        simp only [Bool.not_true, Bool.false_eq_true, ↓reduceIte] at hf
        obtain ⟨b1, b2, b3, b4⟩ := endsFirst_lo S E ha hfd
        have A' := A hnest
        cases hp : findFirst (fun pos => (findAt h pos).isSome) (max a (e - maxLen)) (s - max a (e - maxLen)) with
        | some q =>
          rw [hp] at hf
          simp only [Option.some.injEq] at hf
          subst hf
          obtain ⟨c1, c2, c3, c4⟩ := findFirst_some hp
          have hq : q < h.size := by omega
          refine ⟨by omega, hq, (A' q hq).mp c3, ?_⟩
          intro s' e' g1 g2 ho
          by_cases hlo : s' < max a (e - maxLen)
          · exact b4 s' e' g1 hlo ho
          · have := c4 s' (by omega) g2
            rw [(A' s' (by omega)).mpr ⟨e', ho⟩] at this
            cases this
        | none =>
          rw [hp] at hf
          simp only [Option.some.injEq] at hf
          subst hf
          refine ⟨h1, occ_lt h2, ⟨e, h2⟩, ?_⟩
          intro s' e' g1 g2 ho
          by_cases hlo : s' < max a (e - maxLen)
          · exact b4 s' e' g1 hlo ho
          · have := findFirst_none hp s' (by omega) (by omega)
            rw [(A' s' (by omega)).mpr ⟨e', ho⟩] at this
            cases this

theorem ahoPrefilterFind_none (E : EndsFirstOK (find h) lits h) (hne : ∀ l, l ∈ lits → 0 < l.size) {a : Nat}
    (hf : ahoPrefilterFind find findAt nested maxLen h a = none) : ∀ s e, a ≤ s → ¬ LitOcc lits h s e := by
  intro s e g1 ho
  unfold ahoPrefilterFind at hf
  by_cases hge : a ≥ h.size
  · obtain ⟨l, hl, ho', _⟩ := ho
    have := hne l hl
    have := ho'.1
    omega
  · rw [if_neg hge] at hf
    cases hfd : find h a with
    | none => exact E.none_occ a (by omega) hfd s e g1 ho
    | some se =>
      obtain ⟨s0, e0⟩ := se
      rw [hfd] at hf
      simp only at hf
      split at hf
      · cases hf
      · split at hf <;> cases hf

end

/-! ### non-vacuity: the brute-force ends-first automaton meets `EndsFirstOK` -/

section
variable {lits : List Bytes} {h : Bytes}

private theorem endsAt_iff (a e : Nat) :
    ((List.range (e + 1 - a)).any fun k => lits.any fun l => decide (a + k + l.size = e) && occursAt h l (a + k)) = true ↔
      ∃ s, a ≤ s ∧ LitOcc lits h s e := by
  rw [List.any_eq_true]
  constructor
  · rintro ⟨k, _, hk⟩
    rw [List.any_eq_true] at hk
    obtain ⟨l, hl, hk⟩ := hk
    simp only [Bool.and_eq_true, decide_eq_true_eq] at hk
    exact ⟨a + k, by omega, l, hl, (occursAt_iff h l _).mp hk.2, hk.1.symm⟩
  · rintro ⟨s, hs, l, hl, ho, he⟩
    refine ⟨s - a, List.mem_range.mpr (by omega), ?_⟩
    rw [List.any_eq_true]
    refine ⟨l, hl, ?_⟩
    simp only [Bool.and_eq_true, decide_eq_true_eq]
    rw [show a + (s - a) = s by omega]
    exact ⟨he.symm, (occursAt_iff h l s).mpr ho⟩

private theorem startsAt_iff (s e : Nat) :
    (lits.any fun l => decide (s + l.size = e) && occursAt h l s) = true ↔ LitOcc lits h s e := by
  rw [List.any_eq_true]
  constructor
  · rintro ⟨l, hl, hk⟩
    simp only [Bool.and_eq_true, decide_eq_true_eq] at hk
    exact ⟨l, hl, (occursAt_iff h l s).mp hk.2, hk.1.symm⟩
  · rintro ⟨l, hl, ho, he⟩
    refine ⟨l, hl, ?_⟩
    simp only [Bool.and_eq_true, decide_eq_true_eq]
    exact ⟨he.symm, (occursAt_iff h l s).mpr ho⟩

theorem endsFirst_ok (lits : List Bytes) (h : Bytes) : EndsFirstOK (endsFirst lits h) lits h := by
  refine ⟨?_, ?_⟩
  · intro a s e ha hf
    unfold endsFirst at hf
    cases he : findFirst (fun e => (List.range (e + 1 - a)).any fun k => lits.any fun l =>
        decide (a + k + l.size = e) && occursAt h l (a + k)) a (h.size + 1 - a) with
    | none => rw [he] at hf; cases hf
    | some e0 =>
      rw [he] at hf
      simp only at hf
      obtain ⟨e1, e2, e3, e4⟩ := findFirst_some he
      cases hs : findFirst (fun s => lits.any fun l => decide (s + l.size = e0) && occursAt h l s) a (e0 + 1 - a) with
      | none => rw [hs] at hf; cases hf
      | some s0 =>
        rw [hs] at hf
        simp only [Option.map_some, Option.some.injEq, Prod.mk.injEq] at hf
        obtain ⟨rfl, rfl⟩ := hf
        obtain ⟨s1, _, s3, _⟩ := findFirst_some hs
        refine ⟨s1, (startsAt_iff s0 e0).mp s3, ?_⟩
        intro s' e' g1 ho
        apply Classical.byContradiction
        intro hlt
        have hle := ho.le
        have := e4 e' (by omega) (by omega)
        rw [(endsAt_iff a e').mpr ⟨s', g1, ho⟩] at this
        cases this
  · intro a ha hf s e g1 ho
    have hle := ho.le
    unfold endsFirst at hf
    cases he : findFirst (fun e => (List.range (e + 1 - a)).any fun k => lits.any fun l =>
        decide (a + k + l.size = e) && occursAt h l (a + k)) a (h.size + 1 - a) with
    | none =>
      have := findFirst_none he e (by omega) (by omega)
      rw [(endsAt_iff a e).mpr ⟨s, g1, ho⟩] at this
      cases this
    | some e0 =>
      rw [he] at hf
      simp only [Option.map_eq_none_iff] at hf
      obtain ⟨_, _, e3, _⟩ := findFirst_some he
      obtain ⟨s0, k1, k2⟩ := (endsAt_iff a e0).mp e3
      have hle0 := k2.le
      have := findFirst_none hf s0 k1 (by omega)
      rw [(startsAt_iff s0 e0).mpr k2] at this
      cases this

/-- the anchored match computed by brute force meets `AnchOccOK` -/
theorem anchOcc_ok (lits : List Bytes) (h : Bytes) :
    AnchOccOK (fun p => if anyLitAt lits h p then some (p, p) else none) lits h := by
  intro p _
  rw [← anyLitAt_iff]
  cases hc : anyLitAt lits h p <;> simp [hc]

end

end Cx.MetaFind2
