import Cx.Spec.Utf8
/-
  Cx.Proofs.Utf8 — facts about Go's UTF-8 decoding/encoding (C15, C04, C07): decoding inverts encoding for every
  scalar value, every decode step makes progress inside the input, and a multi-byte decode result is the
  encoding of the rune it returns.  These are what makes "enumerate every code point through `encode`, plus
  every ill-formed prefix" a complete case analysis of what the byte-level automata can be fed.
-/
namespace Cx.Utf8
open Cx

/-- view a byte list as the protocol's array type -/
def ofList (l : List Nat) : Bytes := l.toArray

theorem encode_length (r : Nat) : 1 ≤ (encode r).length ∧ (encode r).length ≤ 4 := by
  sorry

theorem encode_bytes_lt (r : Nat) (hr : r ≤ maxRune) : ∀ b ∈ encode r, b < 256 := by
  sorry

/-- C15: decoding the encoding of a scalar value returns it, with the encoding's length as width,
    whatever follows it in the haystack -/
theorem decode_encode (r : Nat) (hs : isScalar r) (rest : List Nat) :
    decodeAt (ofList (encode r ++ rest)) 0 = (r, (encode r).length) := by
  sorry

/-- distinct scalar values have distinct encodings -/
theorem encode_injective (r s : Nat) (hr : isScalar r) (hs : isScalar s) (h : encode r = encode s) : r = s := by
  sorry

/-- C04/C07: inside the input a decode step always advances by 1..4 bytes and never past the end -/
theorem decode_progress (h : Bytes) (i : Nat) (hi : i < h.size) :
    1 ≤ (decodeAt h i).2 ∧ (decodeAt h i).2 ≤ 4 ∧ i + (decodeAt h i).2 ≤ h.size := by
  sorry

theorem decode_at_end (h : Bytes) (i : Nat) (hi : h.size ≤ i) : decodeAt h i = (runeError, 0) := by
  sorry

/-- the decoded rune is always a scalar value (ill-formed input yields U+FFFD, itself a scalar value) -/
theorem decode_scalar (h : Bytes) (i : Nat) (hb : ∀ k, h.at k < 256) : isScalar (decodeAt h i).1 := by
  sorry

/-- a decode of width > 1 consumed exactly the encoding of the rune it reports (well-formed sequence) -/
theorem decode_wide_is_encoding (h : Bytes) (i : Nat) (hb : ∀ k, h.at k < 256) (hw : 1 < (decodeAt h i).2) :
    (List.range (decodeAt h i).2).map (fun k => h.at (i + k)) = encode (decodeAt h i).1 := by
  sorry

/-- Go's rule for ill-formed input: width 1 and U+FFFD — unless the byte is ASCII -/
theorem decode_width_one (h : Bytes) (i : Nat) (hi : i < h.size) (hw : (decodeAt h i).2 = 1) :
    (h.at i < 128 ∧ (decodeAt h i).1 = h.at i) ∨ (128 ≤ h.at i ∧ (decodeAt h i).1 = runeError) := by
  sorry

end Cx.Utf8
