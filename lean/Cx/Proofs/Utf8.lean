import Cx.Spec.Utf8
/-
  Cx.Proofs.Utf8 — facts about Go's UTF-8 decoding/encoding (C15, C04, C07): decoding inverts encoding for every
  scalar value, every decode step makes progress inside the input, and a multi-byte decode result is the
  encoding of the rune it returns.  These are what makes "enumerate every code point through `encode`, plus
  every ill-formed prefix" a complete case analysis of what the byte-level automata can be fed.
-/
namespace Cx.Utf8
open Cx

/-- view a byte list as the protocol's array type -/
def ofList (l : List Nat) : Bytes := l.toArray

theorem encode_length (r : Nat) : 1 ≤ (encode r).length ∧ (encode r).length ≤ 4 := by
  unfold encode; repeat' split
  all_goals simp

theorem encode_bytes_lt (r : Nat) (hr : r ≤ maxRune) : ∀ b ∈ encode r, b < 256 := by
  unfold maxRune at hr
  unfold encode maxRune
  intro b hb
  repeat' split at hb
  all_goals simp at hb
  all_goals omega

theorem leadInfo_some {b sz lo hi : Nat} (h : leadInfo b = some (sz, lo, hi)) :
    0xC2 ≤ b ∧ b ≤ 0xF4 ∧ 0x80 ≤ lo ∧ hi ≤ 0xBF ∧
    ((sz = 2 ∧ b ≤ 0xDF) ∨
     (sz = 3 ∧ 0xE0 ≤ b ∧ b ≤ 0xEF ∧ (b = 0xE0 → 0xA0 ≤ lo) ∧ (b = 0xED → hi ≤ 0x9F)) ∨
     (sz = 4 ∧ 0xF0 ≤ b ∧ (b = 0xF0 → 0x90 ≤ lo) ∧ (b = 0xF4 → hi ≤ 0x8F))) := by
  unfold leadInfo at h
  repeat' split at h
  all_goals simp at h
  all_goals omega

theorem leadInfo_two {b : Nat} (h1 : 0xC2 ≤ b) (h2 : b ≤ 0xDF) : leadInfo b = some (2, 0x80, 0xBF) := by
  unfold leadInfo
  rw [if_neg (by omega), if_pos (by omega)]

theorem leadInfo_three {b : Nat} (h1 : 0xE0 ≤ b) (h2 : b ≤ 0xEF) :
    ∃ lo hi, leadInfo b = some (3, lo, hi) ∧ (b ≠ 0xE0 → lo = 0x80) ∧ lo ≤ 0xA0 ∧
      (b ≠ 0xED → hi = 0xBF) ∧ 0x9F ≤ hi := by
  unfold leadInfo
  repeat' split
  all_goals first | omega | exact ⟨_, _, rfl, by omega, by omega, by omega, by omega⟩

theorem leadInfo_four {b : Nat} (h1 : 0xF0 ≤ b) (h2 : b ≤ 0xF4) :
    ∃ lo hi, leadInfo b = some (4, lo, hi) ∧ (b ≠ 0xF0 → lo = 0x80) ∧ lo ≤ 0x90 ∧
      (b ≠ 0xF4 → hi = 0xBF) ∧ 0x8F ≤ hi := by
  unfold leadInfo
  repeat' split
  all_goals first | omega | exact ⟨_, _, rfl, by omega, by omega, by omega, by omega⟩

theorem decode1_fwd (h : Bytes) (n i : Nat) (hn : i + 1 ≤ n) (h0 : h.at i < 0x80) :
    decodeAtEnd h n i = (h.at i, 1) := by
  unfold decodeAtEnd
  rw [if_neg (by omega)]
  simp only []
  rw [if_pos h0]

theorem decode2_fwd (h : Bytes) (n i : Nat) (hn : i + 2 ≤ n)
    (h0 : 0xC2 ≤ h.at i) (h0' : h.at i ≤ 0xDF) (h1 : 0x80 ≤ h.at (i+1)) (h1' : h.at (i+1) ≤ 0xBF) :
    decodeAtEnd h n i = ((h.at i % 32) * 64 + (h.at (i+1) % 64), 2) := by
  unfold decodeAtEnd
  rw [if_neg (by omega)]
  simp only []
  rw [if_neg (by omega), leadInfo_two h0 h0']
  simp only []
  rw [if_neg (by omega), if_neg (by simp; omega)]
  simp

theorem decode3_fwd (h : Bytes) (n i : Nat) (hn : i + 3 ≤ n)
    (h0 : 0xE0 ≤ h.at i) (h0' : h.at i ≤ 0xEF) (h1 : 0x80 ≤ h.at (i+1)) (h1' : h.at (i+1) ≤ 0xBF)
    (hE0 : h.at i = 0xE0 → 0xA0 ≤ h.at (i+1)) (hED : h.at i = 0xED → h.at (i+1) ≤ 0x9F)
    (h2 : 0x80 ≤ h.at (i+2)) (h2' : h.at (i+2) ≤ 0xBF) :
    decodeAtEnd h n i = ((h.at i % 16) * 4096 + (h.at (i+1) % 64) * 64 + (h.at (i+2) % 64), 3) := by
  obtain ⟨lo, hi, hli, hlo, hlo', hhi, hhi'⟩ := leadInfo_three h0 h0'
  unfold decodeAtEnd
  rw [if_neg (by omega)]
  simp only []
  rw [if_neg (by omega), hli]
  simp only []
  rw [if_neg (by omega), if_neg (by simp; omega), if_neg (by omega),
    if_neg (by simp [isCont]; omega)]
  simp

theorem decode4_fwd (h : Bytes) (n i : Nat) (hn : i + 4 ≤ n)
    (h0 : 0xF0 ≤ h.at i) (h0' : h.at i ≤ 0xF4) (h1 : 0x80 ≤ h.at (i+1)) (h1' : h.at (i+1) ≤ 0xBF)
    (hF0 : h.at i = 0xF0 → 0x90 ≤ h.at (i+1)) (hF4 : h.at i = 0xF4 → h.at (i+1) ≤ 0x8F)
    (h2 : 0x80 ≤ h.at (i+2)) (h2' : h.at (i+2) ≤ 0xBF)
    (h3 : 0x80 ≤ h.at (i+3)) (h3' : h.at (i+3) ≤ 0xBF) :
    decodeAtEnd h n i = ((h.at i % 8) * 262144 + (h.at (i+1) % 64) * 4096 + (h.at (i+2) % 64) * 64
        + (h.at (i+3) % 64), 4) := by
  obtain ⟨lo, hi, hli, hlo, hlo', hhi, hhi'⟩ := leadInfo_four h0 h0'
  unfold decodeAtEnd
  rw [if_neg (by omega)]
  simp only []
  rw [if_neg (by omega), hli]
  simp only []
  rw [if_neg (by omega), if_neg (by simp; omega), if_neg (by omega),
    if_neg (by simp [isCont]; omega), if_neg (by omega), if_neg (by simp [isCont]; omega)]

theorem at_ofList (l : List Nat) (k : Nat) : (ofList l).at k = l.getD k 0 := by
  simp [ofList, Bytes.at]

theorem size_ofList (l : List Nat) : (ofList l).size = l.length := by
  simp [ofList]

theorem decode_encode (r : Nat) (hs : isScalar r) (rest : List Nat) :
    decodeAt (ofList (encode r ++ rest)) 0 = (r, (encode r).length) := by
  obtain ⟨hmax, hsur⟩ := hs
  unfold maxRune at hmax
  unfold decodeAt
  by_cases c1 : r < 0x80
  · have he : encode r = [r] := by unfold encode; rw [if_pos c1]
    rw [he, decode1_fwd] <;> simp [at_ofList, size_ofList] <;> omega
  · by_cases c2 : r < 0x800
    · have he : encode r = [0xC0 + r / 64, 0x80 + r % 64] := by
        unfold encode; rw [if_neg c1, if_pos c2]
      rw [he, decode2_fwd] <;> simp [at_ofList, size_ofList] <;> omega
    · have c3 : ¬ ((0xD800 ≤ r ∧ r ≤ 0xDFFF) ∨ r > maxRune) := by unfold maxRune; omega
      by_cases c4 : r < 0x10000
      · have he : encode r = [0xE0 + r / 4096, 0x80 + r / 64 % 64, 0x80 + r % 64] := by
          unfold encode; rw [if_neg c1, if_neg c2, if_neg c3, if_pos c4]
        rw [he, decode3_fwd] <;> simp [at_ofList, size_ofList] <;> omega
      · have he : encode r = [0xF0 + r / 262144, 0x80 + r / 4096 % 64, 0x80 + r / 64 % 64, 0x80 + r % 64] := by
          unfold encode; rw [if_neg c1, if_neg c2, if_neg c3, if_neg c4]
        rw [he, decode4_fwd] <;> simp [at_ofList, size_ofList] <;> omega
theorem decode_cases (h : Bytes) (n i : Nat) :
    (n ≤ i ∧ decodeAtEnd h n i = (runeError, 0)) ∨
    (i < n ∧ h.at i < 0x80 ∧ decodeAtEnd h n i = (h.at i, 1)) ∨
    (i < n ∧ 0x80 ≤ h.at i ∧ decodeAtEnd h n i = (runeError, 1)) ∨
    (i + 2 ≤ n ∧ 0xC2 ≤ h.at i ∧ h.at i ≤ 0xDF ∧ 0x80 ≤ h.at (i+1) ∧ h.at (i+1) ≤ 0xBF ∧
      decodeAtEnd h n i = ((h.at i % 32) * 64 + (h.at (i+1) % 64), 2)) ∨
    (i + 3 ≤ n ∧ 0xE0 ≤ h.at i ∧ h.at i ≤ 0xEF ∧ 0x80 ≤ h.at (i+1) ∧ h.at (i+1) ≤ 0xBF ∧
      (h.at i = 0xE0 → 0xA0 ≤ h.at (i+1)) ∧ (h.at i = 0xED → h.at (i+1) ≤ 0x9F) ∧
      0x80 ≤ h.at (i+2) ∧ h.at (i+2) ≤ 0xBF ∧
      decodeAtEnd h n i = ((h.at i % 16) * 4096 + (h.at (i+1) % 64) * 64 + (h.at (i+2) % 64), 3)) ∨
    (i + 4 ≤ n ∧ 0xF0 ≤ h.at i ∧ h.at i ≤ 0xF4 ∧ 0x80 ≤ h.at (i+1) ∧ h.at (i+1) ≤ 0xBF ∧
      (h.at i = 0xF0 → 0x90 ≤ h.at (i+1)) ∧ (h.at i = 0xF4 → h.at (i+1) ≤ 0x8F) ∧
      0x80 ≤ h.at (i+2) ∧ h.at (i+2) ≤ 0xBF ∧ 0x80 ≤ h.at (i+3) ∧ h.at (i+3) ≤ 0xBF ∧
      decodeAtEnd h n i = ((h.at i % 8) * 262144 + (h.at (i+1) % 64) * 4096 + (h.at (i+2) % 64) * 64
        + (h.at (i+3) % 64), 4)) := by
  unfold decodeAtEnd
  by_cases h0 : i ≥ n
  · simp [h0]
  · rw [if_neg h0]
    simp only []
    by_cases h1 : h.at i < 0x80
    · simp [h1]; omega
    · rw [if_neg h1]
      cases hli : leadInfo (h.at i) with
      | none => simp; omega
      | some t =>
        obtain ⟨sz, lo, hi⟩ := t
        have hl := leadInfo_some hli
        simp only []
        by_cases h2 : n - i < sz
        · simp [h2]; omega
        · rw [if_neg h2]
          by_cases h3 : (h.at (i+1) < lo || hi < h.at (i+1)) = true
          · simp [h3]; omega
          · rw [if_neg h3]
            simp at h3
            by_cases h4 : sz = 2
            · simp [h4]; omega
            · rw [if_neg h4]
              by_cases h5 : (!isCont (h.at (i+2))) = true
              · simp [h5]; omega
              · rw [if_neg h5]
                simp [isCont] at h5
                by_cases h6 : sz = 3
                · simp [h6]; omega
                · rw [if_neg h6]
                  by_cases h7 : (!isCont (h.at (i+3))) = true
                  · simp [h7]; omega
                  · rw [if_neg h7]
                    simp [isCont] at h7
                    simp; omega

/-- distinct scalar values have distinct encodings -/
theorem encode_injective (r s : Nat) (hr : isScalar r) (hs : isScalar s) (h : encode r = encode s) : r = s := by
  have h1 := decode_encode r hr []
  have h2 := decode_encode s hs []
  rw [h, h2] at h1
  exact (congrArg Prod.fst h1).symm

/-- C04/C07: inside the input a decode step always advances by 1..4 bytes and never past the end -/
theorem decode_progress (h : Bytes) (i : Nat) (hi : i < h.size) :
    1 ≤ (decodeAt h i).2 ∧ (decodeAt h i).2 ≤ 4 ∧ i + (decodeAt h i).2 ≤ h.size := by
  unfold decodeAt
  rcases decode_cases h h.size i with ⟨a, e⟩ | ⟨a, b, e⟩ | ⟨a, b, e⟩ | ⟨a, b, b', c, c', e⟩ | ⟨a, b, b', c, c', hE0, hED, d, d', e⟩ |
    ⟨a, b, b', c, c', hF0, hF4, d, d', f, f', e⟩
  all_goals rw [e]
  all_goals simp only []
  all_goals omega

theorem decode_at_end (h : Bytes) (i : Nat) (hi : h.size ≤ i) : decodeAt h i = (runeError, 0) := by
  unfold decodeAt decodeAtEnd
  rw [if_pos hi]

/-- the decoded rune is always a scalar value (ill-formed input yields U+FFFD, itself a scalar value) -/
theorem decode_scalar (h : Bytes) (i : Nat) (hb : ∀ k, h.at k < 256) : isScalar (decodeAt h i).1 := by
  have _ := hb  -- not needed: the lead-byte table already bounds every branch
  unfold decodeAt isScalar maxRune
  rcases decode_cases h h.size i with ⟨a, e⟩ | ⟨a, b, e⟩ | ⟨a, b, e⟩ | ⟨a, b, b', c, c', e⟩ | ⟨a, b, b', c, c', hE0, hED, d, d', e⟩ |
    ⟨a, b, b', c, c', hF0, hF4, d, d', f, f', e⟩
  all_goals rw [e]
  all_goals simp only [runeError]
  all_goals omega

/-- a decode of width > 1 consumed exactly the encoding of the rune it reports (well-formed sequence) -/
theorem decode_wide_is_encoding (h : Bytes) (i : Nat) (hb : ∀ k, h.at k < 256) (hw : 1 < (decodeAt h i).2) :
    (List.range (decodeAt h i).2).map (fun k => h.at (i + k)) = encode (decodeAt h i).1 := by
  have _ := hb  -- not needed: the accept ranges already bound the consumed bytes
  unfold decodeAt at hw ⊢
  rcases decode_cases h h.size i with ⟨a, e⟩ | ⟨a, b, e⟩ | ⟨a, b, e⟩ | ⟨a, b, b', c, c', e⟩ | ⟨a, b, b', c, c', hE0, hED, d, d', e⟩ |
    ⟨a, b, b', c, c', hF0, hF4, d, d', f, f', e⟩
  all_goals rw [e] at hw ⊢
  all_goals simp only [] at hw ⊢
  · omega
  · omega
  · omega
  · have r2 : List.range 2 = [0, 1] := by decide
    rw [r2]
    unfold encode
    rw [if_neg (by omega), if_pos (by omega)]
    simp only [List.map, Nat.add_zero]
    congr 1
    · omega
    · congr 1; omega
  · have r3 : List.range 3 = [0, 1, 2] := by decide
    rw [r3]
    unfold encode
    rw [if_neg (by omega), if_neg (by omega), if_neg (by unfold maxRune; omega), if_pos (by omega)]
    simp only [List.map, Nat.add_zero]
    congr 1
    · omega
    · congr 1
      · omega
      · congr 1; omega
  · have r4 : List.range 4 = [0, 1, 2, 3] := by decide
    rw [r4]
    unfold encode
    rw [if_neg (by omega), if_neg (by omega), if_neg (by unfold maxRune; omega), if_neg (by omega)]
    simp only [List.map, Nat.add_zero]
    congr 1
    · omega
    · congr 1
      · omega
      · congr 1
        · omega
        · congr 1; omega

/-- Go's rule for ill-formed input: width 1 and U+FFFD — unless the byte is ASCII -/
theorem decode_width_one (h : Bytes) (i : Nat) (hi : i < h.size) (hw : (decodeAt h i).2 = 1) :
    (h.at i < 128 ∧ (decodeAt h i).1 = h.at i) ∨ (128 ≤ h.at i ∧ (decodeAt h i).1 = runeError) := by
  have _ := hi  -- not needed: at/after the end the width is 0, contradicting `hw`
  unfold decodeAt at hw ⊢
  rcases decode_cases h h.size i with ⟨a, e⟩ | ⟨a, b, e⟩ | ⟨a, b, e⟩ | ⟨a, b, b', c, c', e⟩ | ⟨a, b, b', c, c', hE0, hED, d, d', e⟩ |
    ⟨a, b, b', c, c', hF0, hF4, d, d', f, f', e⟩
  all_goals rw [e] at hw ⊢
  all_goals simp only [] at hw ⊢
  · omega
  · exact Or.inl ⟨b, trivial⟩
  · exact Or.inr ⟨b, trivial⟩
  all_goals omega

end Cx.Utf8
