import Cx.Proofs.MetaFind
import Cx.Proofs.RevSuffixDfa
import Cx.Proofs.RevInnerInst
/-
  Cx.Proofs.MetaFindInst — the core dispatch with the REAL component models plugged in:

    Mt   := Accepts N                      (path relation of the compiled automaton, `Cx.Model.Nfa`)
    ref  := btSearchAt N                   (the reference leftmost-first search = the bounded-backtracker model)
    fwdSearchAt / fwdFindAt := the forward lazy DFA's uncached search `Dfa.apiSearchAtU N cfg`   (`Dfa.searchAtU_eq_bt'`)
    fwdSearchAtAnchored := `Dfa.apiSearchAtAnchoredU N cfg`                                      (`Dfa.anchoredU_eq_bt'`)
    fwdIsMatchAt := `Dfa.apiIsMatchAtU N cfg`                                                    (`Dfa.earliestU_eq_bt'`)
    revSearch := the reverse lazy DFA's uncached `SearchReverse` (`Dfa.searchReverseU`, `Cx.Model.DfaRev`) run on the model of
                 `nfa.ReverseAnchored(N)` (`Rev.reverse N true`: what `buildReverseDFA`, meta/compile.go:201/211, compiles), with
                 `BreakAtMatch = false`                                                           (`RevSuffix.reverse_search_leftmost_start`)
    pike := `Pike.searchAt N · · false`    (`Pike.search_eq_bt`),   bt := `btSearchAt N` (the reference itself),
    btSlice := `btSearchAt N` on the sliced haystack;  the prefilter is a parameter.

    realOracles_ref, realOracles_bi, …      the contracts of `Cx.Proofs.MetaFind` hold for these components
    C02_bidirectional_dfa_eq_reference_closed
        bidirectional (realOracles N cfg rcfg pf) P h at = btSearchAt N h at
    C02_findIndicesDFAAt_eq_reference_closed (no prefilter), C02_metaFind_closed_instance (`[a-z]+z`, every hypothesis decided)

  Hypotheses left: `RevSuffix.NfaHyp N cfg` (decidable, on the forward automaton and the forward DFA's configuration),
  `rcfg.breakAtMatch = false`, `Dfa.BytesOK h`, `at ≤ |h|`, and that the engine's `IsAlwaysAnchored()` flag is the automaton's.
-/
namespace Cx.MetaFind
open Cx Cx.Nfa
open Cx.RevSuffix (NfaHyp RevAnswer)

/-- `nfa.ReverseAnchored(nfaEngine)` (meta/compile.go, `buildReverseDFA`) -/
abbrev revNfa (N : NFA) : NFA := Rev.reverse N true

/-- `e.reverseDFA.SearchReverse(cache, haystack, start, end)` without a cache (`< 0` = `none`) -/
def revOracle (N : NFA) (rcfg : Dfa.Config) : Bytes → Nat → Nat → Option Nat :=
  fun h lo e => (Dfa.searchReverseU (revNfa N) rcfg h lo e).toOption

/-- the dispatch over the component models; the prefilter is a parameter (`FindMatch` and the ASCII backtracker are absent) -/
def realOracles (N : NFA) (cfg rcfg : Dfa.Config) (pf : Bytes → Nat → Option Nat) : Oracles where
  pfFind := pf
  pfFindMatch := fun _ _ => none
  fwdSearchAt := RevSuffix.fwdOracle N cfg
  fwdSearchAtAnchored := RevInner.anchOracle N cfg
  fwdIsMatchAt := RevInner.isMatchOracle N cfg
  fwdFindAt := RevSuffix.fwdOracle N cfg
  revSearch := revOracle N rcfg
  pike := fun h a => Pike.searchAt N h a false
  btCanHandle := fun _ => true
  bt := btSearchAt N
  btSlice := fun h lo hi => btSearchAt N (h.extract lo hi) 0
  btMaxInput := 0
  asciiCanHandle := fun _ => true
  asciiSlice := fun h lo hi => btSearchAt N (h.extract lo hi) 0
  asciiMaxInput := 0
  firstByteOK := fun _ => true
  pikeIsMatch := fun h => (Pike.searchAt N h 0 false).isSome
  btIsMatch := fun h => (btSearchAt N h 0).isSome
  dfaCacheNearlyFull := fun _ => false

section
variable {N : NFA} {cfg rcfg : Dfa.Config} {pf : Bytes → Nat → Option Nat}

/-- the reference contracts hold for `btSearchAt` -/
theorem realOracles_ref (H : NfaHyp N cfg) (h : Bytes) : RefOK (Accepts N) (btSearchAt N) h := by
  have hd := Dfa.sparseDisjoint_of_B H.sd
  have hR : Pike.RuneOK N h := Or.inl (Dfa.noRune_of_B H.rev.nr)
  exact {
    ref_sound := by
      intro a s e _ hr
      obtain ⟨b1, b2, b3, b4⟩ := btSearchAt_sound N h a s e hr
      exact ⟨b1, by omega, b4⟩
    ref_leftmost := by
      intro a s e ha hr s' e' g1 g2
      apply Classical.byContradiction
      intro hlt
      exact (btSearchAt_leftmost N h a ha).1 s e hr s' e' g1 (by omega) g2
    ref_none := fun a ha hr s e g1 g2 => (btSearchAt_leftmost N h a ha).2 hr s e g1 g2
    mt_le := fun s e hs ha => reaches_pos_le ha hs
    restart := fun a a' s e ha hr g1 g2 => RevSuffix.btSearchAt_restart hd hR ha hr g1 g2 }

theorem fwdOracle_eq (H : NfaHyp N cfg) {h : Bytes} (hb : Dfa.BytesOK h) {a : Nat} (ha : a ≤ h.size) :
    RevSuffix.fwdOracle N cfg h a = (btSearchAt N h a).map (·.2) := by
  unfold RevSuffix.fwdOracle
  have hok : Dfa.apiSearchAtU N cfg h a = .ok ((btSearchAt N h a).map (·.2)) := by
    by_cases hlt : a < h.size
    · unfold Dfa.apiSearchAtU
      rw [if_neg (by omega), if_neg (by omega)]
      exact Dfa.searchAtU_eq_bt' H.rev.wf H.rev.nr H.sd H.pre cfg H.brk H.lim hb ha
    · have : a = h.size := by omega
      subst this
      exact Dfa.apiSearchAtU_end N cfg h
  rw [hok]

/-- what the reverse lazy-DFA model delivers on `nfa.ReverseAnchored(N)`: the least start of a match of `N` ending at `e` -/
theorem revOracle_spec (H : NfaHyp N cfg) (hbrk : rcfg.breakAtMatch = false) (h : Bytes) {lo e : Nat} (hlt : lo < e)
    (he : e ≤ h.size) :
    ∃ o, revOracle N rcfg h lo e = o ∧ Dfa.LeastIn (fun s => Accepts N h s e) lo e o := by
  obtain ⟨o, ho, hl⟩ := RevSuffix.reverse_search_leftmost_start H.rev true hbrk h hlt he
  have hS := Pike.sparseDet_of_disjoint (Dfa.sparseDisjoint_of_B H.sd)
  refine ⟨o, ?_, hl.congr (fun s _ _ => Rev.acceptsA_iff_accepts hS h s e)⟩
  unfold revOracle revNfa
  rw [ho]
  cases o <;> rfl

/-- **the contracts of the two-pass search hold for the forward and reverse lazy-DFA models** -/
theorem realOracles_bi (H : NfaHyp N cfg) (hbrk : rcfg.breakAtMatch = false) {h : Bytes} (hb : Dfa.BytesOK h) :
    BiOK (realOracles N cfg rcfg pf) (Accepts N) (btSearchAt N) h := by
  refine ⟨fun a ha => fwdOracle_eq H hb ha, ?_, ?_⟩
  · intro lo e s hlt he hr
    obtain ⟨o, ho, hl⟩ := revOracle_spec (rcfg := rcfg) H hbrk h hlt he
    have : o = some s := by rw [← ho]; exact hr
    subst this
    obtain ⟨l1, l2, l3, l4⟩ := hl
    refine ⟨l1, l3, ?_⟩
    intro s' g1 _ g3
    apply Classical.byContradiction
    intro hc
    exact l4 s' g1 (by omega) g3
  · intro lo e s hlt he hlo hs hm
    obtain ⟨o, ho, hl⟩ := revOracle_spec (rcfg := rcfg) H hbrk h hlt he
    show (revOracle N rcfg h lo e).isSome = true
    rw [ho]
    cases o with
    | some x => rfl
    | none => exact absurd hm (hl s hlo (reaches_pos_le hm hs).1)

theorem realOracles_pike (H : NfaHyp N cfg) (h : Bytes) {a : Nat} (ha : a ≤ h.size) :
    (realOracles N cfg rcfg pf).pike h a = btSearchAt N h a :=
  Pike.search_eq_bt H.una (Dfa.sparseDisjoint_of_B H.sd) (Or.inl (Dfa.noRune_of_B H.rev.nr)) ha

theorem alwaysAnchored_false (H : NfaHyp N cfg) : Dfa.alwaysAnchored N = false := H.una

/-- **the two-pass bidirectional DFA search over the component MODELS ONLY is the reference search**: forward lazy DFA
    (`SearchAt`), reverse lazy DFA (`SearchReverse` on `nfa.ReverseAnchored(N)`, `BreakAtMatch = false`) -/
theorem C02_bidirectional_dfa_eq_reference_closed (H : NfaHyp N cfg) (hbrk : rcfg.breakAtMatch = false) {P : Params}
    (hP : P.alwaysAnchored = Dfa.alwaysAnchored N) {h : Bytes} (hb : Dfa.BytesOK h) {at_ : Nat} (hat : at_ ≤ h.size) :
    bidirectional (realOracles N cfg rcfg pf) P h at_ = btSearchAt N h at_ :=
  bidirectional_eq_ref (realOracles_ref H h) (realOracles_bi H hbrk hb)
    (fun ha => by rw [hP, alwaysAnchored_false H] at ha; cases ha) hat

theorem C02_bidirectionalLongest_eq_reference_closed (H : NfaHyp N cfg) (hbrk : rcfg.breakAtMatch = false)
    {h : Bytes} (hb : Dfa.BytesOK h) {at_ : Nat} (hat : at_ ≤ h.size) :
    bidirectionalLongest (realOracles N cfg rcfg pf) h at_ = btSearchAt N h at_ :=
  bidirectionalLongest_eq_ref (realOracles_ref H h) (realOracles_bi H hbrk hb) hat

/-- **all component contracts hold for the real models** (prefilter: relative to `PfOK`; no complete prefilter, no `FindMatch`,
    the backtrackers are the reference search itself) -/
theorem realOracles_ok (H : NfaHyp N cfg) (hbrk : rcfg.breakAtMatch = false) {P : Params}
    (hP : P.alwaysAnchored = Dfa.alwaysAnchored N) (hcomp : P.pfComplete = false) (hfm : P.pfHasFindMatch = false)
    {h : Bytes} (hb : Dfa.BytesOK h) (hpf : P.hasPrefilter = true → PfOK (realOracles N cfg rcfg pf) (Accepts N) h) :
    OraclesOK (realOracles N cfg rcfg pf) P (Accepts N) (btSearchAt N) h :=
  { toRefOK := realOracles_ref H h
    pike := fun _ ha => realOracles_pike H h ha
    pf := fun hp _ => hpf hp
    pfc := fun _ hc => by rw [hcomp] at hc; cases hc
    pfm := fun _ hm => by rw [hfm] at hm; cases hm
    bi := fun _ _ => realOracles_bi H hbrk hb
    im := by
      intro _ a ha hs
      show RevInner.isMatchOracle N cfg h a = true
      rw [RevInner.isMatchOracle_eq H hb ha]
      exact hs
    bt := fun _ _ _ _ => rfl
    sl := fun _ => ⟨fun _ _ _ _ _ => rfl, fun _ _ _ _ _ _ => rfl⟩
    fb := by
      intro hr
      unfold firstByteRejects at hr
      simp [realOracles] at hr
    anchored := fun ha => by rw [hP, alwaysAnchored_false H] at ha; cases ha }

/-- **the dispatch of `FindIndicesAt` over the component MODELS ONLY is the reference search** (strategies UseNFA / UseDFA /
    UseBoth / UseBoundedBacktracker, under the flag hypotheses `StratFlags` of the strategy at hand) -/
theorem C02_metaFind_dispatch_closed (H : NfaHyp N cfg) (hbrk : rcfg.breakAtMatch = false) {P : Params}
    (hP : P.alwaysAnchored = Dfa.alwaysAnchored N) (hcomp : P.pfComplete = false) (hfm : P.pfHasFindMatch = false)
    {h : Bytes} (hb : Dfa.BytesOK h) (hpf : P.hasPrefilter = true → PfOK (realOracles N cfg rcfg pf) (Accepts N) h)
    (st : Strategy) {at_ : Nat} (hat : at_ ≤ h.size)
    (hf : StratFlags (realOracles N cfg rcfg pf) P (btSearchAt N) h at_ st) :
    findIndicesAt (realOracles N cfg rcfg pf) P st h at_ = btSearchAt N h at_ :=
  findIndicesAt_eq_ref (realOracles_ok H hbrk hP hcomp hfm hb hpf) st hat hf

/-- `findIndicesDFAAt` without a prefilter, closed: forward + reverse lazy DFA, or `IsMatchAt` + Pike VM -/
theorem C02_findIndicesDFAAt_eq_reference_closed (H : NfaHyp N cfg) (hbrk : rcfg.breakAtMatch = false) {P : Params}
    (hP : P.alwaysAnchored = Dfa.alwaysAnchored N) (hl : P.longest = false) (hnp : P.hasPrefilter = false)
    {h : Bytes} (hb : Dfa.BytesOK h) {at_ : Nat} (hat : at_ ≤ h.size) :
    findIndicesDFAAt (realOracles N cfg rcfg pf) P h at_ = btSearchAt N h at_ :=
  findIndicesDFAAt_eq_ref (realOracles_ref H h) hl (fun _ ha => realOracles_pike H h ha)
    (fun hp => by rw [hnp] at hp; cases hp) (fun _ => realOracles_bi H hbrk hb)
    (fun _ _ a ha hs => by
      show RevInner.isMatchOracle N cfg h a = true
      rw [RevInner.isMatchOracle_eq H hb ha]; exact hs)
    (fun ha => by rw [hP, alwaysAnchored_false H] at ha; cases ha) hat

/-- **`[a-z]+z`, closed** (the automaton the real compiler emits, every hypothesis decided): `FindIndicesAt` of the UseDFA
    strategy — forward lazy-DFA model, reverse lazy-DFA model on the model of `nfa.ReverseAnchored`, `BreakAtMatch = false` —
    returns the reference's span on every haystack of bytes, from every offset -/
theorem C02_metaFind_closed_instance {h : Bytes} (hb : Dfa.BytesOK h) {at_ : Nat} (hat : at_ ≤ h.size) :
    findIndicesAt (realOracles RevSuffix.exAzZ Dfa.Config.plain (RevSuffix.revConfig Dfa.Config.plain) (fun _ _ => none))
      { hasDFA := true, hasReverseDFA := true } Strategy.dfa h at_ = btSearchAt RevSuffix.exAzZ h at_ :=
  C02_metaFind_dispatch_closed RevSuffix.exAzZ_hyp rfl (by decide) rfl rfl hb (fun hp => by cases hp) Strategy.dfa hat
    ⟨rfl, ⟨(fun hp => by cases hp), rfl⟩⟩

end
end Cx.MetaFind
