import Cx.Proofs.Fast
/-
  Cx.Proofs.FastCex — FINDINGS as theorems: concrete inputs on which a fast-path searcher that its own applicability
  predicate accepts disagrees with the specification (all by `decide`; kernel evaluation of the models, hence the raised
  `maxRecDepth` — the 256-entry tables are built by `Array.ofFn`).
  FIXED findings (`…_fixed`): the same witnesses, now with the theorem that the applicability predicate REJECTS the
  pattern (lazy `cls+?`, lazy / `{0}` / non-ASCII composite part, case-folded anchored literal) or that the matcher now
  answers what the reference matcher answers (`.` vs `\n`, Latin-1 literal; the first-byte set of a case-folded or
  non-ASCII literal / class) — the general exactness theorems of Cx.Proofs.Fast no longer carry the corresponding
  hypotheses.  The first-byte filter's former defect (a zero-width assertion in first position added no byte but left
  the set complete) is fixed too: its four witnesses are `…_fixed` theorems now (the set is `nil`, or contains the byte);
  what is left are the witnesses of the two side conditions of `fbFrag` (`firstBytes_runeError_counterexample`: a
  property of the reference semantics; `firstBytes_negativeMin_needed`: a parser invariant).
  The reference for "the correct answer" is the fragment specification where one exists (`plusFind`, `compFind` over
  `astParts`, `anchoredSpecB`) and the general leftmost-first reference matcher `Ref.refFind` otherwise; both are
  checked against Go's stdlib `regexp` by the harness.
-/
namespace Cx.Fast
open Cx Cx.Fast.Spec

set_option maxRecDepth 1000000 in
/-- FIXED (was: lazy quantifier ignored): `[a-c]+?` is no longer accepted by `IsSimpleCharClassPlus`
    (`ExtractCharClassRanges` returns nil on `NonGreedy`), so no searcher is built for it; its greedy twin `[a-c]+` still
    is, and answers the reference result.  (Leftmost-first semantics of `[a-c]+?` on "ab" is `(0,1)`, the searcher
    would have said `(0,2)`.) -/
theorem charClassSearcher_lazy_fixed :
    let re := Re.plusOf (Re.cls [97, 99]) (lazy := true)
    let reG := Re.plusOf (Re.cls [97, 99])
    isSimpleCharClassPlus re = false ∧ extractCharClassRanges re = none ∧
    (buildCharClassSearcher re).isNone = true ∧
    Ref.refFind re #[97, 98] 0 = some (0, 1) ∧
    isSimpleCharClassPlus reG = true ∧
    (buildCharClassSearcher reG).map (fun s => s.searchAt #[97, 98] 0) = some (some (0, 2)) ∧
    Ref.refFind reG #[97, 98] 0 = some (0, 2) := by
  decide

set_option maxRecDepth 1000000 in
/-- FIXED (was: lazy quantifiers ignored): `[a-b]+?[b-c]*` is no longer accepted by `IsCompositeCharClassPattern`
    (`isValidCompositePart` rejects a `NonGreedy` part).  The searcher itself is unchanged — `NewCompositeSearcher` would
    still build one and it would still answer the greedy `(0,2)` on "aa" where leftmost-first semantics is `(0,1)` — it is
    just never selected for such a pattern. -/
theorem compositeSearcher_lazy_fixed :
    let re := Re.cat [Re.plusOf (Re.cls [97, 98]) (lazy := true), Re.starOf (Re.cls [98, 99])]
    isCompositeCharClassPattern re = false ∧ ¬ AllGreedy re ∧
    (newCompositeSearcher re).map (fun c => c.searchAt #[97, 97] 0) = some (some (0, 2)) ∧
    (astParts re).map (fun ps => compFind ps #[97, 97] 0) = some (some (0, 1)) ∧
    Ref.refFind re #[97, 97] 0 = some (0, 1) := by
  decide

set_option maxRecDepth 1000000 in
/-- FIXED (was: `maxMatch = 0` means "unlimited"): `[a-b]{0}[b-c]+` is no longer accepted
    (`isValidCompositePart` rejects `OpRepeat` with `Max == 0`).  The searcher would still read `{0}` as unbounded
    ("ab": `(0,2)`, semantics `(1,2)`), but is never selected for it. -/
theorem compositeSearcher_zeroMax_fixed :
    let re := Re.cat [Re.repOf (Re.cls [97, 98]) 0 0, Re.plusOf (Re.cls [98, 99])]
    isCompositeCharClassPattern re = false ∧ AllGreedy re ∧ ¬ NoZeroMax re ∧
    (newCompositeSearcher re).map (fun c => c.searchAt #[97, 98] 0) = some (some (0, 2)) ∧
    (astParts re).map (fun ps => compFind ps #[97, 98] 0) = some (some (1, 2)) ∧
    Ref.refFind re #[97, 98] 0 = some (1, 2) := by
  decide

set_option maxRecDepth 1000000 in
/-- FIXED (was: `.` matches `\\n`): `^a.*b$` on "a\\nb": the matcher now says `false` (`wildcardOK` finds the newline in
    the wildcard span), as the specification and the reference matcher do; the `(?s)` twin `^a(?s:.)*b$` records
    `WildcardMatchesNewline` and still matches. -/
theorem anchoredLiteral_newline_fixed :
    let re := Re.cat [Re.leaf .beginText, Re.lit [97], Re.starOf (Re.leaf .anyCharNotNL), Re.lit [98], Re.leaf .endText]
    let reS := Re.cat [Re.leaf .beginText, Re.lit [97], Re.starOf (Re.leaf .anyChar), Re.lit [98], Re.leaf .endText]
    wildcardDotNL re = false ∧
    (detectAnchoredLiteral re).map (fun info => info.wildcardMatchesNewline) = some false ∧
    (detectAnchoredLiteral re).map (fun info => matchAnchoredLiteral #[97, 10, 98] info) = some false ∧
    (detectAnchoredLiteral re).map (fun info => anchoredSpecB (wildcardDotNL re) info #[97, 10, 98]) = some false ∧
    Ref.refFind re #[97, 10, 98] 0 = none ∧
    wildcardDotNL reS = true ∧
    (detectAnchoredLiteral reS).map (fun info => info.wildcardMatchesNewline) = some true ∧
    (detectAnchoredLiteral reS).map (fun info => matchAnchoredLiteral #[97, 10, 98] info) = some true ∧
    Ref.refFind reS #[97, 10, 98] 0 = some (0, 3) := by
  decide

set_option maxRecDepth 1000000 in
/-- the class-bridge form of the same fix: `^a.*[b\\n]+c$` — the matcher tests the SHORTEST wildcard span (what is left of
    the longest class run): "a\\n\\nc" matches (both newlines belong to the class run, the wildcard is empty),
    "a\\nxbc" does not (the newline is left of the run "b"). -/
theorem anchoredLiteral_bridge_newline_fixed :
    let re := Re.cat [Re.leaf .beginText, Re.lit [97], Re.starOf (Re.leaf .anyCharNotNL),
                      Re.plusOf (Re.cls [10, 10, 98, 98]), Re.lit [99], Re.leaf .endText]
    (detectAnchoredLiteral re).map (fun info => matchAnchoredLiteral #[97, 10, 10, 99] info) = some true ∧
    Ref.refFind re #[97, 10, 10, 99] 0 = some (0, 4) ∧
    (detectAnchoredLiteral re).map (fun info => matchAnchoredLiteral #[97, 10, 120, 98, 99] info) = some false ∧
    Ref.refFind re #[97, 10, 120, 98, 99] 0 = none := by
  decide

/-! ### BranchDispatcher: all former findings FIXED (nfa/branch_dispatch.go rewritten)

  `hasFold` (the model's stand-in for `unicode.SimpleFold(r) != r`) is instantiated with `Ref.isAsciiLetter`, the least
  parameter satisfying `FoldSound`; every pattern below contains ASCII runes only, where it agrees with the real function. -/

/-- `\A` followed by the capture group `(b1|b2|…)` -/
def bdPat (branches : List Re) : Re := Re.cat [Re.leaf .beginText, Re.cap (Re.alt branches)]

theorem foldSound_isAsciiLetter : FoldSound Ref.isAsciiLetter := fun _ h => h

set_option maxRecDepth 1000000 in
/-- FIXED (was: everything after the alternation is ignored): `^(ab|cd)e` and `^(foo|bar|qux)e` are no longer accepted
    (the pattern must be EXACTLY `\A` + alternation), and meta builds no dispatcher for them; the same alternation
    without the trailing `e` still is accepted. -/
theorem branchDispatch_trailing_fixed :
    let re := Re.cat [Re.leaf .beginText, Re.cap (Re.alt [Re.lit [97, 98], Re.lit [99, 100]]), Re.lit [101]]
    let re2 := Re.cat [Re.leaf .beginText,
      Re.cap (Re.alt [Re.lit [102, 111, 111], Re.lit [98, 97, 114], Re.lit [113, 117, 120]]), Re.lit [101]]
    let reOK := bdPat [Re.lit [97, 98], Re.lit [99, 100]]
    isBranchDispatchPattern Ref.isAsciiLetter re = false ∧ (metaBranchDispatcher Ref.isAsciiLetter re).isNone = true ∧
    Ref.refFind re #[97, 98, 120] 0 = none ∧
    isBranchDispatchPattern Ref.isAsciiLetter re2 = false ∧ (metaBranchDispatcher Ref.isAsciiLetter re2).isNone = true ∧
    isBranchDispatchPattern Ref.isAsciiLetter reOK = true ∧
    (metaBranchDispatcher Ref.isAsciiLetter reOK).map (fun d => d.search #[97, 98, 120]) = some (some (0, 2)) ∧
    Ref.refFind reOK #[97, 98, 120] 0 = some (0, 2) := by
  decide

set_option maxRecDepth 1000000 in
/-- FIXED (was: only the leading literal of a concatenation branch is checked): `^(a[bc]|d)` is still accepted, but the
    branch is now the two steps `{a} {b,c}`: "ax" does not match, "ac" does — as the reference matcher says. -/
theorem branchDispatch_concat_fixed :
    let re := bdPat [Re.cat [Re.lit [97], Re.cls [98, 99]], Re.lit [100]]
    isBranchDispatchPattern Ref.isAsciiLetter re = true ∧
    (metaBranchDispatcher Ref.isAsciiLetter re).map (fun d => d.search #[97, 120]) = some none ∧
    Ref.refFind re #[97, 120] 0 = none ∧
    (metaBranchDispatcher Ref.isAsciiLetter re).map (fun d => d.search #[97, 99, 120]) = some (some (0, 2)) ∧
    Ref.refFind re #[97, 99, 120] 0 = some (0, 2) := by
  decide

set_option maxRecDepth 1000000 in
/-- FIXED (was: "conservative" fallback `return 0, 1, true`): there is no fallback any more.  `^([ab][bc]|d)` on "a": no
    match; `^(a+|b)` on "aa": `(0,2)` (a literal under `+` is a one-step element, the repetition is the tail). -/
theorem branchDispatch_fallback_fixed :
    let re1 := bdPat [Re.cat [Re.cls [97, 98], Re.cls [98, 99]], Re.lit [100]]
    let re2 := bdPat [Re.plusOf (Re.lit [97]), Re.lit [98]]
    (isBranchDispatchPattern Ref.isAsciiLetter re1 = true ∧
     (metaBranchDispatcher Ref.isAsciiLetter re1).map (fun d => d.search #[97]) = some none ∧
     Ref.refFind re1 #[97] 0 = none ∧
     (metaBranchDispatcher Ref.isAsciiLetter re1).map (fun d => d.search #[97, 99]) = some (some (0, 2)) ∧
     Ref.refFind re1 #[97, 99] 0 = some (0, 2)) ∧
    (isBranchDispatchPattern Ref.isAsciiLetter re2 = true ∧
     (metaBranchDispatcher Ref.isAsciiLetter re2).map (fun d => d.search #[97, 97]) = some (some (0, 2)) ∧
     Ref.refFind re2 #[97, 97] 0 = some (0, 2)) := by
  decide

set_option maxRecDepth 1000000 in
/-- FIXED (was: `FoldCase` ignored): `(?i)^(ab|cd)` and `(?i)^(foo|bar|qux)` (literals stored folded, "AB", "FOO", …) are
    rejected — a `FoldCase` literal is only accepted when none of its runes has a case variant, e.g. `(?i)^(12|34)`, on
    which folding is the identity. -/
theorem branchDispatch_foldCase_fixed :
    let re := bdPat [Re.litFold [65, 66], Re.litFold [67, 68]]
    let re2 := bdPat [Re.litFold [70, 79, 79], Re.litFold [66, 65, 82], Re.litFold [81, 85, 88]]
    let reDigits := bdPat [Re.litFold [49, 50], Re.litFold [51, 52]]
    isBranchDispatchPattern Ref.isAsciiLetter re = false ∧ (metaBranchDispatcher Ref.isAsciiLetter re).isNone = true ∧
    Ref.refFind re #[97, 98] 0 = some (0, 2) ∧
    isBranchDispatchPattern Ref.isAsciiLetter re2 = false ∧
    isBranchDispatchPattern Ref.isAsciiLetter reDigits = true ∧
    (metaBranchDispatcher Ref.isAsciiLetter reDigits).map (fun d => d.search #[51, 52, 53]) = some (some (0, 2)) ∧
    Ref.refFind reDigits #[51, 52, 53] 0 = some (0, 2) := by
  decide

set_option maxRecDepth 1000000 in
/-- FIXED (was: lazy quantifier ignored): `^(\d+?|UUID|hex32)` is rejected (a variable-count repetition must be greedy);
    on "11" leftmost-first semantics is `(0,1)`, the old dispatcher said `(0,2)`.  A lazy FIXED count `\d{2}?` has no
    choice to make and is accepted. -/
theorem branchDispatch_lazy_fixed :
    let uuid := Re.lit [85, 85, 73, 68]
    let hex32 := Re.lit [104, 101, 120, 51, 50]
    let re := bdPat [Re.plusOf (Re.cls [48, 57]) (lazy := true), uuid, hex32]
    let reFix := bdPat [Re.repOf (Re.cls [48, 57]) 2 2 (lazy := true), uuid, hex32]
    isBranchDispatchPattern Ref.isAsciiLetter re = false ∧ (metaBranchDispatcher Ref.isAsciiLetter re).isNone = true ∧
    Ref.refFind re #[49, 49] 0 = some (0, 1) ∧
    isBranchDispatchPattern Ref.isAsciiLetter reFix = true ∧
    (metaBranchDispatcher Ref.isAsciiLetter reFix).map (fun d => d.search #[49, 49, 49]) = some (some (0, 2)) ∧
    Ref.refFind reFix #[49, 49, 49] 0 = some (0, 2) := by
  decide

set_option maxRecDepth 1000000 in
/-- FIXED (was: `(?m)^` and look-around accepted): `(?m)^(foo|bar)` (`OpBeginLine`: may also match after a newline —
    "x\nfoo" has the match `(2,5)`), `^(foo|bar)\b` (trailing assertion) and `^(foo\b|bar)` (assertion inside a branch)
    are rejected. -/
theorem branchDispatch_anchor_fixed :
    let foo := Re.lit [102, 111, 111]
    let bar := Re.lit [98, 97, 114]
    let reM := Re.cat [Re.leaf .beginLine, Re.cap (Re.alt [foo, bar])]
    let reB := Re.cat [Re.leaf .beginText, Re.cap (Re.alt [foo, bar]), Re.leaf .wordBoundary]
    let reB2 := bdPat [Re.cat [foo, Re.leaf .wordBoundary], bar]
    isBranchDispatchPattern Ref.isAsciiLetter reM = false ∧ (metaBranchDispatcher Ref.isAsciiLetter reM).isNone = true ∧
    Ref.refFind reM #[120, 10, 102, 111, 111] 0 = some (2, 5) ∧
    isBranchDispatchPattern Ref.isAsciiLetter reB = false ∧ (metaBranchDispatcher Ref.isAsciiLetter reB).isNone = true ∧
    isBranchDispatchPattern Ref.isAsciiLetter reB2 = false := by
  decide

set_option maxRecDepth 1000000 in
/-- FIXED (was: runes above U+007F written as single bytes): `^(é|x)` — the literal is the two steps C3 A9: "é" matches,
    the ill-formed byte E9 does not; a class with a member above U+007F (`^([a-bé]|x)`) and the literal U+FFFD (what
    every ill-formed byte decodes to) are rejected. -/
theorem branchDispatch_utf8_fixed :
    let re := bdPat [Re.lit [0xE9], Re.lit [120]]
    isBranchDispatchPattern Ref.isAsciiLetter re = true ∧
    (metaBranchDispatcher Ref.isAsciiLetter re).map (fun d => d.search #[0xC3, 0xA9, 120]) = some (some (0, 2)) ∧
    Ref.refFind re #[0xC3, 0xA9, 120] 0 = some (0, 2) ∧
    (metaBranchDispatcher Ref.isAsciiLetter re).map (fun d => d.search #[0xE9]) = some none ∧
    Ref.refFind re #[0xE9] 0 = none ∧
    isBranchDispatchPattern Ref.isAsciiLetter (bdPat [Re.cls [97, 98, 0xE9, 0xE9], Re.lit [120]]) = false ∧
    isBranchDispatchPattern Ref.isAsciiLetter (bdPat [Re.lit [0xFFFD], Re.lit [120]]) = false := by
  decide

set_option maxRecDepth 1000000 in
/-- other rejections that keep the dispatcher exact: overlapping first bytes (`^(ab|ac)`), a branch that can match the
    empty string (`^(a*|b)`, `^(|b)`), a repetition that does not end the branch (`^(a+b|c)`), a repeated element that is
    not one byte (`^((?:ab)+|c)`), `.` (`^(.|x)`), a nested alternation (`^((?:a|b)|c)`), a single branch. -/
theorem branchDispatch_rejections :
    isBranchDispatchPattern Ref.isAsciiLetter (bdPat [Re.lit [97, 98], Re.lit [97, 99]]) = false ∧
    isBranchDispatchPattern Ref.isAsciiLetter (bdPat [Re.starOf (Re.lit [97]), Re.lit [98]]) = false ∧
    isBranchDispatchPattern Ref.isAsciiLetter (bdPat [Re.leaf .emptyMatch, Re.lit [98]]) = false ∧
    isBranchDispatchPattern Ref.isAsciiLetter (bdPat [Re.cat [Re.plusOf (Re.lit [97]), Re.lit [98]], Re.lit [99]]) = false ∧
    isBranchDispatchPattern Ref.isAsciiLetter (bdPat [Re.plusOf (Re.lit [97, 98]), Re.lit [99]]) = false ∧
    isBranchDispatchPattern Ref.isAsciiLetter (bdPat [Re.leaf .anyCharNotNL, Re.lit [120]]) = false ∧
    isBranchDispatchPattern Ref.isAsciiLetter (bdPat [Re.alt [Re.lit [97], Re.lit [98]], Re.lit [99]]) = false ∧
    isBranchDispatchPattern Ref.isAsciiLetter (bdPat [Re.lit [97]]) = false := by
  decide

set_option maxRecDepth 1000000 in
/-- positive witness `^(foo|ba[rz]|qux)`: accepted, and the dispatcher answers the reference result -/
theorem branchDispatch_accepted_literals :
    let re := bdPat [Re.lit [102, 111, 111], Re.cat [Re.lit [98, 97], Re.cls [114, 114, 122, 122]], Re.lit [113, 117, 120]]
    isBranchDispatchPattern Ref.isAsciiLetter re = true ∧
    (metaBranchDispatcher Ref.isAsciiLetter re).map (fun d => d.search #[98, 97, 122, 122]) = some (some (0, 3)) ∧
    Ref.refFind re #[98, 97, 122, 122] 0 = some (0, 3) ∧
    (metaBranchDispatcher Ref.isAsciiLetter re).map (fun d => d.search #[98, 97, 120]) = some none ∧
    Ref.refFind re #[98, 97, 120] 0 = none ∧
    (metaBranchDispatcher Ref.isAsciiLetter re).map (fun d => d.search #[120, 102, 111, 111]) = some none ∧
    Ref.refFind re #[120, 102, 111, 111] 0 = none ∧
    (metaBranchDispatcher Ref.isAsciiLetter re).map (fun d => d.search #[]) = some none ∧
    Ref.refFind re #[] 0 = none := by
  decide

set_option maxRecDepth 1000000 in
/-- positive witness `^(\d+|UUID|hex)`: accepted, and the dispatcher answers the reference result -/
theorem branchDispatch_accepted_digits :
    let re := bdPat [Re.plusOf (Re.cls [48, 57]), Re.lit [85, 85, 73, 68], Re.lit [104, 101, 120]]
    isBranchDispatchPattern Ref.isAsciiLetter re = true ∧
    (metaBranchDispatcher Ref.isAsciiLetter re).map (fun d => d.search #[49, 50, 51, 120]) = some (some (0, 3)) ∧
    Ref.refFind re #[49, 50, 51, 120] 0 = some (0, 3) ∧
    (metaBranchDispatcher Ref.isAsciiLetter re).map (fun d => d.search #[85, 85, 73, 68, 49]) = some (some (0, 4)) ∧
    Ref.refFind re #[85, 85, 73, 68, 49] 0 = some (0, 4) ∧
    (metaBranchDispatcher Ref.isAsciiLetter re).map (fun d => d.search #[104, 101]) = some none ∧
    Ref.refFind re #[104, 101] 0 = none ∧
    (metaBranchDispatcher Ref.isAsciiLetter re).map (fun d => d.isMatch #[104, 101, 120]) = some true ∧
    (metaBranchDispatcher Ref.isAsciiLetter re).map (fun d => d.searchAt #[120, 49] 1) = some none ∧
    Ref.refFind re #[120, 49] 1 = none := by
  decide

set_option maxRecDepth 1000000 in
/-- positive witness `^(?:a\d{2,3}|bcd?)` (no capture group, bounded tail, optional last byte) -/
theorem branchDispatch_accepted_bounded :
    let re := Re.cat [Re.leaf .beginText,
      Re.alt [Re.cat [Re.lit [97], Re.repOf (Re.cls [48, 57]) 2 3], Re.cat [Re.lit [98, 99], Re.questOf (Re.lit [100])]]]
    isBranchDispatchPattern Ref.isAsciiLetter re = true ∧
    (metaBranchDispatcher Ref.isAsciiLetter re).map (fun d => d.search #[97, 49, 50, 51, 52]) = some (some (0, 4)) ∧
    Ref.refFind re #[97, 49, 50, 51, 52] 0 = some (0, 4) ∧
    (metaBranchDispatcher Ref.isAsciiLetter re).map (fun d => d.search #[97, 49]) = some none ∧
    Ref.refFind re #[97, 49] 0 = none ∧
    (metaBranchDispatcher Ref.isAsciiLetter re).map (fun d => d.search #[98, 99, 100, 100]) = some (some (0, 3)) ∧
    Ref.refFind re #[98, 99, 100, 100] 0 = some (0, 3) ∧
    (metaBranchDispatcher Ref.isAsciiLetter re).map (fun d => d.search #[98, 99]) = some (some (0, 2)) ∧
    Ref.refFind re #[98, 99] 0 = some (0, 2) := by
  decide

set_option maxRecDepth 1000000 in
/-- why `branchDispatcher_eq_reference` keeps the hypothesis `FoldSound hasFold` (a fact about `unicode.SimpleFold`, not a
    restriction of the dispatcher): with a `hasFold` that denies the letter `A` its case variant, `(?i)^(a|b)` (stored as
    `A`, `B`) is accepted and misses "a", which the reference matcher (and Go) matches. -/
theorem branchDispatch_foldSound_needed :
    let re := bdPat [Re.litFold [65], Re.litFold [66]]
    let noFold : Nat → Bool := fun _ => false
    ¬ FoldSound noFold ∧
    isBranchDispatchPattern noFold re = true ∧
    (metaBranchDispatcher noFold re).map (fun d => d.search #[97]) = some none ∧
    Ref.refFind re #[97] 0 = some (0, 1) := by
  refine ⟨fun hc => absurd (hc 65 (by decide)) (by decide), ?_⟩
  decide

/-- `n` capture groups around `x` -/
def nestCap : Nat → Re → Re
  | 0, x => x
  | n+1, x => Re.cap (nestCap n x)

set_option maxRecDepth 1000000 in
/-- why `branchDispatcher_eq_reference` keeps the hypothesis `RefDepthOK re` (a limit of the REFERENCE matcher): the
    dispatcher strips any number of capture groups, `Ref.fuelFor` measures the pattern only 32 levels deep.  With 300 groups
    around `(a|b)` the dispatcher still answers `(0,1)` on "a", the reference matcher runs out of fuel. -/
theorem branchDispatch_depth_needed :
    let re := Re.cat [Re.leaf .beginText, nestCap 300 (Re.alt [Re.lit [97], Re.lit [98]])]
    ¬ RefDepthOK re ∧
    isBranchDispatchPattern Ref.isAsciiLetter re = true ∧
    (metaBranchDispatcher Ref.isAsciiLetter re).map (fun d => d.search #[97]) = some (some (0, 1)) ∧
    Ref.refFind re #[97] 0 = none := by
  decide

/-! ### ExtractFirstBytes (after the case-folding / multi-byte fix and the assertion fix of nfa/firstbytes.go) -/

/-- a three-entry excerpt of the `unicode.SimpleFold` orbits (what the loop appends for `A`, `K`, `S`), enough for the
    witnesses below; it satisfies the part of `OrbitSound` they exercise -/
def cexOrbit (r : Nat) : List Nat :=
  if r = 65 then [97] else if r = 75 then [107, 0x212A] else if r = 83 then [115, 0x17F] else []

set_option maxRecDepth 1000000 in
/-- FIXED (was: `FoldCase` ignored): `(?i)^ab` (literal stored as "AB"): the set is now `{'A','a'}` and "ab" passes.
    `(?i)^k` (stored as "K"): `{'K','k',0xE2}` — 0xE2 is the lead byte of U+212A KELVIN SIGN, which Go folds with `k`
    (the reference matcher does not: it folds ASCII letters only, so that member is justified by `firstBytes_literal_orbit`,
    not by a `Ref` match). -/
theorem firstBytes_foldCase_fixed :
    let re := Re.cat [Re.leaf .beginText, Re.litFold [65, 66]]
    let rk := Re.cat [Re.leaf .beginText, Re.litFold [75]]
    fbFrag 21 re = true ∧
    (extractFirstBytes cexOrbit re).map (fun fb => (fb.isUseful, fb.count, fb.contains 65, fb.contains 97)) =
      some (true, 2, true, true) ∧
    Ref.refFind re #[97, 98] 0 = some (0, 2) ∧
    (extractFirstBytes cexOrbit rk).map (fun fb => (fb.isUseful, fb.count, fb.contains 75, fb.contains 107, fb.contains 0xE2)) =
      some (true, 3, true, true, true) := by
  decide

set_option maxRecDepth 1000000 in
/-- why `firstBytes_filter_sound` keeps the hypothesis `OrbitSound foldOrbit`: it is a fact about `unicode.SimpleFold`
    (the model's parameter must list at least the ASCII case variants).  With an EMPTY orbit function the model is the old
    code: `(?i)^ab` gives `{'A'}` and "ab" is rejected although the pattern matches it. -/
theorem firstBytes_orbitSound_needed :
    let re := Re.cat [Re.leaf .beginText, Re.litFold [65, 66]]
    fbFrag 21 re = true ∧
    (extractFirstBytes (fun _ => []) re).map (fun fb => (fb.isUseful, fb.contains 97)) = some (true, false) ∧
    Ref.refFind re #[97, 98] 0 = some (0, 2) := by
  decide

set_option maxRecDepth 1000000 in
/-- FIXED (was: Latin-1 runes used as bytes): `^[é-ë]x`: the set is now every byte `0x80..0xFF` (128 of them), so "éx"
    (C3 A9 78) passes; the literal `^éx` gives exactly `{0xC3}`, the UTF-8 lead byte. -/
theorem firstBytes_latin1_fixed :
    let re := Re.cat [Re.leaf .beginText, Re.cls [0xE9, 0xEB], Re.lit [120]]
    let rl := Re.cat [Re.leaf .beginText, Re.lit [0xE9, 120]]
    fbFrag 21 re = true ∧
    (extractFirstBytes cexOrbit re).map (fun fb => (fb.isUseful, fb.count, fb.contains 0xC3, fb.contains 0x7F)) =
      some (true, 128, true, false) ∧
    Ref.refFind re #[0xC3, 0xA9, 120] 0 = some (0, 3) ∧
    (extractFirstBytes cexOrbit rl).map (fun fb => (fb.isUseful, fb.count, fb.contains 0xC3, fb.contains 0xE9)) =
      some (true, 1, true, false) ∧
    Ref.refFind rl #[0xC3, 0xA9, 120] 0 = some (0, 3) := by
  decide

set_option maxRecDepth 1000000 in
/-- FIXED (was: a zero-width alternative contributed no byte but left the set "complete"): `^(?:ab|^)+x` gave `{'a'}`, so
    "x" was rejected although the pattern matches it (`[0 1]`).  The bare `^` branch now makes the extraction fail: `nil`,
    no filter. -/
theorem firstBytes_emptyBranch_fixed :
    let re := Re.cat [Re.leaf .beginText, Re.plusOf (Re.alt [Re.lit [97, 98], Re.leaf .beginText]), Re.lit [120]]
    fbFrag 21 re = true ∧
    extractFirstBytes cexOrbit re = none ∧
    Ref.refFind re #[120] 0 = some (0, 1) := by
  decide

set_option maxRecDepth 1000000 in
/-- FIXED (was: `\A` as an alternative answered `true` without a byte): `^(?:a|^)` gave `{'a'}`, complete and useful, so
    "b" was rejected — but the pattern matches the empty string at offset 0 of "b" (`regexp`: `[0 0]`).  Now `nil`. -/
theorem firstBytes_beginAnchor_fixed :
    let re := Re.cat [Re.leaf .beginText, Re.alt [Re.lit [97], Re.leaf .beginText]]
    fbFrag 21 re = true ∧
    extractFirstBytes cexOrbit re = none ∧
    Ref.refFind re #[98] 0 = some (0, 0) := by
  decide

set_option maxRecDepth 1000000 in
/-- FIXED (was: `(?m)$` in first position answered `true` without a byte): `^(?m:x|$\na)` gave `{'x'}`, so "\na" was
    rejected although the pattern matches it (`$` holds before the line feed, then `\na` is consumed: `[0 2]`); the
    concatenation now skips the leading `$`, the set is `{'\n','x'}` and "\na" passes.  `^(?m:a|$)` (bare `$` branch,
    matches "\nb" with `[0 0]`) now gives `nil`. -/
theorem firstBytes_endLine_fixed :
    let re := Re.cat [Re.leaf .beginText, Re.alt [Re.lit [120], Re.cat [Re.leaf .endLine, Re.lit [10, 97]]]]
    let r2 := Re.cat [Re.leaf .beginText, Re.alt [Re.lit [97], Re.leaf .endLine]]
    fbFrag 21 re = true ∧
    (extractFirstBytes cexOrbit re).map (fun fb => (fb.isUseful, fb.count, fb.contains 10, fb.contains 120)) =
      some (true, 2, true, true) ∧
    Ref.refFind re #[10, 97] 0 = some (0, 2) ∧
    fbFrag 21 r2 = true ∧
    extractFirstBytes cexOrbit r2 = none ∧
    Ref.refFind r2 #[10, 98] 0 = some (0, 0) := by
  decide

set_option maxRecDepth 1000000 in
/-- FIXED (was: an anchor inside a capture group was not skipped by the concatenation loop and answered `true` without a
    byte): `^(?:x|(^)a)` gave `{'x'}`, so "a" was rejected although the pattern matches it.  `(^)` is now recognised as
    assertion-only and skipped: the set is `{'a','x'}`.  Likewise `(?:^)+`, `((\A)$)`; a concatenation of nothing but
    such elements gives `nil`. -/
theorem firstBytes_captureAnchor_fixed :
    let re := Re.cat [Re.leaf .beginText, Re.alt [Re.lit [120], Re.cat [Re.cap (Re.leaf .beginText), Re.lit [97]]]]
    let r2 := Re.cat [Re.plusOf (Re.leaf .beginLine), Re.cap (Re.cat [Re.cap (Re.leaf .beginText), Re.leaf .endLine]), Re.lit [97]]
    let r3 := Re.cat [Re.plusOf (Re.leaf .beginLine), Re.cap (Re.cat [Re.cap (Re.leaf .beginText), Re.leaf .endLine])]
    fbFrag 21 re = true ∧
    (extractFirstBytes cexOrbit re).map (fun fb => (fb.isUseful, fb.count, fb.contains 97, fb.contains 120)) =
      some (true, 2, true, true) ∧
    Ref.refFind re #[97] 0 = some (0, 1) ∧
    (extractFirstBytes cexOrbit r2).map (fun fb => (fb.isUseful, fb.count, fb.contains 97)) = some (true, 1, true) ∧
    extractFirstBytes cexOrbit r3 = none := by
  decide

set_option maxRecDepth 1000000 in
/-- what `isAssertionOnly` does NOT skip (each can hold without consuming, but is not one of the four anchors, or can be
    skipped altogether): `\b`, `\B`, the empty regexp, `(?:^)*`, `(?:^)?`, `(?:^){2}`, `^|$` — in first position of a
    concatenation the extraction recurses into them and fails: `nil`, never an unsound set. -/
theorem firstBytes_notAssertionOnly_nil :
    let a := Re.lit [97]
    [Re.leaf .wordBoundary, Re.leaf .noWordBoundary, Re.leaf .emptyMatch, Re.starOf (Re.leaf .beginText),
     Re.questOf (Re.leaf .beginText), Re.repOf (Re.leaf .beginText) 2 2,
     Re.alt [Re.leaf .beginText, Re.leaf .endText]].all (fun z =>
       !isAssertionOnly z && (extractFirstBytes cexOrbit (Re.cat [z, a])).isNone) = true := by
  decide

set_option maxRecDepth 1000000 in
/-- why `fbFrag` excludes a literal starting with U+FFFD (the one remaining condition on parsed patterns): `^\x{FFFD}`
    gives `{0xEF}`, but the reference matcher (like `regexp`) decodes the ill-formed byte FF as U+FFFD and matches the
    haystack `FF`.  (coregex's own engines compile the literal to the byte sequence EF BF BD and do not match `FF`
    either, so the filter changes no coregex answer here.)  The pattern satisfies `fbMinOK`, and `FF` is exactly the kind
    of haystack `firstBytes_filter_sound_wellformed` excludes; the properly encoded U+FFFD (EF BF BD) is well-formed and
    passes the filter. -/
theorem firstBytes_runeError_counterexample :
    let re := Re.cat [Re.leaf .beginText, Re.lit [0xFFFD]]
    fbFrag 21 re = false ∧ fbMinOK 21 re = true ∧
    (extractFirstBytes cexOrbit re).map (fun fb => (fb.isUseful, fb.contains 0xEF, fb.contains 0xFF)) = some (true, true, false) ∧
    Ref.refFind re #[0xFF] 0 = some (0, 1) ∧ ¬ WellFormedAt #[0xFF] 0 ∧
    Ref.refFind re #[0xEF, 0xBF, 0xBD] 0 = some (0, 3) ∧ WellFormedAt #[0xEF, 0xBF, 0xBD] 0 := by
  decide

set_option maxRecDepth 1000000 in
/-- why `fbFrag` asks for `Min ≥ 0` (a PARSER INVARIANT: `syntax.Parse` never produces a negative `Min`): on the
    hand-built node `a{-1,2}` the Go test `Min == 0` fails and the set is `{'a'}`, while the reference matcher reads a
    negative minimum as 0 and matches the empty prefix of "b". -/
theorem firstBytes_negativeMin_needed :
    let re := Re.cat [Re.leaf .beginText, Re.repOf (Re.lit [97]) (-1) 2]
    fbFrag 21 re = false ∧ fbMinOK 21 re = false ∧
    (extractFirstBytes cexOrbit re).map (fun fb => (fb.isUseful, fb.contains 98)) = some (true, false) ∧
    Ref.refFind re #[98] 0 = some (0, 0) := by
  decide

set_option maxRecDepth 1000000 in
/-- `\z` / non-multiline `$` as an alternative: `^(?:a|$)` used to give `{'a'}` (harmless: the pattern matches only the
    empty haystack besides "a…", and every caller guards the filter with `len(haystack) > 0`); a bare assertion now
    always makes the set unusable: `nil`.  As the leading element of a concatenation it is skipped: `^(?:a|$b)` gives
    `{'a','b'}` (the second branch never matches). -/
theorem firstBytes_endText_nil :
    let re := Re.cat [Re.leaf .beginText, Re.alt [Re.lit [97], Re.leaf .endText]]
    let r2 := Re.cat [Re.leaf .beginText, Re.alt [Re.lit [97], Re.cat [Re.leaf .endText, Re.lit [98]]]]
    fbFrag 21 re = true ∧
    extractFirstBytes cexOrbit re = none ∧
    Ref.refFind re #[] 0 = some (0, 0) ∧ Ref.refFind re #[98] 0 = none ∧
    (extractFirstBytes cexOrbit r2).map (fun fb => (fb.isUseful, fb.count, fb.contains 97, fb.contains 98)) =
      some (true, 2, true, true) := by
  decide

set_option maxRecDepth 1000000 in
/-- patterns that can start with the empty string are refused (`nil`), not merely marked incomplete: `a*b`, `(?:|a)b`,
    `\bab`, `a{0,2}b`, `a?b` -/
theorem firstBytes_emptyPrefix_nil :
    extractFirstBytes cexOrbit (Re.cat [Re.starOf (Re.lit [97]), Re.lit [98]]) = none ∧
    extractFirstBytes cexOrbit (Re.cat [Re.alt [Re.leaf .emptyMatch, Re.lit [97]], Re.lit [98]]) = none ∧
    extractFirstBytes cexOrbit (Re.cat [Re.leaf .wordBoundary, Re.lit [97, 98]]) = none ∧
    extractFirstBytes cexOrbit (Re.cat [Re.repOf (Re.lit [97]) 0 2, Re.lit [98]]) = none ∧
    extractFirstBytes cexOrbit (Re.cat [Re.questOf (Re.lit [97]), Re.lit [98]]) = none := by
  decide

/-- `minMatch = 0` (never built by meta: `ExtractCharClassRanges` rejects `*`) is NOT exact: `cls*` matches the empty
    string at offset 0 of "x", the searcher reports no match. -/
theorem charClassSearcher_minMatch_zero_counterexample :
    let s : CharClassSearcher := { membership := #[false, true], minMatch := 0 }
    s.searchAt #[0] 0 = none ∧ ccFind s.mem 0 #[0] 0 = some (0, 0) := by
  decide


/-! ### runes 0x80–0xFF used as bytes, `FoldCase` ignored: counterexamples against the reference matcher -/

set_option maxRecDepth 1000000 in
/-- FIXED (was: Latin-1 runes used as bytes, CompositeSearcher): `[a-b\\x{e9}]+[0-9]+` is no longer accepted
    (`isValidCompositePart` rejects a class whose last rune is above U+007F).  The searcher would still miss "é1" =
    C3 A9 31 (correct `(0,3)`) and report the ill-formed E9 31, but is never selected for such a pattern. -/
theorem compositeSearcher_latin1_fixed :
    let re := Re.cat [Re.plusOf (Re.cls [97, 98, 0xE9, 0xE9]), Re.plusOf (Re.cls [48, 57])]
    isCompositeCharClassPattern re = false ∧ AllGreedy re ∧ NoZeroMax re ∧ ClassSorted re ∧ ¬ AsciiOnly re ∧
    (newCompositeSearcher re).map (fun c => c.searchAt #[0xC3, 0xA9, 49] 0) = some none ∧
    Ref.refFind re #[0xC3, 0xA9, 49] 0 = some (0, 3) ∧
    (newCompositeSearcher re).map (fun c => c.searchAt #[0xE9, 49] 0) = some (some (0, 2)) ∧
    Ref.refFind re #[0xE9, 49] 0 = none := by
  decide

set_option maxRecDepth 1000000 in
/-- why `compositeSearcher_eq_reference` keeps the two PARSER-INVARIANT hypotheses: on hand-built ASTs that violate
    them (the parser never produces these) the predicate accepts and the searcher disagrees with the reference matcher.
    `[a]{3,2}[b]+` (`¬ RepeatOK`) on "aaab": searcher nothing, reference `(0,4)`;
    a class with UNSORTED `Rune` `[é-é a-b]` (`¬ ClassSorted`; the last rune is `b`, so the U+007F test passes) followed
    by `[0-9]+` on "é1": searcher nothing, reference `(0,3)`. -/
theorem compositeSearcher_parserInvariants_needed :
    let re1 := Re.cat [Re.repOf (Re.cls [97, 97]) 3 2, Re.plusOf (Re.cls [98, 98])]
    let re2 := Re.cat [Re.plusOf (Re.cls [0xE9, 0xE9, 97, 98]), Re.plusOf (Re.cls [48, 57])]
    (isCompositeCharClassPattern re1 = true ∧ ClassSorted re1 ∧ ¬ RepeatOK re1 ∧
     (newCompositeSearcher re1).map (fun c => c.searchAt #[97, 97, 97, 98] 0) = some none ∧
     Ref.refFind re1 #[97, 97, 97, 98] 0 = some (0, 4)) ∧
    (isCompositeCharClassPattern re2 = true ∧ RepeatOK re2 ∧ ¬ ClassSorted re2 ∧
     (newCompositeSearcher re2).map (fun c => c.searchAt #[0xC3, 0xA9, 49] 0) = some none ∧
     Ref.refFind re2 #[0xC3, 0xA9, 49] 0 = some (0, 3)) := by
  decide

set_option maxRecDepth 1000000 in
/-- FIXED (was: Latin-1 literal emitted as ONE byte): `^.*\\x{e9}$` — `extractLiteral` now UTF-8-encodes every rune above
    U+007F, the suffix is C3 A9: "é" = C3 A9 is accepted, the ill-formed "\\xe9" is rejected, both as the reference
    matcher says.  A class bridge with a member above U+007F (`^.*[a-b\\x{e9}]+x$`) is no longer detected at all. -/
theorem anchoredLiteral_latin1_fixed :
    let re := Re.cat [Re.leaf .beginText, Re.starOf (Re.leaf .anyCharNotNL), Re.lit [0xE9], Re.leaf .endText]
    let reB := Re.cat [Re.leaf .beginText, Re.starOf (Re.leaf .anyCharNotNL),
                       Re.plusOf (Re.cls [97, 98, 0xE9, 0xE9]), Re.lit [120], Re.leaf .endText]
    (detectAnchoredLiteral re).map (fun info => info.sfx) = some #[0xC3, 0xA9] ∧
    (detectAnchoredLiteral re).map (fun info => matchAnchoredLiteral #[0xC3, 0xA9] info) = some true ∧
    Ref.refFind re #[0xC3, 0xA9] 0 = some (0, 2) ∧
    (detectAnchoredLiteral re).map (fun info => matchAnchoredLiteral #[0xE9] info) = some false ∧
    Ref.refFind re #[0xE9] 0 = none ∧
    (detectAnchoredLiteral reB).isNone = true := by
  decide

set_option maxRecDepth 1000000 in
/-- FIXED (was: `FoldCase` ignored, anchored literal): `(?i)^a.*b$` (literals stored folded as "A", "B") is no longer
    detected (`extractLiteral` returns nil for a `FoldCase` literal) — neither with the folded literal as prefix nor as
    suffix only; the pattern ("ab" must match: `(0,2)`) goes to the general engines. -/
theorem anchoredLiteral_foldCase_fixed :
    let re := Re.cat [Re.leaf .beginText, Re.litFold [65], Re.starOf (Re.leaf .anyCharNotNL), Re.litFold [66],
                      Re.leaf .endText]
    let reSfx := Re.cat [Re.leaf .beginText, Re.starOf (Re.leaf .anyCharNotNL), Re.litFold [66], Re.leaf .endText]
    let rePfx := Re.cat [Re.leaf .beginText, Re.litFold [65], Re.starOf (Re.leaf .anyCharNotNL), Re.lit [98],
                         Re.leaf .endText]
    (detectAnchoredLiteral re).isNone = true ∧ (detectAnchoredLiteral reSfx).isNone = true ∧
    (detectAnchoredLiteral rePfx).isNone = true ∧
    Ref.refFind re #[97, 98] 0 = some (0, 2) := by
  decide

set_option maxRecDepth 1000000 in
/-- FORMER FINDING, repaired (fix commit "the anchored-literal matcher must not accept multi-line anchors"):
    `DetectAnchoredLiteral` used to accept `(?m)^a.*b$`, and on "xx\nab" the matcher said no where a multi-line search finds
    `(3,5)`.  The line anchors no longer qualify: the pattern is rejected, whichever of the two anchors is a line anchor. -/
theorem anchoredLiteral_multiline_fixed :
    detectAnchoredLiteral (Re.cat [Re.leaf .beginLine, Re.lit [97], Re.starOf (Re.leaf .anyCharNotNL), Re.lit [98], Re.leaf .endLine]) = none ∧
    detectAnchoredLiteral (Re.cat [Re.leaf .beginText, Re.lit [97], Re.starOf (Re.leaf .anyCharNotNL), Re.lit [98], Re.leaf .endLine]) = none ∧
    detectAnchoredLiteral (Re.cat [Re.leaf .beginLine, Re.lit [97], Re.starOf (Re.leaf .anyCharNotNL), Re.lit [98], Re.leaf .endText]) = none ∧
    (detectAnchoredLiteral (Re.cat [Re.leaf .beginText, Re.lit [97], Re.starOf (Re.leaf .anyCharNotNL), Re.lit [98], Re.leaf .endText])).isSome = true ∧
    Ref.refFind (Re.cat [Re.leaf .beginLine, Re.lit [97], Re.starOf (Re.leaf .anyCharNotNL), Re.lit [98], Re.leaf .endLine])
      #[120, 120, 10, 97, 98] 0 = some (3, 5) := by
  decide

end Cx.Fast
