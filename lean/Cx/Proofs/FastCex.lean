import Cx.Proofs.Fast
/-
  Cx.Proofs.FastCex — FINDINGS as theorems: concrete inputs on which a fast-path searcher that its own applicability
  predicate accepts disagrees with the specification (all by `decide`; kernel evaluation of the models, hence the raised
  `maxRecDepth` — the 256-entry tables are built by `Array.ofFn`).
  The reference for "the correct answer" is the fragment specification where one exists (`plusFind`, `compFind` over
  `astParts`, `anchoredSpecB`) and the general leftmost-first reference matcher `Ref.refFind` otherwise; both are
  checked against Go's stdlib `regexp` by the harness.
-/
namespace Cx.Fast
open Cx Cx.Fast.Spec

set_option maxRecDepth 1000000 in
/-- FINDING (lazy quantifier ignored): `[a-c]+?` is accepted by `IsSimpleCharClassPlus`, the searcher answers the greedy
    match `(0,2)` on "ab" where leftmost-first semantics of `[a-c]+?` is `(0,1)`. -/
theorem charClassSearcher_lazy_counterexample :
    let re := Re.plusOf (Re.cls [97, 99]) (lazy := true)
    isSimpleCharClassPlus re = true ∧
    (buildCharClassSearcher re).map (fun s => s.searchAt #[97, 98] 0) = some (some (0, 2)) ∧
    (buildCharClassSearcher re).map (fun s => plusFind re.nonGreedy s.mem #[97, 98] 0) = some (some (0, 1)) ∧
    Ref.refFind re #[97, 98] 0 = some (0, 1) := by
  decide

set_option maxRecDepth 1000000 in
/-- FINDING (lazy quantifiers ignored): `[a-b]+?[b-c]*` is accepted by `IsCompositeCharClassPattern`; on "aa" the
    searcher answers the greedy `(0,2)`, leftmost-first semantics is `(0,1)`. -/
theorem compositeSearcher_lazy_counterexample :
    let re := Re.cat [Re.plusOf (Re.cls [97, 98]) (lazy := true), Re.starOf (Re.cls [98, 99])]
    isCompositeCharClassPattern re = true ∧ ¬ AllGreedy re ∧
    (newCompositeSearcher re).map (fun c => c.searchAt #[97, 97] 0) = some (some (0, 2)) ∧
    (astParts re).map (fun ps => compFind ps #[97, 97] 0) = some (some (0, 1)) ∧
    Ref.refFind re #[97, 97] 0 = some (0, 1) := by
  decide

set_option maxRecDepth 1000000 in
/-- FINDING (`maxMatch = 0` means "unlimited"): `[a-b]{0}[b-c]+` is accepted; `{0}` becomes `maxMatch = 0`, which the
    searcher reads as unbounded, i.e. it runs `[a-b]*[b-c]+`.  On "ab": searcher `(0,2)`, semantics `(1,2)`. -/
theorem compositeSearcher_zeroMax_counterexample :
    let re := Re.cat [Re.repOf (Re.cls [97, 98]) 0 0, Re.plusOf (Re.cls [98, 99])]
    isCompositeCharClassPattern re = true ∧ AllGreedy re ∧ ¬ NoZeroMax re ∧
    (newCompositeSearcher re).map (fun c => c.searchAt #[97, 98] 0) = some (some (0, 2)) ∧
    (astParts re).map (fun ps => compFind ps #[97, 98] 0) = some (some (1, 2)) ∧
    Ref.refFind re #[97, 98] 0 = some (1, 2) := by
  decide

set_option maxRecDepth 1000000 in
/-- FINDING (`.` matches `\\n`): `^a.*b$` is accepted; on "a\\nb" the matcher says `true`, the specification (`.` does not
    match a newline) says `false`. -/
theorem anchoredLiteral_newline_counterexample :
    let re := Re.cat [Re.leaf .beginText, Re.lit [97], Re.starOf (Re.leaf .anyCharNotNL), Re.lit [98], Re.leaf .endText]
    wildcardDotNL re = false ∧
    (detectAnchoredLiteral re).map (fun info => matchAnchoredLiteral #[97, 10, 98] info) = some true ∧
    (detectAnchoredLiteral re).map (fun info => anchoredSpecB (wildcardDotNL re) info #[97, 10, 98]) = some false ∧
    Ref.refFind re #[97, 10, 98] 0 = none := by
  decide

set_option maxRecDepth 1000000 in
/-- FINDING (everything after the alternation is ignored): `^(ab|cd)e` on "abx": dispatcher `(0,2)`, correct: no match -/
theorem branchDispatch_trailing_counterexample :
    let re := Re.cat [Re.leaf .beginText, Re.cap (Re.alt [Re.lit [97, 98], Re.lit [99, 100]]), Re.lit [101]]
    isBranchDispatchPattern re = true ∧
    (metaBranchDispatcher re).map (fun d => d.search #[97, 98, 120]) = some (some (0, 2)) ∧
    Ref.refFind re #[97, 98, 120] 0 = none := by
  decide

set_option maxRecDepth 1000000 in
/-- FINDING (only the leading literal of a concatenation branch is checked): `^(a[bc]|d)` on "ax": dispatcher `(0,1)`,
    correct: no match -/
theorem branchDispatch_concat_counterexample :
    let re := Re.cat [Re.leaf .beginText,
      Re.cap (Re.alt [Re.cat [Re.lit [97], Re.cls [98, 99]], Re.lit [100]])]
    isBranchDispatchPattern re = true ∧
    (metaBranchDispatcher re).map (fun d => d.search #[97, 120]) = some (some (0, 1)) ∧
    Ref.refFind re #[97, 120] 0 = none := by
  decide

set_option maxRecDepth 1000000 in
/-- FINDING ("conservative" fallback `return 0, 1, true`): `^([ab][bc]|d)` on "a": dispatcher `(0,1)`, correct: no match;
    and `^(a+|b)` on "aa": dispatcher `(0,1)`, correct `(0,2)` -/
theorem branchDispatch_fallback_counterexample :
    let re1 := Re.cat [Re.leaf .beginText,
      Re.cap (Re.alt [Re.cat [Re.cls [97, 98], Re.cls [98, 99]], Re.lit [100]])]
    let re2 := Re.cat [Re.leaf .beginText, Re.cap (Re.alt [Re.plusOf (Re.lit [97]), Re.lit [98]])]
    (isBranchDispatchPattern re1 = true ∧
     (metaBranchDispatcher re1).map (fun d => d.search #[97]) = some (some (0, 1)) ∧
     Ref.refFind re1 #[97] 0 = none) ∧
    (isBranchDispatchPattern re2 = true ∧
     (metaBranchDispatcher re2).map (fun d => d.search #[97, 97]) = some (some (0, 1)) ∧
     Ref.refFind re2 #[97, 97] 0 = some (0, 2)) := by
  decide

set_option maxRecDepth 1000000 in
/-- FINDING (`FoldCase` ignored; the parser stores the folded literal as "AB"): `(?i)^(ab|cd)` on "ab": dispatcher: no
    match, correct `(0,2)` -/
theorem branchDispatch_foldCase_counterexample :
    let re := Re.cat [Re.leaf .beginText, Re.cap (Re.alt [Re.litFold [65, 66], Re.litFold [67, 68]])]
    isBranchDispatchPattern re = true ∧
    (metaBranchDispatcher re).map (fun d => d.search #[97, 98]) = some none ∧
    Ref.refFind re #[97, 98] 0 = some (0, 2) := by
  decide

set_option maxRecDepth 1000000 in
/-- FINDING (`FoldCase` ignored): `(?i)^ab` (literal stored as "AB"): the set is `{'A'}`, complete and useful, so "ab" is
    rejected by its first byte although the pattern matches it. -/
theorem firstBytes_foldCase_counterexample :
    let re := Re.cat [Re.leaf .beginText, Re.litFold [65, 66]]
    (extractFirstBytes re).map (fun fb => (fb.isUseful, fb.contains 97)) = some (true, false) ∧
    Ref.refFind re #[97, 98] 0 = some (0, 2) := by
  decide

set_option maxRecDepth 1000000 in
/-- FINDING (Latin-1 runes used as bytes): `^[é-ë]x`: the set is `{0xE9,0xEA,0xEB}`, but "éx" starts with byte 0xC3. -/
theorem firstBytes_latin1_counterexample :
    let re := Re.cat [Re.leaf .beginText, Re.cls [0xE9, 0xEB], Re.lit [120]]
    (extractFirstBytes re).map (fun fb => (fb.isUseful, fb.contains 0xC3)) = some (true, false) ∧
    Ref.refFind re #[0xC3, 0xA9, 120] 0 = some (0, 3) := by
  decide

set_option maxRecDepth 1000000 in
/-- FINDING (a zero-width alternative contributes no byte but leaves the set "complete"): `^(?:ab|^)+x`: the set is
    `{'a'}`, so "x" is rejected although the pattern matches it. -/
theorem firstBytes_emptyBranch_counterexample :
    let re := Re.cat [Re.leaf .beginText, Re.plusOf (Re.alt [Re.lit [97, 98], Re.leaf .beginText]), Re.lit [120]]
    (extractFirstBytes re).map (fun fb => (fb.isUseful, fb.contains 120)) = some (true, false) ∧
    Ref.refFind re #[120] 0 = some (0, 1) := by
  decide

/-- `minMatch = 0` (never built by meta: `ExtractCharClassRanges` rejects `*`) is NOT exact: `cls*` matches the empty
    string at offset 0 of "x", the searcher reports no match. -/
theorem charClassSearcher_minMatch_zero_counterexample :
    let s : CharClassSearcher := { membership := #[false, true], minMatch := 0 }
    s.searchAt #[0] 0 = none ∧ ccFind s.mem 0 #[0] 0 = some (0, 0) := by
  decide


/-! ### runes 0x80–0xFF used as bytes, `FoldCase` ignored: counterexamples against the reference matcher -/

set_option maxRecDepth 1000000 in
/-- FINDING (Latin-1 runes used as bytes, CompositeSearcher): `[a-b\x{e9}]+[0-9]+` is accepted and a searcher is built
    (`extractSinglePart` only rejects runes `> 255`); on "é1" = C3 A9 31 the searcher finds nothing, correct `(0,3)`;
    on the ill-formed E9 31 it reports `(0,2)`, correct: no match. -/
theorem compositeSearcher_latin1_counterexample :
    let re := Re.cat [Re.plusOf (Re.cls [97, 98, 0xE9, 0xE9]), Re.plusOf (Re.cls [48, 57])]
    isCompositeCharClassPattern re = true ∧ AllGreedy re ∧ NoZeroMax re ∧ ¬ AsciiOnly re ∧
    (newCompositeSearcher re).map (fun c => c.searchAt #[0xC3, 0xA9, 49] 0) = some none ∧
    Ref.refFind re #[0xC3, 0xA9, 49] 0 = some (0, 3) ∧
    (newCompositeSearcher re).map (fun c => c.searchAt #[0xE9, 49] 0) = some (some (0, 2)) ∧
    Ref.refFind re #[0xE9, 49] 0 = none := by
  decide

set_option maxRecDepth 1000000 in
/-- FINDING (Latin-1 literal emitted as ONE byte, anchored literal): `^.*\x{e9}$` — `extractLiteral` UTF-8-encodes runes
    `> 255` only, so the suffix is the single byte E9: "é" = C3 A9 is rejected (correct: match), the ill-formed "\xe9"
    is accepted (correct: no match). -/
theorem anchoredLiteral_latin1_counterexample :
    let re := Re.cat [Re.leaf .beginText, Re.starOf (Re.leaf .anyCharNotNL), Re.lit [0xE9], Re.leaf .endText]
    (detectAnchoredLiteral re).map (fun info => matchAnchoredLiteral #[0xC3, 0xA9] info) = some false ∧
    Ref.refFind re #[0xC3, 0xA9] 0 = some (0, 2) ∧
    (detectAnchoredLiteral re).map (fun info => matchAnchoredLiteral #[0xE9] info) = some true ∧
    Ref.refFind re #[0xE9] 0 = none := by
  decide

set_option maxRecDepth 1000000 in
/-- FINDING (`FoldCase` ignored, anchored literal): `(?i)^a.*b$` (literals stored folded as "A", "B"): "ab" is rejected,
    correct: match `(0,2)`. -/
theorem anchoredLiteral_foldCase_counterexample :
    let re := Re.cat [Re.leaf .beginText, Re.litFold [65], Re.starOf (Re.leaf .anyCharNotNL), Re.litFold [66],
                      Re.leaf .endText]
    (detectAnchoredLiteral re).map (fun info => matchAnchoredLiteral #[97, 98] info) = some false ∧
    Ref.refFind re #[97, 98] 0 = some (0, 2) := by
  decide

set_option maxRecDepth 1000000 in
/-- FINDING (line anchors accepted, predicate level — meta only reaches the matcher for `\A`-anchored patterns):
    `DetectAnchoredLiteral` accepts `(?m)^a.*b$`; on "xx\nab" the matcher says no, a multi-line search finds `(3,5)`. -/
theorem anchoredLiteral_multiline_counterexample :
    let re := Re.cat [Re.leaf .beginLine, Re.lit [97], Re.starOf (Re.leaf .anyCharNotNL), Re.lit [98], Re.leaf .endLine]
    (detectAnchoredLiteral re).map (fun info => anchoredFindAt #[120, 120, 10, 97, 98] info 0) = some none ∧
    Ref.refFind re #[120, 120, 10, 97, 98] 0 = some (3, 5) := by
  decide

end Cx.Fast
